(* C12 — soundness of the lock-discipline checkers of Model/Locks.v.

   1. chk_sound: if a checker reports no violation for a program, every trace one goroutine can
      perform (any sequence of complete entry-point runs, calls inlined, callbacks running
      further entry points) satisfies the per-trace discipline from the empty held set.
   2. race_free: in the N-thread RW-lock machine, traces that satisfy the lock-set discipline
      never reach a state where two goroutines are about to perform conflicting checked
      accesses — for every number of goroutines, every choice of traces, every schedule.
   3. no_lock_cycle: traces that satisfy the rank discipline never reach a state with a
      wait-for cycle among checked acquisitions (writer preference included, so RLock under
      RLock is covered). *)
From Coq Require Import List Arith Bool Lia Relations.
Require Import Locks.
Import ListNotations.

(* ---------- small facts ---------- *)

Lemma mode_eqb_eq a b : mode_eqb a b = true -> a = b.
Proof. destruct a, b; simpl; congruence. Qed.

Lemma lk_eqb_eq a b : lk_eqb a b = true -> a = b.
Proof.
  destruct a as [m md], b as [m' md']; unfold lk_eqb; simpl; intro H.
  apply andb_true_iff in H as [H1 H2]. apply Nat.eqb_eq in H1. apply mode_eqb_eq in H2. congruence.
Qed.

Lemma lk_eqb_refl a : lk_eqb a a = true.
Proof. destruct a as [m md]; unfold lk_eqb; simpl. rewrite Nat.eqb_refl. now destruct md. Qed.

Lemma dact_eqb_eq a b : dact_eqb a b = true -> a = b.
Proof.
  destruct a, b; simpl; try congruence; intro H.
  - apply andb_true_iff in H as [H1 H2]. apply Nat.eqb_eq in H1. apply mode_eqb_eq in H2. congruence.
  - apply Nat.eqb_eq in H. congruence.
Qed.

Lemma list_eqb_eq {A} (eqb : A -> A -> bool) :
  (forall x y, eqb x y = true -> x = y) -> forall a b, list_eqb eqb a b = true -> a = b.
Proof.
  intros He a; induction a as [|x a IH]; destruct b as [|y b]; simpl; try congruence; intro H.
  apply andb_true_iff in H as [H1 H2]. f_equal; auto.
Qed.

Lemma held_eqb_eq a b : held_eqb a b = true -> a = b.
Proof. apply list_eqb_eq, lk_eqb_eq. Qed.

Lemma cfg_eqb_eq a b : cfg_eqb a b = true -> a = b.
Proof.
  destruct a, b; unfold cfg_eqb; simpl; intro H. apply andb_true_iff in H as [H1 H2].
  apply held_eqb_eq in H1. apply (list_eqb_eq _ dact_eqb_eq) in H2. congruence.
Qed.

Lemma outcome_eqb_eq a b : outcome_eqb a b = true -> a = b.
Proof. destruct a, b; simpl; try congruence. intro H; apply Nat.eqb_eq in H; congruence. Qed.

Lemma outcome_eqb_refl a : outcome_eqb a a = true.
Proof. destruct a; simpl; auto. apply Nat.eqb_refl. Qed.

Lemma oc_eqb_eq a b : oc_eqb a b = true -> a = b.
Proof.
  destruct a, b; unfold oc_eqb; simpl; intro H. apply andb_true_iff in H as [H1 H2].
  apply outcome_eqb_eq in H1. apply cfg_eqb_eq in H2. congruence.
Qed.

Lemma dedup_In {A} (eqb : A -> A -> bool) :
  (forall x y, eqb x y = true -> x = y) -> forall l x, In x l -> In x (dedup eqb l).
Proof.
  intros He l; induction l as [|y l IH]; simpl; auto. intros x [<-|Hx].
  - destruct (existsb (eqb y) l) eqn:E.
    + apply existsb_exists in E as (z & Hz & Ez). apply He in Ez. subst z. auto.
    + now left.
  - destruct (existsb (eqb y) l); [auto | right; auto].
Qed.

Lemma flat_map_nil {A B} (f : A -> list B) l : flat_map f l = [] -> forall x, In x l -> f x = [].
Proof.
  induction l as [|y l IH]; simpl; [tauto|]. intros H x [<-|Hx].
  - now apply app_eq_nil in H.
  - apply app_eq_nil in H as [_ H]. auto.
Qed.

Lemma in_ins x y h : In x (ins y h) <-> x = y \/ In x h.
Proof.
  induction h as [|z h IH]; simpl.
  - intuition.
  - destruct (lk_leb y z); simpl; intuition.
Qed.

Lemma in_remove1 x y h : In x (remove1 y h) -> In x h.
Proof.
  induction h as [|z h IH]; simpl; auto. destruct (lk_eqb y z); simpl; intuition.
Qed.

Lemma is_nil_true {A} (l : list A) : is_nil l = true -> l = [].
Proof. destruct l; simpl; congruence. Qed.

(* ---------- the per-trace discipline ---------- *)

Section Disc.
Variable extra : held -> ev -> bool.
Notation okt := (ok_trace extra).

Lemma ok_app h a b : okt h (a ++ b) <-> okt h a /\ okt (after h a) b.
Proof.
  revert h; induction a as [|e a IH]; intro h; simpl.
  - tauto.
  - rewrite IH. tauto.
Qed.

Lemma after_app h a b : after h (a ++ b) = after (after h a) b.
Proof. revert h; induction a as [|e a IH]; intro h; simpl; auto. Qed.

Lemma okev_yield h : okev extra h (EYield false) = true -> h = [].
Proof. simpl. intro H. apply andb_true_iff in H as [H _]. now apply is_nil_true. Qed.

End Disc.

(* ---------- soundness of the checker ---------- *)

(* unfolding equations of the checker (one unit of fuel per level) *)
Section Eqs.
Variable p : program.
Variable extra : held -> ev -> bool.
Variables (n : nat) (c : ctx) (k : cfg).
Notation chk := (chk p extra).
Lemma chk_skip : chk (S n) c Skip k = ([], [(ONormal, k)]). Proof. reflexivity. Qed.
Lemma chk_acq m md : chk (S n) c (Acq m md) k = do_ev extra c (EAcq m md (xin (cx_ex c) (XOrd m))) k. Proof. reflexivity. Qed.
Lemma chk_rel m md : chk (S n) c (Rel m md) k = do_ev extra c (ERel m md) k. Proof. reflexivity. Qed.
Lemma chk_defer d : chk (S n) c (Defer d) k = ([], [(ONormal, (fst k, d :: snd k))]). Proof. reflexivity. Qed.
Lemma chk_rd l : chk (S n) c (Rd l) k = do_ev extra c (ERd l (xin (cx_ex c) (XLoc l))) k. Proof. reflexivity. Qed.
Lemma chk_wr l : chk (S n) c (Wr l) k = do_ev extra c (EWr l (xin (cx_ex c) (XLoc l))) k. Proof. reflexivity. Qed.
Lemma chk_call f : chk (S n) c (Call f) k =
  (fst (chk_frame p extra n (push p c f) (body p f) (fst k)),
   map (fun h => (ONormal, (h, snd k))) (snd (chk_frame p extra n (push p c f) (body p f) (fst k)))).
Proof. reflexivity. Qed.
Lemma chk_go s : chk (S n) c (Go s) k = ([], [(ONormal, k)]). Proof. reflexivity. Qed.
Definition seq_cont b (ok : outcome * cfg) : res :=
  if is_normal (fst ok) then chk n c b (snd ok) else ([], [ok]).
Lemma chk_seq a b : chk (S n) c (Seq a b) k =
  (fst (chk n c a k) ++ flat_map fst (map (seq_cont b) (snd (chk n c a k))),
   dedup oc_eqb (flat_map snd (map (seq_cont b) (snd (chk n c a k))))).
Proof. reflexivity. Qed.
Lemma chk_alt bs : chk (S n) c (Alt bs) k =
  (flat_map fst (map (fun b => chk n c b k) bs), dedup oc_eqb (flat_map snd (map (fun b => chk n c b k) bs))).
Proof. reflexivity. Qed.
Definition loop_bad (ok : outcome * cfg) : bool := is_normal (fst ok) && negb (cfg_eqb (snd ok) k).
Definition not_normal (ok : outcome * cfg) : bool := negb (is_normal (fst ok)).
Lemma chk_loop b : chk (S n) c (Loop b) k =
  (fst (chk n c b k) ++ (if is_nil (filter loop_bad (snd (chk n c b k))) then [] else [vio c VLoop (fst k)]),
   dedup oc_eqb ((ONormal, k) :: filter not_normal (snd (chk n c b k)))).
Proof. reflexivity. Qed.
Definition catch l (ok : outcome * cfg) : outcome * cfg :=
  if outcome_eqb (fst ok) (OJump l) then (ONormal, snd ok) else ok.
Lemma chk_block l b : chk (S n) c (Block l b) k =
  (fst (chk n c b k), dedup oc_eqb (map (catch l) (snd (chk n c b k)))).
Proof. reflexivity. Qed.
Lemma chk_jump l : chk (S n) c (Jump l) k = ([], [(OJump l, k)]). Proof. reflexivity. Qed.
Lemma chk_ret : chk (S n) c Ret k = ([], [(ORet, k)]). Proof. reflexivity. Qed.
Lemma chk_callback : chk (S n) c Callback k = do_ev extra c (EYield (xin (cx_ex c) XYield)) k. Proof. reflexivity. Qed.
Lemma chk_join : chk (S n) c Join k = do_ev extra c (EYield (xin (cx_ex c) XYield)) k. Proof. reflexivity. Qed.
Lemma chk_unknown : chk (S n) c Unknown k = ([vio c VUnknown (fst k)], []). Proof. reflexivity. Qed.
Lemma chk_0 s : chk 0 c s k = ([vio c VFuel (fst k)], []). Proof. reflexivity. Qed.

Definition unw (ok : outcome * cfg) := chk_unwind p extra n c (snd (snd ok)) (fst (snd ok)).
Lemma chk_frame_S s h : chk_frame p extra (S n) c s h =
  (fst (chk n c s (h, [])) ++ flat_map fst (map unw (snd (chk n c s (h, [])))),
   dedup held_eqb (flat_map snd (map unw (snd (chk n c s (h, [])))))).
Proof. reflexivity. Qed.
Lemma chk_frame_0 s h : chk_frame p extra 0 c s h = ([vio c VFuel h], []). Proof. reflexivity. Qed.
Lemma chk_unwind_0 ds h : chk_unwind p extra 0 c ds h = ([vio c VFuel h], []). Proof. reflexivity. Qed.
Lemma chk_unwind_nil h : chk_unwind p extra (S n) c [] h = ([], [h]). Proof. reflexivity. Qed.
Lemma chk_unwind_rel m md r h : chk_unwind p extra (S n) c (DRel m md :: r) h =
  ((if okev extra h (ERel m md) then [] else [vio c (VEvent (ERel m md)) h]) ++
     fst (chk_unwind p extra n c r (step_held h (ERel m md))),
   snd (chk_unwind p extra n c r (step_held h (ERel m md)))).
Proof. reflexivity. Qed.
Lemma chk_unwind_call f r h : chk_unwind p extra (S n) c (DCall f :: r) h =
  (fst (chk_frame p extra n (push p c f) (body p f) h) ++
     flat_map fst (map (chk_unwind p extra n c r) (snd (chk_frame p extra n (push p c f) (body p f) h))),
   dedup held_eqb (flat_map snd (map (chk_unwind p extra n c r) (snd (chk_frame p extra n (push p c f) (body p f) h))))).
Proof. reflexivity. Qed.
Lemma chk_unwind_yield r h : chk_unwind p extra (S n) c (DYield :: r) h =
  ((if okev extra h (EYield (xin (cx_ex c) XYield)) then [] else [vio c (VEvent (EYield (xin (cx_ex c) XYield))) h]) ++
     fst (chk_unwind p extra n c r h),
   snd (chk_unwind p extra n c r h)).
Proof. reflexivity. Qed.
End Eqs.

Scheme exec_mind := Minimality for exec Sort Prop
  with frame_mind := Minimality for frame Sort Prop
  with unwind_mind := Minimality for unwind Sort Prop
  with runs_mind := Minimality for runs Sort Prop.
Combined Scheme sem_mind from exec_mind, frame_mind, unwind_mind, runs_mind.

Section Sound.
Variable p : program.
Variable extra : held -> ev -> bool.
Notation okt := (ok_trace extra).

(* every entry point passes the check from the empty held set (with some amount of fuel) *)
Variable N : nat.
Hypothesis G : forall fs, In fs (all_entries p) -> chk_entry p extra N fs = [].

Lemma do_ev_ok c e h ds :
  fst (do_ev extra c e (h, ds)) = [] ->
  okev extra h e = true /\ snd (do_ev extra c e (h, ds)) = [(ONormal, (step_held h e, ds))].
Proof.
  unfold do_ev; simpl. destruct (okev extra h e); [auto | discriminate].
Qed.

Local Arguments do_ev : simpl never.

Ltac fuel0 fuel H :=
  destruct fuel as [|fuel];
  [first [rewrite chk_0 in H | rewrite chk_frame_0 in H | rewrite chk_unwind_0 in H]; discriminate H|].

Ltac evcase H :=
  apply do_ev_ok in H as [?H1 ?H2]; rewrite H2; simpl; auto.

Lemma chk_sound :
  (forall ex s ds tr o ds', exec p ex s ds tr o ds' ->
     forall fuel c h, cx_ex c = ex -> fst (chk p extra fuel c s (h, ds)) = [] ->
       okt h tr /\ In (o, (after h tr, ds')) (snd (chk p extra fuel c s (h, ds)))) /\
  (forall ex s tr, frame p ex s tr ->
     forall fuel c h, cx_ex c = ex -> fst (chk_frame p extra fuel c s h) = [] ->
       okt h tr /\ In (after h tr) (snd (chk_frame p extra fuel c s h))) /\
  (forall ex ds tr, unwind p ex ds tr ->
     forall fuel c h, cx_ex c = ex -> fst (chk_unwind p extra fuel c ds h) = [] ->
       okt h tr /\ In (after h tr) (snd (chk_unwind p extra fuel c ds h))) /\
  (forall tr, runs p tr -> okt [] tr /\ after [] tr = []).
Proof.
  apply sem_mind.
  - (* Skip *) intros ex ds fuel c h _ H. fuel0 fuel H. rewrite chk_skip. simpl. auto.
  - (* Acq *) intros ex m md ds fuel c h Hc H. fuel0 fuel H. rewrite chk_acq in *. subst ex. evcase H.
  - (* Rel *) intros ex m md ds fuel c h Hc H. fuel0 fuel H. rewrite chk_rel in *. evcase H.
  - (* Defer *) intros ex d ds fuel c h _ H. fuel0 fuel H. rewrite chk_defer. simpl. auto.
  - (* Rd *) intros ex l ds fuel c h Hc H. fuel0 fuel H. rewrite chk_rd in *. subst ex. evcase H.
  - (* Wr *) intros ex l ds fuel c h Hc H. fuel0 fuel H. rewrite chk_wr in *. subst ex. evcase H.
  - (* Call *) intros ex f ds tr _ IH fuel c h Hc H. fuel0 fuel H. rewrite chk_call in *. cbn [fst snd] in H |- *.
    destruct (IH fuel (push p c f) h) as [O I]; [simpl; now subst ex | exact H |].
    split; auto. apply in_map_iff. exists (after h tr). auto.
  - (* Go *) intros ex s ds fuel c h _ H. fuel0 fuel H. rewrite chk_go. simpl. auto.
  - (* Seq normal *) intros ex a b ds tr1 ds1 tr2 o ds2 _ IH1 _ IH2 fuel c h Hc H. fuel0 fuel H.
    rewrite chk_seq in *. cbn [fst snd] in H |- *.
    apply app_eq_nil in H as [Ha Hb].
    destruct (IH1 fuel c h Hc Ha) as [O1 I1].
    pose proof (flat_map_nil _ _ Hb _ (in_map (seq_cont p extra fuel c b) _ _ I1)) as Hb'.
    unfold seq_cont in Hb'. simpl in Hb'.
    destruct (IH2 fuel c (after h tr1) Hc Hb') as [O2 I2].
    split; [apply ok_app; auto|].
    apply dedup_In; [apply oc_eqb_eq|]. apply in_flat_map.
    eexists; split; [apply in_map; exact I1|]. unfold seq_cont. simpl. now rewrite after_app.
  - (* Seq exit *) intros ex a b ds tr o ds1 _ IH1 Ho fuel c h Hc H. fuel0 fuel H.
    rewrite chk_seq in *. cbn [fst snd] in H |- *.
    apply app_eq_nil in H as [Ha Hb].
    destruct (IH1 fuel c h Hc Ha) as [O1 I1]. split; auto.
    apply dedup_In; [apply oc_eqb_eq|]. apply in_flat_map.
    eexists; split; [apply in_map; exact I1|]. unfold seq_cont. simpl.
    destruct o; simpl; auto; congruence.
  - (* Alt *) intros ex bs b ds tr o ds1 Hin _ IH fuel c h Hc H. fuel0 fuel H.
    rewrite chk_alt in *. cbn [fst snd] in H |- *.
    pose proof (flat_map_nil _ _ H _ (in_map (fun b => chk p extra fuel c b (h, ds)) _ _ Hin)) as Hb.
    destruct (IH fuel c h Hc Hb) as [O I]. split; auto.
    apply dedup_In; [apply oc_eqb_eq|]. apply in_flat_map.
    eexists; split; [apply in_map; exact Hin|]. exact I.
  - (* Loop 0 *) intros ex s ds fuel c h _ H. fuel0 fuel H. rewrite chk_loop. cbn [fst snd]. split; [simpl; auto|].
    apply dedup_In; [apply oc_eqb_eq|]. now left.
  - (* Loop n *) intros ex s ds tr1 ds1 tr2 o ds2 _ IH1 _ IH2 fuel c h Hc H.
    pose proof H as H0. fuel0 fuel H. rewrite chk_loop in H. cbn [fst snd] in H.
    apply app_eq_nil in H as [Ha Hb].
    destruct (IH1 fuel c h Hc Ha) as [O1 I1].
    assert ((after h tr1, ds1) = (h, ds)) as E.
    { destruct (is_nil (filter (loop_bad (h, ds)) (snd (chk p extra fuel c s (h, ds))))) eqn:Eb; [|discriminate Hb].
      apply is_nil_true in Eb.
      destruct (cfg_eqb (after h tr1, ds1) (h, ds)) eqn:Ec; [now apply cfg_eqb_eq|].
      exfalso.
      assert (In (ONormal, (after h tr1, ds1)) (filter (loop_bad (h, ds)) (snd (chk p extra fuel c s (h, ds))))) as X.
      { apply filter_In. split; auto. unfold loop_bad. simpl. now rewrite Ec. }
      rewrite Eb in X. destruct X. }
    injection E as E1 E2. subst ds1.
    destruct (IH2 (S fuel) c (after h tr1) Hc) as [O2 I2]; [now rewrite E1|].
    split; [apply ok_app; auto|]. rewrite after_app. rewrite E1 in I2 |- *. exact I2.
  - (* Loop exit *) intros ex s ds tr o ds1 _ IH Ho fuel c h Hc H. fuel0 fuel H.
    rewrite chk_loop in *. cbn [fst snd] in H |- *.
    apply app_eq_nil in H as [Ha _].
    destruct (IH fuel c h Hc Ha) as [O I]. split; auto.
    apply dedup_In; [apply oc_eqb_eq|]. right. apply filter_In. split; auto.
    unfold not_normal. simpl. destruct o; simpl; auto; congruence.
  - (* Block catch *) intros ex lbl s ds tr ds1 _ IH fuel c h Hc H. fuel0 fuel H.
    rewrite chk_block in *. cbn [fst snd] in H |- *.
    destruct (IH fuel c h Hc H) as [O I]. split; auto.
    apply dedup_In; [apply oc_eqb_eq|]. apply in_map_iff.
    eexists; split; [|exact I]. unfold catch. simpl. now rewrite Nat.eqb_refl.
  - (* Block pass *) intros ex lbl s ds tr o ds1 _ IH Ho fuel c h Hc H. fuel0 fuel H.
    rewrite chk_block in *. cbn [fst snd] in H |- *.
    destruct (IH fuel c h Hc H) as [O I]. split; auto.
    apply dedup_In; [apply oc_eqb_eq|]. apply in_map_iff.
    eexists; split; [|exact I]. unfold catch. simpl.
    destruct (outcome_eqb o (OJump lbl)) eqn:E; auto. apply outcome_eqb_eq in E. congruence.
  - (* Jump *) intros ex lbl ds fuel c h _ H. fuel0 fuel H. rewrite chk_jump. simpl. auto.
  - (* Ret *) intros ex ds fuel c h _ H. fuel0 fuel H. rewrite chk_ret. simpl. auto.
  - (* Callback exempt *) intros ex ds Hx fuel c h Hc H. fuel0 fuel H. rewrite chk_callback in *. subst ex. rewrite Hx in *.
    evcase H.
  - (* Callback *) intros ex ds tr Hx _ [IHo IHa] fuel c h Hc H. fuel0 fuel H. rewrite chk_callback in *. subst ex. rewrite Hx in *.
    apply do_ev_ok in H as [H1 H2]. rewrite H2.
    pose proof (okev_yield _ _ H1) as ->. simpl. rewrite IHa. auto.
  - (* Join *) intros ex ds fuel c h Hc H. fuel0 fuel H. rewrite chk_join in *. subst ex. evcase H.
  - (* Unknown *) intros ex ds tr o ds1 fuel c h _ H. fuel0 fuel H. rewrite chk_unknown in H. discriminate.
  - (* frame *) intros ex s tr1 o ds tr2 _ IH1 _ IH2 fuel c h Hc H. fuel0 fuel H.
    rewrite chk_frame_S in *. cbn [fst snd] in H |- *.
    apply app_eq_nil in H as [Ha Hb].
    destruct (IH1 fuel c h Hc Ha) as [O1 I1].
    pose proof (flat_map_nil _ _ Hb _ (in_map (unw p extra fuel c) _ _ I1)) as Hu. unfold unw in Hu. simpl in Hu.
    destruct (IH2 fuel c (after h tr1) Hc Hu) as [O2 I2].
    split; [apply ok_app; auto|]. rewrite after_app.
    apply dedup_In; [apply held_eqb_eq|]. apply in_flat_map.
    eexists; split; [apply in_map; exact I1|]. exact I2.
  - (* unwind nil *) intros ex fuel c h _ H. fuel0 fuel H. rewrite chk_unwind_nil. simpl. auto.
  - (* unwind rel *) intros ex m md ds tr _ IH fuel c h Hc H. fuel0 fuel H.
    rewrite chk_unwind_rel in *. cbn [fst snd] in H |- *.
    apply app_eq_nil in H as [Ha Hb].
    destruct (IH fuel c _ Hc Hb) as [O I]. split; auto.
    split; auto. destruct (okev extra h (ERel m md)); [auto|discriminate].
  - (* unwind call *) intros ex f ds tr1 tr2 _ IH1 _ IH2 fuel c h Hc H. fuel0 fuel H.
    rewrite chk_unwind_call in *. cbn [fst snd] in H |- *.
    apply app_eq_nil in H as [Ha Hb].
    destruct (IH1 fuel (push p c f) h) as [O1 I1]; [simpl; now subst ex | exact Ha |].
    pose proof (flat_map_nil _ _ Hb _ (in_map (chk_unwind p extra fuel c ds) _ _ I1)) as Hu.
    destruct (IH2 fuel c _ Hc Hu) as [O2 I2].
    split; [apply ok_app; auto|]. rewrite after_app.
    apply dedup_In; [apply held_eqb_eq|]. apply in_flat_map.
    eexists; split; [apply in_map; exact I1|]. exact I2.
  - (* unwind yield exempt *) intros ex ds tr Hx _ IH fuel c h Hc H. fuel0 fuel H.
    rewrite chk_unwind_yield in *. subst ex. rewrite Hx in *. cbn [fst snd] in H |- *.
    apply app_eq_nil in H as [Ha Hb].
    destruct (IH fuel c h eq_refl Hb) as [O I]. split; auto. split; auto.
    destruct (okev extra h (EYield true)); [auto|discriminate].
  - (* unwind yield *) intros ex ds tr1 tr2 Hx _ [IHo IHa] _ IH fuel c h Hc H. fuel0 fuel H.
    rewrite chk_unwind_yield in *. subst ex. rewrite Hx in *. cbn [fst snd] in H |- *.
    apply app_eq_nil in H as [Ha Hb].
    assert (okev extra h (EYield false) = true) as Hy.
    { destruct (okev extra h (EYield false)); [auto|discriminate]. }
    pose proof (okev_yield _ _ Hy) as ->.
    destruct (IH fuel c [] eq_refl Hb) as [O I].
    split.
    + split; [exact Hy|]. simpl. apply ok_app. rewrite IHa. auto.
    + cbn [after step_held]. rewrite after_app, IHa. exact I.
  - (* runs nil *) simpl. auto.
  - (* runs cons *) intros f s tr1 tr2 Hin _ IHf _ [IHo IHa].
    pose proof (G _ Hin) as Hg. unfold chk_entry in Hg. simpl in Hg.
    apply app_eq_nil in Hg as [Hg1 Hg2].
    destruct (IHf N {| cx_ex := excl_of p f; cx_stack := [f] |} [] eq_refl Hg1) as [O I].
    pose proof (flat_map_nil _ _ Hg2 _ I) as Hb.
    assert (after [] tr1 = []) as E.
    { destruct (after [] tr1); auto. simpl in Hb. discriminate. }
    split; [apply ok_app; rewrite E; auto|]. now rewrite after_app, E.
Qed.

Theorem runs_ok tr : runs p tr -> okt [] tr.
Proof. intro H. now apply chk_sound in H. Qed.

End Sound.

Lemma violations_nil p extra n :
  is_nil (violations p extra n) = true -> forall fs, In fs (all_entries p) -> chk_entry p extra n fs = [].
Proof.
  intros H. apply is_nil_true in H. intros fs Hin. exact (flat_map_nil _ _ H _ Hin).
Qed.

(* ---------- the machine ---------- *)

Lemma nth_upd_same s i t t0 : nth_error s i = Some t0 -> nth_error (upd s i t) i = Some t.
Proof. revert i; induction s; destruct i; simpl; try discriminate; auto. Qed.

Lemma nth_upd_other s i j t : i <> j -> nth_error (upd s i t) j = nth_error s j.
Proof.
  revert i j; induction s as [|x s IH]; intros i j Hij; destruct i, j; simpl; auto; try congruence;
    try (apply IH; congruence).
Qed.

Section Machine.
Variable extra : held -> ev -> bool.

Definition all_ok (s : mstate) := forall i t, nth_error s i = Some t -> ok_trace extra (hs t) (rest t).

(* writer exclusive *)
Definition consistent (s : mstate) :=
  forall i j ti tj m, i <> j -> nth_error s i = Some ti -> nth_error s j = Some tj ->
    t_holds_w ti m -> ~ t_holds_any tj m.

Definition Inv s := all_ok s /\ consistent s.

Lemma all_ok_upd s i t t' : all_ok s -> nth_error s i = Some t ->
  ok_trace extra (hs t') (rest t') -> all_ok (upd s i t').
Proof.
  intros Hok Hn Ht k tk Hk. destruct (Nat.eq_dec i k) as [<-|Ne].
  - erewrite nth_upd_same in Hk by eauto. now injection Hk as <-.
  - rewrite nth_upd_other in Hk by auto. eauto.
Qed.

Lemma cons_upd_sub s i t t' : consistent s -> nth_error s i = Some t ->
  (forall x, In x (hs t') -> In x (hs t)) -> consistent (upd s i t').
Proof.
  intros Hc Hn Sub a b ta tb m0 Hab Ha Hb Wa Ab.
  assert (forall k tk, nth_error (upd s i t') k = Some tk ->
            exists tk', nth_error s k = Some tk' /\ (forall x, In x (hs tk) -> In x (hs tk'))) as X.
  { intros k tk Hk. destruct (Nat.eq_dec i k) as [<-|Ne].
    - erewrite nth_upd_same in Hk by eauto. injection Hk as <-. eauto.
    - rewrite nth_upd_other in Hk by auto. eauto. }
  destruct (X _ _ Ha) as (ta' & Ha' & Ea). destruct (X _ _ Hb) as (tb' & Hb' & Eb).
  apply (Hc a b ta' tb' m0 Hab Ha' Hb').
  - now apply Ea.
  - destruct Ab as [md Ab]. exists md. now apply Eb.
Qed.

Lemma cons_upd_acq s i t m md r : consistent s -> nth_error s i = Some t -> can_acq s m md ->
  consistent (upd s i {| hs := ins (m, md) (hs t); rest := r |}).
Proof.
  intros Hc Hn Hcan a b ta tb m0 Hab Ha Hb Wa Ab.
  destruct (Nat.eq_dec i a) as [Eia|Nia]; destruct (Nat.eq_dec i b) as [Eib|Nib];
    try subst a; try subst b; try congruence.
  - erewrite nth_upd_same in Ha by eauto. injection Ha as <-.
    rewrite nth_upd_other in Hb by auto.
    unfold t_holds_w in Wa; simpl in Wa. apply in_ins in Wa as [Wa|Wa].
    + injection Wa as -> <-. simpl in Hcan. exact (Hcan b tb Hb Ab).
    + exact (Hc i b t tb m0 Hab Hn Hb Wa Ab).
  - rewrite nth_upd_other in Ha by auto. erewrite nth_upd_same in Hb by eauto. injection Hb as <-.
    destruct Ab as [md' Ab]; simpl in Ab. apply in_ins in Ab as [Ab|Ab].
    + injection Ab as -> ->. destruct md; simpl in Hcan.
      * exact (Hcan a ta Ha Wa).
      * apply (Hcan a ta Ha). exists MW. exact Wa.
    + apply (Hc a i ta t m0 Hab Ha Hn Wa). now exists md'.
  - rewrite nth_upd_other in Ha, Hb by auto. exact (Hc a b ta tb m0 Hab Ha Hb Wa Ab).
Qed.

Lemma step_inv s s' : Inv s -> mstep s s' -> Inv s'.
Proof.
  intros [Hok Hc] St.
  destruct St as [s i t m md x r Hn Hr Hcan | s i t e r Hn Hr Hne];
    pose proof (Hok _ _ Hn) as Ot; rewrite Hr in Ot; simpl in Ot; destruct Ot as [O1 O2].
  - split; [eapply all_ok_upd; eauto | eapply cons_upd_acq; eauto].
  - split; [eapply all_ok_upd; eauto | eapply cons_upd_sub; eauto]. simpl.
    destruct e; simpl; auto.
    + exfalso. eapply Hne; eauto.
    + intro y; apply in_remove1.
Qed.

Lemma steps_inv s0 s : Inv s0 -> msteps s0 s -> Inv s.
Proof. intros I Hs; induction Hs as [|s0 s1 s2 H12 IH St]; auto. eapply step_inv; [apply IH; exact I|exact St]. Qed.

Lemma init_inv traces : Forall (ok_trace extra []) traces -> Inv (init_state traces).
Proof.
  intro Hall. split.
  - intros i t Hi. unfold init_state in Hi. rewrite nth_error_map in Hi.
    destruct (nth_error traces i) eqn:E; [|discriminate]. injection Hi as <-. simpl.
    rewrite Forall_forall in Hall. apply Hall. eapply nth_error_In; eauto.
  - intros i j ti tj m _ Hi _ W _. unfold init_state in Hi. rewrite nth_error_map in Hi.
    destruct (nth_error traces i); [|discriminate]. injection Hi as <-. destruct W.
Qed.

End Machine.

(* ---------- race freedom from the lock-set discipline ---------- *)

Lemma holds_w_In h m : holds_w h m = true -> In (m, MW) h.
Proof.
  unfold holds_w. intro H. apply existsb_exists in H as (y & Hy & E). apply lk_eqb_eq in E. now subst y.
Qed.

Lemma holds_any_In h m : holds_any h m = true -> exists md, In (m, md) h.
Proof.
  unfold holds_any. intro H. apply existsb_exists in H as ([m' md] & Hy & E). simpl in E.
  apply Nat.eqb_eq in E. subst m'. eauto.
Qed.

Lemma no_race guard s : Inv (ls_extra guard) s -> ~ race s.
Proof.
  intros [Hok Hc] (i & j & ti & tj & l & ri & rj & Hij & Hi & Hj & Ei & Ej).
  pose proof (Hok _ _ Hi) as Oi. rewrite Ei in Oi. simpl in Oi. destruct Oi as [Wi _].
  apply holds_w_In in Wi.
  assert (t_holds_any tj (guard l)) as Aj.
  { pose proof (Hok _ _ Hj) as Oj.
    destruct Ej as [Ej|Ej]; rewrite Ej in Oj; simpl in Oj; destruct Oj as [X _].
    - apply holds_w_In in X. now exists MW.
    - now apply holds_any_In in X. }
  exact (Hc i j ti tj (guard l) Hij Hi Hj Wi Aj).
Qed.

Theorem race_free guard traces s :
  Forall (ok_trace (ls_extra guard) []) traces -> msteps (init_state traces) s -> ~ race s.
Proof.
  intros Hall Hs. apply (no_race guard). eapply steps_inv; [|exact Hs]. now apply init_inv.
Qed.

(* ---------- no lock cycle from the rank discipline ---------- *)

Section Order.
Variable rank : nat -> nat.

Definition want (s : mstate) (i : nat) : option (nat * mode) :=
  match nth_error s i with
  | Some t => match rest t with EAcq m md false :: _ => Some (m, md) | _ => None end
  | None => None
  end.

(* along a wait-for path the rank of the wanted mutex grows, or stays and goes from a
   reader to a pending writer *)
Definition P (s : mstate) (i k : nat) : Prop :=
  exists mi mdi mk mdk, want s i = Some (mi, mdi) /\ want s k = Some (mk, mdk) /\
    (rank mi < rank mk \/ (rank mi = rank mk /\ mdi = MR /\ mdk = MW)).

Lemma ord_held s j tj m md r : all_ok (ord_extra rank) s -> nth_error s j = Some tj ->
  rest tj = EAcq m md false :: r -> forall m' md', In (m', md') (hs tj) -> rank m' < rank m.
Proof.
  intros Hok Hj Hr m' md' Hin. pose proof (Hok _ _ Hj) as O. rewrite Hr in O. simpl in O.
  destruct O as [O _]. rewrite forallb_forall in O. specialize (O _ Hin). simpl in O.
  now apply Nat.ltb_lt in O.
Qed.

Lemma edge_P s i j : all_ok (ord_extra rank) s -> waits_for s i j -> P s i j.
Proof.
  intros Hok (ti & tj & mi & mdi & ri & mj & mdj & rj & Hi & Hj & Ei & Ej & Hw).
  exists mi, mdi, mj, mdj. unfold want. rewrite Hi, Hj, Ei, Ej. repeat split; auto.
  destruct Hw as [[_ [md' Hh]] | [[_ Hh] | (E1 & E2 & E3)]].
  - left. eapply ord_held; eauto.
  - left. eapply ord_held; eauto.
  - right. subst. auto.
Qed.

Lemma path_P s i k : all_ok (ord_extra rank) s -> clos_trans_1n nat (waits_for s) i k -> P s i k.
Proof.
  intros Hok Hp. induction Hp as [i k E | i j k E _ IH].
  - now apply edge_P.
  - apply edge_P in E; auto.
    destruct E as (mi & mdi & mj & mdj & Wi & Wj & C1).
    destruct IH as (mj' & mdj' & mk & mdk & Wj' & Wk & C2).
    rewrite Wj in Wj'. injection Wj' as <- <-.
    exists mi, mdi, mk, mdk. repeat split; auto.
    destruct C1 as [C1|(C1 & C1' & C1'')]; destruct C2 as [C2|(C2 & C2' & C2'')]; subst;
      first [left; lia | congruence].
Qed.

Theorem no_cycle s i : all_ok (ord_extra rank) s -> ~ clos_trans nat (waits_for s) i i.
Proof.
  intros Hok Hc. apply clos_trans_t1n in Hc. apply path_P in Hc; auto.
  destruct Hc as (mi & mdi & mk & mdk & W1 & W2 & C). rewrite W1 in W2. injection W2 as <- <-.
  destruct C as [C|(_ & C1 & C2)]; [lia | congruence].
Qed.

Theorem no_lock_cycle traces s i :
  Forall (ok_trace (ord_extra rank) []) traces -> msteps (init_state traces) s ->
  ~ clos_trans nat (waits_for s) i i.
Proof.
  intros Hall Hs. apply no_cycle.
  assert (Inv (ord_extra rank) s) as I by (eapply steps_inv; [|exact Hs]; now apply init_inv).
  apply I.
Qed.

(* a goroutine that waits at a checked dynamic call / WaitGroup.Wait holds no mutex, so it
   is never the target of a wait-for edge *)
Theorem yield_holds_nothing traces s i t r :
  Forall (ok_trace (ord_extra rank) []) traces -> msteps (init_state traces) s ->
  nth_error s i = Some t -> rest t = EYield false :: r -> hs t = [].
Proof.
  intros Hall Hs Hi Hr.
  assert (Inv (ord_extra rank) s) as I by (eapply steps_inv; [|exact Hs]; now apply init_inv).
  destruct I as [Hok _]. pose proof (Hok _ _ Hi) as O. rewrite Hr in O. destruct O as [O _].
  now apply okev_yield in O.
Qed.

End Order.

(* ---------- the theorems of the property ---------- *)

(* every write happens with the guard held exclusively, every read with it held at least shared *)
Theorem lockset_sound p :
  check_locksets p = true ->
  forall tr, runs p tr ->
    forall a e b, tr = a ++ e :: b ->
      match e with
      | EWr l false => In (guard_of p l, MW) (after [] a)
      | ERd l false => exists md, In (guard_of p l, md) (after [] a)
      | ERel m md => In (m, md) (after [] a)
      | EYield false => after [] a = []
      | _ => True
      end.
Proof.
  intros Hc tr Hr a e b ->.
  pose proof (runs_ok p _ _ (violations_nil _ _ _ Hc) _ Hr) as O.
  apply ok_app in O as [_ O]. simpl in O. destruct O as [O _].
  destruct e as [m md x|m md|l x|l x|x]; auto.
  - simpl in O. apply andb_true_iff in O as [O _]. apply existsb_exists in O as (y & Hy & E).
    apply lk_eqb_eq in E. now subst y.
  - destruct x; auto. simpl in O. now apply holds_any_In.
  - destruct x; auto. simpl in O. now apply holds_w_In.
  - destruct x; auto. now apply okev_yield in O.
Qed.

Theorem C12_race_free_gen p :
  check_locksets p = true ->
  forall traces, Forall (runs p) traces ->
  forall s, msteps (init_state traces) s -> ~ race s.
Proof.
  intros Hc traces Hall s Hs. apply (race_free (guard_of p) traces s); [|exact Hs].
  apply Forall_forall. intros tr Htr. rewrite Forall_forall in Hall.
  exact (runs_ok p _ _ (violations_nil _ _ _ Hc) tr (Hall tr Htr)).
Qed.

Theorem C12_lock_order_gen p :
  check_order p = true ->
  forall traces, Forall (runs p) traces ->
  forall s, msteps (init_state traces) s ->
    (forall i, ~ clos_trans nat (waits_for s) i i) /\
    (forall i t r, nth_error s i = Some t -> rest t = EYield false :: r -> hs t = []).
Proof.
  intros Hc traces Hall s Hs.
  assert (Forall (ok_trace (ord_extra (rank_of p)) []) traces) as Hok.
  { apply Forall_forall. intros tr Htr. rewrite Forall_forall in Hall.
    exact (runs_ok p _ _ (violations_nil _ _ _ Hc) tr (Hall tr Htr)). }
  split.
  - intro i. eapply no_lock_cycle; eauto.
  - intros i t r. eapply yield_holds_nothing; eauto.
Qed.
