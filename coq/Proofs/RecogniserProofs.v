(* wf_lineb decides membership in the grammar: sound and complete w.r.t. render / wf_ast. *)
From Coq Require Import Lia ZifyBool ZifyN ZifyNat.
Require Import Bytes Utf8 AMap WireOut GoUpper Tags Event Grammar CodecSpec LineGrammar.
Require Import OrderLemmas AMapLemmas CodecLemmas ParseNF TagsProofs LineProofs GrammarProofs.

Arguments N.eqb : simpl never.
Arguments N.leb : simpl never.
Arguments N.ltb : simpl never.

Lemma lcut_eq : lcut = cut.
Proof. reflexivity. Qed.
Lemma lcut_cut c s : lcut c s = cut c s.
Proof. rewrite lcut_eq. reflexivity. Qed.

(* ---- soundness: whatever parse_ast returns renders back to the line ---------------------- *)

Lemma split_eol_app l : fst (split_eol l) ++ snd (split_eol l) = l.
Proof.
  induction l as [|b r IH]; [reflexivity|].
  cbn [split_eol]. destruct (split_eol r) as [body eol]. cbn [fst snd] in IH.
  destruct body as [|x body'].
  - cbn [app] in IH. subst r. destruct (is_crlf b); reflexivity.
  - cbn [fst snd app] in *. rewrite IH. reflexivity.
Qed.

Lemma split_eol_crlf l : forallb is_crlf (snd (split_eol l)) = true.
Proof.
  induction l as [|b r IH]; [reflexivity|].
  cbn [split_eol]. destruct (split_eol r) as [body eol]. cbn [snd] in IH.
  destruct body as [|x body']; [|exact IH].
  destruct (is_crlf b) eqn:E; cbn [snd forallb]; [rewrite E; exact IH|exact IH].
Qed.

Lemma parse_tag_ast_sound p kv : parse_tag_ast p = Some kv -> render_tag kv = p.
Proof.
  unfold parse_tag_ast. rewrite lcut_cut. destruct (cut 61 p) as [[k w]|] eqn:C.
  - destruct (streqb (tag_escape (tag_unescape w)) w) eqn:E; [|discriminate].
    intros H; inversion H; subst. apply streqb_eq in E. unfold render_tag. cbn [fst snd]. rewrite E.
    destruct (cut_some _ _ _ _ C) as [-> _]. reflexivity.
  - intros H; inversion H; subst. unfold render_tag. cbn [fst snd]. apply app_nil_r.
Qed.

Lemma join_split c s : join [c] (split_byte c s) = s.
Proof.
  induction s as [|x r IH]; [reflexivity|]. cbn [split_byte]. destruct (x =? c) eqn:E.
  - apply N.eqb_eq in E. subst. destruct (split_byte c r) as [|p ps] eqn:ES.
    + destruct r; cbn [split_byte] in ES; [discriminate|]. destruct (n =? c); [discriminate|destruct (split_byte c r); discriminate].
    + change (join [c] ([] :: p :: ps)) with ([] ++ [c] ++ join [c] (p :: ps)). rewrite IH. reflexivity.
  - destruct (split_byte c r) as [|p ps] eqn:ES.
    + destruct r; cbn [split_byte] in ES; [discriminate|]. destruct (n =? c); [discriminate|destruct (split_byte c r); discriminate].
    + rewrite <- IH. destruct ps; reflexivity.
Qed.

Lemma all_some_map {A B} (f : A -> option B) (g : B -> A) l out :
  (forall a b, f a = Some b -> g b = a) -> all_some (List.map f l) = Some out -> List.map g out = l.
Proof.
  intros Hfg. revert out. induction l as [|a l IH]; intros out H.
  - inversion H. reflexivity.
  - cbn [map all_some] in H. destruct (f a) as [b|] eqn:Ea; [|discriminate].
    destruct (all_some (List.map f l)) as [bs|]; [|discriminate]. inversion H; subst.
    cbn [map]. rewrite (Hfg _ _ Ea), (IH _ eq_refl). reflexivity.
Qed.

Lemma parse_tags_ast_sound t l : parse_tags_ast t = Some l -> join semi (List.map render_tag l) = t.
Proof.
  unfold parse_tags_ast. intros H.
  rewrite (all_some_map parse_tag_ast render_tag _ _ parse_tag_ast_sound H). apply join_split.
Qed.

Definition src_text' (s : str * option str * option str) : str :=
  let '(n, u, h) := s in
  n ++ (match u with Some u => 33 :: u | None => [] end) ++ (match h with Some h => 64 :: h | None => [] end).

Lemma parse_src_ast_sound s : src_text' (parse_src_ast s) = s.
Proof.
  unfold parse_src_ast. rewrite !lcut_eq.
  destruct (cut 64 s) as [[a h]|] eqn:C64.
  - destruct (cut_some _ _ _ _ C64) as [-> _].
    destruct (cut 33 a) as [[n u]|] eqn:C33.
    + destruct (cut_some _ _ _ _ C33) as [-> _]. unfold src_text'. rewrite <- !app_assoc. reflexivity.
    + unfold src_text'. reflexivity.
  - destruct (cut 33 s) as [[n u]|] eqn:C33.
    + destruct (cut_some _ _ _ _ C33) as [-> _]. unfold src_text'. rewrite app_nil_r. reflexivity.
    + unfold src_text'. rewrite !app_nil_r. reflexivity.
Qed.

Lemma span_spaces_app s : spaces (fst (span_spaces s)) ++ snd (span_spaces s) = s.
Proof.
  induction s as [|b r IH]; [reflexivity|]. cbn [span_spaces]. destruct (b =? 32) eqn:E; [|reflexivity].
  apply N.eqb_eq in E. subst. destruct (span_spaces r) as [n r']. cbn [fst snd spaces repeat app] in *.
  rewrite IH. reflexivity.
Qed.

Lemma span_token_app s : fst (span_token s) ++ snd (span_token s) = s.
Proof.
  induction s as [|b r IH]; [reflexivity|]. cbn [span_token]. destruct (b =? 32); [reflexivity|].
  destruct (span_token r) as [m r']. cbn [fst snd app] in *. rewrite IH. reflexivity.
Qed.

Lemma parse_params_sound fuel : forall s ms tr tl, parse_params_ast fuel s = Some (ms, tr, tl) ->
  render_middles ms ++ render_trailing tr tl = s.
Proof.
  induction fuel as [|f IH]; intros s ms tr tl H.
  - cbn [parse_params_ast] in H. destruct s; [|discriminate]. injection H as <- <- <-. reflexivity.
  - cbn [parse_params_ast] in H. pose proof (span_spaces_app s) as HS.
    destruct (span_spaces s) as [n r]. cbn [fst snd] in HS.
    destruct r as [|c r'].
    + injection H as <- <- <-. cbn [render_middles flat_map render_trailing app]. rewrite app_nil_r in HS. exact HS.
    + destruct n as [|k]; [discriminate|]. destruct (c =? 58) eqn:E58.
      * apply N.eqb_eq in E58. subst c. injection H as <- <- <-.
        cbn [render_middles flat_map render_trailing app]. exact HS.
      * pose proof (span_token_app (c :: r')) as HT. destruct (span_token (c :: r')) as [m r2]. cbn [fst snd] in HT.
        destruct (parse_params_ast f r2) as [[[ms' tr'] tl']|] eqn:EP; [|discriminate].
        injection H as <- <- <-. rewrite <- HS, <- HT. cbn [render_middles flat_map fst snd].
        rewrite <- !app_assoc. do 2 f_equal. exact (IH _ _ _ _ EP).
Qed.

Theorem parse_ast_sound l a : parse_ast l = Some a -> render a = l.
Proof.
  unfold parse_ast. pose proof (split_eol_app l) as HE. destruct (split_eol l) as [body eol]. cbn [fst snd] in HE.
  intros H.
  (* tags *)
  destruct (match body with
            | [] => Some (None, body)
            | c :: _ => if c =? 64 then match lcut 32 body with
                                       | Some (_ :: t, r) => match parse_tags_ast t with Some tl => Some (Some tl, r) | None => None end
                                       | _ => None end
                        else Some (None, body) end) as [[tags r1]|] eqn:ET; [|discriminate].
  assert (HT : (match tags with Some tl => render_tags tl | None => [] end) ++ r1 = body).
  { destruct body as [|c b']; [inversion ET; reflexivity|]. destruct (c =? 64) eqn:E64; [|inversion ET; reflexivity].
    rewrite lcut_cut in ET. destruct (cut 32 (c :: b')) as [[p r]|] eqn:C; [|discriminate].
    destruct p as [|p0 t]; [discriminate|]. destruct (parse_tags_ast t) as [tl|] eqn:EPT; [|discriminate].
    inversion ET; subst. destruct (cut_some _ _ _ _ C) as [Hb _]. rewrite Hb.
    cbn [app] in Hb. inversion Hb; subst. apply N.eqb_eq in E64. subst.
    unfold render_tags. rewrite (parse_tags_ast_sound _ _ EPT). cbn [app]. rewrite <- app_assoc. reflexivity. }
  (* source *)
  destruct (match r1 with
            | [] => Some (None, r1)
            | c :: _ => if c =? 58 then match lcut 32 r1 with
                                       | Some (_ :: s, r) => Some (Some (parse_src_ast s), r)
                                       | _ => None end
                        else Some (None, r1) end) as [[src r2]|] eqn:ES; [|discriminate].
  assert (HS : (match src with Some s => render_src s | None => [] end) ++ r2 = r1).
  { destruct r1 as [|c b']; [inversion ES; reflexivity|]. destruct (c =? 58) eqn:E58; [|inversion ES; reflexivity].
    rewrite lcut_cut in ES. destruct (cut 32 (c :: b')) as [[p r]|] eqn:C; [|discriminate].
    destruct p as [|p0 s]; [discriminate|]. inversion ES; subst.
    destruct (cut_some _ _ _ _ C) as [Hb _]. rewrite Hb. cbn [app] in Hb. inversion Hb; subst.
    apply N.eqb_eq in E58. subst.
    pose proof (parse_src_ast_sound s) as Hs. destruct (parse_src_ast s) as [[n u] h]. unfold render_src.
    unfold src_text' in Hs. rewrite <- Hs. cbn [app]. rewrite <- !app_assoc. reflexivity. }
  (* command and parameters *)
  rewrite lcut_cut in H. subst l body r1.
  destruct (cut 32 r2) as [[cmd after]|] eqn:CC.
  - destruct (parse_params_ast (S (length (32 :: after))) (32 :: after)) as [[[ms tr] tl]|] eqn:EP; [|discriminate].
    injection H as <-. unfold render. cbn [a_tags a_src a_cmd a_middles a_trailing a_tail a_eol].
    destruct (cut_some _ _ _ _ CC) as [-> _].
    rewrite <- (parse_params_sound _ _ _ _ _ EP). rewrite <- !app_assoc. reflexivity.
  - destruct (parse_params_ast (S (length (@nil N))) []) as [[[ms tr] tl]|] eqn:EP; [|discriminate].
    injection H as <-. unfold render. cbn [a_tags a_src a_cmd a_middles a_trailing a_tail a_eol].
    pose proof (parse_params_sound _ _ _ _ _ EP) as Hp.
    rewrite <- !app_assoc. rewrite (app_assoc (render_middles ms)). rewrite Hp. reflexivity.
Qed.

(* ---- completeness: parse_ast inverts render on well-formed ASTs --------------------------- *)

Lemma split_eol_all l : forallb is_crlf l = true -> split_eol l = ([], l).
Proof.
  induction l as [|b r IH]; intros H; [reflexivity|].
  cbn [forallb] in H. apply Bool.andb_true_iff in H. destruct H as [Hb Hr].
  cbn [split_eol]. rewrite (IH Hr), Hb. reflexivity.
Qed.

Lemma split_eol_clean body eol : forallb clean body = true -> forallb is_crlf eol = true ->
  split_eol (body ++ eol) = (body, eol).
Proof.
  intros Hb He. induction body as [|b r IH]; [apply split_eol_all; exact He|].
  cbn [forallb] in Hb. apply Bool.andb_true_iff in Hb. destruct Hb as [Hb Hr].
  cbn [app split_eol]. rewrite (IH Hr). unfold clean in Hb. apply Bool.negb_true_iff in Hb.
  destruct r; [rewrite Hb|]; reflexivity.
Qed.

Lemma wf_tag_key_notin kv c : wf_tag kv = true -> key_or_plus c = false -> ~ In c (fst kv).
Proof.
  intros H Hc. unfold wf_tag in H. apply Bool.andb_true_iff in H. destruct H as [Hk _].
  apply (valid_tag_notin _ _ (wf_key_valid_tag _ Hk) Hc).
Qed.

Lemma parse_tag_ast_complete kv : wf_tag kv = true -> parse_tag_ast (render_tag kv) = Some kv.
Proof.
  intros H. pose proof (wf_tag_key_notin kv 61 H eq_refl) as H61. destruct kv as [k ov]. cbn [fst] in H61.
  unfold parse_tag_ast, render_tag. cbn [fst snd]. rewrite lcut_cut. destruct ov as [v|].
  - rewrite cut_app by exact H61. rewrite tag_unescape_escape, streqb_refl. reflexivity.
  - rewrite app_nil_r, cut_notin by exact H61. reflexivity.
Qed.

Lemma tags_text_render l : tags_text (List.map towire l) = join semi (List.map render_tag l).
Proof.
  unfold tags_text. rewrite map_map. f_equal. apply map_ext. intros [k ov]. unfold render_tag, wire_tag, towire.
  cbn [fst snd]. destruct ov; reflexivity.
Qed.

Lemma render_tag_no59 kv : wf_tag kv = true -> ~ In 59 (render_tag kv).
Proof.
  intros H. replace (render_tag kv) with (wire_tag (towire kv))
    by (destruct kv as [k [v|]]; reflexivity).
  apply wire_tag_notin; [apply wf_tag_tag_ok; exact H|reflexivity|discriminate|].
  destruct kv as [k [v|]]; cbn [towire snd option_map]; [apply tag_escape_notin; reflexivity|exact I].
Qed.

Lemma parse_tags_ast_complete l : l <> [] -> forallb wf_tag l = true ->
  parse_tags_ast (join semi (List.map render_tag l)) = Some l.
Proof.
  intros Hne Hall. unfold parse_tags_ast. change semi with [59]. rewrite forallb_forall in Hall.
  rewrite split_join.
  - clear Hne. induction l as [|kv l IH]; [reflexivity|].
    cbn [map all_some]. rewrite parse_tag_ast_complete by (apply Hall; left; reflexivity).
    rewrite IH by (intros x Hx; apply Hall; right; exact Hx). reflexivity.
  - destruct l; [congruence|discriminate].
  - intros p Hp. apply in_map_iff in Hp. destruct Hp as [kv [<- Hkv]]. apply render_tag_no59. apply Hall. exact Hkv.
Qed.

Lemma parse_src_ast_complete s : src_ok s = true -> parse_src_ast (src_text s) = s.
Proof.
  destruct s as [[n u] h]. unfold src_ok, src_text. intros H.
  repeat (apply Bool.andb_true_iff in H; destruct H as [H ?]).
  assert (Hn33 : ~ In 33 n) by (eapply forallb_notin; [|eassumption]; reflexivity).
  assert (Hn64 : ~ In 64 n) by (eapply forallb_notin; [|eassumption]; reflexivity).
  unfold parse_src_ast. rewrite !lcut_eq.
  destruct u as [u|]; destruct h as [h|].
  - match goal with X : (nonempty u && _)%bool = true |- _ => apply Bool.andb_true_iff in X; destruct X as [_ X]; rename X into Hu end.
    assert (Hu64 : ~ In 64 u) by (eapply forallb_notin; [|exact Hu]; reflexivity).
    replace (n ++ (33 :: u) ++ 64 :: h) with ((n ++ 33 :: u) ++ 64 :: h) by (rewrite <- app_assoc; reflexivity).
    rewrite cut_app by (apply notin_app; [exact Hn64|apply notin_cons; [discriminate|exact Hu64]]).
    rewrite cut_app by exact Hn33. reflexivity.
  - match goal with X : (nonempty u && _)%bool = true |- _ => apply Bool.andb_true_iff in X; destruct X as [_ X]; rename X into Hu end.
    assert (Hu64 : ~ In 64 u) by (eapply forallb_notin; [|exact Hu]; reflexivity).
    rewrite app_nil_r.
    rewrite (cut_notin 64) by (apply notin_app; [exact Hn64|apply notin_cons; [discriminate|exact Hu64]]).
    rewrite cut_app by exact Hn33. reflexivity.
  - cbn [app]. rewrite cut_app by exact Hn64. rewrite (cut_notin 33) by exact Hn33. reflexivity.
  - rewrite !app_nil_r. rewrite (cut_notin 64), (cut_notin 33) by assumption. reflexivity.
Qed.

Definition shape (r : str) : Prop := r = [] \/ exists r', r = 32 :: r'.

Lemma span_spaces_spaces n r : (match r with c :: _ => c <> 32 | [] => True end) ->
  span_spaces (spaces n ++ r) = (n, r).
Proof.
  intros Hr. induction n as [|n IH].
  - cbn [spaces repeat app]. destruct r as [|c r']; [reflexivity|]. cbn [span_spaces].
    destruct (c =? 32) eqn:E; [apply N.eqb_eq in E; congruence|reflexivity].
  - cbn [spaces repeat app span_spaces]. rewrite N.eqb_refl. unfold spaces in IH. rewrite IH. reflexivity.
Qed.

Lemma span_token_token m r : ~ In 32 m -> shape r -> span_token (m ++ r) = (m, r).
Proof.
  intros Hm Hr. induction m as [|b m IH].
  - cbn [app]. destruct Hr as [->|[r' ->]]; [reflexivity|]. cbn [span_token]. rewrite N.eqb_refl. reflexivity.
  - cbn [app span_token]. destruct (b =? 32) eqn:E; [apply N.eqb_eq in E; subst; exfalso; apply Hm; left; reflexivity|].
    rewrite IH by (intros Hin; apply Hm; right; exact Hin). reflexivity.
Qed.

Lemma params_shape ms tr tl : shape (render_middles ms ++ render_trailing tr tl).
Proof.
  destruct ms as [|[k m] ms]; [|right; cbn [render_middles flat_map fst snd spaces repeat app]; eexists; reflexivity].
  cbn [render_middles flat_map app]. destruct tr as [[n t]|]; cbn [render_trailing].
  - right. cbn [spaces repeat app]. eexists; reflexivity.
  - destruct tl; [left; reflexivity|right; cbn [spaces repeat]; eexists; reflexivity].
Qed.

Lemma render_middles_cons k m ms : render_middles ((k, m) :: ms) = (spaces (S k) ++ m) ++ render_middles ms.
Proof. reflexivity. Qed.

Lemma parse_params_complete ms : forall tr tl fuel,
  forallb (fun nm => middle_ok (snd nm)) ms = true ->
  (match tr with Some _ => tl = 0%nat | None => True end) ->
  (length (render_middles ms ++ render_trailing tr tl) < fuel)%nat ->
  parse_params_ast fuel (render_middles ms ++ render_trailing tr tl) = Some (ms, tr, tl).
Proof.
  induction ms as [|[k m] ms IH]; intros tr tl fuel Hms Htl Hfuel.
  - destruct fuel as [|f]; [lia|]. cbn [render_middles flat_map app parse_params_ast].
    destruct tr as [[n t]|]; cbn [render_trailing].
    + subst tl. rewrite span_spaces_spaces by discriminate. rewrite N.eqb_refl. reflexivity.
    + rewrite <- (app_nil_r (spaces tl)). rewrite span_spaces_spaces by exact I. reflexivity.
  - destruct fuel as [|f]; [lia|].
    cbn [forallb snd] in Hms. apply Bool.andb_true_iff in Hms. destruct Hms as [Hm Hms].
    destruct (middle_ok_spec _ Hm) as (Hne & H32 & Hfirst).
    rewrite render_middles_cons in *. rewrite <- !app_assoc in *.
    remember (render_middles ms ++ render_trailing tr tl) as rest eqn:Erest.
    assert (Hrest : shape rest) by (subst rest; apply params_shape).
    destruct m as [|c m']; [congruence|].
    assert (Hc32 : c <> 32) by (intros ->; apply H32; left; reflexivity).
    cbn [parse_params_ast]. rewrite span_spaces_spaces by (cbn [app]; exact Hc32).
    cbn [app]. destruct (c =? 58) eqn:E58; [apply N.eqb_eq in E58; congruence|].
    change (c :: m' ++ rest) with ((c :: m') ++ rest). rewrite span_token_token by assumption.
    rewrite !app_length in Hfuel. cbn [length] in Hfuel.
    subst rest. rewrite IH; [reflexivity|exact Hms|exact Htl|lia].
Qed.

(* the body of a rendered line contains no CR / LF *)
Lemma render_body_clean a : wf_ast a ->
  forallb clean (body_of (option_map (List.map towire) (a_tags a)) (a_src a) (a_cmd a)
                         (a_middles a) (a_trailing a) (a_tail a)) = true.
Proof.
  intros Hwf. unfold wf_ast, wf_astb in Hwf.
  repeat (apply Bool.andb_true_iff in Hwf; destruct Hwf as [Hwf ?]).
  rename Hwf into Htags.
  match goal with H : wf_cmd _ = true |- _ => rename H into Hcmd end.
  match goal with H : forallb (fun nm => wf_middle (snd nm)) _ = true |- _ => rename H into Hmids end.
  match goal with H : match a_src a with _ => _ end = true |- _ => rename H into Hsrc end.
  match goal with H : match a_trailing a with _ => _ end = true |- _ => rename H into Htr end.
  destruct (wf_cmd_ok _ Hcmd) as (_ & _ & _ & Hcclean).
  unfold body_of, rest_part, tags_part, src_part. rewrite !forallb_app.
  repeat (apply Bool.andb_true_iff; split).
  - destruct (a_tags a) as [l|]; [|reflexivity]. cbn [option_map forallb]. change (clean 64) with true. cbn [andb].
    rewrite forallb_app. cbn [forallb]. change (clean 32) with true. rewrite Bool.andb_true_r.
    unfold tags_text. apply clean_join; [reflexivity|].
    rewrite forallb_forall. intros p Hp. apply in_map_iff in Hp. destruct Hp as [w [<- Hw]].
    apply in_map_iff in Hw. destruct Hw as [kv [<- Hkv]]. apply clean_wire_tag.
    destruct l as [|kv0 l0]; [destruct Hkv|]. rewrite forallb_forall in Htags. apply Htags. exact Hkv.
  - destruct (a_src a) as [s|]; [|reflexivity]. cbn [forallb]. change (clean 58) with true. cbn [andb].
    rewrite forallb_app. cbn [forallb]. change (clean 32) with true. rewrite Bool.andb_true_r.
    apply clean_src. exact Hsrc.
  - exact Hcclean.
  - apply clean_middles. exact Hmids.
  - destruct (a_trailing a) as [[n t]|]; cbn [render_trailing]; [|apply clean_spaces].
    apply Bool.andb_true_iff in Htr. destruct Htr as [Ht _].
    rewrite forallb_app, clean_spaces. cbn [forallb andb]. change (clean 58) with true. cbn [andb].
    eapply forallb_impl; [|exact Ht]. exact trailing_byte_clean.
Qed.

Theorem parse_ast_complete a : wf_ast a -> parse_ast (render a) = Some a.
Proof.
  intros Hwf. pose proof (render_body_clean a Hwf) as Hclean.
  unfold wf_ast, wf_astb in Hwf.
  repeat (apply Bool.andb_true_iff in Hwf; destruct Hwf as [Hwf ?]).
  rename Hwf into Htags.
  match goal with H : forallb is_crlf _ = true |- _ => rename H into Heol end.
  match goal with H : wf_cmd _ = true |- _ => rename H into Hcmd end.
  match goal with H : forallb (fun nm => wf_middle (snd nm)) _ = true |- _ => rename H into Hmids end.
  match goal with H : match a_src a with _ => _ end = true |- _ => rename H into Hsrc end.
  match goal with H : match a_trailing a with _ => _ end = true |- _ => rename H into Htr end.
  destruct (wf_cmd_ok _ Hcmd) as (Hcok & _ & _ & _).
  destruct (cmd_ok_spec _ Hcok) as (c0 & cr & Hc & E58 & E64 & Hc32).
  assert (Hmok : forallb (fun nm => middle_ok (snd nm)) (a_middles a) = true).
  { eapply forallb_impl; [|exact Hmids]. intros x Hx. apply wf_middle_ok in Hx. tauto. }
  assert (Htl : match a_trailing a with Some _ => a_tail a = 0%nat | None => True end).
  { destruct (a_trailing a) as [[n t]|]; [|exact I]. apply Bool.andb_true_iff in Htr. destruct Htr as [_ Ht].
    apply Nat.eqb_eq in Ht. exact Ht. }
  destruct a as [tags src cmd ms tr tl eol]. cbn [a_tags a_src a_cmd a_middles a_trailing a_tail a_eol] in *.
  unfold parse_ast. rewrite render_body. cbn [a_tags a_src a_cmd a_middles a_trailing a_tail a_eol].
  rewrite split_eol_clean by assumption.
  set (P := render_middles ms ++ render_trailing tr tl).
  set (REST := cmd ++ P).
  assert (HREST : rest_part cmd ms tr tl = REST) by reflexivity.
  unfold body_of. rewrite HREST.
  (* the last step, shared by all branches *)
  assert (Hlast : forall tg sr,
            (let '(cmd0, P0) := match lcut 32 REST with Some (c, after) => (c, 32 :: after) | None => (REST, []) end in
             match parse_params_ast (S (length P0)) P0 with
             | Some (ms0, tr0, tl0) => Some (mkAst tg sr cmd0 ms0 tr0 tl0 eol)
             | None => None end) = Some (mkAst tg sr cmd ms tr tl eol)).
  { intros tg sr. rewrite lcut_cut. unfold REST.
    pose proof (parse_params_complete ms tr tl (S (length P)) Hmok Htl (Nat.lt_succ_diag_r _)) as HPP. fold P in HPP.
    destruct (params_shape ms tr tl) as [HP|[after HP]]; fold P in HP.
    - rewrite HP in *. rewrite app_nil_r. rewrite cut_notin by exact Hc32. rewrite HPP. reflexivity.
    - rewrite HP in *. rewrite cut_app by exact Hc32. rewrite HPP. reflexivity. }
  (* source *)
  assert (Hsrcstep : forall tg,
            match (match src_part src ++ REST with
                   | [] => Some (None, src_part src ++ REST)
                   | c :: _ => if c =? 58 then match lcut 32 (src_part src ++ REST) with
                                              | Some (_ :: s, r) => Some (Some (parse_src_ast s), r)
                                              | _ => None end
                               else Some (None, src_part src ++ REST) end) with
            | None => None
            | Some (sr, r2) =>
              let '(cmd0, P0) := match lcut 32 r2 with Some (c, after) => (c, 32 :: after) | None => (r2, []) end in
              match parse_params_ast (S (length P0)) P0 with
              | Some (ms0, tr0, tl0) => Some (mkAst tg sr cmd0 ms0 tr0 tl0 eol)
              | None => None end
            end = Some (mkAst tg src cmd ms tr tl eol)).
  { intros tg. destruct src as [s|]; cbn [src_part].
    - pose proof (wf_src_ok _ Hsrc) as Hok. destruct (src_text_no_space s Hok) as [Hns Hne].
      cbn [app]. rewrite N.eqb_refl. rewrite lcut_cut.
      replace (58 :: (src_text s ++ [32]) ++ REST) with ((58 :: src_text s) ++ 32 :: REST)
        by (cbn [app]; rewrite <- app_assoc; reflexivity).
      rewrite cut_app by (apply notin_cons; [discriminate|exact Hns]).
      rewrite parse_src_ast_complete by exact Hok. apply Hlast.
    - cbn [app]. unfold REST at 1 2 3. rewrite Hc. cbn [app]. rewrite E58. rewrite <- Hc. fold REST. apply Hlast. }
  (* tags *)
  destruct tags as [l|]; cbn [option_map tags_part].
  - destruct l as [|kv l']; [discriminate|]. set (l := kv :: l') in *.
    assert (Hok : forallb tag_ok (List.map towire l) = true).
    { rewrite forallb_forall. intros x Hx. apply in_map_iff in Hx. destruct Hx as [y [<- Hy]].
      apply wf_tag_tag_ok. rewrite forallb_forall in Htags. apply Htags. exact Hy. }
    destruct (tags_text_facts (List.map towire l) ltac:(discriminate) Hok) as (H32 & _ & _).
    cbn [app]. rewrite N.eqb_refl. rewrite lcut_cut.
    replace (64 :: (tags_text (List.map towire l) ++ [32]) ++ src_part src ++ REST)
      with ((64 :: tags_text (List.map towire l)) ++ 32 :: src_part src ++ REST)
      by (cbn [app]; rewrite <- app_assoc; reflexivity).
    rewrite cut_app by (apply notin_cons; [discriminate|exact H32]).
    rewrite tags_text_render. rewrite parse_tags_ast_complete by (try discriminate; exact Htags).
    apply Hsrcstep.
  - cbn [app].
    assert (Hhead : exists x y, src_part src ++ REST = x :: y /\ (x =? 64) = false).
    { destruct src as [s|]; cbn [src_part app]; [eexists; eexists; split; reflexivity|].
      unfold REST. rewrite Hc. cbn [app]. eexists; eexists; split; [reflexivity|exact E64]. }
    destruct Hhead as (x & y & Hxy & Hx).
    rewrite Hxy at 1. rewrite Hx. apply Hsrcstep.
Qed.

(* ---- the recogniser is exact --------------------------------------------------------------- *)

Theorem wf_line_iff l : wf_lineb l = true <-> exists a, wf_ast a /\ render a = l.
Proof.
  unfold wf_lineb. split.
  - destruct (parse_ast l) as [a|] eqn:E; [|discriminate]. intros H. exists a. split; [exact H|].
    apply parse_ast_sound. exact E.
  - intros (a & Hwf & <-). rewrite parse_ast_complete by exact Hwf. exact Hwf.
Qed.

Theorem grammar_parse_line : forall l a, wf_lineb l = true -> parse_ast l = Some a ->
  parse_event l = Ok (Some (meaning a)).
Proof.
  intros l a Hwf Hp. unfold wf_lineb in Hwf. rewrite Hp in Hwf.
  rewrite <- (parse_ast_sound l a Hp). exact (grammar_parse a Hwf).
Qed.

(* ---- C01 stability stated on lines ------------------------------------------------------------ *)
Require Import Utf8Lemmas RoundTrip StableProofs LineUtf8.

Definition line_tags_fit (l : str) : bool :=
  match parse_ast l with Some a => ast_tags_fit a | None => false end.

Theorem parse_stable_wf_line : forall l e,
  wf_lineb l = true -> valid_utf8 l = true -> line_tags_fit l = true ->
  parse_event l = Ok (Some e) ->
  exists e', parse_event (event_bytes e) = Ok (Some e') /\ wevent_equiv e' e.
Proof.
  intros l e Hwf Hv Hfit Hp. unfold wf_lineb, line_tags_fit in *.
  destruct (parse_ast l) as [a|] eqn:E; [|discriminate].
  pose proof (parse_ast_sound _ _ E) as Hr. subst l.
  destruct (parse_stable_line a Hwf Hv Hfit) as (e0 & e' & H1 & H2 & H3).
  rewrite H1 in Hp. inversion Hp; subst e0. exists e'. split; assumption.
Qed.
