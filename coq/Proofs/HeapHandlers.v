(* Every handler of Model/Heap.v (one received event) keeps the library's agent
   invariant: handle_h writes only objects the tracked state reaches or that it
   allocated, and stores only pointers to such objects. *)
Require Import Bytes AMap Names State Heap HeapLemmas HeapSpec HeapFrame HeapCopy HeapLive AMapLemmas.
From Coq Require Import Lia.
Local Open Scope nat_scope.

Section Handlers.
  Variables (n0 : nat) (L0 : list nat) (h0 : heap).
  Notation FR := (Fr n0 L0 h0).
  Notation OK := (okp n0 L0).
  Notation FRW := (FrW n0 L0 h0).
  Notation WSTP := (wstp n0 L0 h0).

  Definition keeps_ptrs (f : huser -> huser) : Prop :=
    forall u, hu_chans (f u) = hu_chans u /\ hu_perms (f u) = hu_perms u.

  Lemma keeps_ptrs_ptrs f u : keeps_ptrs f -> ptrs (CUser (f u)) = ptrs (CUser u).
  Proof. intros K. destruct (K u) as [A B]. simpl. rewrite A, B. reflexivity. Qed.

  Lemma update_user_fr R w name f w' : keeps_ptrs f -> FRW R w -> update_user_h w name f = Ok w' -> WSTP R w R w'.
  Proof.
    intros K [I F] H. unfold update_user_h in H.
    destruct (lookup_user_h w name) as [uid|] eqn:Eu; [|injection H as <-; apply wstp_refl; split; assumption].
    bind_inv H u Hu. injection H as <-. apply wstp_of_stp; [exact I|].
    apply user_field_fr; auto; [apply I; eapply in_roots_user; exact Eu|apply keeps_ptrs_ptrs; exact K].
  Qed.

  Lemma src_update_fr R w e f w' : keeps_ptrs f -> FRW R w -> src_update_h w e f = Ok w' -> WSTP R w R w'.
  Proof.
    intros K F H. unfold src_update_h in H. destruct (e_src e); [eapply update_user_fr; eauto|].
    injection H as <-. apply wstp_refl; exact F.
  Qed.

  Ltac kp := intros ?u; split; reflexivity.

  Lemma handle_tags_fr R w e w' : FRW R w -> handle_tags_h w e = Ok w' -> WSTP R w R w'.
  Proof.
    intros F H. unfold handle_tags_h in H. destruct (e_src e); [|injection H as <-; apply wstp_refl; exact F].
    destruct (e_account_tag e); [|injection H as <-; apply wstp_refl; exact F].
    eapply update_user_fr; [|exact F|exact H]. kp.
  Qed.

  Lemma handle_who_fr R w e w' : FRW R w -> handle_who_h w e = Ok w' -> WSTP R w R w'.
  Proof.
    intros F H. unfold handle_who_h in H.
    destruct (cmd_is e "354").
    - destruct (negb (Nat.eqb (length (e_params e)) 8)); [injection H as <-; apply wstp_refl; exact F|].
      destruct (negb (streqb (param e 1) [49%N])); [injection H as <-; apply wstp_refl; exact F|].
      eapply update_user_fr; [|exact F|exact H]. kp.
    - destruct (Nat.ltb (length (e_params e)) 7); [injection H as <-; apply wstp_refl; exact F|].
      eapply update_user_fr; [|exact F|exact H]. kp.
  Qed.

  Lemma handle_chghost_fr R w e w' : FRW R w -> handle_chghost_h w e = Ok w' -> WSTP R w R w'.
  Proof.
    intros F H. unfold handle_chghost_h in H.
    destruct (e_params e) as [|i [|h [|x r]]]; try (injection H as <-; apply wstp_refl; exact F).
    eapply src_update_fr; [|exact F|exact H]. kp.
  Qed.
  Lemma handle_away_fr R w e w' : FRW R w -> handle_away_h w e = Ok w' -> WSTP R w R w'.
  Proof. intros F H. unfold handle_away_h in H. eapply src_update_fr; [|exact F|exact H]. kp. Qed.
  Lemma handle_account_fr R w e w' : FRW R w -> handle_account_h w e = Ok w' -> WSTP R w R w'.
  Proof.
    intros F H. unfold handle_account_h in H.
    destruct (e_params e) as [|a [|x r]]; try (injection H as <-; apply wstp_refl; exact F).
    eapply src_update_fr; [|exact F|exact H]. kp.
  Qed.

  Lemma handle_topic_fr R w e w' : FRW R w -> handle_topic_h w e = Ok w' -> WSTP R w R w'.
  Proof.
    intros F H. unfold handle_topic_h in H.
    assert (G : forall name topic,
      match lookup_channel_h w name with
      | Some cid => c <- get_chan (w_heap w) cid ;; Ok (mkWorld (hset (w_heap w) cid (CChan (hc_set_topic c topic))) (w_st w))
      | None => Ok w
      end = Ok w' -> WSTP R w R w').
    { intros name topic G. destruct (lookup_channel_h w name) as [cid|] eqn:Ec; [|injection G as <-; apply wstp_refl; exact F].
      bind_inv G c Hc. injection G as <-. destruct F as [I F]. apply wstp_of_stp; [exact I|].
      apply (chan_field_fr n0 L0 h0 R (w_heap w) cid c (fun c => hc_set_topic c topic)); auto.
      apply I. eapply in_roots_chan; exact Ec. }
    destruct (e_params e) as [|a [|b [|x r]]]; [injection H as <-; apply wstp_refl; exact F|eapply G; exact H..].
  Qed.

  Lemma handle_part_fr cfg R w e w' : FRW R w -> handle_part_h cfg w e = Ok w' -> WSTP R w R w'.
  Proof.
    intros F H. unfold handle_part_h in H.
    destruct (e_src e) as [src|]; [|injection H as <-; apply wstp_refl; exact F].
    destruct (e_params e) as [|ch r]; [injection H as <-; apply wstp_refl; exact F|].
    destruct ch as [|b ch]; [injection H as <-; apply wstp_refl; exact F|].
    destruct (streqb _ _); [eapply delete_channel_fr; eauto|eapply delete_user_fr; eauto].
  Qed.

  Lemma handle_kick_fr cfg R w e w' : FRW R w -> handle_kick_h cfg w e = Ok w' -> WSTP R w R w'.
  Proof.
    intros F H. unfold handle_kick_h in H.
    destruct (e_params e) as [|ch [|nick r]]; try (injection H as <-; apply wstp_refl; exact F).
    destruct (streqb _ _); [eapply delete_channel_fr; eauto|eapply delete_user_fr; eauto].
  Qed.

  Lemma handle_quit_fr cfg R w e w' : FRW R w -> handle_quit_h cfg w e = Ok w' -> WSTP R w R w'.
  Proof.
    intros F H. unfold handle_quit_h in H.
    destruct (e_src e) as [src|]; [|injection H as <-; apply wstp_refl; exact F].
    destruct (streqb _ _); [injection H as <-; apply wstp_refl; exact F|eapply delete_user_fr; eauto].
  Qed.

  Lemma handle_nick_fr R w e w' : FRW R w -> handle_nick_h w e = Ok w' -> WSTP R w R w'.
  Proof.
    intros F H. unfold handle_nick_h in H.
    destruct (e_src e) as [src|]; [|injection H as <-; apply wstp_refl; exact F].
    destruct (e_params e); [injection H as <-; apply wstp_refl; exact F|eapply rename_user_fr; eauto].
  Qed.

  (* ---- JOIN ---- *)

  Lemma handle_join_fr g cfg R w e w' : FRW R w -> handle_join_h g cfg w e = Ok w' -> exists R', WSTP R w R' w'.
  Proof.
    intros F H. unfold handle_join_h in H.
    destruct (e_src e) as [src|]; [|injection H as <-; exists R; apply wstp_refl; exact F].
    destruct (e_params e) as [|chan_name rest]; [injection H as <-; exists R; apply wstp_refl; exact F|].
    destruct (create_channel_fr n0 L0 h0 R w chan_name F) as (R1 & S1).
    set (w1 := create_channel_h w chan_name) in *.
    destruct (create_user_fr n0 L0 h0 R1 w1 src (proj1 (proj2 S1))) as (R2 & S2).
    set (w2 := create_user_h w1 src) in *.
    pose proof (wstp_trans _ _ _ _ _ _ _ _ _ S1 S2) as S12. destruct S2 as (_ & (I2 & F2) & _).
    destruct (lookup_channel_h w2 chan_name) as [cid|] eqn:Ec; [|discriminate].
    destruct (lookup_user_h w2 (s_name src)) as [uid|] eqn:Eu; [|discriminate].
    pose proof (I2 _ (in_roots_chan _ _ _ Ec)) as Rc. pose proof (I2 _ (in_roots_user _ _ _ Eu)) as Ru.
    bind_inv H u0 Hu0.
    match type of H with context [hset (w_heap w2) uid (CUser ?x)] => set (u := x) in * end.
    assert (Ku : ptrs (CUser u) = ptrs (CUser u0)) by (unfold u; destruct (_ && _); reflexivity).
    assert (S2' : stp n0 L0 h0 R2 (w_heap w2) (hset (w_heap w2) uid (CUser u))).
    { destruct (user_ptrs_ok _ _ _ _ _ _ _ F2 Ru Hu0) as (Oo & _ & _). apply get_user_ok in Hu0.
      split; [eapply Fr_hset_same_ptrs; eauto|rewrite hset_length; lia]. }
    destruct S2' as (F2' & L2'). set (h2 := hset (w_heap w2) uid (CUser u)) in *.
    bind_inv H c Hc. bind_inv H h3 H3. bind_inv H h4 H4. bind_inv H u4 Hu4.
    destruct (channel_add_user_fr _ _ _ _ _ _ _ _ _ F2' Rc H3) as (F3 & L3).
    destruct (user_add_channel_fr _ _ _ _ _ _ _ _ _ F3 Ru H4) as (F4 & L4).
    match type of H with context [hset h4 uid (CUser ?x)] => set (u5 := x) in * end.
    assert (K5 : ptrs (CUser u5) = ptrs (CUser u4)).
    { unfold u5. destruct (e_account_tag e); destruct rest as [|acct [|name r]]; try reflexivity; destruct (streqb acct [42%N]); reflexivity. }
    assert (S5 : stp n0 L0 h0 R2 h4 (hset h4 uid (CUser u5))).
    { destruct (user_ptrs_ok _ _ _ _ _ _ _ F4 Ru Hu4) as (Oo & _ & _). apply get_user_ok in Hu4.
      split; [eapply Fr_hset_same_ptrs; eauto|rewrite hset_length; lia]. }
    destruct S5 as (F5 & L5).
    exists R2. destruct S12 as (I12 & _ & L12).
    assert (Len : length (w_heap w) <= length (hset h4 uid (CUser u5))) by (unfold h2 in *; lia).
    destruct (streqb _ _); injection H as <-; (split; [exact I12|]; split; [split; [exact I2|exact F5]|exact Len]).
  Qed.

  (* ---- NAMES ---- *)

  Lemma fold_left_panic {A B} (f : res A -> B -> res A) (Hf : forall b, f Panic b = Panic) l : fold_left f l Panic = Panic.
  Proof. induction l as [|b l IH]; simpl; [reflexivity|]. rewrite Hf. exact IH. Qed.

  Lemma names_entry_fr g cid R w part w' : FRW R w -> In cid R -> names_entry_h g cid (Ok w) part = Ok w' ->
    exists R', WSTP R w R' w'.
  Proof.
    intros F Rc H. unfold names_entry_h in H. simpl in H.
    destruct (parse_user_prefix part []) as [[modes nick]|]; [|injection H as <-; exists R; apply wstp_refl; exact F].
    match type of H with match ?o with _ => _ end = _ => destruct o as [src|] end;
      [|injection H as <-; exists R; apply wstp_refl; exact F].
    destruct (create_user_fr n0 L0 h0 R w src F) as (R1 & S1).
    set (w1 := create_user_h w src) in *.
    destruct (lookup_user_h w1 (s_name src)) as [uid|] eqn:Eu; [|injection H as <-; exists R1; exact S1].
    destruct S1 as (I01 & (I1 & F1) & L1).
    pose proof (I1 _ (in_roots_user _ _ _ Eu)) as Ru. pose proof (I01 _ Rc) as Rc1.
    bind_inv H c Hc. bind_inv H h2 H2. bind_inv H h3 H3. bind_inv H u Hu. bind_inv H h4 H4. injection H as <-.
    destruct (user_add_channel_fr _ _ _ _ _ _ _ _ _ F1 Ru H2) as (F2 & L2).
    destruct (channel_add_user_fr _ _ _ _ _ _ _ _ _ F2 Rc1 H3) as (F3 & L3).
    destruct (user_ptrs_ok _ _ _ _ _ _ _ F3 Ru Hu) as (_ & _ & Op).
    destruct (perms_set_fr _ _ _ _ _ _ _ _ _ F3 Op H4) as ((F4 & L4) & _).
    exists R1. split; [exact I01|]. split; [split; [exact I1|exact F4]|simpl; lia].
  Qed.

  Lemma names_fold_fr g cid : forall parts R w w', FRW R w -> In cid R ->
    fold_left (names_entry_h g cid) parts (Ok w) = Ok w' -> exists R', WSTP R w R' w'.
  Proof.
    induction parts as [|part parts IH]; intros R w w' F Rc H; cbn [fold_left] in H.
    - injection H as <-. exists R. apply wstp_refl; exact F.
    - destruct (names_entry_h g cid (Ok w) part) as [w1|] eqn:E1;
        [|rewrite fold_left_panic in H by reflexivity; discriminate].
      destruct (names_entry_fr _ _ _ _ _ _ F Rc E1) as (R1 & S1).
      destruct (IH R1 w1 w' (proj1 (proj2 S1)) (proj1 S1 _ Rc) H) as (R2 & S2).
      exists R2. eapply wstp_trans; eauto.
  Qed.

  Lemma handle_names_fr g R w e w' : FRW R w -> handle_names_h g w e = Ok w' -> exists R', WSTP R w R' w'.
  Proof.
    intros F H. unfold handle_names_h in H.
    destruct (Nat.ltb (length (e_params e)) 3); [injection H as <-; exists R; apply wstp_refl; exact F|].
    destruct (lookup_channel_h w (param e 2)) as [cid|] eqn:Ec; [|injection H as <-; exists R; apply wstp_refl; exact F].
    eapply names_fold_fr; [exact F| |exact H]. apply (proj1 F). eapply in_roots_chan; exact Ec.
  Qed.

  (* ---- MODE ---- *)

  Lemma mode_user_perms_fr ch R w m w' : FRW R w -> mode_user_perms_h ch (Ok w) m = Ok w' -> WSTP R w R w'.
  Proof.
    intros F H. unfold mode_user_perms_h in H. simpl in H.
    destruct (m_setting m); [injection H as <-; apply wstp_refl; exact F|].
    destruct (m_args m) as [|b a]; [injection H as <-; apply wstp_refl; exact F|].
    destruct (lookup_user_h w (b :: a)) as [uid|] eqn:Eu; [|injection H as <-; apply wstp_refl; exact F].
    bind_inv H u Hu. bind_inv H p Hp. bind_inv H h' H1. injection H as <-.
    destruct F as [I F]. pose proof (I _ (in_roots_user _ _ _ Eu)) as Ru.
    destruct (user_ptrs_ok _ _ _ _ _ _ _ F Ru Hu) as (_ & _ & Op).
    destruct (perms_set_fr _ _ _ _ _ _ _ _ _ F Op H1) as (S1 & _).
    apply wstp_of_stp; assumption.
  Qed.

  Lemma mode_fold_fr ch : forall ms R w w', FRW R w ->
    fold_left (mode_user_perms_h ch) ms (Ok w) = Ok w' -> WSTP R w R w'.
  Proof.
    induction ms as [|m ms IH]; intros R w w' F H; cbn [fold_left] in H.
    - injection H as <-. apply wstp_refl; exact F.
    - destruct (mode_user_perms_h ch (Ok w) m) as [w1|] eqn:E1;
        [|rewrite fold_left_panic in H by reflexivity; discriminate].
      pose proof (mode_user_perms_fr _ _ _ _ _ F E1) as S1.
      pose proof (IH R w1 w' (proj1 (proj2 S1)) H) as S2. eapply wstp_trans; eauto.
  Qed.

  Lemma handle_mode_fr R w e w' : FRW R w -> handle_mode_h w e = Ok w' -> WSTP R w R w'.
  Proof.
    intros F H. unfold handle_mode_h in H.
    match type of H with match ?ps with _ => _ end = _ => destruct ps as [|target [|flags args]] end;
      try (injection H as <-; apply wstp_refl; exact F).
    destruct (negb (is_valid_channel target)); [injection H as <-; apply wstp_refl; exact F|].
    destruct (lookup_channel_h w target) as [cid|] eqn:Ec; [|injection H as <-; apply wstp_refl; exact F].
    bind_inv H c Hc. bind_inv H r Hr. destruct r as [h1 m'].
    destruct F as [I F]. pose proof (I _ (in_roots_chan _ _ _ Ec)) as Rc.
    destruct (chan_ptrs_ok _ _ _ _ _ _ _ F Rc Hc) as (Oo & Oa & _).
    destruct (cmodes_apply_fr _ _ _ _ _ _ _ _ _ F Hr) as ((F1 & L1) & Om).
    assert (S2 : stp n0 L0 h0 R h1 (hset h1 cid (CChan (hc_set_modes c m')))).
    { apply stp_hset; [exact F1|eapply okp_mono; eauto|].
      simpl. intros p [<-|[<-|[]]]; [eapply okp_mono; eauto|exact Om]. }
    destruct S2 as (F2 & L2).
    eapply wstp_trans; [|eapply mode_fold_fr; [|exact H]; split; [exact I|exact F2]].
    split; [apply incl_refl|]. split; [split; [exact I|exact F2]|simpl; lia].
  Qed.

  (* ---- one event ---- *)

  Theorem handle_fr g cfg R w e w' : FRW R w -> handle_h g cfg w e = Ok w' -> exists R', WSTP R w R' w'.
  Proof.
    intros F H. unfold handle_h in H. bind_inv H w1 H1.
    pose proof (handle_tags_fr _ _ _ _ F H1) as S1. pose proof (proj1 (proj2 S1)) as F1.
    assert (T : forall R' w'', WSTP R w1 R' w'' -> exists R', WSTP R w R' w'').
    { intros R' w'' S2. exists R'. eapply wstp_trans; eauto. }
    assert (Same : forall s', roots s' = roots (w_st w1) -> exists R', WSTP R w R' (mkWorld (w_heap w1) s')).
    { intros s' E. apply (T R). apply wstp_same_roots; assumption. }
    destruct (cmd_is e "001").
    { injection H as <-. unfold handle_connect_h. destruct (e_params e); [apply (T R); apply wstp_refl; exact F1|].
      apply Same. reflexivity. }
    destruct (cmd_is e "JOIN").
    { destruct (handle_join_fr _ _ _ _ _ _ F1 H) as (R' & S2). eapply T; eauto. }
    destruct (cmd_is e "PART"); [apply (T R); eapply handle_part_fr; eauto|].
    destruct (cmd_is e "KICK"); [apply (T R); eapply handle_kick_fr; eauto|].
    destruct (cmd_is e "QUIT"); [apply (T R); eapply handle_quit_fr; eauto|].
    destruct (cmd_is e "NICK"); [apply (T R); eapply handle_nick_fr; eauto|].
    destruct (cmd_is e "353").
    { destruct (handle_names_fr _ _ _ _ _ F1 H) as (R' & S2). eapply T; eauto. }
    destruct (cmd_is e "MODE" || cmd_is e "324"); [apply (T R); eapply handle_mode_fr; eauto|].
    destruct (cmd_is e "352" || cmd_is e "354"); [apply (T R); eapply handle_who_fr; eauto|].
    destruct (cmd_is e "TOPIC" || cmd_is e "332"); [apply (T R); eapply handle_topic_fr; eauto|].
    destruct (cmd_is e "004").
    { injection H as <-. unfold handle_myinfo_h. destruct (Nat.ltb _ _); [apply (T R); apply wstp_refl; exact F1|].
      apply Same. reflexivity. }
    destruct (cmd_is e "005").
    { injection H as <-. unfold handle_isupport_h. destruct (negb _); [apply (T R); apply wstp_refl; exact F1|].
      destruct (Nat.ltb _ _); [apply (T R); apply wstp_refl; exact F1|]. apply Same. reflexivity. }
    destruct (cmd_is e "CHGHOST"); [apply (T R); eapply handle_chghost_fr; eauto|].
    destruct (cmd_is e "AWAY"); [apply (T R); eapply handle_away_fr; eauto|].
    destruct (cmd_is e "ACCOUNT"); [apply (T R); eapply handle_account_fr; eauto|].
    injection H as <-. apply (T R). apply wstp_refl; exact F1.
  Qed.

  Theorem run_fr g cfg : forall l R w w', FRW R w -> run_h g cfg w l = Ok w' -> exists R', WSTP R w R' w'.
  Proof.
    induction l as [|e l IH]; intros R w w' F H; simpl in H.
    - injection H as <-. exists R. apply wstp_refl; exact F.
    - bind_inv H w1 H1. destruct (handle_fr _ _ _ _ _ _ F H1) as (R1 & S1).
      destruct (IH R1 w1 w' (proj1 (proj2 S1)) H) as (R2 & S2). exists R2. eapply wstp_trans; eauto.
  Qed.
End Handlers.
