(* Proofs about Model/React.v: the client's reaction to one raw line, and to every sequence
   of raw lines, at the level of bytes.  Composes parse_event_total (C02), handle_inv /
   client_step_ok (C05), event_split_ok (C11), event_bytes_no_crlf / command_of_bytes_total
   (C03), pong_roundtrip (C17). *)
Require Import Bytes.
Require Import React.
Require AMap CapLib Names WireOut Utf8 Tags Event State ClientStep Ctcp Sasl Cap StsState Split PingNick SendPath.
Require StateInv StateHandlers ClientStepProofs ParseNF SplitProofs.
From Coq Require Import Lia.

(* the structural invariant of the tracked state (Proofs/StateInv.v; C05_inv_meaning spells it out) *)
Definition RInv (rs : rstate) : Prop := StateInv.Inv (ClientStep.cs_state (rs_client rs)).

(* Client.conn != nil while the line is handled: always so on the path from the socket *)
Definition conn_up (cfg : react_cfg) : Prop :=
  Ctcp.connected (ClientStep.cc_env (rc_client cfg)) = true.

Lemma react_init_inv sts : RInv (react_init sts).
Proof. exact StateInv.inv_init. Qed.

(* ---- no stage panics ------------------------------------------------------------------- *)

Lemma collide_stage_ok cfg s e : exists o, collide_stage cfg s e = Ok o.
Proof.
  unfold collide_stage. destruct (PingNick.is_collision_cmd (State.e_cmd e)); [|eauto].
  unfold PingNick.nick_collision. destruct (PingNick.pc_collide (pn_cfg_of cfg)) as [f|]; [|eauto].
  destruct (f _); eauto.
Qed.

Lemma emit_ok mt max o : exists l, emit mt max o = Ok l.
Proof.
  destruct o as [e|e]; cbn [emit]; [|eauto].
  destruct (SplitProofs.event_split_ok (to_sevent e) max) as [ps H]. rewrite H. cbn [rbind]. eauto.
Qed.

Lemma emit_all_ok mt max l : exists out, emit_all mt max l = Ok out.
Proof.
  induction l as [|o r [b IH]]; cbn [emit_all]; [eauto|].
  destruct (emit_ok mt max o) as [a H]. rewrite H, IH. cbn [rbind]. eauto.
Qed.

(* ---- one event ---------------------------------------------------------------------------- *)

Theorem react_event_ok cfg cs e : StateInv.Inv (ClientStep.cs_state cs) -> conn_up cfg ->
  exists rs' outs, react_event cfg cs e = RStep rs' outs /\ RInv rs'.
Proof.
  intros I Hc. unfold react_event.
  destruct (ClientStepProofs.client_step_ok (rc_client cfg) cs e I Hc) as (cs' & couts & H1 & I1).
  rewrite H1.
  destruct (collide_stage_ok cfg (ClientStep.cs_state cs) e) as (nouts & H2). rewrite H2.
  destruct (emit_all_ok (message_tags_on (Cap.st_enabled (ClientStep.cs_cap cs')))
              (Split.max_event_length (ClientStep.cs_state cs')) (reaction_outs couts nouts)) as (lines & H3).
  rewrite H3. do 2 eexists. split; [reflexivity|]. exact I1.
Qed.

(* the invariant needs no hypothesis on the connection: whenever the model returns at all,
   the new state is consistent *)
Lemma client_step_keeps_inv ccfg cs e cs' o :
  StateInv.Inv (ClientStep.cs_state cs) -> ClientStep.client_step ccfg cs e = Ok (cs', o) ->
  StateInv.Inv (ClientStep.cs_state cs').
Proof.
  intros I H. unfold ClientStep.client_step in H.
  destruct (State.handle (ClientStep.cc_state ccfg) (ClientStep.cs_state cs) e) as [[s' o1]|] eqn:H1; [|discriminate].
  cbn [rbind] in H.
  destruct (ClientStep.sasl_stage ccfg e) as [o2|]; [|discriminate]. cbn [rbind] in H.
  destruct (Ctcp.ctcp_stage _ _) as [o4|]; [|discriminate]. cbn [rbind] in H.
  injection H as <- _. cbn [ClientStep.cs_state fst].
  exact (StateHandlers.handle_keeps_inv _ _ _ _ _ I H1).
Qed.

Lemma react_event_inv cfg cs e rs' outs :
  StateInv.Inv (ClientStep.cs_state cs) -> react_event cfg cs e = RStep rs' outs -> RInv rs'.
Proof.
  intros I H. unfold react_event in H.
  destruct (ClientStep.client_step (rc_client cfg) cs e) as [[cs' couts]|] eqn:H1; [|discriminate].
  destruct (collide_stage cfg (ClientStep.cs_state cs) e) as [nouts|]; [|discriminate].
  destruct (emit_all _ _ _) as [lines|]; [|discriminate].
  injection H as <- _. exact (client_step_keeps_inv _ _ _ _ _ I H1).
Qed.

(* ---- one raw line: every byte string --------------------------------------------------------- *)

(* 1. react_total: whatever bytes arrive, the reaction is a step or the parse failure *)
Theorem react_ok cfg rs line : RInv rs -> conn_up cfg ->
  react cfg rs line = RParseFail \/
  exists rs' outs, react cfg rs line = RStep rs' outs /\ RInv rs'.
Proof.
  intros I Hc. unfold react. destruct (rs_closed rs); [right; eauto|].
  destruct (Event.parse_event line) as [[w|]|] eqn:P.
  - right. apply react_event_ok; assumption.
  - left. reflexivity.
  - exfalso. exact (ParseNF.parse_event_total line P).
Qed.

Theorem react_total cfg rs line : RInv rs -> conn_up cfg -> react cfg rs line <> RPanic.
Proof.
  intros I Hc. destruct (react_ok cfg rs line I Hc) as [H|(rs' & outs & H & _)]; rewrite H; discriminate.
Qed.

(* 2. react_inv: the structural invariant is preserved on every byte string *)
Theorem react_inv cfg rs line rs' outs : RInv rs -> react cfg rs line = RStep rs' outs -> RInv rs'.
Proof.
  intros I H. unfold react in H. destruct (rs_closed rs). { injection H as <- _. exact I. }
  destruct (Event.parse_event line) as [[w|]|]; try discriminate.
  exact (react_event_inv _ _ _ _ _ I H).
Qed.

(* ... hence on every sequence of raw lines, from every consistent state *)
Theorem react_run_ok cfg : conn_up cfg -> forall lines rs i, RInv rs ->
  exists s, react_run cfg rs i lines = Ok s /\ RInv (ss_state s) /\
            (length (ss_outs s) <= length lines)%nat.
Proof.
  intros Hc. induction lines as [|l r IH]; intros rs i I; cbn [react_run].
  - eexists. split; [reflexivity|]. split; [exact I|]. cbn. lia.
  - destruct (react_ok cfg rs l I Hc) as [H|(rs' & outs & H & I')]; rewrite H.
    + eexists. split; [reflexivity|]. split; [exact I|]. cbn. lia.
    + destruct (rs_closed rs').
      * eexists. split; [reflexivity|]. split; [exact I'|]. cbn. lia.
      * destruct (IH rs' (S i) I') as (s & Hs & Is & Ls). rewrite Hs. cbn [rbind].
        eexists. split; [reflexivity|]. split; [exact Is|]. cbn [ss_outs length]. lia.
Qed.

Theorem react_all_histories cfg sts lines : conn_up cfg ->
  exists s, react_run cfg (react_init sts) 0 lines = Ok s /\ RInv (ss_state s).
Proof.
  intros Hc. destruct (react_run_ok cfg Hc lines (react_init sts) 0 (react_init_inv sts)) as (s & H & I & _).
  eauto.
Qed.
