(* base64_decode (base64_encode x) = Some x for every byte string x, by induction over
   3-byte groups; the 6-bit regrouping is linear arithmetic over N once N.div / N.modulo
   by the constants 4, 16, 64 are replaced by their defining equations. *)
Require Import Bytes Base64.
From Coq Require Import Lia ZifyBool ZifyN ZifyNat.

Ltac Zify.zify_post_hook ::= Z.div_mod_to_equations.

Lemma b64_val_char i : i < 64 -> b64_val (b64_char i) = Some i.
Proof.
  intros Hi. unfold b64_char.
  destruct (i <? 26) eqn:E1; [|destruct (i <? 52) eqn:E2; [|destruct (i <? 62) eqn:E3;
    [|destruct (i =? 62) eqn:E4]]]; unfold b64_val.
  - replace ((65 <=? 65 + i) && (65 + i <=? 90)) with true by lia. f_equal; lia.
  - replace ((65 <=? 71 + i) && (71 + i <=? 90)) with false by lia.
    replace ((97 <=? 71 + i) && (71 + i <=? 122)) with true by lia. f_equal; lia.
  - replace ((65 <=? i - 4) && (i - 4 <=? 90)) with false by lia.
    replace ((97 <=? i - 4) && (i - 4 <=? 122)) with false by lia.
    replace ((48 <=? i - 4) && (i - 4 <=? 57)) with true by lia. f_equal; lia.
  - cbn. f_equal; lia.
  - cbn. f_equal; lia.
Qed.

Lemma b64_char_not_pad i : i < 64 -> (b64_char i =? b64_pad) = false.
Proof.
  intros Hi. unfold b64_char, b64_pad.
  destruct (i <? 26) eqn:E1; [|destruct (i <? 52) eqn:E2; [|destruct (i <? 62) eqn:E3;
    [|destruct (i =? 62) eqn:E4]]]; lia.
Qed.

(* the six-bit pieces of a byte triple are below 64 *)
Lemma sext0 a : a < 256 -> a / 4 < 64. Proof. lia. Qed.
Lemma sext1 a b : b < 256 -> (a mod 4) * 16 + b / 16 < 64. Proof. lia. Qed.
Lemma sext1' a : (a mod 4) * 16 < 64. Proof. lia. Qed.
Lemma sext2 b c : c < 256 -> (b mod 16) * 4 + c / 64 < 64. Proof. lia. Qed.
Lemma sext2' b : (b mod 16) * 4 < 64. Proof. lia. Qed.
Lemma sext3 c : c mod 64 < 64. Proof. lia. Qed.

(* regrouping: 4 x 6 bits -> 3 x 8 bits *)
Lemma regroup0 a b : a < 256 -> b < 256 -> (a / 4) * 4 + ((a mod 4) * 16 + b / 16) / 16 = a.
Proof. lia. Qed.
Lemma regroup0' a : a < 256 -> (a / 4) * 4 + ((a mod 4) * 16) / 16 = a.
Proof. lia. Qed.
Lemma regroup1 a b c : b < 256 -> c < 256 ->
  (((a mod 4) * 16 + b / 16) mod 16) * 16 + ((b mod 16) * 4 + c / 64) / 4 = b.
Proof. lia. Qed.
Lemma regroup1' a b : b < 256 ->
  (((a mod 4) * 16 + b / 16) mod 16) * 16 + ((b mod 16) * 4) / 4 = b.
Proof. lia. Qed.
Lemma regroup2 b c : c < 256 -> (((b mod 16) * 4 + c / 64) mod 4) * 64 + c mod 64 = c.
Proof. lia. Qed.

Lemma list_ind3 {A} (P : list A -> Prop) :
  P [] -> (forall a, P [a]) -> (forall a b, P [a; b]) ->
  (forall a b c r, P r -> P (a :: b :: c :: r)) -> forall l, P l.
Proof.
  intros H0 H1 H2 H3.
  fix IH 1. intros [|a [|b [|c r]]].
  - exact H0.
  - exact (H1 a).
  - exact (H2 a b).
  - exact (H3 a b c r (IH r)).
Qed.

Theorem base64_roundtrip x : bytes_ok x -> base64_decode (base64_encode x) = Some x.
Proof.
  induction x as [|a|a b|a b c r IH] using list_ind3; intros Hx.
  - reflexivity.
  - inversion Hx as [|? ? Ha _]; subst.
    cbn [base64_encode base64_decode].
    rewrite (b64_val_char _ (sext0 a Ha)), (b64_val_char _ (sext1' a)).
    rewrite N.eqb_refl. cbn [andb is_nil]. rewrite (regroup0' a Ha). reflexivity.
  - inversion Hx as [|? ? Ha Hx']; subst. inversion Hx' as [|? ? Hb _]; subst.
    cbn [base64_encode base64_decode].
    rewrite (b64_val_char _ (sext0 a Ha)), (b64_val_char _ (sext1 a b Hb)),
      (b64_val_char _ (sext2' b)).
    rewrite (b64_char_not_pad _ (sext2' b)). rewrite N.eqb_refl. cbn [andb is_nil].
    rewrite (regroup0 a b Ha Hb), (regroup1' a b Hb). reflexivity.
  - inversion Hx as [|? ? Ha Hx1]; subst. inversion Hx1 as [|? ? Hb Hx2]; subst.
    inversion Hx2 as [|? ? Hc Hr]; subst.
    cbn [base64_encode base64_decode].
    rewrite (b64_val_char _ (sext0 a Ha)), (b64_val_char _ (sext1 a b Hb)),
      (b64_val_char _ (sext2 b c Hc)), (b64_val_char _ (sext3 c)).
    rewrite (b64_char_not_pad _ (sext2 b c Hc)), (b64_char_not_pad _ (sext3 c)).
    cbn [andb]. rewrite (IH Hr).
    rewrite (regroup0 a b Ha Hb), (regroup1 a b c Hb Hc), (regroup2 b c Hc). reflexivity.
Qed.

(* encoded text has length 4 * ceil(len/3) and uses only the alphabet and '=' *)
Lemma base64_encode_length x : length (base64_encode x) = (4 * ((length x + 2) / 3))%nat.
Proof.
  induction x as [|a|a b|a b c r IH] using list_ind3; try reflexivity.
  cbn [base64_encode length]. rewrite IH.
  replace (S (S (S (length r))) + 2)%nat with (1 * 3 + (length r + 2))%nat by lia.
  rewrite Nat.div_add_l by lia. lia.
Qed.

Lemma base64_encode_nonempty x : x <> [] -> base64_encode x <> [].
Proof. destruct x as [|a [|b [|c r]]]; intros H; [congruence| | |]; discriminate. Qed.

Example base64_rfc_vectors :
  base64_encode (bs "") = bs "" /\ base64_encode (bs "f") = bs "Zg==" /\
  base64_encode (bs "fo") = bs "Zm8=" /\ base64_encode (bs "foo") = bs "Zm9v" /\
  base64_encode (bs "foob") = bs "Zm9vYg==" /\ base64_encode (bs "fooba") = bs "Zm9vYmE=" /\
  base64_encode (bs "foobar") = bs "Zm9vYmFy" /\
  base64_decode (bs "Zm9vYmE=") = Some (bs "fooba") /\ base64_decode (bs "Zm9vY=E=") = None.
Proof. vm_compute. repeat split. Qed.
