(* The repaired limiter (Spec/RateCreditOnce.v) satisfies the hold clause of C16 at full
   strength: for EVERY schedule of rate calls, enqueues and sendLoop deliveries whose clock
   readings do not run backwards — any number of senders, any staleness of lastWrite — a
   rate call made when the cost charged so far exceeds the 8 s allowance plus all the real
   time elapsed returns the event's cost. *)
From Coq Require Import Lia ZifyBool.
Require Import Bytes Rate RateProofs RateCreditOnce.
Open Scope Z_scope.

Definition act_time (a : action) : option Z :=
  match a with ARate t _ => Some t | ADeliver t => Some t | AEnq _ => None end.

(* clock readings in schedule order never decrease, starting from t *)
Fixpoint monotone (t : Z) (acts : list action) : Prop :=
  match acts with
  | [] => True
  | a :: rest => match act_time a with
                 | Some u => t <= u /\ monotone u rest
                 | None => monotone t rest
                 end
  end.

Definition charged (acts : list action) : Z :=
  fold_right (fun a acc => match a with ARate _ x => cost (ev_len x) + acc | _ => acc end) 0 acts.

Definition lens_ok (acts : list action) : Prop :=
  Forall (fun a => match a with ARate _ x => 0 <= ev_len x | _ => True end) acts.

Lemma rate1_spec : forall s now chars,
  let '(s', d) := rate1 s now chars in
  cwd s' = Z.max 0 (cwd s + cost chars - (now - Z.max (clast s) (crate s))) /\
  clast s' = clast s /\ crate s' = now /\
  d = (if threshold <? cwd s' then cost chars else 0).
Proof.
  intros s now chars. unfold rate1. cbn [cwd clast crate].
  destruct (cwd s + (cost chars - (now - Z.max (clast s) (crate s))) <? 0) eqn:E; repeat split; lia.
Qed.

Lemma charged_app : forall a b, charged (a ++ b) = charged a + charged b.
Proof.
  induction a as [|x a IH]; intros b; [reflexivity|].
  cbn [app charged fold_right]. fold (charged (a ++ b)) (charged a). rewrite IH. destruct x; lia.
Qed.

Lemma monotone_app : forall a b t, monotone t (a ++ b) -> monotone t a.
Proof.
  induction a as [|x a IH]; intros b t H; [exact I|].
  cbn [app monotone] in *. destruct (act_time x).
  - destruct H as [H1 H2]. split; [exact H1|]. eapply IH. exact H2.
  - eapply IH. exact H.
Qed.

(* last clock reading of a monotone schedule is at most any later reading *)
Lemma monotone_last : forall a t now e, monotone t (a ++ [ARate now e]) -> t <= now.
Proof.
  induction a as [|x a IH]; intros t now e H.
  - cbn in H. lia.
  - cbn [app monotone] in H. destruct (act_time x).
    + destruct H as [H1 H2]. specialize (IH _ _ _ H2). lia.
    + eapply IH. exact H.
Qed.

(* invariant: with since = max(lastWrite, lastRate), the accumulator is at least everything
   charged minus the real time from the start T0 to `since`; `since` never exceeds the
   clock.  The schedule is followed by one more rate call at `now` (which bounds the clock). *)
Lemma credit_once_inv : forall now e T0 acts s t base,
  monotone t (acts ++ [ARate now e]) -> lens_ok acts ->
  0 <= cwd (crs s) -> Z.max (clast (crs s)) (crate (crs s)) <= t -> T0 <= Z.max (clast (crs s)) (crate (crs s)) ->
  base - (Z.max (clast (crs s)) (crate (crs s)) - T0) <= cwd (crs s) ->
  let s' := fst (cexec s acts) in
  base + charged acts - (Z.max (clast (crs s')) (crate (crs s')) - T0) <= cwd (crs s') /\
  Z.max (clast (crs s')) (crate (crs s')) <= now /\ 0 <= cwd (crs s').
Proof.
  intros now e T0. induction acts as [|a acts IH]; intros s t base Hm Hl Hw Ht HT Hb.
  - cbn in *. lia.
  - inversion Hl as [|? ? Ha Hl']; subst.
    destruct a as [u x|x|u]; cbn [app monotone act_time] in Hm; cbn [cexec cstep].
    + destruct Hm as [H1 Hm].
      pose proof (rate1_spec (crs s) u (ev_len x)) as R.
      destruct (rate1 (crs s) u (ev_len x)) as [r d]. destruct R as (R1 & R2 & R3 & R4).
      destruct (cexec (mkCS r (ctx s) (cwire s)) acts) as [s2 ds] eqn:E. cbn [fst].
      pose proof (cost_pos (ev_len x) Ha) as Hc.
      specialize (IH (mkCS r (ctx s) (cwire s)) u (base + cost (ev_len x)) Hm Hl').
      cbn [crs] in IH. rewrite E in IH. cbn [fst] in IH.
      cbn [charged fold_right]. fold (charged acts).
      destruct IH as (I1 & I2 & I3); try lia.
    + destruct (cexec (mkCS (crs s) (ctx s ++ [x]) (cwire s)) acts) as [s2 ds] eqn:E. cbn [fst].
      specialize (IH (mkCS (crs s) (ctx s ++ [x]) (cwire s)) t base Hm Hl').
      cbn [crs] in IH. rewrite E in IH. cbn [fst] in IH.
      cbn [charged fold_right]. fold (charged acts). apply IH; assumption.
    + destruct Hm as [H1 Hm]. destruct (ctx s) as [|y q].
      * destruct (cexec s acts) as [s2 ds] eqn:E. cbn [fst].
        specialize (IH s u base Hm Hl'). rewrite E in IH. cbn [fst] in IH.
        cbn [charged fold_right]. fold (charged acts). apply IH; try assumption; lia.
      * destruct (cexec (mkCS (mkC (cwd (crs s)) u (crate (crs s))) q ((u, y) :: cwire s)) acts) as [s2 ds] eqn:E.
        cbn [fst].
        specialize (IH (mkCS (mkC (cwd (crs s)) u (crate (crs s))) q ((u, y) :: cwire s)) u base Hm Hl').
        cbn [crs cwd clast crate] in IH. rewrite E in IH. cbn [fst] in IH.
        cbn [charged fold_right]. fold (charged acts). apply IH; try assumption; lia.
Qed.

(* The hold clause, full strength, for the repaired limiter.  r0 is the state at the start
   (T0 = the later of lastWrite and lastRate then). *)
Theorem credit_once_hold : forall acts now e r0,
  0 <= cwd r0 -> 0 <= ev_len e -> lens_ok acts ->
  monotone (Z.max (clast r0) (crate r0)) (acts ++ [ARate now e]) ->
  threshold + (now - Z.max (clast r0) (crate r0)) < cwd r0 + charged (acts ++ [ARate now e]) ->
  snd (cstep (fst (cexec (csys0 r0) acts)) (ARate now e)) = Some (cost (ev_len e)).
Proof.
  intros acts now e r0 Hw He Hl Hm Hx.
  pose proof (credit_once_inv now e (Z.max (clast r0) (crate r0)) acts (csys0 r0)
                (Z.max (clast r0) (crate r0)) (cwd r0) Hm Hl) as G.
  cbn [csys0 crs] in G. specialize (G Hw ltac:(lia) ltac:(lia) ltac:(lia)).
  cbv zeta in G. destruct G as (G1 & G2 & G3).
  set (s' := fst (cexec (csys0 r0) acts)) in *.
  cbn [cstep]. pose proof (rate1_spec (crs s') now (ev_len e)) as R.
  destruct (rate1 (crs s') now (ev_len e)) as [r d]. destruct R as (R1 & R2 & R3 & R4). cbn [snd].
  rewrite charged_app in Hx. cbn [charged fold_right] in Hx.
  assert (Hgt : threshold < cwd r) by lia.
  rewrite R4. destruct (threshold <? cwd r) eqn:T; [reflexivity|lia].
Qed.
Print Assumptions credit_once_hold.

(* the schedule that refutes the clause for the code as it is (RateProofs.hold_clause_refuted)
   is held by the repaired limiter from the 8th event on *)
Example credit_once_holds_stale_burst :
  snd (cexec (csys0 (mkC 0 0 0)) (stale_burst (cost 30) 30 (map N.of_nat (seq 0 10)))) =
  repeat 0 7 ++ repeat (cost 30) 3.
Proof. vm_compute. reflexivity. Qed.
