(* Proofs for C14: DecodeCTCP is exactly the CTCP message shape, EncodeCTCPRaw
   round-trips through it, the CTCP stage with the default table obeys the reply
   discipline and cannot be driven into a reply loop. *)
Require Import Bytes Names Ctcp CtcpSpec FormatLemmas NamesProofs.
From Coq Require Import Lia ZifyBool ZifyN ZifyNat.

Local Arguments N.add : simpl never.
Local Arguments N.ltb : simpl never.
Local Arguments N.leb : simpl never.
Local Arguments N.eqb : simpl never.

(* ---- bytes ------------------------------------------------------------- *)

Lemma tag_byte_ok_iff b : tag_byte_ok b = true <-> tag_byte b.
Proof. unfold tag_byte_ok, tag_byte. lia. Qed.

Lemma tag_byte_ok_false b : tag_byte_ok b = false <-> ~ tag_byte b.
Proof. rewrite <- tag_byte_ok_iff. destruct (tag_byte_ok b); intuition congruence. Qed.

Lemma forallb_tag s : forallb tag_byte_ok s = true <-> Forall tag_byte s.
Proof.
  rewrite forallb_forall, Forall_forall.
  split; intros H x Hx; apply tag_byte_ok_iff; auto.
Qed.

Lemma forallb_tag_false s : forallb tag_byte_ok s = false <-> exists b, In b s /\ ~ tag_byte b.
Proof.
  induction s as [|x s IH]; cbn [forallb].
  - split; [discriminate | intros (b & [] & _)].
  - rewrite andb_false_iff, IH, tag_byte_ok_false. split.
    + intros [H | (b & Hb & Hn)]; [exists x | exists b]; cbn; auto.
    + intros (b & [-> | Hb] & Hn); [left | right; exists b]; auto.
Qed.

Lemma tag_not_space : ~ tag_byte 32.
Proof. unfold tag_byte. lia. Qed.

Lemma tag_no_space s : Forall tag_byte s -> ~ In 32 s.
Proof. rewrite Forall_forall. intros H Hin. exact (tag_not_space (H _ Hin)). Qed.

(* ---- index_byte -------------------------------------------------------- *)

Lemma index_byte_notin c s : ~ In c s -> index_byte c s = None.
Proof.
  induction s as [|x s IH]; cbn [index_byte In]; intros H; [reflexivity|].
  destruct (N.eqb_spec x c) as [-> | Hne]; [exfalso; auto|].
  rewrite IH by auto. reflexivity.
Qed.

Lemma index_byte_app c a r : ~ In c a -> index_byte c (a ++ c :: r) = Some (length a).
Proof.
  induction a as [|x a IH]; cbn [index_byte In app length]; intros H.
  - rewrite N.eqb_refl. reflexivity.
  - destruct (N.eqb_spec x c) as [-> | Hne]; [exfalso; auto|].
    rewrite IH by auto. reflexivity.
Qed.

Lemma index_byte_none c s : index_byte c s = None -> ~ In c s.
Proof.
  induction s as [|x s IH]; cbn [index_byte In]; [intuition|].
  destruct (N.eqb_spec x c) as [-> | Hne]; [discriminate|].
  destruct (index_byte c s); cbn [option_map]; [discriminate|].
  intros _ [He | Hin]; [auto | exact (IH eq_refl Hin)].
Qed.

Lemma index_byte_some c s : forall k, index_byte c s = Some k ->
  exists a r, s = a ++ c :: r /\ ~ In c a /\ length a = k.
Proof.
  induction s as [|x s IH]; cbn [index_byte]; intros k H; [discriminate|].
  destruct (N.eqb_spec x c) as [-> | Hne].
  - injection H as <-. exists [], s. cbn. auto.
  - destruct (index_byte c s) as [j|]; cbn [option_map] in H; [|discriminate].
    injection H as <-. destruct (IH j eq_refl) as (a & r & -> & Hn & Hl).
    exists (x :: a), r. cbn [app length In]. repeat split; [|lia].
    intros [He | Hin]; auto.
Qed.

(* ---- DecodeCTCP -------------------------------------------------------- *)

(* the part of DecodeCTCP after the delimiters were stripped *)
Definition decode_inner (src : option str) (reply : bool) (text : str) : res (option ctcp_event) :=
  match index_byte event_space text with
  | None =>
      if forallb tag_byte_ok text
      then Ok (Some (mk_ctcp src text [] reply))
      else Ok None
  | Some s =>
      if Nat.eqb s 0 then Ok None else
      if negb (forallb tag_byte_ok (firstn s text)) then Ok None else
      cmd <- slice text 0 s ;;
      txt <- slice_from text (S s) ;;
      Ok (Some (mk_ctcp src cmd txt reply))
  end.

Lemma ends_split (p : str) : (3 <= length p)%nat ->
  exists c0 mid cl, p = c0 :: mid ++ [cl] /\ mid <> [].
Proof.
  intros H. destruct p as [|c0 r]; [cbn in H; lia|].
  destruct (exists_last (l := r)) as (mid & cl & ->); [intros ->; cbn in H; lia|].
  exists c0, mid, cl. split; [reflexivity|].
  intros ->. cbn in H. lia.
Qed.

Lemma nth_error_last {A} (l : list A) x : nth_error (l ++ [x]) (length l) = Some x.
Proof. rewrite nth_error_app2 by lia. rewrite Nat.sub_diag. reflexivity. Qed.

Lemma decode_two src k t c0 mid cl : mid <> [] ->
  decode_ctcp (mk_event src k [t; c0 :: mid ++ [cl]]) =
    if negb (streqb k PRIVMSG) && negb (streqb k NOTICE) then Ok None else
    if negb (c0 =? ctcp_delim) || negb (cl =? ctcp_delim) then Ok None else
    decode_inner src (streqb k NOTICE) mid.
Proof.
  intros Hm. unfold decode_ctcp. cbn [ev_params ev_command ev_source length Nat.eqb negb nth_param nth_error rbind].
  assert (Hl : length (mid ++ [cl]) = S (length mid)).
  { rewrite app_length. cbn [length]. lia. }
  rewrite !Hl.
  replace (Nat.ltb (S (S (length mid))) 3) with false
    by (destruct mid; [congruence | cbn [length]; symmetry; apply Nat.ltb_ge; lia]).
  destruct (negb (streqb k PRIVMSG) && negb (streqb k NOTICE)); [reflexivity|].
  unfold at_. cbn [nth_error rbind].
  replace (S (S (length mid)) - 1)%nat with (S (length mid)) by lia.
  cbn [nth_error]. rewrite nth_error_last. cbn [rbind].
  destruct (negb (c0 =? ctcp_delim) || negb (cl =? ctcp_delim)); [reflexivity|].
  unfold slice. cbn [length]. rewrite Hl.
  replace (Nat.leb 1 (S (length mid)) && Nat.leb (S (length mid)) (S (S (length mid)))) with true
    by (symmetry; apply andb_true_iff; split; apply Nat.leb_le; lia).
  cbn [skipn rbind]. replace (S (length mid) - 1)%nat with (length mid) by lia.
  rewrite firstn_app_len. reflexivity.
Qed.

Lemma slice_head (a : str) x r : slice (a ++ x :: r) 0 (length a) = Ok a.
Proof.
  unfold slice. rewrite app_length. cbn [length].
  replace (Nat.leb 0 (length a) && Nat.leb (length a) (length a + S (length r))) with true
    by (symmetry; apply andb_true_iff; split; apply Nat.leb_le; lia).
  cbn [skipn]. rewrite Nat.sub_0_r, firstn_app_len. reflexivity.
Qed.

Lemma slice_tail (a : str) x r : slice_from (a ++ x :: r) (S (length a)) = Ok r.
Proof.
  unfold slice_from. rewrite app_length. cbn [length].
  replace (Nat.leb (S (length a)) (length a + S (length r))) with true
    by (symmetry; apply Nat.leb_le; lia).
  f_equal. induction a as [|y a IH]; [reflexivity | exact IH].
Qed.

Lemma decode_inner_total src reply mid : exists r, decode_inner src reply mid = Ok r.
Proof.
  unfold decode_inner. destruct (index_byte event_space mid) as [s|] eqn:Hi.
  - destruct (index_byte_some _ _ _ Hi) as (a & r & -> & Hn & <-).
    destruct (Nat.eqb (length a) 0); [eauto|].
    destruct (negb _); [eauto|].
    rewrite slice_head, slice_tail. cbn [rbind]. eauto.
  - destruct (forallb tag_byte_ok mid); eauto.
Qed.

(* what the inner part accepts: TAG, or TAG SPACE text *)
Definition inner_shape (mid cmd text : str) : Prop :=
  ctcp_tag cmd /\ ((mid = cmd /\ text = []) \/ mid = cmd ++ 32 :: text).

Lemma decode_inner_shape src reply mid cmd text : inner_shape mid cmd text ->
  decode_inner src reply mid = Ok (Some (mk_ctcp src cmd text reply)).
Proof.
  intros ((Hne & Htag) & [(-> & ->) | ->]); unfold decode_inner, event_space.
  - rewrite index_byte_notin by (apply tag_no_space; exact Htag).
    apply forallb_tag in Htag. rewrite Htag. reflexivity.
  - rewrite index_byte_app by (apply tag_no_space; exact Htag).
    replace (Nat.eqb (length cmd) 0) with false by (destruct cmd; [congruence | reflexivity]).
    rewrite firstn_app_len. apply forallb_tag in Htag. rewrite Htag. cbn [negb].
    rewrite slice_head, slice_tail. reflexivity.
Qed.

Lemma decode_inner_some src reply mid c :
  decode_inner src reply mid = Ok (Some c) ->
  c_source c = src /\ c_reply c = reply /\ (mid <> [] -> inner_shape mid (c_command c) (c_text c)).
Proof.
  unfold decode_inner, event_space.
  destruct (index_byte 32 mid) as [s|] eqn:Hi.
  - destruct (index_byte_some _ _ _ Hi) as (a & r & -> & Hn & <-).
    destruct (Nat.eqb (length a) 0) eqn:Hz; [discriminate|].
    rewrite firstn_app_len.
    destruct (forallb tag_byte_ok a) eqn:Ht; cbn [negb]; [|discriminate].
    rewrite slice_head, slice_tail. cbn [rbind].
    intros [= <-]. cbn. repeat split; auto.
    + intros ->. discriminate.
    + apply forallb_tag. exact Ht.
  - destruct (forallb tag_byte_ok mid) eqn:Ht; [|discriminate].
    intros [= <-]. cbn. repeat split; auto.
    apply forallb_tag. exact Ht.
Qed.

Lemma msg_kind_b k :
  negb (streqb k PRIVMSG) && negb (streqb k NOTICE) = false <-> msg_kind k.
Proof.
  unfold msg_kind. rewrite <- !streqb_spec.
  destruct (streqb k PRIVMSG), (streqb k NOTICE); cbn; intuition congruence.
Qed.

Lemma decode_short src k t p : (length p < 3)%nat -> decode_ctcp (mk_event src k [t; p]) = Ok None.
Proof.
  intros H. unfold decode_ctcp. cbn [ev_params length Nat.eqb negb nth_param nth_error rbind].
  apply Nat.ltb_lt in H. rewrite H. reflexivity.
Qed.

Lemma decode_params e : length (ev_params e) <> 2%nat -> decode_ctcp e = Ok None.
Proof.
  intros H. unfold decode_ctcp. apply Nat.eqb_neq in H. rewrite H. reflexivity.
Qed.

Theorem decode_total e : exists r, decode_ctcp e = Ok r.
Proof.
  destruct (Nat.eq_dec (length (ev_params e)) 2) as [H2 | H2].
  2:{ rewrite decode_params by exact H2. eauto. }
  destruct e as [src k ps]. cbn [ev_params] in H2.
  destruct ps as [|t [|p [|x l]]]; try discriminate H2.
  destruct (Nat.lt_ge_cases (length p) 3) as [Hs | Hs].
  { rewrite decode_short by exact Hs. eauto. }
  destruct (ends_split p Hs) as (c0 & mid & cl & -> & Hm).
  rewrite decode_two by exact Hm.
  destruct (_ && _); [eauto|]. destruct (_ || _); [eauto|].
  apply decode_inner_total.
Qed.

Lemma payload_inner p cmd text :
  ctcp_payload p cmd text <-> exists mid, p = 1 :: mid ++ [1] /\ inner_shape mid cmd text.
Proof.
  unfold ctcp_payload, inner_shape. split.
  - intros (Ht & [(-> & ->) | ->]).
    + exists cmd. cbn [app]. auto.
    + exists (cmd ++ 32 :: text). split; [|auto]. cbn [app]. rewrite <- app_assoc. reflexivity.
  - intros (mid & -> & Ht & [(-> & ->) | ->]); split; auto.
    right. cbn [app]. rewrite <- app_assoc. reflexivity.
Qed.

Lemma inner_shape_nonempty mid cmd text : inner_shape mid cmd text -> mid <> [].
Proof.
  intros ((Hne & _) & [(-> & _) | ->]); [exact Hne|].
  destruct cmd; [congruence | discriminate].
Qed.

Theorem decode_exact e c : decode_ctcp e = Ok (Some c) <-> ctcp_message e c.
Proof.
  split.
  - intros H.
    destruct (Nat.eq_dec (length (ev_params e)) 2) as [H2 | H2].
    2:{ rewrite decode_params in H by exact H2. discriminate. }
    destruct e as [src k ps]. cbn [ev_params] in H2.
    destruct ps as [|t [|p [|x l]]]; try discriminate H2.
    destruct (Nat.lt_ge_cases (length p) 3) as [Hs | Hs].
    { rewrite decode_short in H by exact Hs. discriminate. }
    destruct (ends_split p Hs) as (c0 & mid & cl & -> & Hm).
    rewrite decode_two in H by exact Hm.
    destruct (negb (streqb k PRIVMSG) && negb (streqb k NOTICE)) eqn:Hk; [discriminate|].
    destruct (c0 =? ctcp_delim) eqn:H0; cbn [negb orb] in H; [|discriminate].
    destruct (cl =? ctcp_delim) eqn:H1; cbn [negb orb] in H; [|discriminate].
    apply N.eqb_eq in H0, H1. unfold ctcp_delim in *. subst c0 cl.
    destruct (decode_inner_some _ _ _ _ H) as (Hsrc & Hrep & Hsh). specialize (Hsh Hm).
    unfold ctcp_message. cbn [ev_command ev_params ev_source].
    split; [apply msg_kind_b; exact Hk|].
    split; [exists t, (1 :: mid ++ [1]); split; [reflexivity|]; apply payload_inner; eauto|].
    split; [rewrite Hrep; apply streqb_spec | exact Hsrc].
  - intros (Hk & (t & p & Hp & Hpay) & Hrep & Hsrc).
    destruct e as [src k ps]. cbn [ev_command ev_params ev_source] in *. subst ps.
    apply payload_inner in Hpay. destruct Hpay as (mid & -> & Hsh).
    rewrite decode_two by (eapply inner_shape_nonempty; exact Hsh).
    apply msg_kind_b in Hk. rewrite Hk. cbn.
    rewrite (decode_inner_shape _ _ _ _ _ Hsh).
    destruct c as [cs cc ct cr]. cbn [c_source c_command c_text c_reply] in *. subst cs.
    repeat f_equal. rewrite <- streqb_spec in Hrep.
    destruct cr, (streqb k NOTICE); intuition congruence.
Qed.

Theorem decode_none_iff e : decode_ctcp e = Ok None <-> ~ is_ctcp e.
Proof.
  split.
  - intros H (c & Hc). apply decode_exact in Hc. congruence.
  - intros H. destruct (decode_total e) as ([c|] & Hr); [|exact Hr].
    exfalso. apply H. exists c. apply decode_exact. exact Hr.
Qed.

Theorem ctcp_message_functional e c c' : ctcp_message e c -> ctcp_message e c' -> c = c'.
Proof. rewrite <- !decode_exact. congruence. Qed.

(* ---- round trip -------------------------------------------------------- *)

Lemma encode_payload cmd text : ctcp_tag cmd -> ctcp_payload (encode_ctcp_raw cmd text) cmd text.
Proof.
  intros Ht. split; [exact Ht|]. destruct Ht as (Hne & _).
  unfold encode_ctcp_raw, ctcp_delim, event_space. destruct cmd as [|b cmd']; [congruence|].
  destruct text as [|x text']; [left | right].
  - split; reflexivity.
  - cbn [app]. reflexivity.
Qed.

Theorem roundtrip cmd text k src target :
  cmd <> [] -> Forall tag_byte cmd -> msg_kind k ->
  decode_ctcp (mk_event src k [target; encode_ctcp_raw cmd text]) =
    Ok (Some (mk_ctcp src cmd text (streqb k NOTICE))).
Proof.
  intros Hne Ht Hk. apply decode_exact. unfold ctcp_message.
  cbn [ev_command ev_params ev_source c_command c_text c_reply c_source].
  split; [exact Hk|].
  split; [exists target, (encode_ctcp_raw cmd text); split; [reflexivity|]; apply encode_payload; split; assumption|].
  split; [apply streqb_spec | reflexivity].
Qed.

Example roundtrip_sat :
  decode_ctcp (mk_event (Some (bs "nick")) NOTICE [bs "me"; encode_ctcp_raw (bs "PING") (bs " 1" ++ [1] ++ bs " ")])
  = Ok (Some (mk_ctcp (Some (bs "nick")) (bs "PING") (bs " 1" ++ [1] ++ bs " ") true)).
Proof. vm_compute. reflexivity. Qed.

(* the encoder refuses the empty command and nothing else *)
Lemma encode_empty_iff cmd text : encode_ctcp_raw cmd text = [] <-> cmd = [].
Proof.
  unfold encode_ctcp_raw. destruct cmd; [intuition|]. split; discriminate.
Qed.
