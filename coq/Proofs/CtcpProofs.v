(* Proofs for C14: DecodeCTCP is exactly the CTCP message shape, EncodeCTCPRaw
   round-trips through it, the CTCP stage with the default table obeys the reply
   discipline and cannot be driven into a reply loop. *)
Require Import Bytes Names Ctcp CtcpSpec FormatLemmas NamesProofs.
From Coq Require Import Lia ZifyBool ZifyN ZifyNat.

Local Arguments N.add : simpl never.
Local Arguments N.ltb : simpl never.
Local Arguments N.leb : simpl never.
Local Arguments N.eqb : simpl never.

(* ---- bytes ------------------------------------------------------------- *)

Lemma tag_byte_ok_iff b : tag_byte_ok b = true <-> tag_byte b.
Proof. unfold tag_byte_ok, tag_byte. lia. Qed.

Lemma tag_byte_ok_false b : tag_byte_ok b = false <-> ~ tag_byte b.
Proof. rewrite <- tag_byte_ok_iff. destruct (tag_byte_ok b); intuition congruence. Qed.

Lemma forallb_tag s : forallb tag_byte_ok s = true <-> Forall tag_byte s.
Proof.
  rewrite forallb_forall, Forall_forall.
  split; intros H x Hx; apply tag_byte_ok_iff; auto.
Qed.

Lemma forallb_tag_false s : forallb tag_byte_ok s = false <-> exists b, In b s /\ ~ tag_byte b.
Proof.
  induction s as [|x s IH]; cbn [forallb].
  - split; [discriminate | intros (b & [] & _)].
  - rewrite andb_false_iff, IH, tag_byte_ok_false. split.
    + intros [H | (b & Hb & Hn)]; [exists x | exists b]; cbn; auto.
    + intros (b & [-> | Hb] & Hn); [left | right; exists b]; auto.
Qed.

Lemma tag_not_space : ~ tag_byte 32.
Proof. unfold tag_byte. lia. Qed.

Lemma tag_no_space s : Forall tag_byte s -> ~ In 32 s.
Proof. rewrite Forall_forall. intros H Hin. exact (tag_not_space (H _ Hin)). Qed.

(* ---- index_byte -------------------------------------------------------- *)

Lemma index_byte_notin c s : ~ In c s -> index_byte c s = None.
Proof.
  induction s as [|x s IH]; cbn [index_byte In]; intros H; [reflexivity|].
  destruct (N.eqb_spec x c) as [-> | Hne]; [exfalso; auto|].
  rewrite IH by auto. reflexivity.
Qed.

Lemma index_byte_app c a r : ~ In c a -> index_byte c (a ++ c :: r) = Some (length a).
Proof.
  induction a as [|x a IH]; cbn [index_byte In app length]; intros H.
  - rewrite N.eqb_refl. reflexivity.
  - destruct (N.eqb_spec x c) as [-> | Hne]; [exfalso; auto|].
    rewrite IH by auto. reflexivity.
Qed.

Lemma index_byte_none c s : index_byte c s = None -> ~ In c s.
Proof.
  induction s as [|x s IH]; cbn [index_byte In]; [intuition|].
  destruct (N.eqb_spec x c) as [-> | Hne]; [discriminate|].
  destruct (index_byte c s); cbn [option_map]; [discriminate|].
  intros _ [He | Hin]; [auto | exact (IH eq_refl Hin)].
Qed.

Lemma index_byte_some c s : forall k, index_byte c s = Some k ->
  exists a r, s = a ++ c :: r /\ ~ In c a /\ length a = k.
Proof.
  induction s as [|x s IH]; cbn [index_byte]; intros k H; [discriminate|].
  destruct (N.eqb_spec x c) as [-> | Hne].
  - injection H as <-. exists [], s. cbn. auto.
  - destruct (index_byte c s) as [j|]; cbn [option_map] in H; [|discriminate].
    injection H as <-. destruct (IH j eq_refl) as (a & r & -> & Hn & Hl).
    exists (x :: a), r. cbn [app length In]. repeat split; [|lia].
    intros [He | Hin]; auto.
Qed.

(* ---- DecodeCTCP -------------------------------------------------------- *)

(* the part of DecodeCTCP after the delimiters were stripped *)
Definition decode_inner (src : option str) (reply : bool) (text : str) : res (option ctcp_event) :=
  match index_byte event_space text with
  | None =>
      if forallb tag_byte_ok text
      then Ok (Some (mk_ctcp src text [] reply))
      else Ok None
  | Some s =>
      if Nat.eqb s 0 then Ok None else
      if negb (forallb tag_byte_ok (firstn s text)) then Ok None else
      cmd <- slice text 0 s ;;
      txt <- slice_from text (S s) ;;
      Ok (Some (mk_ctcp src cmd txt reply))
  end.

Lemma ends_split (p : str) : (3 <= length p)%nat ->
  exists c0 mid cl, p = c0 :: mid ++ [cl] /\ mid <> [].
Proof.
  intros H. destruct p as [|c0 r]; [cbn in H; lia|].
  destruct (exists_last (l := r)) as (mid & cl & ->); [intros ->; cbn in H; lia|].
  exists c0, mid, cl. split; [reflexivity|].
  intros ->. cbn in H. lia.
Qed.

Lemma nth_error_last {A} (l : list A) x : nth_error (l ++ [x]) (length l) = Some x.
Proof. rewrite nth_error_app2 by lia. rewrite Nat.sub_diag. reflexivity. Qed.

Lemma decode_two src k t c0 mid cl : mid <> [] ->
  decode_ctcp (mk_event src k [t; c0 :: mid ++ [cl]]) =
    if negb (streqb k PRIVMSG) && negb (streqb k NOTICE) then Ok None else
    if negb (c0 =? ctcp_delim) || negb (cl =? ctcp_delim) then Ok None else
    decode_inner src (streqb k NOTICE) mid.
Proof.
  intros Hm. unfold decode_ctcp. cbn [ev_params ev_command ev_source length Nat.eqb negb nth_param nth_error rbind].
  assert (Hl : length (mid ++ [cl]) = S (length mid)).
  { rewrite app_length. cbn [length]. lia. }
  rewrite !Hl.
  replace (Nat.ltb (S (S (length mid))) 3) with false
    by (destruct mid; [congruence | cbn [length]; symmetry; apply Nat.ltb_ge; lia]).
  destruct (negb (streqb k PRIVMSG) && negb (streqb k NOTICE)); [reflexivity|].
  unfold at_. cbn [nth_error rbind].
  replace (S (S (length mid)) - 1)%nat with (S (length mid)) by lia.
  cbn [nth_error]. rewrite nth_error_last. cbn [rbind].
  destruct (negb (c0 =? ctcp_delim) || negb (cl =? ctcp_delim)); [reflexivity|].
  unfold slice. cbn [length]. rewrite Hl.
  replace (Nat.leb 1 (S (length mid)) && Nat.leb (S (length mid)) (S (S (length mid)))) with true
    by (symmetry; apply andb_true_iff; split; apply Nat.leb_le; lia).
  cbn [skipn rbind]. replace (S (length mid) - 1)%nat with (length mid) by lia.
  rewrite firstn_app_len. reflexivity.
Qed.

Lemma slice_head (a : str) x r : slice (a ++ x :: r) 0 (length a) = Ok a.
Proof.
  unfold slice. rewrite app_length. cbn [length].
  replace (Nat.leb 0 (length a) && Nat.leb (length a) (length a + S (length r))) with true
    by (symmetry; apply andb_true_iff; split; apply Nat.leb_le; lia).
  cbn [skipn]. rewrite Nat.sub_0_r, firstn_app_len. reflexivity.
Qed.

Lemma slice_tail (a : str) x r : slice_from (a ++ x :: r) (S (length a)) = Ok r.
Proof.
  unfold slice_from. rewrite app_length. cbn [length].
  replace (Nat.leb (S (length a)) (length a + S (length r))) with true
    by (symmetry; apply Nat.leb_le; lia).
  f_equal. induction a as [|y a IH]; [reflexivity | exact IH].
Qed.

Lemma decode_inner_total src reply mid : exists r, decode_inner src reply mid = Ok r.
Proof.
  unfold decode_inner. destruct (index_byte event_space mid) as [s|] eqn:Hi.
  - destruct (index_byte_some _ _ _ Hi) as (a & r & -> & Hn & <-).
    destruct (Nat.eqb (length a) 0); [eauto|].
    destruct (negb _); [eauto|].
    rewrite slice_head, slice_tail. cbn [rbind]. eauto.
  - destruct (forallb tag_byte_ok mid); eauto.
Qed.

(* what the inner part accepts: TAG, or TAG SPACE text *)
Definition inner_shape (mid cmd text : str) : Prop :=
  ctcp_tag cmd /\ ((mid = cmd /\ text = []) \/ mid = cmd ++ 32 :: text).

Lemma decode_inner_shape src reply mid cmd text : inner_shape mid cmd text ->
  decode_inner src reply mid = Ok (Some (mk_ctcp src cmd text reply)).
Proof.
  intros ((Hne & Htag) & [(-> & ->) | ->]); unfold decode_inner, event_space.
  - rewrite index_byte_notin by (apply tag_no_space; exact Htag).
    apply forallb_tag in Htag. rewrite Htag. reflexivity.
  - rewrite index_byte_app by (apply tag_no_space; exact Htag).
    replace (Nat.eqb (length cmd) 0) with false by (destruct cmd; [congruence | reflexivity]).
    rewrite firstn_app_len. apply forallb_tag in Htag. rewrite Htag. cbn [negb].
    rewrite slice_head, slice_tail. reflexivity.
Qed.

Lemma decode_inner_some src reply mid c :
  decode_inner src reply mid = Ok (Some c) ->
  c_source c = src /\ c_reply c = reply /\ (mid <> [] -> inner_shape mid (c_command c) (c_text c)).
Proof.
  unfold decode_inner, event_space.
  destruct (index_byte 32 mid) as [s|] eqn:Hi.
  - destruct (index_byte_some _ _ _ Hi) as (a & r & -> & Hn & <-).
    destruct (Nat.eqb (length a) 0) eqn:Hz; [discriminate|].
    rewrite firstn_app_len.
    destruct (forallb tag_byte_ok a) eqn:Ht; cbn [negb]; [|discriminate].
    rewrite slice_head, slice_tail. cbn [rbind].
    intros [= <-]. cbn. repeat split; auto.
    + intros ->. discriminate.
    + apply forallb_tag. exact Ht.
  - destruct (forallb tag_byte_ok mid) eqn:Ht; [|discriminate].
    intros [= <-]. cbn. repeat split; auto.
    apply forallb_tag. exact Ht.
Qed.

Lemma msg_kind_b k :
  negb (streqb k PRIVMSG) && negb (streqb k NOTICE) = false <-> msg_kind k.
Proof.
  unfold msg_kind. rewrite <- !streqb_spec.
  destruct (streqb k PRIVMSG), (streqb k NOTICE); cbn; intuition congruence.
Qed.

Lemma decode_short src k t p : (length p < 3)%nat -> decode_ctcp (mk_event src k [t; p]) = Ok None.
Proof.
  intros H. unfold decode_ctcp. cbn [ev_params length Nat.eqb negb nth_param nth_error rbind].
  apply Nat.ltb_lt in H. rewrite H. reflexivity.
Qed.

Lemma decode_params e : length (ev_params e) <> 2%nat -> decode_ctcp e = Ok None.
Proof.
  intros H. unfold decode_ctcp. apply Nat.eqb_neq in H. rewrite H. reflexivity.
Qed.

Theorem decode_total e : exists r, decode_ctcp e = Ok r.
Proof.
  destruct (Nat.eq_dec (length (ev_params e)) 2) as [H2 | H2].
  2:{ rewrite decode_params by exact H2. eauto. }
  destruct e as [src k ps]. cbn [ev_params] in H2.
  destruct ps as [|t [|p [|x l]]]; try discriminate H2.
  destruct (Nat.lt_ge_cases (length p) 3) as [Hs | Hs].
  { rewrite decode_short by exact Hs. eauto. }
  destruct (ends_split p Hs) as (c0 & mid & cl & -> & Hm).
  rewrite decode_two by exact Hm.
  destruct (_ && _); [eauto|]. destruct (_ || _); [eauto|].
  apply decode_inner_total.
Qed.

Lemma payload_inner p cmd text :
  ctcp_payload p cmd text <-> exists mid, p = 1 :: mid ++ [1] /\ inner_shape mid cmd text.
Proof.
  unfold ctcp_payload, inner_shape. split.
  - intros (Ht & [(-> & ->) | ->]).
    + exists cmd. cbn [app]. auto.
    + exists (cmd ++ 32 :: text). split; [|auto]. cbn [app]. rewrite <- app_assoc. reflexivity.
  - intros (mid & -> & Ht & [(-> & ->) | ->]); split; auto.
    right. cbn [app]. rewrite <- app_assoc. reflexivity.
Qed.

Lemma inner_shape_nonempty mid cmd text : inner_shape mid cmd text -> mid <> [].
Proof.
  intros ((Hne & _) & [(-> & _) | ->]); [exact Hne|].
  destruct cmd; [congruence | discriminate].
Qed.

Theorem decode_exact e c : decode_ctcp e = Ok (Some c) <-> ctcp_message e c.
Proof.
  split.
  - intros H.
    destruct (Nat.eq_dec (length (ev_params e)) 2) as [H2 | H2].
    2:{ rewrite decode_params in H by exact H2. discriminate. }
    destruct e as [src k ps]. cbn [ev_params] in H2.
    destruct ps as [|t [|p [|x l]]]; try discriminate H2.
    destruct (Nat.lt_ge_cases (length p) 3) as [Hs | Hs].
    { rewrite decode_short in H by exact Hs. discriminate. }
    destruct (ends_split p Hs) as (c0 & mid & cl & -> & Hm).
    rewrite decode_two in H by exact Hm.
    destruct (negb (streqb k PRIVMSG) && negb (streqb k NOTICE)) eqn:Hk; [discriminate|].
    destruct (c0 =? ctcp_delim) eqn:H0; cbn [negb orb] in H; [|discriminate].
    destruct (cl =? ctcp_delim) eqn:H1; cbn [negb orb] in H; [|discriminate].
    apply N.eqb_eq in H0, H1. unfold ctcp_delim in *. subst c0 cl.
    destruct (decode_inner_some _ _ _ _ H) as (Hsrc & Hrep & Hsh). specialize (Hsh Hm).
    unfold ctcp_message. cbn [ev_command ev_params ev_source].
    split; [apply msg_kind_b; exact Hk|].
    split; [exists t, (1 :: mid ++ [1]); split; [reflexivity|]; apply payload_inner; eauto|].
    split; [rewrite Hrep; apply streqb_spec | exact Hsrc].
  - intros (Hk & (t & p & Hp & Hpay) & Hrep & Hsrc).
    destruct e as [src k ps]. cbn [ev_command ev_params ev_source] in *. subst ps.
    apply payload_inner in Hpay. destruct Hpay as (mid & -> & Hsh).
    rewrite decode_two by (eapply inner_shape_nonempty; exact Hsh).
    apply msg_kind_b in Hk. rewrite Hk. cbn.
    rewrite (decode_inner_shape _ _ _ _ _ Hsh).
    destruct c as [cs cc ct cr]. cbn [c_source c_command c_text c_reply] in *. subst cs.
    repeat f_equal. rewrite <- streqb_spec in Hrep.
    destruct cr, (streqb k NOTICE); intuition congruence.
Qed.

Theorem decode_none_iff e : decode_ctcp e = Ok None <-> ~ is_ctcp e.
Proof.
  split.
  - intros H (c & Hc). apply decode_exact in Hc. congruence.
  - intros H. destruct (decode_total e) as ([c|] & Hr); [|exact Hr].
    exfalso. apply H. exists c. apply decode_exact. exact Hr.
Qed.

Theorem ctcp_message_functional e c c' : ctcp_message e c -> ctcp_message e c' -> c = c'.
Proof. rewrite <- !decode_exact. congruence. Qed.

(* ---- round trip -------------------------------------------------------- *)

Lemma encode_payload cmd text : ctcp_tag cmd -> ctcp_payload (encode_ctcp_raw cmd text) cmd text.
Proof.
  intros Ht. split; [exact Ht|]. destruct Ht as (Hne & _).
  unfold encode_ctcp_raw, ctcp_delim, event_space. destruct cmd as [|b cmd']; [congruence|].
  destruct text as [|x text']; [left | right].
  - split; reflexivity.
  - cbn [app]. reflexivity.
Qed.

Theorem roundtrip cmd text k src target :
  cmd <> [] -> Forall tag_byte cmd -> msg_kind k ->
  decode_ctcp (mk_event src k [target; encode_ctcp_raw cmd text]) =
    Ok (Some (mk_ctcp src cmd text (streqb k NOTICE))).
Proof.
  intros Hne Ht Hk. apply decode_exact. unfold ctcp_message.
  cbn [ev_command ev_params ev_source c_command c_text c_reply c_source].
  split; [exact Hk|].
  split; [exists target, (encode_ctcp_raw cmd text); split; [reflexivity|]; apply encode_payload; split; assumption|].
  split; [apply streqb_spec | reflexivity].
Qed.

Example roundtrip_sat :
  decode_ctcp (mk_event (Some (bs "nick")) NOTICE [bs "me"; encode_ctcp_raw (bs "PING") (bs " 1" ++ [1] ++ bs " ")])
  = Ok (Some (mk_ctcp (Some (bs "nick")) (bs "PING") (bs " 1" ++ [1] ++ bs " ") true)).
Proof. vm_compute. reflexivity. Qed.

(* the encoder refuses the empty command and nothing else *)
Lemma encode_empty_iff cmd text : encode_ctcp_raw cmd text = [] <-> cmd = [].
Proof.
  unfold encode_ctcp_raw. destruct cmd; [intuition|]. split; discriminate.
Qed.

(* ---- the causes of "not CTCP" ------------------------------------------ *)

Lemma split_unique (c : N) a a' r r' :
  ~ In c a -> ~ In c a' -> a ++ c :: r = a' ++ c :: r' -> a = a'.
Proof.
  intros Ha Ha' H.
  assert (Hl : length a = length a').
  { pose proof (index_byte_app c a r Ha) as H1. rewrite H in H1.
    rewrite (index_byte_app c a' r' Ha') in H1. congruence. }
  apply (f_equal (firstn (length a))) in H. rewrite firstn_app_len in H.
  rewrite Hl, firstn_app_len in H. exact H.
Qed.

Lemma decode_inner_none src reply mid : decode_inner src reply mid = Ok None ->
  (exists r, mid = 32 :: r) \/
  (exists tag b, ~ In 32 tag /\ In b tag /\ ~ tag_byte b /\ (mid = tag \/ exists r, mid = tag ++ 32 :: r)).
Proof.
  unfold decode_inner, event_space.
  destruct (index_byte 32 mid) as [s|] eqn:Hi.
  - destruct (index_byte_some _ _ _ Hi) as (a & r & -> & Hn & <-).
    destruct (Nat.eqb (length a) 0) eqn:Hz.
    { apply Nat.eqb_eq in Hz. destruct a; [|discriminate Hz]. intros _. left. exists r. reflexivity. }
    rewrite firstn_app_len.
    destruct (forallb tag_byte_ok a) eqn:Ht; cbn [negb].
    + rewrite slice_head, slice_tail. cbn [rbind]. discriminate.
    + intros _. right. apply forallb_tag_false in Ht. destruct Ht as (b & Hb & Hbad).
      exists a, b. eauto 6.
  - destruct (forallb tag_byte_ok mid) eqn:Ht; [discriminate|].
    intros _. right. apply forallb_tag_false in Ht. destruct Ht as (b & Hb & Hbad).
    exists mid, b. apply index_byte_none in Hi. auto 6.
Qed.

Lemma last_snoc {A} (l : list A) x d : last (l ++ [x]) d = x.
Proof. induction l as [|y l IH]; [reflexivity|]. cbn [app last]. destruct (l ++ [x]) eqn:E; [destruct l; discriminate | exact IH]. Qed.

Lemma tag_head_not_space cmd r rest : ctcp_tag cmd -> cmd ++ r <> 32 :: rest.
Proof.
  intros (Hne & Ht) H. destruct cmd as [|b cmd]; [congruence|].
  injection H as -> _. inversion Ht as [|? ? Hb _]. exact (tag_not_space Hb).
Qed.

Theorem not_ctcp_exact e : not_ctcp_cause e <-> decode_ctcp e = Ok None.
Proof.
  rewrite decode_none_iff. split.
  - intros Hc (c & Hk & (t & p & Hp & Hpay) & _ & _).
    apply payload_inner in Hpay. destruct Hpay as (mid & -> & Hsh).
    pose proof (inner_shape_nonempty _ _ _ Hsh) as Hm.
    destruct Hc as [Hl | Hnk | t' p' Hp' Hs | t' p' Hp' Hf | t' p' Hp' Hla | t' r Hp' | t' tag r b Hp' Hns Hb Hbad].
    + rewrite Hp in Hl. apply Hl. reflexivity.
    + exact (Hnk Hk).
    + rewrite Hp in Hp'. injection Hp' as _ <-. cbn [length] in Hs. rewrite app_length in Hs.
      cbn [length] in Hs. destruct mid; [congruence | cbn [length] in Hs; lia].
    + rewrite Hp in Hp'. injection Hp' as _ <-. apply Hf. reflexivity.
    + rewrite Hp in Hp'. injection Hp' as _ <-. apply Hla.
      change (1 :: mid ++ [1]) with ((1 :: mid) ++ [1]). apply last_snoc.
    + rewrite Hp in Hp'. injection Hp' as _ Hx.
      destruct Hsh as (Ht & [(-> & _) | ->]).
      * exact (tag_head_not_space _ _ _ Ht Hx).
      * rewrite <- app_assoc in Hx. exact (tag_head_not_space _ _ _ Ht Hx).
    + destruct Hsh as ((Hne & Ht) & Hsh).
      pose proof (tag_no_space _ Ht) as Hcs.
      assert (Hin : forall x, In x (c_command c) -> tag_byte x) by (apply Forall_forall; exact Ht).
      rewrite Hp in Hp'. cbn [app] in Hp'.
      destruct Hp' as [Hp' | Hp']; injection Hp' as _ Hx.
      * apply app_inj_tail in Hx. destruct Hx as (Hx & _).
        destruct Hsh as [(-> & _) | ->].
        -- subst tag. exact (Hbad (Hin _ Hb)).
        -- subst tag. apply Hns. apply in_or_app. right. left. reflexivity.
      * replace (tag ++ 32 :: r ++ [1]) with ((tag ++ 32 :: r) ++ [1]) in Hx
          by (rewrite <- app_assoc; reflexivity).
        apply app_inj_tail in Hx. destruct Hx as (Hx & _).
        destruct Hsh as [(-> & _) | ->].
        -- apply Hcs. rewrite Hx. apply in_or_app. right. left. reflexivity.
        -- apply split_unique in Hx; [|assumption|assumption]. subst tag. exact (Hbad (Hin _ Hb)).
  - intros Hn.
    assert (Hd : decode_ctcp e = Ok None) by (apply decode_none_iff; exact Hn). clear Hn.
    destruct (Nat.eq_dec (length (ev_params e)) 2) as [H2 | H2]; [|apply nc_params; exact H2].
    destruct e as [src k ps]. cbn [ev_params] in H2.
    destruct ps as [|t [|p [|x l]]]; try discriminate H2.
    destruct (Nat.lt_ge_cases (length p) 3) as [Hs | Hs]; [eapply nc_short; [reflexivity | exact Hs]|].
    destruct (ends_split p Hs) as (c0 & mid & cl & -> & Hm).
    rewrite decode_two in Hd by exact Hm.
    destruct (negb (streqb k PRIVMSG) && negb (streqb k NOTICE)) eqn:Hk.
    { apply nc_command. cbn [ev_command]. rewrite <- msg_kind_b. congruence. }
    destruct (N.eq_dec c0 1) as [-> | H0]; [|eapply nc_first; [reflexivity | exact H0]].
    destruct (N.eq_dec cl 1) as [-> | H1].
    2:{ eapply nc_last; [reflexivity|]. change (1 :: mid ++ [cl]) with ((1 :: mid) ++ [cl]).
        rewrite last_snoc. exact H1. }
    cbn in Hd. destruct (decode_inner_none _ _ _ Hd) as [(r & ->) | (tag & b & Hns & Hb & Hbad & Hmid)].
    + eapply nc_empty_tag. cbn [ev_params app]. reflexivity.
    + destruct Hmid as [-> | (r & ->)].
      * apply (nc_bad_tag _ t tag [] b); try assumption. left. reflexivity.
      * apply (nc_bad_tag _ t tag r b); try assumption. right. cbn [ev_params app].
        rewrite <- app_assoc. reflexivity.
Qed.

(* ---- the default table -------------------------------------------------- *)

(* handleCTCPFinger answers nothing when client.conn is nil (since 187fc3e) *)
Definition finger_silent (v : env) (c : ctcp_event) : bool :=
  negb (connected v) && streqb (c_command c) CTCP_FINGER.

Definition default_reply (v : env) (c : ctcp_event) : res (list event) :=
  if c_reply c then Ok [] else
  match c_source c with
  | None => Ok []
  | Some name =>
      if finger_silent v c then Ok [] else
      Ok [notice (to_rfc1459 name)
            (encode_ctcp_raw (c_command c) (answer_text v (c_command c) (c_text c)))]
  end.

Lemma send_reply_ok target k msg : k <> [] ->
  send_ctcp_reply target k msg = Ok (notice target (encode_ctcp_raw k msg)).
Proof.
  intros Hk. unfold send_ctcp_reply.
  destruct (encode_ctcp_raw k msg) eqn:E; [|reflexivity].
  apply encode_empty_iff in E. congruence.
Qed.

Lemma lookup_wildcard_default v : lookup ctcp_wildcard (default_table v) = None.
Proof. reflexivity. Qed.

Lemma lookup_default_known v c : known_query (c_command c) ->
  exists h, lookup (c_command c) (default_table v) = Some h /\ h c = default_reply v c.
Proof.
  intros Hk. destruct c as [src cmd text reply]. cbn [c_command] in *.
  unfold known_query in Hk. cbn [In] in Hk.
  destruct Hk as [<- | [<- | [<- | [<- | [<- | [<- | []]]]]]];
    (eexists; split; [reflexivity|]);
    unfold default_reply, finger_silent, handle_ping, handle_pong, handle_version, handle_source,
      handle_time, handle_finger, replier, source_id;
    cbn [c_reply c_source c_command c_text];
    destruct reply; try reflexivity;
    destruct src as [name|]; try reflexivity;
    destruct (connected v); try reflexivity;
    destruct (cfg_version v) eqn:Ev; unfold answer_text; cbn; rewrite Ev; reflexivity.
Qed.

Lemma lookup_default_unknown v k : ~ known_query k -> lookup k (default_table v) = None.
Proof.
  intros Hk. unfold default_table. cbn [lookup].
  repeat match goal with
  | |- context [streqb ?a k] =>
      let E := fresh "E" in
      destruct (streqb a k) eqn:E;
      [apply streqb_spec in E; exfalso; apply Hk; rewrite <- E; unfold known_query; cbn [In]; tauto|]
  end.
  reflexivity.
Qed.

Lemma known_query_dec k : {known_query k} + {~ known_query k}.
Proof. apply in_dec. apply list_eq_dec. apply N.eq_dec. Qed.

Lemma action_unknown : ~ known_query CTCP_ACTION.
Proof. unfold known_query. cbn [In]. intros [H | [H | [H | [H | [H | [H | []]]]]]]; discriminate H. Qed.

Lemma finger_known : known_query CTCP_FINGER.
Proof. unfold known_query. cbn [In]. tauto. Qed.

Lemma finger_silent_iff v c : finger_silent v c = true <-> finger_unanswerable v (c_command c).
Proof.
  unfold finger_silent, finger_unanswerable. rewrite andb_true_iff, negb_true_iff, streqb_spec. tauto.
Qed.

(* CTCP.call with the default table, as a function of the decoded event *)
Definition call_spec (v : env) (c : ctcp_event) : res (list event) :=
  if known_query_dec (c_command c) then default_reply v c else
  if streqb (c_command c) CTCP_ACTION then Ok [] else
  match c_source c with
  | Some name =>
      if negb (c_reply c) && is_valid_nick (to_rfc1459 name)
      then Ok [notice (to_rfc1459 name) (encode_ctcp_raw CTCP_ERRMSG errmsg_text)]
      else Ok []
  | None => Ok []
  end.

Lemma ctcp_call_default v c : ctcp_call (default_table v) c = call_spec v c.
Proof.
  unfold ctcp_call, call_spec. rewrite lookup_wildcard_default. cbn [rbind].
  destruct (known_query_dec (c_command c)) as [Hk | Hk].
  - destruct (lookup_default_known v c Hk) as (h & -> & ->).
    destruct (default_reply v c); reflexivity.
  - rewrite lookup_default_unknown by exact Hk.
    destruct (streqb (c_command c) CTCP_ACTION); [reflexivity|].
    destruct (c_source c) as [name|]; [|reflexivity]. unfold source_id.
    destruct (negb (c_reply c) && is_valid_nick (to_rfc1459 name)); [|reflexivity].
    rewrite send_reply_ok by discriminate. reflexivity.
Qed.

Lemma call_spec_total v c : exists outs, call_spec v c = Ok outs.
Proof.
  unfold call_spec, default_reply. destruct (known_query_dec _).
  - destruct (c_reply c); [eauto|]. destruct (c_source c); [|eauto]. destruct (finger_silent v c); eauto.
  - destruct (streqb _ _); [eauto|]. destruct (c_source c); [|eauto]. destruct (_ && _); eauto.
Qed.

(* ---- the reply discipline ----------------------------------------------- *)

Lemma notice_not_privmsg : NOTICE <> PRIVMSG.
Proof. discriminate. Qed.

Lemma message_request e c : ctcp_message e c -> c_reply c = false -> ev_command e = PRIVMSG.
Proof.
  intros (Hk & _ & Hr & _) Hf. destruct Hk as [Hk | Hk]; [exact Hk|].
  apply Hr in Hk. congruence.
Qed.

Lemma message_reply e c : ctcp_message e c -> c_reply c = true -> ev_command e = NOTICE.
Proof. intros (_ & _ & Hr & _) Ht. apply Hr. exact Ht. Qed.

Lemma message_source e c : ctcp_message e c -> c_source c = ev_source e.
Proof. intros (_ & _ & _ & Hs). exact Hs. Qed.

(* the CTCP stage with the default table cannot panic - connected or not *)
Theorem stage_total_any v e : exists outs, ctcp_stage (default_table v) e = Ok outs.
Proof.
  unfold ctcp_stage. destruct (decode_total e) as ([c|] & ->); cbn [rbind]; [|eauto].
  rewrite ctcp_call_default. apply call_spec_total.
Qed.

Theorem stage_answers v e outs :
  ctcp_stage (default_table v) e = Ok outs -> answers v e outs.
Proof.
  unfold ctcp_stage. destruct (decode_total e) as ([c|] & Hd); rewrite Hd; cbn [rbind].
  2:{ intros [= <-]. apply ans_silent. right. left. apply decode_none_iff. exact Hd. }
  apply decode_exact in Hd. rename Hd into Hm.
  pose proof (message_source _ _ Hm) as Hsrc.
  rewrite ctcp_call_default. unfold call_spec, default_reply.
  destruct (known_query_dec (c_command c)) as [Hk | Hk].
  - destruct (c_reply c) eqn:Hr.
    { intros [= <-]. apply ans_silent. left. rewrite (message_reply _ _ Hm Hr). exact notice_not_privmsg. }
    destruct (c_source c) as [name|] eqn:Hs.
    2:{ intros [= <-]. apply ans_silent. auto. }
    destruct (finger_silent v c) eqn:Hf.
    + intros [= <-]. apply ans_silent. right. right. right. left. exists c. split; [exact Hm|].
      apply finger_silent_iff. exact Hf.
    + intros [= <-]. apply ans_known; auto; [exact (message_request _ _ Hm Hr)|].
      rewrite <- finger_silent_iff. congruence.
  - destruct (streqb (c_command c) CTCP_ACTION) eqn:Ha.
    { intros [= <-]. apply ans_silent. apply streqb_spec in Ha.
      destruct (ev_source e) as [name|] eqn:Hs; [|auto].
      right. right. right. right. exists c, name. auto. }
    apply streqb_false in Ha.
    destruct (c_source c) as [name|] eqn:Hs.
    2:{ intros [= <-]. apply ans_silent. auto. }
    destruct (c_reply c) eqn:Hr; cbn [negb andb].
    { intros [= <-]. apply ans_silent. left. rewrite (message_reply _ _ Hm Hr). exact notice_not_privmsg. }
    destruct (is_valid_nick (to_rfc1459 name)) eqn:Hv.
    + intros [= <-]. apply ans_unknown with (c := c); auto. exact (message_request _ _ Hm Hr).
    + intros [= <-]. apply ans_silent. right. right. right. right. exists c, name. auto.
Qed.

Lemma answers_functional v e o1 o2 : answers v e o1 -> answers v e o2 -> o1 = o2.
Proof.
  assert (Hsil : forall c name, ev_command e = PRIVMSG -> ctcp_message e c -> ev_source e = Some name ->
            ((known_query (c_command c) /\ ~ finger_unanswerable v (c_command c)) \/
             (~ known_query (c_command c) /\ c_command c <> CTCP_ACTION /\ is_valid_nick (to_rfc1459 name) = true)) ->
            answers v e [] -> False).
  { intros c name Hp Hm Hs Hor Ha. inversion Ha as [| | Hcase].
    destruct Hcase as [H | [H | [H | [(c' & Hm' & Hfu) | (c' & name' & Hm' & Hs' & Hnk & Hcase)]]]].
    - exact (H Hp).
    - apply H. exists c. exact Hm.
    - congruence.
    - rewrite (ctcp_message_functional _ _ _ Hm' Hm) in *.
      destruct Hor as [(_ & Hnf) | (Hnk & _)]; [exact (Hnf Hfu)|].
      destruct Hfu as (Hf & _). apply Hnk. rewrite Hf. exact finger_known.
    - rewrite (ctcp_message_functional _ _ _ Hm' Hm) in *.
      assert (name' = name) by congruence. subst name'.
      destruct Hor as [(Hk & _) | (_ & Hna & Hv)]; [exact (Hnk Hk)|].
      destruct Hcase as [Hc | Hc]; congruence. }
  intros H1 H2.
  destruct H1 as [c name Hp Hm Hs Hk Hnf | c name Hp Hm Hs Hnk Hna Hv | Hcase1];
  inversion H2 as [c' name' Hp' Hm' Hs' Hk' Hnf' | c' name' Hp' Hm' Hs' Hnk' Hna' Hv' | Hcase2]; subst;
  try (rewrite (ctcp_message_functional _ _ _ Hm' Hm) in * );
  try (assert (name' = name) by congruence; subst name').
  - reflexivity.
  - contradiction.
  - exfalso. apply (Hsil c name); auto.
  - contradiction.
  - reflexivity.
  - exfalso. apply (Hsil c name); auto.
  - exfalso. apply (Hsil c' name'); auto. apply ans_silent. exact Hcase1.
  - exfalso. apply (Hsil c' name'); auto. apply ans_silent. exact Hcase1.
  - reflexivity.
Qed.

(* the CTCP stage with the default table writes exactly what the discipline allows *)
Theorem stage_exact v e outs :
  ctcp_stage (default_table v) e = Ok outs <-> answers v e outs.
Proof.
  split; [apply stage_answers|].
  intros Ha. destruct (stage_total_any v e) as (outs' & Hs). rewrite Hs. f_equal.
  apply (answers_functional v e); [|exact Ha]. apply stage_answers; assumption.
Qed.

(* a NOTICE never elicits anything, whatever the environment *)
Theorem notice_silent v e : ev_command e = NOTICE -> ctcp_stage (default_table v) e = Ok [].
Proof.
  intros Hn. unfold ctcp_stage. destruct (decode_total e) as ([c|] & Hd); rewrite Hd; cbn [rbind]; [|reflexivity].
  apply decode_exact in Hd. destruct Hd as (_ & _ & Hr & _). apply Hr in Hn.
  rewrite ctcp_call_default. unfold call_spec, default_reply. rewrite Hn. cbn [negb andb].
  destruct (known_query_dec _); [reflexivity|].
  destruct (streqb _ _); [reflexivity|]. destruct (c_source c); reflexivity.
Qed.

(* the readable form of the discipline - connected or not *)
Theorem stage_discipline_any v e outs :
  ctcp_stage (default_table v) e = Ok outs ->
  (length outs <= 1)%nat /\
  forall o, In o outs ->
    ev_command e = PRIVMSG /\
    exists c name, decode_ctcp e = Ok (Some c) /\ ev_source e = Some name /\
      c_command c <> CTCP_ACTION /\
      (known_query (c_command c) \/ is_valid_nick (to_rfc1459 name) = true) /\
      is_answer_to name o.
Proof.
  intros Hs. apply stage_answers in Hs.
  destruct Hs as [c name Hp Hm Hsrc Hk _ | c name Hp Hm Hsrc Hnk Hna Hv | _].
  - split; [cbn; lia|]. intros o [<- | []]. split; [exact Hp|].
    exists c, name. split; [apply decode_exact; exact Hm|]. split; [exact Hsrc|].
    split; [intros Ha; rewrite Ha in Hk; exact (action_unknown Hk)|]. split; [auto|].
    assert (Htag : ctcp_tag (c_command c)) by (destruct Hm as (_ & (t & p & _ & Ht & _) & _); exact Ht).
    unfold is_answer_to, notice. cbn [ev_command ev_source ev_params].
    split; [reflexivity|]. split; [reflexivity|].
    eexists _, _. split; [exact Htag|]. split; [reflexivity|]. apply encode_payload. exact Htag.
  - split; [cbn; lia|]. intros o [<- | []]. split; [exact Hp|].
    exists c, name. split; [apply decode_exact; exact Hm|]. split; [exact Hsrc|].
    split; [exact Hna|]. split; [auto|].
    assert (Htag : ctcp_tag CTCP_ERRMSG).
    { split; [discriminate|]. apply forallb_tag. reflexivity. }
    unfold is_answer_to, notice. cbn [ev_command ev_source ev_params].
    split; [reflexivity|]. split; [reflexivity|].
    eexists _, _. split; [exact Htag|]. split; [reflexivity|]. apply encode_payload. exact Htag.
  - split; [cbn; lia|]. intros o [].
Qed.

(* the statements as they were before 187fc3e, when FINGER could panic on a client without
   connection: kept under their names for the developments that use them *)
Theorem stage_total v e : connected v = true -> exists outs, ctcp_stage (default_table v) e = Ok outs.
Proof. intros _. apply stage_total_any. Qed.

Theorem stage_discipline v e outs : connected v = true ->
  ctcp_stage (default_table v) e = Ok outs ->
  (length outs <= 1)%nat /\
  forall o, In o outs ->
    ev_command e = PRIVMSG /\
    exists c name, decode_ctcp e = Ok (Some c) /\ ev_source e = Some name /\
      c_command c <> CTCP_ACTION /\
      (known_query (c_command c) \/ is_valid_nick (to_rfc1459 name) = true) /\
      is_answer_to name o.
Proof. intros _. apply stage_discipline_any. Qed.

(* no reply loop: whatever the stage writes, and whoever it comes back from (the peer sees
   it with our nickname as source; a server may hand it back as an echo), a client running
   the default table - in any environment - answers nothing to it *)
Theorem no_loop v e outs o :
  ctcp_stage (default_table v) e = Ok outs -> In o outs ->
  forall v' src params, ctcp_stage (default_table v') (mk_event src (ev_command o) params) = Ok [].
Proof.
  intros Hs Ho v' src params.
  destruct (stage_discipline_any v e outs Hs) as (_ & Hd).
  destruct (Hd o Ho) as (_ & c & name & _ & _ & _ & _ & (Hn & _)).
  apply notice_silent. exact Hn.
Qed.

(* non-vacuity *)
Definition ex_env (conn : bool) : env :=
  mk_env [] (bs "Real") (bs "go1") (bs "linux") (bs "amd64") (bs "now") (bs "1s") conn.

Example stage_answers_version :
  ctcp_stage (default_table (ex_env true))
    (mk_event (Some (bs "Nick[x]")) PRIVMSG [bs "me"; [1] ++ bs "VERSION" ++ [1]])
  = Ok [notice (bs "nick{x}") ([1] ++ bs "VERSION girc (github.com/lrstanley/girc) using go1 (linux, amd64)" ++ [1])].
Proof. vm_compute. reflexivity. Qed.

Example stage_answers_unknown :
  ctcp_stage (default_table (ex_env true))
    (mk_event (Some (bs "nick")) PRIVMSG [bs "#chan"; [1] ++ bs "FOO bar" ++ [1]])
  = Ok [notice (bs "nick") ([1] ++ bs "ERRMSG that is an unknown CTCP query" ++ [1])].
Proof. vm_compute. reflexivity. Qed.

Example stage_silent_action :
  ctcp_stage (default_table (ex_env true))
    (mk_event (Some (bs "nick")) PRIVMSG [bs "#chan"; [1] ++ bs "ACTION waves" ++ [1]]) = Ok [].
Proof. vm_compute. reflexivity. Qed.

Example stage_silent_server_unknown :
  ctcp_stage (default_table (ex_env true))
    (mk_event (Some (bs "irc.server.net")) PRIVMSG [bs "me"; [1] ++ bs "FOO" ++ [1]]) = Ok [].
Proof. vm_compute. reflexivity. Qed.

Example finger_disconnected_silent :
  ctcp_stage (default_table (ex_env false))
    (mk_event (Some (bs "nick")) PRIVMSG [bs "me"; [1] ++ bs "FINGER" ++ [1]]) = Ok [] /\
  ctcp_stage (default_table (ex_env true))
    (mk_event (Some (bs "nick")) PRIVMSG [bs "me"; [1] ++ bs "FINGER" ++ [1]])
    = Ok [notice (bs "nick") ([1] ++ bs "FINGER Real -- idle 1s" ++ [1])].
Proof. vm_compute. split; reflexivity. Qed.

Example not_ctcp_sat :
  not_ctcp_cause (mk_event None PRIVMSG [bs "me"; [1] ++ bs "ping" ++ [1]]).
Proof.
  apply (nc_bad_tag _ (bs "me") (bs "ping") [] 112).
  - left. reflexivity.
  - cbn. intuition discriminate.
  - cbn. auto.
  - unfold tag_byte. lia.
Qed.

(* ---- the sending side: SendCTCP / SendCTCPReply -------------------------- *)

Theorem send_panic_iff target k msg :
  (send_ctcp target k msg = Panic <-> k = []) /\ (send_ctcp_reply target k msg = Panic <-> k = []).
Proof.
  unfold send_ctcp, send_ctcp_reply. split; (split; [|intros ->; reflexivity]);
    (destruct (encode_ctcp_raw k msg) eqn:E; [intros _; apply encode_empty_iff in E; exact E | discriminate]).
Qed.

Lemma send_ctcp_ok target k msg : k <> [] ->
  send_ctcp target k msg = Ok (message target (encode_ctcp_raw k msg)).
Proof.
  intros Hk. unfold send_ctcp. destruct (encode_ctcp_raw k msg) eqn:E; [|reflexivity].
  apply encode_empty_iff in E. congruence.
Qed.

(* what SendCTCP / SendCTCPReply hand to Client.Send is, for the receiver (who sees it with
   the sender as source), the CTCP request / reply with the same type and text *)
Theorem send_roundtrip target k msg src : ctcp_tag k ->
  exists q r, send_ctcp target k msg = Ok q /\ send_ctcp_reply target k msg = Ok r /\
    decode_ctcp (mk_event src (ev_command q) (ev_params q)) = Ok (Some (mk_ctcp src k msg false)) /\
    decode_ctcp (mk_event src (ev_command r) (ev_params r)) = Ok (Some (mk_ctcp src k msg true)).
Proof.
  intros (Hne & Ht). eexists _, _.
  split; [apply send_ctcp_ok; exact Hne|]. split; [apply send_reply_ok; exact Hne|].
  unfold message, notice. cbn [ev_command ev_params]. split.
  - apply (roundtrip k msg PRIVMSG src target Hne Ht). left. reflexivity.
  - apply (roundtrip k msg NOTICE src target Hne Ht). right. reflexivity.
Qed.

(* the encoder does not validate the type: a type without SPACE that is not a tag (lower
   case, punctuation) is sent all the same and is NOT a CTCP message for the receiver *)
Theorem send_bad_type target k msg src q : ~ In 32 k -> ~ Forall tag_byte k ->
  send_ctcp target k msg = Ok q ->
  decode_ctcp (mk_event src (ev_command q) (ev_params q)) = Ok None.
Proof.
  intros Hns Hbad Hs. assert (Hne : k <> []) by (intros ->; apply Hbad; constructor).
  rewrite send_ctcp_ok in Hs by exact Hne. injection Hs as <-.
  unfold message. cbn [ev_command ev_params].
  apply not_ctcp_exact.
  assert (Hb : exists b, In b k /\ ~ tag_byte b).
  { apply forallb_tag_false. destruct (forallb tag_byte_ok k) eqn:E; [|reflexivity].
    apply forallb_tag in E. contradiction. }
  destruct Hb as (b & Hin & Hnt).
  apply (nc_bad_tag _ target k msg b); try assumption. cbn [ev_params].
  unfold encode_ctcp_raw, ctcp_delim, event_space. destruct k as [|x k']; [congruence|].
  destruct msg as [|y m]; [left | right]; reflexivity.
Qed.

Example send_bad_type_sat :
  exists q, send_ctcp (bs "nick") (bs "version") [] = Ok q /\
    decode_ctcp (mk_event (Some (bs "me")) (ev_command q) (ev_params q)) = Ok None.
Proof. eexists. split; vm_compute; reflexivity. Qed.

(* ---- histories: a whole inbox, and two clients answering each other ------ *)

Lemma stage_all_notice v inbox : Forall (fun e => ev_command e = NOTICE) inbox ->
  stage_all (default_table v) inbox = Ok [].
Proof.
  induction 1 as [|e r He _ IH]; [reflexivity|].
  cbn [stage_all]. rewrite (notice_silent v e He), IH. reflexivity.
Qed.

Theorem stage_all_discipline v inbox outs :
  stage_all (default_table v) inbox = Ok outs ->
  (length outs <= length (filter (fun e => streqb (ev_command e) PRIVMSG) inbox))%nat /\
  Forall (fun o => ev_command o = NOTICE /\ ev_source o = None /\
                   exists e name, In e inbox /\ ev_command e = PRIVMSG /\ ev_source e = Some name /\
                                  is_answer_to name o) outs.
Proof.
  revert outs. induction inbox as [|e r IH]; intros outs; cbn [stage_all].
  - intros [= <-]. split; [cbn; lia | constructor].
  - destruct (stage_total_any v e) as (o & Ho). rewrite Ho. cbn [rbind].
    destruct (stage_all (default_table v) r) as [os|] eqn:Hr; cbn [rbind]; [|discriminate].
    intros [= <-]. destruct (IH os eq_refl) as (Hlen & Hall).
    destruct (stage_discipline_any v e o Ho) as (Hle & Hshape).
    split.
    + rewrite app_length. cbn [filter].
      destruct o as [|o1 o']; [destruct (streqb _ _); cbn [length]; lia|].
      destruct (Hshape o1 (or_introl eq_refl)) as (Hp & _).
      rewrite Hp, streqb_refl. cbn [length] in *. lia.
    + apply Forall_app. split.
      * apply Forall_forall. intros x Hx. destruct (Hshape x Hx) as (Hp & c & name & _ & Hs & _ & _ & Ha).
        pose proof Ha as (Hn & Hsrc & _). split; [exact Hn|]. split; [exact Hsrc|].
        exists e, name. cbn [In]. auto.
      * eapply Forall_impl; [|exact Hall]. cbn beta.
        intros x (Hn & Hsrc & e' & name & Hin & Hrest). split; [exact Hn|]. split; [exact Hsrc|].
        exists e', name. cbn [In]. auto.
Qed.

(* Two clients can never drive each other into a reply loop: whatever arrives at A, the
   exchange is over after A's own answers - B answers nothing to them - however many rounds
   are allowed; the answers are at most one per request in the inbox. *)
Theorem volley_ends va vb na nb inbox rounds : (2 <= rounds)%nat ->
  exists outs, stage_all (default_table va) inbox = Ok outs /\
    volley rounds va vb na nb inbox = Ok (outs, true).
Proof.
  intros Hr.
  assert (Htot : exists outs, stage_all (default_table va) inbox = Ok outs).
  { induction inbox as [|e r IH]; [eexists; reflexivity|]. cbn [stage_all].
    destruct (stage_total_any va e) as (o & ->). destruct IH as (os & ->). cbn [rbind]. eauto. }
  destruct Htot as (outs & Houts). exists outs. split; [exact Houts|].
  destruct rounds as [|[|n]]; try lia.
  destruct inbox as [|e0 r0].
  { cbn in Houts. injection Houts as <-. reflexivity. }
  cbn [volley]. rewrite Houts. cbn [rbind].
  destruct (stage_all_discipline va _ outs Houts) as (_ & Hall).
  destruct (map (as_received na) outs) as [|m ms] eqn:Hm.
  { cbn [volley rbind fst snd]. rewrite app_nil_r. reflexivity. }
  rewrite <- Hm. 
  assert (Hsil : stage_all (default_table vb) (map (as_received na) outs) = Ok []).
  { apply stage_all_notice. apply Forall_map. eapply Forall_impl; [|exact Hall].
    cbn beta. intros o (Hn & _). exact Hn. }
  rewrite Hm in *. cbn [volley]. rewrite Hsil. cbn [rbind map volley fst snd app].
  destruct n; cbn [volley rbind fst snd]; rewrite app_nil_r; reflexivity.
Qed.

Example volley_sat :
  volley 5 (ex_env true) (ex_env true) (bs "a") (bs "b")
    [mk_event (Some (bs "b")) PRIVMSG [bs "a"; [1] ++ bs "PING 1" ++ [1]];
     mk_event (Some (bs "b")) PRIVMSG [bs "a"; [1] ++ bs "NOPE" ++ [1]]]
  = Ok ([notice (bs "b") ([1] ++ bs "PING 1" ++ [1]);
         notice (bs "b") ([1] ++ bs "ERRMSG that is an unknown CTCP query" ++ [1])], true).
Proof. vm_compute. reflexivity. Qed.

(* ---- RunHandlers: what handlers do to their copy does not reach the CTCP stage ---- *)

Theorem run_handlers_isolated hs t e :
  run_handlers hs t e = (c <- ctcp_stage t e ;; Ok (flat_map (fun h => snd (h e)) hs ++ c)).
Proof. reflexivity. Qed.

(* a handler that rewrites source and parameters of its event: the answer goes to alice[m] *)
Example run_handlers_mutator :
  let mutate : ev_handler := fun e => (mk_event (Some (bs "alice")) (ev_command e) [bs "#x"; bs "hijacked"], []) in
  run_handlers [mutate] (default_table (ex_env true))
    (mk_event (Some (bs "alice[m]")) PRIVMSG [bs "me"; [1] ++ bs "PING 7" ++ [1]])
  = Ok [notice (bs "alice{m}") ([1] ++ bs "PING 7" ++ [1])].
Proof. vm_compute. reflexivity. Qed.
