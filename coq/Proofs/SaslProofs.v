(* Proofs for C09, part 1: the chunk loop of handleSASL against the chunking
   specification (Spec/SaslSpec.v), the server-side reassembly, and PLAIN. *)
Require Import Bytes Utf8 Base64 Sasl SaslSpec FormatLemmas Base64Lemmas.
From Coq Require Import Lia ZifyBool ZifyN ZifyNat.

Ltac Zify.zify_post_hook ::= Z.div_mod_to_equations.

(* ---- checked slices ------------------------------------------------------ *)

Lemma slice_0_ok (s : str) j : (j <= length s)%nat -> slice s 0 j = Ok (firstn j s).
Proof.
  intros Hj. unfold slice.
  assert (H1 : Nat.leb j (length s) = true) by (apply Nat.leb_le; lia).
  rewrite H1. cbn [Nat.leb andb skipn]. rewrite Nat.sub_0_r. reflexivity.
Qed.

Lemma slice_from_ok (s : str) i : (i <= length s)%nat -> slice_from s i = Ok (skipn i s).
Proof.
  intros Hi. unfold slice_from.
  assert (H1 : Nat.leb i (length s) = true) by (apply Nat.leb_le; lia).
  rewrite H1. reflexivity.
Qed.

(* ---- the loop meets the specification ------------------------------------ *)

Lemma nonempty_length {A} (l : list A) : l <> [] <-> (0 < length l)%nat.
Proof. destruct l; cbn [length]; split; intros H; try congruence; lia. Qed.

Lemma chunk_loop_spec fuel : forall auth,
  (length auth < fuel)%nat -> auth <> [] ->
  exists cs, sasl_chunk_loop fuel auth = Ok cs /\ chunked auth cs.
Proof.
  induction fuel as [|f IH]; intros auth Hlen Hne; [lia|].
  apply nonempty_length in Hne.
  cbn [sasl_chunk_loop]. unfold sasl_chunk_size.
  destruct (Nat.ltb 400 (length auth)) eqn:Hgt.
  - apply Nat.ltb_lt in Hgt.
    rewrite slice_0_ok by lia. rewrite slice_from_ok by lia. cbn [rbind].
    assert (Hrl : length (skipn 400 auth) = (length auth - 400)%nat) by apply skipn_length.
    destruct (IH (skipn 400 auth)) as [cs [Hcs Hch]].
    + lia.
    + apply nonempty_length. lia.
    + rewrite Hcs. cbn [rbind]. eexists. split; [reflexivity|].
      rewrite <- (firstn_skipn 400 auth) at 1.
      apply ch_full; [apply firstn_length_le; lia | apply nonempty_length; lia | exact Hch].
  - apply Nat.ltb_ge in Hgt.
    assert (Hle : Nat.leb (length auth) 400 = true) by (apply Nat.leb_le; lia).
    rewrite Hle.
    destruct (Nat.eqb (length auth) 400) eqn:Heq.
    + apply Nat.eqb_eq in Heq. eexists. split; [reflexivity|]. apply ch_exact; exact Heq.
    + apply Nat.eqb_neq in Heq. eexists. split; [reflexivity|]. apply ch_short; lia.
Qed.

Lemma sasl_chunks_spec auth : auth <> [] -> exists cs, sasl_chunks auth = Ok cs /\ chunked auth cs.
Proof. intros Hne. unfold sasl_chunks. apply chunk_loop_spec; [lia | exact Hne]. Qed.

(* ---- the specification is deterministic ----------------------------------- *)

Lemma app_eq_len {A} (a a' b b' : list A) :
  length a = length a' -> a ++ b = a' ++ b' -> a = a' /\ b = b'.
Proof.
  revert a'. induction a as [|x a IH]; intros [|y a'] Hl He; cbn [length] in Hl; try lia.
  - split; [reflexivity | exact He].
  - cbn [app] in He. injection He as Hxy He. destruct (IH a') as [H1 H2]; [lia | exact He |].
    subst. split; reflexivity.
Qed.

Lemma chunked_nonempty r cs : chunked r cs -> (0 < length r)%nat.
Proof. induction 1 as [r H|r H|c rest cs Hc Hne Hch IH]; try lia. rewrite app_length. lia. Qed.

Lemma chunked_functional r cs : chunked r cs -> forall cs', chunked r cs' -> cs = cs'.
Proof.
  induction 1 as [r H|r H|c rest cs Hc Hne Hch IH]; intros cs' H'.
  - inversion H' as [r' H1|r' H1|c' rest' cs1 Hc' Hne' Hch' Heq]; subst; try reflexivity; try lia.
    apply chunked_nonempty in Hch'. rewrite app_length in H. lia.
  - inversion H' as [r' H1|r' H1|c' rest' cs1 Hc' Hne' Hch' Heq]; subst; try reflexivity; try lia.
    apply chunked_nonempty in Hch'. rewrite app_length in H. lia.
  - pose proof (chunked_nonempty _ _ Hch) as Hpos.
    inversion H' as [r' H1|r' H1|c' rest' cs1 Hc' Hne' Hch' Heq]; subst.
    + rewrite app_length in H1. lia.
    + rewrite app_length in H1. lia.
    + destruct (app_eq_len c' c rest' rest) as [E1 E2]; [lia | exact Heq |]. subst.
      f_equal. apply IH. exact Hch'.
Qed.

Theorem sasl_chunks_exact auth cs : auth <> [] -> (sasl_chunks auth = Ok cs <-> chunked auth cs).
Proof.
  intros Hne. destruct (sasl_chunks_spec auth Hne) as [cs0 [H0 Hch0]]. split.
  - intros H. rewrite H0 in H. injection H as <-. exact Hch0.
  - intros H. rewrite H0. f_equal. exact (chunked_functional _ _ Hch0 _ H).
Qed.

(* ---- what the specification implies ---------------------------------------- *)

Lemma c_plus_length : length c_plus = 1%nat. Proof. reflexivity. Qed.

Lemma chunked_sizes r cs :
  chunked r cs -> Forall (fun c => (1 <= length (chunk_param c) <= 400)%nat) cs.
Proof.
  induction 1 as [r H|r H|c rest cs Hc Hne Hch IH].
  - constructor; [cbn [chunk_param]; lia | constructor].
  - constructor; [cbn [chunk_param]; lia|]. constructor; [|constructor].
    cbn [chunk_param]. rewrite c_plus_length. lia.
  - constructor; [cbn [chunk_param]; lia | exact IH].
Qed.

Lemma chunked_concat r cs : chunked r cs -> concat (payloads cs) = r.
Proof.
  induction 1 as [r H|r H|c rest cs Hc Hne Hch IH]; cbn [payloads concat].
  - apply app_nil_r.
  - apply app_nil_r.
  - rewrite IH. reflexivity.
Qed.

(* only the last element can be the lone "+"; everything before it is payload *)
Lemma chunked_shape r cs :
  chunked r cs ->
  exists ps, ps <> [] /\ Forall (fun p => length p = 400%nat) (removelast ps) /\
    (0 < length (last ps []) <= 400)%nat /\
    cs = List.map Payload ps ++ (if Nat.eqb (length (last ps [])) 400 then [Plus] else []).
Proof.
  induction 1 as [r H|r H|c rest cs Hc Hne Hch IH].
  - exists [r]. cbn [removelast last List.map app].
    split; [discriminate|]. split; [constructor|]. split; [lia|].
    replace (Nat.eqb (length r) 400) with false by (symmetry; apply Nat.eqb_neq; lia). reflexivity.
  - exists [r]. cbn [removelast last List.map app].
    split; [discriminate|]. split; [constructor|]. split; [lia|].
    replace (Nat.eqb (length r) 400) with true by (symmetry; apply Nat.eqb_eq; lia). reflexivity.
  - destruct IH as [ps [Hps [Hall [Hlast Hcs]]]].
    exists (c :: ps). destruct ps as [|p ps']; [congruence|].
    change (removelast (c :: p :: ps')) with (c :: removelast (p :: ps')).
    change (last (c :: p :: ps') []) with (last (p :: ps') []).
    split; [discriminate|]. split; [constructor; [exact Hc | exact Hall]|]. split; [exact Hlast|].
    rewrite Hcs. reflexivity.
Qed.

Lemma chunked_plus r cs : chunked r cs -> (ends_with_plus cs <-> (length r mod 400 = 0)%nat).
Proof.
  induction 1 as [r H|r H|c rest cs Hc Hne Hch IH].
  - split.
    + intros [pre Hpre]. destruct pre as [|x [|y pre]]; cbn in Hpre; discriminate.
    + intros Hm. lia.
  - split.
    + intros _. rewrite H. reflexivity.
    + intros _. exists [Payload r]. reflexivity.
  - rewrite app_length.
    assert (Hm : ((length c + length rest) mod 400 = length rest mod 400)%nat) by lia.
    rewrite Hm, <- IH. split.
    + intros [pre Hpre]. destruct pre as [|x pre].
      * cbn in Hpre. injection Hpre as _ Hcs. subst cs. inversion Hch.
      * cbn [app] in Hpre. injection Hpre as _ Hcs. exists pre. exact Hcs.
    + intros [pre Hpre]. exists (Payload c :: pre). rewrite Hpre. reflexivity.
Qed.

(* ---- the server's view ------------------------------------------------------ *)

Lemma last_app_nonempty {A} (a b : list A) d : b <> [] -> last (a ++ b) d = last b d.
Proof.
  intros Hb. induction a as [|x a IH]; [reflexivity|].
  cbn [app]. destruct (a ++ b) eqn:E.
  - destruct a; cbn in E; [congruence | discriminate].
  - cbn [last]. cbn [last] in IH. exact IH.
Qed.

Lemma reassemble_chunked r cs :
  chunked r cs -> ~ last_chunk_is_plus r ->
  forall acc, reassemble acc (List.map chunk_param cs) = Some (acc ++ r).
Proof.
  induction 1 as [r H|r H|c rest cs Hc Hne Hch IH]; intros Hnp acc.
  - cbn [List.map chunk_param reassemble].
    replace (Nat.eqb (length r) 400) with false by (symmetry; apply Nat.eqb_neq; lia).
    replace (Nat.ltb (length r) 400) with true by (symmetry; apply Nat.ltb_lt; lia).
    destruct (streqb r c_plus) eqn:E; [|reflexivity].
    apply streqb_spec in E. subst r. exfalso. apply Hnp. split; reflexivity.
  - cbn [List.map chunk_param reassemble].
    replace (Nat.eqb (length r) 400) with true by (symmetry; apply Nat.eqb_eq; lia).
    rewrite c_plus_length. cbn [Nat.eqb]. reflexivity.
  - cbn [List.map chunk_param reassemble].
    replace (Nat.eqb (length c) 400) with true by (symmetry; apply Nat.eqb_eq; lia).
    rewrite IH; [rewrite app_assoc; reflexivity|].
    intros [Hm Hl]. apply Hnp. split.
    + rewrite app_length. lia.
    + rewrite last_app_nonempty by exact Hne. exact Hl.
Qed.

(* ---- C09_chunks as stated in the design ------------------------------------- *)

Theorem sasl_chunks_correct r :
  r <> [] ->
  exists cs, sasl_chunks r = Ok cs /\
    chunked r cs /\
    Forall (fun c => (1 <= length (chunk_param c) <= 400)%nat) cs /\
    concat (payloads cs) = r /\
    (ends_with_plus cs <-> (length r mod 400 = 0)%nat).
Proof.
  intros Hne. destruct (sasl_chunks_spec r Hne) as [cs [H Hch]]. exists cs.
  split; [exact H|]. split; [exact Hch|]. split; [exact (chunked_sizes _ _ Hch)|].
  split; [exact (chunked_concat _ _ Hch)|]. exact (chunked_plus _ _ Hch).
Qed.

Theorem sasl_chunks_reassemble r :
  r <> [] -> ~ last_chunk_is_plus r ->
  exists cs, sasl_chunks r = Ok cs /\ reassemble [] (List.map chunk_param cs) = Some r.
Proof.
  intros Hne Hnp. destruct (sasl_chunks_spec r Hne) as [cs [H Hch]]. exists cs.
  split; [exact H|]. exact (reassemble_chunked _ _ Hch Hnp []).
Qed.

(* Non-vacuity: the hypotheses are satisfiable on both sides of each boundary, and the
   one excluded shape really is ambiguous on the wire. *)
Example chunks_examples :
  let r n := repeat 65 n in
  sasl_chunks (r 1%nat) = Ok [Payload (r 1%nat)] /\
  sasl_chunks (r 399%nat) = Ok [Payload (r 399%nat)] /\
  sasl_chunks (r 400%nat) = Ok [Payload (r 400%nat); Plus] /\
  sasl_chunks (r 401%nat) = Ok [Payload (r 400%nat); Payload (r 1%nat)] /\
  sasl_chunks (r 800%nat) = Ok [Payload (r 400%nat); Payload (r 400%nat); Plus] /\
  sasl_chunks (r 801%nat) = Ok [Payload (r 400%nat); Payload (r 400%nat); Payload (r 1%nat)] /\
  (* EXTERNAL's "+" : one line, read by the server as the empty response *)
  sasl_chunks c_plus = Ok [Payload c_plus] /\ reassemble [] [c_plus] = Some [] /\
  last_chunk_is_plus c_plus /\ last_chunk_is_plus (r 400%nat ++ c_plus) /\
  ~ last_chunk_is_plus (r 401%nat).
Proof.
  cbv zeta. repeat split; try (vm_compute; reflexivity).
  intros [_ H]. vm_compute in H. discriminate.
Qed.

(* ---- PLAIN --------------------------------------------------------------------- *)

Lemma bytes_ok_app a b : bytes_ok a -> bytes_ok b -> bytes_ok (a ++ b).
Proof. unfold bytes_ok. intros Ha Hb. apply Forall_app. split; assumption. Qed.

Lemma bytes_ok_cons0 a : bytes_ok a -> bytes_ok (0 :: a).
Proof. unfold bytes_ok. intros Ha. constructor; [lia | exact Ha]. Qed.

Theorem plain_decodes u p :
  bytes_ok u -> bytes_ok p -> base64_decode (plain_encode u p) = Some (u ++ 0 :: u ++ 0 :: p).
Proof.
  intros Hu Hp. unfold plain_encode.
  change (u ++ [0] ++ u ++ [0] ++ p) with (u ++ 0 :: u ++ 0 :: p).
  apply base64_roundtrip.
  apply bytes_ok_app; [exact Hu|]. apply bytes_ok_cons0.
  apply bytes_ok_app; [exact Hu|]. apply bytes_ok_cons0. exact Hp.
Qed.

Lemma params_is_plus_spec ps : params_is_plus ps = true <-> ps = [c_plus].
Proof.
  unfold params_is_plus. destruct ps as [|a [|b ps]]; split; intros H; try discriminate.
  - apply streqb_spec in H. subst. reflexivity.
  - injection H as ->. apply streqb_refl.
Qed.

Lemma sasl_plain_on_plus u p : sasl_plain_encode u p [c_plus] = plain_encode u p.
Proof. reflexivity. Qed.

Lemma sasl_plain_declines u p ps : ps <> [c_plus] -> sasl_plain_encode u p ps = [].
Proof.
  intros H. unfold sasl_plain_encode. destruct (params_is_plus ps) eqn:E; [|reflexivity].
  apply params_is_plus_spec in E. congruence.
Qed.

Lemma plain_encode_nonempty u p : plain_encode u p <> [].
Proof.
  unfold plain_encode. apply base64_encode_nonempty. destruct u; discriminate.
Qed.

Lemma plain_not_last_plus u p : ~ last_chunk_is_plus (plain_encode u p).
Proof.
  intros [Hm _]. unfold plain_encode in Hm. rewrite base64_encode_length in Hm. lia.
Qed.

(* injectivity: two different credentials never produce the same response *)
Theorem base64_encode_inj x y :
  bytes_ok x -> bytes_ok y -> base64_encode x = base64_encode y -> x = y.
Proof.
  intros Hx Hy H. apply base64_roundtrip in Hx. apply base64_roundtrip in Hy.
  rewrite H in Hx. congruence.
Qed.

(* end to end: the server that reassembles the AUTHENTICATE lines and base64-decodes
   them reads exactly user NUL user NUL password *)
Theorem plain_delivered u p :
  bytes_ok u -> bytes_ok p ->
  exists cs resp,
    sasl_chunks (sasl_plain_encode u p [c_plus]) = Ok cs /\
    Forall (fun c => (length (chunk_param c) <= 400)%nat) cs /\
    reassemble [] (List.map chunk_param cs) = Some resp /\
    base64_decode resp = Some (u ++ 0 :: u ++ 0 :: p).
Proof.
  intros Hu Hp. rewrite sasl_plain_on_plus.
  destruct (sasl_chunks_spec (plain_encode u p) (plain_encode_nonempty u p)) as [cs [H Hch]].
  exists cs, (plain_encode u p).
  split; [exact H|]. split.
  { eapply Forall_impl; [|exact (chunked_sizes _ _ Hch)]. cbv beta. intros c Hc. lia. }
  split; [exact (reassemble_chunked _ _ Hch (plain_not_last_plus u p) [])|].
  exact (plain_decodes u p Hu Hp).
Qed.

Example plain_example :
  plain_encode (bs "jilles") (bs "sesame") = bs "amlsbGVzAGppbGxlcwBzZXNhbWU=" /\
  sasl_plain_encode (bs "u") (bs "p") [bs "+"; bs "+"] = [] /\
  sasl_plain_encode (bs "u") (bs "p") [] = [].
Proof. vm_compute. repeat split. Qed.

(* EXTERNAL: "+" unless an identity is configured; declines anything but ["+"] *)
Lemma sasl_external_declines i ps : ps <> [c_plus] -> sasl_external_encode i ps = [].
Proof.
  intros H. unfold sasl_external_encode. destruct (params_is_plus ps) eqn:E; [|reflexivity].
  apply params_is_plus_spec in E. congruence.
Qed.
Lemma sasl_external_on_plus i :
  sasl_external_encode i [c_plus] = match i with [] => c_plus | _ => i end.
Proof. reflexivity. Qed.

Theorem plain_correct u p : bytes_ok u -> bytes_ok p ->
  sasl_plain_encode u p [c_plus] = plain_encode u p /\
  base64_decode (plain_encode u p) = Some (u ++ 0 :: u ++ 0 :: p).
Proof. intros Hu Hp. split; [exact (sasl_plain_on_plus u p) | exact (plain_decodes u p Hu Hp)]. Qed.

Theorem builtin_decline a b ps : ps <> [c_plus] ->
  sasl_plain_encode a b ps = [] /\ sasl_external_encode a ps = [].
Proof. intros H. split; [exact (sasl_plain_declines a b ps H) | exact (sasl_external_declines a ps H)]. Qed.

Lemma sasl_plain_never_empty u p : sasl_plain_encode u p [c_plus] <> [].
Proof. rewrite sasl_plain_on_plus. apply plain_encode_nonempty. Qed.
