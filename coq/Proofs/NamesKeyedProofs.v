(* C15, last clause: every name-keyed query gives the same answer for two names with the
   same RFC1459 fold. The queries are the read side of the state API (Model/StateGetters.v
   over Model/State.v) and Source.ID / Source.Equals (Model/SourceEq.v). *)
Require Import Bytes AMap SMap Names State StateGetters Event SourceEq NamesProofs OrderLemmas.

Lemma fold_eq_nil (a b : str) : to_rfc1459 a = to_rfc1459 b -> (a = [] <-> b = []).
Proof.
  intros H. assert (L : length a = length b).
  { rewrite <- (to_rfc1459_length a), <- (to_rfc1459_length b), H. reflexivity. }
  split; intros E; subst; [destruct b|destruct a]; simpl in L; congruence.
Qed.

Section Keyed.
  Variables (a b : str).
  Hypothesis Hab : to_rfc1459 a = to_rfc1459 b.

  Lemma keyed_lookup_user s : g_lookup_user s a = g_lookup_user s b.
  Proof.
    unfold g_lookup_user, lookup_user, fold. destruct (fold_eq_nil a b Hab) as [H1 H2].
    destruct a as [|x xs], b as [|y ys]; try reflexivity.
    - discriminate (H1 eq_refl).
    - discriminate (H2 eq_refl).
    - rewrite Hab. reflexivity.
  Qed.

  Lemma keyed_lookup_channel s : g_lookup_channel s a = g_lookup_channel s b.
  Proof.
    unfold g_lookup_channel, lookup_channel, fold. destruct (fold_eq_nil a b Hab) as [H1 H2].
    destruct a as [|x xs], b as [|y ys]; try reflexivity.
    - discriminate (H1 eq_refl).
    - discriminate (H2 eq_refl).
    - rewrite Hab. reflexivity.
  Qed.

  Lemma keyed_is_in_channel s : g_is_in_channel s a = g_is_in_channel s b.
  Proof. unfold g_is_in_channel, fold. rewrite Hab. reflexivity. Qed.

  Lemma keyed_user_in_channel u : g_user_in_channel u a = g_user_in_channel u b.
  Proof. unfold g_user_in_channel, user_in_channel, fold. rewrite Hab. reflexivity. Qed.

  Lemma keyed_channel_user_in c : g_channel_user_in c a = g_channel_user_in c b.
  Proof. unfold g_channel_user_in, channel_user_in, fold. rewrite Hab. reflexivity. Qed.

  Lemma keyed_perms_lookup u : g_perms_lookup u a = g_perms_lookup u b.
  Proof. unfold g_perms_lookup, fold. rewrite Hab. reflexivity. Qed.

  Lemma keyed_perms_value u : perms_lookup u a = perms_lookup u b.
  Proof. unfold perms_lookup, fold. rewrite Hab. reflexivity. Qed.

  Lemma keyed_source_id i h i' h' :
    source_id (mkWSource a i h) = source_id (mkWSource b i' h').
  Proof. unfold source_id. simpl. exact Hab. Qed.

  Lemma keyed_source_equals i h o :
    source_equals (Some (mkWSource a i h)) o = source_equals (Some (mkWSource b i h)) o.
  Proof. destruct o as [y|]; [|reflexivity]. unfold source_equals, source_id. simpl. rewrite Hab. reflexivity. Qed.
End Keyed.

Lemma keyed_all : forall a b, to_rfc1459 a = to_rfc1459 b ->
  (forall s, g_lookup_user s a = g_lookup_user s b) /\
  (forall s, g_lookup_channel s a = g_lookup_channel s b) /\
  (forall s, g_is_in_channel s a = g_is_in_channel s b) /\
  (forall u, g_user_in_channel u a = g_user_in_channel u b) /\
  (forall c, g_channel_user_in c a = g_channel_user_in c b) /\
  (forall u, g_perms_lookup u a = g_perms_lookup u b) /\
  (forall u, perms_lookup u a = perms_lookup u b).
Proof.
  intros a b H. repeat split; intros.
  - exact (keyed_lookup_user a b H s).
  - exact (keyed_lookup_channel a b H s).
  - exact (keyed_is_in_channel a b H s).
  - exact (keyed_user_in_channel a b H u).
  - exact (keyed_channel_user_in a b H c).
  - exact (keyed_perms_lookup a b H u).
  - exact (keyed_perms_value a b H u).
Qed.

Lemma keyed_source_all : forall a b, to_rfc1459 a = to_rfc1459 b ->
  (forall i h i' h', source_id (mkWSource a i h) = source_id (mkWSource b i' h')) /\
  (forall i h o, source_equals (Some (mkWSource a i h)) o = source_equals (Some (mkWSource b i h)) o).
Proof.
  intros a b H. split; intros.
  - exact (keyed_source_id a b H i h i' h').
  - exact (keyed_source_equals a b H i h o).
Qed.

(* Source.Equals is an equivalence-compatible comparison: reflexive, symmetric *)
Lemma source_equals_refl o : source_equals o o = true.
Proof. destruct o as [x|]; [|reflexivity]. unfold source_equals. rewrite !streqb_refl. reflexivity. Qed.

(* the hypotheses are satisfiable with distinct spellings *)
Example keyed_example :
  to_rfc1459 (bs "Nick[a]^") = to_rfc1459 (bs "nICK{A}~") /\ bs "Nick[a]^" <> bs "nICK{A}~".
Proof. split; [vm_compute; reflexivity|vm_compute; discriminate]. Qed.
