(* Tag maps built through the API (Tags{} followed by successful Tags.Set calls) satisfy
   everything C01_encode_parse asks of a tag map, including the 4094-byte limit. *)
From Coq Require Import Lia ZifyBool ZifyN ZifyNat.
Require Import Bytes Utf8 AMap WireOut GoUpper Tags Event Grammar CodecSpec.
Require Import OrderLemmas AMapLemmas CodecLemmas Utf8Lemmas ParseNF TagsProofs LineProofs GrammarProofs RoundTrip.

Arguments N.eqb : simpl never.
Arguments N.leb : simpl never.
Arguments N.ltb : simpl never.

Definition sum_len (l : list str) : nat := fold_right (fun p n => (length p + n)%nat) 0%nat l.

Lemma length_join_semi l : l <> [] -> length (join semi l) = (sum_len l + (length l - 1))%nat.
Proof.
  induction l as [|x l IH]; [congruence|]. intros _. destruct l as [|y r].
  - cbn. lia.
  - change (join semi (x :: y :: r)) with (x ++ semi ++ join semi (y :: r)).
    rewrite !app_length, IH by discriminate. cbn [sum_len fold_right length]. change (length semi) with 1%nat. lia.
Qed.

Lemma sum_len_insert f x l :
  sum_len (List.map f (insert_sorted x l)) = (length (f x) + sum_len (List.map f l))%nat.
Proof.
  induction l as [|y r IH]; [reflexivity|]. cbn [insert_sorted]. destruct (str_leb x y).
  - reflexivity.
  - change (sum_len (List.map f (y :: insert_sorted x r))) with (length (f y) + sum_len (List.map f (insert_sorted x r)))%nat.
    change (sum_len (List.map f (y :: r))) with (length (f y) + sum_len (List.map f r))%nat.
    rewrite IH. lia.
Qed.

Lemma sum_len_sort f l : sum_len (List.map f (sort_strs l)) = sum_len (List.map f l).
Proof.
  induction l as [|x r IH]; [reflexivity|]. unfold sort_strs in *. cbn [fold_right].
  rewrite sum_len_insert, IH. reflexivity.
Qed.

(* length of the complete tag section of a non-empty map: every piece plus one byte
   ('@' for the first, ';' for the others) *)
Lemma length_tag_section m : m <> [] ->
  length (tag_section m) = (sum_len (List.map (tag_piece m) (akeys m)) + length m)%nat.
Proof.
  intros Hne. unfold tag_section. cbn [length].
  assert (Hl : length (sort_strs (akeys m)) = length m) by (rewrite length_sort_strs; unfold akeys; apply map_length).
  rewrite length_join_semi.
  - rewrite map_length, Hl, sum_len_sort. destruct m; [congruence|]. cbn [length]. lia.
  - intros E. apply (f_equal (@length str)) in E. rewrite map_length, Hl in E. destruct m; [congruence|discriminate].
Qed.

Lemma tag_piece_other (m : tagmap) k v k2 : k2 <> k ->
  tag_piece (aset k v m) k2 = tag_piece m k2.
Proof. intros Hne. unfold tag_piece. rewrite alookup_aset_neq by congruence. reflexivity. Qed.

Lemma tag_piece_same (m : tagmap) k v :
  (length (tag_piece (aset k v m) k) <= length k + length v + 1)%nat.
Proof.
  unfold tag_piece. rewrite alookup_aset_eq. destruct v as [|c v']; rewrite app_length; cbn [length]; lia.
Qed.

Lemma sum_len_cons (f : str -> str) x l : sum_len (List.map f (x :: l)) = (length (f x) + sum_len (List.map f l))%nat.
Proof. reflexivity. Qed.

Lemma sum_aremove (f g : str -> str) k : (forall k2, k2 <> k -> f k2 = g k2) ->
  forall m : tagmap, (sum_len (List.map f (akeys (aremove k m))) + length (aremove k m)
                      <= sum_len (List.map g (akeys m)) + length m)%nat.
Proof.
  intros Hfg. induction m as [|[k' v'] m IH]; [cbn; lia|].
  cbn [aremove]. destruct (streqb k k') eqn:E.
  - change (akeys ((k', v') :: m)) with (k' :: akeys m). rewrite sum_len_cons. cbn [length]. lia.
  - apply streqb_neq in E.
    change (akeys ((k', v') :: aremove k m)) with (k' :: akeys (aremove k m)).
    change (akeys ((k', v') :: m)) with (k' :: akeys m). rewrite !sum_len_cons. cbn [length].
    rewrite (Hfg k') by congruence. lia.
Qed.

Definition bytes_len (m : tagmap) : nat := length (tagmap_bytes m).

Lemma set_fits_arith (pk s' n' s n K V MAX : nat) :
  (pk <= K + V + 1)%nat -> (s' + n' <= s + n)%nat -> (s + n + K + V + 2 <= MAX)%nat ->
  (pk + s' + S n' <= MAX)%nat.
Proof. lia. Qed.

Lemma set_fits (m : tagmap) k v :
  (length (tag_section m) <= max_tag_length \/ m = [])%nat ->
  (bytes_len m + length k + length v + 2 <= max_tag_length)%nat ->
  (length (tag_section (aset k v m)) <= max_tag_length)%nat.
Proof.
  intros Hfit Hset.
  rewrite length_tag_section by (unfold aset; discriminate).
  pose proof (tag_piece_same m k v) as Hk.
  pose proof (sum_aremove (tag_piece (aset k v m)) (tag_piece m) k
                (fun k2 Hne => tag_piece_other m k v k2 Hne) m) as Hrest.
  change (akeys (aset k v m)) with (k :: akeys (aremove k m)). rewrite sum_len_cons.
  change (length (aset k v m)) with (S (length (aremove k m))).
  eapply set_fits_arith; [exact Hk|exact Hrest|].
  destruct Hfit as [Hfit|Hfit].
  - destruct m as [|kv m'] eqn:Em.
    + unfold bytes_len, tagmap_bytes in Hset. cbn [length akeys map sum_len fold_right] in *. lia.
    + rewrite <- Em in *. assert (Hne : m <> []) by (rewrite Em; discriminate).
      unfold bytes_len in Hset. rewrite (tagmap_bytes_section m Hne Hfit) in Hset.
      rewrite (length_tag_section m Hne) in Hset. exact Hset.
  - subst m. unfold bytes_len, tagmap_bytes in Hset. cbn [length akeys map sum_len fold_right] in *. lia.
Qed.

(* maps reachable through the API *)
Inductive api_built : tagmap -> Prop :=
| built_empty : api_built []
| built_set m k v m' : api_built m -> tags_set (Some m) k v = Some (Some m') -> api_built m'.

Theorem api_built_wf : forall m, api_built m -> wf_wtags (Some m) = true.
Proof.
  intros m H.
  assert (G : forallb wf_tag_entry m = true /\ ((length (tag_section m) <= max_tag_length)%nat \/ m = [])).
  { induction H as [|m k v m' Hb [IH1 IH2] Hset]; [split; [reflexivity|right; reflexivity]|].
    split; [exact (tags_set_entries_wf _ _ _ _ IH1 Hset)|]. left.
    unfold tags_set in Hset. destruct (negb (valid_tag k)); [discriminate|].
    destruct (_ && _)%bool; [discriminate|].
    destruct (Nat.ltb max_tag_length _) eqn:EL; [discriminate|]. inversion Hset; subst m'.
    apply set_fits; [exact IH2|]. unfold bytes_len. lia. }
  destruct G as [G1 G2]. unfold wf_wtags. apply Bool.andb_true_iff. split; [exact G1|].
  destruct G2 as [G2| ->]; [|reflexivity]. destruct (Nat.leb _ _) eqn:E; [reflexivity|lia].
Qed.

Example api_built_example :
  exists m, api_built m /\ tags_get (Some m) (bs "a") = Some [59; 32; 92; 13; 10] /\ length m = 2%nat.
Proof.
  exists [(bs "+b/c", bs "x"); (bs "a", tag_escape [59; 32; 92; 13; 10])].
  split; [|split; [vm_compute; reflexivity|reflexivity]].
  apply (built_set [(bs "a", tag_escape [59; 32; 92; 13; 10])] (bs "+b/c") (bs "x")).
  - apply (built_set [] (bs "a") [59; 32; 92; 13; 10]); [apply built_empty|vm_compute; reflexivity].
  - vm_compute. reflexivity.
Qed.
