(* C03 — the command of a written line.  ParseEvent (Model/Event.v parse_event) applied
   to what Event.Bytes produced finds the cleaned, upper-cased command, provided the
   command is a single token and the sections before it keep their framing.

   parse_event_body is cut into three stages (pre_of / after_pre / tail_after_cmd) by
   definitional unfolding (body_unfold is `reflexivity`), so the proofs do not depend on
   the shape of the goal after `unfold`. *)
Require Import Bytes Utf8 AMap WireOut GoUpper Tags Event Commands SendPath WireLines
  OrderLemmas C03Utf8 C03Proofs.
From Coq Require Import Lia ZifyBool ZifyN ZifyNat.

Local Open Scope N_scope.

Lemma cleaned_clean : forall s, cleaned s = clean s.
Proof. reflexivity. Qed.

(* ---- checked slices on concatenations ------------------------------------------- *)

Lemma slice_from_app : forall (a b : str), slice_from (a ++ b) (length a) = Ok b.
Proof.
  intros a b. unfold slice_from. rewrite app_length.
  replace (Nat.leb (length a) (length a + length b)) with true
    by (symmetry; apply Nat.leb_le; lia).
  rewrite skipn_app, skipn_all, Nat.sub_diag. reflexivity.
Qed.

Lemma slice_mid : forall (a b c : str),
  slice (a ++ b ++ c) (length a) (length a + length b) = Ok b.
Proof.
  intros a b c. unfold slice.
  replace (Nat.leb (length a) (length a + length b) &&
           Nat.leb (length a + length b) (length (a ++ b ++ c)))%bool with true.
  2:{ symmetry. apply andb_true_intro. split; apply Nat.leb_le; rewrite ?app_length; lia. }
  replace (length a + length b - length a)%nat with (length b) by lia.
  rewrite skipn_app, skipn_all, Nat.sub_diag. cbn [skipn app].
  rewrite firstn_app, firstn_all, Nat.sub_diag. cbn [firstn]. rewrite app_nil_r. reflexivity.
Qed.

Lemma index_byte_app : forall c a b, ~ In c a -> index_byte c (a ++ c :: b) = Some (length a).
Proof.
  intros c. induction a as [|x a IH]; intros b H; cbn [app index_byte length].
  - rewrite N.eqb_refl. reflexivity.
  - destruct (x =? c) eqn:E.
    + exfalso. apply H. left. apply N.eqb_eq. exact E.
    + rewrite IH by (intro X; apply H; right; exact X). reflexivity.
Qed.

Lemma index_byte_none : forall c a, ~ In c a -> index_byte c a = None.
Proof.
  intros c. induction a as [|x a IH]; intros H; cbn [index_byte]; [reflexivity|].
  destruct (x =? c) eqn:E.
  - exfalso. apply H. left. apply N.eqb_eq. exact E.
  - rewrite IH by (intro X; apply H; right; exact X). reflexivity.
Qed.

Lemma trim_left_id : forall s, (forall b, In b s -> is_crlf b = false) -> trim_left_crlf s = s.
Proof.
  intros [|b r] H; [reflexivity|]. cbn [trim_left_crlf].
  rewrite (H b (or_introl eq_refl)). reflexivity.
Qed.

Lemma trim_crlf_id : forall s, ~ In 13 s -> ~ In 10 s -> trim_crlf s = s.
Proof.
  intros s H13 H10.
  assert (F : forall b, In b s -> is_crlf b = false).
  { intros b Hb. unfold is_crlf.
    destruct (b =? 13) eqn:E1; [apply N.eqb_eq in E1; subst; contradiction|].
    destruct (b =? 10) eqn:E2; [apply N.eqb_eq in E2; subst; contradiction|]. reflexivity. }
  unfold trim_crlf, rev'. rewrite <- !rev_alt. rewrite (trim_left_id s F). rewrite trim_left_id.
  - apply rev_involutive.
  - intros b Hb. apply F. apply (proj2 (in_rev s b) Hb).
Qed.

(* ---- the stages of parse_event_body ----------------------------------------------- *)

Definition tail_after_cmd (tags : wtags) (src : option wsource) (raw cmd : str) (j : nat)
  : res (option wevent) :=
  tr <- trailer_loop (S (length raw)) raw j 0 ;;
  match tr with
  | None =>
    ps <- slice_from raw j ;;
    Ok (Some (mkWEvent tags src (go_to_upper cmd) (split_params ps)))
  | Some i0 =>
    let i := (j + i0)%nat in
    mids <- (if Nat.ltb j i then
               (if Nat.eqb i 0 then Panic else
                m <- slice raw j (i - 1) ;; Ok (split_params m))
             else Ok []) ;;
    last <- slice_from raw (i + 1) ;;
    Ok (Some (mkWEvent tags src (go_to_upper cmd) (mids ++ [last])))
  end.

Definition after_pre (tags : wtags) (raw : str) (src : option wsource) (i : nat)
  : res (option wevent) :=
  rest <- slice_from raw i ;;
  match index_byte 32 rest with
  | None => Ok (Some (mkWEvent tags src (go_to_upper rest) []))
  | Some k =>
    let j := (i + k)%nat in
    cmd <- slice raw i j ;;
    tail_after_cmd tags src raw cmd (S j)
  end.

Definition pre_of (raw : str) : res (option (option wsource * nat)) :=
  match raw with
  | c :: _ =>
    if c =? 58 then
      match index_byte 32 raw with
      | Some i =>
        if Nat.ltb i 2 then Ok None
        else
          s <- slice raw 1 i ;;
          src <- wparse_source s ;;
          Ok (Some (Some src, S i))
      | None => Ok None
      end
    else Ok (Some (None, 0%nat))
  | [] => Ok (Some (None, 0%nat))
  end.

Lemma body_unfold : forall tags raw,
  parse_event_body tags raw =
  (pre <- pre_of raw ;;
   match pre with
   | None => Ok None
   | Some (src, i) => after_pre tags raw src i
   end).
Proof. reflexivity. Qed.

Ltac step H :=
  match type of H with
  | rbind ?x _ = Ok _ =>
    let v := fresh "v" in let E := fresh "E" in
    destruct x as [v|] eqn:E; cbn [rbind] in H; [|discriminate H]
  end.

Lemma tail_cmd : forall tags src raw cmd j r,
  tail_after_cmd tags src raw cmd j = Ok r ->
  exists e', r = Some e' /\ we_cmd e' = go_to_upper cmd.
Proof.
  intros tags src raw cmd j r H. unfold tail_after_cmd in H. step H.
  destruct v as [i0|].
  - cbv zeta in H. step H. step H. injection H as <-. eexists. split; reflexivity.
  - step H. injection H as <-. eexists. split; reflexivity.
Qed.

Lemma after_pre_cmd : forall tags src A c p r,
  ~ In 32 c -> (p = [] \/ exists p', p = 32 :: p') ->
  after_pre tags (A ++ c ++ p) src (length A) = Ok r ->
  exists e', r = Some e' /\ we_cmd e' = go_to_upper c.
Proof.
  intros tags src A c p r C32 Hp H. unfold after_pre in H.
  rewrite slice_from_app in H. cbn [rbind] in H. destruct Hp as [->|[p' ->]].
  - rewrite app_nil_r in H. rewrite (index_byte_none 32 c C32) in H.
    injection H as <-. eexists. split; reflexivity.
  - rewrite (index_byte_app 32 c p' C32) in H. cbv zeta in H.
    rewrite (slice_mid A c (32 :: p')) in H. cbn [rbind] in H.
    apply tail_cmd in H. exact H.
Qed.

Definition tag_sec (tb : option str) : str :=
  match tb with Some t => t ++ [32] | None => [] end.
Definition src_sec (sb : option str) : str :=
  match sb with Some s => 58 :: s ++ [32] | None => [] end.

Lemma pre_some : forall s rest v, s <> [] -> ~ In 32 s ->
  pre_of ((58 :: s) ++ 32 :: rest) = Ok v ->
  exists src, v = Some (Some src, S (S (length s))).
Proof.
  intros s rest v Sne S32 H.
  assert (IB : index_byte 32 ((58 :: s) ++ 32 :: rest) = Some (length (58 :: s))).
  { apply index_byte_app. intros [E|I]; [discriminate|exact (S32 I)]. }
  unfold pre_of in H. cbn [app] in H. change (58 =? 58) with true in H. cbv iota in H.
  change (58 :: s ++ 32 :: rest) with ((58 :: s) ++ 32 :: rest) in H. rewrite IB in H.
  cbn [length] in H.
  replace (Nat.ltb (S (length s)) 2) with false in H.
  2:{ symmetry. apply Nat.ltb_ge. destruct s; [congruence|cbn [length]; lia]. }
  step H. step H. injection H as <-. eexists. reflexivity.
Qed.

Lemma body_cmd : forall tags sb c p r,
  single_token c -> (p = [] \/ exists p', p = 32 :: p') ->
  (forall s, sb = Some s -> s <> [] /\ ~ In 32 s) ->
  parse_event_body tags (src_sec sb ++ c ++ p) = Ok r ->
  exists e', r = Some e' /\ we_cmd e' = go_to_upper c.
Proof.
  intros tags sb c p r (Cne & C32 & C64 & C58) Hp Hs H. rewrite body_unfold in H.
  destruct sb as [s|].
  - destruct (Hs s eq_refl) as [Sne S32]. cbn [src_sec] in H.
    assert (R : (58 :: s ++ [32]) ++ c ++ p = (58 :: s) ++ 32 :: (c ++ p)).
    { cbn [app]. rewrite <- app_assoc. reflexivity. }
    step H. rewrite R in E. destruct (pre_some s (c ++ p) v Sne S32 E) as [src ->].
    replace (S (S (length s))) with (length (58 :: s ++ [32])) in H
      by (cbn [length]; rewrite app_length; cbn [length]; lia).
    apply after_pre_cmd in H; assumption.
  - cbn [src_sec app] in H. destruct c as [|x c1]; [congruence|].
    assert (P : pre_of ((x :: c1) ++ p) = Ok (Some (None, 0%nat))).
    { cbn [app pre_of]. destruct (x =? 58) eqn:E; [|reflexivity].
      apply N.eqb_eq in E. subst x. exfalso. exact (C58 c1 eq_refl). }
    rewrite P in H. cbn [rbind] in H.
    change ((x :: c1) ++ p) with ([] ++ (x :: c1) ++ p) in H.
    change 0%nat with (length (@nil N)) in H.
    apply after_pre_cmd in H; assumption.
Qed.

Lemma parse_event_clean : forall s, ~ In 13 s -> ~ In 10 s -> (2 <= length s)%nat ->
  parse_event s =
  (c0 <- at_ s 0 ;;
   if c0 =? 64 then
     match index_byte 32 s with
     | Some i =>
       if Nat.ltb i 2 then Ok None
       else
         ts <- slice s 1 i ;;
         m <- parse_tags ts ;;
         rest <- slice_from s (i + 1) ;;
         parse_event_body (Some m) rest
     | None => Ok None
     end
   else parse_event_body None s).
Proof.
  intros s H13 H10 Hl. unfold parse_event. rewrite trim_crlf_id by assumption. cbv zeta.
  replace (Nat.ltb (length s) 2) with false by (symmetry; apply Nat.ltb_ge; lia).
  reflexivity.
Qed.

(* a line of the shape Event.Bytes produces *)
Theorem line_cmd : forall tb sb c p r,
  ~ In 13 (tag_sec tb ++ src_sec sb ++ c ++ p) ->
  ~ In 10 (tag_sec tb ++ src_sec sb ++ c ++ p) ->
  (2 <= length (tag_sec tb ++ src_sec sb ++ c ++ p))%nat ->
  single_token c -> (p = [] \/ exists p', p = 32 :: p') ->
  (forall t, tb = Some t -> (exists t', t = 64 :: t') /\ ~ In 32 t /\ (2 <= length t)%nat) ->
  (forall s, sb = Some s -> s <> [] /\ ~ In 32 s) ->
  parse_event (tag_sec tb ++ src_sec sb ++ c ++ p) = Ok r ->
  exists e', r = Some e' /\ we_cmd e' = go_to_upper c.
Proof.
  intros tb sb c p r H13 H10 Hlen Hc Hp Ht Hs H.
  rewrite parse_event_clean in H by assumption. clear H13 H10 Hlen.
  destruct tb as [t|].
  - destruct (Ht t eq_refl) as ([t' ->] & T32 & Tlen). cbn [tag_sec] in H.
    remember (src_sec sb ++ c ++ p) as rest0 eqn:R0.
    assert (L : ((64 :: t') ++ [32]) ++ rest0 = (64 :: t') ++ 32 :: rest0)
      by (rewrite <- app_assoc; reflexivity).
    rewrite L in H.
    assert (A0 : at_ ((64 :: t') ++ 32 :: rest0) 0 = Ok 64) by reflexivity.
    assert (IB : index_byte 32 ((64 :: t') ++ 32 :: rest0) = Some (length (64 :: t')))
      by (apply index_byte_app; exact T32).
    rewrite A0 in H. cbn [rbind] in H. change (64 =? 64) with true in H. cbv iota in H.
    rewrite IB in H.
    replace (Nat.ltb (length (64 :: t')) 2) with false in H
      by (symmetry; apply Nat.ltb_ge; exact Tlen).
    step H. step H. rewrite <- L in H.
    replace (Nat.add (length (64 :: t')) 1) with (length ((64 :: t') ++ [32])) in H
      by (rewrite app_length; reflexivity).
    rewrite slice_from_app in H. cbn [rbind] in H. subst rest0.
    apply body_cmd in H; assumption.
  - cbn [tag_sec app] in H. destruct Hc as (Cne & C32 & C64 & C58). destruct sb as [s|].
    + assert (A0 : at_ (src_sec (Some s) ++ c ++ p) 0 = Ok 58) by reflexivity.
      rewrite A0 in H. cbn [rbind] in H. change (58 =? 64) with false in H. cbv iota in H.
      apply body_cmd in H; [exact H|repeat split; assumption|assumption|assumption].
    + destruct c as [|x c1]; [congruence|].
      assert (A0 : at_ (src_sec None ++ (x :: c1) ++ p) 0 = Ok x) by reflexivity.
      rewrite A0 in H. cbn [rbind] in H. destruct (x =? 64) eqn:E.
      * apply N.eqb_eq in E. subst x. exfalso. exact (C64 c1 eq_refl).
      * apply body_cmd in H; [exact H|repeat split; assumption|assumption|assumption].
Qed.

(* ---- the sections of Event.Bytes --------------------------------------------------- *)

Lemma clean_sp : clean [32] = [32].
Proof. reflexivity. Qed.

Lemma clean_sec_l : forall a b, clean ((a ++ [32]) ++ b) = clean a ++ [32] ++ clean b.
Proof.
  intros a b. rewrite <- app_assoc. cbn [app]. rewrite clean_app_ascii by lia.
  rewrite clean_sp. reflexivity.
Qed.

Lemma clean_cons_ascii : forall c b, c < 128 -> c <> 10 -> c <> 13 -> clean (c :: b) = c :: clean b.
Proof.
  intros c b H H10 H13. unfold clean. rewrite tv_app_ascii_l by exact H.
  apply strip_cons_keep; assumption.
Qed.

Lemma params_bytes_head : forall p r, exists P', params_bytes (p :: r) = 32 :: P'.
Proof. intros p [|q r']; eexists; reflexivity. Qed.

Lemma tags_bytes_head : forall t, tags_bytes t = [] \/ exists suf, tags_bytes t = 64 :: suf.
Proof.
  intros [m|]; [|left; reflexivity]. destruct m as [|x m]; [left; reflexivity|].
  right. apply tagmap_bytes_cons.
Qed.

Theorem event_bytes_sections : forall e, exists tb sb p,
  event_bytes e = tag_sec tb ++ src_sec sb ++ clean (we_cmd e) ++ p /\
  (p = [] \/ exists p', p = 32 :: p') /\
  ((tb = None /\ tags_write (we_tags e) = []) \/
   (tb = Some (clean (tags_bytes (we_tags e))) /\ tags_write (we_tags e) <> [] /\
    exists t', clean (tags_bytes (we_tags e)) = 64 :: t')) /\
  sb = option_map (fun s => clean (source_write s)) (we_src e).
Proof.
  intros [t s c ps]. rewrite event_bytes_clean. unfold event_raw_bytes.
  cbn [we_tags we_src we_cmd we_params].
  (* params *)
  assert (HP : forall X, exists p, clean (X ++ params_bytes ps) = clean X ++ p /\
                                   (p = [] \/ exists p', p = 32 :: p')).
  { intros X. destruct ps as [|p0 r].
    - exists []. cbn [params_bytes]. rewrite !app_nil_r. split; [reflexivity|left; reflexivity].
    - destruct (params_bytes_head p0 r) as [P' EP]. rewrite EP.
      exists (32 :: clean P'). rewrite clean_app_ascii by lia. rewrite clean_sp.
      split; [reflexivity|right; eexists; reflexivity]. }
  destruct (HP c) as (p & EP & Hp).
  (* source *)
  assert (HS : clean ((match s with Some s0 => 58 :: source_write s0 ++ [32] | None => [] end)
                      ++ c ++ params_bytes ps)
               = src_sec (option_map (fun s0 => clean (source_write s0)) s) ++ clean c ++ p).
  { destruct s as [s0|]; cbn [option_map src_sec app].
    - change (58 :: (source_write s0 ++ [32]) ++ c ++ params_bytes ps)
        with (((58 :: source_write s0) ++ [32]) ++ c ++ params_bytes ps).
      rewrite clean_sec_l, EP. rewrite clean_cons_ascii by lia.
      cbn [app]. rewrite <- app_assoc. reflexivity.
    - exact EP. }
  (* tags *)
  unfold tags_write. destruct (tags_bytes_head t) as [E|[suf E]]; rewrite E.
  - exists None, (option_map (fun s0 => clean (source_write s0)) s), p.
    cbn [app tag_sec]. split; [exact HS|]. split; [exact Hp|]. split; [|reflexivity].
    left. split; reflexivity.
  - exists (Some (clean (64 :: suf))), (option_map (fun s0 => clean (source_write s0)) s), p.
    rewrite clean_sec_l, HS. cbn [tag_sec]. rewrite <- app_assoc.
    split; [reflexivity|]. split; [exact Hp|]. split; [|reflexivity].
    right. split; [reflexivity|]. split; [discriminate|].
    exists (clean suf). apply clean_cons_ascii; lia.
Qed.

(* ---- the command of the written line ------------------------------------------------ *)

Theorem command_of_bytes : forall e,
  single_token (cleaned (we_cmd e)) ->
  tags_section_ok (we_tags e) -> source_section_ok (we_src e) ->
  (2 <= length (event_bytes e))%nat ->
  forall r, parse_event (event_bytes e) = Ok r ->
  exists e', r = Some e' /\ we_cmd e' = go_to_upper (cleaned (we_cmd e)).
Proof.
  intros e Hc Ht Hs Hlen r H.
  destruct (event_bytes_no_crlf e) as (H13 & H10 & _).
  destruct (event_bytes_sections e) as (tb & sb & p & E & Hp & Htb & Hsb).
  rewrite E in *. rewrite cleaned_clean in *.
  apply (line_cmd tb sb (clean (we_cmd e)) p r); try assumption.
  - intros t0 Et. destruct Htb as [[-> _]|(-> & Hne & t' & E64)]; [discriminate|].
    injection Et as <-. destruct Ht as [Ht|[T32 Tl]]; [contradiction|].
    rewrite cleaned_clean in *. split; [exists t'; exact E64|split; assumption].
  - intros s0 Es. subst sb. destruct (we_src e) as [src|]; [|discriminate].
    cbn [option_map] in Es. injection Es as <-. cbn [source_section_ok] in Hs.
    rewrite cleaned_clean in Hs. exact Hs.
Qed.
