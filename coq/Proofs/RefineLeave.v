(* C04 simulation: PART, KICK (we leave: the channel goes; somebody else leaves: one
   membership goes) and QUIT (a user leaves every channel). *)
Require Import Bytes AMap SMap Names State StateGetters NetRef.
Require Import OrderLemmas AMapLemmas SMapLemmas NamesProofs StateInv NetRefLemmas StateRefine RefineSimple RefineJoin.
From Coq Require Import Lia ZifyBool ZifyN ZifyNat.

Lemma mem_str_remove_first n x l : NoDup l -> mem_str n (remove_first x l) = mem_str n l && negb (streqb n x).
Proof.
  intros Hnd. destruct (mem_str n (remove_first x l)) eqn:E.
  - apply mem_str_in in E. apply remove_first_in in E; [|exact Hnd]. destruct E as [E1 E2].
    apply mem_str_in in E1. apply streqb_neq in E2. rewrite E1, E2. reflexivity.
  - apply mem_str_false in E. destruct (mem_str n l) eqn:E1; [|reflexivity]. destruct (streqb n x) eqn:E2; [reflexivity|].
    exfalso. apply E. apply remove_first_in; [exact Hnd|]. apply mem_str_in in E1. apply streqb_neq in E2. tauto.
Qed.

Lemma abs_user_delete_channel u k : abs_user (user_delete_channel u k) = abs_user u.
Proof. reflexivity. Qed.

Section Leave.
Variable cfg : config.
Variables (s : state) (r : ref).
Hypothesis (I : Inv s) (F : Fresh s) (S : Sim s r) (W : RWf r).

(* ---- we leave: delete_channel ---- *)

Lemma delete_channel_sim chan : exists s', delete_channel s chan = Ok s' /\ Fresh s' /\
  (Inv s' -> Sim s' (ref_gc (r_set_chans r (sm_del (key chan) (r_chans r))))).
Proof.
  unfold delete_channel. set (k := fold chan). change (key chan) with k.
  pose proof (sim_chans _ _ S k) as HSk. unfold opt_rel in HSk.
  destruct (alookup k (st_channels s)) as [c|] eqn:Ec.
  2:{ exists s. split; [reflexivity|]. split; [exact F|]. intros I'.
      destruct (alookup k (r_chans r)) as [rc|] eqn:Er; [contradiction|].
      apply sim_gc; try apply S; try assumption.
      - apply rwf_set_chans; [apply ksorted_sm_del, (wf_chans _ W)| |exact W].
        intros k0 c0. rewrite alookup_sm_del by apply (wf_chans _ W). destruct (streqb k0 k); [discriminate|apply (wf_cwf _ W)].
      - intros k0. rproj. rewrite alookup_sm_del by apply (wf_chans _ W). destruct (streqb k0 k) eqn:E; [|apply S].
        apply streqb_eq in E. subst k0. rewrite Ec. exact Logic.I.
      - intros k0 u Hu. rproj. rewrite (sim_users _ _ S), Hu. reflexivity. }
  destruct (dcu_spec k (c_users c) (st_users s)) as (users' & Hrun & Hspec).
  { apply ssorted_nodup, (inv_cl I _ _ Ec). }
  { intros n Hn. destruct (inv_cu I _ _ _ Ec Hn) as (u & Hu & _). congruence. }
  rewrite Hrun. simpl. eexists; split; [reflexivity|]. split.
  - intros k0 c0. unfold chan_modes, user_prefixes. sproj. rewrite alookup_aremove. destruct (streqb k0 k); [discriminate|apply F].
  - intros I'.
    assert (UB : forall n u', alookup n users' = Some u' -> exists u, alookup n (st_users s) = Some u /\ abs_user u' = abs_user u /\
               forall k', k' <> k -> alookup k' (u_perms u') = alookup k' (u_perms u)).
    { intros n u' H. rewrite Hspec in H. destruct (mem_str n (c_users c)); [|exists u'; repeat split; auto].
      destruct (alookup n (st_users s)) as [u|]; [|discriminate]. exists u. split; [reflexivity|].
      unfold drop_chan in H. destruct (u_chans (user_delete_channel u k)); [discriminate|]. injection H as <-.
      split; [reflexivity|]. intros k' Hk'. unfold user_delete_channel. cbn [u_perms u_set_perms u_set_chans]. rewrite alookup_aremove. unfold k. rewrite fold_idem. fold k.
      apply streqb_neq in Hk'. rewrite Hk'. reflexivity. }
    apply sim_gc; try apply S; try assumption.
    + apply rwf_set_chans; [apply ksorted_sm_del, (wf_chans _ W)| |exact W].
      intros k0 c0. rewrite alookup_sm_del by apply (wf_chans _ W). destruct (streqb k0 k); [discriminate|apply (wf_cwf _ W)].
    + intros k0. rproj. rewrite alookup_aremove, alookup_sm_del by apply (wf_chans _ W).
      destruct (streqb k0 k) eqn:E; [exact Logic.I|]. apply streqb_neq in E.
      pose proof (sim_chans _ _ S k0) as H. unfold opt_rel in *.
      destruct (alookup k0 (st_channels s)) as [c0|] eqn:Ec0; destruct (alookup k0 (r_chans r)) as [rc0|]; try contradiction; [|exact Logic.I].
      destruct H as [A B C D]. constructor; try assumption. intros n. rewrite D.
      destruct (mem_str n (c_users c0)) eqn:Em; [|reflexivity]. f_equal.
      (* the user is still there (Inv s') and has the same privileges in k0 *)
      assert (Hc0' : alookup k0 (st_channels (set_channels (set_users s users') (aremove k (st_channels s)))) = Some c0).
      { sproj. rewrite alookup_aremove. apply streqb_neq in E. rewrite E. exact Ec0. }
      apply mem_str_in in Em. destruct (inv_cu I' _ _ _ Hc0' Em) as (u' & Hu' & _). sproj.
      destruct (UB _ _ Hu') as (u & Hu & _ & Hp). unfold abs_perm. sproj. rewrite Hu', Hu, (Hp k0 E). reflexivity.
    + intros n u' Hu'. sproj. destruct (UB _ _ Hu') as (u & Hu & Ha & _). rewrite (sim_users _ _ S), Hu, Ha. reflexivity.
Qed.

(* ---- somebody else leaves one channel: delete_user chan nick ---- *)

Lemma delete_user_one_sim chan nk : chan <> [] ->
  member_of r chan nk = true ->
  exists s', delete_user s chan nk = Ok s' /\ Fresh s' /\
  (Inv s' -> Sim s' (ref_gc (upd_chan r chan (drop_member (key nk))))).
Proof.
  intros Hne Hmem. destruct chan as [|b0 r0]; [congruence|]. clear Hne. set (chan := b0 :: r0) in *.
  unfold delete_user, lookup_user, lookup_channel. set (kn := fold nk). set (kc := fold chan).
  change (key nk) with kn. unfold member_of in Hmem. change (key chan) with kc in Hmem. change (key nk) with kn in Hmem.
  pose proof (sim_chans _ _ S kc) as HSc. unfold opt_rel in HSc.
  destruct (alookup kc (r_chans r)) as [rc|] eqn:Er; [|discriminate].
  destruct (alookup kc (st_channels s)) as [c|] eqn:Ec; [|contradiction].
  assert (Hin : In kn (c_users c)).
  { apply mem_str_in. pose proof (sc_members _ _ _ _ HSc kn) as H. destruct (mem_str kn (c_users c)); [reflexivity|]. rewrite H in Hmem. discriminate. }
  destruct (inv_cu I _ _ _ Ec Hin) as (u & Eu & Hkc). rewrite Eu.
  change (match chan with [] => _ | _ :: _ => ?X end) with X. cbv beta.
  set (u' := user_delete_channel u chan). set (c' := channel_delete_user c nk).
  set (s1 := set_channels s (aset kc c' (st_channels s))).
  set (sF := match u_chans u' with [] => set_users s1 (aremove kn (st_users s1)) | _ :: _ => set_users s1 (aset kn u' (st_users s1)) end).
  exists sF. split; [reflexivity|].
  assert (LC : forall k, alookup k (st_channels sF) = if streqb k kc then Some c' else alookup k (st_channels s)).
  { intros k. unfold sF. destruct (u_chans u'); sproj; apply alookup_aset. }
  assert (LU : forall k, alookup k (st_users sF) = if streqb k kn then (match u_chans u' with [] => None | _ => Some u' end) else alookup k (st_users s)).
  { intros k. unfold sF. destruct (u_chans u'); sproj; [apply alookup_aremove|apply alookup_aset]. }
  assert (FX : st_opts sF = st_opts s /\ st_nick sF = st_nick s /\ st_ident sF = st_ident s /\ st_host sF = st_host s /\ st_motd sF = st_motd s)
    by (unfold sF; destruct (u_chans u'); repeat split).
  destruct FX as (O & N & Id & Ho & M).
  split.
  - intros k c0. rewrite LC. unfold chan_modes, user_prefixes. rewrite O. destruct (streqb k kc); [|apply F].
    intros H; injection H as <-. apply (F _ _ Ec).
  - intros I'.
    assert (NDc : NoDup (c_users c)) by apply ssorted_nodup, (inv_cl I _ _ Ec).
    assert (PERM : forall k n, (k = kc /\ n = kn -> False) -> alookup n (st_users sF) <> None -> abs_perm sF k n = abs_perm s k n).
    { intros k n Hkn Hex. unfold abs_perm. rewrite LU in *. destruct (streqb n kn) eqn:En; [|reflexivity].
      apply streqb_eq in En. subst n. rewrite Eu. destruct (u_chans u'); [congruence|].
      unfold u', user_delete_channel. cbn [u_perms u_set_perms u_set_chans]. rewrite alookup_aremove. fold kc. destruct (streqb k kc) eqn:Ek; [|reflexivity].
      apply streqb_eq in Ek. exfalso. apply Hkn. split; [exact Ek|reflexivity]. }
    apply sim_gc; try assumption.
    + apply rwf_upd_chan; [|exact W]. intros c0 H0. apply cwf_set_members; [exact H0|]. apply ksorted_sm_del, H0.
    + rproj. rewrite N. apply S.
    + rproj. rewrite Id. apply S.
    + rproj. rewrite Ho. apply S.
    + rproj. rewrite M. apply S.
    + intros k. rproj. rewrite LC, alookup_sm_adjust. change (key chan) with kc.
      destruct (streqb k kc) eqn:Ek.
      * apply streqb_eq in Ek. subst k. rewrite Er. simpl. destruct HSc as [A B C D]. constructor; simpl; try assumption.
        intros n. rewrite alookup_sm_del by apply (wf_members _ W _ _ Er). unfold c'. simpl c_users. fold kn.
        rewrite mem_str_remove_first by exact NDc. destruct (streqb n kn) eqn:En; [rewrite andb_false_r; reflexivity|].
        rewrite andb_true_r, D. destruct (mem_str n (c_users c)) eqn:Em; [|reflexivity]. f_equal. symmetry. apply PERM.
        -- intros [_ Hn]. subst n. rewrite streqb_refl in En. discriminate.
        -- rewrite LU, En. apply mem_str_in in Em. destruct (inv_cu I _ _ _ Ec Em) as (u0 & Hu0 & _). congruence.
      * pose proof (sim_chans _ _ S k) as H. unfold opt_rel in *.
        destruct (alookup k (st_channels s)) as [c0|] eqn:Ec0; destruct (alookup k (r_chans r)) as [rc0|]; try contradiction; [|exact Logic.I].
        destruct H as [A B C D]. constructor; try assumption. intros n. rewrite D.
        destruct (mem_str n (c_users c0)) eqn:Em; [|reflexivity]. f_equal. symmetry. apply PERM.
        -- intros [Hk _]. subst k. rewrite streqb_refl in Ek. discriminate.
        -- assert (Hc0' : alookup k (st_channels sF) = Some c0) by (rewrite LC, Ek; exact Ec0).
           apply mem_str_in in Em. destruct (inv_cu I' _ _ _ Hc0' Em) as (u0 & Hu0 & _). congruence.
    + intros k u0. rproj. rewrite LU. destruct (streqb k kn) eqn:Ek.
      * apply streqb_eq in Ek. subst k. destruct (u_chans u'); [discriminate|]. intros H; injection H as <-.
        rewrite (sim_users _ _ S), Eu. reflexivity.
      * intros H. rewrite (sim_users _ _ S), H. reflexivity.
    + intros k. rproj. rewrite O. apply S.
Qed.

(* ---- a user leaves every channel: delete_user "" nick ---- *)

Lemma delete_user_all_sim nk : exists s', delete_user s [] nk = Ok s' /\ Fresh s' /\
  (Inv s' -> Sim s' (ref_gc (ref_quit r nk))).
Proof.
  unfold delete_user, lookup_user. set (kn := fold nk).
  assert (Wq : RWf (ref_quit r nk)).
  { unfold ref_quit. apply (rwf_map_chans _ (drop_member (key nk))); [|exact W]. intros c Hc. apply cwf_set_members; [exact Hc|]. apply ksorted_sm_del, Hc. }
  assert (QC : forall k, alookup k (r_chans (ref_quit r nk)) = option_map (drop_member kn) (alookup k (r_chans r))).
  { intros k. unfold ref_quit. rproj. rewrite alookup_sm_map. reflexivity. }
  destruct (alookup kn (st_users s)) as [u|] eqn:Eu.
  2:{ exists s. split; [reflexivity|]. split; [exact F|]. intros I'. apply sim_gc; try apply S; try assumption.
      - intros k. rewrite QC. pose proof (sim_chans _ _ S k) as H. unfold opt_rel in *.
        destruct (alookup k (st_channels s)) as [c|] eqn:Ec; destruct (alookup k (r_chans r)) as [rc|] eqn:Er; try contradiction; [|exact Logic.I].
        simpl. destruct H as [A B C D]. constructor; simpl; try assumption. intros n.
        rewrite alookup_sm_del by apply (wf_members _ W _ _ Er). destruct (streqb n kn) eqn:En; [|apply D].
        apply streqb_eq in En. subst n. destruct (mem_str kn (c_users c)) eqn:Em; [|reflexivity].
        apply mem_str_in in Em. destruct (inv_cu I _ _ _ Ec Em) as (u & Hu & _). congruence.
      - intros k u Hu. unfold ref_quit. rproj. rewrite (sim_users _ _ S), Hu. reflexivity. }
  destruct (due_spec nk (u_chans u) (st_channels s)) as (chans' & Hrun & Hspec).
  { apply ssorted_nodup, (inv_ul I _ _ Eu). }
  { intros cn Hcn. destruct (inv_uc I _ _ _ Eu Hcn) as (c & Hc & _). congruence. }
  rewrite Hrun. simpl. eexists; split; [reflexivity|].
  assert (LC : forall k, match alookup k (st_channels s), alookup k chans' with
                         | Some c, Some c' => c_name c' = c_name c /\ c_topic c' = c_topic c /\ c_modes c' = c_modes c /\
                                              c_users c' = remove_first kn (c_users c)
                         | None, None => True | _, _ => False end).
  { intros k. rewrite Hspec. destruct (alookup k (st_channels s)) as [c|] eqn:Ec; destruct (mem_str k (u_chans u)) eqn:Em; cbn [option_map]; try exact Logic.I.
    - repeat split; reflexivity.
    - repeat split; try reflexivity. symmetry. apply remove_first_notin. intros Hin.
      destruct (inv_cu I _ _ _ Ec Hin) as (u0 & Hu0 & Hk). rewrite Eu in Hu0. injection Hu0 as <-.
      apply mem_str_false in Em. contradiction. }
  split.
  - intros k c'. unfold chan_modes, user_prefixes. sproj. specialize (LC k). intros Hc'. rewrite Hc' in LC.
    destruct (alookup k (st_channels s)) as [c|] eqn:Ec; [|contradiction]. destruct LC as (_ & _ & Hm & _). rewrite Hm. apply (F _ _ Ec).
  - intros I'. apply sim_gc; try apply S; try assumption.
    + intros k. rewrite QC. sproj. specialize (LC k). pose proof (sim_chans _ _ S k) as H. unfold opt_rel in *.
      destruct (alookup k (st_channels s)) as [c|] eqn:Ec; destruct (alookup k chans') as [c'|] eqn:Ec'; try contradiction;
        destruct (alookup k (r_chans r)) as [rc|] eqn:Er; try contradiction; [|exact Logic.I].
      simpl. destruct LC as (L1 & L2 & L3 & L4). destruct H as [A B C D]. constructor; simpl.
      * rewrite L1. exact A.
      * rewrite L2. exact B.
      * unfold amodes. rewrite L3. exact C.
      * intros n. rewrite alookup_sm_del by apply (wf_members _ W _ _ Er). rewrite L4.
        rewrite mem_str_remove_first by apply ssorted_nodup, (inv_cl I _ _ Ec).
        destruct (streqb n kn) eqn:En; [rewrite andb_false_r; reflexivity|]. rewrite andb_true_r, D.
        destruct (mem_str n (c_users c)); [|reflexivity]. f_equal. unfold abs_perm. sproj. rewrite alookup_aremove, En. reflexivity.
    + intros k u0. sproj. rewrite alookup_aremove. destruct (streqb k kn); [discriminate|]. intros H.
      unfold ref_quit. rproj. rewrite (sim_users _ _ S), H. reflexivity.
Qed.

End Leave.

Section LeaveCmds.
Variable cfg : config.
Variables (s : state) (r : ref) (e : event).
Hypothesis (I : Inv s) (F : Fresh s) (S : Sim s r) (W : RWf r).

Lemma get_id_me : is_nil (r_me r) = false -> get_id cfg s = fold (r_me r).
Proof. intros H. unfold get_id, get_nick. rewrite <- (sim_me _ _ S). destruct (r_me r); [discriminate|reflexivity]. Qed.

Lemma leave_step chan nick nk (o : list out) : fold nk = fold nick -> chan <> [] -> is_nil (r_me r) = false ->
  member_of r chan nick = true ->
  exists s', (s'' <- (if streqb (fold nick) (get_id cfg s) then delete_channel s chan else delete_user s chan nk) ;; Ok (s'', o)) = Ok (s', o) /\
  Fresh s' /\ (Inv s' -> Sim s' (ref_gc (ref_leave r chan nick))).
Proof.
  intros Hnk Hne Hme Hmem. rewrite (get_id_me Hme). unfold ref_leave, is_me. change (key nick) with (fold nick). change (key (r_me r)) with (fold (r_me r)).
  destruct (streqb (fold nick) (fold (r_me r))).
  - destruct (delete_channel_sim s r I F S W chan) as (s' & H1 & H2 & H3). exists s'. rewrite H1. simpl. split; [reflexivity|]. split; [exact H2|exact H3].
  - assert (Hmem' : member_of r chan nk = true) by (unfold member_of in *; change (key nk) with (fold nk); rewrite Hnk; exact Hmem).
    destruct (delete_user_one_sim s r I F S W chan nk Hne Hmem') as (s' & H1 & H2 & H3). exists s'. rewrite H1. simpl.
    split; [reflexivity|]. split; [exact H2|]. change (key nk) with (fold nk) in H3. rewrite Hnk in H3. exact H3.
Qed.

Lemma step_PART : e_cmd e = c_PART -> cmd_ok r e = true -> step_ok cfg s r e.
Proof.
  intros Hc Hok.
  assert (Hh : handle_cmd cfg s e = (s' <- handle_part cfg s e ;; Ok (s', []))) by (unfold handle_cmd, cmd_is; rewrite Hc; reduce_cmd c_PART; reflexivity).
  assert (Hr : ref_cmd r e = match e_src e, e_params e with Some src, chan :: _ => ref_leave r chan (s_name src) | _, _ => r end)
    by (unfold ref_cmd, cmdb; rewrite Hc; reduce_cmd c_PART; reflexivity).
  unfold cmd_ok, cmdb in Hok. rewrite Hc in Hok. reduce_cmd_in c_PART Hok.
  apply andb_prop in Hok. destruct Hok as [Hme Hok]. apply negb_true_iff in Hme.
  unfold handle_part in Hh.
  destruct (e_src e) as [src|]; [|discriminate]. destruct (e_params e) as [|chan rest]; [discriminate|].
  apply andb_prop in Hok. destruct Hok as [Hne Hmem]. destruct chan as [|b0 r0]; [discriminate|].
  destruct (leave_step (b0 :: r0) (s_name src) (fold (s_name src)) [] (fold_idem _) ltac:(discriminate) Hme Hmem) as (s' & H1 & H2 & H3).
  exists s', []. rewrite Hh, Hr. split; [exact H1|]. split; [exact H2|exact H3].
Qed.

Lemma step_KICK : e_cmd e = c_KICK -> cmd_ok r e = true -> step_ok cfg s r e.
Proof.
  intros Hc Hok.
  assert (Hh : handle_cmd cfg s e = (s' <- handle_kick cfg s e ;; Ok (s', []))) by (unfold handle_cmd, cmd_is; rewrite Hc; reduce_cmd c_KICK; reflexivity).
  assert (Hr : ref_cmd r e = match e_params e with chan :: nick :: _ => ref_leave r chan nick | _ => r end)
    by (unfold ref_cmd, cmdb; rewrite Hc; reduce_cmd c_KICK; reflexivity).
  unfold cmd_ok, cmdb in Hok. rewrite Hc in Hok. reduce_cmd_in c_KICK Hok.
  apply andb_prop in Hok. destruct Hok as [Hme Hok]. apply negb_true_iff in Hme.
  unfold handle_kick in Hh.
  destruct (e_params e) as [|chan [|nick rest]]; try discriminate.
  apply andb_prop in Hok. destruct Hok as [Hne Hmem]. destruct chan as [|b0 r0]; [discriminate|].
  destruct (leave_step (b0 :: r0) nick nick [] eq_refl ltac:(discriminate) Hme Hmem) as (s' & H1 & H2 & H3).
  exists s', []. rewrite Hh, Hr. split; [exact H1|]. split; [exact H2|exact H3].
Qed.

Lemma step_QUIT : e_cmd e = c_QUIT -> cmd_ok r e = true -> step_ok cfg s r e.
Proof.
  intros Hc Hok.
  assert (Hh : handle_cmd cfg s e = (s' <- handle_quit cfg s e ;; Ok (s', []))) by (unfold handle_cmd, cmd_is; rewrite Hc; reduce_cmd c_QUIT; reflexivity).
  assert (Hr : ref_cmd r e = match e_src e with Some src => ref_quit r (s_name src) | None => r end)
    by (unfold ref_cmd, cmdb; rewrite Hc; reduce_cmd c_QUIT; reflexivity).
  unfold cmd_ok, cmdb in Hok. rewrite Hc in Hok. reduce_cmd_in c_QUIT Hok.
  apply andb_prop in Hok. destruct Hok as [Hme Hok]. apply negb_true_iff in Hme.
  unfold handle_quit in Hh. destruct (e_src e) as [src|]; [|discriminate].
  apply negb_true_iff in Hok. unfold is_me in Hok. rewrite (get_id_me Hme) in Hh.
  change (key (s_name src)) with (fold (s_name src)) in Hok. change (key (r_me r)) with (fold (r_me r)) in Hok. rewrite Hok in Hh.
  destruct (delete_user_all_sim s r I F S W (fold (s_name src))) as (s' & H1 & H2 & H3).
  exists s', []. rewrite Hh, Hr, H1. split; [reflexivity|]. split; [exact H2|].
  unfold ref_quit in *. change (key (fold (s_name src))) with (fold (fold (s_name src))) in H3. rewrite fold_idem in H3. exact H3.
Qed.

End LeaveCmds.
