(* C04: the literal reading `told_step` (every message records again what it repeats about
   a known user) and the reading `ref_step` the simulation is proven for agree on every
   message a correct server may send. *)
Require Import Bytes AMap SMap Names State StateGetters NetRef.
Require Import OrderLemmas AMapLemmas SMapLemmas NamesProofs StateInv NetRefLemmas StateRefine RefineJoin.
From Coq Require Import Lia.

Lemma sm_adjust_id {V} k (f : V -> V) m : (forall v, alookup k m = Some v -> f v = v) -> sm_adjust k f m = m.
Proof.
  induction m as [|[k' v'] m IH]; simpl; intros H; [reflexivity|].
  destruct (streqb k k') eqn:E.
  - rewrite H; reflexivity.
  - rewrite IH; [reflexivity|exact H].
Qed.

Lemma upd_user_id r n f : (forall u, alookup (key n) (r_users r) = Some u -> f u = u) -> upd_user r n f = r.
Proof. intros H. unfold upd_user. rewrite sm_adjust_id by exact H. destruct r; reflexivity. Qed.

Lemma set_ident_host_id u i h : ru_ident u = i -> ru_host u = h -> ru_set_ident_host u i h = u.
Proof. intros <- <-. destruct u; reflexivity. Qed.

Lemma ensure_user_lookup r src : RWf r ->
  alookup (key (s_name src)) (r_users (ensure_user r src)) =
  Some match alookup (key (s_name src)) (r_users r) with
       | Some u => u
       | None => mkRUser (s_name src) (s_ident src) (s_host src) [] [] []
       end.
Proof.
  intros W. unfold ensure_user. destruct (alookup (key (s_name src)) (r_users r)) as [u|] eqn:E; [exact E|].
  cbn [r_users r_set_users]. rewrite alookup_sm_set by apply (wf_users _ W). rewrite streqb_refl. reflexivity.
Qed.

Lemma told_names_entry_eq chan r en : RWf r -> ok_entry r en = true -> told_names_entry chan r en = ref_names_entry chan r en.
Proof.
  intros W Hok. unfold told_names_entry, ok_entry in *. destruct (span_syms en) as [syms body] eqn:Esp. cbn [snd].
  destruct (memb 33 body) eqn:E33; [|reflexivity].
  destruct body as [|b0 body]; [discriminate|]. set (bd := b0 :: body) in *.
  apply andb_prop in Hok. destruct Hok as [_ Hcons].
  unfold tell_identity. apply upd_user_id. intros u Hu. unfold ref_names_entry in Hu. rewrite Esp in Hu. fold bd in Hu.
  change (match bd with [] => r | _ :: _ => upd_chan (ensure_user r (entry_source bd)) chan (fun c => rc_set_members c (sm_set (key (s_name (entry_source bd))) (perms_of_syms syms) (rc_members c))) end)
    with (upd_chan (ensure_user r (entry_source bd)) chan (fun c => rc_set_members c (sm_set (key (s_name (entry_source bd))) (perms_of_syms syms) (rc_members c)))) in Hu.
  cbn [upd_chan r_users r_set_chans] in Hu. rewrite (ensure_user_lookup r _ W) in Hu. injection Hu as <-.
  unfold consistent_user in Hcons. destruct (alookup (key (s_name (entry_source bd))) (r_users r)) as [u0|]; [|reflexivity].
  apply andb_prop in Hcons. destruct Hcons as [H1 H2]. apply set_ident_host_id; apply streqb_eq; assumption.
Qed.

Lemma told_names_fold_eq chan : forall l r, RWf r -> ok_entries r chan l = true ->
  fold_left (told_names_entry chan) l r = fold_left (ref_names_entry chan) l r.
Proof.
  induction l as [|en l IH]; intros r W Hok; simpl; [reflexivity|]. simpl in Hok. apply andb_prop in Hok. destruct Hok as [H1 H2].
  rewrite (told_names_entry_eq chan r en W H1). apply IH; [apply rwf_names_entry, W|exact H2].
Qed.

Lemma told_cmd_eq r e : RWf r -> cmd_ok r e = true -> told_cmd r e = ref_cmd r e.
Proof.
  intros W Hok. unfold told_cmd.
  destruct (cmdb e c_353) eqn:EN; [|reflexivity]. unfold cmdb in EN. apply streqb_eq in EN.
  assert (Hr : ref_cmd r e = match e_params e with _ :: _ :: chan :: _ => ref_names r chan (last_of e) | _ => r end)
    by (unfold ref_cmd, cmdb; rewrite EN; reduce_cmd c_353; reflexivity).
  rewrite Hr. unfold cmd_ok, cmdb in Hok. rewrite EN in Hok. reduce_cmd_in c_353 Hok.
  apply andb_prop in Hok. destruct Hok as [_ Hok].
  destruct (e_params e) as [|p0 [|p1 [|chan [|names [|p4 l]]]]] eqn:Ep; try discriminate.
  apply andb_prop in Hok. destruct Hok as [Htr Hen]. unfold told_names, ref_names, last_of. rewrite Ep, Htr. simpl last.
  apply told_names_fold_eq; assumption.
Qed.

Lemma told_apply_eq r e : RWf r -> conformant r e = true -> told_apply r e = ref_apply r e.
Proof. intros W Hc. unfold told_apply, ref_apply. apply told_cmd_eq; [apply rwf_tag, W|exact Hc]. Qed.

Lemma told_step_eq r e : RWf r -> conformant r e = true -> told_step r e = ref_step r e.
Proof. intros W Hc. unfold told_step, ref_step. rewrite told_apply_eq by assumption. reflexivity. Qed.

Lemma told_fold_eq : forall h r, RWf r -> conformant_from r h = true -> fold_left told_step h r = fold_left ref_step h r.
Proof.
  induction h as [|e h IH]; intros r W Hc; simpl; [reflexivity|]. simpl in Hc. apply andb_prop in Hc. destruct Hc as [H1 H2].
  rewrite (told_step_eq r e W H1). apply IH; [apply rwf_step, W|exact H2].
Qed.

Lemma told_run_eq h : conformant_history h = true -> told_run h = ref_run h.
Proof. intros Hc. apply told_fold_eq; [apply rwf_init|exact Hc]. Qed.
