(* C07 — the transitions of Model/Lifecycle.v as an inductive relation (one constructor
   per transition, guards as hypotheses), shown to cover `step`; executions from `init`
   with their trace of non-Tau labels. *)
Require Import Bytes Lifecycle.
From Coq Require Import List Bool Arith Lia.
Import ListNotations.

Definition spent (n : nat) (s : state) : state := set_budget (budget s - n) s.

Inductive tstep (s : state) : label -> state -> Prop :=
(* internalConnect *)
| t_start regs ping : cpc s = CStart regs ping -> tstep s Tau (fresh_conn regs ping s)
| t_reg o regs : cpc s = CReg (o :: regs) -> tstep s Tau (set_cpc (CReg regs) (set_tx (enq (tx s) o) s))
| t_init : cpc s = CReg [] -> tstep s LInit (set_cpc CWait s)
| t_wait : cpc s = CWait -> loops_done s = true ->
    tstep s Tau (set_cancelled true (set_cpc (if err_is_nil (gerr s) then CClosedEv else CTeardown) s))
| t_closedev : cpc s = CClosedEv -> tstep s LClosed (set_cpc CTeardown s)
| t_teardown : cpc s = CTeardown ->
    tstep s Tau (set_cpc CDiscEv (set_sock_closed true (set_connected false (set_cancelled true s))))
| t_discev : cpc s = CDiscEv -> tstep s LDisc (set_cpc CClear s)
| t_clear : cpc s = CClear -> tstep s Tau (set_cpc (CRet (gerr s)) (set_conn_set false s))
| t_ret r : cpc s = CRet r -> tstep s (LReturn r) (set_cpc CIdle s)
(* execLoop *)
| t_x_deq e r : xpc s = XSel -> rx s = e :: r -> tstep s Tau (set_xpc (XRun e false) (set_rx r s))
| t_x_cancel : xpc s = XSel -> cancelled s = true -> tstep s Tau (set_xpc XDrain s)
| t_x_deliver e d : xpc s = XRun e d ->
    tstep s (LDeliver e) (set_tracked (tracked s ++ [e]) (set_xpc (XRan e d) s))
| t_x_end_drain e : xpc s = XRan e true -> tstep s Tau (set_xpc XDrain s)
| t_x_end_error t : xpc s = XRan (EvError t) false -> tstep s Tau (group_err (EErrEvent t) (set_xpc XDone s))
| t_x_end_msg m : xpc s = XRan (EvMsg m) false -> tstep s Tau (set_xpc XSel s)
| t_x_drain_deq e r : xpc s = XDrain -> rx s = e :: r -> tstep s Tau (set_xpc (XRun e true) (set_rx r s))
| t_x_drain_done : xpc s = XDrain -> rx s = [] -> tstep s Tau (set_xpc XDone s)
(* readLoop *)
| t_r_top : rpc s = RTop -> tstep s Tau (set_rpc (if cancelled s then RDone else RDec) s)
| t_r_cancel : rpc s = RDec -> cancelled s = true -> tstep s Tau (set_linger true (set_rpc RDone s))
| t_r_line e r : rpc s = RDec -> inbuf s = LnEv e :: r -> tstep s Tau (set_rpc (RRecv e) (set_inbuf r s))
| t_r_bad x r : rpc s = RDec -> inbuf s = LnBad x :: r ->
    tstep s Tau (group_err EParse (set_rpc RDone (set_inbuf r s)))
| t_r_eof : rpc s = RDec -> inbuf s = [] -> peer_closed s || sock_closed s = true ->
    tstep s Tau (group_err EIO (set_rpc RDone s))
| t_r_enq e : rpc s = RRecv e -> length (rx s) < cap -> tstep s (LEnq e) (set_rpc RTop (set_rx (rx s ++ [e]) s))
| t_r_drop e : rpc s = RRecv e -> cap <= length (rx s) -> tstep s Tau (set_rpc RTop s)
| t_linger : linger s = true -> sock_closed s || peer_closed s || negb (is_nil (inbuf s)) = true ->
    tstep s Tau (set_linger false (set_inbuf (tl (inbuf s)) s))
(* sendLoop *)
| t_s_quit_w o r : spc s = SSel -> tx s = o :: r -> o_quit o = true ->
    tstep s Tau (set_spc SQuit (set_tx r (if write_ok s then set_outbuf (outbuf s ++ [o]) s else s)))
| t_s_ok o r : spc s = SSel -> tx s = o :: r -> o_quit o = false -> write_ok s = true ->
    tstep s Tau (set_tx r (set_outbuf (outbuf s ++ [o]) s))
| t_s_fail o r : spc s = SSel -> tx s = o :: r -> o_quit o = false -> write_ok s = false ->
    tstep s (LWFail o) (group_err EIO (set_spc SDone (set_tx r s)))
| t_s_cancel : spc s = SSel -> cancelled s = true -> tstep s Tau (set_spc SDone s)
| t_s_quit : spc s = SQuit -> tstep s Tau (set_spc SDone (set_cancelled true s))
(* pingLoop *)
| t_p_cancel : ppc s = PSel -> cancelled s = true -> tstep s Tau (set_ppc PDone s)
(* Close() *)
| t_close_do : close_st s = KCalled -> tstep s Tau (set_close_st KDone (set_cancelled true s))
(* network *)
| t_net_reset : peer_closed s = true -> inbuf s <> [] -> tstep s Tau (set_inbuf (removelast (inbuf s)) s)
(* environment *)
| t_e_conn regs ping : cpc s = CIdle -> existsb o_quit regs = false -> S (length regs) <= budget s ->
    tstep s (LConnCall regs ping) (set_cpc (CStart regs ping) (spent (S (length regs)) s))
| t_e_closecall : close_st s = KNone -> 1 <= budget s -> tstep s LCloseCall (set_close_st KCalled (spent 1 s))
| t_e_closeret : close_st s = KDone -> tstep s LCloseRet (set_close_st KNone s)
| t_e_send o : 1 <= budget s ->
    tstep s (LSend o) (if conn_set s then set_tx (enq (tx s) o) (spent 1 s) else spent 1 s)
| t_e_isconn : 1 <= budget s -> tstep s (LIsConn (conn_set s && connected s)) (spent 1 s)
| t_e_psend ln : 1 <= budget s ->
    tstep s (LPeerSend ln) (if conn_set s && negb (sock_closed s) && negb (peer_closed s)
                            then set_inbuf (inbuf s ++ [ln]) (spent 1 s) else spent 1 s)
| t_e_pclose : 1 <= budget s -> tstep s LPeerClose (set_peer_closed true (spent 1 s))
| t_e_wfault : 1 <= budget s -> tstep s LWFault (set_wbroken true (spent 1 s))
| t_e_precv o o' r : outbuf s = o' :: r -> out_eqb o o' = true -> tstep s (LPeerRecv o) (set_outbuf r s)
| t_e_peof : sock_closed s = true -> peer_eof s = false -> tstep s LPeerEOF (set_outbuf [] (set_peer_eof true s))
| t_e_tick0 : ppc s = PSel -> 1 <= budget s -> tstep s (LTick 0) (spent 1 s)
| t_e_tick1 : ppc s = PSel -> 1 <= budget s -> tstep s (LTick 1) (set_tx (enq (tx s) ping_out) (spent 1 s))
| t_e_tick2 : ppc s = PSel -> 1 <= budget s -> tstep s (LTick 2) (group_err ETimedOut (set_ppc PDone (spent 1 s))).

Ltac inj_pair H := injection H as <- <-.
Ltac one H := destruct H as [H|[]]; inj_pair H.

Lemma connect_tstep s l s' : In (l, s') (step_connect s) -> tstep s l s'.
Proof.
  unfold step_connect. destruct (cpc s) as [| | [|o regs] | | | | | | ] eqn:E; simpl; intros H; try contradiction.
  - one H. eapply t_start; eauto.
  - one H. eapply t_init; eauto.
  - one H. eapply t_reg; eauto.
  - destruct (loops_done s) eqn:L; [|contradiction]. one H. eapply t_wait; eauto.
  - one H. eapply t_closedev; eauto.
  - one H. eapply t_teardown; eauto.
  - one H. eapply t_discev; eauto.
  - one H. eapply t_clear; eauto.
  - one H. eapply t_ret; eauto.
Qed.

Lemma exec_tstep s l s' : In (l, s') (step_exec s) -> tstep s l s'.
Proof.
  unfold step_exec. destruct (xpc s) as [|e d|e d| |] eqn:E; simpl; intros H; try contradiction.
  - apply in_app_or in H. destruct H as [H|H].
    + destruct (rx s) eqn:R; [contradiction|]. one H. eapply t_x_deq; eauto.
    + destruct (cancelled s) eqn:C; [|contradiction]. one H. eapply t_x_cancel; eauto.
  - one H. eapply t_x_deliver; eauto.
  - one H. destruct d.
    + eapply t_x_end_drain; eauto.
    + destruct e; [eapply t_x_end_msg|eapply t_x_end_error]; eauto.
  - destruct (rx s) eqn:R; one H; [eapply t_x_drain_done|eapply t_x_drain_deq]; eauto.
Qed.

Lemma read_tstep s l s' : In (l, s') (step_read s) -> tstep s l s'.
Proof.
  unfold step_read, step_read_gen. destruct (rpc s) as [| |e|] eqn:E; intros H; try contradiction.
  - one H. eapply t_r_top; eauto.
  - apply in_app_or in H. destruct H as [H|H].
    + destruct (cancelled s) eqn:C; [|contradiction]. one H. eapply t_r_cancel; eauto.
    + destruct (inbuf s) as [|[e|x] r] eqn:I.
      * destruct (peer_closed s || sock_closed s) eqn:P; [|contradiction]. one H. eapply t_r_eof; eauto.
      * one H. eapply t_r_line; eauto.
      * one H. eapply t_r_bad; eauto.
  - destruct (length (rx s) <? cap) eqn:L.
    + one H. apply Nat.ltb_lt in L. eapply t_r_enq; eauto.
    + simpl in H. one H. apply Nat.ltb_ge in L. eapply t_r_drop; eauto.
Qed.

Lemma linger_tstep s l s' : In (l, s') (step_linger s) -> tstep s l s'.
Proof.
  unfold step_linger.
  destruct (linger s && (sock_closed s || peer_closed s || negb (is_nil (inbuf s)))) eqn:E; intros H; [|contradiction].
  one H. apply andb_prop in E. destruct E. eapply t_linger; eauto.
Qed.

Lemma send_tstep s l s' : In (l, s') (step_send s) -> tstep s l s'.
Proof.
  unfold step_send. destruct (spc s) eqn:E; intros H; try contradiction.
  - apply in_app_or in H. destruct H as [H|H].
    + destruct (tx s) as [|o r] eqn:T; [contradiction|]. destruct H as [H|[]].
      destruct (o_quit o) eqn:Q; [inj_pair H; eapply t_s_quit_w; eauto|].
      destruct (write_ok s) eqn:P; inj_pair H; [eapply t_s_ok|eapply t_s_fail]; eauto.
    + destruct (cancelled s) eqn:C; [|contradiction]. one H. eapply t_s_cancel; eauto.
  - one H. eapply t_s_quit; eauto.
Qed.

Lemma ping_tstep s l s' : In (l, s') (step_ping s) -> tstep s l s'.
Proof.
  unfold step_ping. destruct (ppc s) eqn:E; intros H; try contradiction.
  destruct (cancelled s) eqn:C; [|contradiction]. one H. eapply t_p_cancel; eauto.
Qed.

Lemma app_tstep s l s' : In (l, s') (step_app s) -> tstep s l s'.
Proof.
  unfold step_app. destruct (close_st s) eqn:E; intros H; try contradiction.
  one H. eapply t_close_do; eauto.
Qed.

Lemma net_tstep s l s' : In (l, s') (step_net s) -> tstep s l s'.
Proof.
  unfold step_net. destruct (peer_closed s && negb (is_nil (inbuf s))) eqn:E; intros H; [|contradiction].
  one H. apply andb_prop in E. destruct E as [E1 E2]. eapply t_net_reset; eauto.
  destruct (inbuf s); [discriminate|discriminate].
Qed.

Lemma sys_tstep s l s' : In (l, s') (sys_next s) -> tstep s l s'.
Proof.
  unfold sys_next, sys_next_gen, sys_core. rewrite !in_app_iff.
  intros [[H|[H|[H|[H|[H|[H|H]]]]]]|H]; [| | | | | | |apply net_tstep; exact H].
  - apply connect_tstep; exact H.
  - apply exec_tstep; exact H.
  - apply read_tstep; exact H.
  - apply linger_tstep; exact H.
  - apply send_tstep; exact H.
  - apply ping_tstep; exact H.
  - apply app_tstep; exact H.
Qed.

Lemma spend_some n s s1 : spend n s = Some s1 -> n <= budget s /\ s1 = spent n s.
Proof.
  unfold spend, spent. destruct (n <=? budget s) eqn:E; intros H; [|discriminate].
  injection H as <-. apply Nat.leb_le in E. split; [exact E|reflexivity].
Qed.

Lemma env_tstep l s s' : env_step l s = Some s' -> tstep s l s'.
Proof.
  destruct l; simpl; intros H; try discriminate.
  - destruct (cpc s) eqn:E; try discriminate.
    destruct (existsb o_quit regs) eqn:Q; [discriminate|].
    destruct (spend (S (length regs)) s) as [s1|] eqn:S1; simpl in H; [|discriminate].
    apply spend_some in S1. destruct S1 as [Hb ->]. injection H as <-. eapply t_e_conn; eauto.
  - destruct (close_st s) eqn:E; try discriminate.
    destruct (spend 1 s) as [s1|] eqn:S1; simpl in H; [|discriminate].
    apply spend_some in S1. destruct S1 as [Hb ->]. injection H as <-. eapply t_e_closecall; eauto.
  - destruct (close_st s) eqn:E; try discriminate. injection H as <-. eapply t_e_closeret; eauto.
  - destruct (spend 1 s) as [s1|] eqn:S1; simpl in H; [|discriminate].
    apply spend_some in S1. destruct S1 as [Hb ->]. injection H as <-.
    change (conn_set (spent 1 s)) with (conn_set s). change (tx (spent 1 s)) with (tx s).
    eapply t_e_send; eauto.
  - destruct (Bool.eqb b (conn_set s && connected s)) eqn:E; [|discriminate].
    apply eqb_prop in E. subst b. apply spend_some in H. destruct H as [Hb ->]. eapply t_e_isconn; eauto.
  - destruct (spend 1 s) as [s1|] eqn:S1; simpl in H; [|discriminate].
    apply spend_some in S1. destruct S1 as [Hb ->]. injection H as <-.
    change (conn_set (spent 1 s)) with (conn_set s). change (sock_closed (spent 1 s)) with (sock_closed s).
    change (peer_closed (spent 1 s)) with (peer_closed s). change (inbuf (spent 1 s)) with (inbuf s).
    eapply t_e_psend; eauto.
  - destruct (spend 1 s) as [s1|] eqn:S1; simpl in H; [|discriminate].
    apply spend_some in S1. destruct S1 as [Hb ->]. injection H as <-. eapply t_e_pclose; eauto.
  - destruct (outbuf s) as [|o' r] eqn:E; [discriminate|].
    destruct (out_eqb o o') eqn:Q; [|discriminate]. injection H as <-. eapply t_e_precv; eauto.
  - destruct (sock_closed s && negb (peer_eof s)) eqn:E; [|discriminate].
    injection H as <-. apply andb_prop in E. destruct E as [E1 E3].
    apply negb_true_iff in E3. eapply t_e_peof; eauto.
  - destruct (spend 1 s) as [s1|] eqn:S1; simpl in H; [|discriminate].
    apply spend_some in S1. destruct S1 as [Hb ->]. injection H as <-. eapply t_e_wfault; eauto.
  - destruct (ppc s) eqn:E; [|discriminate].
    destruct (spend 1 s) as [s1|] eqn:S1; simpl in H; [|discriminate].
    apply spend_some in S1. destruct S1 as [Hb ->].
    destruct k as [|[|[|k]]]; try discriminate; injection H as <-.
    + eapply t_e_tick0; eauto.
    + change (tx (spent 1 s)) with (tx s). eapply t_e_tick1; eauto.
    + eapply t_e_tick2; eauto.
Qed.

Lemma step_tstep s l s' : step s l s' -> tstep s l s'.
Proof. intros [H|H]; [apply sys_tstep|apply env_tstep]; exact H. Qed.

Lemma removelast_shorter {A} (l : list A) : l <> [] -> S (length (removelast l)) = length l.
Proof.
  induction l as [|a l IH]; intros H; [congruence|]. destruct l as [|b l]; [reflexivity|].
  cbn [removelast length] in *. f_equal. apply IH. discriminate.
Qed.

Lemma in_removelast {A} (x : A) (l : list A) : In x (removelast l) -> In x l.
Proof.
  induction l as [|a l IH]; [intros []|]. destruct l as [|b l]; [intros []|].
  intros [H|H]; [left; exact H|right; apply IH; exact H].
Qed.

(* ---- executions from init, trace of non-Tau labels accumulated left to right ---- *)
Inductive exec (b : nat) : list label -> state -> Prop :=
| ex_init : exec b [] (init b)
| ex_tau tr s s' : exec b tr s -> step s Tau s' -> exec b tr s'
| ex_vis tr s l s' : exec b tr s -> l <> Tau -> step s l s' -> exec b (tr ++ [l]) s'.

Lemma exec_wexec b tr s : exec b tr s -> forall tr2 s', wexec s tr2 s' -> exec b (tr ++ tr2) s'.
Proof.
  intros H tr2 s' W. revert tr H. induction W as [s|s s1 t s' Hs _ IH|s l s1 t s' Hl Hs _ IH]; intros tr H.
  - rewrite app_nil_r. exact H.
  - apply IH. eapply ex_tau; eauto.
  - replace (tr ++ l :: t) with ((tr ++ [l]) ++ t) by (rewrite <- app_assoc; reflexivity).
    apply IH. eapply ex_vis; eauto.
Qed.

Lemma wexec_exec b tr s : wexec (init b) tr s -> exec b tr s.
Proof. intros W. apply (exec_wexec b [] (init b) (ex_init b) tr s W). Qed.

Definition reachable (s : state) : Prop := exists b tr, exec b tr s.
