(* Getter results depend only on the cells the tracked state reaches: two heaps that
   agree there show the same through LookupUser / LookupChannel / Users / Channels. *)
Require Import Bytes AMap Names State Heap HeapLemmas HeapSpec HeapFrame HeapCopy HeapLive HeapIso.
From Coq Require Import Lia.
Local Open Scope nat_scope.

(* ---- one Copy on two agreeing heaps ---- *)

Lemma sl_get_agree h h' s : hget h' (sl_arr s) = hget h (sl_arr s) -> sl_get h' s = sl_get h s.
Proof. intros E. unfold sl_get, get_strs. rewrite E. reflexivity. Qed.
Lemma sl_get_modes_agree h h' s : hget h' (sl_arr s) = hget h (sl_arr s) -> sl_get_modes h' s = sl_get_modes h s.
Proof. intros E. unfold sl_get_modes, get_modes. rewrite E. reflexivity. Qed.

Lemma user_copy_transfer h h' o h1 o1 : (forall x, In x (reach h o) -> hget h' x = hget h x) ->
  user_copy h o = Ok (h1, o1) -> exists h1' o1', user_copy h' o = Ok (h1', o1').
Proof.
  intros A H. apply user_copy_spec in H. destruct H as (u & p & m & l & Ho & Ep & Hp & Hl & _ & _).
  assert (Ho' : hget h' o = Some (CUser u)) by (rewrite A; [exact Ho|apply reach_self]).
  assert (Hp' : hget h' p = Some (CPerms m)).
  { rewrite A; [exact Hp|]. eapply reach_ptr; [exact Ho|]. simpl. rewrite Ep. simpl. auto. }
  assert (Hl' : sl_get h' (hu_chans u) = Ok l).
  { rewrite (sl_get_agree h h'); [exact Hl|]. apply A. eapply reach_ptr; [exact Ho|]. simpl. auto. }
  do 2 eexists. eapply user_copy_total; eauto.
Qed.

Lemma channel_copy_transfer h h' o h1 o1 : (forall x, In x (reach h o) -> hget h' x = hget h x) ->
  channel_copy h o = Ok (h1, o1) -> exists h1' o1', channel_copy h' o = Ok (h1', o1').
Proof.
  intros A H. apply channel_copy_spec in H. destruct H as (c & l & ms & Ho & Hl & Hm & _ & _).
  assert (Ho' : hget h' o = Some (CChan c)) by (rewrite A; [exact Ho|apply reach_self]).
  assert (Hl' : sl_get h' (hc_users c) = Ok l).
  { rewrite (sl_get_agree h h'); [exact Hl|]. apply A. eapply reach_ptr; [exact Ho|]. simpl. auto. }
  assert (Hm' : sl_get_modes h' (hm_modes (hc_modes c)) = Ok ms).
  { rewrite (sl_get_modes_agree h h'); [exact Hm|]. apply A. eapply reach_ptr; [exact Ho|]. simpl. auto. }
  do 2 eexists. eapply channel_copy_total; eauto.
Qed.

Lemma user_value_nick h o v : user_value h o = Some v -> nick_of h o = vu_nick v.
Proof.
  unfold user_value, nick_of, get_user. destruct (hget h o) as [[| | |u| |pl]|]; try discriminate.
  destruct (sl_get h (hu_chans u)); [|discriminate]. destruct (hu_perms u); [destruct (get_perms h n); [|discriminate]|];
    intros H; injection H as <-; reflexivity.
Qed.
Lemma chan_value_name h o v : chan_value h o = Some v -> name_of h o = vc_name v.
Proof.
  unfold chan_value, name_of, get_chan. destruct (hget h o) as [[| | | |c|pl]|]; try discriminate.
  destruct (sl_get h (hc_users c)); [|discriminate]. destruct (sl_get_modes h _); [|discriminate].
  intros H; injection H as <-; reflexivity.
Qed.

Lemma Forall2_impl' {A B} (P Q : A -> B -> Prop) l l' : (forall a b, P a b -> Q a b) -> Forall2 P l l' -> Forall2 Q l l'.
Proof. intros H F. induction F; constructor; auto. Qed.

Section Generic.
  Context {V : Type} (cp : heap -> nat -> res (heap * nat)) (val : heap -> nat -> option V)
          (key : heap -> nat -> str) (kv : V -> str).
  Hypothesis cp_frame : forall h o h' o', cp h o = Ok (h', o') ->
    length h <= length h' /\ forall x, x < length h -> hget h' x = hget h x.
  Hypothesis cp_fresh : forall h o h' o', cp h o = Ok (h', o') -> forall x, In x (reach h' o') -> length h <= x < length h'.
  Hypothesis cp_value : forall h o h' o', cp h o = Ok (h', o') -> val h' o' = val h o /\ val h o <> None.
  Hypothesis val_agree : forall h h' o, (forall x, In x (reach h o) -> hget h' x = hget h x) -> val h' o = val h o.
  Hypothesis cp_transfer : forall h h' o h1 o1, (forall x, In x (reach h o) -> hget h' x = hget h x) ->
    cp h o = Ok (h1, o1) -> exists h1' o1', cp h' o = Ok (h1', o1').
  Hypothesis key_val : forall h o v, val h o = Some v -> key h o = kv v.

  Definition cp_val (h : heap) (o : nat) : option (option V) :=
    match cp h o with Ok (h1, o1) => Some (val h1 o1) | Panic => None end.

  Lemma agree_sym h h' o : (forall x, In x (reach h o) -> hget h' x = hget h x) ->
    forall x, In x (reach h' o) -> hget h x = hget h' x.
  Proof.
    intros A x Hx. assert (E : reach h' o = reach h o) by (apply reach_same_cell; apply A; apply reach_self).
    rewrite E in Hx. symmetry. apply A. exact Hx.
  Qed.

  Lemma cp_val_agree h h' o : (forall x, In x (reach h o) -> hget h' x = hget h x) -> cp_val h' o = cp_val h o.
  Proof.
    intros A. unfold cp_val.
    destruct (cp h o) as [[h1 o1]|] eqn:E; destruct (cp h' o) as [[h1' o1']|] eqn:E'.
    - rewrite (proj1 (cp_value _ _ _ _ E)), (proj1 (cp_value _ _ _ _ E')). f_equal. apply val_agree. exact A.
    - destruct (cp_transfer _ _ _ _ _ A E) as (? & ? & C). congruence.
    - destruct (cp_transfer _ _ _ _ _ (agree_sym _ _ _ A) E') as (? & ? & C). congruence.
    - reflexivity.
  Qed.

  (* agreement on a bounded handle set carries over to the extended heaps *)
  Lemma agree_lt h h' l : bounded h (creach h l) -> (forall x, In x (creach h l) -> hget h' x = hget h x) ->
    forall x, In x (creach h l) -> x < length h'.
  Proof.
    intros B A x Hx. specialize (A x Hx). specialize (B x Hx).
    destruct (hget h x) as [c|] eqn:E; [eapply hget_some_lt; eauto|]. apply hget_ge_none in E || (unfold hget in E; apply nth_error_None in E); lia.
  Qed.

  Lemma copy_all_transfer : forall l h h' hF l1, bounded h (creach h l) ->
    (forall x, In x (creach h l) -> hget h' x = hget h x) ->
    copy_all cp h l = Ok (hF, l1) -> exists hF' l1', copy_all cp h' l = Ok (hF', l1').
  Proof.
    induction l as [|o l IH]; intros h h' hF l1 B A H; simpl in H; simpl.
    - do 2 eexists. reflexivity.
    - bind_inv H a Ha. destruct a as [h1 o1]. bind_inv H b Hb. destruct b as [h2 r']. injection H as <- <-.
      assert (Ao : forall x, In x (reach h o) -> hget h' x = hget h x).
      { intros x Hx. apply A. unfold creach. cbn [flat_map]. apply in_or_app. left. exact Hx. }
      assert (Bl : bounded h (creach h l)).
      { intros x Hx. apply B. unfold creach. cbn [flat_map]. apply in_or_app. right. exact Hx. }
      assert (Al : forall x, In x (creach h l) -> hget h' x = hget h x).
      { intros x Hx. apply A. unfold creach. cbn [flat_map]. apply in_or_app. right. exact Hx. }
      destruct (cp_transfer _ _ _ _ _ Ao Ha) as (h1' & o1' & Ha'). rewrite Ha'. simpl.
      destruct (cp_frame _ _ _ _ Ha) as (L1 & U1). destruct (cp_frame _ _ _ _ Ha') as (L1' & U1').
      assert (E : creach h1 l = creach h l).
      { apply creach_agree. intros r Hr. apply U1. apply Bl. apply creach_self. exact Hr. }
      assert (B1 : bounded h1 (creach h1 l)) by (rewrite E; intros x Hx; specialize (Bl x Hx); lia).
      assert (A1 : forall x, In x (creach h1 l) -> hget h1' x = hget h1 x).
      { intros x Hx. rewrite E in Hx. rewrite U1 by (apply Bl; exact Hx).
        rewrite U1' by (apply (agree_lt h h' l Bl Al); exact Hx). apply Al. exact Hx. }
      destruct (IH _ _ _ _ B1 A1 Hb) as (hF' & l1' & Hb'). rewrite Hb'. simpl. do 2 eexists. reflexivity.
  Qed.

  Lemma insert_by_F2 (Rel : nat -> nat -> Prop) k k' : (forall a b, Rel a b -> k a = k' b) ->
    forall l l' a b, Rel a b -> Forall2 Rel l l' -> Forall2 Rel (insert_by k a l) (insert_by k' b l').
  Proof.
    intros Hk. induction l as [|x l IH]; intros l' a b Hab F; inversion F as [|x0 y l0 l0' Hxy F' E1 E2]; subst; simpl.
    - constructor; [exact Hab|constructor].
    - rewrite <- (Hk _ _ Hab), <- (Hk _ _ Hxy). destruct (str_leb (k a) (k x)).
      + constructor; [exact Hab|]. constructor; assumption.
      + constructor; [exact Hxy|]. apply IH; assumption.
  Qed.
  Lemma sort_by_F2 (Rel : nat -> nat -> Prop) k k' : (forall a b, Rel a b -> k a = k' b) ->
    forall l l', Forall2 Rel l l' -> Forall2 Rel (sort_by k l) (sort_by k' l').
  Proof.
    intros Hk. induction 1 as [|a b l l' Hab F IH]; unfold sort_by; simpl; [constructor|].
    apply insert_by_F2; assumption.
  Qed.

  Lemma F2_map_eq {A B C} (f : A -> C) (g : B -> C) l l' : Forall2 (fun a b => f a = g b) l l' -> List.map f l = List.map g l'.
  Proof. induction 1 as [|a b l l' E _ IH]; simpl; [reflexivity|]. rewrite E, IH. reflexivity. Qed.

  Lemma F2_compose {A B C} (P : A -> B -> Prop) (Q : A -> C -> Prop) (Rr : B -> C -> Prop) :
    (forall a b c, P a b -> Q a c -> Rr b c) -> forall l l1 l2, Forall2 P l l1 -> Forall2 Q l l2 -> Forall2 Rr l1 l2.
  Proof.
    intros Hc. induction l as [|a l IH]; intros l1 l2 F1 F2; inversion F1; inversion F2; subst; constructor; eauto.
  Qed.

  Definition all_val (h : heap) (l : list nat) : option (list (option V)) :=
    match copy_all cp h l with
    | Ok (hF, l1) => Some (List.map (val hF) (sort_by (key hF) l1))
    | Panic => None
    end.

  Lemma all_val_agree h h' l : bounded h (creach h l) -> (forall x, In x (creach h l) -> hget h' x = hget h x) ->
    all_val h' l = all_val h l.
  Proof.
    intros B A.
    assert (Lt' : forall x, In x (creach h l) -> x < length h') by (eapply agree_lt; eauto).
    assert (E : creach h' l = creach h l) by (apply creach_old; assumption).
    assert (B' : bounded h' (creach h' l)) by (rewrite E; exact Lt').
    assert (A' : forall x, In x (creach h' l) -> hget h x = hget h' x) by (intros x Hx; rewrite E in Hx; symmetry; apply A; exact Hx).
    unfold all_val.
    destruct (copy_all cp h l) as [[hF l1]|] eqn:C; destruct (copy_all cp h' l) as [[hF' l1']|] eqn:C'.
    - destruct (copy_all_spec cp val cp_frame cp_fresh (fun h o h' o' H => proj1 (cp_value h o h' o' H)) val_agree _ _ _ _ B C) as (_ & _ & F1).
      destruct (copy_all_spec cp val cp_frame cp_fresh (fun h o h' o' H => proj1 (cp_value h o h' o' H)) val_agree _ _ _ _ B' C') as (_ & _ & F1').
      f_equal.
      (* every copy has a value (the original had one), equal on both sides *)
      assert (NN : forall o, In o l -> val h o <> None).
      { clear -C cp_value cp_frame B val_agree. revert h hF l1 C B. induction l as [|o0 l IH]; intros h hF l1 C B o Ho; [contradiction|].
        simpl in C. bind_inv C a Ha. destruct a as [h1 o1]. bind_inv C b Hb. destruct b as [h2 r']. injection C as <- <-.
        destruct Ho as [->|Ho]; [apply (cp_value _ _ _ _ Ha)|].
        destruct (cp_frame _ _ _ _ Ha) as (L1 & U1).
        assert (Bl : bounded h (creach h l)).
        { intros x Hx. apply B. unfold creach. cbn [flat_map]. apply in_or_app. right. exact Hx. }
        assert (E : creach h1 l = creach h l).
        { apply creach_agree. intros r Hr. apply U1. apply Bl. apply creach_self. exact Hr. }
        assert (B1 : bounded h1 (creach h1 l)) by (rewrite E; intros x Hx; specialize (Bl x Hx); lia).
        specialize (IH _ _ _ Hb B1 o Ho).
        rewrite <- (val_agree h h1 o); [exact IH|]. intros x Hx. apply U1. apply Bl. apply in_creach. eauto. }
      set (Rel := fun o1 o1' : nat => val hF o1 = val hF' o1' /\ val hF o1 <> None).
      assert (FR : Forall2 Rel l1 l1').
      { assert (F1in : Forall2 (fun o o1 => In o l /\ val hF o1 = val h o) l l1).
        { clear -F1. induction F1 as [|a b l l1 [Hv _] _ IH]; constructor; [split; [left; reflexivity|exact Hv]|].
          eapply Forall2_impl'; [|exact IH]. intros x y [Hin Hv']. split; [right; exact Hin|exact Hv']. }
        eapply (F2_compose _ (fun o o1' => val hF' o1' = val h' o) Rel); [|exact F1in|].
        - intros o a b [Hin Ha] Hb. unfold Rel. rewrite Ha, Hb. split; [|apply NN; exact Hin].
          symmetry. apply val_agree. intros x Hx. apply A. apply in_creach. eauto.
        - eapply Forall2_impl'; [|exact F1']. intros x y [Hv _]. exact Hv. }
      symmetry. apply F2_map_eq. eapply Forall2_impl'; [|apply (sort_by_F2 Rel (key hF) (key hF')); [|exact FR]].
      + intros a b [Hab _]. exact Hab.
      + intros a b [Hab Hn]. destruct (val hF a) as [v|] eqn:Ea; [|congruence].
        rewrite (key_val _ _ _ Ea). symmetry in Hab. rewrite (key_val _ _ _ Hab). reflexivity.
    - destruct (copy_all_transfer _ _ _ _ _ B A C) as (? & ? & X). congruence.
    - destruct (copy_all_transfer _ _ _ _ _ B' A' C') as (? & ? & X). congruence.
    - reflexivity.
  Qed.
End Generic.

(* ---- the four getters on two worlds with the same roots and agreeing live cells ---- *)

Theorem same_getters_of_agree h h' s :
  bounded h (live_objs h s) -> (forall x, In x (live_objs h s) -> hget h' x = hget h x) ->
  same_getters (mkWorld h s) (mkWorld h' s).
Proof.
  intros B A.
  assert (Bu : bounded h (creach h (List.map snd (hs_users s)))).
  { intros x Hx. apply B. unfold live_objs, roots. rewrite flat_map_app. apply in_or_app. left. exact Hx. }
  assert (Bc : bounded h (creach h (List.map snd (hs_channels s)))).
  { intros x Hx. apply B. unfold live_objs, roots. rewrite flat_map_app. apply in_or_app. right. exact Hx. }
  assert (Au : forall x, In x (creach h (List.map snd (hs_users s))) -> hget h' x = hget h x).
  { intros x Hx. apply A. unfold live_objs, roots. rewrite flat_map_app. apply in_or_app. left. exact Hx. }
  assert (Ac : forall x, In x (creach h (List.map snd (hs_channels s))) -> hget h' x = hget h x).
  { intros x Hx. apply A. unfold live_objs, roots. rewrite flat_map_app. apply in_or_app. right. exact Hx. }
  split; [|split; [|split]].
  - intros n. destruct n as [|b n]; [reflexivity|]. unfold lookup_user_g, lookup_user_h. cbv iota. cbn [w_heap w_st].
    generalize (fold (b :: n)). intros k.
    destruct (alookup k (hs_users s)) as [uid|] eqn:El; [|reflexivity].
    pose proof (cp_val_agree user_copy user_value user_copy_value user_value_agree user_copy_transfer h h' uid) as C.
    unfold cp_val in C. assert (Ar : forall x, In x (reach h uid) -> hget h' x = hget h x).
    { intros x Hx. apply Au. apply in_creach. exists uid. split; [eapply alookup_in_snd; eauto|exact Hx]. }
    specialize (C Ar).
    destruct (user_copy h' uid) as [[h1' o1']|]; destruct (user_copy h uid) as [[h1 o1]|]; simpl; congruence.
  - intros n. destruct n as [|b n]; [reflexivity|]. unfold lookup_channel_g, lookup_channel_h. cbv iota. cbn [w_heap w_st].
    generalize (fold (b :: n)). intros k.
    destruct (alookup k (hs_channels s)) as [cid|] eqn:El; [|reflexivity].
    pose proof (cp_val_agree channel_copy chan_value channel_copy_value chan_value_agree channel_copy_transfer h h' cid) as C.
    unfold cp_val in C. assert (Ar : forall x, In x (reach h cid) -> hget h' x = hget h x).
    { intros x Hx. apply Ac. apply in_creach. exists cid. split; [eapply alookup_in_snd; eauto|exact Hx]. }
    specialize (C Ar).
    destruct (channel_copy h' cid) as [[h1' o1']|]; destruct (channel_copy h cid) as [[h1 o1]|]; simpl; congruence.
  - pose proof (all_val_agree user_copy user_value nick_of vu_nick user_copy_frame user_copy_fresh user_copy_value
                  user_value_agree user_copy_transfer user_value_nick h h' _ Bu Au) as C.
    unfold all_val in C. unfold users_g, users_result. simpl.
    destruct (copy_all user_copy h' _) as [[hF' l']|]; destruct (copy_all user_copy h _) as [[hF l]|]; simpl; congruence.
  - pose proof (all_val_agree channel_copy chan_value name_of vc_name channel_copy_frame channel_copy_fresh channel_copy_value
                  chan_value_agree channel_copy_transfer chan_value_name h h' _ Bc Ac) as C.
    unfold all_val in C. unfold channels_g, chans_result. simpl.
    destruct (copy_all channel_copy h' _) as [[hF' l']|]; destruct (copy_all channel_copy h _) as [[hF l]|]; simpl; congruence.
Qed.
