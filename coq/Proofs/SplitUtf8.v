(* Facts about Lib/Utf8.v used by the C11 proofs: widths, to_valid_utf8 never grows. *)
Require Import Bytes Utf8.
From Coq Require Import Lia.

Lemma rune_size_bounds s n : rune_size s = Some n -> (1 <= n <= 4 /\ n <= length s)%nat.
Proof.
  unfold rune_size. destruct s as [|b0 r]; [discriminate|].
  destruct (b0 <? 128). { intros H; inversion H; cbn [length]; lia. }
  destruct (in_range 194 223 b0).
  { destruct r as [|b1 r]; [discriminate|]. destruct (is_cont b1); [|discriminate].
    intros H; inversion H; cbn [length]; lia. }
  destruct (in_range 224 239 b0).
  { destruct r as [|b1 [|b2 r]]; try discriminate.
    match goal with |- (if ?c then _ else _) = _ -> _ => destruct c end; [|discriminate].
    intros H; inversion H; cbn [length]; lia. }
  destruct (in_range 240 244 b0); [|discriminate].
  destruct r as [|b1 [|b2 [|b3 r]]]; try discriminate.
  match goal with |- (if ?c then _ else _) = _ -> _ => destruct c end; [|discriminate].
  intros H; inversion H; cbn [length]; lia.
Qed.

Lemma first_rune_width_bounds s : s <> [] ->
  (1 <= first_rune_width s <= 4 /\ first_rune_width s <= length s)%nat.
Proof.
  intros Hs. unfold first_rune_width. destruct s as [|b r]; [congruence|].
  destruct (rune_size (b :: r)) eqn:E.
  - apply rune_size_bounds in E. exact E.
  - cbn [length]. lia.
Qed.

(* strings.ToValidUTF8 with a replacement of at most one byte never grows the string *)
Lemma to_valid_aux_length repl s skip inrun : (length repl <= 1)%nat ->
  (length (to_valid_aux repl s skip inrun) <= length s)%nat.
Proof.
  intros Hr. revert skip inrun. induction s as [|b r IH]; intros skip inrun; cbn [to_valid_aux length]; [lia|].
  destruct skip as [|k].
  - destruct (rune_size (b :: r)).
    + cbn [length]. specialize (IH (n - 1)%nat false). lia.
    + rewrite app_length. specialize (IH 0%nat true). destruct inrun; cbn [length]; lia.
  - cbn [length]. specialize (IH k false). lia.
Qed.

Lemma to_valid_utf8_length repl s : (length repl <= 1)%nat -> (length (to_valid_utf8 repl s) <= length s)%nat.
Proof. intros H. apply to_valid_aux_length; exact H. Qed.
