(* Facts about Lib/Utf8.v used by the C11 proofs: widths, to_valid_utf8 never grows. *)
Require Import Bytes Utf8.
From Coq Require Import Lia ZifyBool ZifyN ZifyNat.

Lemma rune_size_bounds s n : rune_size s = Some n -> (1 <= n <= 4 /\ n <= length s)%nat.
Proof.
  unfold rune_size. destruct s as [|b0 r]; [discriminate|].
  destruct (b0 <? 128). { intros H; inversion H; cbn [length]; lia. }
  destruct (in_range 194 223 b0).
  { destruct r as [|b1 r]; [discriminate|]. destruct (is_cont b1); [|discriminate].
    intros H; inversion H; cbn [length]; lia. }
  destruct (in_range 224 239 b0).
  { destruct r as [|b1 [|b2 r]]; try discriminate.
    match goal with |- (if ?c then _ else _) = _ -> _ => destruct c end; [|discriminate].
    intros H; inversion H; cbn [length]; lia. }
  destruct (in_range 240 244 b0); [|discriminate].
  destruct r as [|b1 [|b2 [|b3 r]]]; try discriminate.
  match goal with |- (if ?c then _ else _) = _ -> _ => destruct c end; [|discriminate].
  intros H; inversion H; cbn [length]; lia.
Qed.

Lemma first_rune_width_bounds s : s <> [] ->
  (1 <= first_rune_width s <= 4 /\ first_rune_width s <= length s)%nat.
Proof.
  intros Hs. unfold first_rune_width. destruct s as [|b r]; [congruence|].
  destruct (rune_size (b :: r)) eqn:E.
  - apply rune_size_bounds in E. exact E.
  - cbn [length]. lia.
Qed.

(* strings.ToValidUTF8 with a replacement of at most one byte never grows the string *)
Lemma to_valid_aux_length repl s skip inrun : (length repl <= 1)%nat ->
  (length (to_valid_aux repl s skip inrun) <= length s)%nat.
Proof.
  intros Hr. revert skip inrun. induction s as [|b r IH]; intros skip inrun; cbn [to_valid_aux length]; [lia|].
  destruct skip as [|k].
  - destruct (rune_size (b :: r)).
    + cbn [length]. specialize (IH (n - 1)%nat false). lia.
    + rewrite app_length. specialize (IH 0%nat true). destruct inrun; cbn [length]; lia.
  - cbn [length]. specialize (IH k false). lia.
Qed.

Lemma to_valid_utf8_length repl s : (length repl <= 1)%nat -> (length (to_valid_utf8 repl s) <= length s)%nat.
Proof. intros H. apply to_valid_aux_length; exact H. Qed.

(* ------------------------------------------------------------------ *)
(* well-formed strings: concatenations of valid encoded runes           *)
(* ------------------------------------------------------------------ *)

Inductive wf : str -> Prop :=
| wf_nil : wf []
| wf_cons : forall s n, rune_size s = Some n -> wf (skipn n s) -> wf s.

Ltac rs_cases s :=
  unfold rune_size; destruct s as [|?b0 ?r]; [try discriminate|];
  destruct (_ <? 128);
  [|destruct (in_range 194 223 _);
    [|destruct (in_range 224 239 _);
      [|destruct (in_range 240 244 _); [|try discriminate]]]].

(* appending does not change the first rune *)
Lemma rune_size_app s t n : rune_size s = Some n -> rune_size (s ++ t) = Some n.
Proof.
  unfold rune_size. destruct s as [|b0 r]; [discriminate|]. cbn [app].
  destruct (b0 <? 128); [auto|].
  destruct (in_range 194 223 b0).
  { destruct r as [|b1 r]; [discriminate|]. cbn [app]. auto. }
  destruct (in_range 224 239 b0).
  { destruct r as [|b1 [|b2 r]]; try discriminate. cbn [app]. auto. }
  destruct (in_range 240 244 b0); [|discriminate].
  destruct r as [|b1 [|b2 [|b3 r]]]; try discriminate. cbn [app]. auto.
Qed.

Lemma rune_size_firstn s n : rune_size s = Some n -> rune_size (firstn n s) = Some n.
Proof.
  unfold rune_size. destruct s as [|b0 r]; [discriminate|].
  destruct (b0 <? 128) eqn:E0. { intros H; inversion H; subst. cbn [firstn]. rewrite E0. reflexivity. }
  destruct (in_range 194 223 b0) eqn:E1.
  { destruct r as [|b1 r]; [discriminate|]. destruct (is_cont b1) eqn:C1; [|discriminate].
    intros H; inversion H; subst. cbn [firstn]. rewrite E0, E1, C1. reflexivity. }
  destruct (in_range 224 239 b0) eqn:E2.
  { destruct r as [|b1 [|b2 r]]; try discriminate.
    match goal with |- (if ?c then _ else _) = _ -> _ => destruct c eqn:C end; [|discriminate].
    intros H; inversion H; subst. cbn [firstn]. rewrite E0, E1, E2, C. reflexivity. }
  destruct (in_range 240 244 b0) eqn:E3; [|discriminate].
  destruct r as [|b1 [|b2 [|b3 r]]]; try discriminate.
  match goal with |- (if ?c then _ else _) = _ -> _ => destruct c eqn:C end; [|discriminate].
  intros H; inversion H; subst. cbn [firstn]. rewrite E0, E1, E2, E3, C. reflexivity.
Qed.

(* bytes 2..n of a rune are continuation bytes *)
Lemma rune_size_cont s n : rune_size s = Some n ->
  forall i, (1 <= i < n)%nat -> exists c, nth_error s i = Some c /\ is_cont c = true.
Proof.
  unfold rune_size. destruct s as [|b0 r]; [discriminate|].
  destruct (b0 <? 128). { intros H; inversion H; subst. intros i Hi. lia. }
  destruct (in_range 194 223 b0).
  { destruct r as [|b1 r]; [discriminate|]. destruct (is_cont b1) eqn:C1; [|discriminate].
    intros H; inversion H; subst. intros i Hi. assert (i = 1%nat) by lia. subst. cbn. eauto. }
  destruct (in_range 224 239 b0).
  { destruct r as [|b1 [|b2 r]]; try discriminate.
    match goal with |- (if ?c then _ else _) = _ -> _ => destruct c eqn:C end; [|discriminate].
    apply andb_true_iff in C. destruct C as [C1 C2].
    intros H; inversion H; subst. intros i Hi.
    assert (i = 1 \/ i = 2)%nat as [->| ->] by lia; cbn [nth_error]; eexists; (split; [reflexivity|]); [|exact C2].
    revert C1. unfold in_range, is_cont. destruct (b0 =? 224), (b0 =? 237); lia. }
  destruct (in_range 240 244 b0); [|discriminate].
  destruct r as [|b1 [|b2 [|b3 r]]]; try discriminate.
  match goal with |- (if ?c then _ else _) = _ -> _ => destruct c eqn:C end; [|discriminate].
  apply andb_true_iff in C. destruct C as [C C3]. apply andb_true_iff in C. destruct C as [C1 C2].
  intros H; inversion H; subst. intros i Hi.
  assert (i = 1 \/ i = 2 \/ i = 3)%nat as [->|[->| ->]] by lia; cbn [nth_error]; eexists; (split; [reflexivity|]);
    [|exact C2|exact C3].
  revert C1. unfold in_range, is_cont. destruct (b0 =? 240), (b0 =? 244); lia.
Qed.

(* the lead byte is not a continuation byte *)
Lemma rune_size_lead b r n : rune_size (b :: r) = Some n -> is_cont b = false.
Proof.
  unfold rune_size, is_cont, in_range.
  destruct (b <? 128) eqn:E0; [lia|].
  destruct ((194 <=? b) && (b <=? 223)) eqn:E1; [lia|].
  destruct ((224 <=? b) && (b <=? 239)) eqn:E2; [lia|].
  destruct ((240 <=? b) && (b <=? 244)) eqn:E3; [lia|discriminate].
Qed.

Lemma wf_app a b : wf a -> wf b -> wf (a ++ b).
Proof.
  intros Ha Hb. induction Ha as [|s n Hn Hs IH]; [exact Hb|].
  apply (wf_cons _ n); [apply rune_size_app; exact Hn|].
  destruct (rune_size_bounds _ _ Hn) as [_ Hl].
  rewrite skipn_app. replace (n - length s)%nat with 0%nat by lia. cbn [skipn]. exact IH.
Qed.

Lemma wf_rune s n : rune_size s = Some n -> wf (firstn n s).
Proof.
  intros Hn. apply (wf_cons _ n); [apply rune_size_firstn; exact Hn|].
  rewrite skipn_all2; [constructor|]. rewrite firstn_length. lia.
Qed.

Lemma wf_ascii b : b <? 128 = true -> wf [b].
Proof. intros H. apply (wf_cons _ 1%nat); [cbn; rewrite H; reflexivity|constructor]. Qed.

(* self-synchronisation: a position whose next byte is not a continuation byte is a
   rune boundary *)
Lemma wf_split_at s : wf s -> forall a b, s = a ++ b ->
  (match b with [] => True | c :: _ => is_cont c = false end) -> wf a /\ wf b.
Proof.
  induction 1 as [|s n Hn Hs IH]; intros a b E Hb.
  - destruct a; [|discriminate]. destruct b; [|discriminate]. split; constructor.
  - destruct (rune_size_bounds _ _ Hn) as [[Hn1 Hn4] Hl].
    destruct a as [|a0 a'].
    { cbn [app] in E. subst b. split; [constructor|]. apply (wf_cons _ n); assumption. }
    destruct (Nat.ltb (length (a0 :: a')) n) eqn:Elt.
    + (* the cut would fall inside the first rune *)
      apply Nat.ltb_lt in Elt. exfalso.
      destruct (rune_size_cont _ _ Hn (length (a0 :: a')) ltac:(cbn [length] in *; lia)) as (c & Hc & Hcc).
      rewrite E in Hc. rewrite nth_error_app2 in Hc by lia. rewrite Nat.sub_diag in Hc.
      destruct b as [|c' b']; [discriminate|]. cbn in Hc. inversion Hc; subst. congruence.
    + apply Nat.ltb_ge in Elt.
      assert (Ea : a0 :: a' = firstn n s ++ skipn n (a0 :: a')).
      { rewrite E. rewrite firstn_app. replace (n - length (a0 :: a'))%nat with 0%nat by lia.
        cbn [firstn]. rewrite app_nil_r. symmetry. apply firstn_skipn. }
      assert (Es : skipn n s = skipn n (a0 :: a') ++ b).
      { rewrite E. rewrite skipn_app. replace (n - length (a0 :: a'))%nat with 0%nat by lia. reflexivity. }
      destruct (IH _ _ Es Hb) as [Wa Wb]. split; [|exact Wb].
      rewrite Ea. apply wf_app; [apply wf_rune; exact Hn|exact Wa].
Qed.

Lemma wf_split a b : wf (a ++ b) ->
  (match b with [] => True | c :: _ => is_cont c = false end) -> wf a /\ wf b.
Proof. intros H. apply (wf_split_at _ H a b eq_refl). Qed.

(* dropping a leading rune *)
Lemma wf_skip_rune s n : wf s -> rune_size s = Some n -> wf (skipn n s).
Proof. intros H Hn. inversion H; subst; [discriminate|]. congruence. Qed.

Lemma wf_tail_ascii b r : b <? 128 = true -> wf (b :: r) -> wf r.
Proof.
  intros Hb H. apply (wf_skip_rune _ 1%nat) in H; [exact H|]. cbn. rewrite Hb. reflexivity.
Qed.

(* ------------------------------------------------------------------ *)
(* ToValidUTF8 produces well-formed strings and fixes them             *)
(* ------------------------------------------------------------------ *)

Lemma to_valid_aux_copy repl : forall k s i, (S k <= length s)%nat ->
  to_valid_aux repl s (S k) i = firstn (S k) s ++ to_valid_aux repl (skipn (S k) s) 0 false.
Proof.
  induction k as [|k IH]; intros s i Hl; destruct s as [|b r]; cbn [length] in Hl; try lia.
  - cbn [to_valid_aux firstn skipn app]. destruct r; reflexivity.
  - cbn [to_valid_aux]. rewrite IH by lia. reflexivity.
Qed.

Lemma to_valid_aux_rune repl s n i : rune_size s = Some n ->
  to_valid_aux repl s 0 i = firstn n s ++ to_valid_aux repl (skipn n s) 0 false.
Proof.
  intros Hn. destruct (rune_size_bounds _ _ Hn) as [[H1 H4] Hl].
  destruct s as [|b r]; [discriminate|]. cbn [to_valid_aux]. rewrite Hn.
  destruct n as [|k]; [lia|]. cbn [Nat.sub]. rewrite Nat.sub_0_r.
  destruct k as [|k].
  - reflexivity.
  - cbn [length] in Hl. rewrite to_valid_aux_copy by lia. reflexivity.
Qed.

Lemma to_valid_aux_wf repl : wf repl -> forall m s i, (length s <= m)%nat -> wf (to_valid_aux repl s 0 i).
Proof.
  intros Hr. induction m as [|m IH]; intros s i Hl.
  - destruct s; [constructor|cbn [length] in Hl; lia].
  - destruct s as [|b r]; [constructor|].
    destruct (rune_size (b :: r)) as [n|] eqn:Hn.
    + rewrite (to_valid_aux_rune _ _ _ _ Hn). destruct (rune_size_bounds _ _ Hn) as [[H1 _] Hn2].
      apply wf_app; [apply wf_rune; exact Hn|]. apply IH. rewrite skipn_length. cbn [length] in *. lia.
    + cbn [to_valid_aux]. rewrite Hn. apply wf_app; [destruct i; [constructor|exact Hr]|].
      apply IH. cbn [length] in Hl. lia.
Qed.

Theorem to_valid_utf8_wf repl s : wf repl -> wf (to_valid_utf8 repl s).
Proof. intros Hr. apply (to_valid_aux_wf repl Hr (length s)). lia. Qed.

Theorem to_valid_utf8_id repl s : wf s -> to_valid_utf8 repl s = s.
Proof.
  unfold to_valid_utf8. induction 1 as [|s n Hn Hs IH]; [reflexivity|].
  rewrite (to_valid_aux_rune _ _ _ _ Hn), IH. apply firstn_skipn.
Qed.
