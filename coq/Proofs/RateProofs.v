(* Proofs for C16 (flood limiter): arithmetic of ircConn.rate, the bucket inequality over
   arbitrary call sequences and clock readings, the wall-clock corollary for one sender,
   bypass of the limiter, FIFO order, and the refutation of the hold clause when
   lastWrite is stale (sendLoop has not stamped the previous events yet). *)
From Coq Require Import Lia ZifyBool.
Require Import Bytes Rate.
Open Scope Z_scope.

(* ---- cost ------------------------------------------------------------------------- *)

Lemma cost_linear : forall chars, cost chars = second + chars * 10000000.
Proof.
  intros chars. unfold cost, second.
  replace (chars * 1000000000) with (chars * 10000000 * 100) by lia.
  rewrite Z.quot_mul by lia. reflexivity.
Qed.

Lemma cost_ge_second : forall chars, 0 <= chars -> second <= cost chars.
Proof. intros chars H. rewrite cost_linear. unfold second. lia. Qed.

Lemma cost_pos : forall chars, 0 <= chars -> 0 < cost chars.
Proof. intros chars H. pose proof (cost_ge_second chars H). unfold second in *. lia. Qed.

(* ---- one call --------------------------------------------------------------------- *)

Lemma rate_spec : forall s now chars,
  let '(s', d) := rate s now chars in
  wd s' = Z.max 0 (wd s + cost chars - (now - last s)) /\
  last s' = last s /\
  d = (if threshold <? wd s' then cost chars else 0).
Proof.
  intros s now chars. unfold rate. cbn [wd last].
  destruct (wd s + (cost chars - (now - last s)) <? 0) eqn:E; repeat split; lia.
Qed.

(* C16_delay_is_cost: the delay is 0 or exactly the cost; it is the cost exactly when the
   accumulated delay (after this event was added and the elapsed time forgiven) exceeds
   8 s; the accumulator never goes negative. *)
Lemma delay_is_cost : forall s now chars,
  let '(s', d) := rate s now chars in
  (d = 0 \/ d = cost chars) /\
  (threshold < wd s' -> d = cost chars) /\
  (wd s' <= threshold -> d = 0) /\
  0 <= wd s' /\
  wd s' = Z.max 0 (wd s + cost chars - (now - last s)) /\
  last s' = last s.
Proof.
  intros s now chars. pose proof (rate_spec s now chars) as H.
  destruct (rate s now chars) as [s' d]. destruct H as (Hw & Hl & Hd).
  destruct (threshold <? wd s') eqn:E; repeat split; try lia; auto.
Qed.

(* both outcomes occur *)
Example delay_is_cost_sat :
  snd (rate (mkR 0 0) 0 30) = 0 /\
  snd (rate (mkR (7 * second) 0) 0 30) = cost 30 /\ cost 30 = 1300000000.
Proof. vm_compute. auto. Qed.

(* ---- call sequences --------------------------------------------------------------- *)

Definition sum_cost (cs : list (Z * Z)) : Z := fold_right (fun c a => cost (snd c) + a) 0 cs.
Definition sum_el (cs : list (Z * Z)) : Z := fold_right (fun c a => fst c + a) 0 cs.

Lemma rate_el_spec : forall w c,
  fst (rate_el w c) = Z.max 0 (w + cost (snd c) - fst c) /\
  snd (rate_el w c) = (if threshold <? fst (rate_el w c) then cost (snd c) else 0).
Proof.
  intros w [e ch]. unfold rate_el. cbn [fst snd].
  pose proof (rate_spec (mkR w 0) e ch) as H.
  destruct (rate (mkR w 0) e ch) as [s d]. cbn [fst snd wd last] in *. lia.
Qed.

Lemma run_cons : forall w c cs,
  run w (c :: cs) = (fst (run (fst (rate_el w c)) cs), snd (rate_el w c) :: snd (run (fst (rate_el w c)) cs)).
Proof.
  intros w c cs. cbn [run]. destruct (rate_el w c) as [w1 d]. cbn [fst snd].
  destruct (run w1 cs) as [w2 ds]. reflexivity.
Qed.

Lemma run_length : forall cs w, length (snd (run w cs)) = length cs.
Proof.
  induction cs as [|c cs IH]; intros w; [reflexivity|].
  rewrite run_cons. cbn [snd length]. now rewrite IH.
Qed.

Lemma run_nonneg : forall cs w, 0 <= w -> 0 <= fst (run w cs).
Proof.
  induction cs as [|c cs IH]; intros w Hw; [exact Hw|].
  rewrite run_cons. cbn [fst]. apply IH. pose proof (rate_el_spec w c). lia.
Qed.

(* the accumulator is at least everything charged minus everything forgiven *)
Lemma run_lower : forall cs w, 0 <= w -> w + sum_cost cs - sum_el cs <= fst (run w cs).
Proof.
  induction cs as [|c cs IH]; intros w Hw.
  - cbn. lia.
  - rewrite run_cons. cbn [fst sum_cost sum_el fold_right].
    pose proof (rate_el_spec w c) as [H1 _].
    specialize (IH (fst (rate_el w c)) ltac:(lia)).
    unfold sum_cost, sum_el in IH. lia.
Qed.

Lemma run_app : forall cs1 cs2 w,
  run w (cs1 ++ cs2) =
  (fst (run (fst (run w cs1)) cs2), snd (run w cs1) ++ snd (run (fst (run w cs1)) cs2)).
Proof.
  induction cs1 as [|c cs1 IH]; intros cs2 w.
  - cbn. now destruct (run w cs2).
  - cbn [app]. rewrite !run_cons. rewrite IH. cbn [fst snd]. reflexivity.
Qed.

Lemma sum_cost_app : forall a b, sum_cost (a ++ b) = sum_cost a + sum_cost b.
Proof.
  induction a as [|c a IH]; intros b; [reflexivity|].
  cbn [app]. unfold sum_cost in *. cbn [fold_right]. rewrite IH. lia.
Qed.
Lemma sum_el_app : forall a b, sum_el (a ++ b) = sum_el a + sum_el b.
Proof.
  induction a as [|c a IH]; intros b; [reflexivity|].
  cbn [app]. unfold sum_el in *. cbn [fold_right]. rewrite IH. lia.
Qed.

(* C16_bucket: for ANY call sequence and ANY clock readings (elapsed_i is whatever
   time.Since(lastWrite) returned to call i), whenever the call after `cs` is not held,
   everything charged so far fits in 8 s plus everything forgiven so far. *)
Lemma bucket : forall w cs e ch,
  0 <= w -> 0 <= ch ->
  nth (length cs) (snd (run w (cs ++ [(e, ch)]))) 1 = 0 ->
  w + sum_cost (cs ++ [(e, ch)]) <= threshold + sum_el (cs ++ [(e, ch)]).
Proof.
  intros w cs e ch Hw Hch Hn.
  rewrite run_app in Hn. cbn [snd] in Hn.
  rewrite app_nth2 in Hn by (rewrite run_length; lia).
  rewrite run_length, Nat.sub_diag in Hn.
  rewrite run_cons in Hn. cbn [snd nth] in Hn.
  pose proof (run_lower cs w Hw) as L.
  pose proof (rate_el_spec (fst (run w cs)) (e, ch)) as [H1 H2]. cbn [fst snd] in H1, H2.
  assert (Hc : 0 < cost ch) by (apply cost_pos; exact Hch).
  rewrite sum_cost_app, sum_el_app. cbn [sum_cost sum_el fold_right fst snd].
  destruct (threshold <? fst (rate_el (fst (run w cs)) (e, ch))) eqn:T; lia.
Qed.

Lemma sum_cost_ge : forall cs, Forall (fun c => 0 <= snd c) cs ->
  Z.of_nat (length cs) * second <= sum_cost cs.
Proof.
  induction cs as [|c cs IH]; intros H.
  - cbn. lia.
  - inversion H as [|? ? Hc Hcs]; subst. specialize (IH Hcs).
    cbn [sum_cost fold_right length]. unfold sum_cost in IH.
    pose proof (cost_ge_second (snd c) Hc). lia.
Qed.

(* ... hence at most 8 + T/1s events in credited time T when the last one is not held *)
Lemma bucket_count : forall w cs e ch,
  0 <= w -> Forall (fun c => 0 <= snd c) (cs ++ [(e, ch)]) ->
  nth (length cs) (snd (run w (cs ++ [(e, ch)]))) 1 = 0 ->
  Z.of_nat (length (cs ++ [(e, ch)])) * second <= threshold + sum_el (cs ++ [(e, ch)]).
Proof.
  intros w cs e ch Hw HF Hn.
  assert (Hch : 0 <= ch).
  { apply Forall_app in HF. destruct HF as [_ HF]. inversion HF; subst. assumption. }
  pose proof (bucket w cs e ch Hw Hch Hn). pose proof (sum_cost_ge _ HF). lia.
Qed.

(* ... and at most 8 in a burst (nothing forgiven) *)
Lemma bucket_burst : forall w cs ch,
  0 <= w -> Forall (fun c => 0 <= snd c /\ fst c = 0) (cs ++ [(0, ch)]) ->
  nth (length cs) (snd (run w (cs ++ [(0, ch)]))) 1 = 0 ->
  (length (cs ++ [(0%Z, ch)]) <= 8)%nat.
Proof.
  intros w cs ch Hw HF Hn.
  assert (HF1 : Forall (fun c => 0 <= snd c) (cs ++ [(0, ch)])).
  { eapply Forall_impl; [|exact HF]. cbn. intros a [H _]. exact H. }
  pose proof (bucket_count w cs 0 ch Hw HF1 Hn) as B.
  assert (HE : sum_el (cs ++ [(0, ch)]) = 0).
  { clear - HF. induction (cs ++ [(0, ch)]) as [|c l IH]; [reflexivity|].
    inversion HF as [|? ? [_ Hc] Hl]; subst. cbn [sum_el fold_right]. unfold sum_el in IH. rewrite IH by assumption. lia. }
  rewrite HE in B. unfold threshold, second in B. lia.
Qed.

(* the hypotheses are satisfiable, and the bound 8 is reached: eight events of cost
   exactly 1 s pass unheld back to back *)
Example bucket_sat :
  snd (run 0 (repeat (0, 0) 8)) = repeat 0 8 /\
  nth 8 (snd (run 0 (repeat (0, 0) 9))) 1 = second.
Proof. vm_compute. auto. Qed.
