(* Proofs for C16 (flood limiter): arithmetic of ircConn.rate, the bucket inequality over
   arbitrary call sequences and clock readings, the wall-clock corollary for one sender,
   bypass of the limiter, FIFO order, and the refutation of the hold clause when
   lastWrite is stale (sendLoop has not stamped the previous events yet). *)
From Coq Require Import Lia ZifyBool.
Require Import Bytes Rate.
Open Scope Z_scope.

(* ---- cost ------------------------------------------------------------------------- *)

Lemma cost_linear : forall chars, cost chars = second + chars * 10000000.
Proof.
  intros chars. unfold cost, second.
  replace (chars * 1000000000) with (chars * 10000000 * 100) by lia.
  rewrite Z.quot_mul by lia. reflexivity.
Qed.

Lemma cost_ge_second : forall chars, 0 <= chars -> second <= cost chars.
Proof. intros chars H. rewrite cost_linear. unfold second. lia. Qed.

Lemma cost_pos : forall chars, 0 <= chars -> 0 < cost chars.
Proof. intros chars H. pose proof (cost_ge_second chars H). unfold second in *. lia. Qed.

(* ---- one call --------------------------------------------------------------------- *)

Lemma rate_core_spec : forall w el chars,
  fst (rate_core w el chars) = Z.max 0 (w + cost chars - el) /\
  snd (rate_core w el chars) = (if threshold <? fst (rate_core w el chars) then cost chars else 0).
Proof.
  intros w el chars. unfold rate_core. cbn [fst snd].
  destruct (w + (cost chars - el) <? 0) eqn:E; split; try reflexivity; lia.
Qed.

Lemma rate_spec : forall s now chars,
  let '(s', d) := rate s now chars in
  wd s' = Z.max 0 (wd s + cost chars - (now - Z.max (last s) (lastr s))) /\
  last s' = last s /\ lastr s' = now /\
  d = (if threshold <? wd s' then cost chars else 0).
Proof.
  intros s now chars. unfold rate.
  set (since := if last s <? lastr s then lastr s else last s).
  assert (Hs : since = Z.max (last s) (lastr s)) by (subst since; destruct (last s <? lastr s) eqn:E; lia).
  pose proof (rate_core_spec (wd s) (now - since) chars) as [H1 H2].
  destruct (rate_core (wd s) (now - since) chars) as [w' d]. cbn [fst snd wd last lastr] in *.
  rewrite <- Hs. repeat split; assumption.
Qed.

(* C16_delay_is_cost: the delay is 0 or exactly the cost; it is the cost exactly when the
   accumulated delay (after this event was added and the elapsed time forgiven) exceeds
   8 s; the accumulator never goes negative. *)
Lemma delay_is_cost : forall s now chars,
  let '(s', d) := rate s now chars in
  (d = 0 \/ d = cost chars) /\
  (threshold < wd s' -> d = cost chars) /\
  (wd s' <= threshold -> d = 0) /\
  0 <= wd s' /\
  wd s' = Z.max 0 (wd s + cost chars - (now - Z.max (last s) (lastr s))) /\
  last s' = last s /\ lastr s' = now.
Proof.
  intros s now chars. pose proof (rate_spec s now chars) as H.
  destruct (rate s now chars) as [s' d]. destruct H as (Hw & Hl & Hr & Hd).
  destruct (threshold <? wd s') eqn:E; repeat split; try lia; auto.
Qed.

(* both outcomes occur *)
Example delay_is_cost_sat :
  snd (rate (mkR 0 0 0) 0 30) = 0 /\
  snd (rate (mkR (7 * second) 0 0) 0 30) = cost 30 /\ cost 30 = 1300000000.
Proof. vm_compute. auto. Qed.

(* ---- call sequences --------------------------------------------------------------- *)

Definition sum_cost (cs : list (Z * Z)) : Z := fold_right (fun c a => cost (snd c) + a) 0 cs.
Definition sum_el (cs : list (Z * Z)) : Z := fold_right (fun c a => fst c + a) 0 cs.

Lemma rate_el_spec : forall w c,
  fst (rate_el w c) = Z.max 0 (w + cost (snd c) - fst c) /\
  snd (rate_el w c) = (if threshold <? fst (rate_el w c) then cost (snd c) else 0).
Proof.
  intros w [e ch]. unfold rate_el. cbn [fst snd]. apply rate_core_spec.
Qed.

Lemma run_cons : forall w c cs,
  run w (c :: cs) = (fst (run (fst (rate_el w c)) cs), snd (rate_el w c) :: snd (run (fst (rate_el w c)) cs)).
Proof.
  intros w c cs. cbn [run]. destruct (rate_el w c) as [w1 d]. cbn [fst snd].
  destruct (run w1 cs) as [w2 ds]. reflexivity.
Qed.

Lemma run_length : forall cs w, length (snd (run w cs)) = length cs.
Proof.
  induction cs as [|c cs IH]; intros w; [reflexivity|].
  rewrite run_cons. cbn [snd length]. now rewrite IH.
Qed.

Lemma run_nonneg : forall cs w, 0 <= w -> 0 <= fst (run w cs).
Proof.
  induction cs as [|c cs IH]; intros w Hw; [exact Hw|].
  rewrite run_cons. cbn [fst]. apply IH. pose proof (rate_el_spec w c). lia.
Qed.

(* the accumulator is at least everything charged minus everything forgiven *)
Lemma run_lower : forall cs w, 0 <= w -> w + sum_cost cs - sum_el cs <= fst (run w cs).
Proof.
  induction cs as [|c cs IH]; intros w Hw.
  - cbn. lia.
  - rewrite run_cons. cbn [fst sum_cost sum_el fold_right].
    pose proof (rate_el_spec w c) as [H1 _].
    specialize (IH (fst (rate_el w c)) ltac:(lia)).
    unfold sum_cost, sum_el in IH. lia.
Qed.

Lemma run_app : forall cs1 cs2 w,
  run w (cs1 ++ cs2) =
  (fst (run (fst (run w cs1)) cs2), snd (run w cs1) ++ snd (run (fst (run w cs1)) cs2)).
Proof.
  induction cs1 as [|c cs1 IH]; intros cs2 w.
  - cbn. now destruct (run w cs2).
  - cbn [app]. rewrite !run_cons. rewrite IH. cbn [fst snd]. reflexivity.
Qed.

Lemma sum_cost_app : forall a b, sum_cost (a ++ b) = sum_cost a + sum_cost b.
Proof.
  induction a as [|c a IH]; intros b; [reflexivity|].
  cbn [app]. unfold sum_cost in *. cbn [fold_right]. rewrite IH. lia.
Qed.
Lemma sum_el_app : forall a b, sum_el (a ++ b) = sum_el a + sum_el b.
Proof.
  induction a as [|c a IH]; intros b; [reflexivity|].
  cbn [app]. unfold sum_el in *. cbn [fold_right]. rewrite IH. lia.
Qed.

(* C16_bucket: for ANY call sequence and ANY clock readings (elapsed_i is whatever
   time.Since(lastWrite) returned to call i), whenever the call after `cs` is not held,
   everything charged so far fits in 8 s plus everything forgiven so far. *)
Lemma bucket : forall w cs e ch,
  0 <= w -> 0 <= ch ->
  nth (length cs) (snd (run w (cs ++ [(e, ch)]))) 1 = 0 ->
  w + sum_cost (cs ++ [(e, ch)]) <= threshold + sum_el (cs ++ [(e, ch)]).
Proof.
  intros w cs e ch Hw Hch Hn.
  rewrite run_app in Hn. cbn [snd] in Hn.
  rewrite app_nth2 in Hn by (rewrite run_length; lia).
  rewrite run_length, Nat.sub_diag in Hn.
  rewrite run_cons in Hn. cbn [snd nth] in Hn.
  pose proof (run_lower cs w Hw) as L.
  pose proof (rate_el_spec (fst (run w cs)) (e, ch)) as [H1 H2]. cbn [fst snd] in H1, H2.
  assert (Hc : 0 < cost ch) by (apply cost_pos; exact Hch).
  rewrite sum_cost_app, sum_el_app. cbn [sum_cost sum_el fold_right fst snd].
  destruct (threshold <? fst (rate_el (fst (run w cs)) (e, ch))) eqn:T; lia.
Qed.

Lemma sum_cost_ge : forall cs, Forall (fun c => 0 <= snd c) cs ->
  Z.of_nat (length cs) * second <= sum_cost cs.
Proof.
  induction cs as [|c cs IH]; intros H.
  - cbn. lia.
  - inversion H as [|? ? Hc Hcs]; subst. specialize (IH Hcs).
    cbn [sum_cost fold_right length]. unfold sum_cost in IH.
    pose proof (cost_ge_second (snd c) Hc). lia.
Qed.

(* ... hence at most 8 + T/1s events in credited time T when the last one is not held *)
Lemma bucket_count : forall w cs e ch,
  0 <= w -> Forall (fun c => 0 <= snd c) (cs ++ [(e, ch)]) ->
  nth (length cs) (snd (run w (cs ++ [(e, ch)]))) 1 = 0 ->
  Z.of_nat (length (cs ++ [(e, ch)])) * second <= threshold + sum_el (cs ++ [(e, ch)]).
Proof.
  intros w cs e ch Hw HF Hn.
  assert (Hch : 0 <= ch).
  { apply Forall_app in HF. destruct HF as [_ HF]. inversion HF; subst. assumption. }
  pose proof (bucket w cs e ch Hw Hch Hn). pose proof (sum_cost_ge _ HF). lia.
Qed.

(* ... and at most 8 in a burst (nothing forgiven) *)
Lemma bucket_burst : forall w cs ch,
  0 <= w -> Forall (fun c => 0 <= snd c /\ fst c = 0) (cs ++ [(0, ch)]) ->
  nth (length cs) (snd (run w (cs ++ [(0, ch)]))) 1 = 0 ->
  (length (cs ++ [(0%Z, ch)]) <= 8)%nat.
Proof.
  intros w cs ch Hw HF Hn.
  assert (HF1 : Forall (fun c => 0 <= snd c) (cs ++ [(0, ch)])).
  { eapply Forall_impl; [|exact HF]. cbn. intros a [H _]. exact H. }
  pose proof (bucket_count w cs 0 ch Hw HF1 Hn) as B.
  assert (HE : sum_el (cs ++ [(0, ch)]) = 0).
  { clear - HF. induction (cs ++ [(0, ch)]) as [|c l IH]; [reflexivity|].
    inversion HF as [|? ? [_ Hc] Hl]; subst. cbn [sum_el fold_right]. unfold sum_el in IH. rewrite IH by assumption. lia. }
  rewrite HE in B. unfold threshold, second in B. lia.
Qed.

(* the hypotheses are satisfiable, and the bound 8 is reached: eight events of cost
   exactly 1 s pass unheld back to back *)
Example bucket_sat :
  snd (run 0 (repeat (0, 0) 8)) = repeat 0 8 /\
  nth 8 (snd (run 0 (repeat (0, 0) 9))) 1 = second.
Proof. vm_compute. auto. Qed.

(* ---- one sender, every event stamped before the next Send (run_sync) ---------------- *)

Definition step_ok (x : Z * Z * Z) : Prop :=
  let '(gap, chars, slack) := x in 0 <= gap /\ 0 <= chars /\ 0 <= slack.
Definition sum_cost3 (l : list (Z * Z * Z)) : Z :=
  fold_right (fun x a => cost (snd (fst x)) + a) 0 l.
Definition sum_gap3 (l : list (Z * Z * Z)) : Z :=
  fold_right (fun x a => fst (fst x) + a) 0 l.

Lemma run_sync_cons : forall s gap chars slack rest,
  run_sync s ((gap, chars, slack) :: rest) =
  let now := last s + gap in
  let r := rate s now chars in
  let w := now + snd r + slack in
  (fst (run_sync (mkR (wd (fst r)) w (lastr (fst r))) rest),
   (now, snd r, w) :: snd (run_sync (mkR (wd (fst r)) w (lastr (fst r))) rest)).
Proof.
  intros s gap chars slack rest. cbn [run_sync].
  destruct (rate s (last s + gap) chars) as [s1 d]. cbn [fst snd].
  destruct (run_sync (mkR (wd s1) (last s + gap + d + slack) (lastr s1)) rest) as [s2 out]. reflexivity.
Qed.

Lemma run_sync_app : forall a b s,
  run_sync s (a ++ b) =
  (fst (run_sync (fst (run_sync s a)) b), snd (run_sync s a) ++ snd (run_sync (fst (run_sync s a)) b)).
Proof.
  induction a as [|[[gap chars] slack] a IH]; intros b s.
  - cbn. now destruct (run_sync s b).
  - cbn [app]. rewrite !run_sync_cons. cbv zeta. rewrite IH. cbn [fst snd]. reflexivity.
Qed.

Lemma sum_cost3_app : forall a b, sum_cost3 (a ++ b) = sum_cost3 a + sum_cost3 b.
Proof.
  induction a as [|x a IH]; intros b; [reflexivity|].
  cbn [app]. unfold sum_cost3 in *. cbn [fold_right]. rewrite IH. lia.
Qed.

Lemma sum_cost3_ge : forall l, Forall step_ok l -> Z.of_nat (length l) * second <= sum_cost3 l.
Proof.
  induction l as [|[[gap chars] slack] l IH]; intros H.
  - cbn. lia.
  - inversion H as [|? ? Hx Hl]; subst. specialize (IH Hl). destruct Hx as (_ & Hc & _).
    unfold sum_cost3 in *. cbn [fold_right length fst snd].
    pose proof (cost_ge_second chars Hc). lia.
Qed.

(* the sender's own previous rate call never lies after the stamp of its previous event *)
Definition sync_state (s : rstate) : Prop := 0 <= wd s /\ lastr s <= last s.

(* one step of the synchronous run, with everything the later lemmas need *)
Lemma sync_step : forall s gap chars slack,
  sync_state s -> step_ok (gap, chars, slack) ->
  let now := last s + gap in
  let r := rate s now chars in
  let s1 := mkR (wd (fst r)) (now + snd r + slack) (lastr (fst r)) in
  sync_state s1 /\
  wd s1 = Z.max 0 (wd s + cost chars - gap) /\
  (snd r = 0 \/ snd r = cost chars) /\
  (threshold < wd s1 -> snd r = cost chars) /\
  (wd s1 <= threshold -> snd r = 0) /\
  0 < cost chars.
Proof.
  intros s gap chars slack [Hw Hl] (Hg & Hc & Hs) now r s1.
  pose proof (delay_is_cost s now chars) as D. subst r s1.
  destruct (rate s now chars) as [s' d]. cbn [fst snd wd last lastr].
  destruct D as (D1 & D2 & D3 & D4 & D5 & D6 & D7).
  pose proof (cost_pos chars Hc) as Hcp. subst now.
  unfold sync_state. cbn [wd last lastr].
  repeat split; auto; try lia.
Qed.

(* the budget: charged minus real time elapsed never exceeds the allowance *)
Lemma sync_budget : forall steps s,
  sync_state s -> Forall step_ok steps ->
  wd s + sum_cost3 steps - (last (fst (run_sync s steps)) - last s) <= Z.max threshold (wd s).
Proof.
  induction steps as [|[[gap chars] slack] rest IH]; intros s Hs HF.
  - cbn. destruct Hs. lia.
  - inversion HF as [|? ? Hx Hr]; subst.
    rewrite run_sync_cons. cbv zeta. cbn [fst].
    pose proof (sync_step s gap chars slack Hs Hx) as S. cbv zeta in S.
    destruct S as (S1 & S2 & S3 & S4 & S5 & S6).
    specialize (IH _ S1 Hr). cbn [wd last] in IH, S2, S4, S5.
    destruct Hx as (Hg & Hc & Hk). destruct Hs as [Hw Hl].
    unfold sum_cost3 in *. cbn [fold_right fst snd].
    set (d := snd (rate s (last s + gap) chars)) in *.
    set (w1 := wd (fst (rate s (last s + gap) chars))) in *.
    destruct (Z_lt_le_dec threshold w1) as [Hgt|Hle].
    + specialize (S4 Hgt). lia.
    + specialize (S5 Hle). lia.
Qed.

(* accumulator from below: everything charged minus the gaps (the only time forgiven) *)
Lemma sync_lower : forall steps s,
  sync_state s -> Forall step_ok steps ->
  sync_state (fst (run_sync s steps)) /\
  wd s + sum_cost3 steps - sum_gap3 steps <= wd (fst (run_sync s steps)) /\
  sum_gap3 steps <= last (fst (run_sync s steps)) - last s.
Proof.
  induction steps as [|[[gap chars] slack] rest IH]; intros s Hs HF.
  - cbn. split; [exact Hs|lia].
  - inversion HF as [|? ? Hx Hr]; subst.
    rewrite run_sync_cons. cbv zeta. cbn [fst].
    pose proof (sync_step s gap chars slack Hs Hx) as S. cbv zeta in S.
    destruct S as (S1 & S2 & S3 & S4 & S5 & S6).
    specialize (IH _ S1 Hr). cbn [wd last] in IH, S2.
    destruct Hx as (Hg & Hc & Hk). destruct IH as (I1 & I2 & I3).
    split; [exact I1|].
    unfold sum_cost3, sum_gap3 in *. cbn [fold_right fst snd].
    set (d := snd (rate s (last s + gap) chars)) in *. lia.
Qed.

(* C16_wallclock, first half: for one sender whose events are each stamped before the next
   Send, after ANY number of events the total cost written fits in the 8 s allowance plus
   the real time elapsed; with cost >= 1 s: at most 8 + t/1s lines by time t. *)
Lemma wallclock_sync : forall steps s,
  sync_state s -> wd s <= threshold -> Forall step_ok steps ->
  let t := last (fst (run_sync s steps)) - last s in
  wd s + sum_cost3 steps <= threshold + t /\
  Z.of_nat (length steps) * second <= threshold + t.
Proof.
  intros steps s Hs Hw HF t.
  pose proof (sync_budget steps s Hs HF) as B.
  pose proof (sum_cost3_ge steps HF) as G. destruct Hs. subst t. lia.
Qed.

(* the same for every prefix: the events stamped by any instant are a prefix of the run *)
Lemma wallclock_sync_prefix : forall a b s,
  sync_state s -> wd s <= threshold -> Forall step_ok (a ++ b) ->
  snd (run_sync s a) = firstn (length a) (snd (run_sync s (a ++ b))) /\
  Z.of_nat (length a) * second <= threshold + (last (fst (run_sync s a)) - last s).
Proof.
  intros a b s Hs Hw HF. apply Forall_app in HF. destruct HF as [Ha Hb]. split.
  - rewrite run_sync_app. cbn [snd].
    assert (L : length (snd (run_sync s a)) = length a).
    { clear. revert s. induction a as [|[[g c] k] a IH]; intros s; [reflexivity|].
      rewrite run_sync_cons. cbv zeta. cbn [snd length]. now rewrite IH. }
    rewrite <- L. rewrite firstn_app, Nat.sub_diag, firstn_all. cbn [firstn]. now rewrite app_nil_r.
  - apply (wallclock_sync a s Hs Hw Ha).
Qed.

(* C16_wallclock, second half (the hold clause for this sender): an event sent when
   everything charged exceeds the allowance plus ALL the real time elapsed since the start
   is held for exactly its cost, and stamped no earlier than that after its Send. *)
Lemma hold_sync : forall a s gap chars slack,
  sync_state s -> Forall step_ok (a ++ [(gap, chars, slack)]) ->
  let s1 := fst (run_sync s a) in
  let now := last s1 + gap in
  threshold + (now - last s) < wd s + sum_cost3 (a ++ [(gap, chars, slack)]) ->
  snd (run_sync s (a ++ [(gap, chars, slack)])) =
  snd (run_sync s a) ++ [(now, cost chars, now + cost chars + slack)].
Proof.
  intros a s gap chars slack Hs HF s1 now Hx.
  apply Forall_app in HF. destruct HF as [Ha Hx1]. inversion Hx1 as [|? ? Hok _]; subst.
  rewrite run_sync_app. cbn [snd]. f_equal. fold s1.
  rewrite run_sync_cons. cbv zeta. cbn [snd run_sync]. fold now.
  pose proof (sync_lower a s Hs Ha) as (L0 & L1 & L2). fold s1 in L0, L1, L2.
  pose proof (sync_step s1 gap chars slack L0 Hok) as S. cbv zeta in S. fold now in S.
  destruct S as (S1 & S2 & S3 & S4 & S5 & S6). cbn [wd] in S2, S4.
  rewrite sum_cost3_app in Hx. unfold sum_cost3 at 2 in Hx. cbn [fold_right fst snd] in Hx.
  destruct Hok as (Hg & Hc & Hk).
  assert (Hd : snd (rate s1 now chars) = cost chars) by (apply S4; subst now; lia).
  now rewrite Hd.
Qed.

(* satisfiable: a burst of twelve 30-byte events from a fresh, idle connection: seven pass,
   the rest are held 1.3 s each *)
Example sync_sat :
  map (fun x => snd (fst x)) (snd (run_sync (mkR 0 0 0) ((cost 30, 30, 0) :: repeat (0, 30, 0) 11))) =
  repeat 0 7 ++ repeat (cost 30) 5.
Proof. vm_compute. reflexivity. Qed.

(* ---- the machine: bypass, order, stale lastWrite ------------------------------------- *)

Lemma exec_cons : forall s a rest,
  exec s (a :: rest) =
  (fst (exec (fst (step s a)) rest),
   match snd (step s a) with Some d => d :: snd (exec (fst (step s a)) rest) | None => snd (exec (fst (step s a)) rest) end).
Proof.
  intros s a rest. cbn [exec]. destruct (step s a) as [s1 o]. cbn [fst snd].
  destruct (exec s1 rest) as [s2 ds]. reflexivity.
Qed.

Lemma exec_app : forall a b s,
  exec s (a ++ b) = (fst (exec (fst (exec s a)) b), snd (exec s a) ++ snd (exec (fst (exec s a)) b)).
Proof.
  induction a as [|x a IH]; intros b s.
  - cbn. now destruct (exec s b).
  - cbn [app]. rewrite !exec_cons. rewrite IH. cbn [fst snd].
    destruct (snd (step s x)); reflexivity.
Qed.

Definition is_rate (a : action) : bool := match a with ARate _ _ => true | _ => false end.

(* C16_bypass, general form: a schedule fragment without a rate call returns no delay to
   anybody and leaves the accumulated delay alone *)
Lemma no_rate_no_delay : forall acts s,
  forallb (fun a => negb (is_rate a)) acts = true ->
  snd (exec s acts) = [] /\ wd (rs (fst (exec s acts))) = wd (rs s) /\
  lastr (rs (fst (exec s acts))) = lastr (rs s).
Proof.
  induction acts as [|a acts IH]; intros s H.
  - cbn. auto.
  - cbn [forallb] in H. apply andb_true_iff in H. destruct H as [Ha Hr].
    rewrite exec_cons. cbn [fst snd].
    destruct a as [now e|e|now]; cbn in Ha; try discriminate.
    + cbn [step fst snd]. specialize (IH (mkS (rs s) (tx s ++ [e]) (wire s)) Hr). cbn [rs] in IH. exact IH.
    + cbn [step]. destruct (tx s) as [|e q].
      * cbn [fst snd]. apply IH. exact Hr.
      * cbn [fst snd]. specialize (IH (mkS (mkR (wd (rs s)) now (lastr (rs s))) q ((now, e) :: wire s)) Hr).
        cbn [rs wd lastr] in IH. exact IH.
Qed.

(* AllowFlood, Cmd.Ping, Cmd.Pong: the entry points contribute no rate call *)
Lemma bypass_entry_points : forall now e,
  forallb (fun a => negb (is_rate a)) (send_piece true now e) = true /\
  forallb (fun a => negb (is_rate a)) (ping_actions e) = true /\
  forallb (fun a => negb (is_rate a)) (pong_actions e) = true /\
  send_piece true now e = [AEnq e] /\ ping_actions e = [AEnq e] /\ pong_actions e = [AEnq e] /\
  existsb is_rate (send_piece false now e) = true.
Proof. intros now e. cbn. repeat split. Qed.

Fixpoint pieces_events (g id : N) (pieces : list Z) : list event :=
  match pieces with [] => [] | l :: r => mkE g id l :: pieces_events g (N.succ id) r end.

Lemma wire_events_cons : forall r q now e w,
  wire_events (mkS r q ((now, e) :: w)) = wire_events (mkS r q w) ++ [e].
Proof. intros. unfold wire_events. cbn [wire map snd rev]. reflexivity. Qed.

(* with AllowFlood a whole Send returns at the instant it was entered, whatever the
   accumulated delay and however many pieces; all pieces are on the wire in order *)
Lemma send_flood_allow : forall pieces s t g id,
  tx s = [] ->
  snd (send_flood true s t g id pieces) = t /\
  wd (rs (fst (send_flood true s t g id pieces))) = wd (rs s) /\
  tx (fst (send_flood true s t g id pieces)) = [] /\
  wire_events (fst (send_flood true s t g id pieces)) = wire_events s ++ pieces_events g id pieces.
Proof.
  induction pieces as [|len rest IH]; intros s t g id Htx.
  - cbn. rewrite app_nil_r. auto.
  - cbn [send_flood step]. rewrite Htx. cbn [app tx rs wire wd]. rewrite Z.add_0_r.
    specialize (IH (mkS (mkR (wd (rs s)) t (lastr (rs s))) [] ((t, mkE g id len) :: wire s)) t g (N.succ id) eq_refl).
    destruct IH as (I2 & I3 & I4 & I5). cbn [rs wd] in I3.
    repeat split; auto.
    rewrite I5. rewrite wire_events_cons. cbn [pieces_events]. rewrite <- app_assoc. cbn [app].
    unfold wire_events. cbn [wire]. reflexivity.
Qed.

(* the same Send with flood protection on, from an exhausted allowance: held *)
Example send_flood_on_sat :
  snd (send_flood false (sys0 (mkR (9 * second) 0 0)) 0 0 0 [30; 30]) = 2 * cost 30 /\
  snd (send_flood true (sys0 (mkR (9 * second) 0 0)) 0 0 0 [30; 30]) = 0.
Proof. vm_compute. auto. Qed.

(* C16_order: the queue is FIFO.  Whatever the schedule, the events written followed by the
   events still queued are the events enqueued, in the order of their enqueue actions. *)
Definition enq_of (acts : list action) : list event :=
  flat_map (fun a => match a with AEnq e => [e] | _ => [] end) acts.

Lemma fifo : forall acts s,
  wire_events (fst (exec s acts)) ++ tx (fst (exec s acts)) = wire_events s ++ tx s ++ enq_of acts.
Proof.
  induction acts as [|a acts IH]; intros s.
  - cbn. now rewrite app_nil_r.
  - rewrite exec_cons. cbn [fst]. rewrite IH. clear IH.
    destruct a as [now e|e|now]; cbn [step enq_of flat_map].
    + destruct (rate (rs s) now (ev_len e)) as [r d]. cbn [fst tx]. unfold wire_events. cbn [wire app]. reflexivity.
    + cbn [fst tx]. unfold wire_events. cbn [wire]. now rewrite <- !app_assoc.
    + destruct (tx s) as [|e q] eqn:E.
      * cbn [fst app]. rewrite E. reflexivity.
      * cbn [fst tx app]. rewrite wire_events_cons. unfold wire_events. cbn [wire]. now rewrite <- !app_assoc.
Qed.

Lemma events_of_app : forall g a b, events_of g (a ++ b) = events_of g a ++ events_of g b.
Proof. intros. unfold events_of. apply filter_app. Qed.

(* per sender: its events on the wire, then its events still queued, are its enqueues in
   order; once the queue has drained its wire order is its call order *)
Lemma order_per_sender : forall g acts s,
  events_of g (wire_events (fst (exec s acts))) ++ events_of g (tx (fst (exec s acts))) =
  events_of g (wire_events s) ++ events_of g (tx s) ++ events_of g (enq_of acts).
Proof.
  intros g acts s. rewrite <- !events_of_app. now rewrite fifo.
Qed.

Lemma order_drained : forall g acts r,
  tx (fst (exec (sys0 r) acts)) = [] ->
  events_of g (wire_events (fst (exec (sys0 r) acts))) = events_of g (enq_of acts).
Proof.
  intros g acts r H. pose proof (order_per_sender g acts (sys0 r)) as O.
  rewrite H in O. cbn in O. now rewrite app_nil_r in O.
Qed.

Example order_sat :
  let a := mkE 0 0 30 in let b := mkE 1 0 40 in let c := mkE 0 1 50 in
  let acts := [ARate 0 a; ARate 0 b; AEnq b; AEnq a; ADeliver 1; ARate 1 c; ADeliver 2; AEnq c; ADeliver 3] in
  tx (fst (exec (sys0 (mkR 0 0 0)) acts)) = [] /\
  events_of 0 (wire_events (fst (exec (sys0 (mkR 0 0 0)) acts))) = [a; c].
Proof. vm_compute. auto. Qed.


(* ---- the hold clause, for every schedule -------------------------------------------- *)
(* Any number of senders, any interleaving of rate calls, enqueues and sendLoop deliveries,
   any staleness of lastWrite: the only assumption on a schedule is that its clock
   readings do not run backwards. *)
Definition act_time (a : action) : option Z :=
  match a with ARate t _ => Some t | ADeliver t => Some t | AEnq _ => None end.

(* clock readings in schedule order never decrease, starting from t *)
Fixpoint monotone (t : Z) (acts : list action) : Prop :=
  match acts with
  | [] => True
  | a :: rest => match act_time a with
                 | Some u => t <= u /\ monotone u rest
                 | None => monotone t rest
                 end
  end.

Definition charged (acts : list action) : Z :=
  fold_right (fun a acc => match a with ARate _ x => cost (ev_len x) + acc | _ => acc end) 0 acts.

Definition lens_ok (acts : list action) : Prop :=
  Forall (fun a => match a with ARate _ x => 0 <= ev_len x | _ => True end) acts.

Lemma charged_app : forall a b, charged (a ++ b) = charged a + charged b.
Proof.
  induction a as [|x a IH]; intros b; [reflexivity|].
  cbn [app charged fold_right]. fold (charged (a ++ b)) (charged a). rewrite IH. destruct x; lia.
Qed.

Lemma monotone_app : forall a b t, monotone t (a ++ b) -> monotone t a.
Proof.
  induction a as [|x a IH]; intros b t H; [exact I|].
  cbn [app monotone] in *. destruct (act_time x).
  - destruct H as [H1 H2]. split; [exact H1|]. eapply IH. exact H2.
  - eapply IH. exact H.
Qed.

(* last clock reading of a monotone schedule is at most any later reading *)
Lemma monotone_last : forall a t now e, monotone t (a ++ [ARate now e]) -> t <= now.
Proof.
  induction a as [|x a IH]; intros t now e H.
  - cbn in H. lia.
  - cbn [app monotone] in H. destruct (act_time x).
    + destruct H as [H1 H2]. specialize (IH _ _ _ H2). lia.
    + eapply IH. exact H.
Qed.

(* invariant: with since = max(lastWrite, lastRate), the accumulator is at least everything
   charged minus the real time from the start T0 to `since`; `since` never exceeds the
   clock.  The schedule is followed by one more rate call at `now` (which bounds the clock). *)
Lemma hold_inv : forall now e T0 acts s t base,
  monotone t (acts ++ [ARate now e]) -> lens_ok acts ->
  0 <= wd (rs s) -> Z.max (last (rs s)) (lastr (rs s)) <= t -> T0 <= Z.max (last (rs s)) (lastr (rs s)) ->
  base - (Z.max (last (rs s)) (lastr (rs s)) - T0) <= wd (rs s) ->
  let s' := fst (exec s acts) in
  base + charged acts - (Z.max (last (rs s')) (lastr (rs s')) - T0) <= wd (rs s') /\
  Z.max (last (rs s')) (lastr (rs s')) <= now /\ 0 <= wd (rs s').
Proof.
  intros now e T0. induction acts as [|a acts IH]; intros s t base Hm Hl Hw Ht HT Hb.
  - cbn in *. lia.
  - inversion Hl as [|? ? Ha Hl']; subst.
    destruct a as [u x|x|u]; cbn [app monotone act_time] in Hm; cbn [exec step].
    + destruct Hm as [H1 Hm].
      pose proof (rate_spec (rs s) u (ev_len x)) as R.
      destruct (rate (rs s) u (ev_len x)) as [r d]. destruct R as (R1 & R2 & R3 & R4).
      destruct (exec (mkS r (tx s) (wire s)) acts) as [s2 ds] eqn:E. cbn [fst].
      pose proof (cost_pos (ev_len x) Ha) as Hc.
      specialize (IH (mkS r (tx s) (wire s)) u (base + cost (ev_len x)) Hm Hl').
      cbn [rs] in IH. rewrite E in IH. cbn [fst] in IH.
      cbn [charged fold_right]. fold (charged acts).
      destruct IH as (I1 & I2 & I3); try lia.
    + destruct (exec (mkS (rs s) (tx s ++ [x]) (wire s)) acts) as [s2 ds] eqn:E. cbn [fst].
      specialize (IH (mkS (rs s) (tx s ++ [x]) (wire s)) t base Hm Hl').
      cbn [rs] in IH. rewrite E in IH. cbn [fst] in IH.
      cbn [charged fold_right]. fold (charged acts). apply IH; assumption.
    + destruct Hm as [H1 Hm]. destruct (tx s) as [|y q].
      * destruct (exec s acts) as [s2 ds] eqn:E. cbn [fst].
        specialize (IH s u base Hm Hl'). rewrite E in IH. cbn [fst] in IH.
        cbn [charged fold_right]. fold (charged acts). apply IH; try assumption; lia.
      * destruct (exec (mkS (mkR (wd (rs s)) u (lastr (rs s))) q ((u, y) :: wire s)) acts) as [s2 ds] eqn:E.
        cbn [fst].
        specialize (IH (mkS (mkR (wd (rs s)) u (lastr (rs s))) q ((u, y) :: wire s)) u base Hm Hl').
        cbn [rs wd last lastr] in IH. rewrite E in IH. cbn [fst] in IH.
        cbn [charged fold_right]. fold (charged acts). apply IH; try assumption; lia.
Qed.

(* The hold clause, full strength, for the repaired limiter.  r0 is the state at the start
   (T0 = the later of lastWrite and lastRate then). *)
Theorem hold_all_schedules : forall acts now e r0,
  0 <= wd r0 -> 0 <= ev_len e -> lens_ok acts ->
  monotone (Z.max (last r0) (lastr r0)) (acts ++ [ARate now e]) ->
  threshold + (now - Z.max (last r0) (lastr r0)) < wd r0 + charged (acts ++ [ARate now e]) ->
  snd (step (fst (exec (sys0 r0) acts)) (ARate now e)) = Some (cost (ev_len e)).
Proof.
  intros acts now e r0 Hw He Hl Hm Hx.
  pose proof (hold_inv now e (Z.max (last r0) (lastr r0)) acts (sys0 r0)
                (Z.max (last r0) (lastr r0)) (wd r0) Hm Hl) as G.
  cbn [sys0 rs] in G. specialize (G Hw ltac:(lia) ltac:(lia) ltac:(lia)).
  cbv zeta in G. destruct G as (G1 & G2 & G3).
  set (s' := fst (exec (sys0 r0) acts)) in *.
  cbn [step]. pose proof (rate_spec (rs s') now (ev_len e)) as R.
  destruct (rate (rs s') now (ev_len e)) as [r d]. destruct R as (R1 & R2 & R3 & R4). cbn [snd].
  rewrite charged_app in Hx. cbn [charged fold_right] in Hx.
  assert (Hgt : threshold < wd r) by lia.
  rewrite R4. destruct (threshold <? wd r) eqn:T; [reflexivity|lia].
Qed.

(* the hypotheses are satisfiable — by the very burst on which the arithmetic before the
   repair failed (Proofs/RateBeforeRepairProofs.v): ten 30-byte events at one instant 1.3 s
   after the last write, none delivered in between; the first seven pass, the rest are held *)
Definition stale_burst (idle len : Z) (ids : list N) : list action :=
  concat (map (fun i => send_piece false idle (mkE 0 i len)) ids).

Example hold_all_schedules_sat :
  let acts := stale_burst (cost 30) 30 (map N.of_nat (seq 0 9)) in
  monotone 0 (acts ++ [ARate (cost 30) (mkE 0 9 30)]) /\ lens_ok acts /\
  threshold + (cost 30 - 0) < 0 + charged (acts ++ [ARate (cost 30) (mkE 0 9 30)]) /\
  snd (exec (sys0 (mkR 0 0 0)) (acts ++ [ARate (cost 30) (mkE 0 9 30)])) = repeat 0 7 ++ repeat (cost 30) 3.
Proof.
  cbv zeta. split; [|split; [|split]].
  - vm_compute. repeat split; intro; discriminate.
  - apply Forall_forall. intros a Ha. vm_compute in Ha.
    repeat (destruct Ha as [Ha|Ha]; [subst a; vm_compute; try (intro; discriminate); exact I|]). destruct Ha.
  - vm_compute. reflexivity.
  - vm_compute. reflexivity.
Qed.

(* ---- one sender, any staleness: the line budget --------------------------------------- *)
(* The only link to the clock is that the time forgiven so far never exceeds the time
   elapsed since the start (every stretch is forgiven at most once: hold_inv). *)
Definition sum_el3 (l : list (Z * Z * Z)) : Z := fold_right (fun x a => snd x + a) 0 l.
Definition sum_wait3 (l : list (Z * Z * Z)) : Z := fold_right (fun x a => fst (fst x) + a) 0 l.
Definition end_one (w t : Z) (steps : list (Z * Z * Z)) : Z := snd (fst (run_one w t steps)).
Definition wd_one (w t : Z) (steps : list (Z * Z * Z)) : Z := fst (fst (run_one w t steps)).

Lemma run_one_cons : forall w t wait chars el rest,
  run_one w t ((wait, chars, el) :: rest) =
  let r := rate_core w el chars in
  let x := run_one (fst r) (t + wait + snd r) rest in
  (fst (fst x), snd (fst x), (t + wait, snd r) :: snd x).
Proof.
  intros. cbn [run_one]. destruct (rate_core w el chars) as [w1 d]. cbn [fst snd].
  destruct (run_one w1 (t + wait + d) rest) as [[w2 t2] out]. reflexivity.
Qed.

Lemma run_one_snoc : forall steps w t wait chars el,
  let w1 := wd_one w t steps in
  let t1 := end_one w t steps in
  let r := rate_core w1 el chars in
  wd_one w t (steps ++ [(wait, chars, el)]) = fst r /\
  end_one w t (steps ++ [(wait, chars, el)]) = t1 + wait + snd r.
Proof.
  induction steps as [|[[wa c] e] steps IH]; intros w t wait chars el.
  - unfold wd_one, end_one. cbn [app]. rewrite run_one_cons. cbv zeta. cbn [run_one fst snd]. split; reflexivity.
  - unfold wd_one, end_one in *. cbn [app]. rewrite !run_one_cons. cbv zeta. cbn [fst snd].
    apply IH.
Qed.

Lemma sum_cost3_snoc : forall l x, sum_cost3 (l ++ [x]) = sum_cost3 l + cost (snd (fst x)).
Proof. intros. rewrite sum_cost3_app. unfold sum_cost3. cbn [fold_right]. lia. Qed.
Lemma sum_el3_snoc : forall l x, sum_el3 (l ++ [x]) = sum_el3 l + snd x.
Proof. induction l as [|y l IH]; intros x; unfold sum_el3 in *; cbn [app fold_right] in *; [lia|]. rewrite IH. lia. Qed.
Lemma sum_wait3_snoc : forall l x, sum_wait3 (l ++ [x]) = sum_wait3 l + fst (fst x).
Proof. induction l as [|y l IH]; intros x; unfold sum_wait3 in *; cbn [app fold_right] in *; [lia|]. rewrite IH. lia. Qed.

(* the time of the rate call of the event after `steps` that waits `wait` *)
Definition call_time (w t : Z) (steps : list (Z * Z * Z)) (wait : Z) : Z := end_one w t steps + wait.

(* every call's forgiven total is covered by the time elapsed until that call *)
Fixpoint credit_ok (w t0 : Z) (done todo : list (Z * Z * Z)) : Prop :=
  match todo with
  | [] => True
  | x :: rest =>
      sum_el3 (done ++ [x]) <= call_time w t0 done (fst (fst x)) - t0 /\
      credit_ok w t0 (done ++ [x]) rest
  end.

Lemma wd_one_lower : forall steps w t, 0 <= w ->
  w + sum_cost3 steps - sum_el3 steps <= wd_one w t steps /\ 0 <= wd_one w t steps.
Proof.
  induction steps as [|x steps IH] using rev_ind; intros w t Hw.
  - unfold wd_one, sum_cost3, sum_el3. cbn [run_one fst snd fold_right]. lia.
  - destruct x as [[wait chars] el].
    pose proof (run_one_snoc steps w t wait chars el) as [S1 _]. cbv zeta in S1. rewrite S1.
    pose proof (rate_core_spec (wd_one w t steps) el chars) as [R1 _]. rewrite R1.
    specialize (IH w t Hw). rewrite sum_cost3_snoc, sum_el3_snoc. cbn [fst snd]. lia.
Qed.

(* C16_wallclock for one sender, any staleness: after any number of events the cost written
   fits in the 8 s allowance plus the real time elapsed until the last Send returned *)
Definition step1_ok (x : Z * Z * Z) : Prop := 0 <= fst (fst x) /\ 0 <= snd (fst x).

Lemma wallclock_one_aux : forall steps w t0,
  0 <= w <= threshold -> Forall step1_ok steps ->
  forall done todo, steps = done ++ todo -> credit_ok w t0 done todo ->
  w + sum_cost3 done <= threshold + (end_one w t0 done - t0) ->
  w + sum_cost3 steps <= threshold + (end_one w t0 steps - t0).
Proof.
  intros steps w t0 Hw HF done todo. revert done.
  induction todo as [|x todo IH]; intros done Hs Hc Hd.
  - rewrite app_nil_r in Hs. now subst.
  - destruct Hc as [Hc1 Hc2]. apply (IH (done ++ [x])); [now rewrite <- app_assoc|exact Hc2|].
    destruct x as [[wait chars] el]. cbn [fst snd] in Hc1.
    assert (Hx : 0 <= wait /\ 0 <= chars).
    { rewrite Hs in HF. apply Forall_app in HF. destruct HF as [_ HF]. inversion HF as [|? ? H1 _]; subst. exact H1. }
    pose proof (run_one_snoc done w t0 wait chars el) as [S1 S2]. cbv zeta in S1, S2.
    pose proof (rate_core_spec (wd_one w t0 done) el chars) as [R1 R2].
    pose proof (wd_one_lower (done ++ [(wait, chars, el)]) w t0 ltac:(lia)) as [L1 L2].
    rewrite sum_cost3_snoc, sum_el3_snoc in L1. cbn [fst snd] in L1.
    rewrite sum_cost3_snoc. cbn [fst snd]. rewrite S2.
    unfold call_time in Hc1. rewrite sum_el3_snoc in Hc1. cbn [snd] in Hc1. rewrite S1 in L1, L2.
    pose proof (cost_pos chars ltac:(lia)) as Hcp.
    destruct (threshold <? fst (rate_core (wd_one w t0 done) el chars)) eqn:T; rewrite R2; lia.
Qed.

Lemma wallclock_one : forall steps w t0,
  0 <= w <= threshold -> Forall step1_ok steps -> credit_ok w t0 [] steps ->
  w + sum_cost3 steps <= threshold + (end_one w t0 steps - t0) /\
  Z.of_nat (length steps) * second <= threshold + (end_one w t0 steps - t0).
Proof.
  intros steps w t0 Hw HF HC.
  assert (A : w + sum_cost3 steps <= threshold + (end_one w t0 steps - t0)).
  { apply (wallclock_one_aux steps w t0 Hw HF [] steps eq_refl HC). unfold end_one, sum_cost3. cbn [run_one fst snd fold_right]. lia. }
  split; [exact A|].
  assert (Hge : Z.of_nat (length steps) * second <= sum_cost3 steps).
  { clear - HF. induction steps as [|[[a b] c] l IH]; [cbn; lia|].
    inversion HF as [|? ? [_ Hc] Hl]; subst. specialize (IH Hl). cbn [fst snd] in Hc.
    unfold sum_cost3 in *. cbn [fold_right length fst snd]. pose proof (cost_ge_second b Hc). lia. }
  lia.
Qed.

(* satisfiable, and covering what run_sync cannot: ten events at one instant 1.3 s after the
   last write, every call forgiving nothing but the first (which forgives the idle period) *)
Example wallclock_one_sat :
  let steps := (cost 30, 30, cost 30) :: repeat (0, 30, 0) 9 in
  credit_ok 0 0 [] steps /\ Forall step1_ok steps /\
  map snd (snd (run_one 0 0 steps)) = repeat 0 7 ++ repeat (cost 30) 3.
Proof.
  cbv zeta. split; [|split].
  - vm_compute. repeat split; intro; discriminate.
  - apply Forall_forall. intros x Hx. vm_compute in Hx.
    repeat (destruct Hx as [Hx|Hx]; [subst x; vm_compute; split; intro; discriminate|]). destruct Hx.
  - vm_compute. reflexivity.
Qed.

(* ---- every exported sender ------------------------------------------------------------ *)

Lemma rate_streqb_iff : forall a b, streqb a b = true <-> a = b.
Proof.
  induction a as [|x a IH]; destruct b as [|y b]; cbn [streqb]; split; intros H; try discriminate; auto.
  - apply andb_true_iff in H. destruct H as [H1 H2]. apply N.eqb_eq in H1. apply IH in H2. now subst.
  - inversion H; subst. apply andb_true_iff. split; [apply N.eqb_refl|now apply IH].
Qed.

Definition is_keepalive (name : str) : bool := streqb name (bs "Ping") || streqb name (bs "Pong").

(* the table: exactly Ping and Pong go straight to Client.write; every other exported sender
   (37 of them, Client.Send and Client.Quit included) ends in Client.Send *)
Lemma entry_points_routes : forall name r,
  In (name, r) entry_points -> (r = ViaWrite <-> (name = bs "Ping" \/ name = bs "Pong")).
Proof.
  intros name r H.
  assert (B : forallb (fun p => match snd p with
                                | ViaWrite => is_keepalive (fst p)
                                | ViaSend => negb (is_keepalive (fst p))
                                end) entry_points = true) by (vm_compute; reflexivity).
  rewrite forallb_forall in B. specialize (B _ H). cbn [fst snd] in B.
  unfold is_keepalive in B. destruct r; split; intros K; try discriminate.
  - apply negb_true_iff, orb_false_iff in B. destruct B as [B1 B2].
    destruct K as [K|K]; subst name; [rewrite (proj2 (rate_streqb_iff _ _) eq_refl) in B1|rewrite (proj2 (rate_streqb_iff _ _) eq_refl) in B2]; discriminate.
  - apply orb_true_iff in B. destruct B as [B|B]; apply rate_streqb_iff in B; auto.
  - reflexivity.
Qed.

Lemma entry_points_count : length entry_points = 39%nat /\ NoDup (map fst entry_points).
Proof.
  split; [reflexivity|].
  assert (D : forall l : list str, (fix nd (l : list str) : bool :=
              match l with [] => true | x :: r => negb (existsb (streqb x) r) && nd r end) l = true -> NoDup l).
  { induction l as [|x l IH]; intros H; [constructor|].
    apply andb_true_iff in H. destruct H as [H1 H2]. constructor; [|apply IH; exact H2].
    intros HIn. apply negb_true_iff in H1.
    assert (E : existsb (streqb x) l = true) by (apply existsb_exists; exists x; split; [exact HIn|apply rate_streqb_iff; reflexivity]).
    congruence. }
  apply D. vm_compute. reflexivity.
Qed.

(* what each path contributes, for both settings of GlobalFormat *)
Lemma entry_actions_shape : forall gf now e,
  entry_actions gf false ViaSend now e = [ARate now e; AEnq e] /\
  entry_actions gf true ViaSend now e = [AEnq e] /\
  (forall allow, entry_actions gf allow ViaWrite now e = [AEnq e]) /\
  (forall allow r, entry_actions true allow r now e = entry_actions false allow r now e).
Proof. intros. repeat split; intros; destruct r || idtac; reflexivity. Qed.

(* C16 for every exported sender: after ANY monotone schedule, with the allowance used,
   an event handed to a sender that ends in Client.Send (flood protection on, GlobalFormat
   either way) is returned exactly its cost and then queued; an event handed to Ping/Pong,
   or to anything with AllowFlood, is queued with no rate call and no delay *)
Lemma entry_point_held : forall name gf acts now e r0,
  entry_route name = Some ViaSend ->
  0 <= wd r0 -> 0 <= ev_len e -> lens_ok acts ->
  monotone (Z.max (last r0) (lastr r0)) (acts ++ [ARate now e]) ->
  threshold + (now - Z.max (last r0) (lastr r0)) < wd r0 + charged (acts ++ [ARate now e]) ->
  snd (exec (fst (exec (sys0 r0) acts)) (entry_actions gf false ViaSend now e)) = [cost (ev_len e)].
Proof.
  intros name gf acts now e r0 _ Hw He Hl Hm Hx.
  pose proof (hold_all_schedules acts now e r0 Hw He Hl Hm Hx) as H.
  cbn [entry_actions send_piece]. rewrite exec_cons. cbn [snd].
  rewrite H. rewrite exec_cons. cbn [step snd fst exec]. reflexivity.
Qed.

Lemma entry_point_not_rated : forall gf allow r now e s,
  r = ViaWrite \/ allow = true ->
  snd (exec s (entry_actions gf allow r now e)) = [] /\
  wd (rs (fst (exec s (entry_actions gf allow r now e)))) = wd (rs s).
Proof.
  intros gf allow r now e s H.
  cut (forallb (fun a => negb (is_rate a)) (entry_actions gf allow r now e) = true).
  { intros F. destruct (no_rate_no_delay _ s F) as (A & B & _). auto. }
  destruct H as [H|H]; subst; [reflexivity|destruct r; reflexivity].
Qed.

Example entry_point_held_sat :
  entry_route (bs "SendRaw") = Some ViaSend /\ entry_route (bs "Pong") = Some ViaWrite /\
  snd (exec (sys0 (mkR (30 * second) 0 0)) (entry_actions true false ViaSend 0 (mkE 0 0 30))) = [cost 30].
Proof. vm_compute. auto. Qed.

(* ---- the limiter state is framed ----------------------------------------------------- *)
(* Everything the client does — Sends of any goroutine, keep-alives, replies written or
   sent by handlers of inbound traffic, sendLoop deliveries — is a schedule of ARate, AEnq,
   ADeliver.  Over any such schedule with a monotone clock the accumulated delay is at
   least what it was, plus everything charged, minus the real time elapsed: nothing but
   the passing of time forgives. *)
Lemma charged_nonneg : forall acts, lens_ok acts -> 0 <= charged acts.
Proof.
  induction acts as [|a acts IH]; intros H; [cbn; lia|].
  inversion H as [|? ? Ha Hr]; subst. specialize (IH Hr).
  cbn [charged fold_right]. fold (charged acts). destruct a as [t x|x|t]; try lia.
  pose proof (cost_pos (ev_len x) Ha). lia.
Qed.

Lemma limiter_frame : forall acts now e r0,
  0 <= wd r0 -> lens_ok acts ->
  monotone (Z.max (last r0) (lastr r0)) (acts ++ [ARate now e]) ->
  let s' := fst (exec (sys0 r0) acts) in
  let T0 := Z.max (last r0) (lastr r0) in
  wd r0 + charged acts - (Z.max (last (rs s')) (lastr (rs s')) - T0) <= wd (rs s') /\
  Z.max (last (rs s')) (lastr (rs s')) <= now /\
  wd r0 - (now - T0) <= wd (rs s').
Proof.
  intros acts now e r0 Hw Hl Hm s' T0.
  pose proof (hold_inv now e T0 acts (sys0 r0) T0 (wd r0) Hm Hl) as G.
  cbn [sys0 rs] in G. specialize (G Hw ltac:(subst T0; lia) ltac:(subst T0; lia) ltac:(subst T0; lia)).
  cbv zeta in G. destruct G as (G1 & G2 & G3). fold s' in G1, G2, G3.
  pose proof (charged_nonneg acts Hl). repeat split; try assumption; lia.
Qed.
