(* C07 — lifecycle events, flush before ERROR, and what a connection starts from. *)
Require Import Bytes Lifecycle LifecycleSpec LifecycleSteps LifecycleInv LifecycleTerm LifecycleResult LifecycleChecker.
From Coq Require Import List Bool Arith Lia.
Import ListNotations.

(* projections of a trace onto the current connection (everything since the last Connect) *)
Definition lc_step (l : label) (a : list label) : list label :=
  match l with LConnCall _ _ => [] | LInit | LClosed | LDisc => a ++ [l] | _ => a end.
Definition dl_step (l : label) (a : list event) : list event :=
  match l with LConnCall _ _ => [] | LDeliver e => a ++ [e] | _ => a end.
Definition eq_step (l : label) (a : list event) : list event :=
  match l with LConnCall _ _ => [] | LEnq e => a ++ [e] | _ => a end.
Definition snt_step (l : label) (a : list event) : list event :=
  match l with LConnCall _ _ => [] | LPeerSend (LnEv e) => a ++ [e] | _ => a end.

Definition lc_of (tr : list label) : list label := fold_left (fun a l => lc_step l a) tr [].
Definition delivered_of (tr : list label) : list event := fold_left (fun a l => dl_step l a) tr [].
Definition enqueued_of (tr : list label) : list event := fold_left (fun a l => eq_step l a) tr [].
Definition sent_of (tr : list label) : list event := fold_left (fun a l => snt_step l a) tr [].

(* the event execLoop has dequeued and not yet handed to the handlers *)
Definition held (s : state) : list event := match xpc s with XRun e _ => [e] | _ => [] end.

Definition closed_part (r : err) : list label := if err_is_nil r then [LClosed] else [].

Record K (lc : list label) (dl eq snt : list event) (s : state) : Prop := mkK {
  k_lc : match cpc s with
         | CIdle => True
         | CStart _ _ | CReg _ => lc = []
         | CWait => lc = [LInit]
         | CClosedEv => lc = [LInit] /\ err_is_nil (gerr s) = true
         | CTeardown | CDiscEv => lc = [LInit] ++ closed_part (gerr s)
         | CClear => lc = [LInit] ++ closed_part (gerr s) ++ [LDisc]
         | CRet r => lc = [LInit] ++ closed_part r ++ [LDisc] /\ gerr s = r
         end;
  k_fifo : live s = true -> eq = dl ++ held s ++ rx s;
  k_tracked : live s = true -> tracked s = dl;
  k_sent : live s = true -> forall e,
             (In e (rx s) \/ In e (held s) \/ rpc s = RRecv e \/ In (LnEv e) (inbuf s) \/ In e eq) -> In e snt;
  k_err : live s = true -> forall t, gerr s = EErrEvent t -> xpc s = XDone /\ exists pre, dl = pre ++ [EvError t];
  k_start : (exists r p, cpc s = CStart r p) -> dl = [] /\ eq = [];
  k_ran : live s = true -> forall e d, xpc s = XRan e d -> exists pre, dl = pre ++ [e]
}.

Lemma K_init b : K [] [] [] [] (init b).
Proof.
  constructor; simpl; auto; intros; try discriminate;
    try (match goal with H : exists _ _, _ |- _ => destruct H as (?&?&?); discriminate end).
Qed.

(* ---- preservation, field by field ---- *)
Ltac kcase := cbn [lc_step dl_step eq_step snt_step] in *.

Lemma K_step_lc lc dl eq snt s l s' : Inv s -> K lc dl eq snt s -> tstep s l s' ->
  match cpc s' with
  | CIdle => True
  | CStart _ _ | CReg _ => lc_step l lc = []
  | CWait => lc_step l lc = [LInit]
  | CClosedEv => lc_step l lc = [LInit] /\ err_is_nil (gerr s') = true
  | CTeardown | CDiscEv => lc_step l lc = [LInit] ++ closed_part (gerr s')
  | CClear => lc_step l lc = [LInit] ++ closed_part (gerr s') ++ [LDisc]
  | CRet r => lc_step l lc = [LInit] ++ closed_part r ++ [LDisc] /\ gerr s' = r
  end.
Proof.
  intros I [k1 k2 k3 k4 k5 k6 k7] H. unfold Inv in I.
  tcase H; kcase;
    first [ match goal with E : cpc s = _ |- _ => rewrite E in k1, I end
          | destruct (cpc s) eqn:? ];
    unfold closed_part in *; decomp; subst; cbn [cpc set_cpc] in *;
    try (match goal with Ld : loops_done s = true |- _ =>
           apply loops_done_inv in Ld; destruct Ld as (?&?&?&?) end);
    try congruence;
    repeat match goal with E : err_is_nil _ = _ |- _ => rewrite E in * end;
    cbn [app] in *; auto.
Qed.

Ltac kprep s H := tcase H; kcase; lab_cases; kcase.
Ltac known_cpc s := try (match goal with E : cpc s = _ |- _ => rewrite E in * end); try discriminate.

Lemma K_step_fifo lc dl eq snt s l s' : Inv s -> K lc dl eq snt s -> tstep s l s' ->
  live s' = true -> eq_step l eq = dl_step l dl ++ held s' ++ rx s'.
Proof.
  intros I [k1 k2 k3 k4 k5 k6 k7] H. unfold live, held in *.
  kprep s H; intros Lv; known_cpc s;
    try (destruct k6 as [-> ->]; [solve [eauto]|reflexivity]);
    try (specialize (k2 Lv)); try (specialize (k2 eq_refl));
    use_guards s; cbn [app] in *; try rewrite k2; rewrite <- ?app_assoc; cbn [app]; auto.
Qed.

Lemma K_step_tracked lc dl eq snt s l s' : Inv s -> K lc dl eq snt s -> tstep s l s' ->
  live s' = true -> tracked s' = dl_step l dl.
Proof.
  intros I [k1 k2 k3 k4 k5 k6 k7] H. unfold live in *.
  kprep s H; intros Lv; known_cpc s;
    try (destruct k6 as [-> ->]; [solve [eauto]|reflexivity]);
    try (specialize (k3 Lv)); try (specialize (k3 eq_refl)); try rewrite k3; auto.
Qed.

Ltac pick5 :=
  first [ solve [left; auto 3] | solve [right; left; auto 3] | solve [right; right; left; auto 3]
        | solve [right; right; right; left; auto 3] | solve [right; right; right; right; auto 3] ].

Lemma K_step_sent lc dl eq snt s l s' : Inv s -> K lc dl eq snt s -> tstep s l s' ->
  live s' = true -> forall e,
    (In e (rx s') \/ In e (held s') \/ rpc s' = RRecv e \/ In (LnEv e) (inbuf s') \/ In e (eq_step l eq)) ->
    In e (snt_step l snt).
Proof.
  intros I [k1 k2 k3 k4 k5 k6 k7] H. unfold live, held in *.
  kprep s H; intros Lv e0 Hin; tl_case s; known_cpc s;
    try (destruct k6 as [-> ->]; [solve [eauto]|]);
    use_guards s; rewrite ?in_app_iff in *; cbn [In] in *; decomp; repeat (match goal with Hrl : In _ (removelast _) |- _ => apply in_removelast in Hrl end); subst; try discriminate; inj_all;
    try discriminate; try contradiction;
    try solve [auto 3];
    try solve [(try left); apply k4; [first [reflexivity|assumption]|cbn [In]; pick5]].
Qed.

Lemma K_step_start lc dl eq snt s l s' : Inv s -> K lc dl eq snt s -> tstep s l s' ->
  (exists r p, cpc s' = CStart r p) -> dl_step l dl = [] /\ eq_step l eq = [].
Proof.
  intros I [k1 k2 k3 k4 k5 k6 k7] H. unfold Inv in I.
  kprep s H; intros (r0&p0&Hc); known_cpc s; auto;
    try (apply k6; eauto; fail);
    try (destruct I as [_ Ld]; apply loops_done_inv in Ld; destruct Ld as (?&?&?&?); congruence).
Qed.

Lemma K_step_ran lc dl eq snt s l s' : Inv s -> K lc dl eq snt s -> tstep s l s' ->
  live s' = true -> forall e d, xpc s' = XRan e d -> exists pre, dl_step l dl = pre ++ [e].
Proof.
  intros I [k1 k2 k3 k4 k5 k6 k7] H. unfold live in *.
  kprep s H; intros Lv e0 d0 Hx; known_cpc s; try discriminate;
    try solve [eapply k7; [first [reflexivity|assumption]|eassumption]];
    try solve [injection Hx as <- <-; eexists; reflexivity];
    try congruence.
Qed.

Lemma K_step_err lc dl eq snt s l s' : Inv s -> K lc dl eq snt s -> tstep s l s' ->
  live s' = true -> forall t, gerr s' = EErrEvent t -> xpc s' = XDone /\ exists pre, dl_step l dl = pre ++ [EvError t].
Proof.
  intros I [k1 k2 k3 k4 k5 k6 k7] H. unfold live in *.
  kprep s H; intros Lv t0 Hg; known_cpc s; try discriminate;
    try solve [apply k5; [first [reflexivity|assumption]|assumption]];
    try solve [match goal with Lv' : _ = true |- _ => destruct (k5 Lv' t0 Hg) as [Xd _]; congruence end];
    try solve [destruct (k5 eq_refl t0 Hg) as [Xd _]; congruence].
  injection Hg as <-. split; [reflexivity|]. eapply k7; [exact Lv|exact H].
Qed.

Lemma K_step lc dl eq snt s l s' : Inv s -> K lc dl eq snt s -> tstep s l s' ->
  K (lc_step l lc) (dl_step l dl) (eq_step l eq) (snt_step l snt) s'.
Proof.
  intros I Kf H. constructor.
  - eapply K_step_lc; eauto.
  - eapply K_step_fifo; eauto.
  - eapply K_step_tracked; eauto.
  - eapply K_step_sent; eauto.
  - eapply K_step_err; eauto.
  - eapply K_step_start; eauto.
  - eapply K_step_ran; eauto.
Qed.

Lemma fold_snoc {A} (f : label -> A -> A) (tr : list label) (l : label) (a : A) :
  fold_left (fun a l => f l a) (tr ++ [l]) a = f l (fold_left (fun a l => f l a) tr a).
Proof. rewrite fold_left_app. reflexivity. Qed.

Lemma K_exec b tr s : exec b tr s -> K (lc_of tr) (delivered_of tr) (enqueued_of tr) (sent_of tr) s.
Proof.
  induction 1 as [|tr s s' Hex IH Hs|tr s l s' Hex IH _ Hs].
  - apply K_init.
  - apply (K_step _ _ _ _ s Tau s' (Inv_exec _ _ _ Hex) IH (step_tstep _ _ _ Hs)).
  - unfold lc_of, delivered_of, enqueued_of, sent_of. rewrite !fold_snoc.
    apply (K_step _ _ _ _ s l s' (Inv_exec _ _ _ Hex) IH (step_tstep _ _ _ Hs)).
Qed.

(* ---- C07_lifecycle_events ---- *)
Theorem lifecycle_events b tr s r : exec b tr s -> cpc s = CRet r ->
  lc_of tr = [LInit] ++ (if err_is_nil r then [LClosed] else []) ++ [LDisc] /\
  sock_closed s = true /\ (conn_set s && connected s) = false /\ loops_done s = true /\
  (linger s = true -> step_linger s <> []).
Proof.
  intros H E. pose proof (k_lc _ _ _ _ _ (K_exec b tr s H)) as Kl. pose proof (Inv_exec b tr s H) as I.
  unfold Inv in I. rewrite E in Kl, I. destruct Kl as [Kl _]. destruct I as (Cs&Ld&Sc&Cn).
  split; [exact Kl|]. split; [exact Sc|]. split; [rewrite Cs; reflexivity|]. split; [exact Ld|].
  intros Lg. unfold step_linger. rewrite Lg, Sc. discriminate.
Qed.

(* ---- C07_flush ---- *)
(* FIFO, nothing lost, nothing duplicated: what was delivered is a prefix of what was queued *)
Theorem flush_fifo b tr s : exec b tr s -> live s = true ->
  enqueued_of tr = delivered_of tr ++ held s ++ rx s.
Proof. intros H Lv. exact (k_fifo _ _ _ _ _ (K_exec b tr s H) Lv). Qed.

(* when Connect returns ErrEvent t, that ERROR is the last event delivered and every event
   queued before it was delivered before it, in order *)
Theorem flush_before_error b tr s t : exec b tr s -> cpc s = CRet (EErrEvent t) ->
  exists pre post, delivered_of tr = pre ++ [EvError t] /\ enqueued_of tr = pre ++ [EvError t] ++ post.
Proof.
  intros H E. pose proof (K_exec b tr s H) as Kf.
  assert (Lv : live s = true) by (unfold live; rewrite E; reflexivity).
  pose proof (k_lc _ _ _ _ _ Kf) as Kl. rewrite E in Kl. destruct Kl as [_ Hg].
  destruct (k_err _ _ _ _ _ Kf Lv t Hg) as [Xd [pre Hd]].
  exists pre, (rx s). split; [exact Hd|].
  rewrite (k_fifo _ _ _ _ _ Kf Lv). unfold held. rewrite Xd, Hd. rewrite <- app_assoc. reflexivity.
Qed.

(* ---- C07_reconnect ---- *)
(* internalConnect starts every connection from scratch *)
Theorem reconnect_fresh regs ping s :
  let s' := fresh_conn regs ping s in
  rx s' = [] /\ tx s' = [] /\ tracked s' = [] /\ inbuf s' = [] /\ cancelled s' = false /\ gerr s' = ENil.
Proof. cbn. auto 6. Qed.

(* and nothing of an earlier connection reaches it: on every connection the tracked state
   is built from exactly the events delivered on it, each of which was queued on it, each
   of which this connection's peer sent *)
Theorem reconnect_no_stale b tr s : exec b tr s -> live s = true ->
  tracked s = delivered_of tr /\
  (forall e, In e (delivered_of tr) -> In e (enqueued_of tr)) /\
  (forall e, In e (enqueued_of tr) -> In e (sent_of tr)).
Proof.
  intros H Lv. pose proof (K_exec b tr s H) as Kf. split; [exact (k_tracked _ _ _ _ _ Kf Lv)|]. split.
  - intros e He. rewrite (k_fifo _ _ _ _ _ Kf Lv). apply in_or_app. left. exact He.
  - intros e He. apply (k_sent _ _ _ _ _ Kf Lv e). right. right. right. right. exact He.
Qed.

(* ---- no stale output ---- *)
(* everything this connection may legitimately write: its registration lines, what the
   application handed to Send since Connect was called, and PINGs of its ping loop *)
Definition out_step (l : label) (a : list out) : list out :=
  match l with
  | LConnCall regs _ => regs
  | LSend o => a ++ [o]
  | LTick 1 => a ++ [ping_out]
  | _ => a
  end.
Definition outs_of (tr : list label) : list out := fold_left (fun a l => out_step l a) tr [].

Record O (outs : list out) (s : state) : Prop := mkO {
  o_regs : match cpc s with
           | CStart r _ | CReg r => forall o, In o r -> In o outs
           | _ => True
           end;
  o_queued : live s = true -> forall o, In o (tx s) \/ In o (outbuf s) -> In o outs
}.

Lemma O_init b : O [] (init b).
Proof. constructor; simpl; auto. intros _ o [[]|[]]. Qed.

Lemma O_step outs s l s' : O outs s -> tstep s l s' -> O (out_step l outs) s'.
Proof.
  intros [o1 o2] H. unfold live in *. constructor.
  - tcase H; cbn [out_step]; known_cpc s; auto;
      try (destruct (cpc s) eqn:?; auto);
      try (intros q Hq; try (apply in_or_app; left); apply o1; cbn [In]; auto; fail).
  - tcase H; cbn [out_step]; unfold enq, live in *; norm_step; intros Lv q Hin; known_cpc s; split_ifs_hyp; norm_step;
      use_guards s; rewrite ?in_app_iff in *; cbn [In] in *; decomp; subst; try discriminate; try contradiction;
      try solve [auto 4];
      try solve [(try left); apply o2; [first [reflexivity|assumption]|cbn [In]; auto 4]];
      try solve [(try left); apply o1; cbn [In]; auto 3].
Qed.

Lemma outs_of_snoc tr l : outs_of (tr ++ [l]) = out_step l (outs_of tr).
Proof. unfold outs_of. rewrite fold_left_app. reflexivity. Qed.

Lemma O_exec b tr s : exec b tr s -> O (outs_of tr) s.
Proof.
  induction 1 as [|tr s s' Hex IH Hs|tr s l s' Hex IH _ Hs].
  - apply O_init.
  - apply (O_step _ s Tau s' IH (step_tstep _ _ _ Hs)).
  - rewrite outs_of_snoc. apply (O_step _ s l s' IH (step_tstep _ _ _ Hs)).
Qed.

Lemma out_eqb_eq a b : out_eqb a b = true -> a = b.
Proof.
  destruct a as [qa ta], b as [qb tb]. unfold out_eqb. simpl. intros H.
  apply andb_prop in H. destruct H as [H1 H2]. apply eqb_prop in H1. apply str_eqb_eq in H2. subst. reflexivity.
Qed.

(* whatever the peer of a connection reads was queued for THIS connection: one of its
   registration lines, something handed to Send after Connect was called, or a PING *)
Theorem no_stale_output b tr s o s' :
  exec b tr s -> live s = true -> step s (LPeerRecv o) s' -> In o (outs_of tr).
Proof.
  intros H Lv Hs. apply step_tstep in Hs. inversion Hs; subst.
  match goal with He : out_eqb _ _ = true |- _ => apply out_eqb_eq in He; subst end.
  apply (o_queued _ _ (O_exec b tr s H) Lv). right.
  match goal with Ho : outbuf s = _ |- _ => rewrite Ho end. left. reflexivity.
Qed.

(* ---- the hypotheses of the theorems above are satisfiable ---- *)
Require Import LifecycleChecker.

Lemma reach_by_checker (p : state -> bool) fuel tr :
  Forall (fun l => is_hidden l = false) tr ->
  existsb p (after fuel tr) = true ->
  exists tr' s, exec (trace_budget tr) tr' s /\ p s = true.
Proof.
  intros Hv Hex. apply existsb_exists in Hex. destruct Hex as [x [Hin Hp]].
  destruct (after_reach fuel tr Hv x Hin) as [h [_ Hw]].
  exists h, x. split; [apply wexec_exec; exact Hw|exact Hp].
Qed.

Definition is_ret (r : err) (s : state) : bool :=
  match cpc s with CRet r' => err_eqb r r' | _ => false end.

Lemma is_ret_eq r s : is_ret r s = true -> cpc s = CRet r.
Proof.
  unfold is_ret. destruct (cpc s); try discriminate. intros H. apply err_eqb_eq in H. subst. reflexivity.
Qed.

(* Close() after registration: Connect is about to return nil *)
Example returns_nil_reachable : exists b tr s, exec b tr s /\ cpc s = CRet ENil.
Proof.
  destruct (reach_by_checker (is_ret ENil) 50
              [LConnCall [] false; LInit; LCloseCall; LCloseRet; LClosed; LDisc]) as [tr [s [H P]]].
  - repeat constructor.
  - vm_compute. reflexivity.
  - eexists _, tr, s. split; [exact H|apply is_ret_eq; exact P].
Qed.

(* the peer sends a line, then ERROR "x": Connect is about to return ErrEvent "x" *)
Example returns_errevent_reachable : exists b tr s, exec b tr s /\ cpc s = CRet (EErrEvent [120%N]).
Proof.
  destruct (reach_by_checker (is_ret (EErrEvent [120%N])) 50
              [LConnCall [] false; LInit; LPeerSend (LnEv (EvMsg [97%N])); LPeerSend (LnEv ex_err);
               LDeliver (EvMsg [97%N]); LDeliver ex_err; LDisc]) as [tr [s [H P]]].
  - repeat constructor.
  - vm_compute. reflexivity.
  - eexists _, tr, s. split; [exact H|apply is_ret_eq; exact P].
Qed.

Example live_reachable : exists b tr s, exec b tr s /\ live s = true.
Proof.
  destruct returns_nil_reachable as [b [tr [s [H E]]]]. exists b, tr, s. split; [exact H|].
  unfold live. rewrite E. reflexivity.
Qed.
