(* C06 — the handler table: sequential theorems about Model/Dispatch.v. *)
From Coq Require Import Lia.
Require Import Bytes AMap OrderLemmas AMapLemmas Dispatch.

(* registration is case-insensitive: the table cannot tell two spellings apart *)
Lemma register_case_insensitive t internal bg c1 c2 u v :
  go_upper c1 = go_upper c2 -> register t internal bg c1 u v = register t internal bg c2 u v.
Proof. intros H. unfold register. rewrite H. reflexivity. Qed.

Example register_case_insensitive_ex :
  go_upper (bs "Foo") = go_upper (bs "fOO").
Proof. reflexivity. Qed.
