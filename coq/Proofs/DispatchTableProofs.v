(* C06 — the handler table: sequential theorems about Model/Dispatch.v.

   The table (string-keyed maps, cuid strings, ":bg" suffix) refines the registry of
   Spec/DispatchSpec.v (a list of handler ids): every operation keeps the relation [Rel],
   and under [Rel] one exec call selects exactly the registered handlers of that
   command and kind, once each. *)
From Coq Require Import Lia ZifyBool ZifyN ZifyNat Permutation.
Require Import Bytes AMap OrderLemmas AMapLemmas FormatLemmas Dispatch DispatchSpec.

(* registration is case-insensitive: the table cannot tell two spellings apart *)
Lemma register_case_insensitive t internal bg c1 c2 u v :
  go_upper c1 = go_upper c2 -> register t internal bg c1 u v = register t internal bg c2 u v.
Proof. intros H. unfold register. rewrite H. reflexivity. Qed.

Example register_case_insensitive_ex :
  go_upper (bs "Foo") = go_upper (bs "fOO").
Proof. reflexivity. Qed.

(* ---- association lists -------------------------------------------------------- *)

Section AL.
  Context {V : Type}.
  Implicit Types (g : amap V) (k : str) (v : V).

  Lemma in_aremove k0 g k v : In (k, v) (aremove k0 g) <-> k <> k0 /\ In (k, v) g.
  Proof.
    induction g as [|[k1 v1] g IH]; simpl; [tauto|].
    destruct (streqb k0 k1) eqn:E.
    - apply streqb_eq in E. subst k1. rewrite IH. split.
      + intros [Hn Hi]. auto.
      + intros [Hn [Hi|Hi]]; [inversion Hi; congruence|auto].
    - apply streqb_neq in E. simpl. rewrite IH. split.
      + intros [Hi|[Hn Hi]]; [inversion Hi; subst; split; [congruence|auto]|auto].
      + intros [Hn [Hi|Hi]]; auto.
  Qed.

  Lemma in_aset k0 v0 g k v :
    In (k, v) (aset k0 v0 g) <-> (k = k0 /\ v = v0) \/ (k <> k0 /\ In (k, v) g).
  Proof.
    unfold aset. simpl. rewrite in_aremove. split.
    - intros [Hi|Hi]; [inversion Hi; auto|auto].
    - intros [[-> ->]|Hi]; auto.
  Qed.

  Lemma keys_aremove k0 g k : In k (List.map fst (aremove k0 g)) <-> k <> k0 /\ In k (List.map fst g).
  Proof.
    rewrite !in_map_iff. split.
    - intros [[k1 v1] [Hf Hi]]. simpl in Hf. subst k1. apply in_aremove in Hi as [Hn Hi].
      split; [exact Hn|]. exists (k, v1). auto.
    - intros [Hn [[k1 v1] [Hf Hi]]]. simpl in Hf. subst k1. exists (k, v1). split; [reflexivity|].
      apply in_aremove. auto.
  Qed.

  Lemma nodup_aremove k0 g : NoDup (List.map fst g) -> NoDup (List.map fst (aremove k0 g)).
  Proof.
    induction g as [|[k1 v1] g IH]; simpl; intros Hnd; [constructor|].
    inversion Hnd as [|? ? Hni Hnd']; subst.
    destruct (streqb k0 k1); [auto|]. simpl. constructor; [|auto].
    rewrite keys_aremove. tauto.
  Qed.

  Lemma nodup_aset k0 v0 g : NoDup (List.map fst g) -> NoDup (List.map fst (aset k0 v0 g)).
  Proof.
    intros Hnd. unfold aset. simpl. constructor; [|apply nodup_aremove; exact Hnd].
    rewrite keys_aremove. tauto.
  Qed.

  Lemma alookup_in k g v : alookup k g = Some v -> In (k, v) g.
  Proof.
    induction g as [|[k1 v1] g IH]; simpl; [discriminate|].
    destruct (streqb k k1) eqn:E; [|auto].
    apply streqb_eq in E. subst. intros [= ->]. auto.
  Qed.

  Lemma in_alookup k g v : NoDup (List.map fst g) -> In (k, v) g -> alookup k g = Some v.
  Proof.
    induction g as [|[k1 v1] g IH]; simpl; intros Hnd Hi; [tauto|].
    inversion Hnd as [|? ? Hni Hnd']; subst.
    destruct Hi as [Hi|Hi].
    - inversion Hi; subst. rewrite streqb_refl. reflexivity.
    - destruct (streqb k k1) eqn:E; [|auto].
      apply streqb_eq in E. subst. exfalso. apply Hni. apply in_map_iff. exists (k1, v). auto.
  Qed.

  Lemma alookup_none k g : alookup k g = None -> forall v, ~ In (k, v) g.
  Proof.
    induction g as [|[k1 v1] g IH]; simpl; [tauto|].
    destruct (streqb k k1) eqn:E; [discriminate|].
    apply streqb_neq in E. intros H v [Hi|Hi]; [inversion Hi; congruence|]. exact (IH H v Hi).
  Qed.
End AL.

Lemma group_of_aset c g (m : hmap) c' :
  group_of (aset c g m) c' = if streqb c' c then g else group_of m c'.
Proof. unfold group_of. rewrite alookup_aset. destruct (streqb c' c); reflexivity. Qed.

Lemma group_of_aremove c (m : hmap) c' :
  group_of (aremove c m) c' = if streqb c' c then [] else group_of m c'.
Proof. unfold group_of. rewrite alookup_aremove. destruct (streqb c' c); reflexivity. Qed.

Lemma group_of_hput m c k v c' :
  group_of (hput m c k v) c' = if streqb c' c then aset k v (group_of m c) else group_of m c'.
Proof. unfold hput. apply group_of_aset. Qed.

(* ---- bytes: ':' and the ":bg" suffix ------------------------------------------- *)

Lemma memb_in c s : memb c s = true <-> In c s.
Proof.
  induction s as [|x s IH]; simpl; [split; [discriminate|tauto]|].
  rewrite Bool.orb_true_iff, IH, N.eqb_eq. tauto.
Qed.

Lemma memb_app c a b : memb c (a ++ b) = memb c a || memb c b.
Proof. induction a as [|x a IH]; simpl; [reflexivity|]. rewrite IH. apply Bool.orb_assoc. Qed.

Lemma upper1_colon b : (upper1 b =? colon) = (b =? colon).
Proof. unfold upper1, is_lower, colon. destruct ((97 <=? b) && (b <=? 122)) eqn:E; lia. Qed.

Lemma memb_colon_upper s : memb colon (go_upper s) = memb colon s.
Proof.
  unfold go_upper, to_upper_ascii. induction s as [|x s IH]; simpl; [reflexivity|].
  rewrite upper1_colon, IH. reflexivity.
Qed.

Lemma bg_suffix_colon : memb colon bg_suffix = true.
Proof. reflexivity. Qed.

Lemma key_bg u b : memb colon u = false -> is_bg_key (key_of u b) = b.
Proof.
  intros Hu. unfold is_bg_key, key_of. destruct b.
  - apply suffixb_spec. now exists u.
  - destruct (suffixb bg_suffix u) eqn:E; [|reflexivity].
    apply suffixb_spec in E as [r ->]. rewrite memb_app, bg_suffix_colon in Hu.
    rewrite Bool.orb_true_r in Hu. discriminate.
Qed.

Lemma key_inj u b u' b' :
  memb colon u = false -> memb colon u' = false -> key_of u b = key_of u' b' -> u = u' /\ b = b'.
Proof.
  intros Hu Hu' E.
  assert (b = b') as Hb.
  { rewrite <- (key_bg u b Hu), <- (key_bg u' b' Hu'), E. reflexivity. }
  subst b'. split; [|reflexivity]. unfold key_of in E. destruct b; [|exact E].
  apply app_inv_tail in E. exact E.
Qed.

Lemma index_byte_colon c k : memb colon c = false ->
  index_byte colon (c ++ colon :: k) = Some (length c).
Proof.
  induction c as [|x c IH]; simpl; intros H.
  - reflexivity.
  - apply Bool.orb_false_iff in H as [Hx Hc]. rewrite Hx, (IH Hc). reflexivity.
Qed.

Lemma cuid_split c k : memb colon c = false -> cuid_to_id (cuid_of c k) = (c, k).
Proof.
  intros H. unfold cuid_to_id, cuid_of. rewrite (index_byte_colon c k H).
  f_equal.
  - rewrite firstn_app, firstn_all, Nat.sub_diag. simpl. apply app_nil_r.
  - replace (S (length c)) with (length (c ++ [colon])) by (rewrite app_length; simpl; lia).
    replace (c ++ colon :: k) with ((c ++ [colon]) ++ k) by (rewrite <- app_assoc; reflexivity).
    rewrite skipn_app, skipn_all, Nat.sub_diag. reflexivity.
Qed.

Lemma index_byte_split x s i :
  index_byte x s = Some i -> s = firstn i s ++ x :: skipn (S i) s.
Proof.
  revert i. induction s as [|y s IH]; simpl; intros i; [discriminate|].
  destruct (y =? x) eqn:E.
  - apply N.eqb_eq in E. subst. intros [= <-]. reflexivity.
  - destruct (index_byte x s) as [j|]; simpl; [|discriminate]. intros [= <-]. simpl.
    f_equal. apply IH. reflexivity.
Qed.

Lemma cuid_join c C k : cuid_to_id c = (C, k) -> C <> [] -> c = cuid_of C k.
Proof.
  unfold cuid_to_id, cuid_of. destruct (index_byte colon c) as [i|] eqn:E.
  - intros [= <- <-] _. apply index_byte_split. exact E.
  - intros [= <- <-] H. congruence.
Qed.

(* ---- lists of handler ids ------------------------------------------------------- *)

Lemma mem_id_in h l : mem_id h l = true <-> In h l.
Proof.
  induction l as [|x l IH]; simpl; [split; [discriminate|tauto]|].
  rewrite Bool.orb_true_iff, IH, N.eqb_eq. tauto.
Qed.

Lemma remove_id_in h l x : In x (remove_id h l) <-> x <> h /\ In x l.
Proof.
  induction l as [|y l IH]; simpl; [tauto|].
  destruct (y =? h) eqn:E.
  - apply N.eqb_eq in E. subst y. rewrite IH. split; [tauto|]. intros [Hn [Hi|Hi]]; [congruence|auto].
  - apply N.eqb_neq in E. simpl. rewrite IH. split.
    + intros [Hi|Hi]; [subst; auto|tauto].
    + intros [Hn [Hi|Hi]]; auto.
Qed.

Lemma remove_id_nodup h l : NoDup l -> NoDup (remove_id h l).
Proof.
  induction l as [|y l IH]; simpl; intros Hnd; [constructor|].
  inversion Hnd; subst. destruct (y =? h); [auto|].
  constructor; [|auto]. rewrite remove_id_in. tauto.
Qed.

Lemma nodup_map_via {A B C} (f : A -> B) (g : A -> C) (l : list A) :
  NoDup (List.map g l) ->
  (forall x y, In x l -> In y l -> f x = f y -> g x = g y) ->
  NoDup (List.map f l).
Proof.
  induction l as [|a l IH]; simpl; intros Hnd Hfg; [constructor|].
  inversion Hnd as [|? ? Hni Hnd']; subst. constructor.
  - intros Hi. apply in_map_iff in Hi as [y [Hfy Hy]]. apply Hni.
    apply in_map_iff. exists y. split; [|exact Hy]. apply Hfg; auto.
  - apply IH; [exact Hnd'|]. intros x y Hx Hy. apply Hfg; auto.
Qed.

Lemma nodup_filter_map {A B} (f : A -> B) (p : A -> bool) (l : list A) :
  NoDup (List.map f l) -> NoDup (List.map f (filter p l)).
Proof.
  induction l as [|a l IH]; simpl; intros Hnd; [constructor|].
  inversion Hnd as [|? ? Hni Hnd']; subst. destruct (p a); simpl; [|auto].
  constructor; [|auto]. intros Hi. apply Hni. apply in_map_iff in Hi as [y [Hy Hi]].
  apply filter_In in Hi as [Hi _]. apply in_map_iff. exists y. auto.
Qed.

Lemma nodup_app_disjoint {A} (l1 l2 : list A) :
  NoDup l1 -> NoDup l2 -> (forall x, In x l1 -> In x l2 -> False) -> NoDup (l1 ++ l2).
Proof.
  induction l1 as [|a l1 IH]; simpl; intros H1 H2 Hd; [exact H2|].
  inversion H1; subst. constructor.
  - rewrite in_app_iff. intros [Hi|Hi]; [auto|]. apply (Hd a); auto.
  - apply IH; auto. intros x Hx. apply Hd. auto.
Qed.

(* ---- the refinement relation ------------------------------------------------------ *)

Section Table.
  Variable uid_of : N -> str.
  Variable decl : N -> hdecl.
  Hypothesis uid_inj : forall h h', uid_of h = uid_of h' -> h = h'.
  Hypothesis uid_nocolon : forall h, memb colon (uid_of h) = false.
  Hypothesis uid_nonempty : forall h, uid_of h <> [].

  Notation up_cmd := (up_cmd decl).
  Notation reg_key := (reg_key uid_of decl).
  Notation reg_cuid := (reg_cuid uid_of decl).
  Notation reg_val := (reg_val decl).

  (* the statement's hypothesis on command tokens: no ':' (and not empty) *)
  Definition cmd_ok (h : N) : Prop :=
    memb colon (hd_cmd (decl h)) = false /\ hd_cmd (decl h) <> [].

  Definition entry_of (h : N) : str * hval := (reg_key h, reg_val h).

  Lemma entry_inj h h' : fst (entry_of h) = fst (entry_of h') -> h = h'.
  Proof.
    unfold entry_of, Dispatch.reg_key. simpl. intros E.
    apply key_inj in E as [E _]; auto.
  Qed.

  Lemma reg_key_nonempty h : reg_key h <> [].
  Proof.
    unfold Dispatch.reg_key, key_of. destruct (hd_bg (decl h)); [|apply uid_nonempty].
    intros E. apply app_eq_nil in E as [_ E]. discriminate.
  Qed.

  Lemma up_cmd_ok h : cmd_ok h -> memb colon (up_cmd h) = false /\ up_cmd h <> [].
  Proof.
    intros [Hc Hn]. unfold Dispatch.up_cmd. split; [rewrite memb_colon_upper; exact Hc|].
    unfold go_upper, to_upper_ascii. destruct (hd_cmd (decl h)); [congruence|discriminate].
  Qed.

  (* one of the two maps against the registry: [b] = true for the internal map *)
  Definition mrel (m : hmap) (reg : list N) (b : bool) : Prop :=
    (forall c kv, In kv (group_of m c) <->
       exists h, In h reg /\ hd_int (decl h) = b /\ up_cmd h = c /\ kv = entry_of h) /\
    (forall c, NoDup (List.map fst (group_of m c))).

  Record Rel (t : table) (reg : list N) : Prop := mkRel {
    rel_ext : mrel (t_ext t) reg false;
    rel_int : mrel (t_int t) reg true;
    rel_nd : NoDup reg;
    rel_ok : forall h, In h reg -> cmd_ok h }.

  Lemma rel_empty : Rel empty_table [].
  Proof.
    constructor; try (split; [intros c kv; simpl; split; [tauto|intros [h [[] _]]]|intros c; constructor]).
    - constructor.
    - intros h [].
  Qed.

  Lemma mrel_other m reg b h : mrel m reg b -> hd_int (decl h) <> b -> mrel m (h :: reg) b.
  Proof.
    intros [Hin Hnd] Hb. split; [|exact Hnd]. intros c kv. rewrite Hin. split.
    - intros [h' [Hi Hr]]. exists h'. simpl. tauto.
    - intros [h' [[->|Hi] [Hf Hr]]]; [congruence|]. exists h'. tauto.
  Qed.

  Lemma mrel_hput m reg b h :
    mrel m reg b -> hd_int (decl h) = b -> ~ In h reg ->
    mrel (hput m (up_cmd h) (reg_key h) (reg_val h)) (h :: reg) b.
  Proof.
    intros [Hin Hnd] Hb Hni. split.
    - intros c kv. rewrite group_of_hput. destruct (streqb c (up_cmd h)) eqn:E.
      + apply streqb_eq in E. subst c. destruct kv as [k v]. rewrite in_aset, Hin. split.
        * intros [[-> ->]|[Hk [h' [Hi [Hf [Hc Hkv]]]]]].
          -- exists h. simpl. auto.
          -- exists h'. simpl. auto.
        * intros [h' [[->|Hi] [Hf [Hc Hkv]]]].
          -- left. inversion Hkv. auto.
          -- right. split.
             ++ intros Hk. apply Hni. assert (h' = h) as <-; [|exact Hi].
                apply entry_inj. rewrite <- Hkv. simpl. exact Hk.
             ++ exists h'. auto.
      + apply streqb_neq in E. rewrite Hin. split.
        * intros [h' [Hi Hr]]. exists h'. simpl. tauto.
        * intros [h' [[->|Hi] [Hf [Hc Hkv]]]]; [congruence|]. exists h'. tauto.
    - intros c. rewrite group_of_hput. destruct (streqb c (up_cmd h)); [|apply Hnd].
      apply nodup_aset. apply Hnd.
  Qed.

  Lemma rel_add t reg h :
    Rel t reg -> ~ In h reg -> cmd_ok h ->
    Rel (fst (add_handler uid_of decl t h)) (sp_add reg h) /\
    snd (add_handler uid_of decl t h) = reg_cuid h.
  Proof.
    intros [He Hi Hnd Hok] Hni Hc. split; [|reflexivity].
    unfold add_handler, register, sp_add. simpl.
    destruct (hd_int (decl h)) eqn:Eint; simpl.
    - constructor; simpl.
      + apply mrel_other; [exact He|congruence].
      + apply mrel_hput; auto.
      + constructor; auto.
      + intros h' [<-|H']; auto.
    - constructor; simpl.
      + apply mrel_hput; auto.
      + apply mrel_other; [exact Hi|congruence].
      + constructor; auto.
      + intros h' [<-|H']; auto.
  Qed.

  (* Remove(cuid of h) *)
  Lemma rel_remove t reg h :
    Rel t reg -> cmd_ok h ->
    Rel (fst (remove t (reg_cuid h))) (fst (sp_remove decl reg h)) /\
    snd (remove t (reg_cuid h)) = snd (sp_remove decl reg h).
  Proof.
    intros HR Hc. destruct HR as [[Hein Hend] Hi Hnd Hok].
    destruct (up_cmd_ok h Hc) as [Hcolon Hne].
    unfold remove, Dispatch.reg_cuid. rewrite (cuid_split _ _ Hcolon).
    pose proof (reg_key_nonempty h) as Hkne.
    destruct (up_cmd h) as [|c0 cr] eqn:EC; [congruence|].
    destruct (reg_key h) as [|k0 kr] eqn:EK; [congruence|].
    rewrite <- EC, <- EK. clear Hne Hkne.
    unfold sp_remove, sp_ext.
    destruct (mem_id h reg && negb (hd_int (decl h))) eqn:Elive.
    - (* registered and external: found and deleted *)
      apply Bool.andb_true_iff in Elive as [Hm Hx]. apply mem_id_in in Hm.
      apply Bool.negb_true_iff in Hx.
      assert (In (entry_of h) (group_of (t_ext t) (up_cmd h))) as Hent.
      { apply Hein. exists h. auto. }
      unfold group_of in Hent. destruct (alookup (up_cmd h) (t_ext t)) as [g|] eqn:Eg; [|destruct Hent].
      assert (alookup (reg_key h) g = Some (reg_val h)) as Elk.
      { apply in_alookup; [|exact Hent]. specialize (Hend (up_cmd h)). unfold group_of in Hend.
        rewrite Eg in Hend. exact Hend. }
      rewrite Elk. simpl. split; [|reflexivity].
      constructor; simpl.
      + split.
        * intros c kv. rewrite group_of_aset. destruct (streqb c (up_cmd h)) eqn:E.
          -- apply streqb_eq in E. subst c. destruct kv as [k v]. rewrite in_aremove.
             assert (group_of (t_ext t) (up_cmd h) = g) as Hg by (unfold group_of; rewrite Eg; reflexivity).
             rewrite <- Hg, Hein. split.
             ++ intros [Hk [h' [Hi' [Hf [Hc' Hkv]]]]]. exists h'. split; [|auto].
                apply remove_id_in. split; [|exact Hi']. intros ->. inversion Hkv. congruence.
             ++ intros [h' [Hi' [Hf [Hc' Hkv]]]]. apply remove_id_in in Hi' as [Hn Hi'].
                split; [|exists h'; auto]. intros Hk. apply Hn. apply entry_inj.
                rewrite <- Hkv. simpl. exact Hk.
          -- apply streqb_neq in E. rewrite Hein. split.
             ++ intros [h' [Hi' [Hf [Hc' Hkv]]]]. exists h'. split; [|auto].
                apply remove_id_in. split; [|exact Hi']. intros ->. congruence.
             ++ intros [h' [Hi' Hr]]. apply remove_id_in in Hi' as [_ Hi']. exists h'. auto.
        * intros c. rewrite group_of_aset. destruct (streqb c (up_cmd h)); [|apply Hend].
          apply nodup_aremove. specialize (Hend (up_cmd h)). unfold group_of in Hend.
          rewrite Eg in Hend. exact Hend.
      + destruct Hi as [Hiin Hind]. split; [|exact Hind]. intros c kv. rewrite Hiin. split.
        * intros [h' [Hi' [Hf Hr]]]. exists h'. split; [|auto].
          apply remove_id_in. split; [|exact Hi']. intros ->. congruence.
        * intros [h' [Hi' Hr]]. apply remove_id_in in Hi' as [_ Hi']. exists h'. auto.
      + apply remove_id_nodup. exact Hnd.
      + intros h' Hi'. apply remove_id_in in Hi' as [_ Hi']. auto.
    - (* not a registered external handler: nothing found *)
      assert (forall v, ~ In (reg_key h, v) (group_of (t_ext t) (up_cmd h))) as Hno.
      { intros v Hin. apply Hein in Hin as [h' [Hi' [Hf [Hc' Hkv]]]].
        assert (h' = h) as -> by (apply entry_inj; rewrite <- Hkv; reflexivity).
        apply Bool.andb_false_iff in Elive as [Hm|Hx].
        - apply mem_id_in in Hi'. congruence.
        - rewrite Hf in Hx. discriminate. }
      assert (Rel t reg) as HR by (constructor; [split|..]; auto).
      unfold group_of in Hno. destruct (alookup (up_cmd h) (t_ext t)) as [g|] eqn:Eg; [|auto].
      destruct (alookup (reg_key h) g) as [v|] eqn:Elk; [|auto].
      exfalso. apply (Hno v). apply alookup_in. exact Elk.
  Qed.

  Lemma rel_clear t reg cmd : Rel t reg -> Rel (clear t cmd) (sp_clear decl reg cmd).
  Proof.
    intros [[Hein Hend] [Hiin Hind] Hnd Hok]. unfold clear, sp_clear, sp_ext, sp_cmd.
    constructor; simpl.
    - split.
      + intros c kv. rewrite group_of_aremove. destruct (streqb c (go_upper cmd)) eqn:E.
        * apply streqb_eq in E. subst c. split; [intros []|].
          intros [h [Hi [Hf [Hc Hkv]]]]. apply filter_In in Hi as [Hi Hp].
          rewrite Hf in Hp. unfold Dispatch.up_cmd in Hc. rewrite Hc, streqb_refl in Hp. discriminate.
        * rewrite Hein. split.
          -- intros [h [Hi [Hf [Hc Hkv]]]]. exists h. split; [|auto]. apply filter_In.
             split; [exact Hi|]. unfold Dispatch.up_cmd in Hc. rewrite Hc, E.
             rewrite Bool.andb_false_r. reflexivity.
          -- intros [h [Hi Hr]]. apply filter_In in Hi as [Hi _]. exists h. auto.
      + intros c. rewrite group_of_aremove. destruct (streqb c (go_upper cmd)); [constructor|apply Hend].
    - split; [|exact Hind]. intros c kv. rewrite Hiin. split.
      + intros [h [Hi [Hf Hr]]]. exists h. split; [|auto]. apply filter_In. split; [exact Hi|].
        rewrite Hf. reflexivity.
      + intros [h [Hi Hr]]. apply filter_In in Hi as [Hi _]. exists h. auto.
    - apply NoDup_filter. exact Hnd.
    - intros h Hi. apply filter_In in Hi as [Hi _]. auto.
  Qed.

  Lemma rel_clear_all t reg : Rel t reg -> Rel (clear_all t) (sp_clear_all decl reg).
  Proof.
    intros [[Hein Hend] [Hiin Hind] Hnd Hok]. unfold clear_all, sp_clear_all, sp_ext.
    constructor; simpl.
    - split; [|intros c; constructor]. intros c kv. simpl. split; [intros []|].
      intros [h [Hi [Hf _]]]. apply filter_In in Hi as [_ Hp]. rewrite Hf in Hp. discriminate.
    - split; [|exact Hind]. intros c kv. rewrite Hiin. split.
      + intros [h [Hi [Hf Hr]]]. exists h. split; [|auto]. apply filter_In. split; [exact Hi|].
        rewrite Hf. reflexivity.
      + intros [h [Hi Hr]]. apply filter_In in Hi as [Hi _]. exists h. auto.
    - apply NoDup_filter. exact Hnd.
    - intros h Hi. apply filter_In in Hi as [Hi _]. auto.
  Qed.

  (* ---- selection ------------------------------------------------------------- *)

  Lemma pick_in m reg b c bg h :
    mrel m reg b ->
    (In h (List.map (fun kv : str * hval => hv_id (snd kv)) (pick m c bg)) <->
     In h reg /\ hd_int (decl h) = b /\ up_cmd h = c /\ hd_bg (decl h) = bg).
  Proof.
    intros [Hin Hnd]. unfold pick. rewrite in_map_iff. split.
    - intros [[k v] [Hh Hi]]. apply filter_In in Hi as [Hi Hp]. simpl in *.
      apply Hin in Hi as [h' [Hi [Hf [Hc Hkv]]]]. inversion Hkv; subst. simpl.
      repeat split; auto. apply Bool.eqb_prop in Hp. rewrite <- Hp.
      unfold Dispatch.reg_key. symmetry. apply key_bg. apply uid_nocolon.
    - intros [Hi [Hf [Hc Hb]]]. exists (entry_of h). split; [reflexivity|].
      apply filter_In. split; [apply Hin; exists h; auto|]. simpl.
      unfold Dispatch.reg_key. rewrite key_bg; [|apply uid_nocolon]. rewrite Hb. apply Bool.eqb_reflx.
  Qed.

  Lemma pick_nodup m reg b c bg :
    mrel m reg b -> NoDup (List.map (fun kv : str * hval => hv_id (snd kv)) (pick m c bg)).
  Proof.
    intros [Hin Hnd]. unfold pick.
    apply (nodup_map_via _ fst).
    - apply nodup_filter_map. apply Hnd.
    - intros x y Hx Hy E. apply filter_In in Hx as [Hx _]. apply filter_In in Hy as [Hy _].
      apply Hin in Hx as [hx [_ [_ [_ ->]]]]. apply Hin in Hy as [hy [_ [_ [_ ->]]]].
      simpl in E. subst. reflexivity.
  Qed.

  Theorem sel_ids_in t reg c bg h :
    Rel t reg -> (In h (sel_ids t c bg) <-> In h reg /\ up_cmd h = c /\ hd_bg (decl h) = bg).
  Proof.
    intros [He Hi _ _]. unfold sel_ids, select. rewrite map_app, in_app_iff.
    rewrite (pick_in _ _ _ c bg h Hi), (pick_in _ _ _ c bg h He).
    destruct (hd_int (decl h)); intuition discriminate.
  Qed.

  Theorem sel_ids_nodup t reg c bg : Rel t reg -> NoDup (sel_ids t c bg).
  Proof.
    intros [He Hi _ _]. unfold sel_ids, select. rewrite map_app.
    apply nodup_app_disjoint.
    - apply (pick_nodup _ _ _ c bg Hi).
    - apply (pick_nodup _ _ _ c bg He).
    - intros h H1 H2. apply (pick_in _ _ _ c bg h Hi) in H1 as [_ [E1 _]].
      apply (pick_in _ _ _ c bg h He) in H2 as [_ [E2 _]]. congruence.
  Qed.

  (* ---- Remove of a string that is nobody's id ---------------------------------- *)

  Lemma remove_unknown t reg c :
    Rel t reg -> (forall h, In h reg -> reg_cuid h <> c) -> remove t c = (t, false).
  Proof.
    intros [[Hein Hend] _ _ _] Hno. unfold remove.
    destruct (cuid_to_id c) as [C k] eqn:Esplit.
    destruct C as [|c0 cr]; [reflexivity|].
    destruct k as [|k0 kr]; [reflexivity|].
    destruct (alookup (c0 :: cr) (t_ext t)) as [g|] eqn:Eg; [|reflexivity].
    destruct (alookup (k0 :: kr) g) as [v|] eqn:Elk; [|reflexivity].
    exfalso. apply alookup_in in Elk.
    assert (In (k0 :: kr, v) (group_of (t_ext t) (c0 :: cr))) as Hin
      by (unfold group_of; rewrite Eg; exact Elk).
    apply Hein in Hin as [h [Hi [_ [Hc Hkv]]]]. apply (Hno h Hi).
    unfold Dispatch.reg_cuid. inversion Hkv. rewrite Hc. symmetry. apply cuid_join.
    - exact Esplit.
    - discriminate.
  Qed.

  (* ---- every operation refines its specification -------------------------------- *)

  Definition top_ok (reg : list N) (o : top) : Prop :=
    match o with
    | TAdd h => ~ In h reg /\ cmd_ok h
    | TRemove h => cmd_ok h
    | TRemoveRaw c => forall h, In h reg -> reg_cuid h <> c
    | _ => True
    end.

  Theorem apply_top_refines t reg o :
    Rel t reg -> top_ok reg o ->
    Rel (fst (apply_top uid_of decl t o)) (fst (sp_apply decl reg o)) /\
    snd (apply_top uid_of decl t o) = snd (sp_apply decl reg o).
  Proof.
    intros HR Hok. destruct o as [h|h|c|c|]; simpl in *.
    - destruct Hok as [Hni Hc]. split; [|reflexivity]. apply (rel_add t reg h HR Hni Hc).
    - apply rel_remove; auto.
    - rewrite (remove_unknown t reg c HR Hok). simpl. auto.
    - split; [|reflexivity]. apply rel_clear. exact HR.
    - split; [|reflexivity]. apply rel_clear_all. exact HR.
  Qed.

  Fixpoint tops_ok (reg : list N) (ops : list top) : Prop :=
    match ops with
    | [] => True
    | o :: r => top_ok reg o /\ tops_ok (fst (sp_apply decl reg o)) r
    end.

  Theorem run_tops_refines ops : forall t reg,
    Rel t reg -> tops_ok reg ops -> Rel (run_tops uid_of decl t ops) (sp_run decl reg ops).
  Proof.
    induction ops as [|o ops IH]; simpl; intros t reg HR Hok; [exact HR|].
    destruct Hok as [Ho Hr]. apply IH; [|exact Hr].
    apply (apply_top_refines t reg o HR Ho).
  Qed.

  (* ---- the four phases of RunHandlers --------------------------------------------- *)

  Lemma route_spec h e k :
    ev_cmd e <> star ->
    (route decl h e = Some k <->
     (up_cmd h = star /\ k = if hd_bg (decl h) then 0 else 2)%nat \/
     (up_cmd h = ev_cmd e /\ ev_echo e = false /\ k = if hd_bg (decl h) then 1 else 3)%nat).
  Proof.
    intros Hstar. unfold route, sp_cmd, Dispatch.up_cmd.
    destruct (streqb (go_upper (hd_cmd (decl h))) star) eqn:Es.
    - apply streqb_eq in Es. split.
      + intros [= <-]. left. auto.
      + intros [[_ ->]|[Hc _]]; [reflexivity|congruence].
    - apply streqb_neq in Es.
      destruct (streqb (go_upper (hd_cmd (decl h))) (ev_cmd e)) eqn:Ec; simpl.
      + apply streqb_eq in Ec. destruct (ev_echo e); simpl.
        * split; [discriminate|]. intros [[Hc _]|[_ [Hf _]]]; [congruence|discriminate].
        * split.
          -- intros [= <-]. right. auto.
          -- intros [[Hc _]|[_ [_ ->]]]; [congruence|reflexivity].
      + apply streqb_neq in Ec. split; [discriminate|].
        intros [[Hc _]|[Hc _]]; congruence.
  Qed.

  Lemma phase_ids_unfold t e k :
    phase_ids t e k = match phase_arg e k with Some (c, bg) => sel_ids t c bg | None => [] end.
  Proof. unfold phase_ids, phase_sel, sel_ids. destruct (phase_arg e k) as [[c bg]|]; reflexivity. Qed.

  Theorem phase_ids_in t reg e k h :
    Rel t reg -> ev_cmd e <> star ->
    (In h (phase_ids t e k) <-> In h reg /\ route decl h e = Some k).
  Proof.
    intros HR Hstar. rewrite phase_ids_unfold, (route_spec h e k Hstar).
    pose proof (fun c bg => sel_ids_in t reg c bg h HR) as Hsel.
    destruct k as [|[|[|[|k]]]]; simpl; destruct (ev_echo e); simpl; try rewrite Hsel;
      destruct (hd_bg (decl h)); intuition (congruence || discriminate || lia).
  Qed.

  Theorem phase_ids_nodup t reg e k : Rel t reg -> NoDup (phase_ids t e k).
  Proof.
    intros HR. rewrite phase_ids_unfold. destruct (phase_arg e k) as [[c bg]|]; [|constructor].
    apply (sel_ids_nodup t reg c bg HR).
  Qed.

  Lemma dispatch_piece t e k :
    List.map (fun x : str * hval * bool => hv_id (snd (fst x)))
      (match phase_arg e k with
       | Some (c, bg) => List.map (fun kv : str * hval => (cuid_of c (fst kv), snd kv, bg)) (select t c bg)
       | None => []
       end) = phase_ids t e k.
  Proof.
    rewrite phase_ids_unfold. destruct (phase_arg e k) as [[c bg]|]; [|reflexivity].
    unfold sel_ids. rewrite map_map. reflexivity.
  Qed.

  Lemma flat_map_4 {X} (f : nat -> list X) :
    flat_map f [0; 1; 2; 3]%nat = f 0%nat ++ f 1%nat ++ f 2%nat ++ f 3%nat.
  Proof. simpl. rewrite app_nil_r. reflexivity. Qed.

  Lemma dispatch_ids_phases t e :
    dispatch_ids t e = phase_ids t e 0 ++ phase_ids t e 1 ++ phase_ids t e 2 ++ phase_ids t e 3.
  Proof.
    unfold dispatch_ids, dispatch. rewrite flat_map_4. cbv beta.
    rewrite !map_app, !dispatch_piece. reflexivity.
  Qed.

  (* the dispatch set of one event: exactly the handlers registered for its (upper-cased)
     command or for "*" (command groups only when it is not an echo), each once *)
  Theorem dispatch_exact t reg e :
    Rel t reg -> ev_cmd e <> star ->
    NoDup (dispatch_ids t e) /\
    forall h, In h (dispatch_ids t e) <-> In h reg /\ routed decl h e = true.
  Proof.
    intros HR Hstar. rewrite dispatch_ids_phases.
    pose proof (fun k h => phase_ids_in t reg e k h HR Hstar) as Hin.
    pose proof (fun k => phase_ids_nodup t reg e k HR) as Hnd.
    assert (forall k1 k2 h, In h (phase_ids t e k1) -> In h (phase_ids t e k2) -> k1 = k2) as Hdis.
    { intros k1 k2 h H1 H2. apply Hin in H1 as [_ H1]. apply Hin in H2 as [_ H2]. congruence. }
    split.
    - repeat apply nodup_app_disjoint; auto; intros h H1 H2; rewrite ?in_app_iff in H2;
        repeat (destruct H2 as [H2|H2]); pose proof (Hdis _ _ _ H1 H2); discriminate.
    - intros h. rewrite !in_app_iff, !Hin. unfold routed.
      destruct (route decl h e) as [k|] eqn:Er.
      + split; [tauto|]. intros [Hi _].
        assert (In h (phase_ids t e k)) as Hk by (apply Hin; auto).
        rewrite phase_ids_unfold in Hk.
        destruct k as [|[|[|[|k]]]]; simpl in Hk; [tauto..|destruct Hk].
      + split; [|intros [_ Hf]; discriminate]. intros H; repeat (destruct H as [H|H]); destruct H; discriminate.
  Qed.

  Corollary dispatch_perm t reg e :
    Rel t reg -> ev_cmd e <> star -> Permutation (dispatch_ids t e) (sp_targets decl reg e).
  Proof.
    intros HR Hstar. destruct (dispatch_exact t reg e HR Hstar) as [Hnd Hin].
    apply NoDup_Permutation; [exact Hnd|apply NoDup_filter; apply (rel_nd _ _ HR)|].
    intros h. rewrite Hin. unfold sp_targets. rewrite filter_In. tauto.
  Qed.
End Table.

(* ---- the hypotheses are satisfiable, on a table that is not trivial ---------------- *)

Definition ex_uid (h : N) : str := repeat 97 (S (N.to_nat h)).
Definition ex_decl (h : N) : hdecl :=
  match h with
  | 0 => mkHD (bs "Foo") false false false false
  | 1 => mkHD (bs "*") true false false false
  | 2 => mkHD (bs "foo") true true false true
  | _ => mkHD (bs "PING") false false true false
  end.
Definition ex_ops : list top := [TAdd 3; TAdd 0; TAdd 1; TAdd 2; TRemove 0; TClear (bs "bar")].

Lemma ex_uid_inj h h' : ex_uid h = ex_uid h' -> h = h'.
Proof.
  unfold ex_uid. intros E. apply (f_equal (@length N)) in E. rewrite !repeat_length in E. lia.
Qed.

Lemma ex_uid_nocolon h : memb colon (ex_uid h) = false.
Proof.
  unfold ex_uid. induction (S (N.to_nat h)) as [|n IH]; simpl; [reflexivity|exact IH].
Qed.

Lemma ex_uid_nonempty h : ex_uid h <> [].
Proof. unfold ex_uid. simpl. discriminate. Qed.

Example table_hypotheses_satisfiable :
  tops_ok ex_uid ex_decl [] ex_ops /\
  sp_run ex_decl [] ex_ops = [2; 1; 3] /\
  dispatch_ids (run_tops ex_uid ex_decl empty_table ex_ops) (mkEv (bs "FOO") false) = [1; 2] /\
  dispatch_ids (run_tops ex_uid ex_decl empty_table ex_ops) (mkEv (bs "FOO") true) = [1].
Proof.
  split; [|split; [reflexivity|split; reflexivity]].
  unfold ex_ops, tops_ok, top_ok, cmd_ok. simpl.
  repeat split; try discriminate; try reflexivity; try tauto;
    intros H; repeat (destruct H as [H|H]; [discriminate|]); exact H.
Qed.

(* ---- closed statements (what Properties/C06.v exports) ------------------------------ *)

(* the fresh-id oracle: uids never repeat, contain no ':' and are not empty *)
Definition uid_ok (uid_of : N -> str) : Prop :=
  (forall h h', uid_of h = uid_of h' -> h = h') /\
  (forall h, memb colon (uid_of h) = false) /\
  (forall h, uid_of h <> []).

Lemma ex_uid_ok : uid_ok ex_uid.
Proof. split; [exact ex_uid_inj|split; [exact ex_uid_nocolon|exact ex_uid_nonempty]]. Qed.

Theorem table_refines uid_of decl :
  uid_ok uid_of ->
  forall ops, tops_ok uid_of decl [] ops ->
  Rel uid_of decl (run_tops uid_of decl empty_table ops) (sp_run decl [] ops).
Proof.
  intros [H1 [H2 H3]] ops Hok.
  exact (run_tops_refines uid_of decl H1 H2 H3 ops empty_table [] (rel_empty uid_of decl) Hok).
Qed.

Theorem table_step uid_of decl :
  uid_ok uid_of ->
  forall t reg o, Rel uid_of decl t reg -> top_ok uid_of decl reg o ->
  Rel uid_of decl (fst (apply_top uid_of decl t o)) (fst (sp_apply decl reg o)) /\
  snd (apply_top uid_of decl t o) = snd (sp_apply decl reg o).
Proof. intros [H1 [H2 H3]]. exact (apply_top_refines uid_of decl H1 H2 H3). Qed.

Theorem table_dispatch uid_of decl :
  uid_ok uid_of ->
  forall t reg e, Rel uid_of decl t reg -> ev_cmd e <> star ->
  NoDup (dispatch_ids t e) /\
  (forall h, In h (dispatch_ids t e) <-> In h reg /\ routed decl h e = true) /\
  Permutation (dispatch_ids t e) (sp_targets decl reg e).
Proof.
  intros [H1 [H2 H3]] t reg e HR Hs.
  destruct (dispatch_exact uid_of decl H2 t reg e HR Hs) as [A B].
  split; [exact A|split; [exact B|]]. exact (dispatch_perm uid_of decl H2 t reg e HR Hs).
Qed.

(* ---- the echo predicate ----------------------------------------------------------------------- *)
Require Import Names NamesProofs.

Lemma is_echo_spec cmd src nick :
  is_echo cmd src nick = true <->
  (cmd = PRIVMSG_cmd \/ cmd = NOTICE_cmd) /\ src <> [] /\ to_rfc1459 src = to_rfc1459 nick.
Proof.
  unfold is_echo. rewrite !Bool.andb_true_iff, Bool.orb_true_iff, !streqb_eq.
  destruct src as [|b src]; simpl; split.
  - intros [[_ H] _]. discriminate.
  - intros [_ [H _]]. congruence.
  - intros [[H _] E]. repeat split; auto. discriminate.
  - intros [H [_ E]]. auto.
Qed.

(* it does not depend on the RFC1459 case of either nick *)
Lemma is_echo_case cmd src nick src' nick' :
  to_rfc1459 src = to_rfc1459 src' -> to_rfc1459 nick = to_rfc1459 nick' ->
  is_echo cmd src nick = is_echo cmd src' nick'.
Proof.
  intros Es En. unfold is_echo. rewrite Es, En. f_equal. f_equal.
  destruct src, src'; simpl in *; try reflexivity; discriminate.
Qed.

Example is_echo_ex :
  is_echo (bs "NOTICE") (bs "ME{1}") (bs "me[1]") = true /\
  is_echo (bs "PRIVMSG") (bs "me") (bs "Me0") = false /\
  is_echo (bs "JOIN") (bs "me") (bs "me") = false.
Proof. repeat split; reflexivity. Qed.
