(* Proofs for C17 (PING answered; nick collisions retried) about Model/PingNick.v. *)
From Coq Require Import Lia ZifyBool ZifyN ZifyNat.
Require Import Bytes Names PingNick PingNickSpec.

(* ---- small facts ---------------------------------------------------------- *)

Lemma streqb_refl : forall a, streqb a a = true.
Proof. induction a as [|x a IH]; cbn; [reflexivity|]. rewrite N.eqb_refl. exact IH. Qed.

Lemma streqb_eq : forall a b, streqb a b = true <-> a = b.
Proof.
  induction a as [|x a IH]; destruct b as [|y b]; cbn; split; intro H; try reflexivity; try discriminate.
  - apply andb_true_iff in H. destruct H as [H1 H2]. apply N.eqb_eq in H1. apply IH in H2. congruence.
  - inversion H; subst. rewrite N.eqb_refl. apply streqb_refl.
Qed.

Lemma app_underscores_length : forall (b : str) k, length (b ++ repeat underscore k) = (length b + k)%nat.
Proof. intros. rewrite app_length, repeat_length. reflexivity. Qed.

Lemma repeat_snoc : forall (x : N) k, repeat x k ++ [x] = repeat x (S k).
Proof. induction k as [|k IH]; cbn; [reflexivity|]. f_equal. exact IH. Qed.

(* appending underscores keeps a nickname a nickname *)
Lemma memb_app : forall c a b, memb c (a ++ b) = memb c a || memb c b.
Proof.
  induction a as [|x a IH]; intro b; cbn [app memb]; [reflexivity|].
  rewrite IH, orb_assoc. reflexivity.
Qed.

Lemma nick_like_app_underscore : forall n, nick_like n = true -> nick_like (n ++ [underscore]) = true.
Proof.
  intros [|c r] H; [discriminate|]. unfold nick_like in *. cbn [app] in *.
  apply andb_true_iff in H. destruct H as [H1 H2]. rewrite H1. cbn [andb].
  change (c :: r ++ [underscore]) with ((c :: r) ++ [underscore]). rewrite !memb_app.
  apply negb_true_iff in H2. apply orb_false_iff in H2. destruct H2 as [H32 H44].
  rewrite H32, H44. reflexivity.
Qed.

Lemma nick_like_app_underscores : forall k n, nick_like n = true -> nick_like (n ++ repeat underscore k) = true.
Proof.
  induction k as [|k IH]; intros n H; cbn [repeat].
  - rewrite app_nil_r. exact H.
  - replace (n ++ underscore :: repeat underscore k) with ((n ++ [underscore]) ++ repeat underscore k)
      by (rewrite <- app_assoc; reflexivity).
    apply IH. apply nick_like_app_underscore. exact H.
Qed.

Lemma nick_like_named : forall n, nick_like n = true -> collision_named n = true.
Proof.
  intros [|c r] H; [discriminate|]. unfold nick_like in H. unfold collision_named.
  apply andb_true_iff in H. destruct H as [H1 H2]. rewrite H2. cbn [andb].
  unfold is_valid_channel.
  destruct (Nat.leb (length (c :: r)) 1 || Nat.ltb 50 (length (c :: r)))%bool; [reflexivity|].
  rewrite H1. reflexivity.
Qed.

Lemma nick_rest_no_sep : forall r, forallb nick_rest_ok r = true -> memb 32 r = false /\ memb 44 r = false.
Proof.
  induction r as [|b r IH]; intro H; [split; reflexivity|].
  cbn [forallb] in H. apply andb_true_iff in H. destruct H as [Hb Hr]. destruct (IH Hr) as [I1 I2].
  cbn [memb]. rewrite I1, I2, !orb_false_r.
  split; apply N.eqb_neq; intro E; subst b; discriminate.
Qed.

Lemma valid_nick_is_nick_like : forall n, is_valid_nick n = true -> nick_like n = true.
Proof.
  intros [|c r] H; [discriminate|]. cbn [is_valid_nick] in H.
  apply andb_true_iff in H. destruct H as [Hc Hr]. destruct (nick_rest_no_sep r Hr) as [H32 H44].
  unfold nick_like, chan_prefixes. cbn [memb]. rewrite H32, H44, !orb_false_r.
  repeat match goal with
         | |- context [N.eqb c ?k] => destruct (N.eqb_spec c k) as [E|_]; [subst c; discriminate|]
         | |- context [N.eqb ?k c] => destruct (N.eqb_spec k c) as [E|_]; [subst c; discriminate|]
         end.
  reflexivity.
Qed.

(* ---- PING ---------------------------------------------------------------- *)

(* exactly one output: a PONG through Client.write carrying Event.Last() *)
Lemma handle_ping_exact : forall params,
  handle_ping params = [mkOut Direct s_PONG [last_param params]].
Proof. reflexivity. Qed.

Lemma last_param_snoc : forall ps tok, last_param (ps ++ [tok]) = tok.
Proof. intros. unfold last_param. apply last_last. Qed.

(* the limiter is neither consulted nor moved, whatever its state and configuration *)
Lemma pong_bypasses_limiter : forall params allow_flood wd since len,
  exists o, handle_ping params = [o] /\
            o_cmd o = s_PONG /\ o_params o = [last_param params] /\
            dispatch_out allow_flood wd since len o = (wd, 0%Z).
Proof. intros. eexists. repeat split. Qed.

(* ... whereas an event sent through Client.Send is held back by a saturated limiter *)
Example limited_is_held_back : forall x,
  snd (dispatch_out false (9 * second) 0 8 (cmd_nick x)) = (second + 8 * second / 100)%Z.
Proof. intro. reflexivity. Qed.

(* every step of a session answers a PING, whatever the state *)
Lemma step_ping : forall cfg st src params,
  pn_step cfg st (mkEvent s_PING src params) = Ok (st, [cmd_pong (last_param params)]).
Proof. reflexivity. Qed.

(* ---- one collision numeric ------------------------------------------------ *)

Lemma own_nick_current : forall cfg st, own_nick cfg st = current_nick cfg st.
Proof. reflexivity. Qed.

Lemma collision_callback : forall cfg st params f,
  pc_collide cfg = Some f ->
  nick_collision cfg st params =
    Ok (match f (current_nick cfg st) with [] => [] | n => [cmd_nick n] end).
Proof.
  intros cfg st params f Hf. unfold nick_collision. rewrite Hf, own_nick_current.
  destruct (f (current_nick cfg st)); reflexivity.
Qed.

Lemma collision_default : forall cfg st params,
  pc_collide cfg = None ->
  nick_collision cfg st params = Ok [cmd_nick (collision_base (current_nick cfg st) params ++ [underscore])].
Proof.
  intros cfg st params Hf. unfold nick_collision. rewrite Hf. reflexivity.
Qed.

Lemma collision_base_echo : forall cur target rejected rest,
  nick_like rejected = true -> collision_base cur (target :: rejected :: rest) = rejected.
Proof. intros cur target rejected rest H. cbn. rewrite (nick_like_named _ H). reflexivity. Qed.

(* Whatever the numeric looks like: exactly one NICK, built on the nickname it names or on the
   current one, and never the nickname it names. *)
Lemma collision_default_any : forall cfg st params,
  pc_collide cfg = None ->
  exists b, nick_collision cfg st params = Ok [cmd_nick (b ++ [underscore])] /\
            ((exists t r, params = t :: b :: r /\ collision_named b = true) \/ b = current_nick cfg st) /\
            (forall t p r, params = t :: p :: r -> collision_named p = true -> b ++ [underscore] <> p).
Proof.
  intros cfg st params Hf. rewrite (collision_default _ _ _ Hf).
  exists (collision_base (current_nick cfg st) params). split; [reflexivity|]. split.
  - destruct params as [|t [|p r]]; cbn; try (right; reflexivity).
    destruct (collision_named p) eqn:Hp; [left; eauto | right; reflexivity].
  - intros t p r -> Hp. cbn. rewrite Hp. intro E.
    apply (f_equal (@length N)) in E. rewrite app_length in E. cbn in E. lia.
Qed.

Lemma is_collision_cmd_433 : is_collision_cmd s_433 = true. Proof. reflexivity. Qed.
Lemma is_collision_cmd_436 : is_collision_cmd s_436 = true. Proof. reflexivity. Qed.
Lemma is_collision_cmd_437 : is_collision_cmd s_437 = true. Proof. reflexivity. Qed.

Lemma is_collision_cmd_cases : forall c,
  is_collision_cmd c = true <-> c = s_433 \/ c = s_436 \/ c = s_437.
Proof.
  intro c. unfold is_collision_cmd. rewrite !orb_true_iff, !streqb_eq. tauto.
Qed.

Lemma collision_not_ping : forall c, is_collision_cmd c = true -> streqb c s_PING = false.
Proof.
  intros c H. apply is_collision_cmd_cases in H. destruct H as [->|[->| ->]]; reflexivity.
Qed.

Lemma step_collision : forall cfg st e,
  is_collision_cmd (e_cmd e) = true ->
  pn_step cfg st e = (outs <- nick_collision cfg st (e_params e) ;; Ok (st, outs)).
Proof.
  intros cfg st e H. unfold pn_step. rewrite (collision_not_ping _ H), H. reflexivity.
Qed.

(* ---- sessions against a server that names the nickname it refuses ---------- *)

Lemma step_other_no_nick : forall cfg st e,
  is_collision_cmd (e_cmd e) = false ->
  exists st' outs, pn_step cfg st e = Ok (st', outs) /\ filter is_nick_out outs = [] /\
                   forall req, next_req req outs = req.
Proof.
  intros cfg st e H. unfold pn_step. rewrite H.
  destruct (streqb (e_cmd e) s_PING).
  { eexists _, _. split; [reflexivity|]. split; reflexivity. }
  destruct (streqb (e_cmd e) s_001).
  { eexists _, _. split; [reflexivity|]. split; reflexivity. }
  destruct (streqb (e_cmd e) s_NICK && pc_tracking cfg).
  { eexists _, _. split; [reflexivity|]. split; reflexivity. }
  eexists _, _. split; [reflexivity|]. split; reflexivity.
Qed.

Lemma next_req_nick : forall req x, next_req req [cmd_nick x] = x.
Proof. reflexivity. Qed.

Lemma filter_nick_cmd_nick : forall x, filter is_nick_out [cmd_nick x] = [cmd_nick x].
Proof. reflexivity. Qed.

(* Main lemma: whatever state the client is in (before or after 001, whatever its current
   nickname) and whatever else arrives in between, the NICK lines it writes are exactly
   those of the machine above. *)
Lemma session_default : forall cfg items st req,
  pc_collide cfg = None ->
  nick_like req = true -> well_formed items ->
  exists outs, session cfg st req items = Ok outs /\
               List.map (filter is_nick_out) outs = expected_nicks req items.
Proof.
  intros cfg items. induction items as [|it r IH]; intros st req Hf Hreq Hwf.
  - exists []. split; reflexivity.
  - destruct it as [s|e|x]; cbn [well_formed] in Hwf; destruct Hwf as [H1 Hwf]; cbn [session expected_nicks].
    + assert (Hc : is_collision_cmd (e_cmd (numeric_of s req)) = true) by exact H1.
      rewrite (step_collision _ _ _ Hc). cbn [numeric_of e_params].
      rewrite (collision_default _ _ _ Hf), (collision_base_echo _ _ _ _ Hreq). cbn [rbind fst snd].
      rewrite next_req_nick.
      destruct (IH st (req ++ [underscore]) Hf (nick_like_app_underscore _ Hreq) Hwf) as [outs [Hs Hm]].
      rewrite Hs. cbn [rbind]. eexists. split; [reflexivity|]. cbn [List.map]. rewrite Hm. reflexivity.
    + destruct (step_other_no_nick cfg st e H1) as [st' [o [Hs [Hn Hr]]]].
      rewrite Hs. cbn [rbind fst snd]. rewrite Hr.
      destruct (IH st' req Hf Hreq Hwf) as [outs [Hs' Hm]].
      rewrite Hs'. cbn [rbind]. eexists. split; [reflexivity|]. cbn [List.map]. rewrite Hn, Hm. reflexivity.
    + destruct (IH st x Hf H1 Hwf) as [outs [Hs' Hm]].
      rewrite Hs'. cbn [rbind]. eexists. split; [reflexivity|]. cbn [List.map]. rewrite Hm. reflexivity.
Qed.

(* ---- counting consecutive collisions --------------------------------------- *)

Lemma expected_nicks_run : forall items base k,
  no_user items ->
  expected_nicks (base ++ repeat underscore k) items = expected_run base k items.
Proof.
  induction items as [|it r IH]; intros base k Hn; [reflexivity|].
  destruct it as [s|e|x]; cbn [no_user] in Hn; cbn [expected_nicks expected_run].
  - rewrite <- app_assoc, repeat_snoc. f_equal. apply IH. exact Hn.
  - f_equal. apply IH. exact Hn.
  - contradiction.
Qed.

Lemma session_default_run : forall cfg items st base,
  pc_collide cfg = None ->
  nick_like base = true -> well_formed items -> no_user items ->
  exists outs, session cfg st base items = Ok outs /\
               List.map (filter is_nick_out) outs = expected_run base 0 items.
Proof.
  intros cfg items st base Hf Hb Hwf Hn.
  destruct (session_default cfg items st base Hf Hb Hwf) as [outs [Hs Hm]].
  exists outs. split; [exact Hs|]. rewrite Hm.
  rewrite <- (expected_nicks_run items base 0 Hn). cbn [repeat]. rewrite app_nil_r. reflexivity.
Qed.

(* the refused nicknames of a run: base, base_, base__, ... ; the proposals are all
   different from them and from each other *)
Lemma underscores_inj : forall (b : str) j k, b ++ repeat underscore j = b ++ repeat underscore k -> j = k.
Proof.
  intros b j k E. apply (f_equal (@length N)) in E. rewrite !app_underscores_length in E. lia.
Qed.

Lemma proposals_in : forall items base k p,
  In p (proposals base k items) -> exists j, (k < j)%nat /\ p = base ++ repeat underscore j.
Proof.
  induction items as [|it r IH]; intros base k p Hin; [contradiction|].
  destruct it as [s|e|x]; cbn [proposals] in Hin.
  - destruct Hin as [<-|Hin]; [exists (S k); split; [lia|reflexivity]|].
    destruct (IH _ _ _ Hin) as [j [Hj ->]]. exists j. split; [lia|reflexivity].
  - apply IH in Hin. exact Hin.
  - apply IH in Hin. exact Hin.
Qed.

Lemma proposals_nodup : forall items base k, NoDup (proposals base k items).
Proof.
  induction items as [|it r IH]; intros base k; [constructor|].
  destruct it as [s|e|x]; cbn [proposals]; try apply IH.
  constructor; [|apply IH].
  intro Hin. destruct (proposals_in _ _ _ _ Hin) as [j [Hj E]].
  apply underscores_inj in E. lia.
Qed.

Lemma proposals_fresh : forall items base, NoDup (base :: proposals base 0 items).
Proof.
  intros. constructor; [|apply proposals_nodup].
  intro Hin. destruct (proposals_in _ _ _ _ Hin) as [j [Hj E]].
  replace base with (base ++ repeat underscore 0) in E at 1 by (cbn; apply app_nil_r).
  apply underscores_inj in E. lia.
Qed.

Lemma expected_run_proposals : forall items base k,
  concat (expected_run base k items) = List.map cmd_nick (proposals base k items).
Proof.
  induction items as [|it r IH]; intros base k; [reflexivity|].
  destruct it as [s|e|x]; cbn [expected_run proposals concat List.map app]; rewrite IH; reflexivity.
Qed.

(* ---- satisfiability of the hypotheses -------------------------------------- *)

Definition ex_cfg : pn_cfg := mkPnCfg (bs "me") true None.
Definition ex_shell : shell := mkShell s_433 (Some (bs "irc.test")) (bs "*") [bs "Nickname is already in use."].
Definition ex_items : list item :=
  [ICollide ex_shell; IEvent (mkEvent s_PING None [bs "tok en"]); ICollide ex_shell;
   IEvent (mkEvent s_001 None [bs "me__"; bs "Welcome"]); ICollide ex_shell].

Example ex_session :
  pc_collide ex_cfg = None /\ nick_like (bs "me") = true /\
  well_formed ex_items /\ no_user ex_items /\
  session ex_cfg pn_init (bs "me") ex_items =
    Ok [[cmd_nick (bs "me_")]; [cmd_pong (bs "tok en")]; [cmd_nick (bs "me__")]; []; [cmd_nick (bs "me___")]].
Proof. vm_compute. repeat split; reflexivity. Qed.

Example ex_callback :
  let cfg := mkPnCfg (bs "me") true (Some (fun cur => cur ++ bs "-2")) in
  nick_collision cfg pn_init [bs "*"; bs "me"; bs "in use"] = Ok [cmd_nick (bs "me-2")] /\
  nick_collision cfg (bs "Guest1") [bs "Guest1"; bs "x"; bs "in use"] = Ok [cmd_nick (bs "Guest1-2")] /\
  nick_collision (mkPnCfg (bs "me") true (Some (fun _ => []))) pn_init [bs "*"; bs "me"] = Ok [].
Proof. vm_compute. repeat split; reflexivity. Qed.

(* ---- the two sequences the unrepaired handler got wrong ------------------------- *)

(* tracking disabled: the handler answers all the same *)
Example collision_without_tracking :
  session (mkPnCfg (bs "me") false None) pn_init (bs "me") [ICollide ex_shell; ICollide ex_shell] =
    Ok [[cmd_nick (bs "me_")]; [cmd_nick (bs "me__")]].
Proof. vm_compute. reflexivity. Qed.

(* non-ASCII nicknames: current nickname "\xc3\xbc", the application asks for "\xc3\xa9" *)
Example collision_non_ascii :
  nick_like [195; 169] = true /\
  session (mkPnCfg (bs "me") true None) [195; 188] [195; 169] [ICollide ex_shell; ICollide ex_shell] =
    Ok [[cmd_nick [195; 169; 95]]; [cmd_nick [195; 169; 95; 95]]].
Proof. vm_compute. split; reflexivity. Qed.

(* ---- the statements of Properties/C17.v ------------------------------------- *)

Lemma collision_default_run_full : forall cfg items st base,
  pc_collide cfg = None ->
  nick_like base = true -> well_formed items -> no_user items ->
  exists outs,
    session cfg st base items = Ok outs /\
    List.map (filter is_nick_out) outs = expected_run base 0 items /\
    concat (expected_run base 0 items) = List.map cmd_nick (proposals base 0 items) /\
    NoDup (base :: proposals base 0 items).
Proof.
  intros cfg items st base Hf Hb Hwf Hn.
  destruct (session_default_run cfg items st base Hf Hb Hwf Hn) as [outs [Hs Hm]].
  exists outs. repeat split; [exact Hs | exact Hm | apply expected_run_proposals | apply proposals_fresh].
Qed.

(* k refusals in a row (nothing in between): the k-th proposal is base ++ k underscores *)
Lemma proposals_consecutive : forall shells base k j,
  (j < length shells)%nat ->
  nth j (proposals base k (List.map ICollide shells)) [] = base ++ repeat underscore (S (k + j)).
Proof.
  induction shells as [|s r IH]; intros base k j Hj; cbn [length] in Hj; [lia|].
  cbn [List.map proposals]. destruct j as [|j]; cbn [nth].
  - rewrite Nat.add_0_r. reflexivity.
  - rewrite IH by lia. do 3 f_equal. lia.
Qed.

Lemma step_collision_callback : forall cfg st e f,
  pc_collide cfg = Some f -> is_collision_cmd (e_cmd e) = true ->
  pn_step cfg st e =
    Ok (st, match f (current_nick cfg st) with [] => [] | n => [cmd_nick n] end).
Proof.
  intros cfg st e f Hf Hc. rewrite (step_collision _ _ _ Hc), (collision_callback _ _ _ _ Hf). reflexivity.
Qed.

(* The handler answers from (state.nick, the numeric) alone and leaves state.nick as it is:
   a numeric that does not name the refused nickname gives it nothing to count with.  Before
   001 two such numerics get the same proposal. *)
Lemma collision_unnamed_repeats :
  session (mkPnCfg (bs "me") true None) pn_init (bs "me")
          [IEvent (mkEvent s_433 None [bs "*"]); IEvent (mkEvent s_433 None [bs "*"])] =
    Ok [[cmd_nick (bs "me_")]; [cmd_nick (bs "me_")]].
Proof. vm_compute. reflexivity. Qed.
