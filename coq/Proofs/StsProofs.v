(* Proofs for C10 (strict transport security). *)
Require Import Bytes CapLib StsState Cap Sts StsSpec OrderLemmas StsLemmas.
From Coq Require Import Lia ZifyBool.

(* ---- the policy evaluation ------------------------------------------------ *)
Lemma sts_block_plain now v s :
  sts_block false now v s =
  match cv_get s_port v with
  | Some p => (set_upgrade_port (atoi_go p) s, (atoi_go p <? 21)%Z)
  | None => (s, true)
  end.
Proof. unfold sts_block. destruct (cv_get s_port v); reflexivity. Qed.

Lemma sts_block_tls now v s :
  sts_block true now v s =
  match cv_get s_duration v with
  | Some d => (with_preload v (set_persistence (atoi_go d) now s), false)
  | None => (with_preload v s, true)
  end.
Proof. unfold sts_block, with_preload. destruct (cv_get s_duration v), (cv_get s_preload v); reflexivity. Qed.

Lemma with_preload_port v s : upgrade_port (with_preload v s) = upgrade_port s.
Proof. unfold with_preload. destruct (cv_get s_preload v); reflexivity. Qed.
Lemma with_preload_begin v s : begin_upgrade (with_preload v s) = begin_upgrade s.
Proof. unfold with_preload. destruct (cv_get s_preload v); reflexivity. Qed.
Lemma with_preload_failed v s : last_failed (with_preload v s) = last_failed s.
Proof. unfold with_preload. destruct (cv_get s_preload v); reflexivity. Qed.

Lemma policy_dropped_reset s : policy_dropped (sts_reset s).
Proof. repeat split. Qed.

(* ---- which value the acknowledgement carries ----------------------------- *)
(* one token of an acknowledgement: "-name" removes name, anything else records the token
   with the advertised value (nil when it was never advertised) *)
Lemma ack_step_cases tmp en tok :
  (exists name, tok = 45 :: name /\ ack_step tmp en tok = adel name en) \/
  ((forall name, tok <> 45 :: name) /\
   ack_step tmp en tok = aset tok (match aget tok tmp with Some v => v | None => None end) en).
Proof.
  unfold ack_step. destruct tok as [|b name].
  - right. split; [intros name; discriminate|]. destruct (aget [] tmp); reflexivity.
  - destruct (N.eqb b 45) eqn:E.
    + apply N.eqb_eq in E. subst b. left. exists name. split; reflexivity.
    + right. split.
      * intros n H. injection H as Hb _. subst b. rewrite N.eqb_refl in E. discriminate.
      * destruct (aget (b :: name) tmp); reflexivity.
Qed.

Lemma ack_fold_sts tmp l : forall en,
  ~ In s_minus_sts l ->
  aget s_sts (fold_left (ack_step tmp) l en) =
  if existsb (streqb s_sts) l
  then Some (match aget s_sts tmp with Some v => v | None => None end)
  else aget s_sts en.
Proof.
  induction l as [|tok r IH]; intros en Hno; [reflexivity|].
  cbn [fold_left existsb]. rewrite IH by (intros H; apply Hno; right; exact H).
  destruct (ack_step_cases tmp en tok) as [[name [Et Es]]|[Hn Es]]; rewrite Es.
  - (* a removal, of something other than sts *)
    assert (Hne : name <> s_sts).
    { intros ->. apply Hno. left. exact Et. }
    assert (E : streqb s_sts tok = false) by (apply streqb_neq; subst tok; discriminate).
    rewrite E. cbn [orb]. destruct (existsb (streqb s_sts) r); [reflexivity|].
    apply aget_adel_neq. exact Hne.
  - destruct (streqb s_sts tok) eqn:E; cbn [orb].
    + apply streqb_eq in E. subst tok.
      destruct (existsb (streqb s_sts) r); [reflexivity|apply aget_aset_eq].
    + destruct (existsb (streqb s_sts) r); [reflexivity|].
      apply streqb_neq in E. apply aget_aset_neq. congruence.
Qed.

Lemma aget_adel_none_ {V} (k k' : str) (m : amap V) : aget k m = None -> aget k (adel k' m) = None.
Proof.
  intros H. destruct (str_eq_dec k' k) as [->|Hne]; [apply aget_adel_eq|].
  rewrite aget_adel_neq by exact Hne. exact H.
Qed.

(* tokens other than "sts" never enable sts *)
Lemma ack_fold_none tmp l : forall en,
  ~ In s_sts l -> aget s_sts en = None -> aget s_sts (fold_left (ack_step tmp) l en) = None.
Proof.
  induction l as [|tok r IH]; intros en Hno Hen; [exact Hen|].
  cbn [fold_left]. apply IH; [intros H; apply Hno; right; exact H|].
  destruct (ack_step_cases tmp en tok) as [[name [Et Es]]|[Hn Es]]; rewrite Es.
  - apply aget_adel_none_. exact Hen.
  - rewrite aget_aset_neq; [exact Hen|]. intros E. apply Hno. left. exact E.
Qed.

Lemma existsb_streqb_In k l : existsb (streqb k) l = true <-> In k l.
Proof.
  rewrite existsb_exists. split.
  - intros [x [Hin E]]. apply streqb_eq in E. subst x. exact Hin.
  - intros H. exists k. split; [exact H|apply streqb_refl].
Qed.

Lemma acks_sts_value st toks :
  acks_sts toks -> aget s_sts (ack_enabled st toks) = Some (advertised_policy st).
Proof.
  intros [H Hno]. unfold ack_enabled, advertised_policy. rewrite ack_fold_sts by exact Hno.
  apply existsb_streqb_In in H. rewrite H. reflexivity.
Qed.

Lemma not_acked_none st toks :
  ~ In s_sts (split_byte 32 toks) -> aget s_sts (st_enabled st) = None ->
  aget s_sts (ack_enabled st toks) = None.
Proof. intros H He. unfold ack_enabled. apply ack_fold_none; assumption. Qed.

(* ---- one event: the three things handleCAP can do ------------------------- *)
Definition same_timestamps (s s' : strict_transport) : Prop :=
  last_failed s' = last_failed s.

Inductive cap_step_kind (cfg : cap_cfg) (tls : bool) (s : strict_transport)
  : strict_transport -> list cap_out -> Prop :=
| k_quiet s' outs :
    only_writes outs ->
    (s' = s \/ (tls = true /\ c_disable_sts cfg = false /\ upgrade_port s' = upgrade_port s /\
                begin_upgrade s' = begin_upgrade s /\ last_failed s' = last_failed s)) ->
    cap_step_kind cfg tls s s' outs
| k_upgrade p :
    tls = false -> c_disable_sts cfg = false -> (21 <= p)%Z ->
    cap_step_kind cfg tls s (set_begin_upgrade true (set_upgrade_port p s)) [Upgrade]
| k_error v s' :
    c_disable_sts cfg = false -> policy_dropped s' ->
    begin_upgrade s' = begin_upgrade s -> last_failed s' = last_failed s ->
    cap_step_kind cfg tls s s' [InjectError v].

Lemma finish_ack_quiet cfg en s : only_writes (snd (finish_ack cfg en s)) /\ st_sts (fst (finish_ack cfg en s)) = s.
Proof.
  unfold finish_ack. destruct (aget s_sasl en), (c_sasl cfg); simpl; (split; [|reflexivity]);
    intros o [<-|[]]; reflexivity.
Qed.

Lemma handle_cap_kind ord cfg tls now st params :
  cap_step_kind cfg tls (st_sts st)
                (st_sts (fst (handle_cap ord cfg tls now st params)))
                (snd (handle_cap ord cfg tls now st params)).
Proof.
  destruct (is_ack3 params) eqn:Ea.
  2:{ destruct (handle_cap_other ord cfg tls now st params Ea) as [Hs Hw].
      apply k_quiet; [exact Hw|left; exact Hs]. }
  destruct (is_ack3_shape _ Ea) as [a [toks ->]]. rewrite handle_cap_ack. unfold ack_result.
  set (en1 := ack_enabled st toks).
  destruct (aget s_sts en1) as [v|].
  2:{ destruct (finish_ack_quiet cfg en1 (st_sts st)) as [Hw Hs]. apply k_quiet; [exact Hw|left; exact Hs]. }
  destruct (c_disable_sts cfg) eqn:Ed; cbn [negb].
  { destruct (finish_ack_quiet cfg en1 (st_sts st)) as [Hw Hs]. apply k_quiet; [exact Hw|left; exact Hs]. }
  destruct tls.
  - rewrite sts_block_tls. destruct (cv_get s_duration v) as [d|]; cbn [fst snd negb].
    + destruct (finish_ack_quiet cfg en1 (with_preload v (set_persistence (atoi_go d) now (st_sts st)))) as [Hw Hs].
      apply k_quiet; [exact Hw|]. right. rewrite Hs.
      rewrite with_preload_port, with_preload_begin, with_preload_failed. repeat split; try reflexivity; exact Ed.
    + apply k_error; [exact Ed|apply policy_dropped_reset| |].
      * cbn [begin_upgrade sts_reset]. apply with_preload_begin.
      * cbn [last_failed sts_reset]. apply with_preload_failed.
  - rewrite sts_block_plain. destruct (cv_get s_port v) as [p|]; cbn [fst snd negb].
    + destruct (atoi_go p <? 21)%Z eqn:Ep.
      * apply k_error; [exact Ed|apply policy_dropped_reset|reflexivity|reflexivity].
      * apply k_upgrade; [reflexivity|exact Ed|lia].
    + apply k_error; [exact Ed|apply policy_dropped_reset|reflexivity|reflexivity].
Qed.

(* ---- C10_invalid / C10_upgrade / tls at the level of one acknowledgement --- *)
Lemma ack_invalid_event ord cfg tls now st a toks v :
  c_disable_sts cfg = false ->
  aget s_sts (ack_enabled st toks) = Some v ->
  (tls = false /\ no_usable_port v) \/ (tls = true /\ no_duration v) ->
  snd (handle_cap ord cfg tls now st (ack_params a toks)) = [InjectError v] /\
  policy_dropped (st_sts (fst (handle_cap ord cfg tls now st (ack_params a toks)))).
Proof.
  intros Hd Hv Hc. rewrite handle_cap_ack. unfold ack_result. rewrite Hv, Hd. cbn [negb].
  destruct Hc as [[-> Hp]|[-> Hn]].
  - rewrite sts_block_plain. unfold no_usable_port in Hp.
    destruct (cv_get s_port v) as [p|]; cbn [fst snd].
    + assert (E : (atoi_go p <? 21)%Z = true) by lia. rewrite E. split; [reflexivity|apply policy_dropped_reset].
    + split; [reflexivity|apply policy_dropped_reset].
  - rewrite sts_block_tls. unfold no_duration in Hn. rewrite Hn. cbn [fst snd].
    split; [reflexivity|apply policy_dropped_reset].
Qed.

Lemma ack_upgrade_event ord cfg now st a toks v p :
  c_disable_sts cfg = false ->
  aget s_sts (ack_enabled st toks) = Some v ->
  usable_port v p ->
  handle_cap ord cfg false now st (ack_params a toks) =
  (mkSt (st_tmp st) (ack_enabled st toks) (set_begin_upgrade true (set_upgrade_port p (st_sts st))), [Upgrade]).
Proof.
  intros Hd Hv [ps [Hps [Hp Hge]]]. rewrite handle_cap_ack. unfold ack_result. rewrite Hv, Hd. cbn [negb].
  rewrite sts_block_plain, Hps. cbn [fst snd]. subst p.
  assert (E : (atoi_go ps <? 21)%Z = false) by lia. rewrite E. reflexivity.
Qed.

Lemma ack_tls_event ord cfg now st a toks v d :
  c_disable_sts cfg = false ->
  aget s_sts (ack_enabled st toks) = Some v ->
  cv_get s_duration v = Some d ->
  handle_cap ord cfg true now st (ack_params a toks) =
  finish_ack cfg (ack_enabled st toks) (with_preload v (set_persistence (atoi_go d) now (st_sts st))).
Proof.
  intros Hd Hv Hdur. rewrite handle_cap_ack. unfold ack_result. rewrite Hv, Hd. cbn [negb].
  rewrite sts_block_tls, Hdur. reflexivity.
Qed.

Lemma ack_disabled_event ord cfg tls now st a toks :
  c_disable_sts cfg = true ->
  handle_cap ord cfg tls now st (ack_params a toks) = finish_ack cfg (ack_enabled st toks) (st_sts st).
Proof.
  intros Hd. rewrite handle_cap_ack. unfold ack_result. rewrite Hd. cbn [negb].
  destruct (aget s_sts (ack_enabled st toks)); reflexivity.
Qed.

(* ---- stop_of -------------------------------------------------------------- *)
Lemma existsb_writes (f : cap_out -> bool) outs :
  (forall o, is_write o = true -> f o = false) -> only_writes outs -> existsb f outs = false.
Proof.
  intros Hf. induction outs as [|o r IH]; intros H; [reflexivity|]. cbn [existsb].
  rewrite (Hf o) by (apply H; left; reflexivity).
  rewrite IH by (intros x Hx; apply H; right; exact Hx). reflexivity.
Qed.

Lemma stop_of_writes outs : only_writes outs -> stop_of outs = StopNone.
Proof.
  intros H. unfold stop_of.
  rewrite (existsb_writes is_upgrade outs) by (try exact H; intros [] ?; simpl in *; congruence).
  rewrite (existsb_writes is_inject outs) by (try exact H; intros [] ?; simpl in *; congruence).
  reflexivity.
Qed.

(* what quiet steps may do to the policy *)
Definition quiet_rel (cfg : cap_cfg) (tls : bool) (s s' : strict_transport) : Prop :=
  s' = s \/ (tls = true /\ c_disable_sts cfg = false /\ upgrade_port s' = upgrade_port s /\
             begin_upgrade s' = begin_upgrade s /\ last_failed s' = last_failed s).

Lemma quiet_rel_refl cfg tls s : quiet_rel cfg tls s s.
Proof. left; reflexivity. Qed.

Lemma quiet_rel_trans cfg tls s1 s2 s3 :
  quiet_rel cfg tls s1 s2 -> quiet_rel cfg tls s2 s3 -> quiet_rel cfg tls s1 s3.
Proof.
  intros [->|[Ht [Hd [Hp [Hb Hf]]]]] [->|[Ht' [Hd' [Hp' [Hb' Hf']]]]];
    try (left; reflexivity); right; repeat split; try assumption; congruence.
Qed.

Lemma quiet_rel_port cfg tls s s' : quiet_rel cfg tls s s' -> upgrade_port s' = upgrade_port s.
Proof. intros [->|[_ [_ [H _]]]]; [reflexivity|exact H]. Qed.
Lemma quiet_rel_failed cfg tls s s' : quiet_rel cfg tls s s' -> last_failed s' = last_failed s.
Proof. intros [->|[_ [_ [_ [_ H]]]]]; [reflexivity|exact H]. Qed.
Lemma quiet_rel_begin cfg tls s s' : quiet_rel cfg tls s s' -> begin_upgrade s' = begin_upgrade s.
Proof. intros [->|[_ [_ [_ [H _]]]]]; [reflexivity|exact H]. Qed.
Lemma quiet_rel_plain cfg s s' : quiet_rel cfg false s s' -> s' = s.
Proof. intros [->|[H _]]; [reflexivity|discriminate]. Qed.
Lemma quiet_rel_disabled cfg tls s s' : c_disable_sts cfg = true -> quiet_rel cfg tls s s' -> s' = s.
Proof. intros Hd [->|[_ [H _]]]; [reflexivity|congruence]. Qed.

(* ---- one connection: run_events ------------------------------------------ *)
Lemma run_events_cons ord cfg tls st now ps r :
  run_events ord cfg tls st ((now, ps) :: r) =
  let res := handle_cap ord cfg tls now st ps in
  match stop_of (snd res) with
  | StopNone =>
      let rec := run_events ord cfg tls (fst res) r in
      (fst (fst rec), snd res :: snd (fst rec), snd rec)
  | k => (fst res, [snd res], k)
  end.
Proof. reflexivity. Qed.

Definition run_inv (cfg : cap_cfg) (tls : bool) (s : strict_transport) (n : nat)
           (r : cap_state * list (list cap_out) * conn_stop) : Prop :=
  let s' := st_sts (fst (fst r)) in
  let outs := snd (fst r) in
  match snd r with
  | StopNone => Forall only_writes outs /\ length outs = n /\ quiet_rel cfg tls s s'
  | StopUpgrade =>
      tls = false /\ c_disable_sts cfg = false /\
      exists pre p, outs = pre ++ [[Upgrade]] /\ Forall only_writes pre /\ (21 <= p)%Z /\
                    s' = set_begin_upgrade true (set_upgrade_port p s)
  | StopError =>
      c_disable_sts cfg = false /\
      exists pre v, outs = pre ++ [[InjectError v]] /\ Forall only_writes pre /\ policy_dropped s' /\
                    last_failed s' = last_failed s /\ begin_upgrade s' = begin_upgrade s
  end.

Lemma run_events_inv ord cfg tls evs : forall st,
  run_inv cfg tls (st_sts st) (length evs) (run_events ord cfg tls st evs).
Proof.
  induction evs as [|[now ps] r IH]; intros st.
  { simpl. repeat split; [constructor|apply quiet_rel_refl]. }
  rewrite run_events_cons. cbv zeta.
  pose proof (handle_cap_kind ord cfg tls now st ps) as K.
  set (res := handle_cap ord cfg tls now st ps) in *.
  inversion K as [s' outs Hw Hq Es Eo | p Ht Hd Hp Es Eo | v s' Hd Hdrop Hb Hf Es Eo].
  - (* quiet *)
    rewrite (stop_of_writes _ Hw).
    specialize (IH (fst res)). unfold run_inv in *. cbn [fst snd].
    destruct (run_events ord cfg tls (fst res) r) as [[st2 outs2] k2]. cbn [fst snd] in *.
    assert (Q : quiet_rel cfg tls (st_sts st) (st_sts (fst res))) by exact Hq.
    destruct k2.
    + destruct IH as [Hall [Hlen Hq2]]. repeat split.
      * constructor; assumption.
      * simpl. rewrite Hlen. reflexivity.
      * eapply quiet_rel_trans; eassumption.
    + destruct IH as [Ht [Hd [pre [p [Eouts [Hpre [Hp Es2]]]]]]]. split; [exact Ht|]. split; [exact Hd|].
      exists (snd res :: pre), p. repeat split.
      * rewrite Eouts. reflexivity.
      * constructor; assumption.
      * exact Hp.
      * rewrite Es2. subst tls. rewrite (quiet_rel_plain _ _ _ Q). reflexivity.
    + destruct IH as [Hd [pre [v [Eouts [Hpre [Hdrop [Hf Hb]]]]]]]. split; [exact Hd|].
      exists (snd res :: pre), v. repeat split; try apply Hdrop.
      * rewrite Eouts. reflexivity.
      * constructor; assumption.
      * rewrite Hf. eapply quiet_rel_failed; exact Q.
      * rewrite Hb. eapply quiet_rel_begin; exact Q.
  - (* upgrade *)
    change (stop_of [Upgrade]) with StopUpgrade. unfold run_inv. cbn [fst snd].
    split; [exact Ht|]. split; [exact Hd|]. exists [], p. repeat split; [constructor|exact Hp|].
    symmetry. exact Es.
  - (* injected error *)
    change (stop_of [InjectError v]) with StopError. unfold run_inv. cbn [fst snd].
    split; [exact Hd|]. exists [], v. rewrite <- Es in *. repeat split; try apply Hdrop; try assumption. constructor.
Qed.

(* a prefix of quiet events followed by an event that stops the connection *)
Lemma run_events_app ord cfg tls pre : forall st st1 outs1 now ps post,
  run_events ord cfg tls st pre = (st1, outs1, StopNone) ->
  stop_of (snd (handle_cap ord cfg tls now st1 ps)) <> StopNone ->
  run_events ord cfg tls st (pre ++ (now, ps) :: post) =
  (fst (handle_cap ord cfg tls now st1 ps), outs1 ++ [snd (handle_cap ord cfg tls now st1 ps)],
   stop_of (snd (handle_cap ord cfg tls now st1 ps))).
Proof.
  induction pre as [|[n0 p0] pre IH]; intros st st1 outs1 now ps post Hpre Hstop.
  - simpl in Hpre. injection Hpre as <- <-. cbn [app]. rewrite run_events_cons. cbv zeta.
    destruct (stop_of (snd (handle_cap ord cfg tls now st ps))); [contradiction|reflexivity|reflexivity].
  - cbn [app]. rewrite run_events_cons in *. cbv zeta in *.
    destruct (stop_of (snd (handle_cap ord cfg tls n0 st p0))) eqn:E0; try discriminate.
    destruct (run_events ord cfg tls (fst (handle_cap ord cfg tls n0 st p0)) pre) as [[st2 outs2] k2] eqn:Er.
    cbn [fst snd] in Hpre. injection Hpre as <- <- ->.
    rewrite (IH _ _ _ now ps post Er Hstop). reflexivity.
Qed.

(* ---- one established connection: conn_run ---------------------------------- *)
Inductive run_case (cfg : cap_cfg) (tls : bool) (s : strict_transport) (c : conn_script) (p : Z)
  : conn_log * ret_class * strict_transport * option Z -> Prop :=
| rc_handshake :
    tls = true -> cs_hs_ok c = false ->
    run_case cfg tls s c p (mkLog p tls true [], ROther, s, None)
| rc_quiet outs s' err cl :
    Forall only_writes outs -> quiet_rel cfg tls s s' ->
    (err = RNil /\ exists now, cl = Some now /\ cs_end c = EndClosed now) \/
    (err = ROther /\ cl = None /\ cs_end c = EndIOError) ->
    run_case cfg tls s c p (mkLog p tls true outs, err, s', cl)
| rc_upgrade pre p' err cl :
    tls = false -> c_disable_sts cfg = false -> Forall only_writes pre -> (21 <= p')%Z ->
    run_case cfg tls s c p (mkLog p tls true (pre ++ [[Upgrade]]), err,
                            set_begin_upgrade true (set_upgrade_port p' s), cl)
| rc_error pre v s' :
    c_disable_sts cfg = false -> Forall only_writes pre -> policy_dropped s' ->
    begin_upgrade s' = begin_upgrade s -> last_failed s' = last_failed s ->
    run_case cfg tls s c p (mkLog p tls true (pre ++ [[InjectError v]]), RErrEvent, s', None).

Lemma conn_run_case ord cfg tls s c p : run_case cfg tls s c p (conn_run ord cfg tls s c p).
Proof.
  unfold conn_run.
  destruct (tls && negb (cs_hs_ok c)) eqn:Eh.
  { apply andb_true_iff in Eh. destruct Eh as [-> Eh]. apply rc_handshake; [reflexivity|].
    destruct (cs_hs_ok c); [discriminate|reflexivity]. }
  pose proof (run_events_inv ord cfg tls (if c_tracking cfg then cs_events c else []) (cap_init s)) as Inv.
  destruct (run_events ord cfg tls (cap_init s) (if c_tracking cfg then cs_events c else [])) as [[st outs] k].
  unfold run_inv in Inv. cbn [fst snd cap_init st_sts] in Inv. cbn [fst snd]. destruct k.
  - destruct Inv as [Hall [_ Q]].
    destruct (cs_end c) as [now|] eqn:Ee; apply rc_quiet; try assumption.
    + left. split; [reflexivity|]. exists now. split; [reflexivity|exact Ee].
    + right. split; [reflexivity|]. split; [reflexivity|exact Ee].
  - destruct Inv as [Ht [Hd [pre [p' [-> [Hpre [Hp ->]]]]]]].
    destruct (cs_end c); apply rc_upgrade; assumption.
  - destruct Inv as [Hd [pre [v [-> [Hpre [Hdrop [Hf Hb]]]]]]]. apply rc_error; assumption.
Qed.

(* ---- one Connect call: start_conn ----------------------------------------- *)
Section Connect.
  Variable ord : list str -> list str.
  Variable cfg : cap_cfg.
  Variable port : Z.

  Lemma server_port_enabled s : sts_enabled s = true -> server_port port s = upgrade_port s.
  Proof. intros H. unfold server_port. rewrite H. reflexivity. Qed.
  Lemma server_port_disabled s : sts_enabled s = false -> server_port port s = port.
  Proof. intros H. unfold server_port. rewrite H. reflexivity. Qed.

  (* the tail of internalConnect *)
  Definition conn_tail (rest : list conn_script) (o : conn_log * ret_class * strict_transport * option Z)
    : list conn_log * ret_class * strict_transport :=
    let log := fst (fst (fst o)) in
    let err := snd (fst (fst o)) in
    let s_end := snd (fst o) in
    if begin_upgrade s_end then
      let rec := start_conn ord cfg port (set_begin_upgrade false s_end) rest in
      (log :: fst (fst rec), snd (fst rec), snd rec)
    else
      ([log], err,
       match err, snd o with
       | RNil, Some now => if sts_enabled s_end then set_received now s_end else s_end
       | _, _ => s_end
       end).

  Lemma start_conn_connected s c rest :
    cs_dial_ok c = true ->
    start_conn ord cfg port s (c :: rest) =
    conn_tail rest (conn_run ord cfg (c_ssl cfg || sts_enabled s) s c (server_port port s)).
  Proof. intros Hd. cbn [start_conn]. unfold new_conn. rewrite Hd. reflexivity. Qed.

  Lemma start_conn_failed s c rest :
    cs_dial_ok c = false ->
    start_conn ord cfg port s (c :: rest) =
    ([mkLog (server_port port s) (c_ssl cfg || sts_enabled s) false []],
     (if sts_enabled s then RSTSUpgradeFailed else ROther),
     if sts_expired (cs_dial_now c) s && negb (c_disable_fallback cfg)
     then sts_reset (set_last_failed (cs_dial_now c) s) else s).
  Proof. intros Hd. cbn [start_conn]. unfold new_conn. rewrite Hd. reflexivity. Qed.

  (* Connect never returns with beginUpgrade set (given it was not set when it started) *)
  Lemma start_conn_begin conns : forall s,
    begin_upgrade s = false -> begin_upgrade (snd (start_conn ord cfg port s conns)) = false.
  Proof.
    induction conns as [|c rest IH]; intros s Hb; [exact Hb|].
    destruct (cs_dial_ok c) eqn:Hd.
    - rewrite (start_conn_connected s c rest Hd). unfold conn_tail.
      set (o := conn_run ord cfg (c_ssl cfg || sts_enabled s) s c (server_port port s)).
      destruct (begin_upgrade (snd (fst o))) eqn:Eb.
      + cbn [snd]. apply IH. reflexivity.
      + cbn [snd]. destruct (snd (fst (fst o))), (snd o); try exact Eb.
        destruct (sts_enabled (snd (fst o))); [cbn [begin_upgrade set_received]|]; exact Eb.
    - rewrite (start_conn_failed s c rest Hd). cbn [snd].
      destruct (sts_expired (cs_dial_now c) s && negb (c_disable_fallback cfg)); [cbn|]; exact Hb.
  Qed.

  (* the first dial of a call goes where the policy held at that moment says *)
  Lemma start_conn_first s c rest :
    exists l logs ret s',
      start_conn ord cfg port s (c :: rest) = (l :: logs, ret, s') /\
      dialled l (server_port port s) (c_ssl cfg || sts_enabled s) /\ l_connected l = cs_dial_ok c.
  Proof.
    destruct (cs_dial_ok c) eqn:Hd.
    2:{ rewrite (start_conn_failed s c rest Hd). do 4 eexists. split; [reflexivity|]. repeat split. }
    rewrite (start_conn_connected s c rest Hd). unfold conn_tail.
    pose proof (conn_run_case ord cfg (c_ssl cfg || sts_enabled s) s c (server_port port s)) as K.
    destruct (conn_run ord cfg (c_ssl cfg || sts_enabled s) s c (server_port port s)) as [[[log err] s_end] cl].
    cbn [fst snd].
    assert (HL : dialled log (server_port port s) (c_ssl cfg || sts_enabled s) /\ l_connected log = true).
    { inversion K; subst; repeat split. }
    destruct (begin_upgrade s_end).
    - destruct (start_conn ord cfg port (set_begin_upgrade false s_end) rest) as [[lg rt] sf].
      do 4 eexists. split; [reflexivity|exact HL].
    - do 4 eexists. split; [reflexivity|exact HL].
  Qed.

  (* C10_no_downgrade: a failed dial under a policy *)
  Lemma no_downgrade_dial s c rest :
    sts_enabled s = true -> cs_dial_ok c = false ->
    start_conn ord cfg port s (c :: rest) =
    ([mkLog (upgrade_port s) true false []], RSTSUpgradeFailed,
     if sts_expired (cs_dial_now c) s && negb (c_disable_fallback cfg)
     then sts_reset (set_last_failed (cs_dial_now c) s) else s).
  Proof.
    intros He Hd. rewrite (start_conn_failed s c rest Hd), He.
    rewrite (server_port_enabled s He), orb_true_r. reflexivity.
  Qed.

  Lemma no_downgrade_dial_dropped_iff s c rest :
    sts_enabled s = true -> cs_dial_ok c = false ->
    (sts_enabled (snd (start_conn ord cfg port s (c :: rest))) = false <->
     sts_expired (cs_dial_now c) s = true /\ c_disable_fallback cfg = false).
  Proof.
    intros He Hd. rewrite (no_downgrade_dial s c rest He Hd). cbn [snd].
    destruct (sts_expired (cs_dial_now c) s), (c_disable_fallback cfg); cbn [andb negb]; rewrite ?He;
      split; try discriminate; try (intros [? ?]; discriminate); try reflexivity; auto.
  Qed.

  (* … and a failed handshake: an error, no other dial, the policy untouched *)
  Lemma no_downgrade_handshake s c rest :
    begin_upgrade s = false ->
    sts_enabled s = true -> cs_dial_ok c = true -> cs_hs_ok c = false ->
    start_conn ord cfg port s (c :: rest) = ([mkLog (upgrade_port s) true true []], ROther, s).
  Proof.
    intros Hb He Hd Hh. rewrite (start_conn_connected s c rest Hd). unfold conn_tail, conn_run.
    rewrite He, Hh, orb_true_r. cbn [negb andb fst snd]. rewrite Hb, (server_port_enabled s He). reflexivity.
  Qed.

  (* on a TLS connection there is never an upgrade, hence one dial per call *)
  Lemma tls_single_dial s c rest :
    begin_upgrade s = false ->
    c_ssl cfg || sts_enabled s = true ->
    exists l ret s', start_conn ord cfg port s (c :: rest) = ([l], ret, s') /\
                     dialled l (server_port port s) true /\
                     (ret = RErrEvent -> policy_dropped s') /\
                     (ret <> RErrEvent ->
                      upgrade_port s' = upgrade_port s \/
                      (ret = RSTSUpgradeFailed \/ ret = ROther) /\ cs_dial_ok c = false /\
                      sts_expired (cs_dial_now c) s = true /\ c_disable_fallback cfg = false /\ policy_dropped s').
  Proof.
    intros Hb Ht.
    destruct (cs_dial_ok c) eqn:Hd.
    2:{ rewrite (start_conn_failed s c rest Hd), Ht.
        do 3 eexists. split; [reflexivity|]. split; [split; reflexivity|]. split.
        - destruct (sts_enabled s); discriminate.
        - intros _. destruct (sts_expired (cs_dial_now c) s) eqn:Ex, (c_disable_fallback cfg) eqn:Ef; cbn [andb negb];
            try (left; reflexivity).
          right. split; [destruct (sts_enabled s); auto|]. repeat split. }
    rewrite (start_conn_connected s c rest Hd), Ht. unfold conn_tail.
    pose proof (conn_run_case ord cfg true s c (server_port port s)) as K.
    destruct (conn_run ord cfg true s c (server_port port s)) as [[[log err] s_end] cl].
    cbn [fst snd].
    inversion K as [Ht' Hh E | outs s' err' cl' Hall Q Hend E | pre p' err' cl' Hf | pre v s' Hdis Hpre Hdrop Hb' Hf E]; subst.
    - rewrite Hb. do 3 eexists. split; [reflexivity|]. split; [split; reflexivity|]. split; [discriminate|].
      intros _. left; reflexivity.
    - rewrite (quiet_rel_begin _ _ _ _ Q), Hb. pose proof (quiet_rel_port _ _ _ _ Q) as Hp.
      do 3 eexists. split; [reflexivity|]. split; [split; reflexivity|].
      destruct Hend as [[-> [now [-> _]]]|[-> [-> _]]]; (split; [discriminate|]); intros _; left.
      + destruct (sts_enabled s_end); [cbn [upgrade_port set_received]|]; exact Hp.
      + exact Hp.
    - discriminate.
    - rewrite Hb', Hb. do 3 eexists. split; [reflexivity|]. split; [split; reflexivity|].
      split; [intros _; exact Hdrop|]. intros H; contradiction.
  Qed.

  (* C10_persist, one call: while a policy is held the call dials its port with TLS, once *)
  Lemma persist_call s c rest :
    begin_upgrade s = false -> sts_enabled s = true ->
    exists l ret s', start_conn ord cfg port s (c :: rest) = ([l], ret, s') /\
                     dialled l (upgrade_port s) true.
  Proof.
    intros Hb He. destruct (tls_single_dial s c rest Hb) as [l [ret [s' [E [D _]]]]].
    { rewrite He. apply orb_true_r. }
    exists l, ret, s'. split; [exact E|]. rewrite <- (server_port_enabled s He). exact D.
  Qed.

  (* … and what can end the retention *)
  Lemma persist_retained s c rest :
    begin_upgrade s = false -> sts_enabled s = true ->
    let r := start_conn ord cfg port s (c :: rest) in
    (sts_enabled (snd r) = true /\ upgrade_port (snd r) = upgrade_port s) \/
    (snd (fst r) = RSTSUpgradeFailed /\ cs_dial_ok c = false /\
     sts_expired (cs_dial_now c) s = true /\ c_disable_fallback cfg = false) \/
    (snd (fst r) = RErrEvent /\ policy_dropped (snd r)).
  Proof.
    intros Hb He r. subst r.
    destruct (cs_dial_ok c) eqn:Hd.
    2:{ rewrite (no_downgrade_dial s c rest He Hd). cbn [fst snd].
        destruct (sts_expired (cs_dial_now c) s), (c_disable_fallback cfg); cbn [andb negb];
          try (left; split; [exact He|reflexivity]). right; left. repeat split. }
    destruct (tls_single_dial s c rest Hb) as [l [ret [s' [E [_ [Herr Hok]]]]]].
    { rewrite He. apply orb_true_r. }
    rewrite E. cbn [fst snd].
    destruct ret; try (right; right; split; [reflexivity|apply Herr; reflexivity]);
      (destruct Hok as [Hp|[_ [Hd' _]]]; [discriminate| |congruence]);
      left; (split; [|exact Hp]); unfold sts_enabled in *; rewrite Hp; exact He.
  Qed.

  (* the connection on which the upgrade happens, whatever its teardown reports *)
  Lemma start_conn_upgrade_eq s c rest st outs :
    c_ssl cfg = false -> sts_enabled s = false -> cs_dial_ok c = true -> c_tracking cfg = true ->
    run_events ord cfg false (cap_init s) (cs_events c) = (st, outs, StopUpgrade) ->
    start_conn ord cfg port s (c :: rest) =
    (mkLog port false true outs :: fst (fst (start_conn ord cfg port (set_begin_upgrade false (st_sts st)) rest)),
     snd (fst (start_conn ord cfg port (set_begin_upgrade false (st_sts st)) rest)),
     snd (start_conn ord cfg port (set_begin_upgrade false (st_sts st)) rest)).
  Proof.
    intros Hssl He Hd Htr Hrun.
    pose proof (run_events_inv ord cfg false (cs_events c) (cap_init s)) as Inv.
    rewrite Hrun in Inv. unfold run_inv in Inv. cbn [fst snd cap_init st_sts] in Inv.
    destruct Inv as [_ [_ [pre [p [_ [_ [_ Es]]]]]]].
    rewrite (start_conn_connected s c rest Hd). unfold conn_tail, conn_run.
    rewrite Hssl, He, Htr. cbn [orb andb]. rewrite Hrun. cbn [fst snd].
    rewrite (server_port_disabled s He).
    destruct (cs_end c); cbn [fst snd]; rewrite Es; cbn [begin_upgrade set_begin_upgrade]; reflexivity.
  Qed.

  (* C10_upgrade, one call *)
  Lemma upgrade_connect s c rest st outs :
    c_ssl cfg = false -> sts_enabled s = false -> cs_dial_ok c = true -> c_tracking cfg = true ->
    run_events ord cfg false (cap_init s) (cs_events c) = (st, outs, StopUpgrade) ->
    exists pre p,
      outs = pre ++ [[Upgrade]] /\ Forall only_writes pre /\ (21 <= p)%Z /\
      c_disable_sts cfg = false /\
      let s1 := set_begin_upgrade false (set_upgrade_port p s) in
      start_conn ord cfg port s (c :: rest) =
      (mkLog port false true outs :: fst (fst (start_conn ord cfg port s1 rest)),
       snd (fst (start_conn ord cfg port s1 rest)), snd (start_conn ord cfg port s1 rest)) /\
      sts_enabled s1 = true /\ upgrade_port s1 = p /\
      (forall c2 rest2, rest = c2 :: rest2 ->
         exists l ret s', start_conn ord cfg port s1 rest = ([l], ret, s') /\ dialled l p true /\
                          l_connected l = cs_dial_ok c2).
  Proof.
    intros Hssl He Hd Htr Hrun.
    pose proof (run_events_inv ord cfg false (cs_events c) (cap_init s)) as Inv.
    rewrite Hrun in Inv. unfold run_inv in Inv. cbn [fst snd cap_init st_sts] in Inv.
    destruct Inv as [_ [Hdis [pre [p [Eouts [Hpre [Hp Es]]]]]]].
    exists pre, p. split; [exact Eouts|]. split; [exact Hpre|]. split; [exact Hp|]. split; [exact Hdis|].
    cbv zeta.
    assert (En : sts_enabled (set_begin_upgrade false (set_upgrade_port p s)) = true).
    { unfold sts_enabled. cbn [upgrade_port set_begin_upgrade set_upgrade_port]. lia. }
    split; [|split; [exact En|split; [reflexivity|]]].
    - rewrite (start_conn_upgrade_eq s c rest st outs Hssl He Hd Htr Hrun). rewrite Es. reflexivity.
    - intros c2 rest2 ->.
      destruct (tls_single_dial (set_begin_upgrade false (set_upgrade_port p s)) c2 rest2 eq_refl) as [l [ret [s' [E [D _]]]]].
      { rewrite En. apply orb_true_r. }
      destruct (start_conn_first (set_begin_upgrade false (set_upgrade_port p s)) c2 rest2)
        as [l0 [logs0 [ret0 [s0 [E0 [_ Hc0]]]]]].
      rewrite E in E0. injection E0 as <- _ _ _.
      exists l, ret, s'. split; [exact E|]. split; [|exact Hc0].
      rewrite (server_port_enabled _ En) in D. exact D.
  Qed.

  (* the teardown of the connection that is given up does not matter (52091d0) *)
  Lemma upgrade_teardown_irrelevant s c rest st outs e1 e2 :
    c_ssl cfg = false -> sts_enabled s = false -> cs_dial_ok c = true -> c_tracking cfg = true ->
    run_events ord cfg false (cap_init s) (cs_events c) = (st, outs, StopUpgrade) ->
    start_conn ord cfg port s (with_end e1 c :: rest) = start_conn ord cfg port s (with_end e2 c :: rest).
  Proof.
    intros Hssl He Hd Htr Hrun.
    rewrite (start_conn_upgrade_eq s (with_end e1 c) rest st outs Hssl He Hd Htr Hrun).
    rewrite (start_conn_upgrade_eq s (with_end e2 c) rest st outs Hssl He Hd Htr Hrun). reflexivity.
  Qed.

  (* C10_invalid, one call *)
  Lemma invalid_connect s c rest st outs :
    begin_upgrade s = false ->
    cs_dial_ok c = true -> (c_ssl cfg || sts_enabled s = true -> cs_hs_ok c = true) -> c_tracking cfg = true ->
    run_events ord cfg (c_ssl cfg || sts_enabled s) (cap_init s) (cs_events c) = (st, outs, StopError) ->
    start_conn ord cfg port s (c :: rest) =
      ([mkLog (server_port port s) (c_ssl cfg || sts_enabled s) true outs], RErrEvent, st_sts st) /\
    policy_dropped (st_sts st) /\ server_port port (st_sts st) = port /\
    exists pre v, outs = pre ++ [[InjectError v]] /\ Forall only_writes pre.
  Proof.
    intros Hb Hd Hh Htr Hrun.
    pose proof (run_events_inv ord cfg (c_ssl cfg || sts_enabled s) (cs_events c) (cap_init s)) as Inv.
    rewrite Hrun in Inv. unfold run_inv in Inv. cbn [fst snd cap_init st_sts] in Inv.
    destruct Inv as [_ [pre [v [Eouts [Hpre [Hdrop [_ Hb']]]]]]].
    split; [|split; [exact Hdrop|split]].
    - rewrite (start_conn_connected s c rest Hd). unfold conn_tail, conn_run. rewrite Htr.
      assert (Eh : (c_ssl cfg || sts_enabled s) && negb (cs_hs_ok c) = false).
      { destruct (c_ssl cfg || sts_enabled s) eqn:Et; [rewrite (Hh eq_refl)|]; reflexivity. }
      rewrite Eh, Hrun. cbn [fst snd]. rewrite Hb', Hb. reflexivity.
    - apply server_port_disabled. apply Hdrop.
    - exists pre, v. split; assumption.
  Qed.

  (* C10_disabled, one call: with DisableSTS nothing of the machinery runs *)
  Lemma disabled_connect s c rest :
    begin_upgrade s = false ->
    c_disable_sts cfg = true ->
    exists l ret s', start_conn ord cfg port s (c :: rest) = ([l], ret, s') /\
                     dialled l (server_port port s) (c_ssl cfg || sts_enabled s) /\
                     ret <> RErrEvent /\ Forall only_writes (l_outs l) /\
                     (sts_enabled s = false -> sts_enabled s' = false /\ ret <> RSTSUpgradeFailed).
  Proof.
    intros Hb Hdis.
    destruct (cs_dial_ok c) eqn:Hd.
    2:{ rewrite (start_conn_failed s c rest Hd).
        do 3 eexists. split; [reflexivity|]. split; [split; reflexivity|]. split.
        - destruct (sts_enabled s); discriminate.
        - split; [constructor|]. intros He. rewrite He. split; [|discriminate].
          destruct (sts_expired (cs_dial_now c) s && negb (c_disable_fallback cfg)); [reflexivity|exact He]. }
    rewrite (start_conn_connected s c rest Hd). unfold conn_tail.
    pose proof (conn_run_case ord cfg (c_ssl cfg || sts_enabled s) s c (server_port port s)) as K.
    destruct (conn_run ord cfg (c_ssl cfg || sts_enabled s) s c (server_port port s)) as [[[log err] s_end] cl].
    cbn [fst snd].
    inversion K as [Ht' Hh E | outs s' err' cl' Hall Q Hend E | pre p' err' cl' Hf Hd' | pre v s' Hd' ]; subst;
      try congruence.
    - rewrite Hb. do 3 eexists. split; [reflexivity|]. split; [split; reflexivity|]. split; [discriminate|].
      split; [constructor|]. intros He. split; [exact He|discriminate].
    - pose proof (quiet_rel_disabled _ _ _ _ Hdis Q) as Es. subst s_end. rewrite Hb.
      do 3 eexists. split; [reflexivity|]. split; [split; reflexivity|].
      destruct Hend as [[-> [now [-> _]]]|[-> [-> _]]]; (split; [discriminate|]); (split; [exact Hall|]);
        intros He; rewrite ?He; (split; [first [exact He|reflexivity]|discriminate]).
  Qed.
End Connect.

(* ---- from the acknowledgement to the Connect call -------------------------- *)
Section FromAck.
  Variable ord : list str -> list str.
  Variable cfg : cap_cfg.
  Variable port : Z.

  Lemma next_dial_tls s1 c2 rest2 :
    begin_upgrade s1 = false -> sts_enabled s1 = true ->
    exists l ret s', start_conn ord cfg port s1 (c2 :: rest2) = ([l], ret, s') /\
                     dialled l (upgrade_port s1) true /\ l_connected l = cs_dial_ok c2.
  Proof.
    intros Hb En. destruct (persist_call ord cfg port s1 c2 rest2 Hb En) as [l [ret [s' [E D]]]].
    destruct (start_conn_first ord cfg port s1 c2 rest2) as [l0 [logs0 [ret0 [s0 [E0 [_ Hc0]]]]]].
    rewrite E in E0. injection E0 as <- _ _ _. exists l, ret, s'. repeat split; try apply D; assumption.
  Qed.

  (* C10_upgrade with the hypothesis on the acknowledgement itself; no hypothesis on how the
     teardown of the plaintext connection ends (cs_end c is arbitrary) *)
  Lemma upgrade_from_ack s c rest pre now a toks post st1 outs1 p :
    c_ssl cfg = false -> sts_enabled s = false -> cs_dial_ok c = true -> c_tracking cfg = true ->
    c_disable_sts cfg = false ->
    cs_events c = pre ++ (now, ack_params a toks) :: post ->
    run_events ord cfg false (cap_init s) pre = (st1, outs1, StopNone) ->
    acks_sts toks -> usable_port (advertised_policy st1) p ->
    let s1 := set_begin_upgrade false (set_upgrade_port p s) in
    start_conn ord cfg port s (c :: rest) =
      (mkLog port false true (outs1 ++ [[Upgrade]]) :: fst (fst (start_conn ord cfg port s1 rest)),
       snd (fst (start_conn ord cfg port s1 rest)), snd (start_conn ord cfg port s1 rest)) /\
    Forall only_writes outs1 /\
    sts_enabled s1 = true /\ upgrade_port s1 = p /\
    (forall c2 rest2, rest = c2 :: rest2 ->
       exists l ret s', start_conn ord cfg port s1 rest = ([l], ret, s') /\ dialled l p true /\
                        l_connected l = cs_dial_ok c2).
  Proof.
    intros Hssl He Hd Htr Hdis Hev Hpre Hack Hport.
    pose proof (run_events_inv ord cfg false pre (cap_init s)) as Inv1.
    rewrite Hpre in Inv1. unfold run_inv in Inv1. cbn [fst snd cap_init st_sts] in Inv1.
    destruct Inv1 as [Hall1 [_ Q1]]. apply quiet_rel_plain in Q1.
    pose proof (ack_upgrade_event ord cfg now st1 a toks _ p Hdis (acks_sts_value st1 toks Hack) Hport) as Hstep.
    assert (Hrun : run_events ord cfg false (cap_init s) (cs_events c) =
                   (mkSt (st_tmp st1) (ack_enabled st1 toks) (set_begin_upgrade true (set_upgrade_port p (st_sts st1))),
                    outs1 ++ [[Upgrade]], StopUpgrade)).
    { rewrite Hev. rewrite (run_events_app ord cfg false pre _ _ _ now (ack_params a toks) post Hpre).
      - rewrite Hstep. reflexivity.
      - rewrite Hstep. discriminate. }
    pose proof (start_conn_upgrade_eq ord cfg port s c rest _ _ Hssl He Hd Htr Hrun) as Eq.
    cbn [st_sts] in Eq. rewrite Q1 in Eq.
    change (set_begin_upgrade false (set_begin_upgrade true (set_upgrade_port p s)))
      with (set_begin_upgrade false (set_upgrade_port p s)) in Eq.
    destruct Hport as [ps [_ [_ Hge]]].
    assert (En : sts_enabled (set_begin_upgrade false (set_upgrade_port p s)) = true).
    { unfold sts_enabled. cbn [upgrade_port set_begin_upgrade set_upgrade_port]. lia. }
    cbv zeta. split; [exact Eq|]. split; [exact Hall1|]. split; [exact En|]. split; [reflexivity|].
    intros c2 rest2 ->. exact (next_dial_tls (set_begin_upgrade false (set_upgrade_port p s)) c2 rest2 eq_refl En).
  Qed.

  (* C10_invalid with the hypothesis on the acknowledgement itself *)
  Lemma invalid_from_ack s c rest pre now a toks post st1 outs1 :
    let tls := c_ssl cfg || sts_enabled s in
    begin_upgrade s = false ->
    cs_dial_ok c = true -> (tls = true -> cs_hs_ok c = true) -> c_tracking cfg = true ->
    c_disable_sts cfg = false ->
    cs_events c = pre ++ (now, ack_params a toks) :: post ->
    run_events ord cfg tls (cap_init s) pre = (st1, outs1, StopNone) ->
    acks_sts toks ->
    (tls = false /\ no_usable_port (advertised_policy st1)) \/ (tls = true /\ no_duration (advertised_policy st1)) ->
    exists s',
      start_conn ord cfg port s (c :: rest) =
        ([mkLog (server_port port s) tls true (outs1 ++ [[InjectError (advertised_policy st1)]])], RErrEvent, s') /\
      Forall only_writes outs1 /\ policy_dropped s' /\ server_port port s' = port.
  Proof.
    intros tls Hb Hd Hh Htr Hdis Hev Hpre Hack Hbad.
    pose proof (run_events_inv ord cfg tls pre (cap_init s)) as Inv1.
    rewrite Hpre in Inv1. unfold run_inv in Inv1. cbn [fst snd cap_init st_sts] in Inv1.
    destruct Inv1 as [Hall1 _].
    destruct (ack_invalid_event ord cfg tls now st1 a toks _ Hdis (acks_sts_value st1 toks Hack) Hbad) as [Ho Hdrop].
    assert (Hrun : run_events ord cfg tls (cap_init s) (cs_events c) =
                   (fst (handle_cap ord cfg tls now st1 (ack_params a toks)),
                    outs1 ++ [[InjectError (advertised_policy st1)]], StopError)).
    { rewrite Hev. rewrite (run_events_app ord cfg tls pre _ _ _ now (ack_params a toks) post Hpre).
      - rewrite Ho. reflexivity.
      - rewrite Ho. discriminate. }
    destruct (invalid_connect ord cfg port s c rest _ _ Hb Hd Hh Htr Hrun) as [Eq [Hdr [Hsp _]]].
    eexists. split; [exact Eq|]. split; [exact Hall1|]. split; [exact Hdr|exact Hsp].
  Qed.
End FromAck.

(* ---- several Connect calls of the same client ------------------------------ *)
Lemma persist_calls ord cfg port : forall calls s k sb c res,
  begin_upgrade s = false ->
  nth_error (policies_before ord cfg port s calls) k = Some sb ->
  nth_error calls k = Some c -> c <> [] ->
  nth_error (connects ord cfg port s calls) k = Some res ->
  sts_enabled sb = true ->
  exists l, fst (fst res) = [l] /\ dialled l (upgrade_port sb) true.
Proof.
  induction calls as [|c0 r IH]; intros s k sb c res Hbs Hb Hc Hne Hr He; [destruct k; discriminate|].
  destruct k as [|k].
  - cbn in Hb, Hc, Hr. injection Hb as <-. injection Hc as <-. injection Hr as <-.
    destruct c0 as [|c1 rest]; [contradiction|].
    destruct (persist_call ord cfg port s c1 rest Hbs He) as [l [ret [s' [E D]]]].
    exists l. rewrite E. split; [reflexivity|exact D].
  - cbn in Hb, Hc, Hr.
    exact (IH _ k sb c res (start_conn_begin ord cfg port c0 s Hbs) Hb Hc Hne Hr He).
Qed.

(* ---- is sts requested at all? (possibleCapList) ----------------------------- *)
Lemma aget_fold_aset_keys {V} (k : str) (dflt : V) (l : list str) : forall m : amap V,
  aget k (fold_left (fun o k' => aset k' dflt o) l m) =
  if existsb (streqb k) l then Some dflt else aget k m.
Proof.
  induction l as [|x r IH]; intros m; [reflexivity|]. cbn [fold_left existsb]. rewrite IH.
  destruct (streqb k x) eqn:E; cbn [orb].
  - apply streqb_eq in E. subst x. destruct (existsb (streqb k) r); [reflexivity|apply aget_aset_eq].
  - destruct (existsb (streqb k) r); [reflexivity|]. apply streqb_neq in E. apply aget_aset_neq. congruence.
Qed.

Lemma aget_none_keys {V} (k : str) (l : amap V) : aget k l = None -> forall kv, In kv l -> fst kv <> k.
Proof.
  induction l as [|[k' v'] r IH]; intros H kv Hin; [destruct Hin|]. simpl in H.
  destruct (streqb k' k) eqn:E; [discriminate|]. destruct Hin as [<-|Hin].
  - simpl. apply streqb_neq. exact E.
  - apply IH; assumption.
Qed.

Lemma aget_fold_aset_kvs {V} (k : str) (l : amap V) : forall m : amap V,
  (forall kv, In kv l -> fst kv <> k) ->
  aget k (fold_left (fun o kv => aset (fst kv) (snd kv) o) l m) = aget k m.
Proof.
  induction l as [|x r IH]; intros m H; [reflexivity|]. cbn [fold_left]. rewrite IH.
  - apply aget_aset_neq. apply H. left; reflexivity.
  - intros kv Hin. apply H. right; exact Hin.
Qed.

Lemma sts_not_builtin : existsb (streqb s_sts) builtin_caps = false.
Proof. reflexivity. Qed.

(* sts is requestable exactly when STS is not disabled, SSL is not configured and we are
   not inside the five-minute fallback window (given SupportedCaps does not list it) *)
Lemma possible_caps_sts cfg recent :
  aget s_sts (c_supported cfg) = None ->
  amem s_sts (possible_caps cfg recent) =
  negb (c_disable_sts cfg) && negb (c_ssl cfg) && negb (recent && negb (c_disable_fallback cfg)).
Proof.
  intros Hs. unfold amem, possible_caps.
  rewrite aget_fold_aset_keys, sts_not_builtin.
  rewrite aget_fold_aset_kvs by (apply aget_none_keys; exact Hs).
  assert (Hsasl : forall m : amap (list str), aget s_sts (aset s_sasl [] m) = aget s_sts m).
  { intros m. apply aget_aset_neq. discriminate. }
  destruct (c_disable_sts cfg), (c_ssl cfg), recent, (c_disable_fallback cfg), (c_sasl cfg);
    cbn [negb andb]; rewrite ?Hsasl; reflexivity.
Qed.

Lemma possible_caps_no_sts cfg recent :
  aget s_sts (c_supported cfg) = None ->
  c_disable_sts cfg = true \/ c_ssl cfg = true ->
  aget s_sts (possible_caps cfg recent) = None.
Proof.
  intros Hs Hc. pose proof (possible_caps_sts cfg recent Hs) as H. unfold amem in H.
  destruct (aget s_sts (possible_caps cfg recent)); [|reflexivity].
  exfalso. destruct Hc as [Hc|Hc]; rewrite Hc in H; [|destruct (c_disable_sts cfg)]; simpl in H; discriminate.
Qed.

(* ---- a server that acknowledges only what was requested -------------------- *)
Definition no_sts (st : cap_state) : Prop :=
  aget s_sts (st_tmp st) = None /\ aget s_sts (st_enabled st) = None.

Lemma aget_adel_none {V} (k k' : str) (m : amap V) : aget k m = None -> aget k (adel k' m) = None.
Proof. apply aget_adel_none_. Qed.

Lemma fold_adel_none {V} (k : str) (ks : list str) : forall m : amap V,
  aget k m = None -> aget k (fold_left (fun en k' => adel k' en) ks m) = None.
Proof. induction ks as [|x r IH]; intros m H; [exact H|]. cbn [fold_left]. apply IH. apply aget_adel_none. exact H. Qed.

Lemma ls_step_none possible tmp kv :
  aget s_sts possible = None -> aget s_sts tmp = None -> aget s_sts (ls_step possible tmp kv) = None.
Proof.
  intros Hp Ht. unfold ls_step.
  destruct (str_eq_dec (fst kv) s_sts) as [E|Hne].
  - rewrite E, Hp. exact Ht.
  - destruct (aget (fst kv) possible); [|exact Ht].
    destruct (_ || _)%bool; [rewrite aget_aset_neq by exact Hne; exact Ht|].
    destruct (contains_loop _ _); [rewrite aget_aset_neq by exact Hne; exact Ht|exact Ht].
Qed.

Lemma fold_ls_step_none possible l : forall tmp,
  aget s_sts possible = None -> aget s_sts tmp = None ->
  aget s_sts (fold_left (ls_step possible) l tmp) = None.
Proof.
  induction l as [|x r IH]; intros tmp Hp Ht; [exact Ht|]. cbn [fold_left]. apply IH; [exact Hp|].
  apply ls_step_none; assumption.
Qed.

Lemma handle_cap_no_sts ord cfg tls now st params :
  (forall recent, aget s_sts (possible_caps cfg recent) = None) ->
  no_sts st -> honest_ack st params ->
  no_sts (fst (handle_cap ord cfg tls now st params)) /\
  st_sts (fst (handle_cap ord cfg tls now st params)) = st_sts st /\
  only_writes (snd (handle_cap ord cfg tls now st params)).
Proof.
  intros Hposs [Ht He] Hh.
  destruct (is_ack3 params) eqn:Ea.
  - destruct (is_ack3_shape _ Ea) as [a [toks ->]].
    assert (Hn : ~ In s_sts (split_byte 32 toks)).
    { intros Hin. specialize (Hh a toks eq_refl s_sts Hin). unfold amem in Hh. rewrite Ht in Hh. discriminate. }
    rewrite handle_cap_ack. unfold ack_result. rewrite (not_acked_none st toks Hn He).
    destruct (finish_ack_quiet cfg (ack_enabled st toks) (st_sts st)) as [Hw Hs].
    split; [|split; [exact Hs|exact Hw]].
    unfold finish_ack. destruct (aget s_sasl _), (c_sasl cfg); cbn [fst]; (split; [reflexivity|]);
      cbn [st_enabled]; exact (not_acked_none st toks Hn He).
  - destruct (handle_cap_other ord cfg tls now st params Ea) as [Hs Hw].
    split; [|split; [exact Hs|exact Hw]].
    unfold is_ack3 in Ea. unfold handle_cap, no_sts.
    destruct (Nat.leb 2 (length params) && streqb (param1 params) s_DEL) eqn:E1.
    { cbn [fst st_tmp st_enabled]. split; [first [exact Ht | apply fold_adel_none; exact Ht]|].
      apply fold_adel_none. exact He. }
    destruct (Nat.leb 2 (length params) && streqb (param1 params) s_NAK) eqn:E2.
    { cbn [fst st_tmp st_enabled]. split; first [assumption | reflexivity]. }
    cbv zeta. rewrite Ea.
    assert (Htmp : aget s_sts
                     (if Nat.leb 3 (length params) && (streqb (param1 params) s_LS || streqb (param1 params) s_NEW)
                      then fold_left (ls_step (possible_caps cfg (recently_failed now (st_sts st))))
                                     (parse_cap (last_or_empty params)) (st_tmp st)
                      else st_tmp st) = None).
    { destruct (Nat.leb 3 (length params) && _); [|exact Ht]. apply fold_ls_step_none; [apply Hposs|exact Ht]. }
    match goal with |- context [if ?c then _ else _] =>
      match c with (_ && Nat.eqb (length _) 0)%bool => destruct c end end;
      cbn [fst st_tmp st_enabled]; split; assumption.
Qed.

Lemma run_events_no_sts ord cfg tls evs : forall st,
  (forall recent, aget s_sts (possible_caps cfg recent) = None) ->
  no_sts st -> honest_run ord cfg tls st evs ->
  snd (run_events ord cfg tls st evs) = StopNone /\
  st_sts (fst (fst (run_events ord cfg tls st evs))) = st_sts st /\
  Forall only_writes (snd (fst (run_events ord cfg tls st evs))).
Proof.
  induction evs as [|[now ps] r IH]; intros st Hposs Hno Hrun.
  { simpl. repeat split. constructor. }
  inversion Hrun as [|st0 now0 ps0 r0 Hh Hrest]; subst.
  destruct (handle_cap_no_sts ord cfg tls now st ps Hposs Hno Hh) as [Hno' [Hs Hw]].
  rewrite run_events_cons. cbv zeta. rewrite (stop_of_writes _ Hw).
  destruct (IH _ Hposs Hno' Hrest) as [Hk [Hs2 Hall]].
  cbn [fst snd]. split; [exact Hk|]. split; [rewrite Hs2; exact Hs|]. constructor; assumption.
Qed.

(* configured SSL, one Connect call of a client that holds no policy *)
Lemma ssl_connect ord cfg port s c rest :
  begin_upgrade s = false ->
  c_ssl cfg = true -> aget s_sts (c_supported cfg) = None -> sts_enabled s = false ->
  honest_run ord cfg true (cap_init s) (if c_tracking cfg then cs_events c else []) ->
  exists l ret s', start_conn ord cfg port s (c :: rest) = ([l], ret, s') /\
                   dialled l port true /\ Forall only_writes (l_outs l) /\
                   ret <> RErrEvent /\ ret <> RSTSUpgradeFailed /\ sts_enabled s' = false.
Proof.
  intros Hb Hssl Hsup He Hrun.
  assert (Hposs : forall recent, aget s_sts (possible_caps cfg recent) = None).
  { intros recent. apply possible_caps_no_sts; [exact Hsup|right; exact Hssl]. }
  destruct (cs_dial_ok c) eqn:Hd.
  2:{ rewrite (start_conn_failed ord cfg port s c rest Hd), Hssl, He. cbn [orb].
      rewrite (server_port_disabled port s He).
      do 3 eexists. split; [reflexivity|]. split; [split; reflexivity|]. split; [constructor|].
      split; [discriminate|]. split; [discriminate|].
      destruct (sts_expired (cs_dial_now c) s && negb (c_disable_fallback cfg)); [reflexivity|exact He]. }
  rewrite (start_conn_connected ord cfg port s c rest Hd), Hssl. cbn [orb].
  rewrite (server_port_disabled port s He). unfold conn_tail, conn_run. cbn [andb].
  destruct (negb (cs_hs_ok c)).
  { cbn [fst snd]. rewrite Hb. do 3 eexists. split; [reflexivity|]. split; [split; reflexivity|].
    split; [constructor|]. split; [discriminate|]. split; [discriminate|exact He]. }
  destruct (run_events_no_sts ord cfg true _ (cap_init s) Hposs (conj eq_refl eq_refl) Hrun) as [Hk [Hs Hall]].
  destruct (run_events ord cfg true (cap_init s) (if c_tracking cfg then cs_events c else [])) as [[st outs] k].
  cbn [fst snd cap_init st_sts] in *. subst k. 
  destruct (cs_end c); cbn [fst snd]; rewrite Hs, Hb, ?He;
    do 3 eexists; (split; [reflexivity|]); (split; [split; reflexivity|]);
    (split; [exact Hall|]); (split; [discriminate|]); (split; [discriminate|exact He]).
Qed.

(* ---- is sts requested: the general form (any SupportedCaps) ------------------ *)
Lemma amem_aset {V} (k k' : str) (v : V) (m : amap V) : amem k (aset k' v m) = streqb k' k || amem k m.
Proof.
  unfold amem. destruct (streqb k' k) eqn:E.
  - apply streqb_eq in E. subst k'. rewrite aget_aset_eq. reflexivity.
  - apply streqb_neq in E. rewrite aget_aset_neq by exact E. reflexivity.
Qed.

Lemma amem_fold_aset_kvs {V} (k : str) (l : amap V) : forall m : amap V,
  amem k (fold_left (fun o kv => aset (fst kv) (snd kv) o) l m) = amem k l || amem k m.
Proof.
  induction l as [|[k' v] r IH]; intros m; [reflexivity|]. cbn [fold_left fst snd]. rewrite IH, amem_aset.
  unfold amem at 3. cbn [aget]. destruct (streqb k' k); cbn [orb].
  - apply orb_true_r.
  - reflexivity.
Qed.

(* possibleCapList offers sts iff the application listed it in SupportedCaps, or STS is
   neither disabled nor pre-empted by configured SSL nor inside the fallback window *)
Lemma possible_caps_sts_general cfg recent :
  amem s_sts (possible_caps cfg recent) =
  amem s_sts (c_supported cfg) ||
  (negb (c_disable_sts cfg) && negb (c_ssl cfg) && negb (recent && negb (c_disable_fallback cfg))).
Proof.
  unfold possible_caps. unfold amem at 1. rewrite aget_fold_aset_keys, sts_not_builtin.
  change (match aget s_sts ?m with Some _ => true | None => false end) with (amem s_sts m).
  rewrite amem_fold_aset_kvs. f_equal.
  assert (Hsasl : forall m : amap (list str), amem s_sts (aset s_sasl [] m) = amem s_sts m).
  { intros m. rewrite amem_aset. reflexivity. }
  destruct (c_disable_sts cfg), (c_ssl cfg), recent, (c_disable_fallback cfg), (c_sasl cfg);
    cbn [negb andb]; rewrite ?amem_aset, ?Hsasl; reflexivity.
Qed.

(* ---- renewal: every acknowledged duration on TLS restarts the clock ---------- *)
Lemma with_preload_received v s : persistence_received (with_preload v s) = persistence_received s.
Proof. unfold with_preload. destruct (cv_get s_preload v); reflexivity. Qed.
Lemma with_preload_duration v s : persistence_duration (with_preload v s) = persistence_duration s.
Proof. unfold with_preload. destruct (cv_get s_preload v); reflexivity. Qed.

Lemma tls_renewal ord cfg now st a toks v d :
  c_disable_sts cfg = false ->
  aget s_sts (ack_enabled st toks) = Some v ->
  cv_get s_duration v = Some d ->
  let s' := st_sts (fst (handle_cap ord cfg true now st (ack_params a toks))) in
  persistence_received s' = now /\ persistence_duration s' = atoi_go d /\
  upgrade_port s' = upgrade_port (st_sts st).
Proof.
  intros Hd Hv Hdur. cbv zeta. rewrite (ack_tls_event ord cfg now st a toks v d Hd Hv Hdur).
  destruct (finish_ack_quiet cfg (ack_enabled st toks) (with_preload v (set_persistence (atoi_go d) now (st_sts st)))) as [_ Hs].
  rewrite Hs, with_preload_received, with_preload_duration, with_preload_port. repeat split.
Qed.

(* a policy received at most `duration` whole seconds ago has not expired *)
Lemma unexpired_within s now :
  (persistence_received s <= now)%Z ->
  (now - persistence_received s < (persistence_duration s + 1) * second_ns)%Z ->
  sts_expired now s = false.
Proof.
  intros Hle Hlt. unfold sts_expired, since, max_duration, max_int64, min_int64, second_ns in *.
  set (d := (now - persistence_received s)%Z) in *.
  assert (Hd0 : (0 <= d)%Z) by lia.
  destruct (9223372036854775807 <? d)%Z eqn:E1.
  - apply Z.ltb_lt in E1. apply Z.ltb_ge.
    change (Z.quot 9223372036854775807 1000000000) with 9223372036%Z. lia.
  - destruct (d <? -9223372036854775808)%Z eqn:E2; [lia|].
    apply Z.ltb_ge. rewrite Z.quot_div_nonneg by lia.
    assert (d / 1000000000 < persistence_duration s + 1)%Z; [|lia].
    apply Z.div_lt_upper_bound; lia.
Qed.

Lemma no_downgrade_unexpired ord cfg port s c rest :
  sts_enabled s = true -> cs_dial_ok c = false ->
  (persistence_received s <= cs_dial_now c)%Z ->
  (cs_dial_now c - persistence_received s < (persistence_duration s + 1) * second_ns)%Z ->
  start_conn ord cfg port s (c :: rest) = ([mkLog (upgrade_port s) true false []], RSTSUpgradeFailed, s).
Proof.
  intros He Hd Hle Hlt. rewrite (no_downgrade_dial ord cfg port s c rest He Hd).
  rewrite (unexpired_within s (cs_dial_now c) Hle Hlt). reflexivity.
Qed.
