(* Generic lemmas for the wire-codec proofs: checked indexing, first occurrence of a byte
   (`cut`), CR/LF trimming and stripping, SPACE splitting. *)
From Coq Require Import Lia ZifyBool ZifyN ZifyNat.
Require Import Bytes Utf8 AMap WireOut GoUpper Tags Event OrderLemmas.

Arguments N.eqb : simpl never.
Arguments N.leb : simpl never.
Arguments N.ltb : simpl never.

(* ---- checked indexing ------------------------------------------------------------- *)

Lemma slice_from_ok s i : (i <= length s)%nat -> slice_from s i = Ok (skipn i s).
Proof. intros H. unfold slice_from. destruct (Nat.leb i (length s)) eqn:E; [reflexivity|lia]. Qed.

Lemma slice_to_ok s j : (j <= length s)%nat -> slice_to s j = Ok (firstn j s).
Proof. intros H. unfold slice_to. destruct (Nat.leb j (length s)) eqn:E; [reflexivity|lia]. Qed.

Lemma slice_ok s i j : (i <= j)%nat -> (j <= length s)%nat ->
  slice s i j = Ok (firstn (j - i) (skipn i s)).
Proof.
  intros H1 H2. unfold slice.
  destruct (Nat.leb i j && Nat.leb j (length s))%bool eqn:E; [reflexivity|lia].
Qed.

Lemma at_ok s i : (i < length s)%nat -> at_ s i = Ok (nth i s 0).
Proof.
  intros H. unfold at_. destruct (nth_error s i) eqn:E.
  - rewrite (nth_error_nth s i 0 E). reflexivity.
  - apply nth_error_None in E. lia.
Qed.

Lemma skipn_app_len {A} (a b : list A) : skipn (length a) (a ++ b) = b.
Proof. induction a; simpl; auto. Qed.

Lemma firstn_app_len {A} (a b : list A) : firstn (length a) (a ++ b) = a.
Proof. induction a; simpl; [destruct b; reflexivity|congruence]. Qed.

Lemma slice_from_app a b : slice_from (a ++ b) (length a) = Ok b.
Proof. rewrite slice_from_ok by (rewrite app_length; lia). rewrite skipn_app_len. reflexivity. Qed.

Lemma slice_to_app a b : slice_to (a ++ b) (length a) = Ok a.
Proof. rewrite slice_to_ok by (rewrite app_length; lia). rewrite firstn_app_len. reflexivity. Qed.

Lemma slice_app_mid a b c : slice (a ++ b ++ c) (length a) (length a + length b) = Ok b.
Proof.
  rewrite slice_ok by (rewrite ?app_length; lia).
  rewrite skipn_app_len. replace (length a + length b - length a)%nat with (length b) by lia.
  rewrite firstn_app_len. reflexivity.
Qed.

(* ---- first occurrence of a byte ---------------------------------------------------- *)

(* cut c s = Some (a, b): s = a ++ c :: b and c does not occur in a *)
Fixpoint cut (c : N) (s : str) : option (str * str) :=
  match s with
  | [] => None
  | x :: r => if x =? c then Some ([], r)
              else match cut c r with Some (a, b) => Some (x :: a, b) | None => None end
  end.

Lemma cut_some c s a b : cut c s = Some (a, b) -> s = a ++ c :: b /\ ~ In c a.
Proof.
  revert a b. induction s as [|x r IH]; intros a b H; simpl in H; [discriminate|].
  destruct (x =? c) eqn:E.
  - inversion H; subst. apply N.eqb_eq in E. subst. split; [reflexivity|intros []].
  - destruct (cut c r) as [[a' b']|] eqn:C; [|discriminate]. inversion H; subst.
    destruct (IH _ _ eq_refl) as [-> Hn]. split; [reflexivity|].
    intros [->|Hin]; [rewrite N.eqb_refl in E; discriminate|auto].
Qed.

Lemma cut_none c s : cut c s = None -> ~ In c s.
Proof.
  induction s as [|x r IH]; intros H; simpl in H; [intros []|].
  destruct (x =? c) eqn:E; [discriminate|].
  destruct (cut c r) as [[a' b']|] eqn:C; [discriminate|].
  intros [->|Hin]; [rewrite N.eqb_refl in E; discriminate|exact (IH eq_refl Hin)].
Qed.

Lemma cut_app c a b : ~ In c a -> cut c (a ++ c :: b) = Some (a, b).
Proof.
  induction a as [|x a IH]; intros Hn; simpl.
  - rewrite N.eqb_refl. reflexivity.
  - destruct (x =? c) eqn:E; [apply N.eqb_eq in E; subst; exfalso; apply Hn; left; reflexivity|].
    rewrite IH; [reflexivity|intros Hin; apply Hn; right; exact Hin].
Qed.

Lemma cut_notin c s : ~ In c s -> cut c s = None.
Proof.
  induction s as [|x r IH]; intros Hn; simpl; [reflexivity|].
  destruct (x =? c) eqn:E; [apply N.eqb_eq in E; subst; exfalso; apply Hn; left; reflexivity|].
  rewrite IH; [reflexivity|intros Hin; apply Hn; right; exact Hin].
Qed.

Lemma index_byte_cut c s :
  index_byte c s = match cut c s with Some (a, _) => Some (length a) | None => None end.
Proof.
  induction s as [|x r IH]; simpl; [reflexivity|].
  destruct (x =? c) eqn:E; [reflexivity|].
  rewrite IH. destruct (cut c r) as [[a b]|]; reflexivity.
Qed.

Lemma index_byte_lt c s i : index_byte c s = Some i -> (i < length s)%nat.
Proof.
  rewrite index_byte_cut. destruct (cut c s) as [[a b]|] eqn:C; [|discriminate].
  intros H; inversion H; subst. destruct (cut_some _ _ _ _ C) as [-> _].
  rewrite app_length. simpl. lia.
Qed.

Lemma memb_In c s : memb c s = true <-> In c s.
Proof.
  induction s as [|x r IH]; simpl; [split; [discriminate|intros []]|].
  rewrite Bool.orb_true_iff, IH, N.eqb_eq. tauto.
Qed.

Lemma memb_false c s : memb c s = false <-> ~ In c s.
Proof. rewrite <- memb_In. destruct (memb c s); split; congruence. Qed.

(* ---- forallb helpers --------------------------------------------------------------- *)

Lemma forallb_notin (f : N -> bool) c s : f c = false -> forallb f s = true -> ~ In c s.
Proof.
  intros Hc Hall Hin. rewrite forallb_forall in Hall. specialize (Hall _ Hin). congruence.
Qed.
