(* Byte-lexicographic order, sort.Strings and the list edits of state.go. *)
Require Import Bytes AMap.
From Coq Require Import Lia ZifyBool ZifyN ZifyNat Sorting.Sorted Permutation.

Lemma streqb_eq a b : streqb a b = true <-> a = b.
Proof.
  revert b; induction a as [|x a IH]; intros [|y b]; simpl; try (split; [discriminate|congruence]); try tauto.
  rewrite andb_true_iff, N.eqb_eq, IH. split; [intros [-> ->]; reflexivity | intros H; injection H; auto].
Qed.
Lemma streqb_refl a : streqb a a = true.
Proof. apply streqb_eq; reflexivity. Qed.
Lemma streqb_neq a b : streqb a b = false <-> a <> b.
Proof. rewrite <- streqb_eq. destruct (streqb a b); split; congruence. Qed.
Lemma streqb_sym a b : streqb a b = streqb b a.
Proof. destruct (streqb a b) eqn:E; symmetry; [apply streqb_eq in E; subst; apply streqb_refl|].
  apply streqb_neq. apply streqb_neq in E. congruence. Qed.

Definition slt (a b : str) : Prop := str_ltb a b = true.

Lemma str_ltb_irrefl a : str_ltb a a = false.
Proof. induction a as [|x a IH]; simpl; [reflexivity|]. rewrite N.ltb_irrefl. exact IH. Qed.

Lemma str_ltb_trans a b c : slt a b -> slt b c -> slt a c.
Proof.
  unfold slt. revert b c; induction a as [|x a IH]; intros [|y b] [|z c]; simpl; try congruence.
  destruct (x <? y) eqn:Exy; destruct (y <? x) eqn:Eyx; destruct (y <? z) eqn:Eyz; destruct (z <? y) eqn:Ezy;
    destruct (x <? z) eqn:Exz; destruct (z <? x) eqn:Ezx; try congruence; try lia.
  - intros H1 H2. assert (x = y) by lia. assert (y = z) by lia. subst. eapply IH; eauto.
Qed.

Lemma str_ltb_trichotomy a b : slt a b \/ a = b \/ slt b a.
Proof.
  unfold slt. revert b; induction a as [|x a IH]; intros [|y b]; simpl; auto.
  destruct (x <? y) eqn:Exy; [auto|]. destruct (y <? x) eqn:Eyx; [auto|].
  assert (x = y) by lia. subst. destruct (IH b) as [H|[H|H]]; auto. subst; auto.
Qed.

Lemma str_ltb_asym a b : slt a b -> slt b a -> False.
Proof. intros H1 H2. pose proof (str_ltb_trans _ _ _ H1 H2) as H. unfold slt in H. rewrite str_ltb_irrefl in H. discriminate. Qed.

Lemma str_leb_false_lt x y : str_leb x y = false -> slt y x.
Proof. unfold str_leb, slt. destruct (str_ltb y x); simpl; congruence. Qed.
Lemma str_leb_true x y : str_leb x y = true -> slt x y \/ x = y.
Proof. unfold str_leb. intros H. destruct (str_ltb_trichotomy x y) as [H1|[H1|H1]]; auto.
  unfold slt in H1. rewrite H1 in H. discriminate. Qed.

(* strictly sorted = sorted + duplicate-free *)
Definition ssorted (l : list str) : Prop := StronglySorted slt l.

Lemma ssorted_nodup l : ssorted l -> NoDup l.
Proof.
  induction 1 as [|a l Hs IH Hall]; constructor; auto.
  intros Hin. rewrite Forall_forall in Hall. specialize (Hall _ Hin). unfold slt in Hall.
  rewrite str_ltb_irrefl in Hall. discriminate.
Qed.

Lemma insert_sorted_in x l y : In y (insert_sorted x l) <-> y = x \/ In y l.
Proof.
  induction l as [|z l IH]; simpl; [intuition|].
  destruct (str_leb x z); simpl; [intuition|]. rewrite IH. intuition.
Qed.

Lemma insert_sorted_ssorted x l : ssorted l -> ~ In x l -> ssorted (insert_sorted x l).
Proof.
  intros Hs. induction Hs as [|z l Hs IH Hall]; intros Hnin; simpl.
  - repeat constructor.
  - destruct (str_leb x z) eqn:E.
    + apply str_leb_true in E. destruct E as [E|E]; [|subst; exfalso; apply Hnin; left; reflexivity].
      constructor; [constructor; assumption|]. constructor; [exact E|].
      rewrite Forall_forall in *. intros w Hw. eapply str_ltb_trans; eauto.
    + apply str_leb_false_lt in E. constructor.
      * apply IH. intros H; apply Hnin; right; exact H.
      * rewrite Forall_forall in *. intros w Hw. apply insert_sorted_in in Hw. destruct Hw as [->|Hw]; auto.
Qed.

Lemma sort_strs_in l y : In y (sort_strs l) <-> In y l.
Proof.
  unfold sort_strs. induction l as [|x l IH]; simpl; [tauto|]. rewrite insert_sorted_in, IH. intuition.
Qed.

Lemma sort_strs_ssorted l : NoDup l -> ssorted (sort_strs l).
Proof.
  unfold sort_strs. induction 1 as [|x l Hnin Hnd IH]; simpl; [constructor|].
  apply insert_sorted_ssorted; [exact IH|]. fold (sort_strs l). rewrite sort_strs_in. exact Hnin.
Qed.

Lemma mem_str_in x l : mem_str x l = true <-> In x l.
Proof.
  induction l as [|y l IH]; simpl; [split; [discriminate|tauto]|].
  rewrite orb_true_iff, streqb_eq, IH. intuition.
Qed.
Lemma mem_str_false x l : mem_str x l = false <-> ~ In x l.
Proof. rewrite <- mem_str_in. destruct (mem_str x l); split; congruence. Qed.

Lemma remove_first_in x l y : NoDup l -> (In y (remove_first x l) <-> In y l /\ y <> x).
Proof.
  induction 1 as [|z l Hnin Hnd IH]; simpl; [tauto|].
  destruct (streqb x z) eqn:E.
  - apply streqb_eq in E. subst z. split.
    + intros Hy. split; [right; exact Hy|]. intros ->. contradiction.
    + intros [[->|Hy] Hne]; [congruence|exact Hy].
  - apply streqb_neq in E. simpl. rewrite IH. split.
    + intros [->|[Hy Hne]]; [split; [left; reflexivity|congruence]|split; [right; exact Hy|exact Hne]].
    + intros [[->|Hy] Hne]; [left; reflexivity|right; split; assumption].
Qed.

Lemma remove_first_ssorted x l : ssorted l -> ssorted (remove_first x l).
Proof.
  intros Hs. induction Hs as [|z l Hs IH Hall]; simpl; [constructor|].
  destruct (streqb x z); [exact Hs|]. constructor; [exact IH|].
  rewrite Forall_forall in *. intros w Hw. apply Hall.
  apply remove_first_in in Hw; [tauto | apply ssorted_nodup; exact Hs].
Qed.

Lemma remove_first_notin x l : ~ In x l -> remove_first x l = l.
Proof.
  induction l as [|z l IH]; simpl; [reflexivity|]. intros Hn.
  destruct (streqb x z) eqn:E; [apply streqb_eq in E; subst; exfalso; apply Hn; left; reflexivity|].
  f_equal. apply IH. intros H; apply Hn; right; exact H.
Qed.

Lemma replace_first_in x y l w : NoDup l -> In x l ->
  (In w (replace_first x y l) <-> w = y \/ (In w l /\ w <> x)).
Proof.
  induction 1 as [|z l Hnin Hnd IH]; simpl; [tauto|]. intros Hin.
  destruct (streqb x z) eqn:E.
  - apply streqb_eq in E. subst z. simpl. split.
    + intros [<-|Hw]; [left; reflexivity|]. right. split; [right; exact Hw|]. intros ->. contradiction.
    + intros [->|[[<-|Hw] Hne]]; [left; reflexivity|congruence|right; exact Hw].
  - apply streqb_neq in E. destruct Hin as [<-|Hin]; [congruence|]. simpl. rewrite (IH Hin). split.
    + intros [<-|[->|[Hw Hne]]]; [right; split; [left; reflexivity|congruence]|left; reflexivity|right; split; [right; exact Hw|exact Hne]].
    + intros [->|[[<-|Hw] Hne]]; [right; left; reflexivity|left; reflexivity|right; right; split; assumption].
Qed.

Lemma replace_first_nodup x y l : NoDup l -> ~ In y l -> NoDup (replace_first x y l).
Proof.
  induction 1 as [|z l Hnin Hnd IH]; simpl; [constructor|]. intros Hy.
  destruct (streqb x z) eqn:E.
  - constructor; [|exact Hnd]. intros H; apply Hy; right; exact H.
  - constructor.
    + intros Hin. destruct (in_dec (list_eq_dec N.eq_dec) x l) as [Hx|Hx].
      * apply (replace_first_in x y l z Hnd Hx) in Hin. destruct Hin as [->|[Hin _]]; [apply Hy; left; reflexivity|contradiction].
      * assert (Heq : replace_first x y l = l).
        { clear -Hx. induction l as [|w l IH]; simpl; [reflexivity|].
          destruct (streqb x w) eqn:E; [apply streqb_eq in E; subst; exfalso; apply Hx; left; reflexivity|].
          f_equal. apply IH. intros H; apply Hx; right; exact H. }
        rewrite Heq in Hin. contradiction.
    + apply IH. intros H; apply Hy; right; exact H.
Qed.
