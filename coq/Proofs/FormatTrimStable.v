(* TrimFmt on ARBITRARY text: when is the result independent of Go's map iteration order?
   (Model/Format.v `trim_stable`, used by suite fmt.trim to decide which inputs may be
   compared.)  Any string is cut into segments: a "proper token" {body} with a brace-free
   body, or a single other byte (a stray brace among them).  One ReplaceAll pass of {n}
   deletes the proper tokens with body n - unless the deletion of earlier tokens has glued
   a stray '{', some text and a stray '}' into a new token.  If the text with ALL tokens of
   a phase deleted at once (`strip_tokens`) contains no token of that phase, that never
   happens, and every order of the phase's names yields that same text. *)
Require Import Bytes Format FmtSpec FormatLemmas FormatProofs.
From Coq Require Import Lia ZifyBool ZifyN ZifyNat Permutation.

(* ---- contains ---- *)

Lemma contains_intro sub a r : contains sub (a ++ sub ++ r) = true.
Proof.
  unfold contains. destruct (index sub (a ++ sub ++ r)) eqn:E; [reflexivity|].
  exfalso. exact (index_none _ _ E a r eq_refl).
Qed.

Lemma contains_suffix sub a b : contains sub (a ++ b) = false -> contains sub b = false.
Proof.
  unfold contains. destruct (index sub b) as [k|] eqn:E; [|reflexivity].
  apply index_some in E as (x & y & -> & _ & _).
  intros H. rewrite app_assoc in H.
  pose proof (contains_intro sub (a ++ x) y) as C. unfold contains in C.
  destruct (index sub ((a ++ x) ++ sub ++ y)); [discriminate|discriminate].
Qed.

Lemma has_token_suffix names a b : has_token names (a ++ b) = false -> has_token names b = false.
Proof.
  unfold has_token. intros H. destruct (existsb _ names) eqn:E in |- *; [|reflexivity].
  apply existsb_exists in E as (n & Hn & C).
  assert (existsb (fun n0 => contains (tok_pat n0) (a ++ b)) names = true); [|congruence].
  apply existsb_exists. exists n. split; [exact Hn|].
  destruct (contains (tok_pat n) (a ++ b)) eqn:X; [reflexivity|].
  apply contains_suffix in X. congruence.
Qed.

Lemma has_token_intro names n a r : In n names -> has_token names (a ++ tok_pat n ++ r) = true.
Proof.
  intros H. unfold has_token. apply existsb_exists. exists n. split; [exact H|apply contains_intro].
Qed.

(* ---- segments ---- *)

Inductive seg : Type := SB (c : N) | ST (body : str).

Definition flat1 (g : seg) : str := match g with SB c => [c] | ST b => tok_pat b end.
Definition flat (segs : list seg) : str := concat (List.map flat1 segs).

Definition seg_wf (g : seg) : Prop := match g with SB _ => True | ST b => brace_free b end.

Lemma flat_cons g r : flat (g :: r) = flat1 g ++ flat r.
Proof. reflexivity. Qed.

Lemma flat_app a b : flat (a ++ b) = flat a ++ flat b.
Proof. unfold flat. now rewrite map_app, concat_app. Qed.

(* does s start with a brace-free body and a '}' ? *)
Fixpoint tok_body (s : str) : option (str * str) :=
  match s with
  | [] => None
  | c :: r =>
      if N.eqb c fmt_close then Some ([], r)
      else if N.eqb c fmt_open then None
      else match tok_body r with
           | Some (b, R) => Some (c :: b, R)
           | None => None
           end
  end.

Lemma tok_body_some s b R :
  tok_body s = Some (b, R) -> s = b ++ fmt_close :: R /\ brace_free b /\ (length R < length s)%nat.
Proof.
  revert b R. induction s as [|c s IH]; intros b R; simpl; [discriminate|].
  destruct (N.eqb c fmt_close) eqn:Ec.
  - intros [= <- <-]. apply N.eqb_eq in Ec. subst c. repeat split; simpl; auto; lia.
  - destruct (N.eqb c fmt_open) eqn:Eo; [discriminate|].
    destruct (tok_body s) as [[b' R']|] eqn:E; [|discriminate].
    intros [= <- <-]. destruct (IH _ _ eq_refl) as (-> & [Ho Hc] & Hl).
    apply N.eqb_neq in Ec, Eo. repeat split; simpl.
    + intros [X|X]; [congruence|auto].
    + intros [X|X]; [congruence|auto].
    + rewrite app_length in *. simpl in *. lia.
Qed.

Lemma tok_body_none s : tok_body s = None ->
  forall b R, ~ In fmt_open b -> ~ In fmt_close b -> s <> b ++ fmt_close :: R.
Proof.
  induction s as [|c s IH]; simpl; intros H b R Ho Hc E.
  - destruct b; discriminate.
  - destruct b as [|x b]; simpl in E; injection E as -> E.
    + rewrite N.eqb_refl in H. discriminate.
    + rewrite neq_eqb_false in H by (intros ->; apply Hc; now left).
      rewrite neq_eqb_false in H by (intros ->; apply Ho; now left).
      destruct (tok_body s) as [[b' R']|] eqn:T; [discriminate|].
      apply (IH eq_refl b R); auto; intros X; [apply Ho|apply Hc]; now right.
Qed.

(* the cut: at '{', a proper token if one starts here, else a stray byte *)
Fixpoint parse (fuel : nat) (s : str) : list seg :=
  match fuel with
  | O => []
  | S f =>
      match s with
      | [] => []
      | c :: r =>
          if N.eqb c fmt_open then
            match tok_body r with
            | Some (b, R) => ST b :: parse f R
            | None => SB c :: parse f r
            end
          else SB c :: parse f r
      end
  end.

(* no stray '{' is the start of a proper token *)
Fixpoint maximal (segs : list seg) : Prop :=
  match segs with
  | [] => True
  | g :: r => (g = SB fmt_open -> tok_body (flat r) = None) /\ maximal r
  end.

Lemma parse_ok fuel s :
  (length s <= fuel)%nat ->
  flat (parse fuel s) = s /\ Forall seg_wf (parse fuel s) /\ maximal (parse fuel s).
Proof.
  revert s. induction fuel as [|f IH]; intros s Hl.
  - destruct s; [simpl; auto|simpl in Hl; lia].
  - destruct s as [|c r]; [simpl; auto|]. simpl in Hl. cbn [parse].
    destruct (N.eqb c fmt_open) eqn:Eo.
    + apply N.eqb_eq in Eo. subst c. destruct (tok_body r) as [[b R]|] eqn:T.
      * apply tok_body_some in T as (-> & Hb & HR).
        destruct (IH R) as (F & W & M); [rewrite app_length in Hl; simpl in Hl; lia|].
        rewrite flat_cons, F. repeat split.
        -- unfold flat1, tok_pat. simpl. now rewrite <- app_assoc.
        -- constructor; [exact Hb|exact W].
        -- discriminate.
        -- exact M.
      * destruct (IH r) as (F & W & M); [lia|].
        rewrite flat_cons, F. split; [reflexivity|]. split; [constructor; [exact I|exact W]|].
        cbn [maximal]. split; [|exact M]. intros _. now rewrite F.
    + destruct (IH r) as (F & W & M); [lia|].
      rewrite flat_cons, F. split; [reflexivity|]. split; [constructor; [exact I|exact W]|].
      cbn [maximal]. split; [|exact M].
      intros [= ->]. rewrite N.eqb_refl in Eo. discriminate.
Qed.

(* the same, relative to a set of names: what the deletion lemmas need *)
Fixpoint maximalN (names : list str) (segs : list seg) : Prop :=
  match segs with
  | [] => True
  | g :: r => (g = SB fmt_open -> forall n, In n names -> prefixb (n ++ [fmt_close]) (flat r) = false)
              /\ maximalN names r
  end.

Definition names_ok (names : list str) : Prop := forall n, In n names -> brace_free n.

Lemma maximal_N names segs : names_ok names -> maximal segs -> maximalN names segs.
Proof.
  intros Hn. induction segs as [|g r IH]; simpl; [auto|]. intros [H M]. split; [|auto].
  intros Hg n Hin. specialize (H Hg). destruct (prefixb (n ++ [fmt_close]) (flat r)) eqn:P; [|reflexivity].
  apply prefixb_spec in P as [R P]. rewrite <- app_assoc in P. simpl in P.
  destruct (Hn n Hin) as [Ho Hc]. exfalso. exact (tok_body_none _ H n R Ho Hc P).
Qed.

(* ---- deleting tokens from a segment list ---- *)

Definition keepD (D : list str) (g : seg) : bool :=
  match g with
  | SB _ => true
  | ST b => negb (existsb (fun n => streqb n b) D)
  end.

Definition dropD (D : list str) (segs : list seg) : list seg := filter (keepD D) segs.

Lemma dropD_app D1 D2 segs : dropD D2 (dropD D1 segs) = dropD (D1 ++ D2) segs.
Proof.
  unfold dropD. rewrite filter_filter. apply filter_ext_bool. intros [c|b]; simpl; [reflexivity|].
  rewrite existsb_app, negb_orb. reflexivity.
Qed.

Lemma dropD_incl D names segs : incl D names -> dropD names (dropD D segs) = dropD names segs.
Proof.
  intros I. unfold dropD. rewrite filter_filter. apply filter_ext_bool. intros [c|b]; simpl; [reflexivity|].
  destruct (existsb (fun n => streqb n b) D) eqn:E; simpl; [|reflexivity].
  apply existsb_exists in E as (n & Hn & E). symmetry. apply negb_false_iff.
  apply existsb_exists. exists n. split; [now apply I|exact E].
Qed.

Lemma dropD_nil segs : dropD [] segs = segs.
Proof. unfold dropD. apply filter_all_true. intros [c|b] _; reflexivity. Qed.

Lemma dropD_wf D segs : Forall seg_wf segs -> Forall seg_wf (dropD D segs).
Proof.
  rewrite !Forall_forall. intros H g Hg. apply filter_In in Hg as [Hg _]. now apply H.
Qed.

Lemma dropD_perm D D' segs : Permutation D D' -> dropD D segs = dropD D' segs.
Proof.
  intros P. unfold dropD. apply filter_ext_bool. intros [c|b]; simpl; [reflexivity|].
  f_equal. now apply existsb_perm.
Qed.

(* a brace-free n followed by '}' at the head of a flattened list is made of stray bytes *)
Lemma flat_run n R post :
  brace_free n -> flat post = n ++ fmt_close :: R ->
  exists rest, post = List.map SB n ++ SB fmt_close :: rest /\ flat rest = R.
Proof.
  revert post. induction n as [|c n IH]; intros post [Ho Hc] E.
  - destruct post as [|g rest]; [discriminate|]. rewrite flat_cons in E.
    destruct g as [c'|b]; simpl in E; [|discriminate].
    injection E as -> E. exists rest. split; [reflexivity|exact E].
  - destruct post as [|g rest]; [discriminate|]. rewrite flat_cons in E.
    destruct g as [c'|b]; simpl in E.
    + injection E as -> E. destruct (IH rest) as (rest' & -> & F).
      * split; intros X; [apply Ho|apply Hc]; now right.
      * exact E.
      * exists rest'. split; [reflexivity|exact F].
    + injection E as E _. exfalso. apply Ho. left. now symmetry.
Qed.

Lemma dropD_run D n rest :
  dropD D (List.map SB n ++ SB fmt_close :: rest) = List.map SB n ++ SB fmt_close :: dropD D rest.
Proof. unfold dropD. induction n as [|c n IH]; simpl; [reflexivity|]. now rewrite IH. Qed.

Lemma flat_map_SB n : flat (List.map SB n) = n.
Proof. induction n as [|c n IH]; [reflexivity|]. simpl map. rewrite flat_cons, IH. reflexivity. Qed.

(* stability: deleting only some of the tokens leaves no stray '{' that starts a token *)
Lemma stable_maximalN names D segs :
  names_ok names -> incl D names ->
  has_token names (flat (dropD names segs)) = false ->
  maximalN names (dropD D segs).
Proof.
  intros Hn I. induction segs as [|g r IH]; intros H; [exact Logic.I|].
  assert (has_token names (flat (dropD names r)) = false) as Hr.
  { unfold dropD in *. cbn [filter] in H. destruct (keepD names g).
    - rewrite flat_cons in H. now apply has_token_suffix in H.
    - exact H. }
  specialize (IH Hr). unfold dropD. cbn [filter]. fold (dropD D r).
  destruct (keepD D g) eqn:K; [|exact IH]. cbn [maximalN]. split; [|exact IH].
  intros -> n Hin. destruct (prefixb (n ++ [fmt_close]) (flat (dropD D r))) eqn:P; [|reflexivity].
  exfalso. apply prefixb_spec in P as [R P]. rewrite <- app_assoc in P. simpl in P.
  destruct (flat_run _ _ _ (Hn n Hin) P) as (rest & E & _).
  assert (dropD names r = List.map SB n ++ SB fmt_close :: dropD names rest) as E2.
  { rewrite <- (dropD_incl D names r I), E. apply dropD_run. }
  unfold dropD in H. cbn [filter keepD] in H. fold (dropD names r) in H.
  rewrite flat_cons, E2 in H. rewrite flat_app, flat_map_SB, flat_cons in H.
  replace (flat1 (SB fmt_open) ++ n ++ flat1 (SB fmt_close) ++ flat (dropD names rest))
    with ([] ++ tok_pat n ++ flat (dropD names rest)) in H
    by (unfold tok_pat; simpl; now rewrite <- app_assoc).
  rewrite has_token_intro in H by exact Hin. discriminate.
Qed.

(* one ReplaceAll pass over a segment list in which no stray '{' starts a token *)
Lemma remove_pat_segs names n segs :
  names_ok names -> In n names -> Forall seg_wf segs -> maximalN names segs ->
  remove_all (tok_pat n) (flat segs) = flat (dropD [n] segs).
Proof.
  intros Hn Hin W. induction W as [|g r Wg W IH]; intros M; [apply remove_all_nil|].
  cbn [maximalN] in M. destruct M as [Mg M]. specialize (IH M).
  rewrite flat_cons. unfold dropD. cbn [filter]. fold (dropD [n] r).
  destruct g as [c|b].
  - cbn [keepD flat1]. rewrite flat_cons. cbn [flat1]. cbn [app].
    rewrite remove_all_miss; [now rewrite IH|].
    unfold tok_pat. cbn [prefixb]. destruct (N.eqb fmt_open c) eqn:E; [|reflexivity].
    apply N.eqb_eq in E. subst c. cbn [andb]. now apply Mg.
  - cbn [flat1 keepD existsb]. rewrite orb_false_r.
    destruct (Hn n Hin) as [_ Hc]. rewrite remove_pat_token by (auto).
    destruct (streqb n b); cbn [negb]; [exact IH|]. rewrite flat_cons. cbn [flat1]. now rewrite IH.
Qed.

(* the whole loop over one phase *)
Lemma fold_remove_segs names segs :
  names_ok names -> Forall seg_wf segs ->
  has_token names (flat (dropD names segs)) = false ->
  forall order D, incl order names -> incl D names ->
  fold_left (fun t n => remove_all (tok_pat n) t) order (flat (dropD D segs)) =
  flat (dropD (D ++ order) segs).
Proof.
  intros Hn W H. induction order as [|n order IH]; intros D Io ID; cbn [fold_left].
  - now rewrite app_nil_r.
  - assert (In n names) as Hin by (apply Io; now left).
    rewrite (remove_pat_segs names n); auto using dropD_wf, stable_maximalN.
    rewrite dropD_app. rewrite IH.
    + now rewrite <- app_assoc.
    + intros x Hx. apply Io. now right.
    + intros x Hx. apply in_app_or in Hx as [Hx|[<-|[]]]; auto.
Qed.

(* ---- strip_tokens on a segment list ---- *)

Lemma strip_tokens_aux_skip names x R :
  strip_tokens_aux names (length x) (x ++ R) = strip_tokens_aux names 0 R.
Proof. induction x as [|a x IH]; simpl; auto. Qed.

Lemma strip_tokens_aux_0 names c r :
  strip_tokens_aux names 0 (c :: r) =
  match match_any names (c :: r) with
  | Some n => strip_tokens_aux names (pred n) r
  | None => c :: strip_tokens_aux names 0 r
  end.
Proof. reflexivity. Qed.

Lemma match_any_not_open names c r : c <> fmt_open -> match_any names (c :: r) = None.
Proof.
  intros H. induction names as [|n names IH]; [reflexivity|]. cbn [match_any].
  unfold tok_pat at 1. cbn [prefixb]. rewrite N.eqb_sym, neq_eqb_false by exact H. exact IH.
Qed.

Lemma strip_tokens_copy names s R :
  no_open s -> strip_tokens_aux names 0 (s ++ R) = s ++ strip_tokens_aux names 0 R.
Proof.
  induction s as [|c s IH]; intros H; [reflexivity|].
  change ((c :: s) ++ R) with (c :: (s ++ R)). rewrite strip_tokens_aux_0.
  rewrite match_any_not_open by (intros ->; apply H; now left).
  rewrite IH by (intros X; apply H; now right). reflexivity.
Qed.

Lemma match_any_token names b R :
  names_ok names -> brace_free b ->
  match_any names (tok_pat b ++ R) =
  if existsb (fun n => streqb n b) names then Some (length (tok_pat b)) else None.
Proof.
  intros Hn [_ Hb]. induction names as [|n names IH]; [reflexivity|]. cbn [match_any existsb].
  unfold tok_pat at 2. change ((fmt_open :: b ++ [fmt_close]) ++ R) with (fmt_open :: (b ++ [fmt_close]) ++ R).
  rewrite <- app_assoc. change ([fmt_close] ++ R) with (fmt_close :: R).
  rewrite prefix_pat_tok; [|apply (Hn n); now left|exact Hb].
  destruct (streqb n b) eqn:E.
  - apply streqb_spec in E. now subst n.
  - cbn [orb]. change (fmt_open :: b ++ fmt_close :: R) with ((fmt_open :: b) ++ fmt_close :: R).
    replace ((fmt_open :: b) ++ fmt_close :: R) with (tok_pat b ++ R)
      by (unfold tok_pat; simpl; now rewrite <- app_assoc).
    apply IH. intros x Hx. apply Hn. now right.
Qed.

Lemma match_any_stray names r :
  (forall n, In n names -> prefixb (n ++ [fmt_close]) r = false) ->
  match_any names (fmt_open :: r) = None.
Proof.
  induction names as [|n names IH]; intros H; [reflexivity|]. cbn [match_any].
  unfold tok_pat at 1. cbn [prefixb]. rewrite N.eqb_refl. cbn [andb].
  rewrite H by now left. apply IH. intros x Hx. apply H. now right.
Qed.

Lemma strip_tokens_segs names segs :
  names_ok names -> Forall seg_wf segs -> maximalN names segs ->
  strip_tokens names (flat segs) = flat (dropD names segs).
Proof.
  intros Hn W. unfold strip_tokens. induction W as [|g r Wg W IH]; intros M; [reflexivity|].
  cbn [maximalN] in M. destruct M as [Mg M]. specialize (IH M).
  rewrite flat_cons. unfold dropD. cbn [filter]. fold (dropD names r).
  destruct g as [c|b].
  - cbn [keepD flat1 app]. rewrite strip_tokens_aux_0. rewrite flat_cons. cbn [flat1 app].
    destruct (N.eqb c fmt_open) eqn:E.
    + apply N.eqb_eq in E. subst c. rewrite match_any_stray by (now apply Mg). now rewrite IH.
    + apply N.eqb_neq in E. rewrite match_any_not_open by exact E. now rewrite IH.
  - cbn [flat1 keepD]. cbn [seg_wf] in Wg.
    pose proof (match_any_token names b (flat r) Hn Wg) as MA.
    unfold tok_pat at 1. cbn [app]. rewrite strip_tokens_aux_0.
    change (fmt_open :: (b ++ [fmt_close]) ++ flat r) with (tok_pat b ++ flat r). rewrite MA.
    destruct (existsb (fun n => streqb n b) names); cbn [negb].
    + change (pred (length (tok_pat b))) with (length (b ++ [fmt_close])).
      rewrite strip_tokens_aux_skip. exact IH.
    + rewrite flat_cons. cbn [flat1]. unfold tok_pat. cbn [app]. f_equal.
      rewrite strip_tokens_copy; [now rewrite IH|].
      destruct Wg as [Ho _]. intros X. apply in_app_or in X as [X|[X|[]]]; [auto|discriminate].
Qed.

(* ---- one phase: every order of the names gives the simultaneous deletion ---- *)

Theorem phase_stable names order s :
  names_ok names -> Permutation order names ->
  has_token names (strip_tokens names s) = false ->
  fold_left (fun t n => remove_all (tok_pat n) t) order s = strip_tokens names s.
Proof.
  intros Hn P H.
  destruct (parse_ok (length s) s (le_n _)) as (F & W & M).
  set (segs := parse (length s) s) in *.
  pose proof (maximal_N names segs Hn M) as MN.
  rewrite <- F in H |- *. rewrite strip_tokens_segs in * by assumption.
  rewrite <- (dropD_nil segs) at 1.
  rewrite (fold_remove_segs names segs Hn W H order []).
  - simpl. f_equal. now apply dropD_perm.
  - intros x Hx. eapply Permutation_in; eauto.
  - intros x [].
Qed.

(* ---- TrimFmt: colours in any order, then codes in any order ---- *)

Lemma names_ok_colors : names_ok color_names.
Proof.
  intros n Hn. assert (In n trim_names) as H by (apply in_or_app; now left).
  pose proof trim_names_lower as T. rewrite forallb_forall in T. specialize (T _ H).
  rewrite forallb_forall in T. split; intros X; apply T in X; vm_compute in X; discriminate.
Qed.

Lemma names_ok_codes : names_ok code_names.
Proof.
  intros n Hn. assert (In n trim_names) as H by (apply in_or_app; now right).
  pose proof trim_names_lower as T. rewrite forallb_forall in T. specialize (T _ H).
  rewrite forallb_forall in T. split; intros X; apply T in X; vm_compute in X; discriminate.
Qed.

Theorem trim_fmt_stable oc od s :
  trim_stable s = true ->
  Permutation oc color_names -> Permutation od code_names ->
  trim_fmt (oc ++ od) s = strip_tokens code_names (strip_tokens color_names s).
Proof.
  unfold trim_stable. intros H Pc Pd. apply andb_true_iff in H as [H1 H2].
  apply negb_true_iff in H1, H2. unfold trim_fmt. rewrite fold_left_app.
  rewrite (phase_stable color_names oc s names_ok_colors Pc H1).
  now rewrite (phase_stable code_names od _ names_ok_codes Pd H2).
Qed.

(* in particular every order Go can choose agrees with the canonical one the driver prints *)
Corollary trim_fmt_stable_canonical oc od s :
  trim_stable s = true ->
  Permutation oc color_names -> Permutation od code_names ->
  trim_fmt (oc ++ od) s = trim_fmt trim_names s.
Proof.
  intros H Pc Pd. rewrite (trim_fmt_stable oc od s H Pc Pd).
  symmetry. exact (trim_fmt_stable color_names code_names s H (Permutation_refl _) (Permutation_refl _)).
Qed.

(* both outcomes exist: girc's own test input is stable, a token inside a token of the
   same table is not (and there the two orders really differ) *)
Example trim_stable_examples :
  trim_stable (bs "{re{c}d}test{c}") = true /\
  trim_fmt trim_names (bs "{re{c}d}test{c}") = bs "{red}test" /\
  trim_stable (bs "{b{i}}") = false /\
  trim_fmt [bs "i"; bs "b"] (bs "{b{i}}") = [] /\
  trim_fmt [bs "b"; bs "i"] (bs "{b{i}}") = bs "{b}".
Proof. vm_compute. repeat split; reflexivity. Qed.
