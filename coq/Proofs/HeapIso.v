(* Isolation is an invariant of every interleaving of server events, getter calls and
   client steps; what each party's step leaves untouched. *)
Require Import Bytes AMap Names State Heap HeapLemmas HeapSpec HeapFrame HeapCopy HeapLive HeapHandlers HeapClient.
From Coq Require Import Lia.
Local Open Scope nat_scope.

Lemma live_objs_creach h s : live_objs h s = creach h (roots s).
Proof. reflexivity. Qed.

Lemma disjoint_sym a b : disjoint a b -> disjoint b a.
Proof. intros D x Hb Ha. exact (D x Ha Hb). Qed.

(* cells below the old length are the same => reach sets of bounded handle sets are the same *)
Lemma creach_old h h' K : bounded h (creach h K) -> (forall x, In x (creach h K) -> hget h' x = hget h x) ->
  creach h' K = creach h K.
Proof. intros B A. apply creach_agree. intros r Hr. apply A. apply creach_self. exact Hr. Qed.

(* ---------- A. one server event ---------- *)

Lemma live_run_iso g cfg l w K w' : Isolated w K -> run_h g cfg w l = Ok w' ->
  Isolated w' K /\ length (w_heap w) <= length (w_heap w') /\
  (forall o, In o (creach (w_heap w) K) -> hget (w_heap w') o = hget (w_heap w) o).
Proof.
  intros [Inv Bk D] H.
  set (h := w_heap w) in *. set (s := w_st w) in *.
  pose proof (Fr_init h (roots s) Inv) as F0.
  assert (FW : FrW (length h) (creach h (roots s)) h (roots s) w) by (split; [apply incl_refl|exact F0]).
  destruct (run_fr _ _ _ g cfg l _ _ _ FW H) as (R' & _ & (I' & F') & L').
  assert (Unch : forall o, In o (creach h K) -> hget (w_heap w') o = hget h o).
  { intros o Ho. apply (fr_frame _ _ _ _ _ F'); [apply Bk; exact Ho|]. intros Hl. exact (D o Ho Hl). }
  assert (EK : creach (w_heap w') K = creach h K) by (apply creach_old; assumption).
  split; [|split; [exact L'|exact Unch]].
  constructor.
  - intros o Ho. rewrite live_objs_creach in Ho. apply in_creach in Ho. destruct Ho as (r & Hr & Ho).
    apply (fr_reach _ _ _ _ _ F'). apply in_creach. exists r. split; [apply I'; exact Hr|exact Ho].
  - rewrite EK. intros o Ho. specialize (Bk o Ho). fold h in L'. lia.
  - rewrite EK. intros x Hx Hl. rewrite live_objs_creach in Hl. apply in_creach in Hl. destruct Hl as (r & Hr & Hl).
    assert (A : okp (length h) (creach h (roots s)) (w_heap w') x).
    { apply (fr_reach _ _ _ _ _ F'). apply in_creach. exists r. split; [apply I'; exact Hr|exact Hl]. }
    destruct A as [[A|A] _]; [exact (D x Hx A)|specialize (Bk x Hx); lia].
Qed.

(* ---------- B. one client step ---------- *)

Lemma client_step_iso w K h' K' : Isolated w K -> client_step (w_heap w) K h' K' ->
  Isolated (mkWorld h' (w_st w)) K' /\
  (forall o, In o (live_objs (w_heap w) (w_st w)) -> hget h' o = hget (w_heap w) o).
Proof.
  intros [Inv Bk D] [Len Frame Reach Bound].
  assert (Unch : forall o, In o (live_objs (w_heap w) (w_st w)) -> hget h' o = hget (w_heap w) o).
  { intros o Ho. apply Frame; [apply Inv; exact Ho|]. intros Hk. exact (D o Hk Ho). }
  assert (EL : live_objs h' (w_st w) = live_objs (w_heap w) (w_st w)) by (apply creach_old; assumption).
  split; [|exact Unch]. constructor; simpl.
  - unfold HeapInv. simpl. rewrite EL. intros o Ho. specialize (Inv o Ho). lia.
  - exact Bound.
  - rewrite EL. intros x Hx Hl. destruct (Reach x Hx) as [A|A]; [exact (D x A Hl)|specialize (Inv x Hl); lia].
Qed.

Lemma client_steps_iso w K h' K' : Isolated w K -> client_steps (w_heap w) K h' K' ->
  Isolated (mkWorld h' (w_st w)) K' /\
  length (w_heap w) <= length h' /\
  (forall o, In o (live_objs (w_heap w) (w_st w)) -> hget h' o = hget (w_heap w) o).
Proof.
  intros Iso H. remember (w_heap w) as h eqn:Eh. revert w Eh Iso.
  induction H as [h K|h K h1 K1 h2 K2 S1 _ IH]; intros w Eh Iso; subst h.
  - split; [destruct w; exact Iso|]. split; [lia|reflexivity].
  - destruct (client_step_iso _ _ _ _ Iso S1) as (Iso1 & U1).
    destruct (IH (mkWorld h1 (w_st w)) eq_refl Iso1) as (Iso2 & L2 & U2). simpl in *.
    split; [exact Iso2|]. split; [pose proof (cs_len _ _ _ _ S1); lia|].
    intros o Ho. rewrite U2; [apply U1; exact Ho|].
    assert (EL : live_objs h1 (w_st w) = live_objs (w_heap w) (w_st w)).
    { apply creach_old; [apply (iso_inv _ _ Iso)|exact U1]. }
    rewrite EL. exact Ho.
Qed.

(* ---------- C. getter calls: the result joins the client's handles ---------- *)

Section CopyAll.
  Context {V : Type} (cp : heap -> nat -> res (heap * nat)) (val : heap -> nat -> option V).
  Hypothesis cp_frame : forall h o h' o', cp h o = Ok (h', o') ->
    length h <= length h' /\ forall x, x < length h -> hget h' x = hget h x.
  Hypothesis cp_fresh : forall h o h' o', cp h o = Ok (h', o') -> forall x, In x (reach h' o') -> length h <= x < length h'.
  Hypothesis cp_value : forall h o h' o', cp h o = Ok (h', o') -> val h' o' = val h o.
  Hypothesis val_agree : forall h h' o, (forall x, In x (reach h o) -> hget h' x = hget h x) -> val h' o = val h o.

  Lemma copy_all_spec : forall l h h' l', bounded h (creach h l) -> copy_all cp h l = Ok (h', l') ->
    length h <= length h' /\ (forall x, x < length h -> hget h' x = hget h x) /\
    Forall2 (fun o o' => val h' o' = val h o /\ forall x, In x (reach h' o') -> length h <= x < length h') l l'.
  Proof.
    induction l as [|o l IH]; intros h h' l' B H; simpl in H.
    - injection H as <- <-. split; [lia|]. split; [reflexivity|constructor].
    - bind_inv H a Ha. destruct a as [h1 o1]. bind_inv H b Hb. destruct b as [h2 r']. injection H as <- <-.
      destruct (cp_frame _ _ _ _ Ha) as (L1 & U1).
      assert (Bo : forall x, In x (reach h o) -> x < length h).
      { intros x Hx. apply B. unfold creach. cbn [flat_map]. apply in_or_app. left. exact Hx. }
      assert (Bl : bounded h (creach h l)).
      { intros x Hx. apply B. unfold creach. cbn [flat_map]. apply in_or_app. right. exact Hx. }
      assert (E : creach h1 l = creach h l).
      { apply creach_agree. intros r Hr. apply U1. apply Bl. apply creach_self. exact Hr. }
      assert (B1 : bounded h1 (creach h1 l)) by (rewrite E; intros x Hx; specialize (Bl x Hx); lia).
      destruct (IH _ _ _ B1 Hb) as (L2 & U2 & FA).
      split; [lia|]. split; [intros x Lx; rewrite U2 by lia; apply U1; exact Lx|].
      constructor.
      + pose proof (cp_fresh _ _ _ _ Ha) as Fr1.
        assert (Er : reach h2 o1 = reach h1 o1).
        { apply reach_same_cell. apply U2. apply (Fr1 o1). apply reach_self. }
        split.
        * rewrite <- (cp_value _ _ _ _ Ha). apply val_agree. intros x Hx. apply U2. apply (Fr1 x Hx).
        * intros x Hx. rewrite Er in Hx. specialize (Fr1 x Hx). lia.
      + clear -FA U1 Bl L1 val_agree. induction FA as [|a b l0 l0' [Hv Hr] FA IHF]; constructor.
        * split.
          -- rewrite Hv. apply val_agree. intros x Hx. apply U1. apply Bl. apply in_creach. exists a. split; [left; reflexivity|exact Hx].
          -- intros x Hx. specialize (Hr x Hx). lia.
        * apply IHF. intros x Hx. apply Bl. unfold creach in *. cbn [flat_map]. apply in_or_app. right. exact Hx.
  Qed.
End CopyAll.

Lemma user_copy_value1 h o h' o' : user_copy h o = Ok (h', o') -> user_value h' o' = user_value h o.
Proof. intros H. apply (user_copy_value _ _ _ _ H). Qed.
Lemma channel_copy_value1 h o h' o' : channel_copy h o = Ok (h', o') -> chan_value h' o' = chan_value h o.
Proof. intros H. apply (channel_copy_value _ _ _ _ H). Qed.

Definition copy_all_users_spec := copy_all_spec user_copy user_value user_copy_frame user_copy_fresh user_copy_value1 user_value_agree.
Definition copy_all_chans_spec := copy_all_spec channel_copy chan_value channel_copy_frame channel_copy_fresh channel_copy_value1 chan_value_agree.

(* sort_by only permutes *)
Lemma insert_by_in {A} (key : A -> str) x l y : In y (insert_by key x l) <-> y = x \/ In y l.
Proof.
  induction l as [|z l IH]; simpl; [intuition|].
  destruct (str_leb (key x) (key z)); simpl; [intuition|]. rewrite IH. intuition.
Qed.
Lemma sort_by_in {A} (key : A -> str) l y : In y (sort_by key l) <-> In y l.
Proof.
  induction l as [|x l IH]; simpl; [tauto|]. unfold sort_by in *. simpl. rewrite insert_by_in, IH. intuition.
Qed.

Lemma Forall2_in_l {A B} (P : A -> B -> Prop) l l' a : Forall2 P l l' -> In a l -> exists b, In b l' /\ P a b.
Proof. induction 1 as [|x y l l' Hp _ IH]; intros Hin; [contradiction|]. destruct Hin as [->|Hin]; [exists y; simpl; auto|]. destruct (IH Hin) as (b & Hb & Pb). exists b. simpl. auto. Qed.
Lemma Forall2_in_r {A B} (P : A -> B -> Prop) l l' b : Forall2 P l l' -> In b l' -> exists a, In a l /\ P a b.
Proof. induction 1 as [|x y l l' Hp _ IH]; intros Hin; [contradiction|]. destruct Hin as [->|Hin]; [exists x; simpl; auto|]. destruct (IH Hin) as (a & Ha & Pa). exists a. simpl. auto. Qed.

(* a getter call: nothing existing is written; the result is fresh, carries the value of
   the tracked object, and isolation is kept with the result added to the client's handles *)
Lemma fresh_handles_iso w K h' N :
  Isolated w K -> length (w_heap w) <= length h' -> (forall x, x < length (w_heap w) -> hget h' x = hget (w_heap w) x) ->
  (forall x, In x (creach h' N) -> length (w_heap w) <= x < length h') ->
  Isolated (mkWorld h' (w_st w)) (N ++ K).
Proof.
  intros [Inv Bk D] L U FrN.
  assert (EL : live_objs h' (w_st w) = live_objs (w_heap w) (w_st w)).
  { apply creach_old; [exact Inv|]. intros x Hx. apply U. apply Inv. exact Hx. }
  assert (EK : creach h' K = creach (w_heap w) K).
  { apply creach_old; [exact Bk|]. intros x Hx. apply U. apply Bk. exact Hx. }
  assert (Eapp : forall x, In x (creach h' (N ++ K)) <-> In x (creach h' N) \/ In x (creach (w_heap w) K)).
  { intros x. unfold creach. rewrite flat_map_app, in_app_iff. fold (creach h' K). fold (creach h' N). rewrite EK. tauto. }
  constructor; simpl.
  - unfold HeapInv. simpl. rewrite EL. intros o Ho. specialize (Inv o Ho). lia.
  - intros x Hx. apply Eapp in Hx. destruct Hx as [Hx|Hx]; [apply (FrN x Hx)|specialize (Bk x Hx); lia].
  - rewrite EL. intros x Hx Hl. apply Eapp in Hx. destruct Hx as [Hx|Hx]; [|exact (D x Hx Hl)].
    specialize (FrN x Hx). specialize (Inv x Hl). lia.
Qed.
