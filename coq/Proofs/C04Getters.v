(* C04: every getter of the state API (Model/StateGetters.v), evaluated on a consistent
   implementation state s, is the corresponding view of the told-state abs s. *)
Require Import Bytes AMap SMap Names State StateGetters NetRef.
Require Import OrderLemmas AMapLemmas SMapLemmas NamesProofs StateInv NetRefLemmas StateRefine.
From Coq Require Import Lia ZifyBool ZifyN ZifyNat Sorting.Sorted.

Lemma ssorted_ext (l1 l2 : list str) : ssorted l1 -> ssorted l2 -> (forall x, In x l1 <-> In x l2) -> l1 = l2.
Proof.
  revert l2. induction l1 as [|a l1 IH]; intros [|b l2] H1 H2 HE.
  - reflexivity.
  - exfalso. apply (HE b). left; reflexivity.
  - exfalso. apply (HE a). left; reflexivity.
  - inversion H1 as [|? ? S1 A1]; subst. inversion H2 as [|? ? S2 A2]; subst. rewrite Forall_forall in A1, A2.
    assert (Eab : a = b).
    { destruct (proj1 (HE a) (or_introl eq_refl)) as [E|Ha]; [congruence|].
      destruct (proj2 (HE b) (or_introl eq_refl)) as [E|Hb]; [congruence|].
      exfalso. apply (str_ltb_asym a b); [apply A1, Hb|apply A2, Ha]. }
    subst b. f_equal. apply IH; try assumption. intros x. split; intros Hx.
    + destruct (proj1 (HE x) (or_intror Hx)) as [E|H]; [|exact H]. subst x. exfalso. apply (slt_neq _ _ (A1 _ Hx)). reflexivity.
    + destruct (proj2 (HE x) (or_intror Hx)) as [E|H]; [|exact H]. subst x. exfalso. apply (slt_neq _ _ (A2 _ Hx)). reflexivity.
Qed.

Lemma map_fst_filter_sorted {V} (p : str * V -> bool) m : ksorted m -> ssorted (List.map fst (List.filter p m)).
Proof.
  induction m as [|[k v] m IH]; simpl; intros Hs; [constructor|].
  destruct (ksorted_cons_inv _ _ _ Hs) as [Hs' Hall]. destruct (p (k, v)); [|apply IH, Hs'].
  simpl. constructor; [apply IH, Hs'|]. rewrite Forall_forall in *. intros x Hx. apply Hall.
  apply in_map_iff in Hx. destruct Hx as ([k' v'] & <- & Hin). apply filter_In in Hin. destruct Hin as [Hin _].
  apply (in_map fst) in Hin. exact Hin.
Qed.

Section G.
Variable cfg : config.
Variable s : state.
Hypothesis I : Inv s.
Let r := abs s.

Lemma g_scalars : g_nick cfg s = v_nick cfg r /\ g_ident cfg s = v_ident cfg r /\ g_host s = v_host r /\ g_motd s = v_motd r.
Proof. repeat split. Qed.

Lemma g_option k : g_server_option s k = v_option r k.
Proof. unfold g_server_option, v_option, r, abs. simpl. rewrite alookup_canon. reflexivity. Qed.

Lemma g_chan_list : g_channel_list s = v_channel_list r.
Proof. unfold g_channel_list, v_channel_list, r, abs, sm_map. simpl. rewrite map_map. reflexivity. Qed.

Lemma g_usr_list : g_user_list s = v_user_list r.
Proof. unfold g_user_list, v_user_list, r, abs, sm_map. simpl. rewrite map_map. reflexivity. Qed.

Lemma r_chan_lookup k : alookup k (r_chans r) = option_map (abs_chan s k) (alookup k (st_channels s)).
Proof. unfold r, abs. simpl. rewrite alookup_sm_map, alookup_canon. reflexivity. Qed.

Lemma r_user_lookup k : alookup k (r_users r) = option_map abs_user (alookup k (st_users s)).
Proof. unfold r, abs. simpl. rewrite alookup_sm_map, alookup_canon. reflexivity. Qed.

Lemma g_in_channel name : g_is_in_channel s name = v_is_in_channel r name.
Proof.
  unfold g_is_in_channel, v_is_in_channel, tracked_chan, amem. change (key name) with (fold name). rewrite r_chan_lookup.
  destruct (alookup (fold name) (st_channels s)); reflexivity.
Qed.

(* LookupChannel: name, topic, UserList, modes, and each member's privileges *)
Lemma g_chan_lookup name : option_map (abs_chan s (fold name)) (g_lookup_channel s name) = v_lookup_channel r name.
Proof.
  unfold g_lookup_channel, v_lookup_channel, lookup_channel. destruct name as [|b n]; [reflexivity|].
  change (key (b :: n)) with (fold (b :: n)). rewrite r_chan_lookup. reflexivity.
Qed.

Lemma g_chan_userlist k c : v_channel_users (abs_chan s k c) = c_users c.
Proof. unfold v_channel_users, abs_chan. simpl. apply keyed_keys. Qed.

(* LookupUser: nick, ident, host, realname, account, away *)
Lemma g_user_lookup nick : option_map abs_user (g_lookup_user s nick) = v_lookup_user r nick.
Proof.
  unfold g_lookup_user, v_lookup_user, lookup_user. destruct nick as [|b n]; [reflexivity|].
  change (key (b :: n)) with (fold (b :: n)). rewrite r_user_lookup. reflexivity.
Qed.

(* a user's ChannelList is derived: the channels whose members contain the nick *)
Lemma g_user_channels nick u : g_lookup_user s nick = Some u -> u_chans u = v_user_channels r (fold nick).
Proof.
  unfold g_lookup_user, lookup_user. destruct nick as [|b n]; [discriminate|]. set (kn := fold (b :: n)). intros Hu.
  apply ssorted_ext.
  - apply (inv_ul I _ _ Hu).
  - unfold v_user_channels. apply map_fst_filter_sorted. unfold r, abs. simpl. apply ksorted_sm_map, ksorted_canon.
  - intros cn. unfold v_user_channels. rewrite in_map_iff. split.
    + intros Hin. destruct (inv_uc I _ _ _ Hu Hin) as (c & Hc & Hk). exists (cn, abs_chan s cn c). split; [reflexivity|].
      apply filter_In. split.
      * apply alookup_in. rewrite r_chan_lookup, Hc. reflexivity.
      * simpl. rewrite alookup_keyed. apply mem_str_in in Hk. rewrite Hk. reflexivity.
    + intros ([k rc] & Hk & Hin). simpl in Hk. subst k. apply filter_In in Hin. destruct Hin as [Hin Hm].
      assert (Hl : alookup cn (r_chans r) = Some rc).
      { apply in_alookup; [unfold r, abs; simpl; apply ksorted_sm_map, ksorted_canon|exact Hin]. }
      rewrite r_chan_lookup in Hl. destruct (alookup cn (st_channels s)) as [c|] eqn:Ec; [|discriminate]. simpl in Hl. injection Hl as <-.
      simpl in Hm. rewrite alookup_keyed in Hm. destruct (mem_str kn (c_users c)) eqn:Em; [|discriminate].
      apply mem_str_in in Em. destruct (inv_cu I _ _ _ Ec Em) as (u' & Hu' & Hk). assert (u' = u) by congruence. subst u'. exact Hk.
Qed.

(* Perms.Lookup on a channel the user is in: the privileges the member has *)
Lemma g_user_perm nick u chan : g_lookup_user s nick = Some u -> In (fold chan) (u_chans u) ->
  Some (match g_perms_lookup u chan with Some p => p | None => perms0 end) = v_perm r chan nick.
Proof.
  unfold g_lookup_user, lookup_user. destruct nick as [|b n]; [discriminate|]. set (kn := fold (b :: n)). intros Hu Hin.
  destruct (inv_uc I _ _ _ Hu Hin) as (c & Hc & Hk).
  unfold v_perm. change (key chan) with (fold chan). rewrite r_chan_lookup, Hc. cbn [option_map]. unfold abs_chan. cbn [rc_members]. change (key (b :: n)) with kn.
  rewrite alookup_keyed. apply mem_str_in in Hk. rewrite Hk. unfold abs_perm, g_perms_lookup. rewrite Hu. reflexivity.
Qed.

End G.

(* Modes.HasMode / Get / String read the told mode list *)
Lemma rune_eq_byte n x : (x <? 128) = true -> streqb (byte_as_rune n) [x] = (n =? x).
Proof.
  intros Hx. unfold byte_as_rune. destruct (n <? 128) eqn:E; simpl.
  - rewrite andb_true_r. reflexivity.
  - rewrite andb_false_r. symmetry. lia.
Qed.

Lemma g_has_mode_spec s k c x : (x <? 128) = true -> g_has_mode c [x] = mode_has x (rc_modes (abs_chan s k c)).
Proof.
  intros Hx. unfold g_has_mode, has_mode_str, mode_has, abs_chan. simpl.
  induction (cm_modes (c_modes c)) as [|m l IH]; simpl; [reflexivity|]. rewrite IH, (rune_eq_byte _ _ Hx). reflexivity.
Qed.

Lemma g_mode_get_spec s k c x : (x <? 128) = true -> g_mode_get c [x] = mode_arg x (rc_modes (abs_chan s k c)).
Proof.
  intros Hx. unfold g_mode_get, abs_chan. simpl.
  induction (cm_modes (c_modes c)) as [|m l IH]; simpl; [reflexivity|]. rewrite IH, (rune_eq_byte _ _ Hx). destruct (m_args m); reflexivity.
Qed.

Lemma modes_string_eq (l : list cmode) :
  match l with
  | [] => []
  | _ => 43 :: flat_map (fun m => byte_as_rune (m_name m)) l ++ flat_map (fun m => match m_args m with [] => [] | a => 32 :: a end) l
  end = v_modes_string (List.map (fun m => (m_name m, m_args m)) l).
Proof.
  unfold v_modes_string. destruct l as [|m0 l0]; [reflexivity|]. set (l := m0 :: l0). cbn [List.map l].
  change ((m_name m0, m_args m0) :: List.map (fun m => (m_name m, m_args m)) l0) with (List.map (fun m => (m_name m, m_args m)) l).
  f_equal. f_equal.
  - clear. induction l as [|m l IH]; [reflexivity|]. cbn [flat_map List.map fst]. rewrite IH. reflexivity.
  - clear. induction l as [|m l IH]; [reflexivity|]. cbn [flat_map List.map snd]. rewrite IH. reflexivity.
Qed.

Lemma g_modes_string_spec s k c : g_modes_string c = v_modes_string (rc_modes (abs_chan s k c)).
Proof. unfold g_modes_string, modes_string, abs_chan. cbn [rc_modes]. rewrite <- modes_string_eq. destruct (cm_modes (c_modes c)); reflexivity. Qed.

(* users are tracked exactly while they share a channel we are in *)
Lemma user_tracked_iff s nick : Inv s -> nick <> [] ->
  (g_lookup_user s nick <> None <-> exists c, In c (g_channels s) /\ g_channel_user_in c nick = true).
Proof.
  intros I Hne. unfold g_lookup_user, lookup_user. destruct nick as [|b n]; [congruence|]. set (kn := fold (b :: n)).
  assert (GC : forall c, In c (g_channels s) <-> exists k, alookup k (st_channels s) = Some c).
  { intros c. unfold g_channels. split.
    - intros H. assert (Hin : In c (List.map snd (canon (st_channels s)))).
      { clear -H. revert H. generalize (List.map snd (canon (st_channels s))). intros l. induction l as [|x l IH]; simpl; [tauto|].
        intros H. assert (G : forall y l', In c (insert_by c_name y l') -> c = y \/ In c l').
        { clear. intros y l'. induction l' as [|z l' IH]; simpl; [intuition|]. destruct (str_leb (c_name y) (c_name z)); simpl; intuition. }
        apply G in H. destruct H as [->|H]; [left; reflexivity|right; apply IH, H]. }
      apply in_map_iff in Hin. destruct Hin as ([k c'] & Hc & Hin). simpl in Hc. subst c'. exists k.
      rewrite <- alookup_canon. apply in_alookup; [apply ksorted_canon|exact Hin].
    - intros [k Hk]. rewrite <- alookup_canon in Hk. apply alookup_in in Hk. apply (in_map snd) in Hk. simpl in Hk.
      revert Hk. generalize (List.map snd (canon (st_channels s))). intros l. induction l as [|x l IH]; simpl; [tauto|].
      assert (G : forall y l', c = y \/ In c l' -> In c (insert_by c_name y l')).
      { clear. intros y l'. induction l' as [|z l' IH]; simpl; [intuition|]. destruct (str_leb (c_name y) (c_name z)); simpl; intuition. }
      intros [->|H]; apply G; [left; reflexivity|right; apply IH, H]. }
  split.
  - intros Hu. destruct (alookup kn (st_users s)) as [u|] eqn:Eu; [|congruence].
    destruct (inv_ul I _ _ Eu) as [_ Hnil]. destruct (u_chans u) as [|cn l] eqn:El; [exfalso; apply Hnil; reflexivity|].
    destruct (inv_uc I kn u cn Eu) as (c & Hc & Hin); [rewrite El; left; reflexivity|].
    exists c. split; [apply GC; exists cn; exact Hc|]. unfold g_channel_user_in, channel_user_in. fold kn. apply mem_str_in, Hin.
  - intros (c & Hc & Hin). apply GC in Hc. destruct Hc as [k Hk]. unfold g_channel_user_in, channel_user_in in Hin. fold kn in Hin.
    apply mem_str_in in Hin. destruct (inv_cu I _ _ _ Hk Hin) as (u & Hu & _). congruence.
Qed.

Lemma getters_all : forall cfg s, Inv s ->
  let r := abs s in
  g_nick cfg s = v_nick cfg r /\ g_ident cfg s = v_ident cfg r /\ g_host s = v_host r /\ g_motd s = v_motd r /\
  (forall k, g_server_option s k = v_option r k) /\
  g_channel_list s = v_channel_list r /\ g_user_list s = v_user_list r /\
  (forall name, g_is_in_channel s name = v_is_in_channel r name) /\
  (* LookupChannel: name, topic, modes, UserList and each member's privilege flags *)
  (forall name, option_map (abs_chan s (fold name)) (g_lookup_channel s name) = v_lookup_channel r name) /\
  (forall k c, v_channel_users (abs_chan s k c) = c_users c) /\
  (* LookupUser: nick, ident, host, realname, account, away; the derived channel list; privileges *)
  (forall nick, option_map abs_user (g_lookup_user s nick) = v_lookup_user r nick) /\
  (forall nick u, g_lookup_user s nick = Some u -> u_chans u = v_user_channels r (fold nick)) /\
  (forall nick u chan, g_lookup_user s nick = Some u -> In (fold chan) (u_chans u) ->
     Some (match g_perms_lookup u chan with Some p => p | None => perms0 end) = v_perm r chan nick) /\
  (* Modes.HasMode / Get / String *)
  (forall k c x, (x <? 128) = true -> g_has_mode c [x] = mode_has x (rc_modes (abs_chan s k c))) /\
  (forall k c x, (x <? 128) = true -> g_mode_get c [x] = mode_arg x (rc_modes (abs_chan s k c))) /\
  (forall k c, g_modes_string c = v_modes_string (rc_modes (abs_chan s k c))).
Proof.
  intros cfg s I. destruct (g_scalars cfg s) as (A & B & C & D).
  repeat split; try assumption.
  - apply g_option. - apply g_chan_list. - apply g_usr_list. - apply g_in_channel. - apply g_chan_lookup.
  - apply g_chan_userlist. - apply g_user_lookup. - apply g_user_channels, I. - apply g_user_perm, I.
  - intros k c x Hx. apply g_has_mode_spec, Hx. - intros k c x Hx. apply g_mode_get_spec, Hx. - intros k c. apply g_modes_string_spec.
Qed.
