(* C12: the two obligations on the facts generated from the current Go source
   (Generated/LockFacts.v), discharged by computation.  When an edit of the Go code breaks the
   lock discipline the generated facts change and one of these no longer reduces to true. *)
Require Import Locks LockFacts.

Lemma facts_locksets : check_locksets facts = true.
Proof. vm_compute. reflexivity. Qed.

Lemma facts_order : check_order facts = true.
Proof. vm_compute. reflexivity. Qed.
