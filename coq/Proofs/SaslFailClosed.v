(* Proofs for C09, part 2: fail-closed.  For an arbitrary mechanism (any method name, any
   function `encode`) and every history over AUTHENTICATE / 900-908: CAP END is written
   only in answer to 903; a failure numeric or an empty response makes Connect return an
   ErrEvent and nothing is written afterwards. *)
Require Import Bytes Utf8 Base64 CapLib Sasl SaslSpec FormatLemmas SaslProofs.
From Coq Require Import Lia.

(* ---- small facts ---------------------------------------------------------------- *)

Lemma err_numeric_cases x :
  is_sasl_error_numeric x = true <-> x = n902 \/ x = n904 \/ x = n905 \/ x = n906 \/ x = n908.
Proof.
  unfold is_sasl_error_numeric. rewrite !Bool.orb_true_iff, !streqb_spec. tauto.
Qed.

Lemma is_nil_spec {A} (l : list A) : is_nil l = true <-> l = [].
Proof. destruct l; cbn; split; congruence. Qed.

Lemma writes_of_app a b : writes_of (a ++ b) = writes_of a ++ writes_of b.
Proof.
  induction a as [|o a IH]; [reflexivity|]. destruct o; cbn [app writes_of]; rewrite IH; reflexivity.
Qed.

Lemma writes_of_chunks cs :
  writes_of (List.map (fun ch => Write (chunk_event ch)) cs) = List.map chunk_event cs.
Proof. induction cs as [|ch cs IH]; [reflexivity|]. cbn [List.map writes_of]. rewrite IH. reflexivity. Qed.

Lemma chunk_event_cmd ch : ev_cmd (chunk_event ch) = c_AUTHENTICATE.
Proof. destruct ch; reflexivity. Qed.

Lemma first_inject_chunks cs :
  first_inject (List.map (fun ch => Write (chunk_event ch)) cs) = None.
Proof. induction cs as [|ch cs IH]; [reflexivity|]. cbn [List.map first_inject]. exact IH. Qed.

(* ---- run: composition and totality (any configuration, any events) -------------- *)

Lemma handle_sasl_total sasl e : exists outs, handle_sasl sasl e = Ok outs.
Proof.
  unfold handle_sasl.
  destruct (streqb (ev_cmd e) n903 || streqb (ev_cmd e) n907); [eexists; reflexivity|].
  destruct sasl as [m|]; [|eexists; reflexivity].
  destruct (mech_encode m (ev_params e)) as [|a r] eqn:E; [eexists; reflexivity|].
  destruct (sasl_chunks_spec (a :: r)) as [cs [H _]]; [discriminate|].
  rewrite H. cbn [rbind]. eexists; reflexivity.
Qed.

Lemma run_handlers_total c ns e : exists r, run_handlers c ns e = Ok r.
Proof.
  unfold run_handlers.
  destruct (negb (cfg_tracking c) || ev_echo e); [eexists; reflexivity|].
  destruct (streqb (ev_cmd e) c_AUTHENTICATE || streqb (ev_cmd e) n903).
  - destruct (handle_sasl_total (cfg_sasl c) e) as [outs H]. rewrite H. cbn [rbind]. eexists; reflexivity.
  - destruct (is_sasl_error_numeric (ev_cmd e)); [eexists; reflexivity|].
    destruct (streqb (ev_cmd e) c_CAP); eexists; reflexivity.
Qed.

Lemma exec_loop_iter_total c ns e : exists r, exec_loop_iter c ns e = Ok r.
Proof.
  unfold exec_loop_iter. destruct (run_handlers_total c ns e) as [r H]. rewrite H. cbn [rbind].
  eexists; reflexivity.
Qed.

Lemma feed_total c cn e : exists r, feed c cn e = Ok r.
Proof.
  unfold feed. destruct (cn_returned cn); [eexists; reflexivity|].
  destruct (exec_loop_iter_total c (cn_ns cn) e) as [[[ns1 outs1] ret1] H]. rewrite H. cbn [rbind].
  destruct ret1; [eexists; reflexivity|].
  destruct (first_inject outs1) as [t|]; [|eexists; reflexivity].
  destruct (exec_loop_iter_total c ns1 (error_event t)) as [[[ns2 outs2] ret2] H2]. rewrite H2.
  cbn [rbind]. eexists; reflexivity.
Qed.

Theorem run_total c h : forall cn, exists r, run c cn h = Ok r.
Proof.
  induction h as [|e h IH]; intros cn; [eexists; reflexivity|].
  cbn [run]. destruct (feed_total c cn e) as [r H]. rewrite H. cbn [rbind].
  destruct (IH (fst r)) as [r' H']. rewrite H'. cbn [rbind]. eexists; reflexivity.
Qed.

Lemma run_cons c cn e h cn1 o1 cn2 o2 :
  feed c cn e = Ok (cn1, o1) -> run c cn1 h = Ok (cn2, o2) -> run c cn (e :: h) = Ok (cn2, o1 ++ o2).
Proof. intros H1 H2. cbn [run]. rewrite H1. cbn [rbind fst snd]. rewrite H2. reflexivity. Qed.

Lemma run_cons_inv c cn e h cn2 outs :
  run c cn (e :: h) = Ok (cn2, outs) ->
  exists cn1 o1 o2, feed c cn e = Ok (cn1, o1) /\ run c cn1 h = Ok (cn2, o2) /\ outs = o1 ++ o2.
Proof.
  cbn [run]. destruct (feed c cn e) as [[cn1 o1]|] eqn:Hf; [|discriminate]. cbn [rbind fst snd].
  destruct (run c cn1 h) as [[cn2' o2]|] eqn:Hr; [|discriminate]. cbn [rbind fst snd].
  intros H. injection H as <- <-. exists cn1, o1, o2.
  split; [reflexivity|]. split; [exact Hr | reflexivity].
Qed.

Theorem run_app c h1 : forall h2 cn cn' outs,
  run c cn (h1 ++ h2) = Ok (cn', outs) ->
  exists cn1 o1 o2, run c cn h1 = Ok (cn1, o1) /\ run c cn1 h2 = Ok (cn', o2) /\ outs = o1 ++ o2.
Proof.
  induction h1 as [|e h1 IH]; intros h2 cn cn' outs H.
  - exists cn, [], outs. repeat split; [exact H].
  - cbn [app] in H. apply run_cons_inv in H. destruct H as [cna [oa [ob [Hf [Hr ->]]]]].
    destruct (IH _ _ _ _ Hr) as [cn1 [o1 [o2 [H1 [H2 ->]]]]].
    exists cn1, (oa ++ o1), o2. split; [exact (run_cons _ _ _ _ _ _ _ _ Hf H1)|].
    split; [exact H2 | apply app_assoc].
Qed.

Lemma feed_returned c cn e t : cn_returned cn = Some t -> feed c cn e = Ok (cn, []).
Proof. intros H. unfold feed. rewrite H. reflexivity. Qed.

Lemma run_returned c h : forall cn t, cn_returned cn = Some t -> run c cn h = Ok (cn, []).
Proof.
  induction h as [|e h IH]; intros cn t H; [reflexivity|].
  exact (run_cons _ _ _ _ _ _ _ _ (feed_returned c cn e t H) (IH cn t H)).
Qed.

(* ---- one event of the alphabet --------------------------------------------------- *)

Section FailClosed.
  Variable m : sasl_mech.           (* any method name, any encode function *)
  Variable c : config.
  Hypothesis Hsasl : cfg_sasl c = Some m.
  Hypothesis Htrack : cfg_tracking c = true.

  Ltac open_iter Hecho Hcmd :=
    unfold exec_loop_iter, run_handlers, handle_sasl, handle_sasl_error;
    rewrite Htrack, Hecho, Hsasl, ?Hcmd.

  Lemma eli_info ns e :
    ev_echo e = false -> In (ev_cmd e) [n900; n901; n907] -> exec_loop_iter c ns e = Ok (ns, [], None).
  Proof.
    intros Hecho Hin. cbn [In] in Hin.
    destruct Hin as [H|[H|[H|[]]]]; symmetry in H; open_iter Hecho H; reflexivity.
  Qed.

  Lemma eli_success ns e :
    ev_echo e = false -> ev_cmd e = n903 -> exec_loop_iter c ns e = Ok (ns, [Write cap_end], None).
  Proof. intros Hecho H. open_iter Hecho H. reflexivity. Qed.

  Lemma eli_failure ns e :
    ev_echo e = false -> is_sasl_error_numeric (ev_cmd e) = true ->
    exec_loop_iter c ns e = Ok (ns, [InjectError (sasl_error_text (ev_last e))], None).
  Proof.
    intros Hecho Hn. apply err_numeric_cases in Hn.
    destruct Hn as [H|[H|[H|[H|H]]]]; open_iter Hecho H; reflexivity.
  Qed.

  Lemma eli_giveup ns e :
    ev_echo e = false -> ev_cmd e = c_AUTHENTICATE -> mech_encode m (ev_params e) = [] ->
    exec_loop_iter c ns e = Ok (ns, [InjectError (sasl_fail_text (mech_method m) (ev_last e))], None).
  Proof. intros Hecho H Henc. open_iter Hecho H. rewrite Henc. reflexivity. Qed.

  Lemma eli_respond ns e cs :
    ev_echo e = false -> ev_cmd e = c_AUTHENTICATE -> mech_encode m (ev_params e) <> [] ->
    chunked (mech_encode m (ev_params e)) cs ->
    exec_loop_iter c ns e = Ok (ns, List.map (fun ch => Write (chunk_event ch)) cs, None).
  Proof.
    intros Hecho H Hne Hch. open_iter Hecho H.
    apply (sasl_chunks_exact _ _ Hne) in Hch.
    destruct (mech_encode m (ev_params e)) as [|a r]; [congruence|].
    cbn [streqb c_AUTHENTICATE n903 n907 N.eqb Pos.eqb andb orb negb].
    rewrite Hch. reflexivity.
  Qed.

  Lemma eli_error_event ns t : exec_loop_iter c ns (error_event t) = Ok (ns, [], Some t).
  Proof.
    unfold exec_loop_iter, run_handlers. rewrite Htrack. reflexivity.
  Qed.

  Lemma alphabet_cases e :
    in_alphabet e ->
    In (ev_cmd e) [n900; n901; n907] \/ ev_cmd e = n903 \/
    is_sasl_error_numeric (ev_cmd e) = true \/ ev_cmd e = c_AUTHENTICATE.
  Proof.
    intros [_ Hin]. unfold alphabet_cmds in Hin. cbn [In] in Hin.
    destruct Hin as [H|[H|[H|[H|[H|[H|[H|[H|[H|[H|[]]]]]]]]]]]; symmetry in H.
    - right; right; right; exact H.
    - left; rewrite H; cbn [In]; tauto.
    - left; rewrite H; cbn [In]; tauto.
    - right; right; left; rewrite H; reflexivity.
    - right; left; exact H.
    - right; right; left; rewrite H; reflexivity.
    - right; right; left; rewrite H; reflexivity.
    - right; right; left; rewrite H; reflexivity.
    - left; rewrite H; cbn [In]; tauto.
    - right; right; left; rewrite H; reflexivity.
  Qed.

  (* the model's reaction to one alphabet event is exactly step_spec *)
  Theorem feed_step ns e :
    in_alphabet e ->
    exists cn' outs, feed c (mkConn ns None) e = Ok (cn', outs) /\ step_spec m ns e cn' outs.
  Proof.
    intros Ha. pose proof Ha as [Hecho _].
    destruct (alphabet_cases e Ha) as [Hi|[Hs|[Hf|Hauth]]]; unfold feed; cbn [cn_returned cn_ns].
    - rewrite (eli_info ns e Hecho Hi). cbn [rbind first_inject].
      eexists _, _. split; [reflexivity|]. apply ss_info; exact Hi.
    - rewrite (eli_success ns e Hecho Hs). cbn [rbind first_inject].
      eexists _, _. split; [reflexivity|]. apply ss_success; exact Hs.
    - rewrite (eli_failure ns e Hecho Hf). cbn [rbind first_inject].
      rewrite eli_error_event. cbn [rbind app].
      eexists _, _. split; [reflexivity|]. apply ss_failure; exact Hf.
    - destruct (mech_encode m (ev_params e)) as [|a r] eqn:Henc.
      + rewrite (eli_giveup ns e Hecho Hauth Henc). cbn [rbind first_inject].
        rewrite eli_error_event. cbn [rbind app].
        eexists _, _. split; [reflexivity|]. apply ss_giveup; assumption.
      + assert (Hne : mech_encode m (ev_params e) <> []) by (rewrite Henc; discriminate).
        destruct (sasl_chunks_spec _ Hne) as [cs [_ Hch]].
        rewrite (eli_respond ns e cs Hecho Hauth Hne Hch). cbn [rbind].
        rewrite first_inject_chunks.
        eexists _, _. split; [reflexivity|]. apply ss_respond; assumption.
  Qed.

  (* ---- consequences of step_spec ------------------------------------------------ *)

  Lemma n903_not_error_numeric : is_sasl_error_numeric n903 = false. Proof. reflexivity. Qed.
  Lemma auth_not_error_numeric : is_sasl_error_numeric c_AUTHENTICATE = false. Proof. reflexivity. Qed.

  Lemma fatalb_info e : In (ev_cmd e) [n900; n901; n907] -> fatalb m e = false.
  Proof.
    cbn [In]. intros [H|[H|[H|[]]]]; unfold fatalb; rewrite <- H; reflexivity.
  Qed.

  Lemma step_spec_fatal ns e cn' outs :
    step_spec m ns e cn' outs ->
    cn_ns cn' = ns /\
    (fatalb m e = true -> cn_returned cn' = Some (fatal_text m e) /\ outs = [InjectError (fatal_text m e)]) /\
    (fatalb m e = false -> cn_returned cn' = None).
  Proof.
    intros Hs. split; [destruct Hs; reflexivity|].
    destruct Hs as [Hi|Hs|Hf|Ha Henc|cs Ha Hne Hch].
    - rewrite (fatalb_info e Hi). split; [discriminate | reflexivity].
    - unfold fatalb. rewrite Hs. cbn. split; [discriminate | reflexivity].
    - unfold fatalb, fatal_text. rewrite Hf. cbn [orb]. split; [|discriminate].
      intros _. split; reflexivity.
    - unfold fatalb, fatal_text. rewrite Ha, Henc, auth_not_error_numeric.
      cbn [orb is_nil]. rewrite streqb_refl. cbn [andb]. split; [|discriminate].
      intros _. split; reflexivity.
    - unfold fatalb. rewrite Ha, auth_not_error_numeric. cbn [orb].
      destruct (mech_encode m (ev_params e)); [congruence|]. cbn [is_nil].
      rewrite Bool.andb_false_r. split; [discriminate | reflexivity].
  Qed.

  (* every write elicited by an alphabet event other than 903 is an AUTHENTICATE line;
     903 elicits exactly CAP END *)
  Lemma step_spec_writes ns e cn' outs :
    step_spec m ns e cn' outs ->
    (ev_cmd e <> n903 -> Forall (fun w => ev_cmd w = c_AUTHENTICATE) (writes_of outs)) /\
    (ev_cmd e = n903 -> outs = [Write cap_end] /\ cn_returned cn' = None).
  Proof.
    intros Hs. destruct Hs as [Hi|Hs|Hf|Ha Henc|cs Ha Hne Hch]; cbn [writes_of].
    - split; [constructor|]. intros H. rewrite H in Hi. cbn [In] in Hi.
      destruct Hi as [E|[E|[E|[]]]]; discriminate.
    - split; [congruence|]. intros _. split; reflexivity.
    - split; [constructor|]. intros H. rewrite H in Hf. discriminate.
    - split; [constructor|]. intros H. rewrite H in Ha. discriminate.
    - split; [|intros H; rewrite H in Ha; discriminate].
      intros _. rewrite writes_of_chunks. apply Forall_forall. intros w Hw.
      apply in_map_iff in Hw. destruct Hw as [ch [<- _]]. apply chunk_event_cmd.
  Qed.

  Lemma cap_end_not_authenticate : ev_cmd cap_end <> c_AUTHENTICATE. Proof. discriminate. Qed.

  (* ---- histories ------------------------------------------------------------------ *)

  (* CAP END only after success: whatever was written before the first 903 consists of
     AUTHENTICATE lines only (h2, the rest of the history, is arbitrary). *)
  Theorem no_cap_end_before_success h1 : forall h2 cn cn' outs,
    Forall in_alphabet h1 -> Forall (fun e => ev_cmd e <> n903) h1 ->
    run c cn (h1 ++ h2) = Ok (cn', outs) ->
    exists cn1 o1 o2,
      run c cn h1 = Ok (cn1, o1) /\ run c cn1 h2 = Ok (cn', o2) /\ outs = o1 ++ o2 /\
      Forall (fun w => ev_cmd w = c_AUTHENTICATE) (writes_of o1) /\ ~ In cap_end (writes_of o1).
  Proof.
    intros h2 cn cn' outs Hal Hno Hrun.
    destruct (run_app c h1 h2 cn cn' outs Hrun) as [cn1 [o1 [o2 [H1 [H2 Ho]]]]].
    exists cn1, o1, o2. split; [exact H1|]. split; [exact H2|]. split; [exact Ho|].
    assert (HF : Forall (fun w => ev_cmd w = c_AUTHENTICATE) (writes_of o1)).
    { clear Hrun H2 Ho. revert cn cn1 o1 H1.
      induction h1 as [|e h1 IH]; intros cn cn1 o1 H1.
      - cbn [run] in H1. injection H1 as <- <-. constructor.
      - inversion Hal as [|? ? Hae Hal']; subst. inversion Hno as [|? ? Hne Hno']; subst.
        apply run_cons_inv in H1. destruct H1 as [cna [oa [ob [Hf [Hr ->]]]]].
        rewrite writes_of_app. apply Forall_app. split; [|exact (IH Hal' Hno' _ _ _ Hr)].
        destruct cn as [ns [t|]].
        + rewrite (feed_returned c (mkConn ns (Some t)) e t eq_refl) in Hf. injection Hf as <- <-. constructor.
        + destruct (feed_step ns e Hae) as [cn'' [outs'' [Hf' Hs]]].
          rewrite Hf' in Hf. injection Hf as <- <-.
          exact (proj1 (step_spec_writes _ _ _ _ Hs) Hne). }
    split; [exact HF|]. intros Hin. rewrite Forall_forall in HF.
    exact (cap_end_not_authenticate (HF _ Hin)).
  Qed.

  (* no fatal event: Connect has not returned, the negotiation state is untouched *)
  Theorem stays_open h : forall ns,
    Forall in_alphabet h -> Forall (fun e => fatalb m e = false) h ->
    exists outs, run c (mkConn ns None) h = Ok (mkConn ns None, outs).
  Proof.
    induction h as [|e h IH]; intros ns Hal Hnf; [eexists; reflexivity|].
    inversion Hal as [|? ? Hae Hal']; subst. inversion Hnf as [|? ? Hne Hnf']; subst.
    destruct (feed_step ns e Hae) as [cn' [o1 [Hf Hs]]].
    destruct (step_spec_fatal _ _ _ _ Hs) as [Hns [_ Hopen]]. specialize (Hopen Hne).
    destruct cn' as [ns' r']. cbn [cn_ns cn_returned] in Hns, Hopen. subst ns' r'.
    destruct (IH ns Hal' Hnf') as [o2 Hr].
    eexists. exact (run_cons _ _ _ _ _ _ _ _ Hf Hr).
  Qed.

  (* the first fatal event makes Connect return the ErrEvent; it elicits no write, and
     nothing at all happens afterwards (h2 arbitrary: not even a later 903 gets CAP END) *)
  Theorem fails_closed h1 e h2 ns :
    Forall in_alphabet h1 -> Forall (fun x => fatalb m x = false) h1 ->
    in_alphabet e -> fatalb m e = true ->
    exists o1,
      run c (mkConn ns None) h1 = Ok (mkConn ns None, o1) /\
      run c (mkConn ns None) (h1 ++ e :: h2) =
        Ok (mkConn ns (Some (fatal_text m e)), o1 ++ [InjectError (fatal_text m e)]).
  Proof.
    intros Hal Hnf Hae He.
    destruct (stays_open h1 ns Hal Hnf) as [o1 H1]. exists o1. split; [exact H1|].
    destruct (feed_step ns e Hae) as [cn' [oe [Hf Hs]]].
    destruct (step_spec_fatal _ _ _ _ Hs) as [Hns [Hfat _]]. destruct (Hfat He) as [Hret Hoe].
    destruct cn' as [ns' r']. cbn [cn_ns cn_returned] in Hns, Hret. subst ns' r' oe.
    pose proof (run_returned c h2 (mkConn ns (Some (fatal_text m e))) (fatal_text m e) eq_refl) as H2.
    pose proof (run_cons _ _ _ _ _ _ _ _ Hf H2) as He2. rewrite app_nil_r in He2.
    clear Hs Hfat.
    revert H1. generalize (mkConn ns None) at 1 3. revert o1.
    induction h1 as [|x h1 IH]; intros o1 cn0 H1.
    - cbn [run] in H1. injection H1 as -> <-. exact He2.
    - apply run_cons_inv in H1. destruct H1 as [cna [oa [ob [Hfa [Hr ->]]]]].
      inversion Hal as [|? ? Hax Hal']; subst. inversion Hnf as [|? ? Hnx Hnf']; subst.
      cbn [app]. rewrite <- app_assoc.
      exact (run_cons _ _ _ _ _ _ _ _ Hfa (IH Hal' Hnf' ob cna Hr)).
  Qed.

  (* Connect returns an error exactly when a fatal event occurred *)
  Theorem returned_iff_fatal h ns cn' outs :
    Forall in_alphabet h -> run c (mkConn ns None) h = Ok (cn', outs) ->
    (cn_returned cn' <> None <-> Exists (fun e => fatalb m e = true) h).
  Proof.
    intros Hal Hrun.
    assert (Hdec : Forall (fun e => fatalb m e = false) h \/
                   exists h1 e h2, h = h1 ++ e :: h2 /\ Forall (fun x => fatalb m x = false) h1 /\ fatalb m e = true).
    { clear. induction h as [|e h IH]; [left; constructor|].
      destruct (fatalb m e) eqn:E.
      - right. exists [], e, h. repeat split; [constructor | exact E].
      - destruct IH as [IH|[h1 [x [h2 [-> [H1 H2]]]]]].
        + left. constructor; assumption.
        + right. exists (e :: h1), x, h2. repeat split; [constructor; assumption | exact H2]. }
    destruct Hdec as [Hnf|[h1 [e [h2 [-> [Hnf He]]]]]].
    - destruct (stays_open h ns Hal Hnf) as [o Hr]. rewrite Hr in Hrun. injection Hrun as <- _.
      cbn [cn_returned]. split; [congruence|]. intros Hex. exfalso.
      apply Exists_exists in Hex. destruct Hex as [x [Hin Hx]].
      rewrite Forall_forall in Hnf. rewrite (Hnf x Hin) in Hx. discriminate.
    - apply Forall_app in Hal. destruct Hal as [Hal1 Hal2].
      inversion Hal2 as [|? ? Hae _]; subst.
      destruct (fails_closed h1 e h2 ns Hal1 Hnf Hae He) as [o1 [_ Hr]].
      rewrite Hr in Hrun. injection Hrun as <- _. cbn [cn_returned]. split; [|discriminate].
      intros _. apply Exists_app. right. constructor. exact He.
  Qed.

  (* success: from an open connection 903 elicits exactly CAP END and Connect goes on *)
  Theorem success_ends_negotiation ns e :
    in_alphabet e -> ev_cmd e = n903 ->
    feed c (mkConn ns None) e = Ok (mkConn ns None, [Write cap_end]).
  Proof.
    intros Ha He. destruct (feed_step ns e Ha) as [cn' [outs [Hf Hs]]].
    destruct (step_spec_writes _ _ _ _ Hs) as [_ H]. destruct (H He) as [-> Hret].
    destruct (step_spec_fatal _ _ _ _ Hs) as [Hns _].
    destruct cn' as [ns' r']. cbn [cn_ns cn_returned] in Hns, Hret. subst. exact Hf.
  Qed.

End FailClosed.

(* ---- non-vacuity: whole sessions from the initial state ---------------------------- *)

Definition ex_mech : sasl_mech := mkMech (bs "PLAIN") (sasl_plain_encode (bs "jilles") (bs "sesame")).
Definition ex_cfg : config :=
  mkCfg (Some ex_mech) [] (mkWebirc [] [] [] []) true (bs "me") (bs "user") (bs "name") sort_strs.
Definition srv (cmd : str) (ps : list str) : event := mkEv (bs ":srv ") cmd ps false false.
Definition ex_ls := srv c_CAP [c_star; c_LS; c_sasl].
Definition ex_ack := srv c_CAP [c_star; c_ACK; c_sasl].
Definition ex_plus := srv c_AUTHENTICATE [c_plus].
Definition ex_num (n : str) := srv n [bs "me"; bs "text"].
Definition ex_resp := secret_ev c_AUTHENTICATE [bs "amlsbGVzAGppbGxlcwBzZXNhbWU="].
Definition ex_req := plain_ev c_CAP [c_REQ; c_sasl].
Definition ex_start := plain_ev c_AUTHENTICATE [bs "PLAIN"].

Definition run_view (h : list event) : option (option str * list event) :=
  match run ex_cfg conn_init h with
  | Ok (cn, outs) => Some (cn_returned cn, writes_of outs)
  | Panic => None
  end.

Example session_examples :
  (* success *)
  run_view [ex_ls; ex_ack; ex_plus; ex_num n900; ex_num n903] =
    Some (None, [ex_req; ex_start; ex_resp; cap_end]) /\
  (* failure numeric: error, no CAP END, and a later 903 changes nothing *)
  run_view [ex_ls; ex_ack; ex_plus; ex_num n904; ex_num n903] =
    Some (Some (bs "closing connection: text"), [ex_req; ex_start; ex_resp]) /\
  (* the mechanism gives up (challenge is not "+") *)
  run_view [ex_ls; ex_ack; srv c_AUTHENTICATE [bs "YWJj"]] =
    Some (Some (bs "closing connection: SASL PLAIN failed: YWJj"), [ex_req; ex_start]) /\
  (* 907 and 901: nothing *)
  run_view [ex_ls; ex_ack; ex_plus; ex_num n907; ex_num n901] =
    Some (None, [ex_req; ex_start; ex_resp]) /\
  (* the hypotheses of the history theorems are satisfiable *)
  fatalb ex_mech (ex_num n904) = true /\ fatalb ex_mech ex_plus = false /\
  fatalb ex_mech (srv c_AUTHENTICATE []) = true /\ fatalb ex_mech (ex_num n907) = false.
Proof. vm_compute. repeat split. Qed.

Example alphabet_inhabited : Forall in_alphabet [ex_plus; ex_num n900; ex_num n904; ex_num n907].
Proof. repeat constructor; cbn; tauto. Qed.

(* Scope: the property's alphabet is AUTHENTICATE and 900-908.  handleCAP keeps no record
   of an authentication in progress, so a CAP NAK sent by the server while the exchange is
   running does elicit CAP END without a success numeric.  Recorded, not claimed safe. *)
Example nak_during_authentication_ends_negotiation :
  run_view [ex_ls; ex_ack; ex_plus; srv c_CAP [c_star; c_NAK; c_sasl]] =
    Some (None, [ex_req; ex_start; ex_resp; cap_end]).
Proof. vm_compute. reflexivity. Qed.
