(* C03 — ParseEvent (Model/Event.v parse_event) never panics: every checked index and
   slice of the scanner is in range and the trailer loop never runs out of fuel, for
   every input.  Used to turn "if the written line parses without panic, its command
   is ..." into "the written line parses and its command is ...". *)
Require Import Bytes Utf8 AMap WireOut GoUpper Tags Event C03Command.
From Coq Require Import Lia ZifyBool ZifyN ZifyNat.

Local Open Scope N_scope.

Lemma index_byte_lt : forall c s i, index_byte c s = Some i -> (i < length s)%nat.
Proof.
  intros c. induction s as [|x r IH]; intros i H; cbn [index_byte] in H; [discriminate|].
  destruct (x =? c).
  - injection H as <-. cbn [length]. lia.
  - destruct (index_byte c r) as [k|] eqn:E; cbn [option_map] in H; [|discriminate].
    injection H as <-. specialize (IH k eq_refl). cbn [length]. lia.
Qed.

Lemma at_ok : forall (s : str) i, (i < length s)%nat -> exists c, at_ s i = Ok c.
Proof.
  intros s i H. unfold at_. destruct (nth_error s i) eqn:E; [eexists; reflexivity|].
  apply nth_error_None in E. lia.
Qed.

Lemma slice_ok : forall (s : str) i j, (i <= j)%nat -> (j <= length s)%nat ->
  exists v, slice s i j = Ok v.
Proof.
  intros s i j H1 H2. unfold slice.
  replace (Nat.leb i j && Nat.leb j (length s))%bool with true; [eexists; reflexivity|].
  symmetry. apply andb_true_intro. split; apply Nat.leb_le; lia.
Qed.

Lemma slice_from_ok : forall (s : str) i, (i <= length s)%nat -> slice_from s i = Ok (skipn i s).
Proof.
  intros s i H. unfold slice_from.
  replace (Nat.leb i (length s)) with true by (symmetry; apply Nat.leb_le; lia). reflexivity.
Qed.

Lemma slice_to_ok : forall (s : str) j, (j <= length s)%nat -> slice_to s j = Ok (firstn j s).
Proof.
  intros s j H. unfold slice_to.
  replace (Nat.leb j (length s)) with true by (symmetry; apply Nat.leb_le; lia). reflexivity.
Qed.

Ltac slices :=
  repeat (match goal with
          | |- context [slice_to ?s ?j] => rewrite (slice_to_ok s j) by (cbn [length] in *; lia)
          | |- context [slice_from ?s ?i] => rewrite (slice_from_ok s i) by (cbn [length] in *; lia)
          | |- context [slice ?s ?i ?j] =>
            let v := fresh "v" in let E := fresh "E" in
            destruct (slice_ok s i j) as [v E];
            [cbn [length] in *; lia|cbn [length] in *; lia|rewrite E]
          end; cbn [rbind]).

(* ---- the trailer loop ------------------------------------------------------------- *)

Lemma trailer_loop_ok : forall fuel raw j trailer,
  (1 <= j)%nat -> (j + trailer <= length raw)%nat -> (length raw - (j + trailer) < fuel)%nat ->
  exists tr, trailer_loop fuel raw j trailer = Ok tr /\
             (forall i0, tr = Some i0 -> (j + i0 < length raw)%nat).
Proof.
  induction fuel as [|f IH]; intros raw j trailer Hj Hle Hf; [lia|].
  cbn [trailer_loop]. cbv zeta. rewrite (slice_from_ok raw (j + trailer)) by exact Hle.
  cbn [rbind]. destruct (index_byte 58 (skipn (j + trailer) raw)) as [t|] eqn:E.
  - apply index_byte_lt in E. rewrite skipn_length in E.
    replace (Nat.eqb (j + trailer + t) 0) with false by (symmetry; apply Nat.eqb_neq; lia).
    destruct (at_ok raw (j + trailer + t - 1)) as [c Ec]; [lia|]. rewrite Ec. cbn [rbind].
    destruct (c =? 32).
    + eexists. split; [reflexivity|]. intros i0 Ei. injection Ei as <-. lia.
    + apply IH; lia.
  - eexists. split; [reflexivity|]. intros i0 Ei. discriminate.
Qed.

Lemma tail_total : forall tags src raw cmd j, (1 <= j)%nat -> (j <= length raw)%nat ->
  exists r, tail_after_cmd tags src raw cmd j = Ok r.
Proof.
  intros tags src raw cmd j H1 H2. unfold tail_after_cmd.
  destruct (trailer_loop_ok (S (length raw)) raw j 0) as (tr & E & Hb); [lia|lia|lia|].
  rewrite E. cbn [rbind]. destruct tr as [i0|].
  - specialize (Hb i0 eq_refl). cbv zeta. destruct (Nat.ltb j (j + i0)) eqn:L.
    + apply Nat.ltb_lt in L.
      replace (Nat.eqb (j + i0) 0) with false by (symmetry; apply Nat.eqb_neq; lia).
      slices. eexists. reflexivity.
    + cbn [rbind]. slices. eexists. reflexivity.
  - slices. eexists. reflexivity.
Qed.

Lemma after_pre_total : forall tags raw src i, (i <= length raw)%nat ->
  exists r, after_pre tags raw src i = Ok r.
Proof.
  intros tags raw src i H. unfold after_pre. rewrite (slice_from_ok raw i) by exact H.
  cbn [rbind]. destruct (index_byte 32 (skipn i raw)) as [k|] eqn:E; [|eexists; reflexivity].
  apply index_byte_lt in E. rewrite skipn_length in E. cbv zeta.
  destruct (slice_ok raw i (i + k)) as [v Ev]; [lia|lia|]. rewrite Ev. cbn [rbind].
  apply tail_total; lia.
Qed.

(* ---- ParseSource, ParseTags ----------------------------------------------------------- *)

Lemma wparse_source_total : forall s, exists r, wparse_source s = Ok r.
Proof.
  intros s. unfold wparse_source. cbv zeta.
  destruct (index_byte 33 s) as [[|u]|] eqn:EU; destruct (index_byte 64 s) as [[|h]|] eqn:EH;
    try apply index_byte_lt in EU; try apply index_byte_lt in EH; cbv beta iota;
    repeat (match goal with
            | |- context [if Nat.ltb ?a ?b then _ else _] =>
              let L := fresh "L" in destruct (Nat.ltb a b) eqn:L; [apply Nat.ltb_lt in L|]
            end);
    slices; eexists; reflexivity.
Qed.

Lemma parse_tag_part_total : forall t part, exists t', parse_tag_part t part = Ok t'.
Proof.
  intros t part. unfold parse_tag_part.
  destruct (index_byte 61 part) as [[|h]|] eqn:E; cbv beta iota zeta;
    try (destruct (valid_tag part); eexists; reflexivity).
  destruct (Nat.ltb (length part) (S h + 1)) eqn:L.
  - destruct (valid_tag part); eexists; reflexivity.
  - apply Nat.ltb_ge in L. slices. eexists. reflexivity.
Qed.

Lemma parse_tag_parts_total : forall parts t, exists t', parse_tag_parts t parts = Ok t'.
Proof.
  induction parts as [|p r IH]; intros t; cbn [parse_tag_parts]; [eexists; reflexivity|].
  destruct (parse_tag_part_total t p) as [t1 E]. rewrite E. cbn [rbind]. apply IH.
Qed.

Lemma parse_tags_total : forall raw, exists m, parse_tags raw = Ok m.
Proof.
  intros raw. unfold parse_tags. destruct raw as [|c r].
  - cbn [rbind]. apply parse_tag_parts_total.
  - destruct (c =? 64).
    + rewrite (slice_from_ok (c :: r) 1) by (cbn [length]; lia). cbn [rbind].
      apply parse_tag_parts_total.
    + cbn [rbind]. apply parse_tag_parts_total.
Qed.

(* ---- ParseEvent ------------------------------------------------------------------------ *)

Lemma pre_total : forall raw, exists v, pre_of raw = Ok v /\
  (forall src i, v = Some (src, i) -> (i <= length raw)%nat).
Proof.
  intros raw. unfold pre_of. destruct raw as [|c r].
  - eexists. split; [reflexivity|]. intros src i E. injection E as <- <-. cbn. lia.
  - destruct (c =? 58).
    2:{ eexists. split; [reflexivity|]. intros src i E. injection E as <- <-. lia. }
    destruct (index_byte 32 (c :: r)) as [i|] eqn:E.
    2:{ eexists. split; [reflexivity|]. intros src i E0. discriminate. }
    apply index_byte_lt in E. destruct (Nat.ltb i 2) eqn:L.
    + eexists. split; [reflexivity|]. intros src i0 E0. discriminate.
    + apply Nat.ltb_ge in L.
      destruct (slice_ok (c :: r) 1 i) as [v Ev]; [lia|lia|]. rewrite Ev. cbn [rbind].
      destruct (wparse_source_total v) as [src Es]. rewrite Es. cbn [rbind].
      eexists. split; [reflexivity|]. intros src0 i0 E0. injection E0 as <- <-. lia.
Qed.

Lemma body_total : forall tags raw, exists r, parse_event_body tags raw = Ok r.
Proof.
  intros tags raw. rewrite body_unfold. destruct (pre_total raw) as (v & E & Hb).
  rewrite E. cbn [rbind]. destruct v as [[src i]|]; [|eexists; reflexivity].
  apply after_pre_total. apply (Hb src i eq_refl).
Qed.

(* C02's totality clause for the parser, proven here because C03_command needs it *)
Theorem parse_event_total : forall s, exists r, parse_event s = Ok r.
Proof.
  intros s. unfold parse_event. cbv zeta. set (raw := trim_crlf s).
  destruct (Nat.ltb (length raw) 2) eqn:L; [eexists; reflexivity|]. apply Nat.ltb_ge in L.
  destruct (at_ok raw 0) as [c0 E0]; [lia|]. rewrite E0. cbn [rbind].
  destruct (c0 =? 64); [|apply body_total].
  destruct (index_byte 32 raw) as [i|] eqn:E; [|eexists; reflexivity].
  apply index_byte_lt in E. destruct (Nat.ltb i 2) eqn:L2; [eexists; reflexivity|].
  apply Nat.ltb_ge in L2.
  destruct (slice_ok raw 1 i) as [ts Ets]; [lia|lia|]. rewrite Ets. cbn [rbind].
  destruct (parse_tags_total ts) as [m Em]. rewrite Em. cbn [rbind].
  rewrite (slice_from_ok raw (i + 1)) by lia. cbn [rbind]. apply body_total.
Qed.
