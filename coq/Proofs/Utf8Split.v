From Coq Require Import Lia ZifyBool ZifyN ZifyNat.
Require Import Bytes Utf8 Utf8Lemmas.

Arguments N.eqb : simpl never.
Arguments N.leb : simpl never.
Arguments N.ltb : simpl never.

(* the bytes of an accepted rune after the first are all >= 0x80 *)
Lemma rune_size_cont s n : rune_size s = Some n ->
  forall i, (1 <= i < n)%nat -> (128 <= nth i s 0)%N.
Proof.
  destruct s as [|b0 r]; [discriminate|]. cbn [rune_size].
  destruct (b0 <? 128); [intros H i Hi; inversion H; subst; lia|].
  destruct (in_range 194 223 b0).
  { destruct r as [|b1 r]; [discriminate|]. destruct (is_cont b1) eqn:E1; [|discriminate].
    intros H i Hi. inversion H; subst. assert (i = 1%nat) by lia. subst. cbn [nth]. unfold is_cont in E1. lia. }
  destruct (in_range 224 239 b0).
  { destruct r as [|b1 [|b2 r]]; try discriminate.
    destruct (in_range _ _ b1 && is_cont b2)%bool eqn:E; [|discriminate].
    intros H i Hi. inversion H; subst. apply Bool.andb_true_iff in E. destruct E as [E1 E2].
    unfold in_range, is_cont in *.
    assert (i = 1 \/ i = 2)%nat as [-> | ->] by lia; cbn [nth].
    - destruct (b0 =? 224); destruct (b0 =? 237); lia.
    - lia. }
  destruct (in_range 240 244 b0); [|discriminate].
  destruct r as [|b1 [|b2 [|b3 r]]]; try discriminate.
  destruct (in_range _ _ b1 && is_cont b2 && is_cont b3)%bool eqn:E; [|discriminate].
  intros H i Hi. inversion H; subst. apply Bool.andb_true_iff in E. destruct E as [E E3].
  apply Bool.andb_true_iff in E. destruct E as [E1 E2]. unfold in_range, is_cont in *.
  assert (i = 1 \/ i = 2 \/ i = 3)%nat as [-> | [-> | ->]] by lia; cbn [nth].
  - destruct (b0 =? 240); destruct (b0 =? 244); lia.
  - lia.
  - lia.
Qed.

Lemma rune_size_prefix a b n : rune_size (a ++ b) = Some n -> (n <= length a)%nat -> rune_size a = Some n.
Proof.
  destruct a as [|b0 r]; [cbn [app length]; intros H Hn; destruct (rune_size_app b [] n H) as [_ ?]; lia|].
  cbn [app rune_size length].
  destruct (b0 <? 128); [intros H _; exact H|].
  destruct (in_range 194 223 b0).
  { destruct r as [|b1 r]; cbn [app length].
    - destruct b as [|x b']; [discriminate|]. destruct (is_cont x); [|discriminate]. intros H Hn. inversion H; subst. lia.
    - intros H _. exact H. }
  destruct (in_range 224 239 b0).
  { destruct r as [|b1 [|b2 r]]; cbn [app length].
    - destruct b as [|x [|y b']]; try discriminate. destruct (_ && _)%bool; [|discriminate]. intros H Hn; inversion H; subst; lia.
    - destruct b as [|x b']; try discriminate. destruct (_ && _)%bool; [|discriminate]. intros H Hn; inversion H; subst; lia.
    - intros H _. exact H. }
  destruct (in_range 240 244 b0); [|discriminate].
  destruct r as [|b1 [|b2 [|b3 r]]]; cbn [app length].
  - destruct b as [|x [|y [|z b']]]; try discriminate. destruct (_ && _ && _)%bool; [|discriminate]. intros H Hn; inversion H; subst; lia.
  - destruct b as [|x [|y b']]; try discriminate. destruct (_ && _ && _)%bool; [|discriminate]. intros H Hn; inversion H; subst; lia.
  - destruct b as [|x b']; try discriminate. destruct (_ && _ && _)%bool; [|discriminate]. intros H Hn; inversion H; subst; lia.
  - intros H _. exact H.
Qed.

Lemma valid_split_aux b x b' : (x <? 128) = true -> b = x :: b' ->
  forall a k, (forall i, (i < k)%nat -> (128 <= nth i (a ++ b) 0)%N) ->
  valid_utf8_aux (a ++ b) k = true -> valid_utf8_aux a k = true /\ valid_utf8 b = true.
Proof.
  intros Hx Hb. induction a as [|y r IH]; intros k Hinv H.
  - cbn [app] in *. destruct k as [|k'].
    + split; [reflexivity|exact H].
    + specialize (Hinv 0%nat ltac:(lia)). subst b. cbn [nth] in Hinv. lia.
  - cbn [app] in *. cbn [valid_utf8_aux] in H. destruct k as [|k'].
    + destruct (rune_size (y :: r ++ b)) as [n|] eqn:ER; [|discriminate].
      change (y :: r ++ b) with ((y :: r) ++ b) in ER.
      pose proof (rune_size_cont _ _ ER) as Hcont.
      assert (Hn : (n <= length (y :: r))%nat).
      { destruct (Nat.le_gt_cases n (length (y :: r))) as [Hle|Hgt]; [exact Hle|exfalso].
        specialize (Hcont (length (y :: r)) ltac:(cbn [length] in *; lia)).
        rewrite app_nth2 in Hcont by lia. rewrite Nat.sub_diag in Hcont. subst b. cbn [nth] in Hcont. lia. }
      pose proof (rune_size_prefix _ _ _ ER Hn) as ER'.
      destruct (IH (n - 1)%nat) as [H1 H2].
      * intros i Hi. specialize (Hcont (S i) ltac:(lia)). cbn [app nth] in Hcont. exact Hcont.
      * exact H.
      * split; [|exact H2]. cbn [valid_utf8_aux]. rewrite ER'. exact H1.
    + destruct (IH k') as [H1 H2].
      * intros i Hi. specialize (Hinv (S i) ltac:(lia)). cbn [nth] in Hinv. exact Hinv.
      * exact H.
      * split; [|exact H2]. cbn [valid_utf8_aux]. exact H1.
Qed.

(* a valid string can be split in front of any ASCII byte *)
Lemma valid_utf8_split a x b : (x <? 128) = true ->
  valid_utf8 (a ++ x :: b) = true -> valid_utf8 a = true /\ valid_utf8 (x :: b) = true.
Proof.
  intros Hx H. apply (valid_split_aux (x :: b) x b Hx eq_refl a 0); [intros i Hi; lia|exact H].
Qed.

Lemma valid_utf8_tail_ascii x b : (x <? 128) = true -> valid_utf8 (x :: b) = true -> valid_utf8 b = true.
Proof. intros Hx H. unfold valid_utf8 in *. cbn [valid_utf8_aux rune_size] in H. rewrite Hx in H. exact H. Qed.

(* the field between two ASCII delimiters (or the ends) of a valid string is valid *)
Lemma valid_utf8_mid a x f : (x <? 128) = true ->
  valid_utf8 (a ++ x :: f) = true -> valid_utf8 a = true /\ valid_utf8 f = true.
Proof.
  intros Hx H. destruct (valid_utf8_split a x f Hx H) as [H1 H2]. split; [exact H1|].
  exact (valid_utf8_tail_ascii x f Hx H2).
Qed.
