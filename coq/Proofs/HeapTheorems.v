(* The statements of C13 about Model/Heap.v, assembled from the frame theory. *)
Require Import Bytes AMap Names State Heap HeapLemmas HeapSpec HeapFrame HeapCopy HeapLive HeapHandlers HeapClient HeapIso HeapGetters.
From Coq Require Import Lia.
Local Open Scope nat_scope.

Definition handles_of (r : option nat) : list nat := match r with Some o => [o] | None => [] end.

(* ---------- 1. a returned object is disjoint from the tracked state and has its value ---------- *)

Lemma in_users_live h s k uid : In (k, uid) (hs_users s) -> forall x, In x (reach h uid) -> In x (live_objs h s).
Proof.
  intros Hin x Hx. rewrite live_objs_creach. apply in_creach. exists uid. split; [|exact Hx].
  unfold roots. apply in_or_app. left. change uid with (snd (k, uid)). apply in_map. exact Hin.
Qed.
Lemma in_chans_live h s k cid : In (k, cid) (hs_channels s) -> forall x, In x (reach h cid) -> In x (live_objs h s).
Proof.
  intros Hin x Hx. rewrite live_objs_creach. apply in_creach. exists cid. split; [|exact Hx].
  unfold roots. apply in_or_app. right. change cid with (snd (k, cid)). apply in_map. exact Hin.
Qed.

Lemma alookup_in {V} k (m : amap V) v : alookup k m = Some v -> exists k', In (k', v) m.
Proof.
  induction m as [|[k' v'] m IH]; simpl; [discriminate|].
  destruct (streqb k k'); [intros H; injection H as ->; exists k'; auto|].
  intros H. destruct (IH H) as (k2 & Hk2). exists k2. auto.
Qed.

Lemma live_objs_old h h' s : bounded h (live_objs h s) -> (forall x, x < length h -> hget h' x = hget h x) ->
  live_objs h' s = live_objs h s.
Proof. intros B U. apply creach_old; [exact B|]. intros x Hx. apply U. apply B. exact Hx. Qed.

Theorem lookup_user_disjoint w nick h' o' : HeapInv w -> lookup_user_g w nick = Ok (h', Some o') ->
  (forall x, x < length (w_heap w) -> hget h' x = hget (w_heap w) x) /\
  disjoint (reach h' o') (live_objs h' (w_st w)) /\
  exists uid, lookup_user_h w nick = Some uid /\
              user_value h' o' = user_value (w_heap w) uid /\ user_value (w_heap w) uid <> None.
Proof.
  intros Inv H. unfold lookup_user_g in H. destruct nick as [|b n]; [discriminate|].
  destruct (lookup_user_h w (b :: n)) as [uid|] eqn:El; [|discriminate].
  bind_inv H r Hr. destruct r as [h1 o1]. simpl in H. injection H as <- <-.
  destruct (user_copy_frame _ _ _ _ Hr) as (L & U). split; [exact U|]. split.
  - rewrite (live_objs_old _ _ _ Inv U). intros x Hx Hl.
    pose proof (user_copy_fresh _ _ _ _ Hr x Hx). specialize (Inv x Hl). lia.
  - exists uid. split; [reflexivity|]. apply (user_copy_value _ _ _ _ Hr).
Qed.

Theorem lookup_channel_disjoint w name h' o' : HeapInv w -> lookup_channel_g w name = Ok (h', Some o') ->
  (forall x, x < length (w_heap w) -> hget h' x = hget (w_heap w) x) /\
  disjoint (reach h' o') (live_objs h' (w_st w)) /\
  exists cid, lookup_channel_h w name = Some cid /\
              chan_value h' o' = chan_value (w_heap w) cid /\ chan_value (w_heap w) cid <> None.
Proof.
  intros Inv H. unfold lookup_channel_g in H. destruct name as [|b n]; [discriminate|].
  destruct (lookup_channel_h w (b :: n)) as [cid|] eqn:El; [|discriminate].
  bind_inv H r Hr. destruct r as [h1 o1]. simpl in H. injection H as <- <-.
  destruct (channel_copy_frame _ _ _ _ Hr) as (L & U). split; [exact U|]. split.
  - rewrite (live_objs_old _ _ _ Inv U). intros x Hx Hl.
    pose proof (channel_copy_fresh _ _ _ _ Hr x Hx). specialize (Inv x Hl). lia.
  - exists cid. split; [reflexivity|]. apply (channel_copy_value _ _ _ _ Hr).
Qed.

(* ---------- 2. Users() / Channels(), element-wise ---------- *)

Definition elementwise {V} (val : heap -> nat -> option V) (tracked : amap nat) (h h' : heap) (s : hstate) (l : list nat) : Prop :=
  (forall x, x < length h -> hget h' x = hget h x) /\
  (forall o', In o' l -> disjoint (reach h' o') (live_objs h' s) /\
                         exists k o, In (k, o) tracked /\ val h' o' = val h o) /\
  (forall k o, In (k, o) tracked -> exists o', In o' l /\ val h' o' = val h o) /\
  (forall o', In o' l -> forall x, In x (reach h' o') -> length h <= x < length h') /\
  length l = length tracked.

Lemma F2_length {A B} (P : A -> B -> Prop) l l' : Forall2 P l l' -> length l = length l'.
Proof. induction 1; simpl; congruence. Qed.
Lemma insert_by_length {A} (key : A -> str) x l : length (insert_by key x l) = S (length l).
Proof. induction l as [|y l IH]; simpl; [reflexivity|]. destruct (str_leb _ _); simpl; congruence. Qed.
Lemma sort_by_length {A} (key : A -> str) l : length (sort_by key l) = length l.
Proof. induction l as [|x l IH]; [reflexivity|]. unfold sort_by in *. simpl. rewrite insert_by_length. congruence. Qed.

Lemma in_map_snd {V} (m : amap V) o : In o (List.map snd m) -> exists k, In (k, o) m.
Proof. intros H. apply in_map_iff in H. destruct H as ([k v] & <- & Hin). exists k. exact Hin. Qed.

Theorem users_elementwise w h' l : HeapInv w -> users_g w = Ok (h', l) ->
  elementwise user_value (hs_users (w_st w)) (w_heap w) h' (w_st w) l.
Proof.
  intros Inv H. unfold users_g in H. bind_inv H r Hr. destruct r as [hF l1]. simpl in H. injection H as <- <-.
  assert (B : bounded (w_heap w) (creach (w_heap w) (List.map snd (hs_users (w_st w))))).
  { intros x Hx. apply Inv. unfold live_objs, roots. rewrite flat_map_app. apply in_or_app. left. exact Hx. }
  destruct (copy_all_users_spec _ _ _ _ B Hr) as (L & U & F).
  split; [exact U|]. split; [|split; [|split]].
  - intros o' Ho'. apply sort_by_in in Ho'. destruct (Forall2_in_r _ _ _ _ F Ho') as (o & Ho & Hv & Hf).
    split.
    + rewrite (live_objs_old _ _ _ Inv U). intros x Hx Hl. specialize (Hf x Hx). specialize (Inv x Hl). lia.
    + destruct (in_map_snd _ _ Ho) as (k & Hk). exists k, o. split; assumption.
  - intros k o Hk. assert (Ho : In o (List.map snd (hs_users (w_st w)))) by (change o with (snd (k, o)); apply in_map; exact Hk).
    destruct (Forall2_in_l _ _ _ _ F Ho) as (o' & Ho' & Hv & _). exists o'. split; [apply sort_by_in; exact Ho'|exact Hv].
  - intros o' Ho'. apply sort_by_in in Ho'. destruct (Forall2_in_r _ _ _ _ F Ho') as (o & _ & _ & Hf). exact Hf.
  - rewrite sort_by_length, <- (F2_length _ _ _ F), map_length. reflexivity.
Qed.

Theorem channels_elementwise w h' l : HeapInv w -> channels_g w = Ok (h', l) ->
  elementwise chan_value (hs_channels (w_st w)) (w_heap w) h' (w_st w) l.
Proof.
  intros Inv H. unfold channels_g in H. bind_inv H r Hr. destruct r as [hF l1]. simpl in H. injection H as <- <-.
  assert (B : bounded (w_heap w) (creach (w_heap w) (List.map snd (hs_channels (w_st w))))).
  { intros x Hx. apply Inv. unfold live_objs, roots. rewrite flat_map_app. apply in_or_app. right. exact Hx. }
  destruct (copy_all_chans_spec _ _ _ _ B Hr) as (L & U & F).
  split; [exact U|]. split; [|split; [|split]].
  - intros o' Ho'. apply sort_by_in in Ho'. destruct (Forall2_in_r _ _ _ _ F Ho') as (o & Ho & Hv & Hf).
    split.
    + rewrite (live_objs_old _ _ _ Inv U). intros x Hx Hl. specialize (Hf x Hx). specialize (Inv x Hl). lia.
    + destruct (in_map_snd _ _ Ho) as (k & Hk). exists k, o. split; assumption.
  - intros k o Hk. assert (Ho : In o (List.map snd (hs_channels (w_st w)))) by (change o with (snd (k, o)); apply in_map; exact Hk).
    destruct (Forall2_in_l _ _ _ _ F Ho) as (o' & Ho' & Hv & _). exists o'. split; [apply sort_by_in; exact Ho'|exact Hv].
  - intros o' Ho'. apply sort_by_in in Ho'. destruct (Forall2_in_r _ _ _ _ F Ho') as (o & _ & _ & Hf). exact Hf.
  - rewrite sort_by_length, <- (F2_length _ _ _ F), map_length. reflexivity.
Qed.

(* ---------- 3. getter calls keep isolation, the result joining the client's handles ---------- *)

Theorem getters_keep_isolation w K : Isolated w K ->
  (forall n h' r, lookup_user_g w n = Ok (h', r) -> Isolated (mkWorld h' (w_st w)) (handles_of r ++ K)) /\
  (forall n h' r, lookup_channel_g w n = Ok (h', r) -> Isolated (mkWorld h' (w_st w)) (handles_of r ++ K)) /\
  (forall h' l, users_g w = Ok (h', l) -> Isolated (mkWorld h' (w_st w)) (l ++ K)) /\
  (forall h' l, channels_g w = Ok (h', l) -> Isolated (mkWorld h' (w_st w)) (l ++ K)).
Proof.
  intros Iso. pose proof (iso_inv _ _ Iso) as Inv.
  assert (Nil : forall h', h' = w_heap w -> Isolated (mkWorld h' (w_st w)) ([] ++ K)) by (intros h' ->; destruct w; exact Iso).
  split; [|split; [|split]].
  - intros n h' r H. destruct r as [o'|].
    + destruct (lookup_user_disjoint _ _ _ _ Inv H) as (U & _ & _).
      unfold lookup_user_g in H. destruct n as [|b n]; [discriminate|].
      destruct (lookup_user_h w (b :: n)) as [uid|]; [|discriminate]. bind_inv H r Hr. destruct r as [h1 o1]. simpl in H. injection H as <- <-.
      apply fresh_handles_iso; [exact Iso|apply (user_copy_frame _ _ _ _ Hr)|exact U|].
      intros x Hx. unfold creach in Hx. simpl in Hx. rewrite app_nil_r in Hx. apply (user_copy_fresh _ _ _ _ Hr x Hx).
    + apply Nil. unfold lookup_user_g in H. destruct n as [|b n]; [injection H as <-; reflexivity|].
      destruct (lookup_user_h w (b :: n)); [bind_inv H r Hr; discriminate|injection H as <-; reflexivity].
  - intros n h' r H. destruct r as [o'|].
    + destruct (lookup_channel_disjoint _ _ _ _ Inv H) as (U & _ & _).
      unfold lookup_channel_g in H. destruct n as [|b n]; [discriminate|].
      destruct (lookup_channel_h w (b :: n)) as [cid|]; [|discriminate]. bind_inv H r Hr. destruct r as [h1 o1]. simpl in H. injection H as <- <-.
      apply fresh_handles_iso; [exact Iso|apply (channel_copy_frame _ _ _ _ Hr)|exact U|].
      intros x Hx. unfold creach in Hx. simpl in Hx. rewrite app_nil_r in Hx. apply (channel_copy_fresh _ _ _ _ Hr x Hx).
    + apply Nil. unfold lookup_channel_g in H. destruct n as [|b n]; [injection H as <-; reflexivity|].
      destruct (lookup_channel_h w (b :: n)); [bind_inv H r Hr; discriminate|injection H as <-; reflexivity].
  - intros h' l H. destruct (users_elementwise _ _ _ Inv H) as (U & _ & _ & Fresh & _).
    assert (L : length (w_heap w) <= length h').
    { unfold users_g in H. bind_inv H r Hr. destruct r as [hF l1]. simpl in H. injection H as <- <-.
      assert (B : bounded (w_heap w) (creach (w_heap w) (List.map snd (hs_users (w_st w))))).
      { intros x Hx. apply Inv. unfold live_objs, roots. rewrite flat_map_app. apply in_or_app. left. exact Hx. }
      apply (copy_all_users_spec _ _ _ _ B Hr). }
    apply fresh_handles_iso; [exact Iso|exact L|exact U|].
    intros x Hx. apply in_creach in Hx. destruct Hx as (o' & Ho' & Hx). apply (Fresh o' Ho' x Hx).
  - intros h' l H. destruct (channels_elementwise _ _ _ Inv H) as (U & _ & _ & Fresh & _).
    assert (L : length (w_heap w) <= length h').
    { unfold channels_g in H. bind_inv H r Hr. destruct r as [hF l1]. simpl in H. injection H as <- <-.
      assert (B : bounded (w_heap w) (creach (w_heap w) (List.map snd (hs_channels (w_st w))))).
      { intros x Hx. apply Inv. unfold live_objs, roots. rewrite flat_map_app. apply in_or_app. right. exact Hx. }
      apply (copy_all_chans_spec _ _ _ _ B Hr). }
    apply fresh_handles_iso; [exact Iso|exact L|exact U|].
    intros x Hx. apply in_creach in Hx. destruct Hx as (o' & Ho' & Hx). apply (Fresh o' Ho' x Hx).
Qed.

(* ---------- 4. writes through snapshots never reach the tracked state ---------- *)

Lemma live_values_agree h h' s : (forall x, In x (live_objs h s) -> hget h' x = hget h x) ->
  live_users_value (mkWorld h' s) = live_users_value (mkWorld h s) /\
  live_channels_value (mkWorld h' s) = live_channels_value (mkWorld h s).
Proof.
  intros A. unfold live_users_value, live_channels_value. simpl. split.
  - apply map_ext_in. intros [k uid] Hin. simpl. f_equal. apply user_value_agree.
    intros x Hx. apply A. eapply in_users_live; eauto.
  - apply map_ext_in. intros [k cid] Hin. simpl. f_equal. apply chan_value_agree.
    intros x Hx. apply A. eapply in_chans_live; eauto.
Qed.

Theorem snapshot_writes_frame w K h' K' : Isolated w K -> client_steps (w_heap w) K h' K' ->
  let w' := mkWorld h' (w_st w) in
  Isolated w' K' /\
  live_users_value w' = live_users_value w /\ live_channels_value w' = live_channels_value w /\
  same_getters w w'.
Proof.
  intros Iso H. destruct (client_steps_iso _ _ _ _ Iso H) as (Iso' & L & U). simpl.
  split; [exact Iso'|]. destruct w as [h s]. simpl in *.
  destruct (live_values_agree h h' s U) as (E1 & E2). split; [exact E1|]. split; [exact E2|].
  apply same_getters_of_agree; [apply (iso_inv _ _ Iso)|exact U].
Qed.

(* ---------- 5. later server events never change an object already handed out ---------- *)

Theorem live_writes_frame g cfg l w K w' : Isolated w K -> run_h g cfg w l = Ok w' ->
  Isolated w' K /\
  (forall o, In o K -> user_value (w_heap w') o = user_value (w_heap w) o /\
                       chan_value (w_heap w') o = chan_value (w_heap w) o) /\
  (forall x, In x (creach (w_heap w) K) -> hget (w_heap w') x = hget (w_heap w) x).
Proof.
  intros Iso H. destruct (live_run_iso _ _ _ _ _ _ Iso H) as (Iso' & L & U).
  split; [exact Iso'|]. split; [|exact U].
  intros o Ho. split; [apply user_value_agree|apply chan_value_agree];
    intros x Hx; apply U; apply in_creach; exists o; split; assumption.
Qed.

(* ---------- 6. isolation is an invariant of every interleaving ---------- *)

Inductive step (g : grow_policy) (cfg : config) : world * list nat -> world * list nat -> Prop :=
| st_event w K e w' : handle_h g cfg w e = Ok w' -> step g cfg (w, K) (w', K)
| st_client w K h' K' : client_step (w_heap w) K h' K' -> step g cfg (w, K) (mkWorld h' (w_st w), K')
| st_lookup_user w K n h' r : lookup_user_g w n = Ok (h', r) -> step g cfg (w, K) (mkWorld h' (w_st w), handles_of r ++ K)
| st_lookup_channel w K n h' r : lookup_channel_g w n = Ok (h', r) -> step g cfg (w, K) (mkWorld h' (w_st w), handles_of r ++ K)
| st_users w K h' l : users_g w = Ok (h', l) -> step g cfg (w, K) (mkWorld h' (w_st w), l ++ K)
| st_channels w K h' l : channels_g w = Ok (h', l) -> step g cfg (w, K) (mkWorld h' (w_st w), l ++ K).

Inductive steps (g : grow_policy) (cfg : config) : world * list nat -> world * list nat -> Prop :=
| steps_nil x : steps g cfg x x
| steps_cons x y z : step g cfg x y -> steps g cfg y z -> steps g cfg x z.

Lemma isolated_init : Isolated world_init [].
Proof. constructor; intros x Hx; contradiction. Qed.

Lemma step_isolated g cfg x y : step g cfg x y -> Isolated (fst x) (snd x) -> Isolated (fst y) (snd y).
Proof.
  intros S Iso. destruct S as [w K e w' H|w K h' K' H|w K n h' r H|w K n h' r H|w K h' l H|w K h' l H]; simpl in *.
  - assert (R : run_h g cfg w [e] = Ok w') by (simpl; rewrite H; reflexivity).
    apply (live_run_iso _ _ _ _ _ _ Iso R).
  - apply (client_step_iso _ _ _ _ Iso H).
  - apply (proj1 (getters_keep_isolation _ _ Iso) _ _ _ H).
  - apply (proj1 (proj2 (getters_keep_isolation _ _ Iso)) _ _ _ H).
  - apply (proj1 (proj2 (proj2 (getters_keep_isolation _ _ Iso))) _ _ H).
  - apply (proj2 (proj2 (proj2 (getters_keep_isolation _ _ Iso))) _ _ H).
Qed.

Theorem isolation_invariant g cfg x y : steps g cfg x y -> Isolated (fst x) (snd x) -> Isolated (fst y) (snd y).
Proof. induction 1 as [|x y z S _ IH]; intros Iso; [exact Iso|]. apply IH. eapply step_isolated; eauto. Qed.

Corollary reachable_isolated g cfg w K : steps g cfg (world_init, []) (w, K) -> Isolated w K.
Proof. intros H. apply (isolation_invariant _ _ _ _ H). exact isolated_init. Qed.

(* HeapInv is kept by the live mutators *)
Corollary heap_inv_preserved g cfg l w w' : HeapInv w -> run_h g cfg w l = Ok w' -> HeapInv w'.
Proof.
  intros Inv H. assert (Iso : Isolated w []) by (constructor; [exact Inv|intros x Hx; contradiction|intros x Hx; contradiction]).
  apply (iso_inv _ _ (proj1 (live_run_iso _ _ _ _ _ _ Iso H))).
Qed.

(* ---------- 7. the member getters AFTER the proposed fix (one Copy per element) ---------- *)

Lemma in_filter_some {A B} (f : A -> option B) l x : In x (filter_some (List.map f l)) -> exists a, In a l /\ f a = Some x.
Proof.
  induction l as [|a l IH]; simpl; [contradiction|]. destruct (f a) as [b|] eqn:E.
  - intros [<-|H]; [exists a; auto|]. destruct (IH H) as (a' & Ha & Hf). exists a'. auto.
  - intros H. destruct (IH H) as (a' & Ha & Hf). exists a'. auto.
Qed.

Lemma copied_handles_iso {V} (val : heap -> nat -> option V) w K l0 h' l :
  Isolated w K -> (forall x, In x l0 -> In x (roots (w_st w))) ->
  length (w_heap w) <= length h' -> (forall x, x < length (w_heap w) -> hget h' x = hget (w_heap w) x) ->
  Forall2 (fun o o' => val h' o' = val (w_heap w) o /\ forall x, In x (reach h' o') -> length (w_heap w) <= x < length h') l0 l ->
  Isolated (mkWorld h' (w_st w)) (l ++ K).
Proof.
  intros Iso _ L U F. apply fresh_handles_iso; [exact Iso|exact L|exact U|].
  intros x Hx. apply in_creach in Hx. destruct Hx as (o' & Ho' & Hx).
  destruct (Forall2_in_r _ _ _ _ F Ho') as (o & _ & _ & Hf). apply (Hf x Hx).
Qed.

Theorem member_getters_copied_isolated w K :
  Isolated w K ->
  (forall u h' l, user_channels_copied_g w u = Ok (h', l) -> Isolated (mkWorld h' (w_st w)) (l ++ K)) /\
  (forall c h' l, channel_users_copied_g w c = Ok (h', l) -> Isolated (mkWorld h' (w_st w)) (l ++ K)).
Proof.
  intros Iso. pose proof (iso_inv _ _ Iso) as Inv. split.
  - intros u h' l H. unfold user_channels_copied_g in H. bind_inv H hu Hu. bind_inv H names Hn.
    set (l0 := filter_some (List.map (lookup_channel_h w) names)) in *.
    assert (R0 : forall x, In x l0 -> In x (roots (w_st w))).
    { intros x Hx. destruct (in_filter_some _ _ _ Hx) as (a & _ & Ha). unfold lookup_channel_h in Ha. eapply in_roots_chan; eauto. }
    assert (B : bounded (w_heap w) (creach (w_heap w) l0)).
    { intros x Hx. apply Inv. rewrite live_objs_creach. apply in_creach in Hx. destruct Hx as (r & Hr & Hx).
      apply in_creach. exists r. split; [apply R0; exact Hr|exact Hx]. }
    destruct (copy_all_chans_spec _ _ _ _ B H) as (L & U & F).
    eapply copied_handles_iso; eauto.
  - intros c h' l H. unfold channel_users_copied_g in H. bind_inv H hc Hc. bind_inv H names Hn.
    set (l0 := filter_some (List.map (lookup_user_h w) names)) in *.
    assert (R0 : forall x, In x l0 -> In x (roots (w_st w))).
    { intros x Hx. destruct (in_filter_some _ _ _ Hx) as (a & _ & Ha). unfold lookup_user_h in Ha. eapply in_roots_user; eauto. }
    assert (B : bounded (w_heap w) (creach (w_heap w) l0)).
    { intros x Hx. apply Inv. rewrite live_objs_creach. apply in_creach in Hx. destruct Hx as (r & Hr & Hx).
      apply in_creach. exists r. split; [apply R0; exact Hr|exact Hx]. }
    destruct (copy_all_users_spec _ _ _ _ B H) as (L & U & F).
    eapply copied_handles_iso; eauto.
Qed.

Lemma filter_users_by_incl h test ch : forall l r, filter_users_by h test ch l = Ok r -> incl r l.
Proof.
  induction l as [|uid l IH]; intros r H; simpl in H; [injection H as <-; apply incl_refl|].
  bind_inv H u Hu. destruct (hu_perms u) as [p|]; [|discriminate]. bind_inv H m Hm. bind_inv H rest Hr. injection H as <-.
  specialize (IH rest eq_refl). destruct (alookup (fold ch) m) as [pv|]; [destruct (test pv)|];
    intros x Hx; [destruct Hx as [->|Hx]; [left; reflexivity|right; apply IH; exact Hx]|right; apply IH; exact Hx..].
Qed.

Theorem filtered_getters_copied_isolated w K test c h' l :
  Isolated w K -> channel_filtered_copied_g test w c = Ok (h', l) -> Isolated (mkWorld h' (w_st w)) (l ++ K).
Proof.
  intros Iso H. pose proof (iso_inv _ _ Iso) as Inv. unfold channel_filtered_copied_g in H. bind_inv H l0 H0.
  unfold channel_filtered_g in H0. bind_inv H0 hc Hc. bind_inv H0 names Hn.
  assert (R0 : forall x, In x l0 -> In x (roots (w_st w))).
  { intros x Hx. apply (filter_users_by_incl _ _ _ _ _ H0) in Hx.
    destruct (in_filter_some _ _ _ Hx) as (a & _ & Ha). unfold lookup_user_h in Ha. eapply in_roots_user; eauto. }
  assert (B : bounded (w_heap w) (creach (w_heap w) l0)).
  { intros x Hx. apply Inv. rewrite live_objs_creach. apply in_creach in Hx. destruct Hx as (r & Hr & Hx).
    apply in_creach. exists r. split; [apply R0; exact Hr|exact Hx]. }
  destruct (copy_all_users_spec _ _ _ _ B H) as (L & U & F).
  eapply copied_handles_iso; eauto.
Qed.

(* ---------- 8. the RESULT SLICE of Users() / Channels() ----------
   It is a new object (it did not exist before the call, so nothing that was reachable
   before can reach it), it holds exactly the copies, and isolation is kept with the slice
   and its elements added to what the client holds. *)

Lemma listing_iso {V} (val : heap -> nat -> option V) (tracked : amap nat) w K hF l :
  Isolated w K -> length (w_heap w) <= length hF -> elementwise val tracked (w_heap w) hF (w_st w) l ->
  Isolated (mkWorld (hF ++ [CPtrs (List.map Some l)]) (w_st w)) ((length hF :: l) ++ K).
Proof.
  intros Iso L (U & _ & _ & Fresh & _).
  set (h' := hF ++ [CPtrs (List.map Some l)]).
  assert (Lh : length h' = S (length hF)) by (unfold h'; rewrite app_length; simpl; lia).
  apply fresh_handles_iso; [exact Iso|lia| |].
  - intros x Lx. unfold h'. rewrite hget_app_old by lia. apply U. exact Lx.
  - intros x Hx. apply in_creach in Hx. destruct Hx as (r & [<-|Hr] & Hx).
    + apply reach_inv in Hx. destruct Hx as [->|(c & Hc & Hx)]; [lia|].
      unfold h' in Hc. rewrite hget_app_new in Hc. injection Hc as <-. cbn [ptrs] in Hx.
      apply in_flat_map in Hx. destruct Hx as (y & Hy & Hx). apply in_map_iff in Hy. destruct Hy as (o' & <- & Ho').
      destruct Hx as [<-|[]]. pose proof (Fresh o' Ho' o' (reach_self _ _)). lia.
    + assert (Lr : r < length hF) by (pose proof (Fresh r Hr r (reach_self _ _)); lia).
      assert (E : reach h' r = reach hF r) by (apply reach_same_cell; unfold h'; apply hget_app_old; exact Lr).
      rewrite E in Hx. pose proof (Fresh r Hr x Hx). lia.
Qed.

Theorem users_listing_fresh w K h' L l : Isolated w K -> users_listing_g w = Ok (h', L, l) ->
  exists hF, users_g w = Ok (hF, l) /\ h' = hF ++ [CPtrs (List.map Some l)] /\ L = length hF /\
             length (w_heap w) <= L /\ Isolated (mkWorld h' (w_st w)) ((L :: l) ++ K).
Proof.
  intros Iso H. unfold users_listing_g in H. bind_inv H r Hr. destruct r as [hF l0]. unfold halloc in H. simpl in H. injection H as <- <- <-.
  pose proof (users_elementwise _ _ _ (iso_inv _ _ Iso) Hr) as E.
  assert (Len : length (w_heap w) <= length hF).
  { unfold users_g in Hr. bind_inv Hr r0 Hr0. destruct r0 as [hF0 l1]. simpl in Hr. injection Hr as <- <-.
    assert (B : bounded (w_heap w) (creach (w_heap w) (List.map snd (hs_users (w_st w))))).
    { intros x Hx. apply (iso_inv _ _ Iso). unfold live_objs, roots. rewrite flat_map_app. apply in_or_app. left. exact Hx. }
    apply (copy_all_users_spec _ _ _ _ B Hr0). }
  exists hF. split; [reflexivity|]. split; [reflexivity|]. split; [reflexivity|]. split; [exact Len|]. eapply listing_iso; eauto.
Qed.

Theorem channels_listing_fresh w K h' L l : Isolated w K -> channels_listing_g w = Ok (h', L, l) ->
  exists hF, channels_g w = Ok (hF, l) /\ h' = hF ++ [CPtrs (List.map Some l)] /\ L = length hF /\
             length (w_heap w) <= L /\ Isolated (mkWorld h' (w_st w)) ((L :: l) ++ K).
Proof.
  intros Iso H. unfold channels_listing_g in H. bind_inv H r Hr. destruct r as [hF l0]. unfold halloc in H. simpl in H. injection H as <- <- <-.
  pose proof (channels_elementwise _ _ _ (iso_inv _ _ Iso) Hr) as E.
  assert (Len : length (w_heap w) <= length hF).
  { unfold channels_g in Hr. bind_inv Hr r0 Hr0. destruct r0 as [hF0 l1]. simpl in Hr. injection Hr as <- <-.
    assert (B : bounded (w_heap w) (creach (w_heap w) (List.map snd (hs_channels (w_st w))))).
    { intros x Hx. apply (iso_inv _ _ Iso). unfold live_objs, roots. rewrite flat_map_app. apply in_or_app. right. exact Hx. }
    apply (copy_all_chans_spec _ _ _ _ B Hr0). }
  exists hF. split; [reflexivity|]. split; [reflexivity|]. split; [reflexivity|]. split; [exact Len|]. eapply listing_iso; eauto.
Qed.
