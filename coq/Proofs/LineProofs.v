(* The scanner on a structured line.  A line assembled as
     ['@' tags SPACE] [':' source SPACE] command middles [trailing] [eol]
   from pieces that satisfy only what the scanner needs (scanner-level conditions, weaker
   than the grammar and than the C01 well-formedness) parses to exactly those pieces.
   C02_grammar and C01_encode_parse are both instances. *)
From Coq Require Import Lia ZifyBool ZifyN ZifyNat.
Require Import Bytes Utf8 AMap WireOut GoUpper Tags Event Grammar.
Require Import OrderLemmas AMapLemmas CodecLemmas ParseNF.

Arguments N.eqb : simpl never.
Arguments N.leb : simpl never.
Arguments N.ltb : simpl never.

(* ---- bytes --------------------------------------------------------------------------- *)

Lemma index_byte_app c a b : ~ In c a -> index_byte c (a ++ c :: b) = Some (length a).
Proof. intros H. rewrite index_byte_cut, cut_app by exact H. reflexivity. Qed.

Lemma index_byte_none c s : ~ In c s -> index_byte c s = None.
Proof. intros H. rewrite index_byte_cut, cut_notin by exact H. reflexivity. Qed.

Lemma notin_app {A} (x : A) a b : ~ In x a -> ~ In x b -> ~ In x (a ++ b).
Proof. intros Ha Hb Hin. apply in_app_or in Hin. tauto. Qed.

Lemma notin_cons {A} (x y : A) l : x <> y -> ~ In x l -> ~ In x (y :: l).
Proof. intros Hne Hl [H|H]; [congruence|tauto]. Qed.

Lemma forallb_notin' (f : N -> bool) c s : f c = false -> forallb f s = true -> ~ In c s.
Proof. apply forallb_notin. Qed.

(* ---- CR/LF trimming ------------------------------------------------------------------ *)

Definition clean (b : N) : bool := negb (is_crlf b).

Lemma trim_left_all a b : forallb is_crlf a = true -> trim_left_crlf (a ++ b) = trim_left_crlf b.
Proof.
  induction a as [|x a IH]; intros H; [reflexivity|].
  cbn [forallb] in H. apply Bool.andb_true_iff in H. destruct H as [Hx Ha].
  cbn [app trim_left_crlf]. rewrite Hx. apply IH. exact Ha.
Qed.

Lemma trim_left_clean s : forallb clean s = true -> trim_left_crlf s = s.
Proof.
  destruct s as [|x r]; intros H; [reflexivity|].
  cbn [forallb] in H. apply Bool.andb_true_iff in H. destruct H as [Hx _].
  unfold clean in Hx. cbn [trim_left_crlf]. destruct (is_crlf x); [discriminate|reflexivity].
Qed.

Lemma forallb_rev {A} (f : A -> bool) l : forallb f (rev l) = forallb f l.
Proof.
  induction l as [|x l IH]; [reflexivity|].
  cbn [rev forallb]. rewrite forallb_app, IH. cbn [forallb]. rewrite Bool.andb_true_r. apply Bool.andb_comm.
Qed.

Lemma trim_left_nil_r a : forallb is_crlf a = true -> trim_left_crlf a = [].
Proof. intros H. rewrite <- (app_nil_r a). rewrite trim_left_all by exact H. reflexivity. Qed.

Lemma trim_crlf_clean body eol :
  forallb clean body = true -> forallb is_crlf eol = true -> trim_crlf (body ++ eol) = body.
Proof.
  intros Hb He. unfold trim_crlf, rev'. rewrite <- !rev_alt.
  assert (H1 : trim_left_crlf (body ++ eol) = match body with [] => [] | _ => body ++ eol end).
  { destruct body as [|x r]; [apply trim_left_nil_r; exact He|].
    cbn [forallb] in Hb. apply Bool.andb_true_iff in Hb. destruct Hb as [Hx _].
    unfold clean in Hx. cbn [app trim_left_crlf]. destruct (is_crlf x); [discriminate|reflexivity]. }
  rewrite H1. destruct body as [|x r]; [reflexivity|].
  rewrite rev_app_distr. rewrite trim_left_all by (rewrite forallb_rev; exact He).
  rewrite trim_left_clean by (rewrite forallb_rev; exact Hb). apply rev_involutive.
Qed.

(* ---- SPACE splitting ------------------------------------------------------------------ *)

Lemma split_byte_notin c s : ~ In c s -> split_byte c s = [s].
Proof.
  induction s as [|x r IH]; intros H; [reflexivity|].
  cbn [split_byte]. destruct (x =? c) eqn:E; [apply N.eqb_eq in E; subst; exfalso; apply H; left; reflexivity|].
  rewrite IH; [reflexivity|intros Hin; apply H; right; exact Hin].
Qed.

Lemma split_byte_app c a b : ~ In c a -> split_byte c (a ++ c :: b) = a :: split_byte c b.
Proof.
  induction a as [|x a IH]; intros H.
  - cbn [app split_byte]. rewrite N.eqb_refl. reflexivity.
  - cbn [app split_byte]. destruct (x =? c) eqn:E; [apply N.eqb_eq in E; subst; exfalso; apply H; left; reflexivity|].
    rewrite IH; [reflexivity|intros Hin; apply H; right; exact Hin].
Qed.

Lemma split_params_space s : split_params (32 :: s) = split_params s.
Proof. unfold split_params. cbn [split_byte]. rewrite N.eqb_refl. reflexivity. Qed.

Lemma split_params_spaces n s : split_params (spaces n ++ s) = split_params s.
Proof. induction n as [|n IH]; [reflexivity|]. cbn [spaces repeat app]. rewrite split_params_space. exact IH. Qed.

Lemma split_params_nil : split_params [] = [].
Proof. reflexivity. Qed.

Lemma split_params_token m rest :
  ~ In 32 m -> m <> [] -> (rest = [] \/ exists r', rest = 32 :: r') ->
  split_params (m ++ rest) = m :: split_params rest.
Proof.
  intros Hm Hne [->|[r' ->]].
  - rewrite app_nil_r. unfold split_params. rewrite split_byte_notin by exact Hm.
    destruct m; [congruence|reflexivity].
  - unfold split_params. rewrite split_byte_app by exact Hm.
    cbn [filter]. destruct m; [congruence|].
    cbn [split_byte]. rewrite N.eqb_refl. reflexivity.
Qed.

(* ---- find_sp_colon over concatenations -------------------------------------------------- *)

Lemma fsc_app prev x y :
  find_sp_colon prev (x ++ y) =
    match find_sp_colon prev x with
    | Some i => Some i
    | None => option_map (Nat.add (length x)) (find_sp_colon (last x prev) y)
    end.
Proof.
  revert prev. induction x as [|b r IH]; intros prev.
  - cbn [app find_sp_colon length last]. destruct (find_sp_colon prev y); reflexivity.
  - cbn [app find_sp_colon]. destruct ((b =? 58) && (prev =? 32)); [reflexivity|].
    rewrite IH. destruct (find_sp_colon b r); [reflexivity|].
    assert (HL : last (b :: r) prev = last r b) by (clear; revert b; induction r as [|c r IH]; intros b; [reflexivity|]; cbn [last] in *; destruct r; [reflexivity|apply IH]).
    rewrite HL. destruct (find_sp_colon (last r b) y); reflexivity.
Qed.

Lemma fsc_no_colon prev s : ~ In 58 s -> find_sp_colon prev s = None.
Proof.
  revert prev. induction s as [|b r IH]; intros prev H; [reflexivity|].
  cbn [find_sp_colon]. destruct (b =? 58) eqn:E; [apply N.eqb_eq in E; subst; exfalso; apply H; left; reflexivity|].
  cbn [andb]. rewrite IH; [reflexivity|intros Hin; apply H; right; exact Hin].
Qed.

(* inside a SPACE-free token no ':' is preceded by SPACE, except possibly the first byte *)
Lemma fsc_token prev m :
  ~ In 32 m -> (match m with c :: _ => c <> 58 | [] => True end) -> find_sp_colon prev m = None.
Proof.
  intros Hm Hfirst. destruct m as [|c r]; [reflexivity|].
  cbn [find_sp_colon]. destruct (c =? 58) eqn:E; [apply N.eqb_eq in E; congruence|]. cbn [andb].
  assert (Hc : c <> 32) by (intros ->; apply Hm; left; reflexivity).
  assert (Hr : ~ In 32 r) by (intros Hin; apply Hm; right; exact Hin).
  clear Hm Hfirst E. revert c Hc. induction r as [|d r IH]; intros c Hc; [reflexivity|].
  cbn [find_sp_colon]. assert (E32 : (c =? 32) = false) by (apply N.eqb_neq; exact Hc).
  rewrite E32, Bool.andb_false_r.
  rewrite IH; [reflexivity|intros Hin; apply Hr; right; exact Hin|intros ->; apply Hr; left; reflexivity].
Qed.

Lemma last_spaces n prev : last (spaces (S n)) prev = 32.
Proof. induction n as [|n IH]; [reflexivity|]. change (spaces (S (S n))) with (32 :: spaces (S n)). cbn [last]. exact IH. Qed.

Lemma spaces_no_colon n : ~ In 58 (spaces n).
Proof. intros H. apply repeat_spec in H. discriminate. Qed.

Lemma spaces_S_r n : spaces (S n) = spaces n ++ [32].
Proof. unfold spaces. cbn [repeat]. apply repeat_cons. Qed.

Definition middle_ok (m : str) : bool :=
  match m with [] => false | c :: _ => negb (c =? 58) && negb (memb 32 m) end.

Lemma middle_ok_spec m : middle_ok m = true ->
  m <> [] /\ ~ In 32 m /\ match m with c :: _ => c <> 58 | [] => True end.
Proof.
  destruct m as [|c r]; [discriminate|]. unfold middle_ok. intros H.
  apply Bool.andb_true_iff in H. destruct H as [H1 H2].
  apply Bool.negb_true_iff in H1, H2. apply N.eqb_neq in H1. apply memb_false in H2.
  split; [discriminate|]. split; assumption.
Qed.

(* the text of middles (each preceded by one or more SPACEs) followed by SPACEs contains
   no ':' preceded by SPACE, and splits into exactly the middles *)
Lemma fsc_middles ms n : forallb (fun nm => middle_ok (snd nm)) ms = true ->
  forall prev, find_sp_colon prev (render_middles ms ++ spaces n) = None.
Proof.
  induction ms as [|[k m] ms IH]; intros H prev.
  - cbn [render_middles flat_map app]. apply fsc_no_colon, spaces_no_colon.
  - cbn [forallb snd] in H. apply Bool.andb_true_iff in H. destruct H as [Hm Hms].
    destruct (middle_ok_spec _ Hm) as (Hne & H32 & Hfirst).
    cbn [render_middles flat_map fst snd]. rewrite <- !app_assoc.
    rewrite fsc_app, (fsc_no_colon _ _ (spaces_no_colon _)), last_spaces.
    rewrite fsc_app, (fsc_token _ _ H32 Hfirst).
    change (flat_map (fun nm : nat * str => spaces (S (fst nm)) ++ snd nm) ms) with (render_middles ms).
    rewrite (IH Hms). reflexivity.
Qed.

Lemma render_middles_shape ms n :
  render_middles ms ++ spaces n = [] \/ exists r, render_middles ms ++ spaces n = 32 :: r.
Proof.
  destruct ms as [|[k m] ms].
  - destruct n; [left; reflexivity|right; eexists; reflexivity].
  - right. cbn [render_middles flat_map fst snd]. eexists. reflexivity.
Qed.

Lemma split_params_middles ms n : forallb (fun nm => middle_ok (snd nm)) ms = true ->
  split_params (render_middles ms ++ spaces n) = List.map snd ms.
Proof.
  induction ms as [|[k m] ms IH]; intros H.
  - cbn [render_middles flat_map app map]. rewrite <- (app_nil_r (spaces n)), split_params_spaces. reflexivity.
  - cbn [forallb snd] in H. apply Bool.andb_true_iff in H. destruct H as [Hm Hms].
    destruct (middle_ok_spec _ Hm) as (Hne & H32 & Hfirst).
    cbn [render_middles flat_map fst snd map]. rewrite <- !app_assoc.
    rewrite split_params_spaces.
    change (flat_map (fun nm : nat * str => spaces (S (fst nm)) ++ snd nm) ms) with (render_middles ms).
    rewrite split_params_token by (try assumption; apply render_middles_shape).
    f_equal. exact (IH Hms).
Qed.

(* ---- command and parameters of a structured line ---------------------------------------- *)

Definition rest_part (cmd : str) (ms : list (nat * str)) (tr : option (nat * str)) (tail : nat) : str :=
  cmd ++ render_middles ms ++ render_trailing tr tail.

Definition params_of (ms : list (nat * str)) (tr : option (nat * str)) : list str :=
  List.map snd ms ++ match tr with Some (_, t) => [t] | None => [] end.

Lemma fsc_space prev r : find_sp_colon prev (32 :: r) = option_map S (find_sp_colon 32 r).
Proof. reflexivity. Qed.

Lemma rest_nf_line tags src cmd ms tr tail :
  ~ In 32 cmd -> forallb (fun nm => middle_ok (snd nm)) ms = true ->
  rest_nf tags src (rest_part cmd ms tr tail) = mkWEvent tags src (go_to_upper cmd) (params_of ms tr).
Proof.
  intros Hcmd Hms. unfold rest_part, params_of, rest_nf.
  destruct tr as [[n t]|]; cbn [render_trailing].
  - (* with trailing *)
    replace (cmd ++ render_middles ms ++ spaces (S n) ++ 58 :: t)
      with (cmd ++ (render_middles ms ++ spaces n) ++ 32 :: 58 :: t)
      by (rewrite spaces_S_r, <- !app_assoc; reflexivity).
    pose proof (split_params_middles ms n Hms) as HS.
    pose proof (fsc_middles ms (S n) Hms 32) as HF. rewrite spaces_S_r, app_assoc in HF.
    destruct (render_middles_shape ms n) as [HQ|[Q' HQ]]; rewrite HQ in *.
    + cbn [app]. rewrite cut_app by exact Hcmd. cbn [find_sp_colon]. rewrite !N.eqb_refl. cbn [andb].
      cbn [Nat.ltb Nat.leb skipn]. rewrite <- HS. reflexivity.
    + cbn [app]. rewrite cut_app by exact Hcmd.
      cbn [app] in HF. rewrite fsc_space in HF.
      assert (HF' : find_sp_colon 32 (Q' ++ [32]) = None) by (destruct (find_sp_colon 32 (Q' ++ [32])); [discriminate|reflexivity]).
      replace (Q' ++ 32 :: 58 :: t) with ((Q' ++ [32]) ++ 58 :: t) by (rewrite <- app_assoc; reflexivity).
      rewrite fsc_app, HF', last_last. cbn [find_sp_colon]. rewrite !N.eqb_refl. cbn [andb option_map].
      rewrite Nat.add_0_r.
      assert (HL : length (Q' ++ [32]) = S (length Q')) by (rewrite app_length; simpl; lia).
      assert (HK : skipn (S (length (Q' ++ [32]))) ((Q' ++ [32]) ++ 58 :: t) = t) by apply skipn_S_app_len.
      assert (HJ : firstn (length (Q' ++ [32]) - 1) ((Q' ++ [32]) ++ 58 :: t) = Q').
      { rewrite HL. replace (S (length Q') - 1)%nat with (length Q') by lia.
        rewrite <- app_assoc. apply firstn_app_len. }
      rewrite HK, HJ.
      destruct (Nat.ltb 0 (length (Q' ++ [32]))) eqn:E0; [|lia].
      rewrite split_params_space in HS. rewrite HS. reflexivity.
  - (* no trailing *)
    pose proof (split_params_middles ms tail Hms) as HS.
    pose proof (fsc_middles ms tail Hms 32) as HF.
    destruct (render_middles_shape ms tail) as [HQ|[Q' HQ]]; rewrite HQ in *.
    + rewrite app_nil_r. rewrite cut_notin by exact Hcmd. rewrite <- HS. reflexivity.
    + rewrite cut_app by exact Hcmd. rewrite fsc_space in HF.
      destruct (find_sp_colon 32 Q'); [discriminate|].
      rewrite split_params_space in HS. rewrite HS, app_nil_r. reflexivity.
Qed.

(* ---- the source -------------------------------------------------------------------------- *)

Lemma slice_app_mid' a b c i j : i = length a -> j = (length a + length b)%nat ->
  slice (a ++ b ++ c) i j = Ok b.
Proof. intros -> ->. apply slice_app_mid. Qed.

Lemma slice_from_app' a b i : i = length a -> slice_from (a ++ b) i = Ok b.
Proof. intros ->. apply slice_from_app. Qed.

Lemma slice_to_app' a b i : i = length a -> slice_to (a ++ b) i = Ok a.
Proof. intros ->. apply slice_to_app. Qed.

Lemma wparse_source_full n u h : n <> [] -> ~ In 33 n -> ~ In 64 n -> ~ In 64 u ->
  wparse_source (n ++ 33 :: u ++ 64 :: h) = Ok (mkWSource n u h).
Proof.
  intros Hne H33 H64 Hu. unfold wparse_source.
  rewrite (index_byte_app 33 n) by exact H33.
  replace (n ++ 33 :: u ++ 64 :: h) with ((n ++ 33 :: u) ++ 64 :: h) by (rewrite <- app_assoc; reflexivity).
  rewrite (index_byte_app 64 (n ++ 33 :: u)) by (apply notin_app; [exact H64|apply notin_cons; [discriminate|exact Hu]]).
  destruct n as [|c n']; [congruence|]. cbn [length].
  assert (HL : length ((c :: n') ++ 33 :: u) = (S (length n') + S (length u))%nat) by (rewrite app_length; reflexivity).
  rewrite HL. destruct (Nat.ltb (S (length n')) (S (length n') + S (length u))) eqn:EL; [|lia].
  rewrite <- app_assoc.
  rewrite (slice_to_app' (c :: n')) by reflexivity. cbn [rbind].
  replace ((c :: n') ++ (33 :: u) ++ 64 :: h) with (((c :: n') ++ [33]) ++ u ++ 64 :: h) by (rewrite <- app_assoc; reflexivity).
  rewrite (slice_app_mid' ((c :: n') ++ [33]) u) by (rewrite app_length; simpl; lia). cbn [rbind].
  replace (((c :: n') ++ [33]) ++ u ++ 64 :: h) with ((((c :: n') ++ [33]) ++ u ++ [64]) ++ h)
    by (rewrite <- !app_assoc; reflexivity).
  rewrite slice_from_app' by (rewrite !app_length; simpl; lia). reflexivity.
Qed.

Lemma wparse_source_user n u : n <> [] -> ~ In 33 n -> ~ In 64 n -> ~ In 64 u ->
  wparse_source (n ++ 33 :: u) = Ok (mkWSource n u []).
Proof.
  intros Hne H33 H64 Hu. unfold wparse_source.
  rewrite (index_byte_app 33 n) by exact H33.
  rewrite (index_byte_none 64) by (apply notin_app; [exact H64|apply notin_cons; [discriminate|exact Hu]]).
  destruct n as [|c n']; [congruence|]. cbn [length].
  rewrite (slice_to_app' (c :: n')) by reflexivity. cbn [rbind].
  replace ((c :: n') ++ 33 :: u) with (((c :: n') ++ [33]) ++ u) by (rewrite <- app_assoc; reflexivity).
  rewrite slice_from_app' by (rewrite app_length; simpl; lia). reflexivity.
Qed.

Lemma wparse_source_host n h : n <> [] -> ~ In 33 n -> ~ In 64 n -> ~ In 33 h ->
  wparse_source (n ++ 64 :: h) = Ok (mkWSource n [] h).
Proof.
  intros Hne H33 H64 Hh. unfold wparse_source.
  rewrite (index_byte_none 33) by (apply notin_app; [exact H33|apply notin_cons; [discriminate|exact Hh]]).
  rewrite (index_byte_app 64 n) by exact H64.
  destruct n as [|c n']; [congruence|]. cbn [length].
  rewrite (slice_to_app' (c :: n')) by reflexivity. cbn [rbind].
  replace ((c :: n') ++ 64 :: h) with (((c :: n') ++ [64]) ++ h) by (rewrite <- app_assoc; reflexivity).
  rewrite slice_from_app' by (rewrite app_length; simpl; lia). reflexivity.
Qed.

Lemma wparse_source_name n : ~ In 33 n -> ~ In 64 n -> wparse_source n = Ok (mkWSource n [] []).
Proof.
  intros H33 H64. unfold wparse_source.
  rewrite (index_byte_none 33), (index_byte_none 64) by assumption. reflexivity.
Qed.

Definition sname_byte (b : N) : bool := negb (b =? 32) && negb (b =? 33) && negb (b =? 64).
Definition suser_byte (b : N) : bool := negb (b =? 32) && negb (b =? 64).

Definition src_ok (s : str * option str * option str) : bool :=
  let '(n, u, h) := s in
  nonempty n && forallb sname_byte n
  && (match u with Some u => nonempty u && forallb suser_byte u | None => true end)
  && (match h with Some h => nonempty h && forallb sname_byte h | None => true end).

Definition src_text (s : str * option str * option str) : str :=
  let '(n, u, h) := s in
  n ++ (match u with Some u => 33 :: u | None => [] end)
    ++ (match h with Some h => 64 :: h | None => [] end).

Lemma nonempty_ne s : nonempty s = true -> s <> [].
Proof. destruct s; [discriminate|discriminate]. Qed.

Lemma source_of_text s : src_ok s = true -> source_of (src_text s) = meaning_src s.
Proof.
  destruct s as [[n u] h]. unfold src_ok, src_text, source_of, meaning_src. intros H.
  repeat (apply Bool.andb_true_iff in H; destruct H as [H ?]).
  pose proof (nonempty_ne _ H) as Hne.
  assert (Hn33 : ~ In 33 n) by (eapply forallb_notin; [|eassumption]; reflexivity).
  assert (Hn64 : ~ In 64 n) by (eapply forallb_notin; [|eassumption]; reflexivity).
  destruct u as [u|]; destruct h as [h|].
  - match goal with Hu : (nonempty u && _)%bool = true |- _ => apply Bool.andb_true_iff in Hu; destruct Hu as [_ Hu] end.
    assert (Hu64 : ~ In 64 u) by (eapply forallb_notin; [|eassumption]; reflexivity).
    cbn [app]. rewrite wparse_source_full by assumption. reflexivity.
  - match goal with Hu : (nonempty u && _)%bool = true |- _ => apply Bool.andb_true_iff in Hu; destruct Hu as [_ Hu] end.
    assert (Hu64 : ~ In 64 u) by (eapply forallb_notin; [|eassumption]; reflexivity).
    rewrite app_nil_r. cbn [app]. rewrite wparse_source_user by assumption. reflexivity.
  - match goal with Hh : (nonempty h && _)%bool = true |- _ => apply Bool.andb_true_iff in Hh; destruct Hh as [_ Hh] end.
    assert (Hh33 : ~ In 33 h) by (eapply forallb_notin; [|eassumption]; reflexivity).
    cbn [app]. rewrite wparse_source_host by assumption. reflexivity.
  - rewrite !app_nil_r. rewrite wparse_source_name by assumption. reflexivity.
Qed.

Lemma src_text_no_space s : src_ok s = true -> ~ In 32 (src_text s) /\ src_text s <> [].
Proof.
  destruct s as [[n u] h]. unfold src_ok, src_text. intros H.
  repeat (apply Bool.andb_true_iff in H; destruct H as [H ?]).
  pose proof (nonempty_ne _ H) as Hne.
  assert (Hn : ~ In 32 n) by (eapply forallb_notin; [|eassumption]; reflexivity).
  split; [|destruct n; [congruence|discriminate]].
  apply notin_app; [exact Hn|]. apply notin_app.
  - destruct u as [u|]; [|intros []].
    match goal with Hu : (nonempty u && _)%bool = true |- _ => apply Bool.andb_true_iff in Hu; destruct Hu as [_ Hu] end.
    apply notin_cons; [discriminate|]. eapply forallb_notin; [|eassumption]; reflexivity.
  - destruct h as [h|]; [|intros []].
    match goal with Hh : (nonempty h && _)%bool = true |- _ => apply Bool.andb_true_iff in Hh; destruct Hh as [_ Hh] end.
    apply notin_cons; [discriminate|]. eapply forallb_notin; [|eassumption]; reflexivity.
Qed.

(* ---- the tag section ---------------------------------------------------------------------- *)

(* key and optional WIRE-form value *)
Definition wire_tag (kv : str * option str) : str :=
  fst kv ++ match snd kv with None => [] | Some w => 61 :: w end.
Definition wire_val (kv : str * option str) : str :=
  match snd kv with Some w => w | None => [] end.
Definition tags_text (l : list (str * option str)) : str := join semi (List.map wire_tag l).
Definition tag_ok (kv : str * option str) : bool :=
  valid_tag (fst kv) && match snd kv with None => true | Some w => negb (memb 59 w) && negb (memb 32 w) end.
Definition tags_fold (l : list (str * option str)) (t : tagmap) : tagmap :=
  fold_left (fun m kv => aset (fst kv) (wire_val kv) m) l t.

Definition key_or_plus (b : N) : bool := tag_key_byte b || (b =? 43).

Lemma valid_tag_bytes k : valid_tag k = true -> k <> [] /\ forallb key_or_plus k = true.
Proof.
  destruct k as [|c r]; [discriminate|]. unfold valid_tag. intros H. split; [discriminate|].
  destruct (Nat.leb 2 (length (c :: r)) && (c =? 43))%bool eqn:E.
  - apply Bool.andb_true_iff in E. destruct E as [_ E]. cbn [forallb]. unfold key_or_plus at 1. rewrite E, Bool.orb_true_r. cbn [andb].
    rewrite forallb_forall in *. intros x Hx. unfold key_or_plus. rewrite (H x Hx). reflexivity.
  - rewrite forallb_forall in *. intros x Hx. unfold key_or_plus. rewrite (H x Hx). reflexivity.
Qed.

Lemma valid_tag_notin k c : valid_tag k = true -> key_or_plus c = false -> ~ In c k.
Proof. intros H Hc. destruct (valid_tag_bytes k H) as [_ Hall]. eapply forallb_notin; eassumption. Qed.

Lemma parse_tag_part_wire t kv : tag_ok kv = true ->
  parse_tag_part t (wire_tag kv) = Ok (aset (fst kv) (wire_val kv) t).
Proof.
  destruct kv as [k ow]. unfold tag_ok, wire_tag, wire_val. cbn [fst snd]. intros H.
  apply Bool.andb_true_iff in H. destruct H as [Hk Hw].
  pose proof (valid_tag_notin k 61 Hk eq_refl) as H61.
  destruct (valid_tag_bytes k Hk) as [Hne _].
  unfold parse_tag_part. destruct ow as [w|].
  - rewrite (index_byte_app 61 k) by exact H61.
    destruct k as [|c k']; [congruence|]. cbn [length].
    destruct (Nat.ltb (length ((c :: k') ++ 61 :: w)) (S (length k') + 1)) eqn:EL;
      [rewrite app_length in EL; cbn [length] in EL; lia|].
    rewrite (slice_to_app' (c :: k')) by reflexivity. cbn [rbind].
    replace ((c :: k') ++ 61 :: w) with (((c :: k') ++ [61]) ++ w) by (rewrite <- app_assoc; reflexivity).
    rewrite slice_from_app' by (rewrite app_length; simpl; lia). reflexivity.
  - rewrite app_nil_r. rewrite (index_byte_none 61) by exact H61. rewrite Hk. reflexivity.
Qed.

Lemma parse_tag_parts_wire l : forallb tag_ok l = true ->
  forall t, parse_tag_parts t (List.map wire_tag l) = Ok (tags_fold l t).
Proof.
  induction l as [|kv l IH]; intros H t; [reflexivity|].
  cbn [forallb] in H. apply Bool.andb_true_iff in H. destruct H as [Hkv Hl].
  cbn [map parse_tag_parts]. rewrite parse_tag_part_wire by exact Hkv. cbn [rbind].
  rewrite (IH Hl). reflexivity.
Qed.

Lemma split_join c l : l <> [] -> (forall p, In p l -> ~ In c p) -> split_byte c (join [c] l) = l.
Proof.
  induction l as [|x l IH]; intros Hne Hall; [congruence|].
  destruct l as [|y r].
  - cbn [join]. apply split_byte_notin. apply Hall. left; reflexivity.
  - change (join [c] (x :: y :: r)) with (x ++ [c] ++ join [c] (y :: r)). cbn [app].
    rewrite split_byte_app by (apply Hall; left; reflexivity).
    rewrite IH; [reflexivity|discriminate|intros p Hp; apply Hall; right; exact Hp].
Qed.

Lemma wire_tag_notin kv c : tag_ok kv = true -> key_or_plus c = false -> c <> 61 ->
  (match snd kv with Some w => ~ In c w | None => True end) -> ~ In c (wire_tag kv).
Proof.
  destruct kv as [k ow]. unfold tag_ok, wire_tag. cbn [fst snd]. intros H Hc H61 Hw.
  apply Bool.andb_true_iff in H. destruct H as [Hk _].
  apply notin_app; [apply (valid_tag_notin k c Hk Hc)|].
  destruct ow as [w|]; [|intros []]. apply notin_cons; [exact H61|exact Hw].
Qed.

Lemma tag_ok_value kv : tag_ok kv = true ->
  match snd kv with Some w => ~ In 59 w /\ ~ In 32 w | None => True end.
Proof.
  destruct kv as [k [w|]]; unfold tag_ok; cbn [fst snd]; intros H; [|exact I].
  apply Bool.andb_true_iff in H. destruct H as [_ H]. apply Bool.andb_true_iff in H. destruct H as [H1 H2].
  apply Bool.negb_true_iff in H1, H2. split; apply memb_false; assumption.
Qed.

Lemma join_notin c sep l : ~ In c sep -> (forall p, In p l -> ~ In c p) -> ~ In c (join sep l).
Proof.
  intros Hsep. induction l as [|x l IH]; intros Hall; [intros []|].
  destruct l as [|y r]; [apply Hall; left; reflexivity|].
  change (join sep (x :: y :: r)) with (x ++ sep ++ join sep (y :: r)).
  apply notin_app; [apply Hall; left; reflexivity|]. apply notin_app; [exact Hsep|].
  apply IH. intros p Hp. apply Hall. right. exact Hp.
Qed.

Lemma tags_text_facts l : l <> [] -> forallb tag_ok l = true ->
  ~ In 32 (tags_text l) /\ (exists c r, tags_text l = c :: r /\ (c =? 64) = false) /\
  tagmap_of (tags_text l) = tags_fold l [].
Proof.
  intros Hne Hall. rewrite forallb_forall in Hall.
  assert (H32 : ~ In 32 (tags_text l)).
  { unfold tags_text. apply join_notin; [intros [H|[]]; discriminate|].
    intros p Hp. apply in_map_iff in Hp. destruct Hp as [kv [<- Hkv]].
    apply wire_tag_notin; [apply Hall; exact Hkv|reflexivity|discriminate|].
    pose proof (tag_ok_value kv (Hall kv Hkv)) as Hv. destruct (snd kv); [tauto|exact I]. }
  assert (Hhead : exists c r, tags_text l = c :: r /\ (c =? 64) = false).
  { destruct l as [|kv l']; [congruence|].
    assert (Hkv : tag_ok kv = true) by (apply Hall; left; reflexivity).
    pose proof Hkv as Hkv'. unfold tag_ok in Hkv'. apply Bool.andb_true_iff in Hkv'. destruct Hkv' as [Hk _].
    destruct (valid_tag_bytes _ Hk) as [Hkne Hkb].
    destruct kv as [k ow]. cbn [fst] in *. destruct k as [|c k']; [congruence|].
    cbn [forallb] in Hkb. apply Bool.andb_true_iff in Hkb. destruct Hkb as [Hc _].
    assert (E64 : (c =? 64) = false).
    { destruct (c =? 64) eqn:E; [apply N.eqb_eq in E; subst c; discriminate|reflexivity]. }
    unfold tags_text. cbn [map]. unfold wire_tag at 1. cbn [fst snd].
    destruct l' as [|kv2 l'']; cbn [join app]; eexists; eexists; split; try reflexivity; exact E64. }
  split; [exact H32|]. split; [exact Hhead|].
  destruct Hhead as (c & r & Hcr & E64).
  unfold tagmap_of, parse_tags. rewrite Hcr, E64. cbn [rbind]. rewrite <- Hcr.
  unfold tags_text. change semi with [59].
  rewrite split_join.
  - rewrite parse_tag_parts_wire by (apply forallb_forall; exact Hall). reflexivity.
  - destruct l; [congruence|discriminate].
  - intros p Hp. apply in_map_iff in Hp. destruct Hp as [kv [<- Hkv]].
    apply wire_tag_notin; [apply Hall; exact Hkv|reflexivity|discriminate|].
    pose proof (tag_ok_value kv (Hall kv Hkv)) as Hv. destruct (snd kv); [tauto|exact I].
Qed.

(* ---- the whole line ------------------------------------------------------------------------- *)

Definition tags_part (tg : option (list (str * option str))) : str :=
  match tg with Some l => 64 :: tags_text l ++ [32] | None => [] end.
Definition src_part (src : option (str * option str * option str)) : str :=
  match src with Some s => 58 :: src_text s ++ [32] | None => [] end.
Definition body_of tg src cmd ms tr tail : str :=
  tags_part tg ++ src_part src ++ rest_part cmd ms tr tail.

Definition tags_ok (tg : option (list (str * option str))) : bool :=
  match tg with Some [] => false | Some l => forallb tag_ok l | None => true end.
Definition osrc_ok (src : option (str * option str * option str)) : bool :=
  match src with Some s => src_ok s | None => true end.
Definition cmd_ok (cmd : str) : bool :=
  match cmd with [] => false | c :: _ => negb (c =? 58) && negb (c =? 64) && negb (memb 32 cmd) end.

Lemma cmd_ok_spec cmd : cmd_ok cmd = true ->
  exists c r, cmd = c :: r /\ (c =? 58) = false /\ (c =? 64) = false /\ ~ In 32 cmd.
Proof.
  destruct cmd as [|c r]; [discriminate|]. unfold cmd_ok. intros H.
  apply Bool.andb_true_iff in H. destruct H as [H H3]. apply Bool.andb_true_iff in H. destruct H as [H1 H2].
  apply Bool.negb_true_iff in H1, H2, H3. apply memb_false in H3.
  exists c, r. repeat split; assumption.
Qed.

Lemma body_nf_line tags src cmd ms tr tail :
  osrc_ok src = true -> cmd_ok cmd = true -> forallb (fun nm => middle_ok (snd nm)) ms = true ->
  body_nf tags (src_part src ++ rest_part cmd ms tr tail) =
    Some (mkWEvent tags (option_map meaning_src src) (go_to_upper cmd) (params_of ms tr)).
Proof.
  intros Hsrc Hcmd Hms. destruct (cmd_ok_spec _ Hcmd) as (c & r & Hc & E58 & E64 & H32).
  unfold body_nf, prefix_nf. destruct src as [s|]; cbn [src_part osrc_ok option_map] in *.
  - destruct (src_text_no_space s Hsrc) as [Hns Hne].
    cbn [app]. rewrite N.eqb_refl.
    replace (58 :: (src_text s ++ [32]) ++ rest_part cmd ms tr tail)
      with ((58 :: src_text s) ++ 32 :: rest_part cmd ms tr tail)
      by (cbn [app]; rewrite <- app_assoc; reflexivity).
    rewrite cut_app by (apply notin_cons; [discriminate|exact Hns]).
    destruct (src_text s) as [|x st] eqn:EST; [congruence|]. cbn [length Nat.ltb Nat.leb tl].
    rewrite <- EST, source_of_text by exact Hsrc.
    rewrite rest_nf_line by assumption. reflexivity.
  - cbn [app]. unfold rest_part at 1. rewrite Hc. cbn [app]. rewrite E58.
    change (c :: r ++ render_middles ms ++ render_trailing tr tail) with (rest_part (c :: r) ms tr tail).
    rewrite <- Hc. rewrite rest_nf_line by assumption. reflexivity.
Qed.

Theorem parse_line tg src cmd ms tr tail eol :
  tags_ok tg = true -> osrc_ok src = true -> cmd_ok cmd = true ->
  forallb (fun nm => middle_ok (snd nm)) ms = true ->
  forallb clean (body_of tg src cmd ms tr tail) = true ->
  (2 <= length (body_of tg src cmd ms tr tail))%nat ->
  forallb is_crlf eol = true ->
  parse_event_nf (body_of tg src cmd ms tr tail ++ eol) =
    Some (mkWEvent (option_map (fun l => tags_fold l []) tg) (option_map meaning_src src)
                   (go_to_upper cmd) (params_of ms tr)).
Proof.
  intros Htg Hsrc Hcmd Hms Hclean Hlen Heol.
  unfold parse_event_nf. rewrite trim_crlf_clean by assumption.
  destruct (Nat.ltb (length (body_of tg src cmd ms tr tail)) 2) eqn:EL; [lia|]. clear EL Hclean Hlen.
  unfold body_of. destruct tg as [l|]; cbn [tags_part tags_ok option_map] in *.
  - destruct l as [|kv l']; [discriminate|]. set (l := kv :: l') in *.
    destruct (tags_text_facts l ltac:(discriminate) Htg) as (H32 & (c & r & Hcr & E64) & Hmap).
    cbn [app]. rewrite N.eqb_refl.
    replace (64 :: (tags_text l ++ [32]) ++ src_part src ++ rest_part cmd ms tr tail)
      with ((64 :: tags_text l) ++ 32 :: src_part src ++ rest_part cmd ms tr tail)
      by (cbn [app]; rewrite <- app_assoc; reflexivity).
    rewrite cut_app by (apply notin_cons; [discriminate|exact H32]).
    rewrite Hcr at 1. cbn [length Nat.ltb Nat.leb tl]. rewrite Hmap.
    apply body_nf_line; assumption.
  - cbn [app]. destruct (cmd_ok_spec _ Hcmd) as (c & r & Hc & E58 & E64 & H32).
    destruct src as [s|].
    + cbn [src_part app]. change (58 =? 64) with false. cbv iota.
      apply (body_nf_line None (Some s)); assumption.
    + cbn [src_part app]. unfold rest_part at 1. rewrite Hc. cbn [app]. rewrite E64.
      change (c :: r ++ render_middles ms ++ render_trailing tr tail) with ([] ++ rest_part (c :: r) ms tr tail).
      rewrite <- Hc. apply (body_nf_line None None); assumption.
Qed.
