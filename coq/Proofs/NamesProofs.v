Require Import Bytes Names NameGrammar.
From Coq Require Import Lia ZifyBool ZifyN ZifyNat.

Local Ltac unf := unfold nick_first_ok, nick_rest_ok, user_first_ok, user_rest_ok, chan_id_ok,
  in_A_rbrace, is_digit, is_upper, is_lower,
  nick_first, nick_rest, user_first, user_rest, chanid_byte, letter, digit, special in *.

Lemma nick_first_iff b : nick_first_ok b = true <-> nick_first b.
Proof. unf; lia. Qed.
Lemma nick_rest_iff b : nick_rest_ok b = true <-> nick_rest b.
Proof. unf; lia. Qed.
Lemma user_first_iff b : user_first_ok b = true <-> user_first b.
Proof. unf; lia. Qed.
Lemma user_rest_iff b : user_rest_ok b = true <-> user_rest b.
Proof. unf; lia. Qed.
Lemma chan_id_iff b : chan_id_ok b = true <-> chanid_byte b.
Proof. unf; lia. Qed.

Lemma forallb_Forall_iff {A} (f : A -> bool) (P : A -> Prop) :
  (forall a, f a = true <-> P a) -> forall l, forallb f l = true <-> Forall P l.
Proof.
  intros H l; induction l as [|a l IH]; simpl.
  - split; [constructor | reflexivity].
  - rewrite andb_true_iff, H, IH. split.
    + intros [Ha Hl]; constructor; assumption.
    + intros HF; inversion HF; subst; split; assumption.
Qed.

Theorem is_valid_nick_iff s : is_valid_nick s = true <-> nick_grammar s.
Proof.
  unfold is_valid_nick, nick_grammar. destruct s as [|c r].
  - split; [discriminate | intros (c & r & H & _); discriminate].
  - rewrite andb_true_iff, nick_first_iff, (forallb_Forall_iff _ _ nick_rest_iff). split.
    + intros [Hc Hr]. exists c, r. auto.
    + intros (c' & r' & Heq & Hc & Hr). injection Heq as -> ->. auto.
Qed.

Lemma user_core_iff c r :
  user_first_ok c && forallb user_rest_ok r = true <-> user_core (c :: r).
Proof.
  unfold user_core. rewrite andb_true_iff, user_first_iff, (forallb_Forall_iff _ _ user_rest_iff). split.
  - intros [Hc Hr]. exists c, r. auto.
  - intros (c' & r' & Heq & Hc & Hr). injection Heq as -> ->. auto.
Qed.

Theorem is_valid_user_iff s : is_valid_user s = true <-> user_grammar s.
Proof.
  unfold is_valid_user, user_grammar. destruct s as [|c r].
  - split; [discriminate|]. intros [(c & r & H & _) | (t & H & _)]; discriminate.
  - destruct (N.eqb_spec c 126) as [->|Hne].
    + (* leading '~' : the core is the tail; "~..." itself is never a core since '~' is not alnum *)
      destruct r as [|c0 r0].
      * split; [discriminate|]. intros [(c & r & H & Hc & _) | (t & H & (c & r & H2 & _))].
        -- injection H as <- <-. unfold user_first, letter, digit in Hc. lia.
        -- injection H as <-. discriminate.
      * rewrite user_core_iff. split.
        -- intros H. right. exists (c0 :: r0). auto.
        -- intros [(c & r & H & Hc & _) | (t & H & Ht)].
           ++ injection H as <- <-. unfold user_first, letter, digit in Hc. lia.
           ++ injection H as <-. exact Ht.
    + rewrite user_core_iff. split.
      * intros H; left; exact H.
      * intros [H | (t & H & _)]; [exact H|]. injection H as -> _. congruence.
Qed.

Lemma memb_In c s : memb c s = true <-> In c s.
Proof.
  induction s as [|x s IH]; simpl; [split; [discriminate|tauto]|].
  rewrite orb_true_iff, N.eqb_eq, IH. tauto.
Qed.

Lemma chan_prefix_iff b : memb b chan_prefixes = true <-> chan_prefix b.
Proof. rewrite memb_In. unfold chan_prefixes, chan_prefix. simpl. lia. Qed.

Lemma chan_bad_iff b : negb (memb b chan_bad) = true <-> chanstring_byte b.
Proof.
  rewrite negb_true_iff. unfold chanstring_byte. split.
  - intros H. assert (Hn : ~ In b chan_bad) by (rewrite <- memb_In; congruence).
    unfold chan_bad in Hn. simpl in Hn. lia.
  - intros H. destruct (memb b chan_bad) eqn:E; [|reflexivity].
    apply memb_In in E. unfold chan_bad in E. simpl in E. lia.
Qed.

Theorem is_valid_channel_iff s : is_valid_channel s = true <-> chan_grammar s.
Proof.
  unfold is_valid_channel, chan_grammar.
  destruct (Nat.leb (length s) 1 || Nat.ltb 50 (length s))%bool eqn:Elen.
  - split; [discriminate|]. intros [Hl _]. lia.
  - assert (Hlen : (2 <= length s <= 50)%nat) by lia.
    destruct s as [|c r]; [simpl in Hlen; lia|].
    destruct (memb c chan_prefixes) eqn:Epre; cbn [negb].
    2:{ split; [discriminate|]. intros (_ & p & r' & Heq & Hp & _). injection Heq as <- <-.
        apply chan_prefix_iff in Hp. congruence. }
    apply chan_prefix_iff in Epre.
    destruct (N.eqb_spec c 33) as [->|Hne]; cbn [andb].
    + destruct (Nat.ltb (length (33 :: r)) 7 || negb (forallb chan_id_ok (firstn 5 r)))%bool eqn:Eid.
      * split; [discriminate|]. intros (_ & p & r' & Heq & _ & _ & Hid). injection Heq as <- <-.
        destruct (Hid eq_refl) as (id & name & -> & Hl5 & Hidc & Hname).
        apply orb_true_iff in Eid. destruct Eid as [E|E].
        -- apply Nat.ltb_lt in E. simpl in E. rewrite app_length in E.
           destruct name; [congruence|]. simpl in E. lia.
        -- apply negb_true_iff in E. rewrite <- Hl5, firstn_app, Nat.sub_diag, firstn_all in E.
           simpl in E. rewrite app_nil_r in E.
           apply (forallb_Forall_iff _ _ chan_id_iff) in Hidc. congruence.
      * apply orb_false_iff in Eid. destruct Eid as [E1 E2].
        apply Nat.ltb_ge in E1. apply negb_false_iff in E2.
        rewrite (forallb_Forall_iff _ _ chan_bad_iff). split.
        -- intros Hr. split; [exact Hlen|]. exists 33, r. repeat split; auto.
           intros _. exists (firstn 5 r), (skipn 5 r). repeat split.
           ++ symmetry; apply firstn_skipn.
           ++ apply firstn_length_le. simpl in E1. lia.
           ++ apply (forallb_Forall_iff _ _ chan_id_iff). exact E2.
           ++ intros Hnil. apply (f_equal (@length N)) in Hnil. rewrite skipn_length in Hnil.
              simpl in E1, Hnil. lia.
        -- intros (_ & p & r' & Heq & _ & Hr & _). injection Heq as <- <-. exact Hr.
    + rewrite (forallb_Forall_iff _ _ chan_bad_iff). split.
      * intros Hr. split; [exact Hlen|]. exists c, r. repeat split; auto. congruence.
      * intros (_ & p & r' & Heq & _ & Hr & _). injection Heq as <- <-. exact Hr.
Qed.

(* ---- ToRFC1459 ------------------------------------------------------- *)

Lemma to_rfc1459_length s : length (to_rfc1459 s) = length s.
Proof. apply map_length. Qed.

Lemma fold1_idem b : fold1 (fold1 b) = fold1 b.
Proof. unfold fold1. destruct ((65 <=? b) && (b <=? 94)) eqn:E; [|rewrite E; reflexivity].
  destruct ((65 <=? b + 32) && (b + 32 <=? 94)) eqn:E2; lia. Qed.

Lemma to_rfc1459_idem s : to_rfc1459 (to_rfc1459 s) = to_rfc1459 s.
Proof. unfold to_rfc1459. rewrite map_map. apply map_ext. apply fold1_idem. Qed.

Lemma to_rfc1459_app a b : to_rfc1459 (a ++ b) = to_rfc1459 a ++ to_rfc1459 b.
Proof. apply map_app. Qed.

Lemma to_rfc1459_nth s i : nth_error (to_rfc1459 s) i = option_map fold_spec (nth_error s i).
Proof. unfold to_rfc1459. rewrite nth_error_map. reflexivity. Qed.

Lemma fold1_table b :
  (65 <= b <= 90 -> fold1 b = b + 32) /\          (* A-Z -> a-z *)
  (91 <= b <= 94 -> fold1 b = b + 32) /\          (* [ \ ] ^ -> { | } ~ *)
  (b < 65 \/ 94 < b -> fold1 b = b).
Proof. unfold fold1. destruct ((65 <=? b) && (b <=? 94)) eqn:E; lia. Qed.
