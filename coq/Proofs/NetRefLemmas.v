(* Facts about the reference model alone (Spec/NetRef.v): the mode algebra, and the
   canonical form of told-states (RWf) is kept by every step. *)
Require Import Bytes AMap SMap Names State NetRef OrderLemmas AMapLemmas SMapLemmas.
From Coq Require Import Lia ZifyBool ZifyN ZifyNat.

(* ---- mode_set / mode_unset / mode_has / mode_arg ---- *)

Lemma mode_has_set x a l : mode_has x (mode_set x a l) = true.
Proof.
  induction l as [|[y b] l IH]; simpl; [rewrite N.eqb_refl; reflexivity|].
  destruct (y =? x) eqn:E; simpl; [rewrite N.eqb_refl; reflexivity|]. rewrite E. exact IH.
Qed.

Lemma mode_has_set_other x y a l : x <> y -> mode_has y (mode_set x a l) = mode_has y l.
Proof.
  intros Hne. induction l as [|[z b] l IH]; simpl.
  - assert (x =? y = false) by lia. rewrite H. reflexivity.
  - destruct (z =? x) eqn:E; simpl.
    + assert (x =? y = false) by lia. assert (z =? y = false) by lia. rewrite H, H0. reflexivity.
    + rewrite IH. reflexivity.
Qed.

Lemma mode_has_unset x l : mode_has x (mode_unset x l) = false.
Proof.
  induction l as [|[y b] l IH]; simpl; [reflexivity|].
  destruct (y =? x) eqn:E; simpl; [exact IH|]. rewrite E. exact IH.
Qed.

Lemma mode_has_unset_other x y l : x <> y -> mode_has y (mode_unset x l) = mode_has y l.
Proof.
  intros Hne. induction l as [|[z b] l IH]; simpl; [reflexivity|].
  destruct (z =? x) eqn:E; simpl.
  - assert (z =? y = false) by lia. rewrite H. exact IH.
  - rewrite IH. reflexivity.
Qed.

Lemma mode_arg_set x a l : mode_arg x (mode_set x a l) = match a with [] => None | _ => Some a end.
Proof.
  induction l as [|[y b] l IH]; simpl; [rewrite N.eqb_refl; reflexivity|].
  destruct (y =? x) eqn:E; simpl; [rewrite N.eqb_refl; reflexivity|]. rewrite E. exact IH.
Qed.

Lemma mode_arg_set_other x y a l : x <> y -> mode_arg y (mode_set x a l) = mode_arg y l.
Proof.
  intros Hne. induction l as [|[z b] l IH]; simpl.
  - assert (x =? y = false) by lia. rewrite H. reflexivity.
  - destruct (z =? x) eqn:E; simpl.
    + assert (x =? y = false) by lia. assert (z =? y = false) by lia. rewrite H, H0. reflexivity.
    + rewrite IH. reflexivity.
Qed.

Lemma mode_arg_unset x l : mode_arg x (mode_unset x l) = None.
Proof.
  induction l as [|[y b] l IH]; simpl; [reflexivity|].
  destruct (y =? x) eqn:E; simpl; [exact IH|]. rewrite E. exact IH.
Qed.

Lemma mode_arg_unset_other x y l : x <> y -> mode_arg y (mode_unset x l) = mode_arg y l.
Proof.
  intros Hne. induction l as [|[z b] l IH]; simpl; [reflexivity|].
  destruct (z =? x) eqn:E; simpl.
  - assert (z =? y = false) by lia. rewrite H. exact IH.
  - rewrite IH. reflexivity.
Qed.

Lemma mode_arg_has x l : mode_arg x l <> None -> mode_has x l = true.
Proof.
  induction l as [|[y b] l IH]; simpl; [congruence|].
  destruct (y =? x); simpl; auto.
Qed.

(* ---- the last change of a setting in one mode string ---- *)

(* the sign under which x last occurs in flags (read with initial sign add), if it occurs *)
Fixpoint last_sign (flags : str) (add : bool) (x : N) : option bool :=
  match flags with
  | [] => None
  | f :: fs =>
      if f =? 43 then last_sign fs true x
      else if f =? 45 then last_sign fs false x
      else match last_sign fs add x with
           | Some b => Some b
           | None => if f =? x then Some add else None
           end
  end.

Definition is_setting (cm pm : str) (x : N) : Prop :=
  mode_class cm pm x = MArg \/ mode_class cm pm x = MSetArg \/ mode_class cm pm x = MFlag.

Lemma rc_modes_member_perm kn x on c : rc_modes (rc_member_perm kn x on c) = rc_modes c.
Proof. reflexivity. Qed.

(* HasMode after a MODE message: the sign of the last change of x, else what it was *)
Lemma mode_walk_has cm pm x : is_setting cm pm x ->
  forall flags args add c,
  mode_has x (rc_modes (mode_walk cm pm flags args add c)) =
  match last_sign flags add x with Some b => b | None => mode_has x (rc_modes c) end.
Proof.
  intros Hset. induction flags as [|f fs IH]; intros args add c; simpl; [reflexivity|].
  destruct (f =? 43) eqn:E43; [apply IH|]. destruct (f =? 45) eqn:E45; [apply IH|].
  destruct (f =? x) eqn:Efx.
  - apply N.eqb_eq in Efx. subst f.
    assert (K : forall c' args', mode_has x (rc_modes c') = add ->
              mode_has x (rc_modes (mode_walk cm pm fs args' add c')) =
              match last_sign fs add x with Some b => b | None => add end).
    { intros c' args' Hc'. rewrite IH. destruct (last_sign fs add x); [reflexivity|exact Hc']. }
    destruct Hset as [H|[H|H]]; rewrite H.
    + rewrite K; [destruct (last_sign fs add x); reflexivity|].
      destruct add; simpl; [apply mode_has_set|apply mode_has_unset].
    + destruct add.
      * rewrite K; [destruct (last_sign fs true x); reflexivity|]. simpl. apply mode_has_set.
      * rewrite K; [destruct (last_sign fs false x); reflexivity|]. simpl. apply mode_has_unset.
    + rewrite K; [destruct (last_sign fs add x); reflexivity|].
      destruct add; simpl; [apply mode_has_set|apply mode_has_unset].
  - assert (Hne : f <> x) by lia.
    assert (K : forall c' args', mode_has x (rc_modes c') = mode_has x (rc_modes c) ->
              mode_has x (rc_modes (mode_walk cm pm fs args' add c')) =
              match last_sign fs add x with Some b => b | None => mode_has x (rc_modes c) end).
    { intros c' args' Hc'. rewrite IH, Hc'. reflexivity. }
    assert (R : match match last_sign fs add x with Some b => Some b | None => None end with
                | Some b => b | None => mode_has x (rc_modes c) end =
                match last_sign fs add x with Some b => b | None => mode_has x (rc_modes c) end)
      by (destruct (last_sign fs add x); reflexivity).
    rewrite R.
    destruct (mode_class cm pm f).
    + apply K. reflexivity.
    + apply K. destruct add; simpl; [apply mode_has_set_other|apply mode_has_unset_other]; exact Hne.
    + destruct add; apply K; simpl; [apply mode_has_set_other|apply mode_has_unset_other]; exact Hne.
    + apply K. reflexivity.
    + apply K. destruct add; simpl; [apply mode_has_set_other|apply mode_has_unset_other]; exact Hne.
Qed.

(* "+x ... and no later -x" / "-x ... and no later +x" *)
Corollary mode_walk_set_stays cm pm x flags args c : is_setting cm pm x ->
  last_sign flags true x = Some true -> mode_has x (rc_modes (mode_walk cm pm flags args true c)) = true.
Proof. intros Hs Hl. rewrite (mode_walk_has _ _ _ Hs), Hl. reflexivity. Qed.

Corollary mode_walk_unset_gone cm pm x flags args c : is_setting cm pm x ->
  last_sign flags true x = Some false -> mode_has x (rc_modes (mode_walk cm pm flags args true c)) = false.
Proof. intros Hs Hl. rewrite (mode_walk_has _ _ _ Hs), Hl. reflexivity. Qed.

Corollary mode_walk_untouched cm pm x flags args c : is_setting cm pm x ->
  last_sign flags true x = None ->
  mode_has x (rc_modes (mode_walk cm pm flags args true c)) = mode_has x (rc_modes c).
Proof. intros Hs Hl. rewrite (mode_walk_has _ _ _ Hs), Hl. reflexivity. Qed.

(* arguments follow the CHANMODES classes, on a single change *)
Lemma mode_walk_one_arg cm pm x a c :
  mode_arg x (rc_modes (mode_walk cm pm [43; x] [a] true c)) =
  (if (x =? 43) || (x =? 45) then mode_arg x (rc_modes c) else
   match mode_class cm pm x with
   | MArg | MSetArg => match a with [] => None | _ => Some a end   (* B, C: "+x arg" stores the argument *)
   | MFlag => None                                               (* D: never an argument *)
   | MList | MPrefix => mode_arg x (rc_modes c)                    (* not settings: nothing stored *)
   end).
Proof.
  simpl. destruct (x =? 43) eqn:E1; [reflexivity|]. destruct (x =? 45) eqn:E2; [reflexivity|]. simpl.
  destruct (mode_class cm pm x); simpl; try reflexivity; apply mode_arg_set.
Qed.

Lemma mode_walk_one_unset cm pm x args c : x <> 43 -> x <> 45 -> is_setting cm pm x ->
  mode_has x (rc_modes (mode_walk cm pm [45; x] args true c)) = false /\
  mode_arg x (rc_modes (mode_walk cm pm [45; x] args true c)) = None.
Proof.
  intros H1 H2 Hs. simpl. assert (x =? 43 = false) by lia. assert (x =? 45 = false) by lia. rewrite H, H0.
  destruct Hs as [Hc|[Hc|Hc]]; rewrite Hc; simpl; split; first [apply mode_has_unset | apply mode_arg_unset].
Qed.

Example is_setting_rfc_m : is_setting rfc_chanmodes [111; 118] 109.   (* "m" under the RFC defaults *)
Proof. right; right. reflexivity. Qed.
Example last_sign_ex : last_sign [43; 110; 116; 109; 45; 116] true 109 = Some true /\
                       last_sign [43; 110; 116; 109; 45; 116] true 116 = Some false.
Proof. split; reflexivity. Qed.

(* ---- told-states stay in canonical form ---- *)

(* one channel: members sorted by nick, each mode stored once *)
Definition cwf (c : rchan) : Prop := ksorted (rc_members c) /\ NoDup (List.map fst (rc_modes c)).

Record RWf (r : ref) : Prop := mkRWf {
  wf_chans : ksorted (r_chans r);
  wf_users : ksorted (r_users r);
  wf_opts : ksorted (r_opts r);
  wf_cwf : forall k c, alookup k (r_chans r) = Some c -> cwf c }.

Lemma wf_members r (W : RWf r) k c : alookup k (r_chans r) = Some c -> ksorted (rc_members c).
Proof. intros H. apply (wf_cwf _ W _ _ H). Qed.
Lemma wf_modes r (W : RWf r) k c : alookup k (r_chans r) = Some c -> NoDup (List.map fst (rc_modes c)).
Proof. intros H. apply (wf_cwf _ W _ _ H). Qed.

Lemma rwf_init : RWf ref_init.
Proof. constructor; simpl; try apply ksorted_nil. intros; discriminate. Qed.

Lemma rwf_scalar r r' : r_chans r' = r_chans r -> r_users r' = r_users r -> r_opts r' = r_opts r -> RWf r -> RWf r'.
Proof. intros H1 H2 H3 [A B C D]. constructor; rewrite ?H1, ?H2, ?H3; assumption. Qed.

Lemma rwf_set_users r m : ksorted m -> RWf r -> RWf (r_set_users r m).
Proof. intros Hm [A B C D]. constructor; simpl; assumption. Qed.

Lemma rwf_set_opts r m : ksorted m -> RWf r -> RWf (r_set_opts r m).
Proof. intros Hm [A B C D]. constructor; simpl; assumption. Qed.

Lemma rwf_set_chans r m : ksorted m -> (forall k c, alookup k m = Some c -> cwf c) ->
  RWf r -> RWf (r_set_chans r m).
Proof. intros Hm Hc [A B C D]. constructor; simpl; assumption. Qed.

Lemma rwf_upd_user r n f : RWf r -> RWf (upd_user r n f).
Proof. intros W. apply rwf_set_users; [|exact W]. apply ksorted_sm_adjust, (wf_users _ W). Qed.

Lemma rwf_upd_chan r cn f : (forall c, cwf c -> cwf (f c)) -> RWf r -> RWf (upd_chan r cn f).
Proof.
  intros Hf W. apply rwf_set_chans; [apply ksorted_sm_adjust, (wf_chans _ W)| |exact W].
  intros k c. rewrite alookup_sm_adjust. destruct (streqb k (key cn)).
  - destruct (alookup k (r_chans r)) as [c0|] eqn:E; simpl; [|discriminate]. intros H; injection H as <-.
    apply Hf. apply (wf_cwf _ W _ _ E).
  - apply (wf_cwf _ W).
Qed.

Lemma rwf_map_chans r f : (forall c, cwf c -> cwf (f c)) ->
  RWf r -> RWf (r_set_chans r (sm_map (fun _ c => f c) (r_chans r))).
Proof.
  intros Hf W. apply rwf_set_chans; [apply ksorted_sm_map, (wf_chans _ W)| |exact W].
  intros k c. rewrite alookup_sm_map. destruct (alookup k (r_chans r)) as [c0|] eqn:E; simpl; [|discriminate].
  intros H; injection H as <-. apply Hf. apply (wf_cwf _ W _ _ E).
Qed.

Lemma cwf_set_members c m : cwf c -> ksorted m -> cwf (rc_set_members c m).
Proof. intros [A B] Hm. split; assumption. Qed.

Lemma rwf_ensure_user r src : RWf r -> RWf (ensure_user r src).
Proof.
  intros W. unfold ensure_user. destruct (alookup (key (s_name src)) (r_users r)); [exact W|].
  apply rwf_set_users; [|exact W]. apply ksorted_sm_set, (wf_users _ W).
Qed.

Lemma rwf_gc r : RWf r -> RWf (ref_gc r).
Proof. intros W. apply rwf_set_users; [|exact W]. apply ksorted_sm_filter, (wf_users _ W). Qed.

Lemma rwf_tag r e : RWf r -> RWf (ref_tag r e).
Proof. intros W. unfold ref_tag. destruct (e_src e); [|exact W]. destruct (e_account_tag e); [|exact W]. apply rwf_upd_user, W. Qed.

Lemma mode_set_keys_in x a l y : In y (List.map fst (mode_set x a l)) <-> y = x \/ In y (List.map fst l).
Proof.
  induction l as [|[z b] l IH]; simpl; [intuition|].
  destruct (z =? x) eqn:E; simpl; [assert (z = x) by lia; subst; intuition|]. rewrite IH. intuition.
Qed.

Lemma mode_set_nodup x a l : NoDup (List.map fst l) -> NoDup (List.map fst (mode_set x a l)).
Proof.
  induction l as [|[z b] l IH]; simpl; intros H.
  - constructor; [simpl; tauto|constructor].
  - inversion H as [|? ? Hz Hl]; subst. destruct (z =? x) eqn:E; simpl.
    + assert (z = x) by lia. subst. constructor; assumption.
    + constructor; [|apply IH, Hl]. rewrite mode_set_keys_in. intros [->|Hin]; [lia|contradiction].
Qed.

Lemma mode_unset_nodup x l : NoDup (List.map fst l) -> NoDup (List.map fst (mode_unset x l)).
Proof.
  induction l as [|[z b] l IH]; simpl; intros H; [constructor|].
  inversion H as [|? ? Hz Hl]; subst. destruct (z =? x); simpl; [apply IH, Hl|].
  constructor; [|apply IH, Hl]. intros Hin. apply Hz. unfold mode_unset in Hin.
  apply in_map_iff in Hin. destruct Hin as ([y c] & Hy & Hin). apply filter_In in Hin. destruct Hin as [Hin _].
  simpl in Hy. subst y. apply (in_map fst) in Hin. exact Hin.
Qed.

Lemma mode_walk_cwf cm pm : forall flags args add c, cwf c -> cwf (mode_walk cm pm flags args add c).
Proof.
  induction flags as [|f fs IH]; intros args add c Hc; simpl; [exact Hc|].
  destruct (f =? 43); [apply IH, Hc|]. destruct (f =? 45); [apply IH, Hc|].
  destruct Hc as [Hm Hn].
  destruct (mode_class cm pm f); try destruct add; apply IH; split; simpl;
    first [exact Hm | exact Hn | apply mode_set_nodup, Hn | apply mode_unset_nodup, Hn | apply ksorted_sm_adjust, Hm].
Qed.

Lemma rwf_names_entry chan r en : RWf r -> RWf (ref_names_entry chan r en).
Proof.
  intros W. unfold ref_names_entry. destruct (span_syms en) as [syms body]. destruct body as [|b0 body]; [exact W|].
  apply rwf_upd_chan; [|apply rwf_ensure_user, W]. intros c Hc. apply cwf_set_members; [exact Hc|]. apply ksorted_sm_set, Hc.
Qed.

Lemma rwf_names_fold chan : forall l r, RWf r -> RWf (fold_left (ref_names_entry chan) l r).
Proof. induction l as [|en l IH]; intros r W; simpl; [exact W|]. apply IH, rwf_names_entry, W. Qed.

Lemma isupport_sorted : forall toks opts, ksorted opts -> ksorted (isupport opts toks).
Proof.
  induction toks as [|t toks IH]; intros opts H; simpl; [exact H|]. apply IH.
  destruct (memb 61 t); apply ksorted_sm_set, H.
Qed.

Lemma rwf_join r src tag chan rest : RWf r -> RWf (ref_join r src tag chan rest).
Proof.
  intros W. unfold ref_join.
  set (r1 := match alookup (key chan) (r_chans r) with Some _ => r | None => _ end).
  assert (W1 : RWf r1).
  { unfold r1. destruct (alookup (key chan) (r_chans r)); [exact W|].
    apply rwf_set_chans; [apply ksorted_sm_set, (wf_chans _ W)| |exact W].
    intros k c. rewrite alookup_sm_set by apply (wf_chans _ W). destruct (streqb k (key chan)).
    - intros H; injection H as <-. split; simpl; [apply ksorted_nil|constructor].
    - apply (wf_cwf _ W). }
  assert (W3 : RWf (upd_chan (upd_user (ensure_user r1 src) (s_name src) (join_tell src tag rest)) chan (add_member (key (s_name src))))).
  { apply rwf_upd_chan; [|apply rwf_upd_user, rwf_ensure_user, W1].
    intros c Hc. unfold add_member. destruct (alookup (key (s_name src)) (rc_members c)); [exact Hc|].
    apply cwf_set_members; [exact Hc|]. apply ksorted_sm_set, Hc. }
  destruct (is_me r (s_name src)); [|exact W3]. eapply rwf_scalar; [| | |exact W3]; reflexivity.
Qed.

Lemma rwf_leave r chan nick : RWf r -> RWf (ref_leave r chan nick).
Proof.
  intros W. unfold ref_leave. destruct (is_me r nick).
  - apply rwf_set_chans; [apply ksorted_sm_del, (wf_chans _ W)| |exact W].
    intros k c. rewrite alookup_sm_del by apply (wf_chans _ W). destruct (streqb k (key chan)); [discriminate|]. apply (wf_cwf _ W).
  - apply rwf_upd_chan; [|exact W]. intros c Hc. apply cwf_set_members; [exact Hc|]. apply ksorted_sm_del, Hc.
Qed.

Lemma rwf_nick r old new : RWf r -> RWf (ref_nick r old new).
Proof.
  intros W. unfold ref_nick.
  set (r1 := if is_me r old then r_set_me r new else r).
  assert (W1 : RWf r1) by (unfold r1; destruct (is_me r old); [eapply rwf_scalar; [| | |exact W]; reflexivity|exact W]).
  destruct (alookup (key old) (r_users r1)) as [u|]; [|exact W1].
  assert (W2 : RWf (r_set_users r1 (sm_set (key new) (ru_set_nick u new) (sm_del (key old) (r_users r1))))).
  { apply rwf_set_users; [|exact W1]. apply ksorted_sm_set, ksorted_sm_del, (wf_users _ W1). }
  apply (rwf_map_chans _ (rename_member (key old) (key new))) in W2; [exact W2|].
  intros c Hc. unfold rename_member. destruct (alookup (key old) (rc_members c)); [|exact Hc].
  apply cwf_set_members; [exact Hc|]. apply ksorted_sm_set, ksorted_sm_del, Hc.
Qed.

Lemma rwf_cmd r e : RWf r -> RWf (ref_cmd r e).
Proof.
  intros W. unfold ref_cmd.
  destruct (cmdb e c_001). { destruct (e_params e); [exact W|]. eapply rwf_scalar; [| | |exact W]; reflexivity. }
  destruct (cmdb e c_JOIN). { destruct (e_src e); [|exact W]. destruct (e_params e); [exact W|]. apply rwf_join, W. }
  destruct (cmdb e c_PART). { destruct (e_src e); [|exact W]. destruct (e_params e); [exact W|]. apply rwf_leave, W. }
  destruct (cmdb e c_KICK). { destruct (e_params e) as [|a [|b l]]; try exact W. apply rwf_leave, W. }
  destruct (cmdb e c_QUIT).
  { destruct (e_src e); [|exact W]. apply (rwf_map_chans _ (drop_member (key (s_name s)))); [|exact W].
    intros c Hc. apply cwf_set_members; [exact Hc|]. apply ksorted_sm_del, Hc. }
  destruct (cmdb e c_NICK). { destruct (e_src e); [|exact W]. destruct (e_params e); [exact W|]. apply rwf_nick, W. }
  destruct (cmdb e c_353).
  { destruct (e_params e) as [|a [|b [|c l]]]; try exact W. unfold ref_names. destruct (tracked_chan r c); [|exact W].
    apply rwf_names_fold, W. }
  destruct (cmdb e c_MODE).
  { destruct (e_params e) as [|a [|b l]]; try exact W. apply rwf_upd_chan; [|exact W]. intros c. apply mode_walk_cwf. }
  destruct (cmdb e c_324).
  { destruct (e_params e) as [|a [|b [|c l]]]; try exact W. apply rwf_upd_chan; [|exact W]. intros c0. apply mode_walk_cwf. }
  destruct (cmdb e c_TOPIC).
  { destruct (e_params e) as [|a [|b [|c l]]]; try exact W. apply rwf_upd_chan; [|exact W]. intros c0 H; exact H. }
  destruct (cmdb e c_332).
  { destruct (e_params e) as [|a [|b [|c [|d l]]]]; try exact W. apply rwf_upd_chan; [|exact W]. intros c0 H; exact H. }
  destruct (cmdb e c_352).
  { destruct (e_params e) as [|p0 [|p1 [|p2 [|p3 [|p4 [|p5 [|p6 [|p7 [|p8 l]]]]]]]]]; try exact W. apply rwf_upd_user, W. }
  destruct (cmdb e c_354).
  { destruct (e_params e) as [|p0 [|p1 [|p2 [|p3 [|p4 [|p5 [|p6 [|p7 [|p8 l]]]]]]]]]; try exact W. apply rwf_upd_user, W. }
  destruct (cmdb e c_AWAY). { destruct (e_src e); [|exact W]. apply rwf_upd_user, W. }
  destruct (cmdb e c_ACCOUNT). { destruct (e_src e); [|exact W]. destruct (e_params e) as [|a [|b l]]; try exact W. apply rwf_upd_user, W. }
  destruct (cmdb e c_CHGHOST). { destruct (e_src e); [|exact W]. destruct (e_params e) as [|a [|b [|c l]]]; try exact W. apply rwf_upd_user, W. }
  destruct (cmdb e c_004).
  { destruct (e_params e) as [|a [|b [|c l]]]; try exact W. apply rwf_set_opts; [|exact W]. apply ksorted_sm_set, ksorted_sm_set, (wf_opts _ W). }
  destruct (cmdb e c_005).
  { destruct (e_params e); [exact W|]. apply rwf_set_opts; [|exact W]. apply isupport_sorted, (wf_opts _ W). }
  destruct (cmdb e c_375). { eapply rwf_scalar; [| | |exact W]; reflexivity. }
  destruct (cmdb e c_372). { eapply rwf_scalar; [| | |exact W]; reflexivity. }
  exact W.
Qed.

Lemma rwf_step r e : RWf r -> RWf (ref_step r e).
Proof. intros W. apply rwf_gc, rwf_cmd, rwf_tag, W. Qed.

Lemma rwf_run : forall h r, RWf r -> RWf (fold_left ref_step h r).
Proof. induction h as [|e h IH]; intros r W; simpl; [exact W|]. apply IH, rwf_step, W. Qed.
