(* Facts about the reference model alone (Spec/NetRef.v): the mode algebra. *)
Require Import Bytes AMap SMap Names State NetRef OrderLemmas.
From Coq Require Import Lia ZifyBool ZifyN ZifyNat.

(* ---- mode_set / mode_unset / mode_has / mode_arg ---- *)

Lemma mode_has_set x a l : mode_has x (mode_set x a l) = true.
Proof.
  induction l as [|[y b] l IH]; simpl; [rewrite N.eqb_refl; reflexivity|].
  destruct (y =? x) eqn:E; simpl; [rewrite N.eqb_refl; reflexivity|]. rewrite E. exact IH.
Qed.

Lemma mode_has_set_other x y a l : x <> y -> mode_has y (mode_set x a l) = mode_has y l.
Proof.
  intros Hne. induction l as [|[z b] l IH]; simpl.
  - assert (x =? y = false) by lia. rewrite H. reflexivity.
  - destruct (z =? x) eqn:E; simpl.
    + assert (x =? y = false) by lia. assert (z =? y = false) by lia. rewrite H, H0. reflexivity.
    + rewrite IH. reflexivity.
Qed.

Lemma mode_has_unset x l : mode_has x (mode_unset x l) = false.
Proof.
  induction l as [|[y b] l IH]; simpl; [reflexivity|].
  destruct (y =? x) eqn:E; simpl; [exact IH|]. rewrite E. exact IH.
Qed.

Lemma mode_has_unset_other x y l : x <> y -> mode_has y (mode_unset x l) = mode_has y l.
Proof.
  intros Hne. induction l as [|[z b] l IH]; simpl; [reflexivity|].
  destruct (z =? x) eqn:E; simpl.
  - assert (z =? y = false) by lia. rewrite H. exact IH.
  - rewrite IH. reflexivity.
Qed.

Lemma mode_arg_set x a l : mode_arg x (mode_set x a l) = match a with [] => None | _ => Some a end.
Proof.
  induction l as [|[y b] l IH]; simpl; [rewrite N.eqb_refl; reflexivity|].
  destruct (y =? x) eqn:E; simpl; [rewrite N.eqb_refl; reflexivity|]. rewrite E. exact IH.
Qed.

Lemma mode_arg_set_other x y a l : x <> y -> mode_arg y (mode_set x a l) = mode_arg y l.
Proof.
  intros Hne. induction l as [|[z b] l IH]; simpl.
  - assert (x =? y = false) by lia. rewrite H. reflexivity.
  - destruct (z =? x) eqn:E; simpl.
    + assert (x =? y = false) by lia. assert (z =? y = false) by lia. rewrite H, H0. reflexivity.
    + rewrite IH. reflexivity.
Qed.

Lemma mode_arg_unset x l : mode_arg x (mode_unset x l) = None.
Proof.
  induction l as [|[y b] l IH]; simpl; [reflexivity|].
  destruct (y =? x) eqn:E; simpl; [exact IH|]. rewrite E. exact IH.
Qed.

Lemma mode_arg_unset_other x y l : x <> y -> mode_arg y (mode_unset x l) = mode_arg y l.
Proof.
  intros Hne. induction l as [|[z b] l IH]; simpl; [reflexivity|].
  destruct (z =? x) eqn:E; simpl.
  - assert (z =? y = false) by lia. rewrite H. exact IH.
  - rewrite IH. reflexivity.
Qed.

Lemma mode_arg_has x l : mode_arg x l <> None -> mode_has x l = true.
Proof.
  induction l as [|[y b] l IH]; simpl; [congruence|].
  destruct (y =? x); simpl; auto.
Qed.

(* ---- the last change of a setting in one mode string ---- *)

(* the sign under which x last occurs in flags (read with initial sign add), if it occurs *)
Fixpoint last_sign (flags : str) (add : bool) (x : N) : option bool :=
  match flags with
  | [] => None
  | f :: fs =>
      if f =? 43 then last_sign fs true x
      else if f =? 45 then last_sign fs false x
      else match last_sign fs add x with
           | Some b => Some b
           | None => if f =? x then Some add else None
           end
  end.

Definition is_setting (cm pm : str) (x : N) : Prop :=
  mode_class cm pm x = MArg \/ mode_class cm pm x = MSetArg \/ mode_class cm pm x = MFlag.

Lemma rc_modes_member_perm kn x on c : rc_modes (rc_member_perm kn x on c) = rc_modes c.
Proof. reflexivity. Qed.

(* HasMode after a MODE message: the sign of the last change of x, else what it was *)
Lemma mode_walk_has cm pm x : is_setting cm pm x ->
  forall flags args add c,
  mode_has x (rc_modes (mode_walk cm pm flags args add c)) =
  match last_sign flags add x with Some b => b | None => mode_has x (rc_modes c) end.
Proof.
  intros Hset. induction flags as [|f fs IH]; intros args add c; simpl; [reflexivity|].
  destruct (f =? 43) eqn:E43; [apply IH|]. destruct (f =? 45) eqn:E45; [apply IH|].
  destruct (f =? x) eqn:Efx.
  - apply N.eqb_eq in Efx. subst f.
    assert (K : forall c' args', mode_has x (rc_modes c') = add ->
              mode_has x (rc_modes (mode_walk cm pm fs args' add c')) =
              match last_sign fs add x with Some b => b | None => add end).
    { intros c' args' Hc'. rewrite IH. destruct (last_sign fs add x); [reflexivity|exact Hc']. }
    destruct Hset as [H|[H|H]]; rewrite H.
    + rewrite K; [destruct (last_sign fs add x); reflexivity|].
      destruct add; simpl; [apply mode_has_set|apply mode_has_unset].
    + destruct add.
      * rewrite K; [destruct (last_sign fs true x); reflexivity|]. simpl. apply mode_has_set.
      * rewrite K; [destruct (last_sign fs false x); reflexivity|]. simpl. apply mode_has_unset.
    + rewrite K; [destruct (last_sign fs add x); reflexivity|].
      destruct add; simpl; [apply mode_has_set|apply mode_has_unset].
  - assert (Hne : f <> x) by lia.
    assert (K : forall c' args', mode_has x (rc_modes c') = mode_has x (rc_modes c) ->
              mode_has x (rc_modes (mode_walk cm pm fs args' add c')) =
              match last_sign fs add x with Some b => b | None => mode_has x (rc_modes c) end).
    { intros c' args' Hc'. rewrite IH, Hc'. reflexivity. }
    assert (R : match match last_sign fs add x with Some b => Some b | None => None end with
                | Some b => b | None => mode_has x (rc_modes c) end =
                match last_sign fs add x with Some b => b | None => mode_has x (rc_modes c) end)
      by (destruct (last_sign fs add x); reflexivity).
    rewrite R.
    destruct (mode_class cm pm f).
    + apply K. reflexivity.
    + apply K. destruct add; simpl; [apply mode_has_set_other|apply mode_has_unset_other]; exact Hne.
    + destruct add; apply K; simpl; [apply mode_has_set_other|apply mode_has_unset_other]; exact Hne.
    + apply K. reflexivity.
    + apply K. destruct add; simpl; [apply mode_has_set_other|apply mode_has_unset_other]; exact Hne.
Qed.

(* "+x ... and no later -x" / "-x ... and no later +x" *)
Corollary mode_walk_set_stays cm pm x flags args c : is_setting cm pm x ->
  last_sign flags true x = Some true -> mode_has x (rc_modes (mode_walk cm pm flags args true c)) = true.
Proof. intros Hs Hl. rewrite (mode_walk_has _ _ _ Hs), Hl. reflexivity. Qed.

Corollary mode_walk_unset_gone cm pm x flags args c : is_setting cm pm x ->
  last_sign flags true x = Some false -> mode_has x (rc_modes (mode_walk cm pm flags args true c)) = false.
Proof. intros Hs Hl. rewrite (mode_walk_has _ _ _ Hs), Hl. reflexivity. Qed.

Corollary mode_walk_untouched cm pm x flags args c : is_setting cm pm x ->
  last_sign flags true x = None ->
  mode_has x (rc_modes (mode_walk cm pm flags args true c)) = mode_has x (rc_modes c).
Proof. intros Hs Hl. rewrite (mode_walk_has _ _ _ Hs), Hl. reflexivity. Qed.

(* arguments follow the CHANMODES classes, on a single change *)
Lemma mode_walk_one_arg cm pm x a c :
  mode_arg x (rc_modes (mode_walk cm pm [43; x] [a] true c)) =
  (if (x =? 43) || (x =? 45) then mode_arg x (rc_modes c) else
   match mode_class cm pm x with
   | MArg | MSetArg => match a with [] => None | _ => Some a end   (* B, C: "+x arg" stores the argument *)
   | MFlag => None                                               (* D: never an argument *)
   | MList | MPrefix => mode_arg x (rc_modes c)                    (* not settings: nothing stored *)
   end).
Proof.
  simpl. destruct (x =? 43) eqn:E1; [reflexivity|]. destruct (x =? 45) eqn:E2; [reflexivity|]. simpl.
  destruct (mode_class cm pm x); simpl; try reflexivity; apply mode_arg_set.
Qed.

Lemma mode_walk_one_unset cm pm x args c : x <> 43 -> x <> 45 -> is_setting cm pm x ->
  mode_has x (rc_modes (mode_walk cm pm [45; x] args true c)) = false /\
  mode_arg x (rc_modes (mode_walk cm pm [45; x] args true c)) = None.
Proof.
  intros H1 H2 Hs. simpl. assert (x =? 43 = false) by lia. assert (x =? 45 = false) by lia. rewrite H, H0.
  destruct Hs as [Hc|[Hc|Hc]]; rewrite Hc; simpl; split; first [apply mode_has_unset | apply mode_arg_unset].
Qed.

Example is_setting_rfc_m : is_setting rfc_chanmodes [111; 118] 109.   (* "m" under the RFC defaults *)
Proof. right; right. reflexivity. Qed.
Example last_sign_ex : last_sign [43; 110; 116; 109; 45; 116] true 109 = Some true /\
                       last_sign [43; 110; 116; 109; 45; 116] true 116 = Some false.
Proof. split; reflexivity. Qed.
