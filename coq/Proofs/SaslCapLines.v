(* Proofs for C09, part 5: CAP lines that arrive while the SASL exchange is running.
   handleCAP (Model/Cap.v handle_cap, composed into the session model by Model/Sasl.v) is
   analysed by reply pattern with Proofs/CapProofs.v handle_cap_by_kind:
     - exactly which CAP lines elicit CAP END (cap_end_iff),
     - a CAP line outside that list leaves sasl acknowledged and CAP END unsent
       (cap_quiet_step); a further ACK re-sends AUTHENTICATE <mech> (ack_during_auth),
     - the fail-closed history theorems over the alphabet extended by CAP lines, for
       mechanisms that keep state (run_stateful) and, as a special case, pure ones. *)
Require Import Bytes Utf8 Base64 CapLib StsState Cap CapSpec CapLemmas CapProofs.
Require Import Sasl SaslSpec FormatLemmas SaslProofs SaslFailClosed SaslStateful.
From Coq Require Import Lia.

(* ---- handleCAP in the session model, by reply pattern ------------------------------- *)

Lemma ack_result_no_sts cfg tls now st ps :
  c_disable_sts cfg = true ->
  ack_result cfg tls now st ps = ack_finish cfg (en_after_ack st ps) (st_sts st).
Proof.
  intros Hd. unfold ack_result. cbv zeta. rewrite Hd. cbn [negb].
  destruct (aget s_sts (en_after_ack st ps)); reflexivity.
Qed.

Definition ack_reply (m : sasl_mech) (en1 : capmap) : list output :=
  if amem s_sasl en1 then [Sasl.Write (plain_ev c_AUTHENTICATE [mech_method m])]
  else [Sasl.Write cap_end].

Lemma handle_cap_kinds c m ns e :
  cfg_sasl c = Some m ->
  Sasl.handle_cap c ns e =
  match classify (ev_params e) with
  | KDel => (mkSt (tmp_after_del ns (ev_params e))
                  (fold_left (fun en k => adel k en)
                             (akeys (parse_cap (last_or_empty (ev_params e)))) (st_enabled ns))
                  (st_sts ns), [])
  | KNak => (st_after_nak ns, [Sasl.Write cap_end])
  | KFinal =>
      let tmp1 := tmp_after_ls (cap_cfg_of c) 0 ns (ev_params e) in
      (mkSt tmp1 (st_enabled ns) (st_sts ns),
       if Nat.eqb (length tmp1) 0 then [Sasl.Write cap_end]
       else [Sasl.Write (plain_ev c_CAP [c_REQ; join [32] (cfg_ord c (akeys tmp1))])])
  | KCont => (mkSt (tmp_after_ls (cap_cfg_of c) 0 ns (ev_params e)) (st_enabled ns) (st_sts ns), [])
  | KAck => (mkSt [] (en_after_ack ns (ev_params e)) (st_sts ns),
             ack_reply m (en_after_ack ns (ev_params e)))
  | KOther => (mkSt (st_tmp ns) (st_enabled ns) (st_sts ns), [])
  end.
Proof.
  intros Hs. unfold Sasl.handle_cap. rewrite handle_cap_by_kind.
  destruct (classify (ev_params e)); try reflexivity.
  - cbv zeta. destruct (Nat.eqb (length (tmp_after_ls (cap_cfg_of c) 0 ns (ev_params e))) 0); reflexivity.
  - rewrite ack_result_no_sts by reflexivity. unfold ack_finish, ack_reply, amem.
    change (Cap.c_sasl (cap_cfg_of c)) with (option_map mech_method (cfg_sasl c)). rewrite Hs.
    cbn [option_map]. destruct (aget s_sasl (en_after_ack ns (ev_params e))); reflexivity.
Qed.

(* with STS disabled handleCAP only ever writes lines: the two STS outcomes cannot occur *)
Lemma handle_cap_writes_only c ns e :
  Forall (fun o => exists cmd ps, o = Cap.Write cmd ps)
         (snd (Cap.handle_cap (cfg_ord c) (cap_cfg_of c) false 0 ns (ev_params e))).
Proof.
  rewrite handle_cap_by_kind. destruct (classify (ev_params e)); cbn [snd]; try (constructor; fail).
  - repeat constructor. eexists _, _. reflexivity.
  - cbv zeta. destruct (Nat.eqb _ 0); cbn [snd]; repeat constructor; eexists _, _; reflexivity.
  - rewrite ack_result_no_sts by reflexivity. unfold ack_finish.
    destruct (aget s_sasl _); [destruct (Cap.c_sasl (cap_cfg_of c))|]; cbn [snd];
      repeat constructor; eexists _, _; reflexivity.
Qed.

Lemma first_inject_cap_outputs l : first_inject (flat_map cap_out_outputs l) = None.
Proof.
  induction l as [|o l IH]; [reflexivity|]. destruct o; cbn [flat_map cap_out_outputs app first_inject]; exact IH.
Qed.

(* execLoop on a CAP line: the handler's state and writes, Connect goes on *)
Lemma exec_loop_iter_cap c ns e :
  cfg_tracking c = true -> cap_event e ->
  exec_loop_iter c ns e = Ok (fst (Sasl.handle_cap c ns e), snd (Sasl.handle_cap c ns e), None).
Proof.
  intros Ht [Hecho Hcmd]. unfold exec_loop_iter, run_handlers. rewrite Ht, Hecho, Hcmd. reflexivity.
Qed.

Lemma first_inject_handle_cap c ns e : first_inject (snd (Sasl.handle_cap c ns e)) = None.
Proof. unfold Sasl.handle_cap. cbn [snd]. apply first_inject_cap_outputs. Qed.

Lemma feed_cap c ns e :
  cfg_tracking c = true -> cap_event e ->
  feed c (mkConn ns None) e =
    Ok (mkConn (fst (Sasl.handle_cap c ns e)) None, snd (Sasl.handle_cap c ns e)).
Proof.
  intros Ht He. unfold feed. cbn [cn_returned cn_ns].
  rewrite (exec_loop_iter_cap c ns e Ht He). cbn [rbind].
  rewrite first_inject_handle_cap. reflexivity.
Qed.

(* ---- sasl stays acknowledged ---------------------------------------------------------- *)

Lemma sasl_not_dash : forall name, s_sasl <> 45 :: name.
Proof. intros name H. discriminate H. Qed.

Lemma ack_step_keeps tmp en tok :
  tok <> 45 :: s_sasl -> In s_sasl (akeys en) \/ tok = s_sasl ->
  In s_sasl (akeys (ack_step tmp en tok)).
Proof.
  intros Hne H. unfold ack_step.
  assert (Keep : In s_sasl (akeys (match aget tok tmp with
                                   | Some v => aset tok v en | None => aset tok None en end))).
  { destruct (aget tok tmp); rewrite akeys_aset; destruct H as [H| ->]; auto. }
  destruct tok as [|b name]; [exact Keep|].
  destruct (N.eqb b 45) eqn:Eb; [|exact Keep].
  apply N.eqb_eq in Eb. subst b. rewrite akeys_adel. destruct H as [H|H].
  - split; [congruence | exact H].
  - exfalso. exact (sasl_not_dash name (eq_sym H)).
Qed.

Lemma ack_fold_keeps tmp toks : forall en,
  ~ In (45 :: s_sasl) toks -> In s_sasl (akeys en) \/ In s_sasl toks ->
  In s_sasl (akeys (fold_left (ack_step tmp) toks en)).
Proof.
  induction toks as [|t toks IH]; intros en Hno H; cbn [fold_left].
  - destruct H as [H|[]]. exact H.
  - apply IH; [intros Hin; apply Hno; right; exact Hin|].
    destruct (str_eq_dec t s_sasl) as [E|E].
    + left. apply ack_step_keeps; [|right; exact E]. intros Hd. apply Hno. left. exact Hd.
    + destruct H as [H|[H|H]]; [|congruence|right; exact H].
      left. apply ack_step_keeps; [|left; exact H]. intros Hd. apply Hno. left. exact Hd.
Qed.

Lemma en_after_ack_keeps ns ps :
  ~ In (45 :: s_sasl) (cap_tokens ps) ->
  amem s_sasl (st_enabled ns) = true \/ In s_sasl (cap_tokens ps) ->
  amem s_sasl (en_after_ack ns ps) = true.
Proof.
  intros Hno H. apply amem_In. unfold en_after_ack. apply ack_fold_keeps; [exact Hno|].
  destruct H as [H|H]; [left; apply amem_In; exact H | right; exact H].
Qed.

(* ---- a name is requestable iff possibleCapList has it --------------------------------- *)

Lemma possible_requestable c m r k :
  cfg_sasl c = Some m -> (amem k (possible_caps (cap_cfg_of c) r) = true <-> requestable k).
Proof.
  intros Hs. rewrite amem_In, possible_caps_keys. unfold requestable.
  change (Cap.c_sasl (cap_cfg_of c)) with (option_map mech_method (cfg_sasl c)). rewrite Hs.
  cbn [option_map cap_cfg_of c_supported c_disable_sts akeys List.map In]. split.
  - intros [H|[[]|[[H _]|[_ [H _]]]]]; [left; exact H | right; exact H | discriminate].
  - intros [H|H]; [left; exact H|]. right. right. left. split; [exact H | discriminate].
Qed.

Lemma tmp_empty_iff c m ns ps :
  cfg_sasl c = Some m ->
  (length (tmp_after_ls (cap_cfg_of c) 0 ns ps) = 0%nat <->
   st_tmp ns = [] /\
   forall k, In k (List.map cap_token_name (cap_tokens ps)) -> ~ requestable k).
Proof.
  intros Hs. rewrite akeys_nil_length. split.
  - intros H. split.
    + destruct (st_tmp ns) as [|[k v] r] eqn:E; [reflexivity|]. exfalso.
      assert (Hin : In k (akeys (tmp_after_ls (cap_cfg_of c) 0 ns ps))).
      { apply tmp_after_ls_keys. left. rewrite E. left. reflexivity. }
      rewrite H in Hin. exact Hin.
    + intros k Hk Hr.
      assert (Hin : In k (akeys (tmp_after_ls (cap_cfg_of c) 0 ns ps))).
      { apply tmp_after_ls_keys. right. split; [exact Hk|].
        apply (possible_requestable c m _ k Hs). exact Hr. }
      rewrite H in Hin. exact Hin.
  - intros [Ht Hno]. destruct (akeys (tmp_after_ls (cap_cfg_of c) 0 ns ps)) as [|k r] eqn:E; [reflexivity|].
    exfalso. assert (Hin : In k (akeys (tmp_after_ls (cap_cfg_of c) 0 ns ps))) by (rewrite E; left; reflexivity).
    apply tmp_after_ls_keys in Hin. destruct Hin as [Hin|[Hk Hp]].
    + rewrite Ht in Hin. exact Hin.
    + apply (possible_requestable c m _ k Hs) in Hp. exact (Hno k Hk Hp).
Qed.

(* ---- exactly which CAP lines elicit CAP END -------------------------------------------- *)

Lemma req_not_cap_end x : plain_ev c_CAP [c_REQ; x] <> cap_end.
Proof. intros H. discriminate H. Qed.
Lemma auth_not_cap_end x : plain_ev c_AUTHENTICATE [x] <> cap_end.
Proof. intros H. discriminate H. Qed.

Theorem cap_end_iff c m ns e :
  cfg_sasl c = Some m ->
  (In cap_end (writes_of (snd (Sasl.handle_cap c ns e))) <->
   is_nak (ev_params e) = true /\ is_del (ev_params e) = false \/
   (is_final_ls (ev_params e) = true /\ is_nak (ev_params e) = false /\ is_del (ev_params e) = false /\
    st_tmp ns = [] /\
    forall k, In k (List.map cap_token_name (cap_tokens (ev_params e))) -> ~ requestable k) \/
   (is_ack (ev_params e) = true /\ is_del (ev_params e) = false /\
    amem s_sasl (en_after_ack ns (ev_params e)) = false)).
Proof.
  intros Hs. rewrite (handle_cap_kinds c m ns e Hs).
  pose proof (classify_inv (ev_params e)) as Hinv.
  pose proof (tmp_empty_iff c m ns (ev_params e) Hs) as Htmp.
  destruct (classify (ev_params e)) eqn:Ek; cbn [snd writes_of In].
  - (* DEL *) split; [intros []|]. rewrite Hinv.
    intros [[_ H]|[[_ [_ [H _]]]|[_ [H _]]]]; discriminate.
  - (* NAK *) destruct Hinv as [Hn [Hd Ha]]. split; [intros _; left; split; assumption|]. intros _. left. reflexivity.
  - (* final LS / NEW *)
    destruct Hinv as [Hf [Hl [Hd Ha]]].
    assert (Hn : is_nak (ev_params e) = false).
    { destruct (is_nak (ev_params e)) eqn:E; [|reflexivity].
      rewrite (classify_nak _ E) in Ek. discriminate. }
    cbv zeta. destruct (Nat.eqb (length (tmp_after_ls (cap_cfg_of c) 0 ns (ev_params e))) 0) eqn:El.
    + apply Nat.eqb_eq in El. apply Htmp in El. destruct El as [Ht Hno].
      cbn [writes_of In]. split; [|intros _; left; reflexivity].
      intros _. right. left. repeat split; assumption.
    + apply Nat.eqb_neq in El. cbn [writes_of In]. split.
      * intros [H|[]]. exfalso. exact (req_not_cap_end _ H).
      * rewrite Hn, Ha. intros [[H _]|[[_ [_ [_ [Ht Hno]]]]|[H _]]]; try discriminate.
        exfalso. apply El. apply Htmp. split; assumption.
  - (* continuation *) destruct Hinv as [Hc [Hl [Hd Ha]]]. split; [intros []|].
    assert (Hn : is_nak (ev_params e) = false).
    { destruct (is_nak (ev_params e)) eqn:E; [|reflexivity].
      rewrite (classify_nak _ E) in Ek. discriminate. }
    assert (Hf : is_final_ls (ev_params e) = false).
    { destruct (is_final_ls (ev_params e)) eqn:E; [|reflexivity].
      rewrite (classify_final _ E) in Ek. discriminate. }
    rewrite Hn, Hf, Ha. intros [[H _]|[[H _]|[H _]]]; discriminate.
  - (* ACK *) destruct Hinv as [Ha [Hd Hl]]. unfold ack_reply.
    assert (Hn : is_nak (ev_params e) = false).
    { destruct (is_nak (ev_params e)) eqn:E; [|reflexivity].
      rewrite (classify_nak _ E) in Ek. discriminate. }
    assert (Hf : is_final_ls (ev_params e) = false).
    { unfold is_final_ls. rewrite Hl. reflexivity. }
    destruct (amem s_sasl (en_after_ack ns (ev_params e))) eqn:Em; cbn [writes_of In].
    + split; [intros [H|[]]; exfalso; exact (auth_not_cap_end _ H)|].
      rewrite Hn, Hf. intros [[H _]|[[H _]|[_ [_ H]]]]; discriminate.
    + split; [|intros _; left; reflexivity]. intros _. right. right. repeat split; assumption.
  - (* other *) destruct Hinv as [Hd [Hn [Hl Ha]]]. split; [intros []|].
    assert (Hf : is_final_ls (ev_params e) = false).
    { unfold is_final_ls. rewrite Hl. reflexivity. }
    rewrite Hn, Hf, Ha. intros [[H _]|[[H _]|[H _]]]; discriminate.
Qed.

(* ---- a quiet CAP line while sasl is acknowledged ----------------------------------------- *)

Theorem cap_quiet_step c m ns e :
  cfg_sasl c = Some m -> sasl_enabled ns -> cap_quiet (ev_params e) ->
  sasl_enabled (fst (Sasl.handle_cap c ns e)) /\
  ~ In cap_end (writes_of (snd (Sasl.handle_cap c ns e))).
Proof.
  intros Hs Hen [Qn [Qd [Qf Qa]]]. split.
  - unfold sasl_enabled in *. rewrite (handle_cap_kinds c m ns e Hs).
    pose proof (classify_inv (ev_params e)) as Hinv.
    destruct (classify (ev_params e)); cbn [fst st_enabled]; try exact Hen.
    + (* DEL *) apply amem_In. rewrite akeys_fold_adel. split; [apply amem_In; exact Hen|].
      rewrite parse_cap_keys. exact (Qd Hinv).
    + (* ACK *) destruct Hinv as [Ha _]. apply en_after_ack_keeps; [exact (Qa Ha) | left; exact Hen].
  - rewrite (cap_end_iff c m ns e Hs). intros [[Hn _]|[[Hf [_ [_ [_ Hno]]]]|[Ha [_ Hm]]]].
    + rewrite Hn in Qn. discriminate.
    + destruct (Qf Hf) as [k [Hk Hr]]. exact (Hno k Hk Hr).
    + rewrite (en_after_ack_keeps ns (ev_params e) (Qa Ha) (or_introl Hen)) in Hm. discriminate.
Qed.

(* The line of the seeded regression: an ACK that does not take sasl away, arriving while
   sasl is acknowledged (or acknowledging it), is answered by AUTHENTICATE <mech> and
   nothing else; sasl stays acknowledged, tmpCap is reset. *)
Theorem ack_during_auth c m ns e :
  cfg_sasl c = Some m -> is_ack (ev_params e) = true ->
  ~ In (45 :: s_sasl) (cap_tokens (ev_params e)) ->
  sasl_enabled ns \/ In s_sasl (cap_tokens (ev_params e)) ->
  Sasl.handle_cap c ns e =
    (mkSt [] (en_after_ack ns (ev_params e)) (st_sts ns),
     [Sasl.Write (plain_ev c_AUTHENTICATE [mech_method m])]) /\
  sasl_enabled (mkSt [] (en_after_ack ns (ev_params e)) (st_sts ns)).
Proof.
  intros Hs Ha Hno Hen. rewrite (handle_cap_kinds c m ns e Hs), (classify_ack _ Ha).
  pose proof (en_after_ack_keeps ns (ev_params e) Hno Hen) as Hk.
  unfold ack_reply. rewrite Hk. split; [reflexivity | exact Hk].
Qed.

Theorem ack_starts_authentication c m ns e :
  cfg_sasl c = Some m -> cfg_tracking c = true -> cap_event e ->
  is_ack (ev_params e) = true -> ~ In (45 :: s_sasl) (cap_tokens (ev_params e)) ->
  sasl_enabled ns \/ In s_sasl (cap_tokens (ev_params e)) ->
  feed c (mkConn ns None) e =
    Ok (mkConn (mkSt [] (en_after_ack ns (ev_params e)) (st_sts ns)) None,
        [Sasl.Write (plain_ev c_AUTHENTICATE [mech_method m])]).
Proof.
  intros Hs Ht He Ha Hno Hen. rewrite (feed_cap c ns e Ht He).
  destruct (ack_during_auth c m ns e Hs Ha Hno Hen) as [-> _]. reflexivity.
Qed.

(* ---- histories over the extended alphabet, mechanisms that keep state ------------------- *)

Definition step_in_alphabet_cap (x : sasl_mech * event) : Prop := in_alphabet_cap (snd x).
Definition step_in_alphabet_anycap (x : sasl_mech * event) : Prop := in_alphabet_anycap (snd x).

Lemma cap_not_fatal m e : ev_cmd e = c_CAP -> fatalb m e = false.
Proof. intros H. unfold fatalb. rewrite H. reflexivity. Qed.

Lemma cap_not_903 e : ev_cmd e = c_CAP -> ev_cmd e <> n903.
Proof. intros H. rewrite H. discriminate. Qed.

Section CapLines.
  Variable c : config.
  Hypothesis Htrack : cfg_tracking c = true.

  Lemma set_sasl_tracking m : cfg_tracking (set_sasl c m) = true.
  Proof. exact Htrack. Qed.

  (* one step, any event of the extended alphabet: never a panic, Connect returns exactly
     on a fatal event *)
  Lemma step_any m ns e :
    in_alphabet_anycap e ->
    exists ns' ret outs,
      feed (set_sasl c m) (mkConn ns None) e = Ok (mkConn ns' ret, outs) /\
      (fatalb m e = true -> ns' = ns /\ ret = Some (fatal_text m e) /\ outs = [InjectError (fatal_text m e)]) /\
      (fatalb m e = false -> ret = None).
  Proof.
    intros [Ha|Hc].
    - destruct (feed_step_at c Htrack m ns e Ha) as [cn' [outs [Hf Hs]]].
      destruct (step_spec_fatal m _ _ _ _ Hs) as [Hns [Hfat Hopen]]. destruct cn' as [ns' r'].
      cbn [cn_ns cn_returned] in Hns, Hfat, Hopen. exists ns', r', outs. split; [exact Hf|]. split.
      + intros H. destruct (Hfat H) as [H1 H2]. repeat split; assumption.
      + exact Hopen.
    - rewrite (feed_cap (set_sasl c m) ns e (set_sasl_tracking m) Hc). eexists _, _, _.
      split; [reflexivity|]. destruct Hc as [_ Hcmd]. rewrite (cap_not_fatal m e Hcmd).
      split; [discriminate | reflexivity].
  Qed.

  (* one step of the quiet alphabet while sasl is acknowledged *)
  Lemma step_quiet m ns e cn' outs :
    in_alphabet_cap e -> ev_cmd e <> n903 -> sasl_enabled ns ->
    feed (set_sasl c m) (mkConn ns None) e = Ok (cn', outs) ->
    sasl_enabled (cn_ns cn') /\ ~ In cap_end (writes_of outs).
  Proof.
    intros [Ha|[Hc Hq]] Hne Hen Hf.
    - destruct (feed_step_at c Htrack m ns e Ha) as [cn'' [outs'' [Hf' Hs]]].
      rewrite Hf' in Hf. injection Hf as <- <-.
      destruct (step_spec_fatal m _ _ _ _ Hs) as [Hns _]. rewrite Hns. split; [exact Hen|].
      pose proof (proj1 (step_spec_writes m _ _ _ _ Hs) Hne) as HF. rewrite Forall_forall in HF.
      intros Hin. exact (cap_end_not_authenticate (HF _ Hin)).
    - rewrite (feed_cap (set_sasl c m) ns e (set_sasl_tracking m) Hc) in Hf. injection Hf as <- <-.
      cbn [cn_ns]. exact (cap_quiet_step (set_sasl c m) m ns e eq_refl Hen Hq).
  Qed.

  (* CAP END only after success, CAP lines included: from a state in which sasl is
     acknowledged, nothing written in answer to a 903-free prefix is CAP END, and sasl is
     still acknowledged afterwards. *)
  Theorem rsx_no_cap_end_before_success s1 : forall s2 cn cn' outs,
    Forall step_in_alphabet_cap s1 -> Forall (fun x => ev_cmd (snd x) <> n903) s1 ->
    sasl_enabled (cn_ns cn) ->
    run_stateful c cn (s1 ++ s2) = Ok (cn', outs) ->
    exists cn1 o1 o2,
      run_stateful c cn s1 = Ok (cn1, o1) /\ run_stateful c cn1 s2 = Ok (cn', o2) /\ outs = o1 ++ o2 /\
      ~ In cap_end (writes_of o1) /\ sasl_enabled (cn_ns cn1).
  Proof.
    intros s2 cn cn' outs Hal Hno Hen Hrun.
    destruct (rs_app c s1 s2 cn cn' outs Hrun) as [cn1 [o1 [o2 [H1 [H2 Ho]]]]].
    exists cn1, o1, o2. split; [exact H1|]. split; [exact H2|]. split; [exact Ho|].
    clear Hrun H2 Ho. revert cn cn1 o1 Hen H1.
    induction s1 as [|[m e] s1 IH]; intros cn cn1 o1 Hen H1.
    - cbn [run_stateful] in H1. injection H1 as <- <-. split; [intros []|exact Hen].
    - inversion Hal as [|? ? Hae Hal']; subst. inversion Hno as [|? ? Hne Hno']; subst.
      cbn [snd] in Hne. unfold step_in_alphabet_cap in Hae. cbn [snd] in Hae.
      apply rs_cons_inv in H1. destruct H1 as [cna [oa [ob [Hf [Hr ->]]]]].
      assert (Hstep : sasl_enabled (cn_ns cna) /\ ~ In cap_end (writes_of oa)).
      { destruct cn as [ns [t|]].
        - rewrite (feed_returned (set_sasl c m) (mkConn ns (Some t)) e t eq_refl) in Hf.
          injection Hf as <- <-. split; [exact Hen | intros []].
        - exact (step_quiet m ns e cna oa Hae Hne Hen Hf). }
      destruct Hstep as [Hen' Hnoa]. destruct (IH Hal' Hno' cna cn1 ob Hen' Hr) as [Hnob Hen1].
      split; [|exact Hen1]. rewrite writes_of_app. intros Hin. apply in_app_or in Hin.
      destruct Hin as [Hin|Hin]; [exact (Hnoa Hin) | exact (Hnob Hin)].
  Qed.

  Theorem rsx_stays_open steps : forall ns,
    Forall step_in_alphabet_anycap steps -> Forall (fun x => step_fatalb x = false) steps ->
    exists ns' outs, run_stateful c (mkConn ns None) steps = Ok (mkConn ns' None, outs).
  Proof.
    induction steps as [|[m e] r IH]; intros ns Hal Hnf; [eexists _, _; reflexivity|].
    inversion Hal as [|? ? Hae Hal']; subst. inversion Hnf as [|? ? Hne Hnf']; subst.
    unfold step_in_alphabet_anycap in Hae. unfold step_fatalb in Hne. cbn [fst snd] in Hae, Hne.
    destruct (step_any m ns e Hae) as [ns1 [ret [o1 [Hf [_ Hopen]]]]]. rewrite (Hopen Hne) in Hf.
    destruct (IH ns1 Hal' Hnf') as [ns' [o2 Hr]].
    eexists _, _. exact (rs_cons _ _ _ _ _ _ _ _ _ Hf Hr).
  Qed.

  Theorem rsx_fails_closed s1 m e s2 ns :
    Forall step_in_alphabet_anycap s1 -> Forall (fun x => step_fatalb x = false) s1 ->
    in_alphabet_anycap e -> fatalb m e = true ->
    exists ns' o1,
      run_stateful c (mkConn ns None) s1 = Ok (mkConn ns' None, o1) /\
      run_stateful c (mkConn ns None) (s1 ++ (m, e) :: s2) =
        Ok (mkConn ns' (Some (fatal_text m e)), o1 ++ [InjectError (fatal_text m e)]).
  Proof.
    intros Hal Hnf Hae He.
    destruct (rsx_stays_open s1 ns Hal Hnf) as [ns' [o1 H1]]. exists ns', o1. split; [exact H1|].
    destruct (step_any m ns' e Hae) as [ns2 [ret [oe [Hf [Hfat _]]]]].
    destruct (Hfat He) as [-> [-> ->]].
    pose proof (rs_returned c s2 (mkConn ns' (Some (fatal_text m e))) (fatal_text m e) eq_refl) as H2.
    pose proof (rs_cons _ _ _ _ _ _ _ _ _ Hf H2) as He2. rewrite app_nil_r in He2.
    clear Hfat Hal Hnf.
    revert H1. generalize (mkConn ns None). revert o1.
    induction s1 as [|[mx x] s1 IH]; intros o1 cn0 H1.
    - cbn [run_stateful] in H1. injection H1 as -> <-. exact He2.
    - apply rs_cons_inv in H1. destruct H1 as [cna [oa [ob [Hfa [Hr ->]]]]].
      cbn [app]. rewrite <- app_assoc.
      exact (rs_cons _ _ _ _ _ _ _ _ _ Hfa (IH ob cna Hr)).
  Qed.

  Theorem rsx_returned_iff_fatal steps ns cn' outs :
    Forall step_in_alphabet_anycap steps -> run_stateful c (mkConn ns None) steps = Ok (cn', outs) ->
    (cn_returned cn' <> None <-> Exists (fun x => step_fatalb x = true) steps).
  Proof.
    intros Hal Hrun.
    assert (Hdec : Forall (fun x => step_fatalb x = false) steps \/
                   exists s1 x s2, steps = s1 ++ x :: s2 /\ Forall (fun y => step_fatalb y = false) s1 /\
                                   step_fatalb x = true).
    { clear. induction steps as [|x r IH]; [left; constructor|].
      destruct (step_fatalb x) eqn:E.
      - right. exists [], x, r. split; [reflexivity|]. split; [constructor | exact E].
      - destruct IH as [IH|[s1 [y [s2 [-> [H1 H2]]]]]].
        + left. constructor; assumption.
        + right. exists (x :: s1), y, s2. split; [reflexivity|]. split; [constructor; assumption | exact H2]. }
    destruct Hdec as [Hnf|[s1 [[m e] [s2 [-> [Hnf He]]]]]].
    - destruct (rsx_stays_open steps ns Hal Hnf) as [ns' [o Hr]]. rewrite Hr in Hrun. injection Hrun as <- _.
      cbn [cn_returned]. split; [congruence|]. intros Hex. exfalso.
      apply Exists_exists in Hex. destruct Hex as [x [Hin Hx]].
      rewrite Forall_forall in Hnf. rewrite (Hnf x Hin) in Hx. discriminate.
    - apply Forall_app in Hal. destruct Hal as [Hal1 Hal2].
      inversion Hal2 as [|? ? Hae _]; subst.
      destruct (rsx_fails_closed s1 m e s2 ns Hal1 Hnf Hae He) as [ns' [o1 [_ Hr]]].
      rewrite Hr in Hrun. injection Hrun as <- _. cbn [cn_returned]. split; [|discriminate].
      intros _. apply Exists_app. right. constructor. exact He.
  Qed.
End CapLines.

(* ---- the same for a pure mechanism (run) -------------------------------------------------- *)

Lemma set_sasl_id c m : cfg_sasl c = Some m -> set_sasl c m = c.
Proof. destruct c as [s p w t n u na o]. cbn. intros ->. reflexivity. Qed.

Lemma run_as_stateful c m h cn :
  cfg_sasl c = Some m -> run c cn h = run_stateful c cn (List.map (fun e => (m, e)) h).
Proof. intros Hs. rewrite rs_pure, (set_sasl_id c m Hs). reflexivity. Qed.

Lemma Forall_map_pair {P : event -> Prop} (m : sasl_mech) h :
  Forall P h -> Forall (fun x : sasl_mech * event => P (snd x)) (List.map (fun e => (m, e)) h).
Proof. induction 1; cbn [List.map]; constructor; assumption. Qed.

Lemma Forall_map_fatal m h :
  Forall (fun x => fatalb m x = false) h ->
  Forall (fun x => step_fatalb x = false) (List.map (fun e => (m, e)) h).
Proof. induction 1; cbn [List.map]; constructor; assumption. Qed.

Theorem no_cap_end_before_success_cap c m :
  cfg_sasl c = Some m -> cfg_tracking c = true ->
  forall h1 h2 cn cn' outs,
  Forall in_alphabet_cap h1 -> Forall (fun e => ev_cmd e <> n903) h1 -> sasl_enabled (cn_ns cn) ->
  run c cn (h1 ++ h2) = Ok (cn', outs) ->
  exists cn1 o1 o2,
    run c cn h1 = Ok (cn1, o1) /\ run c cn1 h2 = Ok (cn', o2) /\ outs = o1 ++ o2 /\
    ~ In cap_end (writes_of o1) /\ sasl_enabled (cn_ns cn1).
Proof.
  intros Hs Ht h1 h2 cn cn' outs Hal Hno Hen Hrun.
  rewrite (run_as_stateful c m _ cn Hs), map_app in Hrun.
  destruct (rsx_no_cap_end_before_success c Ht _ _ cn cn' outs
              (Forall_map_pair m h1 Hal) (Forall_map_pair (P := fun e => ev_cmd e <> n903) m h1 Hno) Hen Hrun)
    as [cn1 [o1 [o2 [H1 [H2 [Ho [Hne Hen1]]]]]]].
  exists cn1, o1, o2. rewrite !(run_as_stateful c m _ _ Hs). repeat split; assumption.
Qed.

Theorem fails_closed_cap c m :
  cfg_sasl c = Some m -> cfg_tracking c = true ->
  forall h1 e h2 ns,
  Forall in_alphabet_anycap h1 -> Forall (fun x => fatalb m x = false) h1 ->
  in_alphabet_anycap e -> fatalb m e = true ->
  exists ns' o1,
    run c (mkConn ns None) h1 = Ok (mkConn ns' None, o1) /\
    run c (mkConn ns None) (h1 ++ e :: h2) =
      Ok (mkConn ns' (Some (fatal_text m e)), o1 ++ [InjectError (fatal_text m e)]).
Proof.
  intros Hs Ht h1 e h2 ns Hal Hnf Hae He.
  destruct (rsx_fails_closed c Ht (List.map (fun x => (m, x)) h1) m e (List.map (fun x => (m, x)) h2) ns
              (Forall_map_pair m h1 Hal)
              (Forall_map_fatal m h1 Hnf) Hae He) as [ns' [o1 [H1 H2]]].
  exists ns', o1. rewrite !(run_as_stateful c m _ _ Hs), map_app. cbn [List.map]. split; assumption.
Qed.

Theorem returned_iff_fatal_cap c m :
  cfg_sasl c = Some m -> cfg_tracking c = true ->
  forall h ns cn' outs,
  Forall in_alphabet_anycap h -> run c (mkConn ns None) h = Ok (cn', outs) ->
  (cn_returned cn' <> None <-> Exists (fun e => fatalb m e = true) h).
Proof.
  intros Hs Ht h ns cn' outs Hal Hrun. rewrite (run_as_stateful c m _ _ Hs) in Hrun.
  rewrite (rsx_returned_iff_fatal c Ht _ ns cn' outs (Forall_map_pair m h Hal) Hrun).
  rewrite Exists_map. reflexivity.
Qed.

(* ---- examples: the sessions of the seeded regression, and the lines that do end it -------- *)

Definition capl (ps : list str) : event := srv c_CAP (c_star :: ps).
Definition ex_ls_multi := capl [c_LS; bs "sasl multi-prefix away-notify"].
Definition ex_req_multi := plain_ev c_CAP [c_REQ; bs "away-notify multi-prefix sasl"].

Example cap_lines_during_authentication :
  (* capabilities acknowledged on separate lines: AUTHENTICATE again, no CAP END; 904 is fatal *)
  run_view [ex_ls_multi; ex_ack; capl [c_ACK; bs "multi-prefix"]; ex_plus; ex_num n904] =
    Some (Some (bs "closing connection: text"), [ex_req_multi; ex_start; ex_start; ex_resp]) /\
  (* cap-notify NEW during the exchange: REQ, then the ACK re-sends AUTHENTICATE *)
  run_view [ex_ls; ex_ack; ex_plus; capl [c_NEW; bs "away-notify"]; capl [c_ACK; bs "away-notify"]; ex_num n903] =
    Some (None, [ex_req; ex_start; ex_resp; plain_ev c_CAP [c_REQ; bs "away-notify"]; ex_start; cap_end]) /\
  (* the lines that do elicit CAP END before 903 on the current code (cap_end_iff) *)
  run_view [ex_ls; ex_ack; ex_plus; capl [c_NAK; bs "foo"]] = Some (None, [ex_req; ex_start; ex_resp; cap_end]) /\
  run_view [ex_ls; ex_ack; ex_plus; capl [c_NEW; bs "unknown-cap"]] = Some (None, [ex_req; ex_start; ex_resp; cap_end]) /\
  run_view [ex_ls; ex_ack; ex_plus; capl [c_ACK; bs "-sasl"]] = Some (None, [ex_req; ex_start; ex_resp; cap_end]) /\
  True.
Proof.
  split; [vm_compute; reflexivity|]. split; [vm_compute; reflexivity|].
  split; [vm_compute; reflexivity|]. split; [vm_compute; reflexivity|].
  split; [vm_compute; reflexivity | exact I].
Qed.

Ltac kill_in H :=
  vm_compute in H; repeat (destruct H as [H|H]; [try discriminate H|]); try contradiction; try discriminate H.

(* the hypotheses of the theorems are satisfiable, and the excluded lines are excluded *)
Example cap_quiet_examples :
  cap_quiet (ev_params (capl [c_ACK; bs "multi-prefix"])) /\
  cap_quiet (ev_params (capl [c_NEW; bs "away-notify"])) /\
  ~ cap_quiet (ev_params (capl [c_NEW; bs "unknown-cap"])) /\
  ~ cap_quiet (ev_params (capl [c_ACK; bs "multi-prefix -sasl"])) /\
  ~ cap_quiet (ev_params (capl [c_NAK; bs "foo"])).
Proof.
  split; [|split; [|split; [|split]]].
  - split; [vm_compute; reflexivity|]. split; [intros H; vm_compute in H; discriminate|].
    split; [intros H; vm_compute in H; discriminate|]. intros _ H. kill_in H.
  - split; [vm_compute; reflexivity|]. split; [intros H; vm_compute in H; discriminate|].
    split; [|intros H; vm_compute in H; discriminate].
    intros _. exists (bs "away-notify"). split; [vm_compute; tauto | left; vm_compute; tauto].
  - intros [_ [_ [Hf _]]]. destruct (Hf eq_refl) as [k [Hk Hr]].
    vm_compute in Hk. destruct Hk as [<-|[]]. destruct Hr as [Hr|Hr]; [kill_in Hr | discriminate Hr].
  - intros [_ [_ [_ Ha]]]. apply (Ha eq_refl). vm_compute. tauto.
  - intros [Hn _]. vm_compute in Hn. discriminate.
Qed.
