(* C17, "the same token at the peer": handle_ping composed with the wire codec of C01-C03
   (Model/Event.v, Proofs/RoundTrip.v). *)
Require Import Bytes AMap Tags Event CodecSpec RoundTrip.
Require Import Names PingNick PingNickSpec PingNickProofs.

(* An outgoing event of the model as the codec sees it: no tags, no source. *)
Definition wevent_of (o : pn_out) : wevent := mkWEvent None None (o_cmd o) (o_params o).

(* A token Event.Bytes passes through unchanged: valid UTF-8 without CR / LF (anything else
   is removed by bytes.ToValidUTF8 and the CR/LF filter).  It may be empty, contain spaces,
   start with ':' and contain NUL or any other control byte. *)
Definition wire_valid (tok : str) : bool := clean_field tok.

Lemma pong_wf : forall tok, wire_valid tok = true -> wf_event (mkWEvent None None s_PONG [tok]).
Proof.
  intros tok H. unfold wire_valid in H. unfold wf_event, wf_eventb.
  cbn [we_cmd we_params we_src we_tags wf_params wf_wtags].
  rewrite H. reflexivity.
Qed.

Lemma pong_roundtrip : forall tok, wire_valid tok = true ->
  parse_event (event_bytes (mkWEvent None None s_PONG [tok])) =
    Ok (Some (mkWEvent None None s_PONG [tok])).
Proof.
  intros tok H. rewrite (encode_parse_notags _ (pong_wf tok H) eq_refl). reflexivity.
Qed.

Lemma ping_pong_wire : forall params,
  wire_valid (last_param params) = true ->
  exists o, handle_ping params = [o] /\ o_route o = Direct /\
            parse_event (event_bytes (wevent_of o)) =
              Ok (Some (mkWEvent None None s_PONG [last_param params])).
Proof.
  intros params H. eexists. split; [reflexivity|]. split; [reflexivity|].
  unfold wevent_of. cbn [cmd_pong o_cmd o_params]. apply pong_roundtrip. exact H.
Qed.

(* the hypothesis is satisfiable by the tokens the statement names, and it is needed *)
Example wire_valid_examples :
  wire_valid [] = true /\ wire_valid (bs "a b") = true /\ wire_valid (bs ":x y") = true /\
  wire_valid (bs " lead") = true /\ wire_valid [0; 9; 127] = true /\
  wire_valid [195; 169] = true /\ wire_valid [226; 130; 172; 32; 240; 159; 152; 128] = true.
Proof. vm_compute. repeat split; reflexivity. Qed.

Example not_wire_valid_is_altered :
  event_bytes (mkWEvent None None s_PONG [[97; 13; 98]]) = bs "PONG ab" /\
  event_bytes (mkWEvent None None s_PONG [[97; 255]]) = bs "PONG a".
Proof. vm_compute. split; reflexivity. Qed.
