(* Index-free normal form of ParseEvent.  Every checked index of the scanner is shown to
   be in range (so the model never answers Panic, C02_total), and parse_event is
   rewritten as a structurally recursive function over `cut` (first SPACE) and
   `find_sp_colon` (first ':' preceded by SPACE), which the grammar and round-trip
   proofs then work with. *)
From Coq Require Import Lia ZifyBool ZifyN ZifyNat.
Require Import Bytes Utf8 AMap WireOut GoUpper Tags Event OrderLemmas CodecLemmas.

Arguments N.eqb : simpl never.
Arguments N.leb : simpl never.
Arguments N.ltb : simpl never.

(* ---- small list facts ------------------------------------------------------------- *)

Lemma nth_skipn_add {A} (l : list A) m n d : nth n (skipn m l) d = nth (m + n) l d.
Proof.
  revert l. induction m as [|m IH]; intros l; [reflexivity|].
  destruct l as [|x l]; [destruct n; reflexivity|]. simpl. apply IH.
Qed.

Lemma skipn_skipn {A} (x y : nat) (l : list A) : skipn x (skipn y l) = skipn (x + y) l.
Proof.
  revert l. induction y as [|y IH]; intros l; [rewrite Nat.add_0_r; reflexivity|].
  destruct l as [|a l]; [rewrite !skipn_nil; reflexivity|].
  replace (x + S y)%nat with (S (x + y)) by lia. simpl. apply IH.
Qed.

Lemma skipn_S_app_len {A} (a : list A) x b : skipn (S (length a)) (a ++ x :: b) = b.
Proof. induction a as [|y a IH]; [reflexivity|]. simpl in *. exact IH. Qed.

Lemma index_byte_nth c s i : index_byte c s = Some i -> nth i s 0 = c.
Proof.
  rewrite index_byte_cut. destruct (cut c s) as [[a b]|] eqn:C; [|discriminate].
  intros H. inversion H; subst. destruct (cut_some _ _ _ _ C) as [-> _]. apply nth_middle.
Qed.

(* ---- the trailing-parameter loop ---------------------------------------------------- *)

(* offset in s of the first ':' whose predecessor (prev for offset 0) is SPACE *)
Fixpoint find_sp_colon (prev : N) (s : str) : option nat :=
  match s with
  | [] => None
  | b :: r => if (b =? 58) && (prev =? 32) then Some 0%nat else option_map S (find_sp_colon b r)
  end.

Lemma find_sp_colon_lt prev s i : find_sp_colon prev s = Some i -> (i < length s)%nat.
Proof.
  revert prev i. induction s as [|b r IH]; intros prev i H; simpl in H; [discriminate|].
  destruct ((b =? 58) && (prev =? 32)); [inversion H; simpl; lia|].
  destruct (find_sp_colon b r) eqn:E; [|discriminate]. inversion H; subst.
  apply IH in E. simpl. lia.
Qed.

Lemma find_sp_colon_index prev s :
  match index_byte 58 s with
  | None => find_sp_colon prev s = None
  | Some t =>
    find_sp_colon prev s =
      if nth t (prev :: s) 0 =? 32 then Some t
      else option_map (fun x => (S t + x)%nat) (find_sp_colon 58 (skipn (S t) s))
  end.
Proof.
  revert prev. induction s as [|b r IH]; intros prev; [reflexivity|].
  cbn [index_byte find_sp_colon]. destruct (b =? 58) eqn:E.
  - apply N.eqb_eq in E. subst b. cbn [option_map nth skipn andb].
    destruct (prev =? 32); [reflexivity|].
    destruct (find_sp_colon 58 r); reflexivity.
  - cbn [andb]. specialize (IH b). destruct (index_byte 58 r) as [t|]; cbn [option_map].
    + rewrite IH.
      change (nth (S t) (prev :: b :: r) 0) with (nth t (b :: r) 0).
      change (skipn (S (S t)) (b :: r)) with (skipn (S t) r).
      destruct (nth t (b :: r) 0 =? 32); [reflexivity|].
      destruct (find_sp_colon 58 (skipn (S t) r)); reflexivity.
    + rewrite IH. reflexivity.
Qed.

Lemma trailer_loop_spec : forall fuel raw j t,
  (1 <= j)%nat -> (j + t <= length raw)%nat -> (length raw - (j + t) < fuel)%nat ->
  trailer_loop fuel raw j t =
    Ok (option_map (Nat.add t) (find_sp_colon (nth (j + t - 1) raw 0) (skipn (j + t) raw))).
Proof.
  induction fuel as [|f IH]; intros raw j t Hj Hle Hfuel; [lia|].
  cbn [trailer_loop]. rewrite slice_from_ok by lia. cbn [rbind].
  pose proof (find_sp_colon_index (nth (j + t - 1) raw 0) (skipn (j + t) raw)) as HF.
  destruct (index_byte 58 (skipn (j + t) raw)) as [t'|] eqn:EI.
  - pose proof (index_byte_lt _ _ _ EI) as Hlt. rewrite skipn_length in Hlt.
    pose proof (index_byte_nth _ _ _ EI) as Hcolon. rewrite nth_skipn_add in Hcolon.
    destruct (Nat.eqb (j + t + t') 0) eqn:E0; [apply Nat.eqb_eq in E0; lia|].
    rewrite at_ok by lia. cbn [rbind].
    assert (Hprev : nth t' (nth (j + t - 1) raw 0 :: skipn (j + t) raw) 0 = nth (j + t + t' - 1) raw 0).
    { destruct t' as [|t'']; cbn [nth]; [f_equal; lia|].
      rewrite nth_skipn_add. f_equal. lia. }
    rewrite Hprev in HF. rewrite HF.
    destruct (nth (j + t + t' - 1) raw 0 =? 32) eqn:E32.
    + cbn [option_map]. reflexivity.
    + rewrite IH by lia.
      replace (j + (t' + t + 1) - 1)%nat with (j + t + t')%nat by lia.
      rewrite Hcolon. rewrite skipn_skipn.
      replace (S t' + (j + t))%nat with (j + (t' + t + 1))%nat by lia.
      destruct (find_sp_colon 58 (skipn (j + (t' + t + 1)) raw)); cbn [option_map]; [|reflexivity].
      do 2 f_equal. lia.
  - rewrite HF. reflexivity.
Qed.

(* ---- ParseSource never panics ------------------------------------------------------- *)

Ltac slices :=
  repeat (first [ rewrite slice_to_ok by lia | rewrite slice_from_ok by lia | rewrite slice_ok by lia ];
          cbn [rbind]);
  eexists; reflexivity.

Lemma wparse_source_total raw : exists s, wparse_source raw = Ok s.
Proof.
  unfold wparse_source.
  destruct (index_byte 33 raw) as [[|u]|] eqn:EU; destruct (index_byte 64 raw) as [h|] eqn:EH;
    try (apply index_byte_lt in EU); try (apply index_byte_lt in EH).
  - destruct h as [|h]; [eexists; reflexivity|slices].
  - eexists; reflexivity.
  - destruct (Nat.ltb (S u) h) eqn:EL; slices.
  - slices.
  - destruct h as [|h]; [eexists; reflexivity|slices].
  - eexists; reflexivity.
Qed.

Definition source_of (raw : str) : wsource :=
  match wparse_source raw with Ok s => s | Panic => mkWSource [] [] [] end.

Lemma wparse_source_of raw : wparse_source raw = Ok (source_of raw).
Proof. unfold source_of. destruct (wparse_source_total raw) as [s ->]. reflexivity. Qed.

(* ---- command and parameters --------------------------------------------------------- *)

Definition rest_nf (tags : wtags) (src : option wsource) (rest : str) : wevent :=
  match cut 32 rest with
  | None => mkWEvent tags src (go_to_upper rest) []
  | Some (cmd, after) =>
    match find_sp_colon 32 after with
    | None => mkWEvent tags src (go_to_upper cmd) (split_params after)
    | Some i0 =>
      mkWEvent tags src (go_to_upper cmd)
        ((if Nat.ltb 0 i0 then split_params (firstn (i0 - 1) after) else []) ++ [skipn (S i0) after])
    end
  end.

Lemma parse_event_rest_nf tags src raw i : (i <= length raw)%nat ->
  parse_event_rest tags src raw i = Ok (Some (rest_nf tags src (skipn i raw))).
Proof.
  intros Hi. unfold parse_event_rest, rest_nf. rewrite slice_from_ok by lia. cbn [rbind].
  rewrite index_byte_cut. destruct (cut 32 (skipn i raw)) as [[cmd after]|] eqn:C; [|reflexivity].
  destruct (cut_some _ _ _ _ C) as [Hsk _].
  pose proof (firstn_skipn i raw) as Hfs. rewrite Hsk in Hfs.
  remember (firstn i raw) as hd eqn:Hhd.
  assert (Hlen : length hd = i) by (subst hd; apply firstn_length_le; lia).
  clear Hhd Hsk C. subst raw. subst i.
  rewrite slice_app_mid. cbn [rbind].
  assert (Hraw : hd ++ cmd ++ 32 :: after = (hd ++ cmd) ++ 32 :: after) by (rewrite app_assoc; reflexivity).
  assert (Hl2 : (length hd + length cmd)%nat = length (hd ++ cmd)) by (rewrite app_length; reflexivity).
  rewrite Hraw, Hl2. set (pre := hd ++ cmd).
  assert (Hlr : length (pre ++ 32 :: after) = (length pre + S (length after))%nat)
    by (rewrite app_length; reflexivity).
  rewrite trailer_loop_spec by (rewrite ?Hlr; lia).
  replace (S (length pre) + 0 - 1)%nat with (length pre) by lia.
  replace (S (length pre) + 0)%nat with (S (length pre)) by lia.
  rewrite nth_middle, skipn_S_app_len. cbn [rbind].
  destruct (find_sp_colon 32 after) as [i0|] eqn:EF; cbn [option_map].
  - pose proof (find_sp_colon_lt _ _ _ EF) as Hi0.
    replace (0 + i0)%nat with i0 by lia.
    destruct (Nat.ltb (S (length pre)) (S (length pre) + i0)) eqn:EL.
    + destruct (Nat.eqb (S (length pre) + i0) 0) eqn:E0; [apply Nat.eqb_eq in E0; lia|].
      rewrite slice_ok by (rewrite ?Hlr; lia). cbn [rbind].
      rewrite slice_from_ok by (rewrite ?Hlr; lia). cbn [rbind].
      rewrite skipn_S_app_len.
      replace (S (length pre) + i0 + 1)%nat with (S i0 + S (length pre))%nat by lia.
      rewrite <- skipn_skipn, skipn_S_app_len.
      replace (S (length pre) + i0 - 1 - S (length pre))%nat with (i0 - 1)%nat by lia.
      destruct (Nat.ltb 0 i0) eqn:E1; [reflexivity|lia].
    + cbn [rbind]. rewrite slice_from_ok by (rewrite ?Hlr; lia). cbn [rbind].
      replace (S (length pre) + i0 + 1)%nat with (S i0 + S (length pre))%nat by lia.
      rewrite <- skipn_skipn, skipn_S_app_len.
      destruct (Nat.ltb 0 i0) eqn:E1; [lia|reflexivity].
  - rewrite slice_from_ok by (rewrite ?Hlr; lia). cbn [rbind]. rewrite skipn_S_app_len. reflexivity.
Qed.

(* ---- prefix ------------------------------------------------------------------------- *)

(* Some (src, rest): the source and the remaining line; None: nil result *)
Definition prefix_nf (raw : str) : option (option wsource * str) :=
  match raw with
  | c :: _ =>
    if c =? 58 then
      match cut 32 raw with
      | Some (p, rest) => if Nat.ltb (length p) 2 then None else Some (Some (source_of (tl p)), rest)
      | None => None
      end
    else Some (None, raw)
  | [] => Some (None, raw)
  end.

Definition body_nf (tags : wtags) (raw : str) : option wevent :=
  match prefix_nf raw with
  | None => None
  | Some (src, rest) => Some (rest_nf tags src rest)
  end.

Lemma parse_event_body_nf tags raw : parse_event_body tags raw = Ok (body_nf tags raw).
Proof.
  unfold parse_event_body, body_nf, parse_event_prefix, prefix_nf.
  destruct raw as [|c r]; [cbn [rbind]; rewrite parse_event_rest_nf by (simpl; lia); reflexivity|].
  destruct (c =? 58) eqn:EC.
  - rewrite index_byte_cut. destruct (cut 32 (c :: r)) as [[p rest]|] eqn:C; [|reflexivity].
    destruct (Nat.ltb (length p) 2) eqn:EL; [reflexivity|].
    destruct (cut_some _ _ _ _ C) as [Hraw _].
    destruct p as [|p0 p']; [simpl in EL; discriminate|].
    rewrite Hraw. cbn [tl].
    replace (slice ((p0 :: p') ++ 32 :: rest) 1 (length (p0 :: p'))) with (Ok p').
    2:{ symmetry. change ((p0 :: p') ++ 32 :: rest) with ([p0] ++ p' ++ 32 :: rest).
        change (length (p0 :: p')) with (length [p0] + length p')%nat. apply slice_app_mid. }
    cbn [rbind]. rewrite wparse_source_of. cbn [rbind].
    rewrite parse_event_rest_nf by (rewrite app_length; simpl; lia).
    rewrite skipn_S_app_len. reflexivity.
  - cbn [rbind]. rewrite parse_event_rest_nf by (simpl; lia). reflexivity.
Qed.

(* ---- ParseTags never panics --------------------------------------------------------- *)

Lemma parse_tag_part_total t part : exists t', parse_tag_part t part = Ok t'.
Proof.
  unfold parse_tag_part.
  destruct (index_byte 61 part) as [[|h]|] eqn:EI;
    try (destruct (valid_tag part); eexists; reflexivity).
  apply index_byte_lt in EI.
  destruct (Nat.ltb (length part) (S h + 1)) eqn:EL.
  - destruct (valid_tag part); eexists; reflexivity.
  - rewrite slice_to_ok by lia. cbn [rbind]. rewrite slice_from_ok by lia. cbn [rbind].
    eexists; reflexivity.
Qed.

Lemma parse_tag_parts_total parts : forall t, exists t', parse_tag_parts t parts = Ok t'.
Proof.
  induction parts as [|p r IH]; intros t; [eexists; reflexivity|].
  cbn [parse_tag_parts]. destruct (parse_tag_part_total t p) as [t1 ->]. cbn [rbind]. apply IH.
Qed.

Lemma parse_tags_total raw : exists t, parse_tags raw = Ok t.
Proof.
  unfold parse_tags. destruct raw as [|c r]; cbn [rbind]; [apply parse_tag_parts_total|].
  destruct (c =? 64).
  - rewrite slice_from_ok by (simpl; lia). cbn [rbind]. apply parse_tag_parts_total.
  - cbn [rbind]. apply parse_tag_parts_total.
Qed.

Definition tagmap_of (raw : str) : tagmap :=
  match parse_tags raw with Ok m => m | Panic => [] end.

Lemma parse_tags_of raw : parse_tags raw = Ok (tagmap_of raw).
Proof. unfold tagmap_of. destruct (parse_tags_total raw) as [m ->]. reflexivity. Qed.

(* ---- ParseEvent ----------------------------------------------------------------------- *)

Definition parse_event_nf (raw0 : str) : option wevent :=
  let raw := trim_crlf raw0 in
  if Nat.ltb (length raw) 2 then None
  else match raw with
       | c0 :: _ =>
         if c0 =? 64 then
           match cut 32 raw with
           | Some (p, rest) =>
             if Nat.ltb (length p) 2 then None
             else body_nf (Some (tagmap_of (tl p))) rest
           | None => None
           end
         else body_nf None raw
       | [] => None
       end.

Lemma parse_event_is_nf raw0 : parse_event raw0 = Ok (parse_event_nf raw0).
Proof.
  unfold parse_event, parse_event_nf. set (raw := trim_crlf raw0).
  destruct (Nat.ltb (length raw) 2) eqn:EL; [reflexivity|].
  destruct raw as [|c0 r] eqn:ER; [simpl in EL; discriminate|].
  rewrite at_ok by (simpl; lia). cbn [nth rbind].
  destruct (c0 =? 64) eqn:E64; [|apply parse_event_body_nf].
  rewrite index_byte_cut. destruct (cut 32 (c0 :: r)) as [[p rest]|] eqn:C; [|reflexivity].
  destruct (Nat.ltb (length p) 2) eqn:EP; [reflexivity|].
  destruct (cut_some _ _ _ _ C) as [Hraw _].
  destruct p as [|p0 p']; [simpl in EP; discriminate|].
  rewrite Hraw. cbn [tl].
  replace (slice ((p0 :: p') ++ 32 :: rest) 1 (length (p0 :: p'))) with (Ok p').
  2:{ symmetry. change ((p0 :: p') ++ 32 :: rest) with ([p0] ++ p' ++ 32 :: rest).
      change (length (p0 :: p')) with (length [p0] + length p')%nat. apply slice_app_mid. }
  cbn [rbind]. rewrite parse_tags_of. cbn [rbind].
  replace (length (p0 :: p') + 1)%nat with (S (length (p0 :: p'))) by lia.
  rewrite slice_from_ok by (rewrite app_length; simpl; lia). cbn [rbind].
  rewrite skipn_S_app_len. apply parse_event_body_nf.
Qed.

(* C02_total: no input makes any of the three parsers panic *)
Theorem parse_event_total : forall s, parse_event s <> Panic.
Proof. intros s. rewrite parse_event_is_nf. discriminate. Qed.

Theorem parse_tags_no_panic : forall s, parse_tags s <> Panic.
Proof. intros s. destruct (parse_tags_total s) as [t ->]. discriminate. Qed.

Theorem wparse_source_no_panic : forall s, wparse_source s <> Panic.
Proof. intros s. destruct (wparse_source_total s) as [t ->]. discriminate. Qed.
