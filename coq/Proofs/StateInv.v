(* C05: the structural invariant of the tracked state, its preservation by every
   handler on every event, and absence of panics. *)
Require Import Bytes AMap Names State OrderLemmas AMapLemmas NamesProofs.
From Coq Require Import Lia Sorting.Sorted.

(* E says which user keys may (temporarily) have an empty channel list *)
Record InvX (E : str -> Prop) (s : state) : Prop := mkInv {
  inv_ckey : forall k c, alookup k (st_channels s) = Some c -> fold (c_name c) = k;
  inv_ukey : forall k u, alookup k (st_users s) = Some u -> fold (u_nick u) = k;
  inv_cl : forall k c, alookup k (st_channels s) = Some c -> ssorted (c_users c);
  inv_ul : forall k u, alookup k (st_users s) = Some u -> ssorted (u_chans u) /\ (u_chans u = [] -> E k);
  inv_cu : forall kc c n, alookup kc (st_channels s) = Some c -> In n (c_users c) ->
           exists u, alookup n (st_users s) = Some u /\ In kc (u_chans u);
  inv_uc : forall ku u cn, alookup ku (st_users s) = Some u -> In cn (u_chans u) ->
           exists c, alookup cn (st_channels s) = Some c /\ In ku (c_users c)
}.
Arguments inv_ckey {E s}. Arguments inv_ukey {E s}. Arguments inv_cl {E s}.
Arguments inv_ul {E s}. Arguments inv_cu {E s}. Arguments inv_uc {E s}.
Definition Inv (s : state) : Prop := InvX (fun _ => False) s.

Ltac sproj := cbn [st_users st_channels st_nick st_ident st_host st_opts st_maxline st_maxprefix st_motd
  set_users set_channels set_nick set_ident_host set_opts set_maxline set_maxprefix set_motd] in *.

Lemma fold_idem x : fold (fold x) = fold x.
Proof. apply to_rfc1459_idem. Qed.

Lemma inv_init : Inv state_init.
Proof. constructor; simpl; intros; discriminate. Qed.

Lemma invx_weaken (E E' : str -> Prop) s : (forall k, E k -> E' k) -> InvX E s -> InvX E' s.
Proof. intros H I. constructor; try apply I. intros k u Hu. destruct (inv_ul I _ _ Hu) as [H1 H2]. split; auto. Qed.

(* listed names are case-folded: they are keys *)
Lemma inv_users_folded E s : InvX E s -> forall k c n, alookup k (st_channels s) = Some c -> In n (c_users c) -> fold n = n.
Proof. intros I k c n Hc Hn. destruct (inv_cu I _ _ _ Hc Hn) as (u & Hu & _).
  rewrite <- (inv_ukey I _ _ Hu). apply fold_idem. Qed.
Lemma inv_chans_folded E s : InvX E s -> forall k u n, alookup k (st_users s) = Some u -> In n (u_chans u) -> fold n = n.
Proof. intros I k u n Hu Hn. destruct (inv_uc I _ _ _ Hu Hn) as (c & Hc & _).
  rewrite <- (inv_ckey I _ _ Hc). apply fold_idem. Qed.

(* ---- updates that keep the structural projections ---- *)

Definition same_struct (s s' : state) : Prop :=
  (forall k, match alookup k (st_channels s), alookup k (st_channels s') with
             | Some c, Some c' => fold (c_name c) = fold (c_name c') /\ c_users c = c_users c'
             | None, None => True
             | _, _ => False
             end) /\
  (forall k, match alookup k (st_users s), alookup k (st_users s') with
             | Some u, Some u' => fold (u_nick u) = fold (u_nick u') /\ u_chans u = u_chans u'
             | None, None => True
             | _, _ => False
             end).

Lemma same_struct_refl s : same_struct s s.
Proof. split; intros k; [destruct (alookup k (st_channels s))|destruct (alookup k (st_users s))]; auto. Qed.

Lemma same_struct_trans a b c : same_struct a b -> same_struct b c -> same_struct a c.
Proof.
  intros [H1 H2] [H3 H4]. split; intros k.
  - specialize (H1 k); specialize (H3 k).
    destruct (alookup k (st_channels a)), (alookup k (st_channels b)), (alookup k (st_channels c)); try tauto.
    destruct H1, H3; split; congruence.
  - specialize (H2 k); specialize (H4 k).
    destruct (alookup k (st_users a)), (alookup k (st_users b)), (alookup k (st_users c)); try tauto.
    destruct H2, H4; split; congruence.
Qed.

Lemma same_struct_inv E s s' : same_struct s s' -> InvX E s -> InvX E s'.
Proof.
  intros [HC HU] I.
  assert (CB : forall k c', alookup k (st_channels s') = Some c' ->
            exists c, alookup k (st_channels s) = Some c /\ fold (c_name c) = fold (c_name c') /\ c_users c = c_users c').
  { intros k c' H. specialize (HC k). rewrite H in HC. destruct (alookup k (st_channels s)) as [c|]; [|contradiction]. eauto. }
  assert (UB : forall k u', alookup k (st_users s') = Some u' ->
            exists u, alookup k (st_users s) = Some u /\ fold (u_nick u) = fold (u_nick u') /\ u_chans u = u_chans u').
  { intros k u' H. specialize (HU k). rewrite H in HU. destruct (alookup k (st_users s)) as [u|]; [|contradiction]. eauto. }
  assert (CF : forall k c, alookup k (st_channels s) = Some c ->
            exists c', alookup k (st_channels s') = Some c' /\ c_users c = c_users c').
  { intros k c H. specialize (HC k). rewrite H in HC. destruct (alookup k (st_channels s')) as [c'|]; [|contradiction]. destruct HC; eauto. }
  assert (UF : forall k u, alookup k (st_users s) = Some u ->
            exists u', alookup k (st_users s') = Some u' /\ u_chans u = u_chans u').
  { intros k u H. specialize (HU k). rewrite H in HU. destruct (alookup k (st_users s')) as [u'|]; [|contradiction]. destruct HU; eauto. }
  constructor.
  - intros k c' H. destruct (CB _ _ H) as (c & Hc & Hn & _). rewrite <- Hn. eapply inv_ckey; eauto.
  - intros k u' H. destruct (UB _ _ H) as (u & Hu & Hn & _). rewrite <- Hn. eapply inv_ukey; eauto.
  - intros k c' H. destruct (CB _ _ H) as (c & Hc & _ & Hl). rewrite <- Hl. eapply inv_cl; eauto.
  - intros k u' H. destruct (UB _ _ H) as (u & Hu & _ & Hl). rewrite <- Hl. eapply inv_ul; eauto.
  - intros kc c' n H Hn. destruct (CB _ _ H) as (c & Hc & _ & Hl). rewrite <- Hl in Hn.
    destruct (inv_cu I _ _ _ Hc Hn) as (u & Hu & Hin). destruct (UF _ _ Hu) as (u' & Hu' & Hl').
    exists u'. split; [exact Hu'|]. rewrite <- Hl'. exact Hin.
  - intros ku u' cn H Hn. destruct (UB _ _ H) as (u & Hu & _ & Hl). rewrite <- Hl in Hn.
    destruct (inv_uc I _ _ _ Hu Hn) as (c & Hc & Hin). destruct (CF _ _ Hc) as (c' & Hc' & Hl').
    exists c'. split; [exact Hc'|]. rewrite <- Hl'. exact Hin.
Qed.

(* update_user with a function that keeps nick-fold and channel list *)
Definition keeps_uproj (f : user -> user) : Prop :=
  forall u, fold (u_nick (f u)) = fold (u_nick u) /\ u_chans (f u) = u_chans u.

Lemma update_user_same s name f : keeps_uproj f -> same_struct s (update_user s name f).
Proof.
  intros Hf. unfold update_user, lookup_user. destruct (alookup (fold name) (st_users s)) as [u|] eqn:E; [|apply same_struct_refl].
  split; intros k; sproj.
  - destruct (alookup k (st_channels s)); auto.
  - rewrite alookup_aset. destruct (streqb k (fold name)) eqn:Ek.
    + apply streqb_eq in Ek. subst k. rewrite E. destruct (Hf u). split; congruence.
    + destruct (alookup k (st_users s)); auto.
Qed.

Lemma set_channel_same s k c c' : alookup k (st_channels s) = Some c ->
  fold (c_name c') = fold (c_name c) -> c_users c' = c_users c ->
  same_struct s (set_channels s (aset k c' (st_channels s))).
Proof.
  intros E Hn Hl. split; intros k'; sproj.
  - rewrite alookup_aset. destruct (streqb k' k) eqn:Ek.
    + apply streqb_eq in Ek. subst k'. rewrite E. split; congruence.
    + destruct (alookup k' (st_channels s)); auto.
  - destruct (alookup k' (st_users s)); auto.
Qed.

Ltac ss_fields := split; intros ?k; sproj;
  [match goal with |- context [alookup ?k (st_channels ?s)] => destruct (alookup k (st_channels s)); auto end
  |match goal with |- context [alookup ?k (st_users ?s)] => destruct (alookup k (st_users s)); auto end].

Lemma same_set_nick s n : same_struct s (set_nick s n). Proof. ss_fields. Qed.
Lemma same_set_ident_host s i h : same_struct s (set_ident_host s i h). Proof. ss_fields. Qed.
Lemma same_set_opts s o : same_struct s (set_opts s o). Proof. ss_fields. Qed.
Lemma same_set_maxline s z : same_struct s (set_maxline s z). Proof. ss_fields. Qed.
Lemma same_set_maxprefix s z : same_struct s (set_maxprefix s z). Proof. ss_fields. Qed.
Lemma same_set_motd s m : same_struct s (set_motd s m). Proof. ss_fields. Qed.

(* ---- create_channel / create_user ---- *)

Lemma create_channel_inv E s name : InvX E s -> InvX E (create_channel s name).
Proof.
  intros I. unfold create_channel. destruct (alookup (fold name) (st_channels s)) as [c|] eqn:Ex; [exact I|].
  constructor; sproj.
  - intros k c. rewrite alookup_aset. destruct (streqb k (fold name)) eqn:Ek.
    + apply streqb_eq in Ek. intros H; injection H as <-. simpl. congruence.
    + apply (inv_ckey I).
  - apply (inv_ukey I).
  - intros k c. rewrite alookup_aset. destruct (streqb k (fold name)) eqn:Ek.
    + intros H; injection H as <-. simpl. constructor.
    + apply (inv_cl I).
  - apply (inv_ul I).
  - intros kc c n. rewrite alookup_aset. destruct (streqb kc (fold name)) eqn:Ek.
    + intros H; injection H as <-. simpl. tauto.
    + apply (inv_cu I).
  - intros ku u cn Hu Hin. destruct (inv_uc I _ _ _ Hu Hin) as (c & Hc & Hc2).
    exists c. split; [|exact Hc2]. rewrite alookup_aset. destruct (streqb cn (fold name)) eqn:Ek; [|exact Hc].
    apply streqb_eq in Ek. subst cn. congruence.
Qed.

Lemma create_channel_same_users s name : st_users (create_channel s name) = st_users s.
Proof. unfold create_channel. destruct (alookup (fold name) (st_channels s)); reflexivity. Qed.

Lemma create_channel_some s name : alookup (fold name) (st_channels (create_channel s name)) <> None.
Proof. unfold create_channel. destruct (alookup (fold name) (st_channels s)) eqn:E; sproj; [congruence|].
  rewrite alookup_aset_eq. discriminate. Qed.

Lemma create_user_inv E s src : InvX E s -> InvX (fun k => E k \/ k = fold (s_name src)) (create_user s src).
Proof.
  intros I. unfold create_user. destruct (alookup (fold (s_name src)) (st_users s)) as [u|] eqn:Ex.
  - eapply invx_weaken; [|exact I]. tauto.
  - constructor; sproj.
    + apply (inv_ckey I).
    + intros k u. rewrite alookup_aset. destruct (streqb k (fold (s_name src))) eqn:Ek.
      * apply streqb_eq in Ek. intros H; injection H as <-. simpl. congruence.
      * apply (inv_ukey I).
    + apply (inv_cl I).
    + intros k u. rewrite alookup_aset. destruct (streqb k (fold (s_name src))) eqn:Ek.
      * apply streqb_eq in Ek. intros H; injection H as <-. simpl. split; [constructor|auto].
      * intros H. destruct (inv_ul I _ _ H). split; auto.
    + intros kc c n Hc Hn. destruct (inv_cu I _ _ _ Hc Hn) as (u & Hu & Hin). exists u. split; [|exact Hin].
      rewrite alookup_aset. destruct (streqb n (fold (s_name src))) eqn:Ek; [|exact Hu].
      apply streqb_eq in Ek. subst n. congruence.
    + intros ku u cn. rewrite alookup_aset. destruct (streqb ku (fold (s_name src))) eqn:Ek.
      * intros H; injection H as <-. simpl. tauto.
      * apply (inv_uc I).
Qed.

Lemma create_user_same_channels s src : st_channels (create_user s src) = st_channels s.
Proof. unfold create_user. destruct (alookup (fold (s_name src)) (st_users s)); reflexivity. Qed.

Lemma create_user_some s src : alookup (fold (s_name src)) (st_users (create_user s src)) <> None.
Proof. unfold create_user. destruct (alookup (fold (s_name src)) (st_users s)) eqn:E; sproj; [congruence|].
  rewrite alookup_aset_eq. discriminate. Qed.

(* ---- link: a user enters a channel (JOIN, NAMES) ---- *)

Lemma nodup_snoc (x : str) l : NoDup l -> ~ In x l -> NoDup (l ++ [x]).
Proof.
  induction 1 as [|y l Hy Hnd IH]; simpl; intros Hx; [repeat constructor; simpl; tauto|].
  constructor.
  - rewrite in_app_iff. simpl. intros [H|[H|[]]]; [contradiction|]. subst. apply Hx. left; reflexivity.
  - apply IH. intros H; apply Hx; right; exact H.
Qed.

Definition add_sorted (x : str) (l : list str) : list str :=
  if mem_str x l then l else sort_strs (l ++ [x]).

Lemma add_sorted_in x l y : In y (add_sorted x l) <-> y = x \/ In y l.
Proof.
  unfold add_sorted. destruct (mem_str x l) eqn:E.
  - apply mem_str_in in E. split; [auto|]. intros [->|H]; auto.
  - rewrite sort_strs_in, in_app_iff. simpl. intuition.
Qed.

Lemma add_sorted_ssorted x l : ssorted l -> ssorted (add_sorted x l).
Proof.
  intros Hs. unfold add_sorted. destruct (mem_str x l) eqn:E; [exact Hs|].
  apply mem_str_false in E. apply sort_strs_ssorted. apply nodup_snoc; [apply ssorted_nodup; exact Hs|exact E].
Qed.

Lemma link_inv E s kc ku c u c' u' :
  InvX E s ->
  alookup kc (st_channels s) = Some c -> alookup ku (st_users s) = Some u ->
  fold (c_name c') = fold (c_name c) -> c_users c' = add_sorted ku (c_users c) ->
  fold (u_nick u') = fold (u_nick u) -> u_chans u' = add_sorted kc (u_chans u) ->
  InvX (fun k => E k /\ k <> ku) (set_users (set_channels s (aset kc c' (st_channels s))) (aset ku u' (st_users s))).
Proof.
  intros I Hc Hu Hcn Hcl Hun Hul. constructor; sproj.
  - intros k c0. rewrite alookup_aset. destruct (streqb k kc) eqn:Ek.
    + apply streqb_eq in Ek. subst k. intros H; injection H as <-. rewrite Hcn. apply (inv_ckey I _ _ Hc).
    + apply (inv_ckey I).
  - intros k u0. rewrite alookup_aset. destruct (streqb k ku) eqn:Ek.
    + apply streqb_eq in Ek. subst k. intros H; injection H as <-. rewrite Hun. apply (inv_ukey I _ _ Hu).
    + apply (inv_ukey I).
  - intros k c0. rewrite alookup_aset. destruct (streqb k kc) eqn:Ek.
    + intros H; injection H as <-. rewrite Hcl. apply add_sorted_ssorted. apply (inv_cl I _ _ Hc).
    + apply (inv_cl I).
  - intros k u0. rewrite alookup_aset. destruct (streqb k ku) eqn:Ek.
    + apply streqb_eq in Ek. subst k. intros H; injection H as <-. rewrite Hul. split.
      * apply add_sorted_ssorted. apply (inv_ul I _ _ Hu).
      * intros Hnil. exfalso. assert (Hin : In kc (add_sorted kc (u_chans u))) by (apply add_sorted_in; auto).
        rewrite Hnil in Hin. destruct Hin.
    + apply streqb_neq in Ek. intros H. destruct (inv_ul I _ _ H) as [H1 H2]. split; auto.
  - intros kc0 c0 n. rewrite alookup_aset. destruct (streqb kc0 kc) eqn:Ek.
    + apply streqb_eq in Ek. subst kc0. intros H; injection H as <-. rewrite Hcl, add_sorted_in. intros [->|Hn].
      * exists u'. rewrite alookup_aset_eq. split; [reflexivity|]. rewrite Hul. apply add_sorted_in. auto.
      * destruct (inv_cu I _ _ _ Hc Hn) as (u0 & Hu0 & Hin). rewrite alookup_aset.
        destruct (streqb n ku) eqn:En.
        -- exists u'. split; [reflexivity|]. rewrite Hul. apply add_sorted_in. auto.
        -- exists u0. split; [exact Hu0|exact Hin].
    + intros H Hn. destruct (inv_cu I _ _ _ H Hn) as (u0 & Hu0 & Hin). rewrite alookup_aset.
      destruct (streqb n ku) eqn:En.
      * apply streqb_eq in En. subst n. exists u'. split; [reflexivity|]. rewrite Hul. apply add_sorted_in.
        right. congruence.
      * exists u0. split; [exact Hu0|exact Hin].
  - intros ku0 u0 cn. rewrite alookup_aset. destruct (streqb ku0 ku) eqn:Ek.
    + apply streqb_eq in Ek. subst ku0. intros H; injection H as <-. rewrite Hul, add_sorted_in. intros [->|Hn].
      * exists c'. rewrite alookup_aset_eq. split; [reflexivity|]. rewrite Hcl. apply add_sorted_in. auto.
      * destruct (inv_uc I _ _ _ Hu Hn) as (c0 & Hc0 & Hin). rewrite alookup_aset.
        destruct (streqb cn kc) eqn:En.
        -- exists c'. split; [reflexivity|]. rewrite Hcl. apply add_sorted_in. auto.
        -- exists c0. split; [exact Hc0|exact Hin].
    + intros H Hn. destruct (inv_uc I _ _ _ H Hn) as (c0 & Hc0 & Hin). rewrite alookup_aset.
      destruct (streqb cn kc) eqn:En.
      * apply streqb_eq in En. subst cn. exists c'. split; [reflexivity|]. rewrite Hcl. apply add_sorted_in.
        right. congruence.
      * exists c0. split; [exact Hc0|exact Hin].
Qed.

Lemma channel_add_user_users c nick : c_users (channel_add_user c nick) = add_sorted (fold nick) (c_users c).
Proof. unfold channel_add_user, channel_user_in, add_sorted. destruct (mem_str (fold nick) (c_users c)); reflexivity. Qed.
Lemma channel_add_user_name c nick : c_name (channel_add_user c nick) = c_name c.
Proof. unfold channel_add_user. destruct (channel_user_in c nick); reflexivity. Qed.
Lemma user_add_channel_chans u name : u_chans (user_add_channel u name) = add_sorted (fold name) (u_chans u).
Proof. unfold user_add_channel, user_in_channel, add_sorted. destruct (mem_str (fold name) (u_chans u)); reflexivity. Qed.
Lemma user_add_channel_nick u name : u_nick (user_add_channel u name) = u_nick u.
Proof. unfold user_add_channel. destruct (user_in_channel u name); reflexivity. Qed.

(* ---- delete_channel ---- *)

Definition drop_chan (k : str) (u : user) : option user :=
  let u' := user_delete_channel u k in match u_chans u' with [] => None | _ => Some u' end.

Lemma dcu_spec k : forall l users, NoDup l -> (forall n, In n l -> alookup n users <> None) ->
  exists users', delete_channel_users users k l = Ok users' /\
    forall n, alookup n users' =
      if mem_str n l then match alookup n users with Some u => drop_chan k u | None => None end
      else alookup n users.
Proof.
  induction l as [|n0 r IH]; intros users Hnd Hex; simpl.
  - exists users. split; [reflexivity|]. intros n; reflexivity.
  - inversion Hnd as [|? ? Hn0 Hnd']; subst.
    destruct (alookup n0 users) as [u|] eqn:Eu; [|exfalso; apply (Hex n0); [left; reflexivity|exact Eu]].
    set (users1 := match u_chans (user_delete_channel u k) with [] => aremove n0 users | _ => aset n0 (user_delete_channel u k) users end).
    assert (L1 : forall n, alookup n users1 = if streqb n n0 then drop_chan k u else alookup n users).
    { intros n. unfold users1, drop_chan. destruct (u_chans (user_delete_channel u k)); [apply alookup_aremove|apply alookup_aset]. }
    destruct (IH users1 Hnd') as (users' & Hrun & Hspec).
    { intros n Hn. rewrite L1. destruct (streqb n n0) eqn:E; [apply streqb_eq in E; subst; contradiction|].
      apply Hex. right; exact Hn. }
    exists users'. split; [exact Hrun|]. intros n. rewrite Hspec, L1.
    destruct (streqb n n0) eqn:E.
    + apply streqb_eq in E. subst n. simpl. apply mem_str_false in Hn0. rewrite Hn0, Eu. reflexivity.
    + simpl. reflexivity.
Qed.

Lemma user_delete_channel_chans u k : u_chans (user_delete_channel u k) = remove_first (fold k) (u_chans u).
Proof. reflexivity. Qed.

Lemma delete_channel_inv s name : Inv s -> exists s', delete_channel s name = Ok s' /\ Inv s'.
Proof.
  intros I. unfold delete_channel. destruct (alookup (fold name) (st_channels s)) as [c|] eqn:Ec; [|eauto].
  set (k := fold name) in *.
  assert (Hkk : fold k = k) by apply fold_idem.
  destruct (dcu_spec k (c_users c) (st_users s)) as (users' & Hrun & Hspec).
  { apply ssorted_nodup. apply (inv_cl I _ _ Ec). }
  { intros n Hn. destruct (inv_cu I _ _ _ Ec Hn) as (u & Hu & _). congruence. }
  rewrite Hrun. simpl. eexists; split; [reflexivity|].
  assert (UB : forall n u', alookup n users' = Some u' ->
     (mem_str n (c_users c) = false /\ alookup n (st_users s) = Some u') \/
     (mem_str n (c_users c) = true /\ exists u, alookup n (st_users s) = Some u /\ u' = user_delete_channel u k /\ u_chans u' <> [])).
  { intros n u' H. rewrite Hspec in H. destruct (mem_str n (c_users c)) eqn:Em; [right|left; auto].
    split; [reflexivity|]. destruct (alookup n (st_users s)) as [u|]; [|discriminate]. exists u. split; [reflexivity|].
    unfold drop_chan in H. destruct (u_chans (user_delete_channel u k)) eqn:El; [discriminate|]. injection H as <-.
    split; [reflexivity|]. rewrite El. discriminate. }
  constructor; sproj.
  - intros k0 c0. rewrite alookup_aremove. destruct (streqb k0 k); [discriminate|]. apply (inv_ckey I).
  - intros n u' H. destruct (UB _ _ H) as [[_ Hu]|(_ & u & Hu & -> & _)]; [apply (inv_ukey I _ _ Hu)|].
    apply (inv_ukey I _ _ Hu).
  - intros k0 c0. rewrite alookup_aremove. destruct (streqb k0 k); [discriminate|]. apply (inv_cl I).
  - intros n u' H. destruct (UB _ _ H) as [[_ Hu]|(_ & u & Hu & -> & Hne)]; [apply (inv_ul I _ _ Hu)|].
    split; [|intros E; contradiction]. rewrite user_delete_channel_chans. apply remove_first_ssorted. apply (inv_ul I _ _ Hu).
  - intros kc c0 n. rewrite alookup_aremove. destruct (streqb kc k) eqn:Ek; [discriminate|]. apply streqb_neq in Ek.
    intros Hc0 Hn. destruct (inv_cu I _ _ _ Hc0 Hn) as (u & Hu & Hin). rewrite Hspec, Hu.
    assert (Hin' : In kc (u_chans (user_delete_channel u k))).
    { rewrite user_delete_channel_chans, Hkk. apply remove_first_in; [apply ssorted_nodup; apply (inv_ul I _ _ Hu)|]. split; assumption. }
    destruct (mem_str n (c_users c)); [|eauto].
    unfold drop_chan. destruct (u_chans (user_delete_channel u k)) eqn:El; [destruct Hin'|].
    exists (user_delete_channel u k). split; [reflexivity|]. rewrite El. exact Hin'.
  - intros ku u' cn H Hcn. rewrite alookup_aremove. destruct (UB _ _ H) as [[Hm Hu]|(Hm & u & Hu & -> & _)].
    + destruct (inv_uc I _ _ _ Hu Hcn) as (c0 & Hc0 & Hin). destruct (streqb cn k) eqn:Ek; [|eauto].
      apply streqb_eq in Ek. subst cn. rewrite Ec in Hc0. injection Hc0 as <-.
      apply mem_str_false in Hm. contradiction.
    + rewrite user_delete_channel_chans, Hkk in Hcn.
      apply remove_first_in in Hcn; [|apply ssorted_nodup; apply (inv_ul I _ _ Hu)]. destruct Hcn as [Hcn Hne].
      destruct (inv_uc I _ _ _ Hu Hcn) as (c0 & Hc0 & Hin). apply streqb_neq in Hne. rewrite Hne. eauto.
Qed.

(* ---- delete_user ---- *)

Lemma due_spec nick : forall l chans, NoDup l -> (forall cn, In cn l -> alookup cn chans <> None) ->
  exists chans', delete_user_everywhere chans nick l = Ok chans' /\
    forall cn, alookup cn chans' =
      if mem_str cn l then option_map (fun c => channel_delete_user c nick) (alookup cn chans) else alookup cn chans.
Proof.
  induction l as [|c0 r IH]; intros chans Hnd Hex; simpl.
  - exists chans. split; [reflexivity|]. intros; reflexivity.
  - inversion Hnd as [|? ? Hc0 Hnd']; subst.
    destruct (alookup c0 chans) as [c|] eqn:Ec; [|exfalso; apply (Hex c0); [left; reflexivity|exact Ec]].
    destruct (IH (aset c0 (channel_delete_user c nick) chans) Hnd') as (chans' & Hrun & Hspec).
    { intros cn Hcn. rewrite alookup_aset. destruct (streqb cn c0); [discriminate|]. apply Hex. right; exact Hcn. }
    exists chans'. split; [exact Hrun|]. intros cn. rewrite Hspec, alookup_aset.
    destruct (streqb cn c0) eqn:E.
    + apply streqb_eq in E. subst cn. simpl. apply mem_str_false in Hc0. rewrite Hc0, Ec. reflexivity.
    + simpl. reflexivity.
Qed.

Lemma channel_delete_user_users c nick : c_users (channel_delete_user c nick) = remove_first (fold nick) (c_users c).
Proof. reflexivity. Qed.

Lemma delete_user_all_inv s nick : Inv s ->
  exists s', delete_user s [] nick = Ok s' /\ Inv s' /\
    alookup (fold nick) (st_users s') = None /\
    (forall k, k <> fold nick -> alookup k (st_users s') = alookup k (st_users s)) /\
    (forall k c', alookup k (st_channels s') = Some c' -> ~ In (fold nick) (c_users c')) /\
    (forall k, match alookup k (st_channels s), alookup k (st_channels s') with
               | Some c, Some c' => c_name c' = c_name c /\ forall n, In n (c_users c') <-> In n (c_users c) /\ n <> fold nick
               | None, None => True | _, _ => False end) /\
    st_nick s' = st_nick s.
Proof.
  intros I. unfold delete_user, lookup_user. set (ku := fold nick).
  destruct (alookup ku (st_users s)) as [u|] eqn:Eu.
  2:{ exists s. split; [reflexivity|]. split; [exact I|]. split; [exact Eu|]. split; [reflexivity|]. split; [|split; [|reflexivity]].
      - intros k c' Hc Hin. destruct (inv_cu I _ _ _ Hc Hin) as (u & Hu & _). congruence.
      - intros k. destruct (alookup k (st_channels s)) as [c|] eqn:Ec; [|exact Logic.I]. split; [reflexivity|].
        intros n. split; [|tauto]. intros Hn. split; [exact Hn|]. intros ->.
        destruct (inv_cu I _ _ _ Ec Hn) as (u & Hu & _). congruence. }
  assert (Hkk : fold ku = ku) by apply fold_idem.
  destruct (due_spec nick (u_chans u) (st_channels s)) as (chans' & Hrun & Hspec).
  { apply ssorted_nodup. apply (inv_ul I _ _ Eu). }
  { intros cn Hcn. destruct (inv_uc I _ _ _ Eu Hcn) as (c & Hc & _). congruence. }
  rewrite Hrun. simpl. eexists; split; [reflexivity|]. sproj.
  assert (CB : forall k c', alookup k chans' = Some c' ->
     (mem_str k (u_chans u) = false /\ alookup k (st_channels s) = Some c') \/
     (mem_str k (u_chans u) = true /\ exists c, alookup k (st_channels s) = Some c /\ c' = channel_delete_user c nick)).
  { intros k c' H. rewrite Hspec in H. destruct (mem_str k (u_chans u)); [right|left; auto]. split; [reflexivity|].
    destruct (alookup k (st_channels s)) as [c|]; [|discriminate]. injection H as <-. eauto. }
  assert (NOTIN : forall k c', alookup k chans' = Some c' -> ~ In ku (c_users c')).
  { intros k c' H. destruct (CB _ _ H) as [[Hm Hc]|(Hm & c & Hc & ->)].
    - intros Hin. destruct (inv_cu I _ _ _ Hc Hin) as (u0 & Hu0 & Hk). rewrite Eu in Hu0. injection Hu0 as <-.
      apply mem_str_false in Hm. contradiction.
    - rewrite channel_delete_user_users. fold ku. intros Hin.
      apply remove_first_in in Hin; [tauto|apply ssorted_nodup; apply (inv_cl I _ _ Hc)]. }
  split; [|split; [apply alookup_aremove_eq|split; [intros k Hk; apply alookup_aremove_neq; congruence|split; [exact NOTIN|split; [|reflexivity]]]]].
  2:{ intros k. rewrite Hspec. destruct (alookup k (st_channels s)) as [c|] eqn:Ec.
      - destruct (mem_str k (u_chans u)) eqn:Em; cbn [option_map].
        + split; [reflexivity|]. intros n. rewrite channel_delete_user_users. fold ku.
          apply remove_first_in. apply ssorted_nodup. apply (inv_cl I _ _ Ec).
        + split; [reflexivity|]. intros n. split; [|tauto]. intros Hn. split; [exact Hn|]. intros ->.
          destruct (inv_cu I _ _ _ Ec Hn) as (u0 & Hu0 & Hk). rewrite Eu in Hu0. injection Hu0 as <-.
          apply mem_str_false in Em. contradiction.
      - destruct (mem_str k (u_chans u)); cbn [option_map]; exact Logic.I. }
  constructor; sproj.
  - intros k c' H. destruct (CB _ _ H) as [[_ Hc]|(_ & c & Hc & ->)]; apply (inv_ckey I _ _ Hc).
  - intros k u0. rewrite alookup_aremove. destruct (streqb k ku); [discriminate|]. apply (inv_ukey I).
  - intros k c' H. destruct (CB _ _ H) as [[_ Hc]|(_ & c & Hc & ->)]; [apply (inv_cl I _ _ Hc)|].
    rewrite channel_delete_user_users. apply remove_first_ssorted. apply (inv_cl I _ _ Hc).
  - intros k u0. rewrite alookup_aremove. destruct (streqb k ku); [discriminate|]. apply (inv_ul I).
  - intros kc c' n H Hn. rewrite alookup_aremove.
    assert (Hne : n <> ku) by (intros ->; apply (NOTIN _ _ H); exact Hn).
    apply streqb_neq in Hne. rewrite Hne.
    destruct (CB _ _ H) as [[_ Hc]|(_ & c & Hc & ->)].
    + apply (inv_cu I _ _ _ Hc Hn).
    + rewrite channel_delete_user_users in Hn. fold ku in Hn.
      apply remove_first_in in Hn; [|apply ssorted_nodup; apply (inv_cl I _ _ Hc)]. apply (inv_cu I _ _ _ Hc). tauto.
  - intros k0 u0 cn. rewrite alookup_aremove. destruct (streqb k0 ku) eqn:Ek; [discriminate|]. apply streqb_neq in Ek.
    intros Hu0 Hcn. destruct (inv_uc I _ _ _ Hu0 Hcn) as (c & Hc & Hin). rewrite Hspec, Hc.
    destruct (mem_str cn (u_chans u)); cbn [option_map]; [|eauto].
    eexists; split; [reflexivity|]. rewrite channel_delete_user_users. fold ku.
    apply remove_first_in; [apply ssorted_nodup; apply (inv_cl I _ _ Hc)|]. split; assumption.
Qed.

Lemma delete_user_one_inv s chan nick : chan <> [] -> Inv s -> exists s', delete_user s chan nick = Ok s' /\ Inv s'.
Proof.
  intros Hne I. destruct chan as [|b0 r0]; [congruence|]. clear Hne.
  unfold delete_user, lookup_user, lookup_channel. set (chan := b0 :: r0). set (ku := fold nick). set (kc := fold chan).
  destruct (alookup ku (st_users s)) as [u|] eqn:Eu; [|eauto].
  destruct (alookup kc (st_channels s)) as [c|] eqn:Ec; [|eauto].
  eexists; split; [reflexivity|].
  assert (Hkc : fold kc = kc) by apply fold_idem. assert (Hku : fold ku = ku) by apply fold_idem.
  assert (NDu : NoDup (u_chans u)) by (apply ssorted_nodup; apply (inv_ul I _ _ Eu)).
  assert (NDc : NoDup (c_users c)) by (apply ssorted_nodup; apply (inv_cl I _ _ Ec)).
  set (u' := user_delete_channel u chan). set (c' := channel_delete_user c nick).
  assert (INU : forall y, In y (u_chans u') <-> In y (u_chans u) /\ y <> kc) by (intros y; apply remove_first_in; exact NDu).
  assert (SSU : ssorted (u_chans u')) by (apply remove_first_ssorted; apply (inv_ul I _ _ Eu)).
  assert (INC : forall y, In y (c_users c') <-> In y (c_users c) /\ y <> ku) by (intros y; apply remove_first_in; exact NDc).
  assert (SSC : ssorted (c_users c')) by (apply remove_first_ssorted; apply (inv_cl I _ _ Ec)).
  assert (NU : fold (u_nick u') = ku) by apply (inv_ukey I _ _ Eu).
  assert (NC : fold (c_name c') = kc) by apply (inv_ckey I _ _ Ec).
  remember (u_chans u') as ucl eqn:Hucl. clearbody u' c'.
  destruct ucl as [|x xs].
  - (* the user leaves their last channel and is forgotten *)
    constructor; sproj.
    + intros k c0. rewrite alookup_aset. destruct (streqb k kc) eqn:E; [|apply (inv_ckey I)].
      apply streqb_eq in E. subst k. intros H; injection H as <-. exact NC.
    + intros k u0. rewrite alookup_aremove. destruct (streqb k ku); [discriminate|apply (inv_ukey I)].
    + intros k c0. rewrite alookup_aset. destruct (streqb k kc); [|apply (inv_cl I)]. intros H; injection H as <-. exact SSC.
    + intros k u0. rewrite alookup_aremove. destruct (streqb k ku); [discriminate|apply (inv_ul I)].
    + intros kc0 c0 n. rewrite alookup_aset, alookup_aremove. destruct (streqb kc0 kc) eqn:E.
      * apply streqb_eq in E. subst kc0. intros H; injection H as <-. intros Hn. apply INC in Hn. destruct Hn as [Hn Hnk].
        apply streqb_neq in Hnk. rewrite Hnk. apply (inv_cu I _ _ _ Ec Hn).
      * apply streqb_neq in E. intros Hc0 Hn. destruct (inv_cu I _ _ _ Hc0 Hn) as (u0 & Hu0 & Hin).
        destruct (streqb n ku) eqn:En; [|eauto]. apply streqb_eq in En. subst n. rewrite Eu in Hu0. injection Hu0 as <-.
        exfalso. assert (Hin' : In kc0 []) by (apply INU; split; assumption). destruct Hin'.
    + intros k0 u0 cn. rewrite alookup_aset, alookup_aremove. destruct (streqb k0 ku) eqn:E; [discriminate|].
      apply streqb_neq in E. intros Hu0 Hcn. destruct (inv_uc I _ _ _ Hu0 Hcn) as (c0 & Hc0 & Hin).
      destruct (streqb cn kc) eqn:En; [|eauto]. apply streqb_eq in En. subst cn. rewrite Ec in Hc0. injection Hc0 as <-.
      exists c'. split; [reflexivity|]. apply INC. split; assumption.
  - rewrite Hucl in INU, SSU. constructor; sproj.
    + intros k c0. rewrite alookup_aset. destruct (streqb k kc) eqn:E; [|apply (inv_ckey I)].
      apply streqb_eq in E. subst k. intros H; injection H as <-. exact NC.
    + intros k u0. rewrite alookup_aset. destruct (streqb k ku) eqn:E; [|apply (inv_ukey I)].
      apply streqb_eq in E. subst k. intros H; injection H as <-. exact NU.
    + intros k c0. rewrite alookup_aset. destruct (streqb k kc); [|apply (inv_cl I)]. intros H; injection H as <-. exact SSC.
    + intros k u0. rewrite alookup_aset. destruct (streqb k ku); [|apply (inv_ul I)]. intros H; injection H as <-.
      split; [exact SSU|]. rewrite <- Hucl. discriminate.
    + intros kc0 c0 n. rewrite !alookup_aset. destruct (streqb kc0 kc) eqn:E.
      * apply streqb_eq in E. subst kc0. intros H; injection H as <-. intros Hn. apply INC in Hn. destruct Hn as [Hn Hnk].
        apply streqb_neq in Hnk. rewrite Hnk. apply (inv_cu I _ _ _ Ec Hn).
      * apply streqb_neq in E. intros Hc0 Hn. destruct (inv_cu I _ _ _ Hc0 Hn) as (u0 & Hu0 & Hin).
        destruct (streqb n ku) eqn:En; [|eauto]. apply streqb_eq in En. subst n. rewrite Eu in Hu0. injection Hu0 as <-.
        exists u'. split; [reflexivity|]. apply INU. split; assumption.
    + intros k0 u0 cn. rewrite !alookup_aset. destruct (streqb k0 ku) eqn:E.
      * apply streqb_eq in E. subst k0. intros H; injection H as <-. intros Hcn. apply INU in Hcn. destruct Hcn as [Hcn Hck].
        apply streqb_neq in Hck. rewrite Hck. apply (inv_uc I _ _ _ Eu Hcn).
      * apply streqb_neq in E. intros Hu0 Hcn. destruct (inv_uc I _ _ _ Hu0 Hcn) as (c0 & Hc0 & Hin).
        destruct (streqb cn kc) eqn:En; [|eauto]. apply streqb_eq in En. subst cn. rewrite Ec in Hc0. injection Hc0 as <-.
        exists c'. split; [reflexivity|]. apply INC. split; assumption.
Qed.
