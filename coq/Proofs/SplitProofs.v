(* C11: proofs about Model/Split.v. *)
Require Import Bytes Utf8 WireOut Ctcp State Split SplitUtf8.
From Coq Require Import Lia ZifyBool ZifyN ZifyNat.

Local Open Scope nat_scope.

(* ------------------------------------------------------------------ *)
(* cut_len                                                             *)
(* ------------------------------------------------------------------ *)

Lemma skipn_length_le {A} n (l : list A) : n <= length l -> length (skipn n l) = length l - n.
Proof. intros _. apply skipn_length. Qed.

Lemma cut_len_range fuel : forall rest n left has,
  n <= cut_len fuel rest n left has <= n + length rest.
Proof.
  induction fuel as [|f IH]; intros rest n left has; cbn [cut_len]; [lia|].
  destruct rest as [|b r]; [cbn [length]; lia|].
  set (rest := b :: r). assert (Hne : rest <> []) by (subst rest; discriminate).
  destruct (first_rune_width_bounds rest Hne) as [[H1 H4] Hl].
  destruct ((left <? Z.of_nat (first_rune_width rest))%Z && (Nat.ltb 0 n || has)); [lia|].
  specialize (IH (skipn (first_rune_width rest) rest) (first_rune_width rest + n) (left - Z.of_nat (first_rune_width rest))%Z has).
  rewrite skipn_length in IH. lia.
Qed.

Lemma cut_len_first fuel rest left has : rest <> [] -> 1 <= fuel ->
  (has = false \/ (4 <= left)%Z) ->
  first_rune_width rest <= cut_len fuel rest 0 left has.
Proof.
  intros Hne Hf Hc. destruct fuel as [|f]; [lia|]. cbn [cut_len].
  destruct rest as [|b r]; [congruence|]. set (rest := b :: r) in *.
  destruct (first_rune_width_bounds rest Hne) as [[H1 H4] Hl].
  assert (E : ((left <? Z.of_nat (first_rune_width rest))%Z && (Nat.ltb 0 0 || has)) = false).
  { destruct Hc as [->|Hc]; cbn [Nat.ltb Nat.leb orb]; [apply andb_false_r|].
    apply andb_false_iff. left. lia. }
  rewrite E.
  pose proof (cut_len_range f (skipn (first_rune_width rest) rest) (first_rune_width rest + 0)
                (left - Z.of_nat (first_rune_width rest))%Z has). lia.
Qed.

(* ------------------------------------------------------------------ *)
(* place never panics and never runs out of fuel                        *)
(* ------------------------------------------------------------------ *)

Lemma place_ok fuel : forall pfx w word st,
  2 * length word + (if l_has st then 1 else 0) < fuel ->
  exists st', place fuel pfx w word st = Ok st'.
Proof.
  induction fuel as [|f IH]; intros pfx w word st Hf; [lia|].
  destruct word as [|b r]; [cbn [place]; eauto|].
  set (word := b :: r) in *. assert (Hne : word <> []) by (subst word; discriminate).
  assert (Hlen : 1 <= length word) by (subst word; cbn [length]; lia).
  unfold place; fold place. subst word; cbv beta iota; set (word := b :: r) in *.
  destruct (Zlen word <=? room_of w st)%Z; [eauto|].
  destruct (l_has st && ((Zlen pfx + Zlen word <=? w)%Z || (room_of w st <? 4)%Z)) eqn:Eflush.
  - apply IH. cbn [flush l_has]. destruct (l_has st); [lia|discriminate].
  - set (n := cut_len (length word) word 0 (room_of w st) (l_has st)).
    assert (Hn1 : 1 <= n).
    { assert (Hc : l_has st = false \/ (4 <= room_of w st)%Z).
      { destruct (l_has st); [right|left; reflexivity]. cbn [andb] in Eflush.
        apply orb_false_iff in Eflush. lia. }
      pose proof (cut_len_first (length word) word (room_of w st) (l_has st) Hne Hlen Hc) as H.
      destruct (first_rune_width_bounds word Hne) as [[H1 _] _]. subst n. lia. }
    assert (Hn2 : n <= length word).
    { pose proof (cut_len_range (length word) word 0 (room_of w st) (l_has st)). subst n. lia. }
    unfold slice_to, slice_from.
    replace (Nat.leb n (length word)) with true by (symmetry; apply Nat.leb_le; exact Hn2).
    cbn [rbind]. apply IH. cbn [flush add l_has]. rewrite skipn_length. lia.
Qed.

Lemma step_ok w st word : exists st', step w (Ok st) word = Ok st'.
Proof.
  unfold step; cbn [rbind]. destruct word as [|b r].
  - destruct (l_has (s_l st)); eauto.
  - destruct (track_word (s_codes st) (s_lastc st) (b :: r)) as [codes lastc].
    destruct (place_ok (2 * length (b :: r) + 2) (prefix_of codes lastc w) w (b :: r) (s_l st)) as [l Hl].
    { destruct (l_has (s_l st)); lia. }
    rewrite Hl. cbn [rbind]. eauto.
Qed.

Lemma fold_step_ok w words : forall st, exists st', fold_left (step w) words (Ok st) = Ok st'.
Proof.
  induction words as [|x r IH]; intros st; cbn [fold_left]; [eauto|].
  destruct (step_ok w st x) as [st1 H1]. rewrite H1. apply IH.
Qed.

Theorem split_message_ok text w : exists ps, split_message text w = Ok ps.
Proof.
  unfold split_message.
  destruct (fold_step_ok w (split_words (to_valid_utf8 qmark text)) sst_init) as [st H].
  rewrite H. cbn [rbind]. eauto.
Qed.

Theorem split_message_no_panic text w : split_message text w <> Panic.
Proof. destruct (split_message_ok text w) as [ps H]. rewrite H. discriminate. Qed.

(* ------------------------------------------------------------------ *)
(* Event.split never panics                                            *)
(* ------------------------------------------------------------------ *)

Lemma index_byte_lt c s : forall i, index_byte c s = Some i -> i < length s.
Proof.
  induction s as [|x r IH]; intros i; cbn [index_byte length]; [discriminate|].
  destruct (N.eqb x c). { intros H; inversion H; lia. }
  destruct (index_byte c r) as [j|]; cbn [option_map]; [|discriminate].
  intros H; inversion H. specialize (IH j eq_refl). lia.
Qed.

Lemma decode_ctcp_ok e : exists d, decode_ctcp e = Ok d.
Proof.
  unfold decode_ctcp.
  destruct (negb (Nat.eqb (length (ev_params e)) 2)) eqn:E2; [eauto|].
  apply negb_false_iff, Nat.eqb_eq in E2.
  destruct (ev_params e) as [|p0 [|p1 [|p2 r]]]; cbn [length] in E2; try lia.
  unfold nth_param; cbn [nth_error rbind].
  destruct (Nat.ltb (length p1) 3) eqn:E3; [eauto|]. apply Nat.ltb_ge in E3.
  destruct (negb (streqb (ev_command e) PRIVMSG) && negb (streqb (ev_command e) NOTICE)); [eauto|].
  unfold at_.
  destruct (nth_error p1 0) as [c0|] eqn:N0; [|apply nth_error_None in N0; lia].
  destruct (nth_error p1 (length p1 - 1)) as [cl|] eqn:N1; [|apply nth_error_None in N1; lia].
  cbn [rbind].
  destruct (negb (c0 =? ctcp_delim)%N || negb (cl =? ctcp_delim)%N); [eauto|].
  unfold slice at 1.
  replace (Nat.leb 1 (length p1 - 1) && Nat.leb (length p1 - 1) (length p1))%bool with true
    by (symmetry; apply andb_true_iff; split; apply Nat.leb_le; lia).
  cbn [rbind]. set (text := firstn (length p1 - 1 - 1) (skipn 1 p1)).
  destruct (index_byte event_space text) as [s|] eqn:Ei.
  - apply index_byte_lt in Ei.
    destruct (Nat.eqb s 0); [eauto|].
    destruct (negb (forallb tag_byte_ok (firstn s text))); [eauto|].
    unfold slice, slice_from.
    replace (Nat.leb 0 s && Nat.leb s (length text))%bool with true
      by (symmetry; apply andb_true_iff; split; apply Nat.leb_le; lia).
    replace (Nat.leb (S s) (length text)) with true by (symmetry; apply Nat.leb_le; lia).
    cbn [rbind]. eauto.
  - destruct (forallb tag_byte_ok text); eauto.
Qed.

Theorem event_split_ok e max : exists es, event_split e max = Ok es.
Proof.
  unfold event_split.
  destruct (se_params e) as [|p ps] eqn:Ep; [eauto|].
  destruct (negb (is_msg_cmd (se_command e))); [eauto|].
  destruct (Z.of_nat (len_nosrc e) <? max)%Z; [eauto|].
  destruct (decode_ctcp_ok (Ctcp.mk_event None (se_command e) (p :: ps))) as [d Hd].
  rewrite Hd; cbn [rbind].
  destruct d as [c|].
  - destruct (last (p :: ps) []); [eauto|].
    match goal with |- context [if ?c then _ else _] => destruct c end; [eauto|].
    match goal with |- context [split_message ?t ?w] => destruct (split_message_ok t w) as [x Hx]; rewrite Hx end.
    cbn [rbind]. eauto.
  - match goal with |- context [if ?c then _ else _] => destruct c end; [eauto|].
    match goal with |- context [split_message ?t ?w] => destruct (split_message_ok t w) as [x Hx]; rewrite Hx end.
    cbn [rbind]. eauto.
Qed.

Theorem event_split_no_panic e max : event_split e max <> Panic.
Proof. destruct (event_split_ok e max) as [x H]. rewrite H. discriminate. Qed.

(* ------------------------------------------------------------------ *)
(* Join / List batches                                                 *)
(* ------------------------------------------------------------------ *)

Definition good_chan (c : str) : Prop := c <> [] /\ ~ In 44%N c.

Lemma split_byte_nocomma c x : ~ In c x -> split_byte c x = [x].
Proof.
  induction x as [|a r IH]; intros H; cbn [split_byte]; [reflexivity|].
  destruct (N.eqb a c) eqn:E. { apply N.eqb_eq in E. exfalso. apply H. left. exact E. }
  rewrite IH; [reflexivity|]. intros Hin. apply H. right. exact Hin.
Qed.

Lemma split_byte_app c x y : ~ In c x -> split_byte c (x ++ c :: y) = x :: split_byte c y.
Proof.
  induction x as [|a r IH]; intros H; cbn [split_byte app].
  - rewrite N.eqb_refl. reflexivity.
  - destruct (N.eqb a c) eqn:E. { apply N.eqb_eq in E. exfalso. apply H. left. exact E. }
    rewrite IH; [reflexivity|]. intros Hin. apply H. right. exact Hin.
Qed.

Lemma join_cons_ne sep x (l : list str) : l <> [] -> join sep (x :: l) = x ++ sep ++ join sep l.
Proof. destruct l; [congruence|reflexivity]. Qed.

Lemma split_join (l : list str) : l <> [] -> Forall good_chan l -> split_byte 44 (join comma l) = l.
Proof.
  induction l as [|x r IH]; intros Hne Hg; [congruence|].
  inversion Hg as [|? ? [_ Hx] Hr]; subst.
  destruct r as [|y r'].
  - cbn [join]. apply split_byte_nocomma. exact Hx.
  - rewrite join_cons_ne by discriminate. unfold comma at 1. cbn [app].
    rewrite split_byte_app by exact Hx. rewrite IH; [reflexivity|discriminate|exact Hr].
Qed.

Lemma join_nil_iff (l : list str) : Forall good_chan l -> join comma l = [] -> l = [].
Proof.
  intros Hg. destruct l as [|x r]; [reflexivity|]. inversion Hg as [|? ? [Hx _] _]; subst.
  destruct r; cbn [join]; intros H; [congruence|].
  destruct x; [congruence|discriminate].
Qed.

Lemma join_snoc (l : list str) c : l <> [] -> join comma (l ++ [c]) = comma_join (join comma l) c.
Proof.
  induction l as [|x r IH]; intros Hne; [congruence|].
  destruct r as [|y r'].
  - reflexivity.
  - change ((x :: y :: r') ++ [c]) with (x :: ((y :: r') ++ [c])).
    rewrite join_cons_ne by (destruct r'; discriminate).
    rewrite IH by discriminate. rewrite (join_cons_ne comma x (y :: r')) by discriminate.
    unfold comma_join. rewrite <- !app_assoc. reflexivity.
Qed.

Lemma batches_concat max : forall chans bs, chans <> [] -> Forall good_chan chans -> Forall good_chan bs ->
  flat_map (split_byte 44) (batches chans (join comma bs) max) = bs ++ chans.
Proof.
  induction chans as [|c r IH]; intros bs Hne Hg Hb; [congruence|].
  inversion Hg as [|? ? Hc Hr]; subst.
  assert (Hsc : split_byte 44 c = [c]) by (apply split_byte_nocomma; apply Hc).
  cbn [batches].
  destruct (join comma bs) as [|b0 bt] eqn:Ej.
  - (* empty buffer *)
    apply join_nil_iff in Ej; [|exact Hb]. subst bs. cbn [app].
    destruct r as [|c' r'].
    + cbn [app flat_map]. rewrite Hsc. reflexivity.
    + cbn [app]. specialize (IH [c] ltac:(discriminate) Hr (Forall_cons _ Hc (Forall_nil _))).
      cbn [join] in IH. exact IH.
  - assert (Hbs : bs <> []) by (intros ->; discriminate).
    rewrite <- Ej.
    destruct (max <? Zlen (comma_join (join comma bs) c))%Z.
    + (* flush first *)
      destruct r as [|c' r'].
      * cbn [app flat_map]. rewrite split_join by assumption. rewrite Hsc. rewrite app_nil_r. reflexivity.
      * cbn [app flat_map]. rewrite split_join by assumption.
        specialize (IH [c] ltac:(discriminate) Hr (Forall_cons _ Hc (Forall_nil _))).
        cbn [join] in IH. rewrite IH. reflexivity.
    + rewrite Ej. rewrite <- Ej. rewrite <- join_snoc by exact Hbs.
      assert (Hbc : Forall good_chan (bs ++ [c])) by (apply Forall_app; split; [exact Hb|constructor; [exact Hc|constructor]]).
      destruct r as [|c' r'].
      * cbn [app flat_map]. rewrite split_join; [rewrite app_nil_r; reflexivity| |exact Hbc].
        destruct bs; discriminate.
      * cbn [app]. rewrite IH; [rewrite <- app_assoc; reflexivity|discriminate|exact Hr|exact Hbc].
Qed.

Theorem join_batches_concat chans mel : Forall good_chan chans ->
  flat_map (split_byte 44) (join_batches chans mel) = chans.
Proof.
  intros Hg. unfold join_batches. destruct chans as [|c r]; [reflexivity|].
  apply (batches_concat (mel - 4 - 1)%Z (c :: r) []); [discriminate|exact Hg|constructor].
Qed.

(* every batch fits, unless it is one channel that is too long by itself *)
Lemma batches_fit max (all : list str) : forall chans buffer,
  incl chans all -> (buffer = [] \/ (Zlen buffer <= max)%Z \/ In buffer all) ->
  Forall (fun b => (Zlen b <= max)%Z \/ In b all) (batches chans buffer max).
Proof.
  induction chans as [|c r IH]; intros buffer Hi Hb; cbn [batches]; [constructor|].
  assert (Hc : In c all) by (apply Hi; left; reflexivity).
  assert (Hr : incl r all) by (intros x Hx; apply Hi; right; exact Hx).
  destruct buffer as [|b0 bt].
  - destruct r as [|c' r']; cbn [app].
    + constructor; [right; exact Hc|constructor].
    + apply IH; [exact Hr|right; right; exact Hc].
  - set (buffer := b0 :: bt) in *.
    destruct Hb as [Hb|Hb]; [discriminate|].
    destruct (max <? Zlen (comma_join buffer c))%Z eqn:Efull.
    + destruct r as [|c' r']; cbn [app].
      * constructor; [exact Hb|]. constructor; [right; exact Hc|constructor].
      * constructor; [exact Hb|]. apply IH; [exact Hr|right; right; exact Hc].
    + assert (Hfit : (Zlen (comma_join buffer c) <= max)%Z) by lia.
      subst buffer. cbv beta iota.
      destruct r as [|c' r']; cbn [app].
      * constructor; [left; exact Hfit|constructor].
      * apply IH; [exact Hr|right; left; exact Hfit].
Qed.

Theorem join_batches_fit chans mel :
  Forall (fun b => (Zlen JOIN + 1 + Zlen b <= mel)%Z \/ In b chans) (join_batches chans mel).
Proof.
  unfold join_batches.
  pose proof (batches_fit (mel - 4 - 1)%Z chans chans [] (incl_refl _) (or_introl eq_refl)) as H.
  eapply Forall_impl; [|exact H]. intros b [Hb|Hb]; [left|right; exact Hb].
  change (Zlen JOIN) with 4%Z. lia.
Qed.

Lemma batches_nonempty max : forall chans buffer, Forall (fun c => c <> []) chans ->
  Forall (fun b => b <> []) (batches chans buffer max).
Proof.
  induction chans as [|c r IH]; intros buffer Hg; cbn [batches]; [constructor|].
  inversion Hg as [|? ? Hc Hr]; subst.
  destruct buffer as [|b0 bt].
  - destruct r as [|c' r']; cbn [app].
    + constructor; [exact Hc|constructor].
    + apply IH. exact Hr.
  - destruct (max <? Zlen (comma_join (b0 :: bt) c))%Z.
    + destruct r as [|c' r']; cbn [app].
      * constructor; [discriminate|]. constructor; [exact Hc|constructor].
      * constructor; [discriminate|]. apply IH. exact Hr.
    + destruct r as [|c' r']; cbn [app].
      * constructor; [|constructor]. unfold comma_join. cbn [app]. discriminate.
      * apply IH. exact Hr.
Qed.

Theorem join_batches_nonempty chans mel : Forall (fun c => c <> []) chans ->
  Forall (fun b => b <> []) (join_batches chans mel).
Proof. apply batches_nonempty. Qed.

(* ------------------------------------------------------------------ *)
(* MaxEventLength after ISUPPORT                                       *)
(* ------------------------------------------------------------------ *)
Require Import AMap AMapLemmas SplitSpec.

Lemma opt_int_opts s k : opt_int s k = opt_num (st_opts s) k.
Proof. reflexivity. Qed.

Lemma handle_isupport_rejected s e : ~ isupport_accepted e -> handle_isupport s e = s.
Proof.
  intros H. unfold handle_isupport, isupport_accepted in *.
  destruct (suffixb this_server (last_param e)); cbn [negb]; [|reflexivity].
  destruct (Nat.ltb (length (e_params e)) 2) eqn:E; [reflexivity|].
  apply Nat.ltb_ge in E. exfalso. apply H. split; [reflexivity|exact E].
Qed.

(* one accepted 005 line, exactly *)
Lemma handle_isupport_step s e : isupport_accepted e ->
  let s' := handle_isupport s e in
  let opts' := isupport_tokens (st_opts s) (tl (e_params e)) in
  let L := match opt_num opts' k_LINELEN with Some t => t | None => st_maxline s end in
  st_opts s' = opts' /\
  st_maxline s' = match opt_num opts' k_LINELEN with Some t => (t - 2)%Z | None => st_maxline s end /\
  st_maxprefix s' = if (prefix_estimate opts' <? L)%Z then prefix_estimate opts' else st_maxprefix s.
Proof.
  intros [Hs Hn]. unfold handle_isupport. rewrite Hs. cbn [negb].
  replace (Nat.ltb (length (e_params e)) 2) with false by (symmetry; apply Nat.ltb_ge; exact Hn).
  set (opts' := isupport_tokens (st_opts s) (tl (e_params e))).
  set (s1 := set_opts s opts').
  cbv zeta.
  rewrite !opt_int_opts.
  change (st_opts s1) with opts'.
  unfold prefix_estimate.
  destruct (opt_num opts' k_LINELEN) as [t|] eqn:EL.
  - rewrite !opt_int_opts. change (st_opts (set_maxline s1 (t - 2))) with opts'.
    set (nick0 := match opt_num opts' k_NICKLEN with Some t0 => t0 | None => 30%Z end).
    set (nick1 := match opt_num opts' k_MAXNICKLEN with Some t0 => if (nick0 <? t0)%Z then t0 else nick0 | None => nick0 end).
    set (user1 := match opt_num opts' k_USERLEN with Some t0 => if (18 <? t0)%Z then t0 else 18%Z | None => 18%Z end).
    set (host1 := match opt_num opts' k_HOSTLEN with Some t0 => if (63 <? t0)%Z then t0 else 63%Z | None => 63%Z end).
    assert (E1 : nick1 = match opt_num opts' k_MAXNICKLEN with Some t0 => Z.max nick0 t0 | None => nick0 end).
    { subst nick1. destruct (opt_num opts' k_MAXNICKLEN); [|reflexivity]. destruct (nick0 <? z)%Z eqn:E; lia. }
    assert (E2 : user1 = match opt_num opts' k_USERLEN with Some t0 => Z.max 18 t0 | None => 18%Z end).
    { subst user1. destruct (opt_num opts' k_USERLEN); [|reflexivity]. destruct (18 <? z)%Z eqn:E; lia. }
    assert (E3 : host1 = match opt_num opts' k_HOSTLEN with Some t0 => Z.max 63 t0 | None => 63%Z end).
    { subst host1. destruct (opt_num opts' k_HOSTLEN); [|reflexivity]. destruct (63 <? z)%Z eqn:E; lia. }
    rewrite <- E1, <- E2, <- E3.
    destruct (t <=? 4 + nick1 + user1 + host1)%Z eqn:Eg.
    + replace (4 + nick1 + user1 + host1 <? t)%Z with false by lia. repeat split; reflexivity.
    + replace (4 + nick1 + user1 + host1 <? t)%Z with true by lia. repeat split; reflexivity.
  - rewrite !opt_int_opts. change (st_opts s1) with opts'. change (st_maxline s1) with (st_maxline s).
    set (nick0 := match opt_num opts' k_NICKLEN with Some t0 => t0 | None => 30%Z end).
    set (nick1 := match opt_num opts' k_MAXNICKLEN with Some t0 => if (nick0 <? t0)%Z then t0 else nick0 | None => nick0 end).
    set (user1 := match opt_num opts' k_USERLEN with Some t0 => if (18 <? t0)%Z then t0 else 18%Z | None => 18%Z end).
    set (host1 := match opt_num opts' k_HOSTLEN with Some t0 => if (63 <? t0)%Z then t0 else 63%Z | None => 63%Z end).
    assert (E1 : nick1 = match opt_num opts' k_MAXNICKLEN with Some t0 => Z.max nick0 t0 | None => nick0 end).
    { subst nick1. destruct (opt_num opts' k_MAXNICKLEN); [|reflexivity]. destruct (nick0 <? z)%Z eqn:E; lia. }
    assert (E2 : user1 = match opt_num opts' k_USERLEN with Some t0 => Z.max 18 t0 | None => 18%Z end).
    { subst user1. destruct (opt_num opts' k_USERLEN); [|reflexivity]. destruct (18 <? z)%Z eqn:E; lia. }
    assert (E3 : host1 = match opt_num opts' k_HOSTLEN with Some t0 => Z.max 63 t0 | None => 63%Z end).
    { subst host1. destruct (opt_num opts' k_HOSTLEN); [|reflexivity]. destruct (63 <? z)%Z eqn:E; lia. }
    rewrite <- E1, <- E2, <- E3.
    destruct (st_maxline s <=? 4 + nick1 + user1 + host1)%Z eqn:Eg.
    + replace (4 + nick1 + user1 + host1 <? st_maxline s)%Z with false by lia. repeat split; reflexivity.
    + replace (4 + nick1 + user1 + host1 <? st_maxline s)%Z with true by lia. repeat split; reflexivity.
Qed.

Lemma isupport_tokens_keeps k : forall toks opts,
  alookup k opts <> None -> alookup k (isupport_tokens opts toks) <> None.
Proof.
  induction toks as [|t r IH]; intros opts H; cbn [isupport_tokens]; [exact H|].
  destruct r as [|t' r']; [exact H|]. apply IH.
  destruct (index_byte 61 t) as [j|]; [match goal with |- context [if ?b then _ else _] => destruct b end|];
    rewrite alookup_aset; match goal with |- context [streqb ?a ?b] => destruct (streqb a b) end;
    try discriminate; exact H.
Qed.

Definition limit_inv (s : state) : Prop :=
  (forall L, opt_num (st_opts s) k_LINELEN = Some L -> st_maxline s = (L - 2)%Z) /\
  (alookup k_LINELEN (st_opts s) = None -> st_maxline s = 510%Z) /\
  ((prefix_estimate (st_opts s) <
      match opt_num (st_opts s) k_LINELEN with Some L => L | None => st_maxline s end)%Z ->
   st_maxprefix s = prefix_estimate (st_opts s)).

Lemma limit_inv_init : limit_inv state_init.
Proof. repeat split; try reflexivity. intros L H. discriminate. Qed.

Lemma limit_inv_step s e : limit_inv s -> limit_inv (handle_isupport s e).
Proof.
  intros (I1 & I2 & I3).
  assert (Hdec : isupport_accepted e \/ ~ isupport_accepted e).
  { unfold isupport_accepted. destruct (suffixb this_server (last_param e)); [|right; intros [H _]; discriminate].
    destruct (Nat.ltb (length (e_params e)) 2) eqn:E.
    - right. intros [_ H]. apply Nat.ltb_lt in E. lia.
    - left. split; [reflexivity|]. apply Nat.ltb_ge in E. exact E. }
  destruct Hdec as [Ha|Hr]; [|rewrite handle_isupport_rejected by exact Hr; repeat split; assumption].
  destruct (handle_isupport_step s e Ha) as (Ho & Hl & Hp).
  set (s' := handle_isupport s e) in *. set (opts' := isupport_tokens (st_opts s) (tl (e_params e))) in *.
  unfold limit_inv. rewrite Ho. repeat split.
  - intros L HL. rewrite Hl, HL. reflexivity.
  - intros Hnone. rewrite Hl. unfold opt_num. rewrite Hnone. apply I2.
    destruct (alookup k_LINELEN (st_opts s)) eqn:E; [|reflexivity].
    exfalso. apply (isupport_tokens_keeps k_LINELEN (tl (e_params e)) (st_opts s)); [rewrite E; discriminate|exact Hnone].
  - intros Hg. rewrite Hp.
    destruct (opt_num opts' k_LINELEN) as [L|] eqn:EL.
    + replace (prefix_estimate opts' <? L)%Z with true by lia. reflexivity.
    + rewrite Hl in Hg. replace (prefix_estimate opts' <? st_maxline s)%Z with true by lia. reflexivity.
Qed.

Theorem isupport_limit_inv evs : limit_inv (fold_left handle_isupport evs state_init).
Proof.
  assert (G : forall s, limit_inv s -> limit_inv (fold_left handle_isupport evs s)).
  { induction evs as [|e r IH]; intros s H; cbn [fold_left]; [exact H|]. apply IH. apply limit_inv_step. exact H. }
  apply G. apply limit_inv_init.
Qed.

(* MaxEventLength = L - 2 - P *)
Theorem max_event_length_formula evs :
  let s := fold_left handle_isupport evs state_init in
  let P := prefix_estimate (st_opts s) in
  (forall L, opt_num (st_opts s) k_LINELEN = Some L -> (P < L)%Z ->
     max_event_length s = (L - 2 - P)%Z) /\
  (alookup k_LINELEN (st_opts s) = None -> (P < 510)%Z ->
     max_event_length s = (512 - 2 - P)%Z).
Proof.
  cbv zeta. destruct (isupport_limit_inv evs) as (I1 & I2 & I3).
  set (s := fold_left handle_isupport evs state_init) in *. unfold max_event_length. split.
  - intros L HL Hg. rewrite HL in I3. rewrite (I1 L HL), (I3 Hg). reflexivity.
  - intros Hn Hg. assert (HN : opt_num (st_opts s) k_LINELEN = None) by (unfold opt_num; rewrite Hn; reflexivity).
    rewrite HN in I3. rewrite (I2 Hn) in *. rewrite (I3 Hg). lia.
Qed.

Definition ex_005 : event :=
  mkEvent None None (bs "005") [bs "me"; bs "LINELEN=1024"; bs "NICKLEN=31"; bs "are supported by this server"].

Example max_event_length_example :
  isupport_accepted ex_005 /\
  opt_num (st_opts (fold_left handle_isupport [ex_005] state_init)) k_LINELEN = Some 1024%Z /\
  (prefix_estimate (st_opts (fold_left handle_isupport [ex_005] state_init)) < 1024)%Z /\
  max_event_length (fold_left handle_isupport [ex_005] state_init) = 906%Z.
Proof. vm_compute. repeat split; lia. Qed.

(* ------------------------------------------------------------------ *)
(* C11_fits: every piece of splitMessage is at most w bytes             *)
(* (one character of up to 4 bytes when w < 4)                          *)
(* ------------------------------------------------------------------ *)

Definition fits_w (w : Z) (p : str) : Prop := (Zlen p <= w)%Z \/ ((w < 4)%Z /\ (Zlen p <= 4)%Z).

(* once the loop is "guarded" (text on the line, or one character taken) it stays in the room *)
Lemma cut_len_guarded fuel : forall rest n left has, (has = true \/ 0 < n) ->
  (Z.of_nat (cut_len fuel rest n left has) <= Z.of_nat n + Z.max left 0)%Z.
Proof.
  induction fuel as [|f IH]; intros rest n left has Hg; cbn [cut_len]; [lia|].
  destruct rest as [|b r]; [lia|]. set (rest := b :: r).
  destruct (first_rune_width_bounds rest ltac:(subst rest; discriminate)) as [[H1 H4] Hl].
  destruct ((left <? Z.of_nat (first_rune_width rest))%Z && (Nat.ltb 0 n || has)) eqn:E; [lia|].
  assert (Hle : (Z.of_nat (first_rune_width rest) <= left)%Z).
  { apply andb_false_iff in E. destruct E as [E|E]; [lia|].
    apply orb_false_iff in E. destruct E as [E1 E2]. destruct Hg as [Hg|Hg]; [congruence|].
    apply Nat.ltb_ge in E1. lia. }
  specialize (IH (skipn (first_rune_width rest) rest) (first_rune_width rest + n)
                 (left - Z.of_nat (first_rune_width rest))%Z has).
  assert (X: 0 < first_rune_width rest + n) by lia. specialize (IH (or_intror X)). lia.
Qed.

Lemma cut_len_upper word room has : word <> [] ->
  let n := cut_len (length word) word 0 room has in
  (Z.of_nat n <= Z.max room 0)%Z \/ (has = false /\ n = first_rune_width word).
Proof.
  intros Hne n. subst n. destruct word as [|b r]; [congruence|].
  destruct (first_rune_width_bounds (b :: r) Hne) as [[H1 H4] Hl].
  cbn [length cut_len]. set (k := first_rune_width (b :: r)) in *.
  destruct ((room <? Z.of_nat k)%Z && (Nat.ltb 0 0 || has)) eqn:E; [left; lia|].
  assert (X : 0 < k + 0) by lia.
  pose proof (cut_len_guarded (length r) (skipn k (b :: r)) (k + 0) (room - Z.of_nat k)%Z has (or_intror X)) as G.
  pose proof (cut_len_range (length r) (skipn k (b :: r)) (k + 0) (room - Z.of_nat k)%Z has) as R.
  destruct (Z.leb (Z.of_nat k) room) eqn:Er.
  - left. lia.
  - destruct has.
    + cbn [Nat.ltb Nat.leb orb] in E. rewrite andb_true_r in E. lia.
    + right. split; [reflexivity|]. lia.
Qed.

Definition pfx_ok (w : Z) (pfx : str) : Prop := pfx = [] \/ (Zlen pfx + 4 <= w)%Z.

Record fits_inv (w : Z) (st : lst) : Prop := {
  fi_out : Forall (fits_w w) (l_out st);
  fi_has : l_has st = true -> fits_w w (l_cur st);
  fi_new : l_has st = false -> pfx_ok w (l_cur st)
}.

Lemma Zlen_app a b : Zlen (a ++ b) = (Zlen a + Zlen b)%Z.
Proof. unfold Zlen. rewrite app_length. lia. Qed.

Lemma fits_inv_flush w pfx st : pfx_ok w pfx -> fits_inv w st -> l_has st = true -> fits_inv w (flush pfx st).
Proof.
  intros Hp [Ho Hh Hn] Hs. constructor; cbn [flush l_out l_cur l_has].
  - apply Forall_app. split; [exact Ho|]. constructor; [apply Hh; exact Hs|constructor].
  - discriminate.
  - intros _. exact Hp.
Qed.

Lemma place_fits fuel : forall pfx w word st st', pfx_ok w pfx -> fits_inv w st ->
  place fuel pfx w word st = Ok st' -> fits_inv w st'.
Proof.
  induction fuel as [|f IH]; intros pfx w word st st' Hp Hi H.
  { destruct word; cbn [place] in H; [inversion H; subst; exact Hi|discriminate]. }
  destruct word as [|b r]; [cbn [place] in H; inversion H; subst; exact Hi|].
  set (word := b :: r) in *. assert (Hne : word <> []) by (subst word; discriminate).
  unfold place in H; fold place in H. subst word; cbv beta iota in H; set (word := b :: r) in *.
  destruct Hi as [Ho Hh Hn].
  destruct (Zlen word <=? room_of w st)%Z eqn:Efit.
  - (* the word fits *)
    inversion H; subst st'. unfold room_of in Efit. constructor; cbn [add l_out l_cur l_has]; [exact Ho| |discriminate].
    intros _. left. rewrite !Zlen_app. destruct (l_has st); cbn [Zlen length]; unfold Zlen in *; cbn [length]; lia.
  - destruct (l_has st && ((Zlen pfx + Zlen word <=? w)%Z || (room_of w st <? 4)%Z)) eqn:Eflush.
    + apply andb_true_iff in Eflush. destruct Eflush as [Es _].
      eapply IH; [exact Hp| |exact H]. apply fits_inv_flush; [exact Hp|constructor; assumption|exact Es].
    + set (n := cut_len (length word) word 0 (room_of w st) (l_has st)) in *.
      unfold slice_to, slice_from in H.
      destruct (Nat.leb n (length word)) eqn:En; [|discriminate]. cbn [rbind] in H.
      eapply IH; [exact Hp| |exact H].
      assert (Hcur : fits_w w (l_cur (add (firstn n word) st))).
      { cbn [add l_cur]. pose proof (cut_len_upper word (room_of w st) (l_has st) Hne) as U. fold n in U.
        apply Nat.leb_le in En.
        assert (Hfl : Zlen (firstn n word) = Z.of_nat n) by (unfold Zlen; rewrite firstn_length; lia).
        unfold room_of in *. unfold fits_w. rewrite !Zlen_app, Hfl.
        destruct (l_has st) eqn:Es.
        - (* text on the line: room >= 4 *)
          cbn [andb] in Eflush. apply orb_false_iff in Eflush. destruct Eflush as [_ E4].
          destruct U as [U|[U _]]; [|discriminate]. left. change (Zlen [32%N]) with 1%Z. lia.
        - specialize (Hn eq_refl). change (Zlen []) with 0%Z.
          destruct (first_rune_width_bounds word Hne) as [[H1 H4] _].
          destruct U as [U|[_ U]].
          + destruct Hn as [Hn|Hn].
            * rewrite Hn in *. change (Zlen []) with 0%Z in *.
              destruct (Z.ltb w 4) eqn:E4; [|left; lia].
              destruct (Z.leb (Z.of_nat n) w) eqn:E5; [left; lia|]. right. lia.
            * left. lia.
          + destruct Hn as [Hn|Hn].
            * rewrite Hn. change (Zlen []) with 0%Z.
              destruct (Z.ltb w 4) eqn:E4; [right; lia|left; lia].
            * left. lia. }
      constructor; cbn [flush add l_out l_cur l_has].
      * apply Forall_app. split; [exact Ho|]. constructor; [exact Hcur|constructor].
      * discriminate.
      * intros _. exact Hp.
Qed.

Lemma prefix_of_ok codes lastc w : pfx_ok w (prefix_of codes lastc w).
Proof.
  unfold prefix_of, pfx_ok. destruct (w <? Zlen (codes ++ lastc) + 4)%Z eqn:E; [left; reflexivity|right; lia].
Qed.

Lemma step_fits w st word st' : fits_inv w (s_l st) -> step w (Ok st) word = Ok st' -> fits_inv w (s_l st').
Proof.
  intros Hi H. unfold step in H; cbn [rbind] in H. destruct word as [|b r].
  - destruct (l_has (s_l st)) eqn:Es; inversion H; subst; cbn [s_l]; [|exact Hi].
    apply fits_inv_flush; [apply prefix_of_ok|exact Hi|exact Es].
  - destruct (track_word (s_codes st) (s_lastc st) (b :: r)) as [codes lastc].
    destruct (place (2 * length (b :: r) + 2) (prefix_of codes lastc w) w (b :: r) (s_l st)) as [l|] eqn:Ep;
      cbn [rbind] in H; [|discriminate].
    inversion H; subst; cbn [s_l]. eapply place_fits; [apply prefix_of_ok|exact Hi|exact Ep].
Qed.

Lemma fold_step_fits w words : forall st st', fits_inv w (s_l st) ->
  fold_left (step w) words (Ok st) = Ok st' -> fits_inv w (s_l st').
Proof.
  induction words as [|x r IH]; intros st st' Hi H; cbn [fold_left] in H; [inversion H; subst; exact Hi|].
  destruct (step_ok w st x) as [st1 H1]. rewrite H1 in H.
  eapply IH; [|exact H]. eapply step_fits; [exact Hi|exact H1].
Qed.

Lemma fits_w_mono w p q : (length q <= length p) -> fits_w w p -> fits_w w q.
Proof. unfold fits_w, Zlen. intros H [A|[A B]]; [left|right]; lia. Qed.

Theorem split_message_fits text w ps : split_message text w = Ok ps -> Forall (fits_w w) ps.
Proof.
  unfold split_message. intros H.
  destruct (fold_left (step w) (split_words (to_valid_utf8 qmark text)) (Ok sst_init)) as [st|] eqn:E;
    cbn [rbind] in H; [|discriminate].
  inversion H; subst ps. clear H.
  assert (Hi : fits_inv w (s_l st)).
  { eapply fold_step_fits; [|exact E]. constructor; cbn; [constructor|discriminate|intros _; left; reflexivity]. }
  destruct Hi as [Ho Hh _].
  assert (Hf : Forall (fits_w w) (finish (s_l st))).
  { unfold finish. destruct (l_has (s_l st)); [|exact Ho].
    apply Forall_app. split; [exact Ho|]. constructor; [apply Hh; reflexivity|constructor]. }
  apply Forall_forall. intros p Hp. apply in_map_iff in Hp. destruct Hp as (q & <- & Hq).
  eapply fits_w_mono; [|exact (proj1 (Forall_forall _ _) Hf q Hq)].
  apply to_valid_utf8_length. cbn. lia.
Qed.

(* ------------------------------------------------------------------ *)
(* DecodeCTCP, inverted                                                *)
(* ------------------------------------------------------------------ *)

Lemma list_ends (p : str) c0 cl : 2 <= length p ->
  nth_error p 0 = Some c0 -> nth_error p (length p - 1) = Some cl ->
  p = c0 :: firstn (length p - 1 - 1) (skipn 1 p) ++ [cl].
Proof.
  intros Hl H0 H1. destruct p as [|x r]; [cbn in Hl; lia|]. cbn [nth_error] in H0. inversion H0; subst x.
  cbn [length skipn] in *. f_equal.
  replace (S (length r) - 1) with (S (length r - 1)) in H1 by lia. cbn [nth_error] in H1.
  apply nth_error_split in H1. destruct H1 as (l1 & l2 & E & Hl1).
  assert (l2 = []).
  { destruct l2; [reflexivity|]. subst r. rewrite app_length in *. cbn [length] in *. lia. }
  subst l2. subst r. rewrite app_length. cbn [length].
  replace (S (length l1 + 1) - 1 - 1) with (length l1) by lia.
  rewrite firstn_app, firstn_all, Nat.sub_diag. cbn [firstn]. rewrite app_nil_r. reflexivity.
Qed.

Lemma index_byte_split c s : forall i, index_byte c s = Some i ->
  s = firstn i s ++ c :: skipn (S i) s /\ ~ In c (firstn i s).
Proof.
  induction s as [|x r IH]; intros i; cbn [index_byte]; [discriminate|].
  destruct (N.eqb x c) eqn:E.
  - intros H; inversion H; subst. apply N.eqb_eq in E. subst. cbn. split; [reflexivity|tauto].
  - destruct (index_byte c r) as [j|]; cbn [option_map]; [|discriminate].
    intros H; inversion H; subst. destruct (IH j eq_refl) as [E1 E2]. cbn [firstn skipn app]. split.
    + f_equal. exact E1.
    + intros [Hx|Hx]; [apply N.eqb_neq in E; congruence|exact (E2 Hx)].
Qed.

Lemma index_byte_none c s : index_byte c s = None -> ~ In c s.
Proof.
  induction s as [|x r IH]; cbn [index_byte]; [tauto|].
  destruct (N.eqb x c) eqn:E; [discriminate|].
  destruct (index_byte c r); cbn [option_map]; [discriminate|].
  intros _ [Hx|Hx]; [apply N.eqb_neq in E; congruence|exact (IH eq_refl Hx)].
Qed.

Lemma decode_ctcp_some e c : decode_ctcp e = Ok (Some c) ->
  exists p0 body, ev_params e = [p0; [1%N] ++ body ++ [1%N]] /\ body <> [] /\
    is_msg_cmd (ev_command e) = true /\
    forallb tag_byte_ok (c_command c) = true /\ c_command c <> [] /\ ~ In 32%N (c_command c) /\
    ((body = c_command c /\ c_text c = []) \/ body = c_command c ++ [32%N] ++ c_text c).
Proof.
  unfold decode_ctcp.
  destruct (negb (Nat.eqb (length (ev_params e)) 2)) eqn:E2; [discriminate|].
  apply negb_false_iff, Nat.eqb_eq in E2.
  destruct (ev_params e) as [|p0 [|p1 [|p2 r]]]; cbn [length] in E2; try lia.
  unfold nth_param; cbn [nth_error rbind].
  destruct (Nat.ltb (length p1) 3) eqn:E3; [discriminate|]. apply Nat.ltb_ge in E3.
  destruct (negb (streqb (ev_command e) PRIVMSG) && negb (streqb (ev_command e) NOTICE)) eqn:Ecmd; [discriminate|].
  assert (Hmsg : is_msg_cmd (ev_command e) = true).
  { unfold is_msg_cmd. destruct (streqb (ev_command e) PRIVMSG), (streqb (ev_command e) NOTICE); cbn in *; congruence. }
  unfold at_.
  destruct (nth_error p1 0) as [c0|] eqn:N0; [|discriminate].
  destruct (nth_error p1 (length p1 - 1)) as [cl|] eqn:N1; [|discriminate].
  cbn [rbind].
  destruct (negb (c0 =? ctcp_delim)%N || negb (cl =? ctcp_delim)%N) eqn:Ed; [discriminate|].
  apply orb_false_iff in Ed. destruct Ed as [Ed0 Ed1].
  apply negb_false_iff, N.eqb_eq in Ed0. apply negb_false_iff, N.eqb_eq in Ed1. unfold ctcp_delim in *. subst c0 cl.
  unfold slice at 1.
  replace (Nat.leb 1 (length p1 - 1) && Nat.leb (length p1 - 1) (length p1))%bool with true
    by (symmetry; apply andb_true_iff; split; apply Nat.leb_le; lia).
  cbn [rbind].
  pose proof (list_ends p1 1%N 1%N ltac:(lia) N0 N1) as Hp1.
  set (text := firstn (length p1 - 1 - 1) (skipn 1 p1)) in *.
  assert (Htext : text <> []).
  { intros Ht. rewrite Ht in Hp1. rewrite Hp1 in E3. cbn in E3. lia. }
  destruct (index_byte event_space text) as [s|] eqn:Ei.
  - destruct (Nat.eqb s 0) eqn:Es0; [discriminate|]. apply Nat.eqb_neq in Es0.
    destruct (negb (forallb tag_byte_ok (firstn s text))) eqn:Et; [discriminate|]. apply negb_false_iff in Et.
    pose proof (index_byte_lt _ _ _ Ei) as Hlt.
    unfold slice, slice_from.
    replace (Nat.leb 0 s && Nat.leb s (length text))%bool with true
      by (symmetry; apply andb_true_iff; split; apply Nat.leb_le; lia).
    replace (Nat.leb (S s) (length text)) with true by (symmetry; apply Nat.leb_le; lia).
    cbn [rbind]. intros H; inversion H; subst c; cbn [c_command c_text]. clear H.
    rewrite Nat.sub_0_r. cbn [skipn].
    destruct (index_byte_split _ _ _ Ei) as [Esplit Hnin].
    exists p0, text. repeat split; try assumption.
    + f_equal. f_equal. exact Hp1.
    + intros Hn. assert (length (firstn s text) = 0) by (rewrite Hn; reflexivity). rewrite firstn_length in H. lia.
    + right. exact Esplit.
  - destruct (forallb tag_byte_ok text) eqn:Et; [|discriminate].
    intros H; inversion H; subst c; cbn [c_command c_text]. clear H.
    exists p0, text. repeat split; try assumption.
    + f_equal. f_equal. exact Hp1.
    + apply index_byte_none. exact Ei.
    + left. split; reflexivity.
Qed.

(* ------------------------------------------------------------------ *)
(* C11_fits / C11_shape at the event level                             *)
(* ------------------------------------------------------------------ *)

(* "COMMAND target :" (with the tag overhead), i.e. the line without any text *)
Definition head_len (e : sevent) : Z :=
  Z.of_nat (len_nosrc (with_params e (set_last (se_params e) []))).

Definition ctcp_of (e : sevent) : option ctcp_event :=
  match decode_ctcp (Ctcp.mk_event None (se_command e) (se_params e)) with
  | Ok d => d
  | Panic => None
  end.

(* the CTCP frame \x01 TAG SPACE ... \x01 plus the one byte Event.split keeps in reserve *)
Definition ctcp_overhead (e : sevent) : Z :=
  match ctcp_of e with Some c => (Zlen (c_command c) + 4)%Z | None => 0%Z end.

Definition cmd_target_len (e : sevent) : Z := (head_len e + ctcp_overhead e)%Z.

Fixpoint mid_len (ps : list str) : nat :=
  match ps with [] => 0 | p :: r => 1 + length p + mid_len r end.

Lemma params_len_snoc l v :
  params_len (l ++ [v]) = mid_len l + 1 + length v + (if needs_colon v then 1 else 0).
Proof.
  induction l as [|p r IH]; [cbn; lia|].
  change ((p :: r) ++ [v]) with (p :: (r ++ [v])).
  destruct (r ++ [v]) as [|x y] eqn:E; [destruct r; discriminate|].
  change (params_len (p :: x :: y)) with (1 + length p + params_len (x :: y)).
  cbn [mid_len]. rewrite IH. lia.
Qed.

Lemma set_last_snoc ps v : ps <> [] -> set_last ps v = removelast ps ++ [v].
Proof. destruct ps; [congruence|reflexivity]. Qed.

Lemma len_nosrc_piece e v : se_params e <> [] ->
  (Z.of_nat (len_nosrc (with_params e (set_last (se_params e) v))) <= head_len e + Zlen v)%Z.
Proof.
  intros Hne. unfold head_len, len_nosrc, with_params; cbn [se_tagov se_command se_params].
  rewrite !set_last_snoc by exact Hne. rewrite !params_len_snoc. cbn [length].
  change (needs_colon []) with true. unfold Zlen. destruct (needs_colon v); lia.
Qed.

Definition event_fits (e : sevent) (max : Z) (p : sevent) : Prop :=
  (Z.of_nat (len_nosrc p) <= max)%Z \/
  ((max - cmd_target_len e < 4)%Z /\ (Z.of_nat (len_nosrc p) <= cmd_target_len e + 4)%Z).

Lemma last_two {A} (a b d : A) : last [a; b] d = b.
Proof. reflexivity. Qed.

Theorem event_split_fits e max es : event_split e max = Ok es ->
  se_params e <> [] -> is_msg_cmd (se_command e) = true -> (cmd_target_len e <= max)%Z ->
  Forall (event_fits e max) es.
Proof.
  intros H Hne Hmsg Hctl. unfold event_split in H.
  destruct (se_params e) as [|p ps] eqn:Ep; [congruence|]. rewrite <- Ep in *.
  rewrite Hmsg in H. cbn [negb] in H.
  destruct (Z.of_nat (len_nosrc e) <? max)%Z eqn:Elen.
  { inversion H; subst. constructor; [left; lia|constructor]. }
  unfold cmd_target_len, ctcp_overhead, ctcp_of in *. fold (head_len e) in H.
  destruct (decode_ctcp (Ctcp.mk_event None (se_command e) (se_params e))) as [d|] eqn:Ed;
    cbn [rbind] in H; [|discriminate].
  destruct d as [c|].
  - destruct (decode_ctcp_some _ _ Ed) as (p0 & body & Hps & Hbody & _). cbn [ev_params] in Hps.
    assert (Hlast : last (se_params e) [] = 1%N :: body ++ [1%N]) by (rewrite Hps; reflexivity).
    rewrite Hlast in H. cbv beta iota in H.
    destruct ((max - (Zlen (c_command c) + 4) <? head_len e)%Z) eqn:Ecmp; [lia|].
    destruct (split_message (c_text c) (max - (Zlen (c_command c) + 4) - head_len e)) as [pieces|] eqn:Es;
      cbn [rbind] in H; [|discriminate].
    inversion H; subst es. clear H.
    pose proof (split_message_fits _ _ _ Es) as Hf.
    apply Forall_forall. intros x Hx. apply in_map_iff in Hx. destruct Hx as (q & <- & Hq).
    pose proof (proj1 (Forall_forall _ _) Hf q Hq) as Hfq.
    pose proof (len_nosrc_piece e (ctcp_wrap (c_command c) q) Hne) as Hl.
    unfold ctcp_wrap in Hl. rewrite !Zlen_app in Hl. change (Zlen [1%N]) with 1%Z in Hl. change (Zlen [32%N]) with 1%Z in Hl.
    unfold event_fits, cmd_target_len, ctcp_overhead, ctcp_of. rewrite Ed.
    unfold ctcp_wrap. destruct Hfq as [Hfq|[Hw Hfq]]; [left; lia|right; lia].
  - destruct ((max <? head_len e)%Z) eqn:Ecmp; [lia|].
    destruct (split_message (last (se_params e) []) (max - head_len e)) as [pieces|] eqn:Es;
      cbn [rbind] in H; [|discriminate].
    inversion H; subst es. clear H.
    pose proof (split_message_fits _ _ _ Es) as Hf.
    apply Forall_forall. intros x Hx. apply in_map_iff in Hx. destruct Hx as (q & <- & Hq).
    pose proof (proj1 (Forall_forall _ _) Hf q Hq) as Hfq.
    pose proof (len_nosrc_piece e q Hne) as Hl.
    unfold event_fits, cmd_target_len, ctcp_overhead, ctcp_of. rewrite Ed.
    destruct Hfq as [Hfq|[Hw Hfq]]; [left; lia|right; lia].
Qed.

(* what reaches the wire is not longer than what LenOpts measured *)
Lemma params_bytes_length ps : length (params_bytes ps) = params_len ps.
Proof.
  induction ps as [|p r IH]; [reflexivity|]. destruct r as [|q r'].
  - cbn [params_bytes params_len]. rewrite !app_length. cbn [length]. destruct (needs_colon p); cbn [length]; lia.
  - change (params_bytes (p :: q :: r')) with ([32%N] ++ p ++ params_bytes (q :: r')).
    change (params_len (p :: q :: r')) with (1 + length p + params_len (q :: r')).
    rewrite !app_length, IH. cbn [length]. lia.
Qed.

Lemma source_bytes_length s : length (source_bytes s) = source_len s.
Proof.
  destruct s as [[name ident] host]. unfold source_bytes, source_len. rewrite !app_length.
  destruct ident, host; cbn [length]; lia.
Qed.

Lemma strip_crlf_length s : length (strip_crlf s) <= length s.
Proof.
  unfold strip_crlf. induction s as [|b r IH]; [cbn; lia|]. cbn [filter].
  match goal with |- context [if ?c then _ else _] => destruct c end; cbn [length]; lia.
Qed.

Theorem event_bytes_length e : se_tagov e = 0 -> length (event_bytes e) <= len_opts e.
Proof.
  intros Ht. unfold event_bytes.
  eapply Nat.le_trans; [apply strip_crlf_length|].
  eapply Nat.le_trans; [apply to_valid_utf8_length; cbn; lia|].
  unfold event_raw, len_opts, len_nosrc. rewrite Ht. rewrite !app_length, params_bytes_length.
  destruct (se_source e) as [s|]; [|cbn [length]; lia].
  rewrite !app_length, source_bytes_length. cbn [length]. lia.
Qed.

(* C11_shape *)
Definition same_frame (e p : sevent) : Prop :=
  se_command p = se_command e /\ se_source p = se_source e /\ se_tagov p = se_tagov e /\
  length (se_params p) = length (se_params e) /\ removelast (se_params p) = removelast (se_params e).

Lemma removelast_snoc {A} (l : list A) v : removelast (l ++ [v]) = l.
Proof. apply removelast_last. Qed.

Lemma same_frame_piece e v : se_params e <> [] -> same_frame e (with_params e (set_last (se_params e) v)).
Proof.
  intros Hne. unfold same_frame, with_params; cbn [se_command se_source se_tagov se_params].
  rewrite set_last_snoc by exact Hne. rewrite removelast_snoc.
  repeat split. rewrite app_length. cbn [length].
  destruct (se_params e) as [|x r]; [congruence|].
  pose proof (@app_removelast_last _ (x :: r) [] ltac:(discriminate)) as E.
  rewrite E at 2. rewrite app_length. cbn [length]. reflexivity.
Qed.

(* Every piece keeps command, source, tags and all parameters but the last; the last
   parameter is the piece itself, or, when e is a CTCP, the piece in the same CTCP frame.
   Moreover the payloads are exactly what splitMessage returns for the text. *)
Theorem event_split_shape e max es : event_split e max = Ok es ->
  es = [e] \/
  (se_params e <> [] /\ is_msg_cmd (se_command e) = true /\
   exists text wrap w pieces,
     split_message text w = Ok pieces /\
     es = List.map (fun q => with_params e (set_last (se_params e) (wrap q))) pieces /\
     Forall (same_frame e) es /\
     match ctcp_of e with
     | Some c => text = c_text c /\ wrap = ctcp_wrap (c_command c) /\ w = (max - cmd_target_len e)%Z
     | None => text = last (se_params e) [] /\ wrap = (fun q => q) /\ w = (max - cmd_target_len e)%Z
     end).
Proof.
  intros H. unfold event_split in H.
  destruct (se_params e) as [|p ps] eqn:Ep; [left; inversion H; reflexivity|]. rewrite <- Ep in *.
  assert (Hne : se_params e <> []) by (rewrite Ep; discriminate).
  destruct (is_msg_cmd (se_command e)) eqn:Hmsg; cbn [negb] in H; [|left; inversion H; reflexivity].
  destruct (Z.of_nat (len_nosrc e) <? max)%Z; [left; inversion H; reflexivity|].
  fold (head_len e) in H.
  unfold cmd_target_len, ctcp_overhead, ctcp_of.
  destruct (decode_ctcp (Ctcp.mk_event None (se_command e) (se_params e))) as [d|] eqn:Ed;
    cbn [rbind] in H; [|discriminate].
  destruct d as [c|].
  - destruct (last (se_params e) []); [left; inversion H; reflexivity|].
    destruct ((max - (Zlen (c_command c) + 4) <? head_len e)%Z); [left; inversion H; reflexivity|].
    destruct (split_message (c_text c) (max - (Zlen (c_command c) + 4) - head_len e)) as [pieces|] eqn:Es;
      cbn [rbind] in H; [|discriminate].
    inversion H; subst es. clear H. right. split; [exact Hne|]. split; [reflexivity|].
    exists (c_text c), (ctcp_wrap (c_command c)), (max - (Zlen (c_command c) + 4) - head_len e)%Z, pieces.
    split; [exact Es|]. split; [reflexivity|]. split.
    + apply Forall_forall. intros x Hx. apply in_map_iff in Hx. destruct Hx as (q & <- & _).
      apply same_frame_piece. exact Hne.
    + repeat split. lia.
  - destruct ((max <? head_len e)%Z); [left; inversion H; reflexivity|].
    destruct (split_message (last (se_params e) []) (max - head_len e)) as [pieces|] eqn:Es;
      cbn [rbind] in H; [|discriminate].
    inversion H; subst es. clear H. right. split; [exact Hne|]. split; [reflexivity|].
    exists (last (se_params e) []), (fun q => q), (max - head_len e)%Z, pieces.
    split; [exact Es|]. split; [reflexivity|]. split.
    + apply Forall_forall. intros x Hx. apply in_map_iff in Hx. destruct Hx as (q & <- & _).
      apply same_frame_piece. exact Hne.
    + repeat split. lia.
Qed.

Example event_split_example :
  let e := message (bs "#c") (bs "aaa bbb ccc") in
  se_params e <> [] /\ is_msg_cmd (se_command e) = true /\ (cmd_target_len e <= 18)%Z /\
  event_split e 18 = Ok [message (bs "#c") (bs "aaa"); message (bs "#c") (bs "bbb"); message (bs "#c") (bs "ccc")].
Proof. vm_compute. repeat split; try discriminate. Qed.

Example event_split_ctcp_example :
  let e := action (bs "#c") (bs "aaa bbb") in
  ctcp_of e <> None /\ (cmd_target_len e <= 26)%Z /\
  event_split e 26 = Ok [action (bs "#c") (bs "aaa"); action (bs "#c") (bs "bbb")].
Proof. vm_compute. repeat split; discriminate. Qed.
