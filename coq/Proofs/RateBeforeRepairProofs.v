(* The defect that was repaired, on the counter-model Spec/RateBeforeRepair.v: with the old
   arithmetic the hold clause of C16 is false.  sendLoop stamps lastWrite asynchronously; a
   sender that issues its Sends back to back reaches the next rate call before sendLoop has
   run (c.tx is buffered, 25), so each call forgave the SAME idle period again.  After an
   idle period of at least one event's cost, any number of such events passed unheld at one
   instant.  (Witness on the Go code: harness/witness/rate_test.go TestC16_BurstAfterIdle;
   the same schedule on the repaired model: RateProofs.hold_all_schedules_sat.) *)
From Coq Require Import Lia ZifyBool.
Require Import Bytes Rate RateProofs RateBeforeRepair.
Open Scope Z_scope.

Lemma oexec_cons : forall s a rest,
  oexec s (a :: rest) =
  (fst (oexec (fst (ostep s a)) rest),
   match snd (ostep s a) with Some d => d :: snd (oexec (fst (ostep s a)) rest) | None => snd (oexec (fst (ostep s a)) rest) end).
Proof.
  intros s a rest. cbn [oexec]. destruct (ostep s a) as [s1 o]. cbn [fst snd].
  destruct (oexec s1 rest) as [s2 ds]. reflexivity.
Qed.

Lemma oexec_app : forall a b s,
  oexec s (a ++ b) = (fst (oexec (fst (oexec s a)) b), snd (oexec s a) ++ snd (oexec (fst (oexec s a)) b)).
Proof.
  induction a as [|x a IH]; intros b s.
  - cbn. now destruct (oexec s b).
  - cbn [app]. rewrite !oexec_cons. rewrite IH. cbn [fst snd].
    destruct (snd (ostep s x)); reflexivity.
Qed.

Lemma orate_forgiven : forall idle len, cost len <= idle -> orate (mkO 0 0) idle len = (mkO 0 0, 0).
Proof.
  intros idle len Hc. unfold orate. cbn [owd olast].
  pose proof (rate_core_spec 0 (idle - 0) len) as [H1 H2].
  destruct (rate_core 0 (idle - 0) len) as [w d]. cbn [fst snd] in *.
  assert (Hw : w = 0) by lia. rewrite Hw in H2 |- *.
  destruct (threshold <? 0) eqn:T; [unfold threshold, second in T; lia|]. now rewrite H2.
Qed.

Lemma stale_one : forall idle len i s,
  cost len <= idle -> ors s = mkO 0 0 ->
  oexec s (send_piece false idle (mkE 0 i len)) = (mkOS (mkO 0 0) (otx s ++ [mkE 0 i len]) (owire s), [0]).
Proof.
  intros idle len i s Hc Hr. unfold send_piece. cbn [oexec ostep ev_len]. rewrite Hr.
  rewrite orate_forgiven by exact Hc. cbn [ors otx owire]. reflexivity.
Qed.

Lemma stale_burst_unheld : forall idle len ids s,
  cost len <= idle -> ors s = mkO 0 0 ->
  snd (oexec s (stale_burst idle len ids)) = repeat 0 (length ids) /\
  ors (fst (oexec s (stale_burst idle len ids))) = mkO 0 0 /\
  otx (fst (oexec s (stale_burst idle len ids))) = otx s ++ map (fun i => mkE 0 i len) ids /\
  owire (fst (oexec s (stale_burst idle len ids))) = owire s.
Proof.
  intros idle len ids. induction ids as [|i ids IH]; intros s Hc Hr.
  - cbn. rewrite app_nil_r. auto.
  - unfold stale_burst in *. cbn [map concat]. rewrite oexec_app.
    rewrite (stale_one idle len i s Hc Hr). cbn [fst snd].
    specialize (IH (mkOS (mkO 0 0) (otx s ++ [mkE 0 i len]) (owire s)) Hc eq_refl).
    destruct IH as (I1 & I2 & I3 & I4). cbn [otx owire] in I3, I4.
    repeat split; auto.
    + cbn [length repeat app]. now rewrite I1.
    + rewrite I3. rewrite <- app_assoc. reflexivity.
Qed.

(* the hold clause (the statement of RateProofs.hold_all_schedules) over the old arithmetic *)
Definition old_hold_clause : Prop :=
  forall (acts : list action) (now : Z) (e : event) (r0 : ostate),
    0 <= owd r0 -> 0 <= ev_len e -> lens_ok acts ->
    monotone (olast r0) (acts ++ [ARate now e]) ->
    threshold + (now - olast r0) < owd r0 + charged (acts ++ [ARate now e]) ->
    snd (ostep (fst (oexec (osys0 r0) acts)) (ARate now e)) = Some (cost (ev_len e)).

Lemma old_hold_clause_refuted : ~ old_hold_clause.
Proof.
  intros H.
  specialize (H (stale_burst (cost 30) 30 (map N.of_nat (seq 0 9))) (cost 30) (mkE 0 9 30) (mkO 0 0)).
  assert (X : snd (ostep (fst (oexec (osys0 (mkO 0 0)) (stale_burst (cost 30) 30 (map N.of_nat (seq 0 9))))) (ARate (cost 30) (mkE 0 9 30))) = Some 0)
    by (vm_compute; reflexivity).
  rewrite H in X.
  - vm_compute in X. discriminate X.
  - cbn. lia.
  - cbn. lia.
  - apply Forall_forall. intros a Ha. vm_compute in Ha.
    repeat (destruct Ha as [Ha|Ha]; [subst a; vm_compute; try (intro; discriminate); exact I|]). destruct Ha.
  - vm_compute. repeat split; intro; discriminate.
  - vm_compute. reflexivity.
Qed.
Print Assumptions old_hold_clause_refuted.
Print Assumptions stale_burst_unheld.
