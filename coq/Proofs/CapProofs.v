(* Proofs for C08 (capability negotiation).  The statements closed in Properties/C08.v are
   the lemmas named C08_* at the end of each section. *)
From Coq Require Import Lia.
Require Import Bytes CapLib StsState Cap CapSpec CapLemmas.

(* ====================================================================== *)
(* 1. handleCAP by reply pattern                                           *)
(* ====================================================================== *)

Inductive kind := KDel | KNak | KFinal | KCont | KAck | KOther.

Definition classify (ps : list str) : kind :=
  if is_del ps then KDel else if is_nak ps then KNak
  else if is_final_ls ps then KFinal else if is_cont_ls ps then KCont
  else if is_ack ps then KAck else KOther.

Definition tmp_after_ls (cfg : cap_cfg) (now : Z) (st : cap_state) (ps : list str) : capmap :=
  fold_left (ls_step (possible_caps cfg (recently_failed now (st_sts st))))
            (parse_cap (last_or_empty ps)) (st_tmp st).

Definition en_after_ack (st : cap_state) (ps : list str) : capmap :=
  fold_left (ack_step (st_tmp st)) (cap_tokens ps) (st_enabled st).

Definition ack_finish (cfg : cap_cfg) (en1 : capmap) (s : strict_transport) : cap_state * list cap_out :=
  match aget s_sasl en1, c_sasl cfg with
  | Some _, Some mech => (mkSt [] en1 s, [out_AUTH mech])
  | _, _ => (mkSt [] en1 s, [out_END])
  end.

Definition ack_result (cfg : cap_cfg) (tls : bool) (now : Z) (st : cap_state) (ps : list str)
  : cap_state * list cap_out :=
  let en1 := en_after_ack st ps in
  match aget s_sts en1 with
  | Some v =>
      if negb (c_disable_sts cfg) then
        let r := sts_block tls now v (st_sts st) in
        if snd r then (mkSt (st_tmp st) en1 (sts_reset (fst r)), [InjectError v])
        else if negb tls then (mkSt (st_tmp st) en1 (set_begin_upgrade true (fst r)), [Upgrade])
        else ack_finish cfg en1 (fst r)
      else ack_finish cfg en1 (st_sts st)
  | None => ack_finish cfg en1 (st_sts st)
  end.

Lemma lit_distinct :
  s_DEL <> s_NAK /\ s_DEL <> s_LS /\ s_DEL <> s_NEW /\ s_DEL <> s_ACK /\
  s_NAK <> s_LS /\ s_NAK <> s_NEW /\ s_NAK <> s_ACK /\
  s_LS <> s_NEW /\ s_LS <> s_ACK /\ s_NEW <> s_ACK.
Proof. repeat split; discriminate. Qed.

Lemma handle_cap_by_kind ord cfg tls now st ps :
  handle_cap ord cfg tls now st ps =
  match classify ps with
  | KDel => (mkSt (st_tmp st)
                  (fold_left (fun en k => adel k en) (akeys (parse_cap (last_or_empty ps))) (st_enabled st))
                  (st_sts st), [])
  | KNak => (st, [out_END])
  | KFinal =>
      let tmp1 := tmp_after_ls cfg now st ps in
      if Nat.eqb (length tmp1) 0 then (mkSt tmp1 (st_enabled st) (st_sts st), [out_END])
      else (mkSt tmp1 (st_enabled st) (st_sts st), [out_REQ (ord (akeys tmp1))])
  | KCont => (mkSt (tmp_after_ls cfg now st ps) (st_enabled st) (st_sts st), [])
  | KAck => ack_result cfg tls now st ps
  | KOther => (mkSt (st_tmp st) (st_enabled st) (st_sts st), [])
  end.
Proof.
  destruct lit_distinct as (D1 & D2 & D3 & D4 & D5 & D6 & D7 & D8 & D9 & D10).
  unfold classify, is_del, is_nak, is_final_ls, is_cont_ls, is_ls, is_ack, sub_is, handle_cap,
    ack_result, ack_finish, en_after_ack, tmp_after_ls, cap_tokens, out_END, out_REQ, out_AUTH.
  cbv zeta.
  generalize (param1 ps) (length ps) (last_or_empty ps). intros p1 n lst.
  destruct (streqb p1 s_DEL) eqn:EDEL; destruct (streqb p1 s_NAK) eqn:ENAK;
  destruct (streqb p1 s_LS) eqn:ELS; destruct (streqb p1 s_NEW) eqn:ENEW;
  destruct (streqb p1 s_ACK) eqn:EACK;
  repeat match goal with H : streqb _ _ = true |- _ => apply streqb_iff in H end;
  try (exfalso; congruence);
  destruct n as [|[|[|[|n]]]]; cbn [Nat.leb Nat.eqb andb orb negb app]; try reflexivity.
Qed.

(* exclusivity of the patterns *)
Lemma classify_del ps : is_del ps = true -> classify ps = KDel.
Proof. unfold classify. now intros ->. Qed.

Lemma sub_is_excl ps a b : sub_is ps a = true -> a <> b -> sub_is ps b = false.
Proof.
  unfold sub_is. intros H D. apply streqb_iff in H. apply streqb_neq_iff. congruence.
Qed.

Lemma classify_nak ps : is_nak ps = true -> classify ps = KNak.
Proof.
  destruct lit_distinct as (D1 & _).
  unfold classify, is_del, is_nak. intros H. apply andb_true_iff in H as [H1 H2].
  rewrite H1, H2, (sub_is_excl ps s_NAK s_DEL H2) by congruence. reflexivity.
Qed.

Lemma is_ls_sub ps : is_ls ps = true -> sub_is ps s_DEL = false /\ sub_is ps s_NAK = false /\ sub_is ps s_ACK = false.
Proof.
  destruct lit_distinct as (D1 & D2 & D3 & D4 & D5 & D6 & D7 & D8 & D9 & D10).
  unfold is_ls. intros H. apply andb_true_iff in H as [_ H]. apply orb_true_iff in H as [H|H];
    repeat split; eapply sub_is_excl; eauto; congruence.
Qed.

Lemma classify_final ps : is_final_ls ps = true -> classify ps = KFinal.
Proof.
  unfold classify. intros H. rewrite H.
  unfold is_final_ls in H. apply andb_true_iff in H as [H _].
  destruct (is_ls_sub ps H) as (A & B & _). unfold is_del, is_nak. rewrite A, B, !andb_false_r. reflexivity.
Qed.

Lemma classify_cont ps : is_cont_ls ps = true -> classify ps = KCont.
Proof.
  unfold classify. intros H. rewrite H.
  unfold is_cont_ls in H. apply andb_true_iff in H as [H H'].
  destruct (is_ls_sub ps H) as (A & B & _). unfold is_del, is_nak, is_final_ls.
  rewrite A, B, !andb_false_r, H. apply negb_true_iff in H'. rewrite H'. reflexivity.
Qed.

Lemma classify_ack ps : is_ack ps = true -> classify ps = KAck.
Proof.
  destruct lit_distinct as (D1 & D2 & D3 & D4 & D5 & D6 & D7 & D8 & D9 & D10).
  unfold classify. intros H. rewrite H. unfold is_ack in H. apply andb_true_iff in H as [_ H].
  unfold is_del, is_nak, is_final_ls, is_cont_ls, is_ls.
  rewrite (sub_is_excl ps s_ACK s_DEL H), (sub_is_excl ps s_ACK s_NAK H),
    (sub_is_excl ps s_ACK s_LS H), (sub_is_excl ps s_ACK s_NEW H) by congruence.
  rewrite !andb_false_r. reflexivity.
Qed.

Lemma classify_other ps :
  is_del ps = false -> is_nak ps = false -> is_ls ps = false -> is_ack ps = false ->
  classify ps = KOther.
Proof.
  unfold classify, is_final_ls, is_cont_ls. intros -> -> -> ->. reflexivity.
Qed.

Lemma classify_inv ps :
  match classify ps with
  | KDel => is_del ps = true
  | KNak => is_nak ps = true /\ is_del ps = false
  | KFinal => is_final_ls ps = true /\ is_ls ps = true /\ is_del ps = false /\ is_ack ps = false
  | KCont => is_cont_ls ps = true /\ is_ls ps = true /\ is_del ps = false /\ is_ack ps = false
  | KAck => is_ack ps = true /\ is_del ps = false /\ is_ls ps = false
  | KOther => is_del ps = false /\ is_nak ps = false /\ is_ls ps = false /\ is_ack ps = false
  end.
Proof.
  unfold classify.
  destruct (is_del ps) eqn:E1; [reflexivity|].
  destruct (is_nak ps) eqn:E2; [auto|].
  destruct (is_final_ls ps) eqn:E3.
  { pose proof E3 as E3'. unfold is_final_ls in E3'. apply andb_true_iff in E3' as [L _].
    destruct (is_ls_sub ps L) as (_ & _ & A). unfold is_ack. rewrite A, andb_false_r. auto. }
  destruct (is_cont_ls ps) eqn:E4.
  { pose proof E4 as E4'. unfold is_cont_ls in E4'. apply andb_true_iff in E4' as [L _].
    destruct (is_ls_sub ps L) as (_ & _ & A). unfold is_ack. rewrite A, andb_false_r. auto. }
  assert (L : is_ls ps = false).
  { unfold is_final_ls, is_cont_ls in *. destruct (is_ls ps); [|reflexivity].
    destruct (Nat.eqb (length ps) 3); discriminate. }
  destruct (is_ack ps) eqn:E5; auto.
Qed.

(* ====================================================================== *)
(* 2. every reply pattern is answered by exactly one conclusion            *)
(* ====================================================================== *)

Lemma ack_finish_cases cfg en1 s :
  let r := ack_finish cfg en1 s in
  st_enabled (fst r) = en1 /\
  (snd r = [out_END] \/
   exists mech, c_sasl cfg = Some mech /\ amem s_sasl en1 = true /\ snd r = [out_AUTH mech]).
Proof.
  unfold ack_finish, amem. destruct (aget s_sasl en1) as [v|]; [destruct (c_sasl cfg) as [mech|]|];
    cbn; split; auto. right. eauto.
Qed.

Lemma ack_result_enabled cfg tls now st ps :
  st_enabled (fst (ack_result cfg tls now st ps)) = en_after_ack st ps.
Proof.
  unfold ack_result. cbv zeta.
  destruct (aget s_sts (en_after_ack st ps)) as [v|]; [destruct (negb (c_disable_sts cfg))|];
    try apply ack_finish_cases.
  destruct (snd (sts_block tls now v (st_sts st))); [reflexivity|].
  destruct (negb tls); [reflexivity|]. apply ack_finish_cases.
Qed.

Lemma ack_result_cases cfg tls now st ps :
  let r := ack_result cfg tls now st ps in
  snd r = [out_END] \/
  (exists mech, c_sasl cfg = Some mech /\ amem s_sasl (st_enabled (fst r)) = true /\ snd r = [out_AUTH mech]) \/
  (snd r = [Upgrade] /\ tls = false /\ c_disable_sts cfg = false /\ amem s_sts (st_enabled (fst r)) = true) \/
  (exists v, snd r = [InjectError v] /\ c_disable_sts cfg = false /\ aget s_sts (st_enabled (fst r)) = Some v).
Proof.
  cbv zeta. rewrite ack_result_enabled. unfold ack_result. cbv zeta.
  set (en1 := en_after_ack st ps).
  assert (F : forall s, snd (ack_finish cfg en1 s) = [out_END] \/
    (exists mech, c_sasl cfg = Some mech /\ amem s_sasl en1 = true /\ snd (ack_finish cfg en1 s) = [out_AUTH mech])).
  { intro s. apply ack_finish_cases. }
  destruct (aget s_sts en1) as [v|] eqn:ES.
  - destruct (c_disable_sts cfg) eqn:ED; cbn [negb].
    + destruct (F (st_sts st)) as [H|H]; auto.
    + destruct (snd (sts_block tls now v (st_sts st))).
      * right. right. right. exists v. auto.
      * destruct tls; cbn [negb].
        -- destruct (F (fst (sts_block true now v (st_sts st)))) as [H|H]; auto.
        -- right. right. left. unfold amem. rewrite ES. auto.
  - destruct (F (st_sts st)) as [H|H]; auto.
Qed.

Lemma C08_concludes_proof ord cfg tls now st ps :
  let r := handle_cap ord cfg tls now st ps in
  (is_nak ps = true -> snd r = [out_END]) /\
  (is_final_ls ps = true ->
     (snd r = [out_END] /\ st_tmp (fst r) = []) \/
     (st_tmp (fst r) <> [] /\ snd r = [out_REQ (ord (akeys (st_tmp (fst r))))])) /\
  (is_ack ps = true ->
     snd r = [out_END] \/
     (exists mech, c_sasl cfg = Some mech /\ amem s_sasl (st_enabled (fst r)) = true /\
                   snd r = [out_AUTH mech]) \/
     (snd r = [Upgrade] /\ tls = false /\ c_disable_sts cfg = false /\
      amem s_sts (st_enabled (fst r)) = true) \/
     (exists v, snd r = [InjectError v] /\ c_disable_sts cfg = false /\
                aget s_sts (st_enabled (fst r)) = Some v)) /\
  (is_cont_ls ps = true -> snd r = []) /\
  (is_del ps = true -> snd r = []) /\
  (expects_conclusion ps = false -> snd r = []).
Proof.
  cbv zeta. rewrite handle_cap_by_kind. repeat split.
  - intros H. rewrite (classify_nak ps H). reflexivity.
  - intros H. rewrite (classify_final ps H). cbv zeta.
    destruct (Nat.eqb (length (tmp_after_ls cfg now st ps)) 0) eqn:E; cbn [fst snd st_tmp].
    + left. split; [reflexivity|]. apply Nat.eqb_eq in E. destruct (tmp_after_ls cfg now st ps); [reflexivity|discriminate].
    + right. split; [|reflexivity]. intro H'. rewrite H' in E. discriminate.
  - intros H. rewrite (classify_ack ps H). apply ack_result_cases.
  - intros H. rewrite (classify_cont ps H). reflexivity.
  - intros H. rewrite (classify_del ps H). reflexivity.
  - intros H. unfold expects_conclusion in H.
    apply orb_false_iff in H as [H H3]. apply orb_false_iff in H as [H1 H2].
    pose proof (classify_inv ps) as I. destruct (classify ps); try reflexivity;
      destruct I as (I1 & I2); congruence.
Qed.

(* every output is a conclusion, and there is exactly one iff the reply expects one *)
Lemma step_conclusion_count ord cfg tls now st ps :
  let outs := snd (handle_cap ord cfg tls now st ps) in
  forallb is_conclusion outs = true /\
  length outs = if expects_conclusion ps then 1%nat else 0%nat.
Proof.
  cbv zeta.
  pose proof (C08_concludes_proof ord cfg tls now st ps) as C. cbv zeta in C.
  destruct C as (C1 & C2 & C3 & C4 & C5 & C6).
  pose proof (classify_inv ps) as I. unfold expects_conclusion.
  destruct (classify ps) eqn:K.
  - rewrite (C5 I). assert (is_nak ps = false /\ is_final_ls ps = false /\ is_ack ps = false) as (A & B & D).
    { destruct lit_distinct as (D1 & D2 & D3 & D4 & D5 & D6 & D7 & D8 & D9 & D10).
      unfold is_del in I. apply andb_true_iff in I as [_ I].
      unfold is_nak, is_final_ls, is_ls, is_ack.
      rewrite (sub_is_excl ps s_DEL s_NAK I), (sub_is_excl ps s_DEL s_LS I),
        (sub_is_excl ps s_DEL s_NEW I), (sub_is_excl ps s_DEL s_ACK I) by congruence.
      rewrite !andb_false_r. auto. }
    rewrite A, B, D. auto.
  - destruct I as (I1 & I2). rewrite (C1 I1), I1. auto.
  - destruct I as (I1 & I2 & I3 & I4). rewrite I1, orb_true_r. cbn [orb].
    destruct (C2 I1) as [[H _]|[_ H]]; rewrite H; auto.
  - destruct I as (I1 & I2 & I3 & I4). rewrite (C4 I1).
    assert (is_final_ls ps = false) as ->.
    { unfold is_final_ls, is_cont_ls in *. rewrite I2 in *. cbn [andb] in *. now apply negb_true_iff in I1. }
    assert (is_nak ps = false) as ->.
    { destruct (is_ls_sub ps I2) as (_ & B & _). unfold is_nak. rewrite B, andb_false_r. reflexivity. }
    rewrite I4. auto.
  - destruct I as (I1 & I2 & I3). rewrite I1, !orb_true_r.
    destruct (C3 I1) as [H|[(m & _ & _ & H)|[(H & _)|(v & H & _)]]]; rewrite H; auto.
  - destruct I as (I1 & I2 & I3 & I4).
    assert (E : expects_conclusion ps = false).
    { unfold expects_conclusion, is_final_ls. rewrite I2, I3, I4. reflexivity. }
    rewrite (C6 E). unfold is_final_ls. rewrite I2, I3, I4. auto.
Qed.

Lemma C08_rounds_concluded_proof cfg st h :
  Forall (fun outs => forallb is_conclusion outs = true) (cap_outs cfg st h) /\
  length (concat (cap_outs cfg st h)) =
  length (filter (fun i => expects_conclusion (in_params i)) h).
Proof.
  revert st; induction h as [|i h IH]; intro st; cbn [cap_outs concat filter]; [split; [constructor|reflexivity]|].
  destruct (IH (fst (cap_step cfg st i))) as [IH1 IH2].
  destruct (step_conclusion_count (in_ord i) cfg (in_tls i) (in_now i) st (in_params i)) as [S1 S2].
  cbv zeta in S1, S2. fold (cap_step cfg st i) in S1, S2.
  split; [constructor; assumption|].
  rewrite app_length, IH2, S2. destruct (expects_conclusion (in_params i)); reflexivity.
Qed.

(* ====================================================================== *)
(* 3. registration burst, tag gating                                        *)
(* ====================================================================== *)

Lemma C08_ls_first_proof cfg :
  (c_tracking cfg = true ->
     exists pre post,
       registration_writes cfg = pre ++ (s_CAP, [s_LS; s_302]) :: post /\
       (forall w, In w pre -> fst w = s_WEBIRC \/ fst w = s_PASS) /\
       post = [(s_NICK, [c_nick cfg]);
               (s_USER, [c_user cfg; s_star; s_star;
                         match c_name cfg with [] => c_user cfg | nm => nm end])]) /\
  (c_tracking cfg = false -> forall w, In w (registration_writes cfg) -> fst w <> s_CAP).
Proof.
  unfold registration_writes. split; intros T; rewrite T.
  - eexists (_ ++ _), _. rewrite <- app_assoc. split; [reflexivity|]. split; [|reflexivity].
    intros w Hw. apply in_app_or in Hw as [Hw|Hw].
    + destruct (c_webirc cfg); [destruct Hw as [<-|[]]; auto|destruct Hw].
    + destruct (c_pass cfg); [destruct Hw|destruct Hw as [<-|[]]; auto].
  - intros w Hw. cbn [app] in Hw.
    apply in_app_or in Hw as [Hw|Hw]; [|apply in_app_or in Hw as [Hw|Hw]].
    + destruct (c_webirc cfg); [destruct Hw as [<-|[]]; discriminate|destruct Hw].
    + destruct (c_pass cfg); [destruct Hw|destruct Hw as [<-|[]]; discriminate].
    + destruct Hw as [<-|[<-|[]]]; discriminate.
Qed.

Lemma existsb_const {A} (b : bool) (l : list A) : existsb (fun _ => b) l = b && negb (Nat.eqb (length l) 0).
Proof. induction l as [|x l IH]; cbn; [now rewrite andb_false_r|]. rewrite IH. destruct b; reflexivity. Qed.

Lemma C08_tags_gated_proof en tags :
  tag_section_present (send_loop_tags en tags) = true <->
  has_tags tags /\ amem s_message_tags en = true.
Proof.
  unfold send_loop_tags, has_tags. destruct tags as [t|]; cbn.
  - rewrite existsb_const.
    destruct (amem s_message_tags en) eqn:M; cbn.
    + assert (negb (Nat.eqb (length en) 0) = true) as ->.
      { destruct en; [discriminate M|reflexivity]. }
      destruct t; cbn; split; try discriminate; intros H; auto.
      * destruct H as [(t' & E & N) _]. inversion E; subst. congruence.
      * split; auto. eexists; split; [reflexivity|discriminate].
    + split; [discriminate|]. intros [_ H]. discriminate.
  - split; [discriminate|]. intros [(t & E & _) _]. discriminate.
Qed.
