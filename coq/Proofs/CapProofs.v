(* Proofs for C08 (capability negotiation).  The statements closed in Properties/C08.v are
   the lemmas named C08_* at the end of each section. *)
From Coq Require Import Lia.
Require Import Bytes CapLib StsState Cap CapSpec CapLemmas.

(* ====================================================================== *)
(* 1. handleCAP by reply pattern                                           *)
(* ====================================================================== *)

Inductive kind := KDel | KNak | KFinal | KCont | KAck | KOther.

Definition classify (ps : list str) : kind :=
  if is_del ps then KDel else if is_nak ps then KNak
  else if is_final_ls ps then KFinal else if is_cont_ls ps then KCont
  else if is_ack ps then KAck else KOther.

Definition tmp_after_ls (cfg : cap_cfg) (now : Z) (st : cap_state) (ps : list str) : capmap :=
  fold_left (ls_step (possible_caps cfg (recently_failed now (st_sts st))))
            (parse_cap (last_or_empty ps)) (st_tmp st).

(* tmpCap after a DEL / the state after a NAK, for either value of Spec tmp_prune_aware.
   handle_cap_by_kind below proves that Model/Cap.v handle_cap is the variant the flag
   names; it stops compiling when the model and the flag are not switched together. *)
Definition tmp_after_del (st : cap_state) (ps : list str) : capmap :=
  if tmp_prune_aware
  then fold_left (fun t k => adel k t) (akeys (parse_cap (last_or_empty ps))) (st_tmp st)
  else st_tmp st.

Definition st_after_nak (st : cap_state) : cap_state :=
  if tmp_prune_aware then mkSt [] (st_enabled st) (st_sts st) else st.

Definition en_after_ack (st : cap_state) (ps : list str) : capmap :=
  fold_left (ack_step (st_tmp st)) (cap_tokens ps) (st_enabled st).

Definition ack_finish (cfg : cap_cfg) (en1 : capmap) (s : strict_transport) : cap_state * list cap_out :=
  match aget s_sasl en1, c_sasl cfg with
  | Some _, Some mech => (mkSt [] en1 s, [out_AUTH mech])
  | _, _ => (mkSt [] en1 s, [out_END])
  end.

Definition ack_result (cfg : cap_cfg) (tls : bool) (now : Z) (st : cap_state) (ps : list str)
  : cap_state * list cap_out :=
  let en1 := en_after_ack st ps in
  match aget s_sts en1 with
  | Some v =>
      if negb (c_disable_sts cfg) then
        let r := sts_block tls now v (st_sts st) in
        if snd r then (mkSt (st_tmp st) en1 (sts_reset (fst r)), [InjectError v])
        else if negb tls then (mkSt (st_tmp st) en1 (set_begin_upgrade true (fst r)), [Upgrade])
        else ack_finish cfg en1 (fst r)
      else ack_finish cfg en1 (st_sts st)
  | None => ack_finish cfg en1 (st_sts st)
  end.

Lemma lit_distinct :
  s_DEL <> s_NAK /\ s_DEL <> s_LS /\ s_DEL <> s_NEW /\ s_DEL <> s_ACK /\
  s_NAK <> s_LS /\ s_NAK <> s_NEW /\ s_NAK <> s_ACK /\
  s_LS <> s_NEW /\ s_LS <> s_ACK /\ s_NEW <> s_ACK.
Proof. repeat split; discriminate. Qed.

Lemma handle_cap_by_kind ord cfg tls now st ps :
  handle_cap ord cfg tls now st ps =
  match classify ps with
  | KDel => (mkSt (tmp_after_del st ps)
                  (fold_left (fun en k => adel k en) (akeys (parse_cap (last_or_empty ps))) (st_enabled st))
                  (st_sts st), [])
  | KNak => (st_after_nak st, [out_END])
  | KFinal =>
      let tmp1 := tmp_after_ls cfg now st ps in
      if Nat.eqb (length tmp1) 0 then (mkSt tmp1 (st_enabled st) (st_sts st), [out_END])
      else (mkSt tmp1 (st_enabled st) (st_sts st), [out_REQ (ord (akeys tmp1))])
  | KCont => (mkSt (tmp_after_ls cfg now st ps) (st_enabled st) (st_sts st), [])
  | KAck => ack_result cfg tls now st ps
  | KOther => (mkSt (st_tmp st) (st_enabled st) (st_sts st), [])
  end.
Proof.
  destruct lit_distinct as (D1 & D2 & D3 & D4 & D5 & D6 & D7 & D8 & D9 & D10).
  unfold classify, is_del, is_nak, is_final_ls, is_cont_ls, is_ls, is_ack, sub_is, handle_cap,
    ack_result, ack_finish, en_after_ack, tmp_after_ls, tmp_after_del, st_after_nak, cap_tokens,
    out_END, out_REQ, out_AUTH.
  cbv zeta.
  generalize (param1 ps) (length ps) (last_or_empty ps). intros p1 n lst.
  destruct (streqb p1 s_DEL) eqn:EDEL; destruct (streqb p1 s_NAK) eqn:ENAK;
  destruct (streqb p1 s_LS) eqn:ELS; destruct (streqb p1 s_NEW) eqn:ENEW;
  destruct (streqb p1 s_ACK) eqn:EACK;
  repeat match goal with H : streqb _ _ = true |- _ => apply streqb_iff in H end;
  try (exfalso; congruence);
  destruct n as [|[|[|[|n]]]]; cbn [Nat.leb Nat.eqb andb orb negb app]; try reflexivity.
Qed.

(* exclusivity of the patterns *)
Lemma classify_del ps : is_del ps = true -> classify ps = KDel.
Proof. unfold classify. now intros ->. Qed.

Lemma sub_is_excl ps a b : sub_is ps a = true -> a <> b -> sub_is ps b = false.
Proof.
  unfold sub_is. intros H D. apply streqb_iff in H. apply streqb_neq_iff. congruence.
Qed.

Lemma classify_nak ps : is_nak ps = true -> classify ps = KNak.
Proof.
  destruct lit_distinct as (D1 & _).
  unfold classify, is_del, is_nak. intros H. apply andb_true_iff in H as [H1 H2].
  rewrite H1, H2, (sub_is_excl ps s_NAK s_DEL H2) by congruence. reflexivity.
Qed.

Lemma is_ls_sub ps : is_ls ps = true -> sub_is ps s_DEL = false /\ sub_is ps s_NAK = false /\ sub_is ps s_ACK = false.
Proof.
  destruct lit_distinct as (D1 & D2 & D3 & D4 & D5 & D6 & D7 & D8 & D9 & D10).
  unfold is_ls. intros H. apply andb_true_iff in H as [_ H]. apply orb_true_iff in H as [H|H];
    repeat split; eapply sub_is_excl; eauto; congruence.
Qed.

Lemma classify_final ps : is_final_ls ps = true -> classify ps = KFinal.
Proof.
  unfold classify. intros H. rewrite H.
  unfold is_final_ls in H. apply andb_true_iff in H as [H _].
  destruct (is_ls_sub ps H) as (A & B & _). unfold is_del, is_nak. rewrite A, B, !andb_false_r. reflexivity.
Qed.

Lemma classify_cont ps : is_cont_ls ps = true -> classify ps = KCont.
Proof.
  unfold classify. intros H. rewrite H.
  unfold is_cont_ls in H. apply andb_true_iff in H as [H H'].
  destruct (is_ls_sub ps H) as (A & B & _). unfold is_del, is_nak, is_final_ls.
  rewrite A, B, !andb_false_r, H. apply negb_true_iff in H'. rewrite H'. reflexivity.
Qed.

Lemma classify_ack ps : is_ack ps = true -> classify ps = KAck.
Proof.
  destruct lit_distinct as (D1 & D2 & D3 & D4 & D5 & D6 & D7 & D8 & D9 & D10).
  unfold classify. intros H. rewrite H. unfold is_ack in H. apply andb_true_iff in H as [_ H].
  unfold is_del, is_nak, is_final_ls, is_cont_ls, is_ls.
  rewrite (sub_is_excl ps s_ACK s_DEL H), (sub_is_excl ps s_ACK s_NAK H),
    (sub_is_excl ps s_ACK s_LS H), (sub_is_excl ps s_ACK s_NEW H) by congruence.
  rewrite !andb_false_r. reflexivity.
Qed.

Lemma classify_other ps :
  is_del ps = false -> is_nak ps = false -> is_ls ps = false -> is_ack ps = false ->
  classify ps = KOther.
Proof.
  unfold classify, is_final_ls, is_cont_ls. intros -> -> -> ->. reflexivity.
Qed.

Lemma classify_inv ps :
  match classify ps with
  | KDel => is_del ps = true
  | KNak => is_nak ps = true /\ is_del ps = false /\ is_ack ps = false
  | KFinal => is_final_ls ps = true /\ is_ls ps = true /\ is_del ps = false /\ is_ack ps = false
  | KCont => is_cont_ls ps = true /\ is_ls ps = true /\ is_del ps = false /\ is_ack ps = false
  | KAck => is_ack ps = true /\ is_del ps = false /\ is_ls ps = false
  | KOther => is_del ps = false /\ is_nak ps = false /\ is_ls ps = false /\ is_ack ps = false
  end.
Proof.
  unfold classify.
  destruct (is_del ps) eqn:E1; [reflexivity|].
  destruct (is_nak ps) eqn:E2.
  { split; [reflexivity|split; [reflexivity|]].
    destruct lit_distinct as (D1 & D2 & D3 & D4 & D5 & D6 & D7 & D8 & D9 & D10).
    unfold is_nak in E2. apply andb_true_iff in E2 as [_ E2].
    unfold is_ack. rewrite (sub_is_excl ps s_NAK s_ACK E2), andb_false_r by congruence. reflexivity. }
  destruct (is_final_ls ps) eqn:E3.
  { pose proof E3 as E3'. unfold is_final_ls in E3'. apply andb_true_iff in E3' as [L _].
    destruct (is_ls_sub ps L) as (_ & _ & A). unfold is_ack. rewrite A, andb_false_r. auto. }
  destruct (is_cont_ls ps) eqn:E4.
  { pose proof E4 as E4'. unfold is_cont_ls in E4'. apply andb_true_iff in E4' as [L _].
    destruct (is_ls_sub ps L) as (_ & _ & A). unfold is_ack. rewrite A, andb_false_r. auto. }
  assert (L : is_ls ps = false).
  { unfold is_final_ls, is_cont_ls in *. destruct (is_ls ps); [|reflexivity].
    destruct (Nat.eqb (length ps) 3); discriminate. }
  destruct (is_ack ps) eqn:E5; auto.
Qed.

(* ---- DEL / NAK and tmpCap, for either value of tmp_prune_aware ------------------ *)
Lemma st_after_nak_enabled st : st_enabled (st_after_nak st) = st_enabled st.
Proof. unfold st_after_nak. destruct tmp_prune_aware; reflexivity. Qed.

Lemma st_after_nak_tmp st :
  st_tmp (st_after_nak st) = if tmp_prune_aware then [] else st_tmp st.
Proof. unfold st_after_nak. destruct tmp_prune_aware; reflexivity. Qed.

Lemma st_after_nak_tmp_sub st k : In k (akeys (st_tmp (st_after_nak st))) -> In k (akeys (st_tmp st)).
Proof. rewrite st_after_nak_tmp. destruct tmp_prune_aware; [intros []|auto]. Qed.

(* ====================================================================== *)
(* 2. every reply pattern is answered by exactly one conclusion            *)
(* ====================================================================== *)

Lemma ack_finish_cases cfg en1 s :
  let r := ack_finish cfg en1 s in
  st_enabled (fst r) = en1 /\
  (snd r = [out_END] \/
   exists mech, c_sasl cfg = Some mech /\ amem s_sasl en1 = true /\ snd r = [out_AUTH mech]).
Proof.
  unfold ack_finish, amem. destruct (aget s_sasl en1) as [v|]; [destruct (c_sasl cfg) as [mech|]|];
    cbn; split; auto. right. eauto.
Qed.

Lemma ack_result_enabled cfg tls now st ps :
  st_enabled (fst (ack_result cfg tls now st ps)) = en_after_ack st ps.
Proof.
  unfold ack_result. cbv zeta.
  destruct (aget s_sts (en_after_ack st ps)) as [v|]; [destruct (negb (c_disable_sts cfg))|];
    try apply ack_finish_cases.
  destruct (snd (sts_block tls now v (st_sts st))); [reflexivity|].
  destruct (negb tls); [reflexivity|]. apply ack_finish_cases.
Qed.

Lemma ack_result_cases cfg tls now st ps :
  let r := ack_result cfg tls now st ps in
  snd r = [out_END] \/
  (exists mech, c_sasl cfg = Some mech /\ amem s_sasl (st_enabled (fst r)) = true /\ snd r = [out_AUTH mech]) \/
  (snd r = [Upgrade] /\ tls = false /\ c_disable_sts cfg = false /\ amem s_sts (st_enabled (fst r)) = true) \/
  (exists v, snd r = [InjectError v] /\ c_disable_sts cfg = false /\ aget s_sts (st_enabled (fst r)) = Some v).
Proof.
  cbv zeta. rewrite ack_result_enabled. unfold ack_result. cbv zeta.
  set (en1 := en_after_ack st ps).
  assert (F : forall s, snd (ack_finish cfg en1 s) = [out_END] \/
    (exists mech, c_sasl cfg = Some mech /\ amem s_sasl en1 = true /\ snd (ack_finish cfg en1 s) = [out_AUTH mech])).
  { intro s. apply ack_finish_cases. }
  destruct (aget s_sts en1) as [v|] eqn:ES.
  - destruct (c_disable_sts cfg) eqn:ED; cbn [negb].
    + destruct (F (st_sts st)) as [H|H]; auto.
    + destruct (snd (sts_block tls now v (st_sts st))).
      * right. right. right. exists v. auto.
      * destruct tls; cbn [negb].
        -- destruct (F (fst (sts_block true now v (st_sts st)))) as [H|H]; auto.
        -- right. right. left. unfold amem. rewrite ES. auto.
  - destruct (F (st_sts st)) as [H|H]; auto.
Qed.

Lemma C08_concludes_proof ord cfg tls now st ps :
  let r := handle_cap ord cfg tls now st ps in
  (is_nak ps = true -> snd r = [out_END]) /\
  (is_final_ls ps = true ->
     (snd r = [out_END] /\ st_tmp (fst r) = []) \/
     (st_tmp (fst r) <> [] /\ snd r = [out_REQ (ord (akeys (st_tmp (fst r))))])) /\
  (is_ack ps = true ->
     snd r = [out_END] \/
     (exists mech, c_sasl cfg = Some mech /\ amem s_sasl (st_enabled (fst r)) = true /\
                   snd r = [out_AUTH mech]) \/
     (snd r = [Upgrade] /\ tls = false /\ c_disable_sts cfg = false /\
      amem s_sts (st_enabled (fst r)) = true) \/
     (exists v, snd r = [InjectError v] /\ c_disable_sts cfg = false /\
                aget s_sts (st_enabled (fst r)) = Some v)) /\
  (is_cont_ls ps = true -> snd r = []) /\
  (is_del ps = true -> snd r = []) /\
  (expects_conclusion ps = false -> snd r = []).
Proof.
  cbv zeta. rewrite handle_cap_by_kind. repeat split.
  - intros H. rewrite (classify_nak ps H). reflexivity.
  - intros H. rewrite (classify_final ps H). cbv zeta.
    destruct (Nat.eqb (length (tmp_after_ls cfg now st ps)) 0) eqn:E; cbn [fst snd st_tmp].
    + left. split; [reflexivity|]. apply Nat.eqb_eq in E. destruct (tmp_after_ls cfg now st ps); [reflexivity|discriminate].
    + right. split; [|reflexivity]. intro H'. rewrite H' in E. discriminate.
  - intros H. rewrite (classify_ack ps H). apply ack_result_cases.
  - intros H. rewrite (classify_cont ps H). reflexivity.
  - intros H. rewrite (classify_del ps H). reflexivity.
  - intros H. unfold expects_conclusion in H.
    apply orb_false_iff in H as [H H3]. apply orb_false_iff in H as [H1 H2].
    pose proof (classify_inv ps) as I. destruct (classify ps); try reflexivity;
      destruct I as (I1 & I2); congruence.
Qed.

(* every output is a conclusion, and there is exactly one iff the reply expects one *)
Lemma step_conclusion_count ord cfg tls now st ps :
  let outs := snd (handle_cap ord cfg tls now st ps) in
  forallb is_conclusion outs = true /\
  length outs = if expects_conclusion ps then 1%nat else 0%nat.
Proof.
  cbv zeta.
  pose proof (C08_concludes_proof ord cfg tls now st ps) as C. cbv zeta in C.
  destruct C as (C1 & C2 & C3 & C4 & C5 & C6).
  pose proof (classify_inv ps) as I. unfold expects_conclusion.
  destruct (classify ps) eqn:K.
  - rewrite (C5 I). assert (is_nak ps = false /\ is_final_ls ps = false /\ is_ack ps = false) as (A & B & D).
    { destruct lit_distinct as (D1 & D2 & D3 & D4 & D5 & D6 & D7 & D8 & D9 & D10).
      unfold is_del in I. apply andb_true_iff in I as [_ I].
      unfold is_nak, is_final_ls, is_ls, is_ack.
      rewrite (sub_is_excl ps s_DEL s_NAK I), (sub_is_excl ps s_DEL s_LS I),
        (sub_is_excl ps s_DEL s_NEW I), (sub_is_excl ps s_DEL s_ACK I) by congruence.
      rewrite !andb_false_r. auto. }
    rewrite A, B, D. auto.
  - destruct I as (I1 & I2 & _). rewrite (C1 I1), I1. auto.
  - destruct I as (I1 & I2 & I3 & I4). rewrite I1, orb_true_r. cbn [orb].
    destruct (C2 I1) as [[H _]|[_ H]]; rewrite H; auto.
  - destruct I as (I1 & I2 & I3 & I4). rewrite (C4 I1).
    assert (is_final_ls ps = false) as ->.
    { unfold is_final_ls, is_cont_ls in *. rewrite I2 in *. cbn [andb] in *. now apply negb_true_iff in I1. }
    assert (is_nak ps = false) as ->.
    { destruct (is_ls_sub ps I2) as (_ & B & _). unfold is_nak. rewrite B, andb_false_r. reflexivity. }
    rewrite I4. auto.
  - destruct I as (I1 & I2 & I3). rewrite I1, !orb_true_r.
    destruct (C3 I1) as [H|[(m & _ & _ & H)|[(H & _)|(v & H & _)]]]; rewrite H; auto.
  - destruct I as (I1 & I2 & I3 & I4).
    assert (E : expects_conclusion ps = false).
    { unfold expects_conclusion, is_final_ls. rewrite I2, I3, I4. reflexivity. }
    rewrite (C6 E). unfold is_final_ls. rewrite I2, I3, I4. auto.
Qed.

Lemma C08_rounds_concluded_proof cfg st h :
  Forall (fun outs => forallb is_conclusion outs = true) (cap_outs cfg st h) /\
  length (concat (cap_outs cfg st h)) =
  length (filter (fun i => expects_conclusion (in_params i)) h).
Proof.
  revert st; induction h as [|i h IH]; intro st; cbn [cap_outs concat filter]; [split; [constructor|reflexivity]|].
  destruct (IH (fst (cap_step cfg st i))) as [IH1 IH2].
  destruct (step_conclusion_count (in_ord i) cfg (in_tls i) (in_now i) st (in_params i)) as [S1 S2].
  cbv zeta in S1, S2. fold (cap_step cfg st i) in S1, S2.
  split; [constructor; assumption|].
  rewrite app_length, IH2, S2. destruct (expects_conclusion (in_params i)); reflexivity.
Qed.

(* ====================================================================== *)
(* 3. registration burst, tag gating                                        *)
(* ====================================================================== *)

Lemma C08_ls_first_proof cfg :
  (c_tracking cfg = true ->
     exists pre post,
       registration_writes cfg = pre ++ (s_CAP, [s_LS; s_302]) :: post /\
       (forall w, In w pre -> fst w = s_WEBIRC \/ fst w = s_PASS) /\
       post = [(s_NICK, [c_nick cfg]);
               (s_USER, [c_user cfg; s_star; s_star;
                         match c_name cfg with [] => c_user cfg | nm => nm end])]) /\
  (c_tracking cfg = false -> forall w, In w (registration_writes cfg) -> fst w <> s_CAP).
Proof.
  unfold registration_writes. split; intros T; rewrite T.
  - eexists (_ ++ _), _. rewrite <- app_assoc. split; [reflexivity|]. split; [|reflexivity].
    intros w Hw. apply in_app_or in Hw as [Hw|Hw].
    + destruct (c_webirc cfg); [destruct Hw as [<-|[]]; auto|destruct Hw].
    + destruct (c_pass cfg); [destruct Hw|destruct Hw as [<-|[]]; auto].
  - intros w Hw. cbn [app] in Hw.
    apply in_app_or in Hw as [Hw|Hw]; [|apply in_app_or in Hw as [Hw|Hw]].
    + destruct (c_webirc cfg); [destruct Hw as [<-|[]]; discriminate|destruct Hw].
    + destruct (c_pass cfg); [destruct Hw|destruct Hw as [<-|[]]; discriminate].
    + destruct Hw as [<-|[<-|[]]]; discriminate.
Qed.

Lemma existsb_const {A} (b : bool) (l : list A) : existsb (fun _ => b) l = b && negb (Nat.eqb (length l) 0).
Proof. induction l as [|x l IH]; cbn; [now rewrite andb_false_r|]. rewrite IH. destruct b; reflexivity. Qed.

Lemma C08_tags_gated_proof en tags :
  tag_section_present (send_loop_tags en tags) = true <->
  has_tags tags /\ amem s_message_tags en = true.
Proof.
  unfold send_loop_tags, has_tags. destruct tags as [t|]; cbn.
  - rewrite existsb_const.
    destruct (amem s_message_tags en) eqn:M; cbn.
    + assert (negb (Nat.eqb (length en) 0) = true) as ->.
      { destruct en; [discriminate M|reflexivity]. }
      destruct t; cbn; split; try discriminate; intros H; auto.
      * destruct H as [(t' & E & N) _]. inversion E; subst. congruence.
      * split; auto. eexists; split; [reflexivity|discriminate].
    + split; [discriminate|]. intros [_ H]. discriminate.
  - split; [discriminate|]. intros [(t & E & _) _]. discriminate.
Qed.

(* ====================================================================== *)
(* 4. the enabled-capability ledger and HasCapability                       *)
(* ====================================================================== *)

Lemma enabled_by_nil k : ~ enabled_by [] k.
Proof. intros (pre & post & E & _). destruct pre; discriminate. Qed.

Lemma enabled_by_snoc_add ops k' k : enabled_by (ops ++ [OpAdd k']) k <-> k' = k \/ enabled_by ops k.
Proof.
  split.
  - intros (pre & post & E & N). induction post as [|x post _] using rev_ind.
    + change (pre ++ [OpAdd k]) with (pre ++ [OpAdd k]) in E. apply app_inj_tail in E as [_ E]. left. congruence.
    + right. rewrite app_comm_cons, app_assoc in E. apply app_inj_tail in E as [E _].
      exists pre, post. split; [exact E|]. intro H. apply N. apply in_or_app. auto.
  - intros [->|(pre & post & E & N)].
    + exists ops, []. split; [reflexivity|]. intros [].
    + exists pre, (post ++ [OpAdd k']). split; [rewrite E, <- app_assoc; reflexivity|].
      intro H. apply in_app_or in H as [H|[H|[]]]; [auto|discriminate].
Qed.

Lemma enabled_by_snoc_rem ops k' k : enabled_by (ops ++ [OpRem k']) k <-> k' <> k /\ enabled_by ops k.
Proof.
  split.
  - intros (pre & post & E & N). induction post as [|x post _] using rev_ind.
    + apply app_inj_tail in E as [_ E]. discriminate.
    + rewrite app_comm_cons, app_assoc in E. apply app_inj_tail in E as [E E'].
      subst x. split.
      * intro H. apply N. apply in_or_app. right. left. congruence.
      * exists pre, post. split; [exact E|]. intro H. apply N. apply in_or_app. auto.
  - intros [D (pre & post & E & N)].
    exists pre, (post ++ [OpRem k']). split; [rewrite E, <- app_assoc; reflexivity|].
    intro H. apply in_app_or in H as [H|[H|[]]]; [auto|congruence].
Qed.

Lemma enabled_by_app_rems ops ks k :
  enabled_by (ops ++ List.map OpRem ks) k <-> enabled_by ops k /\ ~ In k ks.
Proof.
  induction ks as [|x ks IH] using rev_ind; cbn [List.map].
  - rewrite app_nil_r. tauto.
  - rewrite map_app. cbn [List.map]. rewrite app_assoc, enabled_by_snoc_rem, IH. split.
    + intros (D & E & N). split; [exact E|]. intro H. apply in_app_or in H as [H|[H|[]]]; [auto|congruence].
    + intros (E & N). split; [|split; [exact E|]]; intro H; apply N; apply in_or_app; [right; left; congruence|auto].
Qed.

Definition Rep (en : capmap) (ops : list cap_op) : Prop :=
  forall k, In k (akeys en) <-> enabled_by ops k.

Lemma rep_nil : Rep [] [].
Proof. intro k. split; [intros []|intro H; exact (enabled_by_nil k H)]. Qed.

Lemma rep_add en ops k v : Rep en ops -> Rep (aset k v en) (ops ++ [OpAdd k]).
Proof. intros R x. rewrite akeys_aset, enabled_by_snoc_add, (R x). split; intros [H|H]; auto. Qed.

Lemma rep_rem en ops k : Rep en ops -> Rep (adel k en) (ops ++ [OpRem k]).
Proof.
  intros R x. rewrite akeys_adel, enabled_by_snoc_rem, (R x). split; intros [H1 H2]; split; auto.
Qed.

Lemma rep_app_nil en ops : Rep en ops -> Rep en (ops ++ []).
Proof. now rewrite app_nil_r. Qed.

(* ---- what an ACK token means ------------------------------------------------ *)
(* The model's ACK loop is the variant that the specification's flag names.  This is the
   lemma that stops compiling when Model/Cap.v ack_step and Spec/CapSpec.v
   ack_removal_aware are not switched together. *)
Lemma ack_step_matches tmp en tok :
  ack_step tmp en tok = ack_step_gen ack_removal_aware tmp en tok.
Proof.
  unfold ack_step, ack_step_gen, ack_removed. destruct tok as [|b t]; [reflexivity|].
  destruct (N.eqb b 45); reflexivity.
Qed.

Definition ack_ops_gen (a : bool) (tok : str) : list cap_op :=
  if a then match ack_removed tok with Some name => [OpRem name] | None => [OpAdd tok] end
  else [OpAdd tok].

Lemma ack_ops_gen_eq tok : ack_ops tok = ack_ops_gen ack_removal_aware tok.
Proof. reflexivity. Qed.

Lemma rep_ack_step_gen a tmp en ops tok :
  Rep en ops -> Rep (ack_step_gen a tmp en tok) (ops ++ ack_ops_gen a tok).
Proof.
  intros R. unfold ack_step_gen, ack_ops_gen. destruct a; [destruct (ack_removed tok)|].
  - now apply rep_rem.
  - destruct (aget tok tmp); now apply rep_add.
  - destruct (aget tok tmp); now apply rep_add.
Qed.

Lemma rep_ack_step tmp en ops tok : Rep en ops -> Rep (ack_step tmp en tok) (ops ++ ack_ops tok).
Proof. rewrite ack_step_matches, ack_ops_gen_eq. apply rep_ack_step_gen. Qed.

Lemma rep_ack_fold tmp toks : forall en ops,
  Rep en ops -> Rep (fold_left (ack_step tmp) toks en) (ops ++ flat_map ack_ops toks).
Proof.
  induction toks as [|tok toks IH]; intros en ops R; cbn [fold_left flat_map].
  - now apply rep_app_nil.
  - rewrite app_assoc. apply IH. now apply rep_ack_step.
Qed.

Lemma rep_rems en ops ks ks' :
  Rep en ops -> (forall k, In k ks <-> In k ks') ->
  Rep (fold_left (fun en k => adel k en) ks en) (ops ++ List.map OpRem ks').
Proof.
  intros R S k. rewrite akeys_fold_adel, enabled_by_app_rems, (R k), (S k). tauto.
Qed.

(* ---- parseCap: the names it yields are the token names ------------------ *)
Lemma parse_part_key out part : exists v, parse_part out part = aset (cap_token_name part) v out.
Proof.
  unfold parse_part, cap_token_name.
  destruct (index_byte 61 part) as [[|j]|] eqn:E; [change (Nat.ltb 0 1) with true; cbn [orb]; eauto| |eauto].
  pose proof (index_byte_lt _ _ _ E) as L.
  assert (Nat.ltb (length part) (S j + 1) = false) as -> by (apply Nat.ltb_ge; lia).
  assert (Nat.ltb (S j) 1 = false) as -> by (apply Nat.ltb_ge; lia).
  cbn [orb]. eauto.
Qed.

Lemma parse_parts_keys parts : forall acc k,
  In k (akeys (fold_left parse_part parts acc)) <->
  In k (List.map cap_token_name parts) \/ In k (akeys acc).
Proof.
  induction parts as [|p parts IH]; intros acc k; cbn [fold_left List.map In]; [tauto|].
  destruct (parse_part_key acc p) as [v ->]. rewrite IH, akeys_aset. split; intros H; intuition congruence.
Qed.

Lemma parse_cap_keys raw k :
  In k (akeys (parse_cap raw)) <-> In k (List.map cap_token_name (split_byte 32 raw)).
Proof. unfold parse_cap. rewrite parse_parts_keys. cbn. tauto. Qed.

Lemma cap_token_name_no_space tok : ~ In 32 tok -> ~ In 32 (cap_token_name tok).
Proof.
  unfold cap_token_name. destruct (index_byte 61 tok) as [[|j]|]; auto. apply firstn_no_sep.
Qed.

(* ---- one event ------------------------------------------------------------ *)
Lemma step_rep cfg st i ops :
  Rep (st_enabled st) ops ->
  Rep (st_enabled (fst (cap_step cfg st i))) (ops ++ event_ops (in_params i)).
Proof.
  intros R. unfold cap_step, event_ops. rewrite handle_cap_by_kind.
  pose proof (classify_inv (in_params i)) as I.
  destruct (classify (in_params i)).
  - rewrite I. cbn [fst st_enabled]. rewrite <- map_map. apply rep_rems; [exact R|].
    intro k. apply parse_cap_keys.
  - destruct I as (_ & -> & ->). cbn [fst]. rewrite st_after_nak_enabled. now apply rep_app_nil.
  - destruct I as (_ & _ & -> & ->). cbv zeta.
    destruct (Nat.eqb _ 0); now apply rep_app_nil.
  - destruct I as (_ & _ & -> & ->). now apply rep_app_nil.
  - destruct I as (-> & -> & _). rewrite ack_result_enabled. now apply rep_ack_fold.
  - destruct I as (-> & _ & _ & ->). now apply rep_app_nil.
Qed.

Lemma run_rep cfg h : forall st ops,
  Rep (st_enabled st) ops -> Rep (st_enabled (cap_after cfg st h)) (ops ++ history_ops h).
Proof.
  induction h as [|i h IH]; intros st ops R; cbn [cap_after history_ops flat_map].
  - now apply rep_app_nil.
  - rewrite app_assoc. apply IH. now apply step_rep.
Qed.

Lemma C08_enabled_exact_proof cfg s0 h k :
  amem k (st_enabled (cap_after cfg (cap_init s0) h)) = true <-> enabled_by (history_ops h) k.
Proof.
  rewrite amem_In. apply (run_rep cfg h (cap_init s0) [] rep_nil k).
Qed.

Lemma has_capability_iff connected en n :
  has_capability connected en n = true <->
  connected = true /\ exists k, In k (akeys en) /\ to_lower_ascii k = to_lower_ascii n.
Proof.
  unfold has_capability. rewrite andb_true_iff, existsb_exists. split; intros [C H]; (split; [exact C|]).
  - destruct H as (kv & H1 & H2). exists (fst kv). split; [apply in_map; exact H1|now apply streqb_iff].
  - destruct H as (k & H1 & H2). unfold akeys in H1. apply in_map_iff in H1 as (kv & <- & H1).
    exists kv. split; [exact H1|now apply streqb_iff].
Qed.

Lemma C08_has_capability_ops_proof cfg s0 h connected n :
  has_capability connected (st_enabled (cap_after cfg (cap_init s0) h)) n = true <->
  connected = true /\
  exists k, to_lower_ascii k = to_lower_ascii n /\ enabled_by (history_ops h) k.
Proof.
  rewrite has_capability_iff. split; intros [C (k & H1 & H2)]; (split; [exact C|]); exists k.
  - split; [exact H2|]. apply (proj1 (C08_enabled_exact_proof cfg s0 h k)). now apply amem_In.
  - split; [|exact H1]. apply amem_In. now apply (proj2 (C08_enabled_exact_proof cfg s0 h k)).
Qed.

(* ---- from operations back to events ------------------------------------------ *)
Lemma flat_map_split {A B} (f : A -> list B) (h : list A) : forall pre x post,
  flat_map f h = pre ++ x :: post ->
  exists h1 i h2 a b, h = h1 ++ i :: h2 /\ f i = a ++ x :: b /\
                      pre = flat_map f h1 ++ a /\ post = b ++ flat_map f h2.
Proof.
  induction h as [|i h IH]; intros pre x post E; cbn [flat_map] in E.
  - destruct pre; discriminate.
  - apply app_eq_app in E as [l [[E1 E2]|[E1 E2]]].
    + (* f i = pre ++ l, x :: post = l ++ flat_map f h *)
      destruct l as [|y l].
      * cbn in E2. rewrite app_nil_r in E1.
        destruct (IH [] x post (eq_sym E2)) as (h1 & j & h2 & a & b & H1 & H2 & H3 & H4).
        exists (i :: h1), j, h2, a, b. subst h. repeat split; auto.
        cbn [flat_map]. rewrite <- app_assoc, <- H3, app_nil_r. exact (eq_sym E1).
      * cbn in E2. inversion E2; subst y. exists [], i, h, pre, l. repeat split; auto.
    + destruct (IH l x post E2) as (h1 & j & h2 & a & b & H1 & H2 & H3 & H4).
      exists (i :: h1), j, h2, a, b. subst h. repeat split; auto.
      cbn [flat_map]. rewrite <- app_assoc, <- H3. exact E1.
Qed.

(* k is enabled after the history iff some line enables it (adds it and does not remove it
   again further along the same line) and no later line removes it *)
Lemma enabled_by_events h k :
  enabled_by (history_ops h) k <->
  exists h1 i h2, h = h1 ++ i :: h2 /\ enabled_by (event_ops (in_params i)) k /\
                  forall j, In j h2 -> ~ removes j k.
Proof.
  unfold history_ops. split.
  - intros (pre & post & E & N).
    destruct (flat_map_split _ _ _ _ _ E) as (h1 & i & h2 & a & b & H1 & H2 & H3 & H4).
    exists h1, i, h2. split; [exact H1|]. subst post. split.
    + exists a, b. split; [exact H2|]. intro H. apply N. apply in_or_app. auto.
    + intros j Hj R. apply N. apply in_or_app. right. apply in_flat_map. exists j. auto.
  - intros (h1 & i & h2 & -> & (a & b & E & N) & L).
    exists (flat_map (fun i => event_ops (in_params i)) h1 ++ a),
           (b ++ flat_map (fun i => event_ops (in_params i)) h2).
    split.
    + rewrite flat_map_app. cbn [flat_map]. rewrite E, <- !app_assoc. reflexivity.
    + intro H. apply in_app_or in H as [H|H]; [auto|].
      apply in_flat_map in H as (j & Hj & H). exact (L j Hj H).
Qed.

(* ---- what one line adds / removes, for either reading of ACK tokens --------------- *)
Lemma ack_removed_Some t nm : ack_removed t = Some nm <-> t = 45 :: nm.
Proof.
  destruct t as [|b t]; cbn; [split; discriminate|]. destruct (N.eqb b 45) eqn:E.
  - apply N.eqb_eq in E. subst. split; intro H; inversion H; reflexivity.
  - apply N.eqb_neq in E. split; [discriminate|]. intro H; inversion H; congruence.
Qed.

Definition tok_enabled (a : bool) (toks : list str) (k : str) : Prop :=
  exists pre post, toks = pre ++ k :: post /\
    (a = true -> ack_removed k = None /\ ~ In (45 :: k) post).

Lemma tok_enabled_nil a k : ~ tok_enabled a [] k.
Proof. intros (pre & post & E & _). destruct pre; discriminate. Qed.

Lemma tok_enabled_snoc a toks t k :
  tok_enabled a (toks ++ [t]) k <->
  (t = k /\ (a = true -> ack_removed k = None)) \/
  (tok_enabled a toks k /\ (a = true -> t <> 45 :: k)).
Proof.
  split.
  - intros (pre & post & E & C). induction post as [|x post _] using rev_ind.
    + apply app_inj_tail in E as [_ E]. left. split; [exact E|]. intro A. now apply C.
    + right. rewrite app_comm_cons, app_assoc in E. apply app_inj_tail in E as [E E']. subst x.
      split.
      * exists pre, post. split; [exact E|]. intro A. destruct (C A) as [C1 C2]. split; [exact C1|].
        intro H. apply C2. apply in_or_app. auto.
      * intros A H. destruct (C A) as [_ C2]. apply C2. apply in_or_app. right. left. exact H.
  - intros [[-> C]|[(pre & post & E & C) D]].
    + exists toks, []. split; [reflexivity|]. intro A. split; [now apply C|intros []].
    + exists pre, (post ++ [t]). split; [rewrite E, <- app_assoc; reflexivity|].
      intro A. destruct (C A) as [C1 C2]. split; [exact C1|].
      intro H. apply in_app_or in H as [H|[H|[]]]; [auto|exact (D A H)].
Qed.

Lemma flat_ack_enabled a toks k :
  enabled_by (flat_map (ack_ops_gen a) toks) k <-> tok_enabled a toks k.
Proof.
  induction toks as [|t toks IH] using rev_ind.
  - cbn. split; intro H; exfalso; [exact (enabled_by_nil k H)|exact (tok_enabled_nil a k H)].
  - rewrite flat_map_app, tok_enabled_snoc. cbn [flat_map]. rewrite app_nil_r.
    unfold ack_ops_gen at 2. destruct a.
    + destruct (ack_removed t) as [nm|] eqn:R.
      * pose proof (proj1 (ack_removed_Some t nm) R) as T.
        rewrite enabled_by_snoc_rem, IH. split.
        -- intros [D H]. right. split; [exact H|]. intros _ E. subst t. inversion E. congruence.
        -- intros [[-> C]|[H D]].
           ++ rewrite (C eq_refl) in R. discriminate.
           ++ split; [|exact H]. intro E. apply (D eq_refl). congruence.
      * rewrite enabled_by_snoc_add, IH. split.
        -- intros [->|H]; [left; split; [reflexivity|intros _; exact R]|].
           right. split; [exact H|]. intros _ E. subst t. cbn in R. discriminate.
        -- intros [[-> _]|[H _]]; auto.
    + rewrite enabled_by_snoc_add, IH. split.
      * intros [->|H]; [left; split; [reflexivity|discriminate]|right; split; [exact H|discriminate]].
      * intros [[-> _]|[H _]]; auto.
Qed.

Lemma flat_ack_removes a toks k :
  In (OpRem k) (flat_map (ack_ops_gen a) toks) <-> a = true /\ In (45 :: k) toks.
Proof.
  rewrite in_flat_map. unfold ack_ops_gen. split.
  - intros (t & Ht & H). destruct a; [|destruct H as [H|[]]; discriminate].
    destruct (ack_removed t) as [nm|] eqn:R; destruct H as [H|[]]; [|discriminate].
    inversion H; subst nm. apply ack_removed_Some in R. subst t. auto.
  - intros [-> H]. exists (45 :: k). split; [exact H|]. cbn. left. reflexivity.
Qed.

Lemma flat_map_ack_ops toks : flat_map ack_ops toks = flat_map (ack_ops_gen ack_removal_aware) toks.
Proof. reflexivity. Qed.

Lemma is_del_not_ack ps : is_del ps = true -> is_ack ps = false.
Proof.
  destruct lit_distinct as (D1 & D2 & D3 & D4 & _).
  unfold is_del, is_ack. intros H. apply andb_true_iff in H as [_ H].
  rewrite (sub_is_excl ps s_DEL s_ACK H D4), andb_false_r. reflexivity.
Qed.

Lemma acks_iff ps k : enabled_by (event_ops ps) k <-> is_del ps = false /\ acked_by ps k.
Proof.
  unfold event_ops, acked_by. destruct (is_del ps) eqn:D.
  - split; [|intros (H & _); discriminate].
    intros (a & b & E & _). exfalso.
    assert (H : In (OpAdd k) (List.map (fun tok => OpRem (cap_token_name tok)) (cap_tokens ps))).
    { rewrite E. apply in_or_app. right. left. reflexivity. }
    apply in_map_iff in H as (t & H & _). discriminate.
  - destruct (is_ack ps) eqn:A.
    + rewrite flat_map_ack_ops, flat_ack_enabled. unfold tok_enabled. tauto.
    + split; [intro H; exfalso; exact (enabled_by_nil k H)|intros (_ & H & _); discriminate].
Qed.

Lemma removes_iff i k : removes i k <-> removed_by (in_params i) k.
Proof.
  unfold removes, removed_by, event_ops. destruct (is_del (in_params i)) eqn:D.
  - rewrite (is_del_not_ack _ D), <- map_map. split.
    + intro H. apply in_map_iff in H as (t & H & Ht). left. split; [reflexivity|congruence].
    + intros [[_ H]|(_ & H & _)]; [now apply in_map|discriminate].
  - destruct (is_ack (in_params i)).
    + rewrite flat_map_ack_ops, flat_ack_removes. split.
      * intros [A H]. right. auto.
      * intros [[H _]|(A & _ & H)]; [discriminate|auto].
    + split; [intros []|]. intros [[H _]|(_ & H & _)]; discriminate.
Qed.

Lemma C08_has_capability_proof cfg s0 h connected n :
  has_capability connected (st_enabled (cap_after cfg (cap_init s0) h)) n = true <->
  connected = true /\
  exists k, to_lower_ascii k = to_lower_ascii n /\
  exists h1 i h2, h = h1 ++ i :: h2 /\ acked_by (in_params i) k /\
                  forall j, In j h2 -> ~ removed_by (in_params j) k.
Proof.
  rewrite C08_has_capability_ops_proof. split; intros [C (k & L & H)]; (split; [exact C|]); exists k; (split; [exact L|]).
  - apply enabled_by_events in H as (h1 & i & h2 & E & A & R). exists h1, i, h2. split; [exact E|].
    apply acks_iff in A as (_ & A). split; [exact A|]. intros j Hj Hr. apply (R j Hj). now apply removes_iff.
  - destruct H as (h1 & i & h2 & E & A & R). apply enabled_by_events. exists h1, i, h2.
    split; [exact E|]. split.
    + apply acks_iff. split; [|exact A]. destruct A as [A _].
      pose proof (classify_inv (in_params i)) as I. rewrite (classify_ack _ A) in I. tauto.
    + intros j Hj Hr. apply (R j Hj). now apply removes_iff.
Qed.

(* As long as the server acknowledges no removal (no ACK token starts with '-'), both
   readings of ACK coincide and the ledger is simply "listed by an ACK, not listed by a
   later DEL". *)
Lemma C08_has_capability_plain_proof cfg s0 h connected n :
  no_removal_acks h ->
  (has_capability connected (st_enabled (cap_after cfg (cap_init s0) h)) n = true <->
   connected = true /\
   exists k, to_lower_ascii k = to_lower_ascii n /\
   exists h1 i h2, h = h1 ++ i :: h2 /\
     (is_ack (in_params i) = true /\ In k (cap_tokens (in_params i))) /\
     forall j, In j h2 ->
       ~ (is_del (in_params j) = true /\ In k (List.map cap_token_name (cap_tokens (in_params j))))).
Proof.
  intros NR. rewrite C08_has_capability_proof.
  split; intros [C (k & L & h1 & i & h2 & E & A & R)]; (split; [exact C|]); exists k; (split; [exact L|]);
    exists h1, i, h2; (split; [exact E|]).
  - destruct A as (A1 & pre & post & A2 & _). split.
    + split; [exact A1|]. rewrite A2. apply in_or_app. right. left. reflexivity.
    + intros j Hj Hd. apply (R j Hj). left. exact Hd.
  - destruct A as (A1 & A2).
    assert (Hi : In i h) by (rewrite E; apply in_or_app; right; left; reflexivity).
    split.
    + split; [exact A1|]. pose proof A2 as A3. apply in_split in A3 as (pre & post & A3).
      exists pre, post. split; [exact A3|]. intros _. split; [exact (NR i k Hi A1 A2)|].
      intro H. assert (T : In (45 :: k) (cap_tokens (in_params i))).
      { rewrite A3. apply in_or_app. right. right. exact H. }
      pose proof (NR i _ Hi A1 T) as Z. cbn in Z. discriminate.
    + intros j Hj [Hd|(_ & Ha & Ht)]; [exact (R j Hj Hd)|].
      assert (Hj' : In j h) by (rewrite E; apply in_or_app; right; right; exact Hj).
      pose proof (NR j _ Hj' Ha Ht) as Z. cbn in Z. discriminate.
Qed.

(* tags at the socket, over histories *)
Lemma C08_tags_gated_history_proof cfg s0 h tags :
  tag_section_present (send_loop_tags (st_enabled (cap_after cfg (cap_init s0) h)) tags) = true <->
  has_tags tags /\ enabled_by (history_ops h) s_message_tags.
Proof. rewrite C08_tags_gated_proof, C08_enabled_exact_proof. tauto. Qed.

(* ====================================================================== *)
(* 5. CAP REQ is safe                                                       *)
(* ====================================================================== *)

(* ---- possibleCapList ------------------------------------------------------- *)
Lemma akeys_fold_builtin (l : list str) x (m : amap (list str)) :
  In x (akeys (fold_left (fun o k => aset k [] o) l m)) <-> In x l \/ In x (akeys m).
Proof.
  revert m; induction l as [|k l IH]; intro m; cbn [fold_left In]; [tauto|].
  rewrite IH, akeys_aset. split; intros H; intuition congruence.
Qed.

Lemma possible_caps_keys cfg r k :
  In k (akeys (possible_caps cfg r)) <->
  In k builtin_caps \/ In k (akeys (c_supported cfg)) \/
  (k = s_sasl /\ c_sasl cfg <> None) \/
  (k = s_sts /\ c_disable_sts cfg = false /\ c_ssl cfg = false /\
   (r && negb (c_disable_fallback cfg)) = false).
Proof.
  unfold possible_caps. cbv zeta. rewrite akeys_fold_builtin, akeys_fold_aset_pairs.
  fold (akeys (c_supported cfg)).
  destruct (c_sasl cfg) as [m|]; destruct (c_disable_sts cfg); destruct (c_ssl cfg);
    destruct (r && negb (c_disable_fallback cfg)); cbn [negb andb];
    rewrite ?akeys_aset; cbn [akeys List.map In]; split; intros H;
    repeat match goal with
           | H : _ \/ _ |- _ => destruct H as [H|H]
           | H : _ /\ _ |- _ => destruct H
           end; subst; try tauto; try congruence; try discriminate; auto 10.
  all: try (right; right; left; split; [reflexivity|discriminate]).
Qed.

Lemma possible_caps_supported cfg r k :
  amem k (possible_caps cfg r) = true -> supported_spec cfg k.
Proof.
  rewrite amem_In, possible_caps_keys. unfold supported_spec. intros [H|[H|[H|(H1 & H2 & H3 & _)]]]; auto 10.
Qed.

Lemma supported_possible cfg k :
  supported_spec cfg k -> amem k (possible_caps cfg false) = true.
Proof.
  rewrite amem_In, possible_caps_keys. unfold supported_spec. intros [H|[H|[H|(H1 & H2 & H3)]]]; auto 10.
Qed.

Lemma C08_supported_exact_proof cfg k :
  (forall r, amem k (possible_caps cfg r) = true -> supported_spec cfg k) /\
  (supported_spec cfg k -> amem k (possible_caps cfg false) = true).
Proof. split; [intro r; apply possible_caps_supported|apply supported_possible]. Qed.

(* ---- the LS loop ------------------------------------------------------------- *)
Lemma contains_loop_nonempty (pv : list str) (vals : amap str) :
  pv <> [] -> vals <> [] -> contains_loop pv vals = true.
Proof.
  intros P V. destruct vals as [|[a b] vals]; [congruence|]. destruct pv as [|p pv]; [congruence|].
  unfold contains_loop. cbn [existsb fst]. unfold amem. cbn [aget]. rewrite streqb_same. reflexivity.
Qed.

Lemma ls_step_keys possible tmp kv k :
  In k (akeys (ls_step possible tmp kv)) <->
  In k (akeys tmp) \/ (k = fst kv /\ amem k possible = true).
Proof.
  unfold ls_step. destruct (aget (fst kv) possible) as [pv|] eqn:G.
  - assert (M : amem (fst kv) possible = true) by (unfold amem; now rewrite G).
    assert (A : forall v, In k (akeys (aset (fst kv) v tmp)) <->
                          In k (akeys tmp) \/ (k = fst kv /\ amem k possible = true)).
    { intro v. rewrite akeys_aset. split; intros [H|H]; auto; [subst; auto|tauto]. }
    destruct (Nat.eqb (length pv) 0 || Nat.eqb (cv_len (snd kv)) 0)%bool eqn:Z; [apply A|].
    apply orb_false_iff in Z as [Z1 Z2].
    rewrite contains_loop_nonempty; [apply A| |].
    + destruct pv; [discriminate|discriminate].
    + unfold cv_len in Z2. destruct (snd kv) as [m|]; [|discriminate]. cbn. destruct m; discriminate.
  - split; [auto|]. intros [H|[-> H]]; [exact H|]. unfold amem in H. rewrite G in H. discriminate.
Qed.

Lemma ls_fold_keys possible caps : forall tmp k,
  In k (akeys (fold_left (ls_step possible) caps tmp)) <->
  In k (akeys tmp) \/ (In k (akeys caps) /\ amem k possible = true).
Proof.
  induction caps as [|kv caps IH]; intros tmp k; cbn [fold_left]; [cbn; tauto|].
  change (akeys (kv :: caps)) with (fst kv :: akeys caps). cbn [In].
  rewrite IH, ls_step_keys. split; intros H; intuition (subst; auto).
Qed.

Lemma tmp_after_ls_keys cfg now st ps k :
  In k (akeys (tmp_after_ls cfg now st ps)) <->
  In k (akeys (st_tmp st)) \/
  (In k (List.map cap_token_name (cap_tokens ps)) /\
   amem k (possible_caps cfg (recently_failed now (st_sts st))) = true).
Proof. unfold tmp_after_ls. rewrite ls_fold_keys, parse_cap_keys. reflexivity. Qed.

Lemma tmp_after_del_keys st ps k :
  In k (akeys (tmp_after_del st ps)) <->
  In k (akeys (st_tmp st)) /\ (tmp_prune_aware = true -> ~ In k (names_of ps)).
Proof.
  unfold tmp_after_del, names_of, cap_tokens. destruct tmp_prune_aware.
  - rewrite akeys_fold_adel, parse_cap_keys. tauto.
  - split; [intros H; split; [exact H|discriminate]|tauto].
Qed.

(* ---- the invariant: tmpCap ⊆ advertised ∩ supported, names without SPACE ------- *)
Definition TmpInv (cfg : cap_cfg) (h : list cap_in) (tmp : capmap) : Prop :=
  forall k, In k (akeys tmp) -> advertised_in h k /\ supported_spec cfg k /\ ~ In 32 k.

Lemma advertised_in_mono h h' k : advertised_in h k -> advertised_in (h ++ h') k.
Proof. intros (i & Hi & A). exists i. split; [apply in_or_app; auto|exact A]. Qed.

Lemma TmpInv_mono cfg h h' tmp : TmpInv cfg h tmp -> TmpInv cfg (h ++ h') tmp.
Proof. intros T k Hk. destruct (T k Hk) as (A & B & C). split; [now apply advertised_in_mono|auto]. Qed.

Lemma ack_result_tmp cfg tls now st ps :
  st_tmp (fst (ack_result cfg tls now st ps)) = [] \/
  st_tmp (fst (ack_result cfg tls now st ps)) = st_tmp st.
Proof.
  unfold ack_result. cbv zeta.
  assert (F : forall s, st_tmp (fst (ack_finish cfg (en_after_ack st ps) s)) = []).
  { intro s. unfold ack_finish. destruct (aget s_sasl _); [destruct (c_sasl cfg)|]; reflexivity. }
  destruct (aget s_sts (en_after_ack st ps)) as [v|]; [destruct (negb (c_disable_sts cfg))|]; auto.
  destruct (snd (sts_block tls now v (st_sts st))); [auto|]. destruct (negb tls); auto.
Qed.

Lemma step_tmp_inv cfg h st i :
  TmpInv cfg h (st_tmp st) -> TmpInv cfg (h ++ [i]) (st_tmp (fst (cap_step cfg st i))).
Proof.
  intros T. unfold cap_step. rewrite handle_cap_by_kind.
  pose proof (classify_inv (in_params i)) as I.
  assert (LS : is_ls (in_params i) = true ->
               TmpInv cfg (h ++ [i]) (tmp_after_ls cfg (in_now i) st (in_params i))).
  { intros L k Hk. apply tmp_after_ls_keys in Hk as [Hk|[Hk Hp]].
    - now apply (TmpInv_mono cfg h [i] _ T).
    - split; [|split].
      + exists i. split; [apply in_or_app; right; left; reflexivity|]. split; assumption.
      + eapply possible_caps_supported; eassumption.
      + apply in_map_iff in Hk as (tok & <- & Ht). apply cap_token_name_no_space.
        eapply split_byte_no_sep. exact Ht. }
  destruct (classify (in_params i)); cbv zeta.
  - cbn [fst st_tmp]. intros k Hk. apply (TmpInv_mono cfg h [i] _ T).
    apply tmp_after_del_keys in Hk. tauto.
  - cbn [fst]. intros k Hk. apply (TmpInv_mono cfg h [i] _ T). now apply st_after_nak_tmp_sub.
  - destruct I as (_ & L & _). destruct (Nat.eqb _ 0); now apply LS.
  - destruct I as (_ & L & _). now apply LS.
  - destruct (ack_result_tmp cfg (in_tls i) (in_now i) st (in_params i)) as [->| ->].
    + intros k [].
    + now apply TmpInv_mono.
  - now apply TmpInv_mono.
Qed.

Lemma run_tmp_inv cfg h : forall st h0,
  TmpInv cfg h0 (st_tmp st) -> TmpInv cfg (h0 ++ h) (st_tmp (cap_after cfg st h)).
Proof.
  induction h as [|i h IH]; intros st h0 T; cbn [cap_after].
  - now rewrite app_nil_r.
  - replace (h0 ++ i :: h) with ((h0 ++ [i]) ++ h) by (rewrite <- app_assoc; reflexivity).
    apply IH. now apply step_tmp_inv.
Qed.

Lemma reachable_tmp_inv cfg s0 h : TmpInv cfg h (st_tmp (cap_after cfg (cap_init s0) h)).
Proof. apply (run_tmp_inv cfg h (cap_init s0) []). intros k []. Qed.

(* a REQ among the outputs of one event is the REQ of the new tmpCap *)
Lemma step_req_inv ord cfg tls now st ps toks :
  In (Write s_CAP [s_REQ; toks]) (snd (handle_cap ord cfg tls now st ps)) ->
  let tmp' := st_tmp (fst (handle_cap ord cfg tls now st ps)) in
  tmp' <> [] /\ toks = join [32] (ord (akeys tmp')).
Proof.
  pose proof (C08_concludes_proof ord cfg tls now st ps) as C. cbv zeta in C.
  destruct C as (C1 & C2 & C3 & C4 & C5 & C6). cbv zeta.
  pose proof (classify_inv ps) as I. intros H.
  destruct (classify ps).
  - rewrite (C5 I) in H. destruct H.
  - destruct I as (I1 & _). rewrite (C1 I1) in H. destruct H as [H|[]]. discriminate.
  - destruct I as (I1 & _). destruct (C2 I1) as [[E _]|[N E]]; rewrite E in H; destruct H as [H|[]].
    + discriminate.
    + unfold out_REQ in H. inversion H. auto.
  - destruct I as (I1 & _). rewrite (C4 I1) in H. destruct H.
  - destruct I as (I1 & _).
    destruct (C3 I1) as [E|[(m & _ & _ & E)|[(E & _)|(v & E & _)]]]; rewrite E in H;
      destruct H as [H|[]]; discriminate.
  - destruct I as (I1 & I2 & I3 & I4).
    rewrite C6 in H; [destruct H|]. unfold expects_conclusion, is_final_ls. now rewrite I2, I3, I4.
Qed.

Lemma C08_req_safe_proof cfg s0 h i toks name :
  ord_sound (in_ord i) -> ord_complete (in_ord i) ->
  In (Write s_CAP [s_REQ; toks]) (snd (cap_step cfg (cap_after cfg (cap_init s0) h) i)) ->
  In name (split_byte 32 toks) ->
  advertised_in (h ++ [i]) name /\ supported_spec cfg name.
Proof.
  intros OS OC HW HN.
  pose proof (step_tmp_inv cfg h _ i (reachable_tmp_inv cfg s0 h)) as T.
  unfold cap_step in *. apply step_req_inv in HW. cbv zeta in HW. destruct HW as [NE ->].
  set (tmp' := st_tmp (fst (handle_cap (in_ord i) cfg (in_tls i) (in_now i)
                                       (cap_after cfg (cap_init s0) h) (in_params i)))) in *.
  rewrite split_join in HN.
  - apply OS in HN. destruct (T name HN) as (A & B & _). auto.
  - destruct tmp' as [|[k v] tmp2] eqn:E; [congruence|]. intro Z.
    assert (In k (in_ord i (akeys ((k, v) :: tmp2)))) as Hk by (apply OC; left; reflexivity).
    rewrite Z in Hk. destruct Hk.
  - intros x Hx. apply OS in Hx. destruct (T x Hx) as (_ & _ & S). exact S.
Qed.

Lemma not_builtin_sasl : ~ In s_sasl builtin_caps.
Proof. cbv. intuition discriminate. Qed.
Lemma not_builtin_sts : ~ In s_sts builtin_caps.
Proof. cbv. intuition discriminate. Qed.

Lemma C08_req_sasl_sts_proof cfg :
  (supported_spec cfg s_sasl -> c_sasl cfg <> None \/ In s_sasl (akeys (c_supported cfg))) /\
  (supported_spec cfg s_sts ->
     (c_disable_sts cfg = false /\ c_ssl cfg = false) \/ In s_sts (akeys (c_supported cfg))).
Proof.
  unfold supported_spec. split; intros [H|[H|[[H1 H2]|[H1 H2]]]]; auto.
  - exfalso. exact (not_builtin_sasl H).
  - discriminate.
  - exfalso. exact (not_builtin_sts H).
  - discriminate.
Qed.

(* completeness of a REQ: on the final line of an LS/NEW, everything that line
   advertises and the client can support right now is requested (together with what
   earlier lines of the listing left in tmpCap) *)
Lemma C08_req_complete_proof cfg st i name :
  ord_complete (in_ord i) ->
  is_final_ls (in_params i) = true ->
  advertised_by (in_params i) name ->
  amem name (possible_caps cfg (recently_failed (in_now i) (st_sts st))) = true ->
  exists names, snd (cap_step cfg st i) = [out_REQ names] /\ In name names.
Proof.
  intros OC F (L & A) P. unfold cap_step. rewrite handle_cap_by_kind, (classify_final _ F). cbv zeta.
  assert (K : In name (akeys (tmp_after_ls cfg (in_now i) st (in_params i)))).
  { apply tmp_after_ls_keys. right. auto. }
  destruct (Nat.eqb (length (tmp_after_ls cfg (in_now i) st (in_params i))) 0) eqn:Z.
  - apply Nat.eqb_eq, akeys_nil_length in Z. rewrite Z in K. destruct K.
  - eexists. split; [reflexivity|]. now apply OC.
Qed.

(* ====================================================================== *)
(* 6. Examples: the hypotheses are satisfiable, the branches are reachable  *)
(* ====================================================================== *)

Definition ex_cfg : cap_cfg :=
  mkCfg (Some (bs "PLAIN")) false false false [] true None [] (bs "me") (bs "user") (bs "Real Name").
Definition ex_cfg_nosasl : cap_cfg :=
  mkCfg None false false false [(bs "echo-message", [])] true None (bs "pw") (bs "me") (bs "user") [].
Definition ex_in (ps : list str) : cap_in := mkIn (fun l => l) false 1700000000000000000%Z ps.

(* a two-line LS, the ACK, a DEL *)
Definition ex_h : list cap_in :=
  [ ex_in [bs "*"; s_LS; s_star; bs "multi-prefix unknown-cap"];
    ex_in [bs "*"; s_LS; bs "sasl=PLAIN,EXTERNAL message-tags"];
    ex_in [bs "me"; s_ACK; bs "sasl multi-prefix Message-Tags"];
    ex_in [bs "me"; s_DEL; bs "multi-prefix" ] ].

Example ex_id_ord : ord_sound (fun l => l) /\ ord_complete (fun l => l).
Proof. split; intros l x H; exact H. Qed.

Example ex_outs :
  cap_outs ex_cfg (cap_init sts_init) ex_h =
  [ []; [out_REQ [bs "sasl"; bs "message-tags"; bs "multi-prefix"]]; [out_AUTH (bs "PLAIN")]; [] ].
Proof. vm_compute. reflexivity. Qed.

Example ex_expectations :
  List.map (fun i => expects_conclusion (in_params i)) ex_h = [false; true; true; false].
Proof. vm_compute. reflexivity. Qed.

(* hypotheses of C08_req_safe *)
Example ex_req_written :
  In (Write s_CAP [s_REQ; bs "sasl message-tags multi-prefix"])
     (snd (cap_step ex_cfg (cap_after ex_cfg (cap_init sts_init) (firstn 1 ex_h))
                    (ex_in [bs "*"; s_LS; bs "sasl=PLAIN,EXTERNAL message-tags"]))) /\
  In (bs "sasl") (split_byte 32 (bs "sasl message-tags multi-prefix")).
Proof. vm_compute. split; [left; reflexivity|left; reflexivity]. Qed.

Example ex_has_capability :
  let en := st_enabled (cap_after ex_cfg (cap_init sts_init) ex_h) in
  has_capability true en (bs "SASL") = true /\
  has_capability true en (bs "message-tags") = true /\        (* acknowledged as "Message-Tags" *)
  has_capability true en (bs "multi-prefix") = false /\       (* deleted *)
  has_capability true en (bs "unknown-cap") = false /\
  has_capability false en (bs "sasl") = false /\
  (* the tag gate looks the exact key up *)
  tag_section_present (send_loop_tags en (Some [(bs "k", bs "v")])) = false.
Proof. vm_compute. repeat split. Qed.

Example ex_tags_pass :
  let en := st_enabled (cap_after ex_cfg (cap_init sts_init)
                         [ex_in [bs "*"; s_LS; bs "message-tags"]; ex_in [bs "me"; s_ACK; bs "message-tags"]]) in
  tag_section_present (send_loop_tags en (Some [(bs "k", bs "v")])) = true /\
  tag_section_present (send_loop_tags en (Some [])) = false /\
  tag_section_present (send_loop_tags en None) = false /\
  has_tags (Some [(bs "k", bs "v")]).
Proof. vm_compute. repeat split. eexists. split; [reflexivity|discriminate]. Qed.

(* NAK, nothing usable, STS upgrade, invalid STS policy, AUTHENTICATE not without SASL *)
Example ex_other_conclusions :
  cap_outs ex_cfg_nosasl (cap_init sts_init)
    [ ex_in [bs "*"; s_LS; bs "unknown-cap"];                      (* nothing usable -> END *)
      ex_in [bs "*"; s_NEW; bs "echo-message sasl"];               (* sasl not configured *)
      ex_in [bs "me"; s_NAK; bs "echo-message"];
      ex_in [bs "me"; s_ACK; bs "sasl"];                           (* unsolicited: still END *)
      ex_in [bs "*"; s_LS];                                        (* bare LS: no reply *)
      ex_in [bs "*"; s_LS; bs "sts=port=6697"];
      ex_in [bs "me"; s_ACK; bs "sts"] ] =
  [ [out_END]; [out_REQ [bs "echo-message"]]; [out_END]; [out_END]; [];
    [out_REQ [bs "sts"]]; [Upgrade] ] /\
  cap_outs ex_cfg_nosasl (cap_init sts_init)
    [ ex_in [bs "*"; s_LS; bs "sts=port=5"]; ex_in [bs "me"; s_ACK; bs "sts"] ] =
  [ [out_REQ [bs "sts"]]; [InjectError (Some [(bs "port", bs "5")])] ].
Proof. vm_compute. split; reflexivity. Qed.

Example ex_registration :
  List.map fst (registration_writes ex_cfg_nosasl) = [s_PASS; s_CAP; s_NICK; s_USER].
Proof. vm_compute. reflexivity. Qed.

Example ex_no_removal_acks : no_removal_acks ex_h.
Proof.
  intros i t Hi Ha Ht. unfold ex_h in Hi.
  repeat (destruct Hi as [<-|Hi]); try (vm_compute in Ha; discriminate Ha); [|destruct Hi].
  vm_compute in Ht. repeat (destruct Ht as [<-|Ht]); try reflexivity. destruct Ht.
Qed.

(* The finding ack-removal-ignored, and its repair, in one statement: after
   LS / ACK :message-tags away-notify / ACK :-message-tags the capability is still reported
   (and tags still go out) exactly when removals are NOT understood. *)
Definition ex_removal_h : list cap_in :=
  [ ex_in [bs "*"; s_LS; bs "message-tags away-notify"];
    ex_in [bs "me"; s_ACK; bs "message-tags away-notify"];
    ex_in [bs "me"; s_ACK; bs "-message-tags"] ].

Lemma C08_ack_removal_finding_proof :
  let en := st_enabled (cap_after ex_cfg (cap_init sts_init) ex_removal_h) in
  has_capability true en (bs "message-tags") = negb ack_removal_aware /\
  has_capability true en (bs "-message-tags") = negb ack_removal_aware /\
  has_capability true en (bs "away-notify") = true /\
  tag_section_present (send_loop_tags en (Some [(bs "k", bs "v")])) = negb ack_removal_aware.
Proof. vm_compute. repeat split. Qed.

(* ====================================================================== *)
(* 7. rounds: an acknowledged round leaves nothing pending; a REQ names     *)
(*    only what is on offer in its own round                                *)
(* ====================================================================== *)

Lemma ack_result_tmp_alive cfg tls now st ps :
  conn_ended (snd (ack_result cfg tls now st ps)) = false ->
  st_tmp (fst (ack_result cfg tls now st ps)) = [].
Proof.
  unfold ack_result. cbv zeta.
  assert (F : forall s, st_tmp (fst (ack_finish cfg (en_after_ack st ps) s)) = []).
  { intro s. unfold ack_finish. destruct (aget s_sasl _); [destruct (c_sasl cfg)|]; reflexivity. }
  destruct (aget s_sts (en_after_ack st ps)) as [v|]; [destruct (negb (c_disable_sts cfg))|]; auto.
  destruct (snd (sts_block tls now v (st_sts st))); [cbn; discriminate|].
  destruct (negb tls); [cbn; discriminate|auto].
Qed.

(* (ii) every ACK that does not end the connection — whether it is answered by CAP END or by
   AUTHENTICATE — leaves tmpCap empty *)
Lemma C08_ack_clears_tmp_proof ord cfg tls now st ps :
  is_ack ps = true ->
  let r := handle_cap ord cfg tls now st ps in
  (snd r = [out_END] \/ exists mech, snd r = [out_AUTH mech]) ->
  st_tmp (fst r) = [].
Proof.
  intros A. cbv zeta. rewrite handle_cap_by_kind, (classify_ack ps A). intros H.
  apply ack_result_tmp_alive. destruct H as [->|[mech ->]]; reflexivity.
Qed.

Lemma is_ack_not_nak ps : is_ack ps = true -> is_nak ps = false.
Proof.
  destruct lit_distinct as (D1 & D2 & D3 & D4 & D5 & D6 & D7 & _).
  unfold is_ack, is_nak. intros H. apply andb_true_iff in H as [_ H].
  rewrite (sub_is_excl ps s_ACK s_NAK H), andb_false_r by congruence. reflexivity.
Qed.

Lemma is_ls_not_nak ps : is_ls ps = true -> is_nak ps = false.
Proof. intros L. destruct (is_ls_sub ps L) as (_ & B & _). unfold is_nak. now rewrite B, andb_false_r. Qed.

Lemma existsb_streqb_In k l : existsb (streqb k) l = true <-> In k l.
Proof.
  rewrite existsb_exists. split.
  - intros (x & Hx & E). apply streqb_iff in E. now subst.
  - intros H. exists k. split; [exact H|apply streqb_same].
Qed.

(* the invariant: every pending name is on offer *)
Definition OInv (acc : list str) (tmp : capmap) : Prop := forall k, In k (akeys tmp) -> In k acc.

Lemma step_offered_inv cfg st i acc :
  OInv acc (st_tmp st) ->
  conn_ended (snd (cap_step cfg st i)) = false ->
  OInv (offered_step acc i) (st_tmp (fst (cap_step cfg st i))).
Proof.
  intros O. unfold cap_step, offered_step. rewrite handle_cap_by_kind. cbv zeta.
  pose proof (classify_inv (in_params i)) as I.
  destruct (classify (in_params i)) eqn:K.
  - rewrite I. intros _ k Hk. cbn [fst st_tmp] in Hk. apply tmp_after_del_keys in Hk as [Hk N].
    destruct tmp_prune_aware.
    + apply filter_In. split; [now apply O|]. apply negb_true_iff.
      destruct (existsb (streqb k) (names_of (in_params i))) eqn:E; [|reflexivity].
      apply existsb_streqb_In in E. exfalso. exact (N eq_refl E).
    + now apply O.
  - destruct I as (N & -> & _). rewrite N. intros _ k Hk. cbn [fst] in Hk.
    rewrite st_after_nak_tmp in Hk. destruct tmp_prune_aware; [destruct Hk|now apply O].
  - destruct I as (_ & L & -> & _). rewrite (is_ls_not_nak _ L), L. intros _ k Hk.
    assert (Hk' : In k (akeys (tmp_after_ls cfg (in_now i) st (in_params i)))).
    { destruct (Nat.eqb _ 0); exact Hk. }
    apply tmp_after_ls_keys in Hk' as [H|[H _]]; apply in_or_app; [left; now apply O|right; exact H].
  - destruct I as (_ & L & -> & _). rewrite (is_ls_not_nak _ L), L. intros _ k Hk. cbn [fst st_tmp] in Hk.
    apply tmp_after_ls_keys in Hk as [H|[H _]]; apply in_or_app; [left; now apply O|right; exact H].
  - destruct I as (A & -> & ->). rewrite (is_ack_not_nak _ A), A. intros E.
    rewrite (ack_result_tmp_alive _ _ _ _ _ E). intros k [].
  - destruct I as (-> & -> & -> & ->). intros _ k Hk. now apply O.
Qed.

Lemma run_offered_inv cfg h : forall st acc,
  OInv acc (st_tmp st) -> alive cfg st h ->
  OInv (fold_left offered_step h acc) (st_tmp (cap_after cfg st h)).
Proof.
  induction h as [|i h IH]; intros st acc O A; cbn [fold_left cap_after]; [exact O|].
  unfold alive in A. cbn [cap_outs] in A. inversion A as [|x l A1 A2]; subst.
  apply IH; [now apply step_offered_inv|exact A2].
Qed.

(* (i) for the reading of a round that Spec offered fixes (either value of
   tmp_prune_aware): on a connection that is still alive, every name in a CAP REQ is on
   offer when the REQ is written *)
Lemma C08_req_on_offer_proof cfg s0 h i toks name :
  ord_sound (in_ord i) -> ord_complete (in_ord i) ->
  alive cfg (cap_init s0) h ->
  In (Write s_CAP [s_REQ; toks]) (snd (cap_step cfg (cap_after cfg (cap_init s0) h) i)) ->
  In name (split_byte 32 toks) ->
  In name (offered (h ++ [i])).
Proof.
  intros OS OC AL HW HN.
  pose proof (step_tmp_inv cfg h _ i (reachable_tmp_inv cfg s0 h)) as T.
  assert (O : OInv (offered h) (st_tmp (cap_after cfg (cap_init s0) h))).
  { apply (run_offered_inv cfg h (cap_init s0) []); [intros k []|exact AL]. }
  assert (E : conn_ended (snd (cap_step cfg (cap_after cfg (cap_init s0) h) i)) = false).
  { pose proof (step_conclusion_count (in_ord i) cfg (in_tls i) (in_now i)
                  (cap_after cfg (cap_init s0) h) (in_params i)) as [_ L].
    cbv zeta in L. fold (cap_step cfg (cap_after cfg (cap_init s0) h) i) in L.
    destruct (snd (cap_step cfg (cap_after cfg (cap_init s0) h) i)) as [|o [|o' l]] eqn:S.
    - destruct HW.
    - destruct HW as [->|[]]. reflexivity.
    - destruct (expects_conclusion (in_params i)); discriminate L. }
  apply (step_offered_inv cfg _ i _ O) in E.
  unfold offered. rewrite fold_left_app. cbn [fold_left]. fold (offered h).
  unfold cap_step in *. apply step_req_inv in HW. cbv zeta in HW. destruct HW as [NE ->].
  set (tmp' := st_tmp (fst (handle_cap (in_ord i) cfg (in_tls i) (in_now i)
                                       (cap_after cfg (cap_init s0) h) (in_params i)))) in *.
  rewrite split_join in HN.
  - apply OS in HN. now apply E.
  - destruct tmp' as [|[k v] tmp2] eqn:Etmp; [congruence|]. intro Z.
    assert (In k (in_ord i (akeys ((k, v) :: tmp2)))) as Hk by (apply OC; left; reflexivity).
    rewrite Z in Hk. destruct Hk.
  - intros x Hx. apply OS in Hx. destruct (T x Hx) as (_ & _ & S). exact S.
Qed.

(* what is on offer was advertised on this connection *)
Lemma offered_step_advertised acc i k :
  In k (offered_step acc i) -> In k acc \/ advertised_by (in_params i) k.
Proof.
  unfold offered_step. destruct (is_del (in_params i)).
  - destruct tmp_prune_aware; [intro H; apply filter_In in H; tauto|auto].
  - destruct (is_nak (in_params i)); [destruct tmp_prune_aware; [intros []|auto]|].
    destruct (is_ls (in_params i)) eqn:L.
    + intro H. apply in_app_or in H as [H|H]; [auto|]. right. split; [exact L|exact H].
    + destruct (is_ack (in_params i)); [intros []|auto].
Qed.

Lemma offered_advertised_gen h : forall acc k,
  In k (fold_left offered_step h acc) -> In k acc \/ advertised_in h k.
Proof.
  induction h as [|i h IH]; intros acc k H; cbn [fold_left] in H; [auto|].
  apply IH in H as [H|(j & Hj & A)].
  - apply offered_step_advertised in H as [H|H]; [auto|]. right. exists i. split; [left; reflexivity|exact H].
  - right. exists j. split; [right; exact Hj|exact A].
Qed.

Lemma C08_offered_advertised_proof h k : In k (offered h) -> advertised_in h k.
Proof. intro H. apply offered_advertised_gen in H as [[]|H]. exact H. Qed.

(* ---- examples / the finding ---------------------------------------------------- *)
Definition req_names (outs : list cap_out) : list str :=
  flat_map (fun o => match o with
                     | Write cmd [x; toks] => if streqb cmd s_CAP && streqb x s_REQ then split_byte 32 toks else []
                     | _ => []
                     end) outs.

(* a SASL round acknowledged (AUTHENTICATE, not END), then DEL + NEW: only the new name *)
Definition ex_second_round_h : list cap_in :=
  [ ex_in [bs "*"; s_LS; bs "cap-notify multi-prefix sasl"];
    ex_in [bs "me"; s_ACK; bs "cap-notify multi-prefix sasl"];
    ex_in [bs "me"; s_DEL; bs "multi-prefix"] ].

Example ex_second_round :
  alive ex_cfg (cap_init sts_init) ex_second_round_h /\
  cap_outs ex_cfg (cap_init sts_init) ex_second_round_h =
    [ [out_REQ [bs "cap-notify"; bs "multi-prefix"; bs "sasl"]]; [out_AUTH (bs "PLAIN")]; [] ] /\
  st_tmp (cap_after ex_cfg (cap_init sts_init) ex_second_round_h) = [] /\
  snd (cap_step ex_cfg (cap_after ex_cfg (cap_init sts_init) ex_second_round_h)
                (ex_in [bs "me"; s_NEW; bs "away-notify"])) = [out_REQ [bs "away-notify"]] /\
  offered (ex_second_round_h ++ [ex_in [bs "me"; s_NEW; bs "away-notify"]]) = [bs "away-notify"].
Proof.
  split; [unfold alive; vm_compute; repeat constructor|].
  vm_compute. repeat split.
Qed.

(* The finding tmpcap-not-pruned and its repair in one statement: after a NAK (resp. a DEL of
   a pending name) the next listing's REQ still carries the old names exactly when tmpCap is
   NOT pruned. *)
Definition ex_nak_h : list cap_in :=
  [ ex_in [bs "*"; s_LS; bs "sasl message-tags"]; ex_in [bs "me"; s_NAK; bs "sasl message-tags"] ].
Definition ex_del_h : list cap_in :=
  [ ex_in [bs "*"; s_LS; s_star; bs "multi-prefix batch"]; ex_in [bs "me"; s_DEL; bs "multi-prefix"] ].

Lemma C08_tmpcap_prune_finding_proof :
  let r1 := req_names (snd (cap_step ex_cfg (cap_after ex_cfg (cap_init sts_init) ex_nak_h)
                                     (ex_in [bs "me"; s_NEW; bs "batch"]))) in
  let r2 := req_names (snd (cap_step ex_cfg (cap_after ex_cfg (cap_init sts_init) ex_del_h)
                                     (ex_in [bs "*"; s_LS; bs "away-notify"]))) in
  existsb (streqb (bs "batch")) r1 = true /\
  existsb (streqb (bs "sasl")) r1 = negb tmp_prune_aware /\
  existsb (streqb (bs "message-tags")) r1 = negb tmp_prune_aware /\
  existsb (streqb (bs "away-notify")) r2 = true /\
  existsb (streqb (bs "batch")) r2 = true /\
  existsb (streqb (bs "multi-prefix")) r2 = negb tmp_prune_aware.
Proof. vm_compute. repeat split. Qed.
