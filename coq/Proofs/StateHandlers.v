(* C05: every handler of the tracked state keeps the structural invariant and returns
   (never Panic) on every event; hence every history from the initial state does. *)
Require Import Bytes AMap Names State OrderLemmas AMapLemmas NamesProofs StateInv.
From Coq Require Import Lia Sorting.Sorted.

(* ---- renameUser ---- *)

Lemma replace_first_same x l : replace_first x x l = l.
Proof.
  induction l as [|z l IH]; simpl; [reflexivity|].
  destruct (streqb x z) eqn:E; [apply streqb_eq in E; subst; reflexivity|]. f_equal; exact IH.
Qed.

Definition renamed_users (from tof : str) (c : channel) : list str :=
  if mem_str from (c_users c) then sort_strs (replace_first from tof (c_users c)) else c_users c.

Lemma ric_spec from tof : forall l chans, NoDup l -> (forall cn, In cn l -> alookup cn chans <> None) ->
  exists chans', rename_in_channels chans from tof l = Ok chans' /\
    forall cn, alookup cn chans' =
      if mem_str cn l then option_map (fun c => c_set_users c (renamed_users from tof c)) (alookup cn chans)
      else alookup cn chans.
Proof.
  induction l as [|c0 r IH]; intros chans Hnd Hex; simpl.
  - exists chans. split; [reflexivity|]. intros; reflexivity.
  - inversion Hnd as [|? ? Hc0 Hnd']; subst.
    destruct (alookup c0 chans) as [c|] eqn:Ec; [|exfalso; apply (Hex c0); [left; reflexivity|exact Ec]].
    destruct (IH (aset c0 (c_set_users c (renamed_users from tof c)) chans) Hnd') as (chans' & Hrun & Hspec).
    { intros cn Hcn. rewrite alookup_aset. destruct (streqb cn c0); [discriminate|]. apply Hex. right; exact Hcn. }
    exists chans'. split; [exact Hrun|]. intros cn. rewrite Hspec, alookup_aset.
    destruct (streqb cn c0) eqn:E.
    + apply streqb_eq in E. subst cn. simpl. apply mem_str_false in Hc0. rewrite Hc0, Ec. reflexivity.
    + simpl. reflexivity.
Qed.

Lemma rename_core s from to u : Inv s -> fold from = from -> alookup from (st_users s) = Some u ->
  (fold to = from \/ alookup (fold to) (st_users s) = None) ->
  exists chans', rename_in_channels (st_channels s) from (fold to) (u_chans u) = Ok chans' /\
    Inv (set_channels (set_users s (aset (fold to) (u_set_nick u to) (aremove from (st_users s)))) chans').
Proof.
  intros I Hff Eu Hto. remember (fold to) as kt eqn:Hkt.
  destruct (ric_spec from kt (u_chans u) (st_channels s)) as (chans' & Hrun & Hspec).
  { apply ssorted_nodup. apply (inv_ul I _ _ Eu). }
  { intros cn Hcn. destruct (inv_uc I _ _ _ Eu Hcn) as (c & Hc & _). congruence. }
  exists chans'. split; [exact Hrun|].
  assert (KT : kt <> from -> forall k c, alookup k (st_channels s) = Some c -> ~ In kt (c_users c)).
  { intros Hne k c Hc Hin. destruct Hto as [H|H]; [congruence|].
    destruct (inv_cu I _ _ _ Hc Hin) as (u0 & Hu0 & _). congruence. }
  assert (RL : forall k c, alookup k (st_channels s) = Some c ->
     ssorted (renamed_users from kt c) /\
     forall n, In n (renamed_users from kt c) <-> (n = kt /\ In from (c_users c)) \/ (In n (c_users c) /\ n <> from)).
  { intros k c Hc. unfold renamed_users. pose proof (inv_cl I _ _ Hc) as Hs. pose proof (ssorted_nodup _ Hs) as Hnd.
    destruct (mem_str from (c_users c)) eqn:Em.
    - apply mem_str_in in Em. split.
      + apply sort_strs_ssorted. destruct (list_eq_dec N.eq_dec kt from) as [Heq|Hne].
        * rewrite Heq, replace_first_same. exact Hnd.
        * apply replace_first_nodup; [exact Hnd|]. apply (KT Hne _ _ Hc).
      + intros n. rewrite sort_strs_in, (replace_first_in from kt (c_users c) n Hnd Em). tauto.
    - apply mem_str_false in Em. split; [exact Hs|]. intros n. split.
      + intros Hn. right. split; [exact Hn|]. intros ->. contradiction.
      + intros [[_ H]|[H _]]; [contradiction|exact H]. }
  assert (CB : forall k c', alookup k chans' = Some c' ->
     exists c, alookup k (st_channels s) = Some c /\ c_name c' = c_name c /\ c_users c' = renamed_users from kt c).
  { intros k c' H. rewrite Hspec in H. destruct (mem_str k (u_chans u)) eqn:Em.
    - destruct (alookup k (st_channels s)) as [c|]; [|discriminate]. simpl in H. injection H as <-.
      exists c. split; [reflexivity|]. split; reflexivity.
    - exists c'. split; [exact H|]. split; [reflexivity|]. unfold renamed_users.
      destruct (mem_str from (c_users c')) eqn:Em2; [|reflexivity]. exfalso. apply mem_str_in in Em2.
      destruct (inv_cu I _ _ _ H Em2) as (u0 & Hu0 & Hin). rewrite Eu in Hu0. injection Hu0 as <-.
      apply mem_str_false in Em. contradiction. }
  assert (CF : forall k c, alookup k (st_channels s) = Some c ->
     exists c', alookup k chans' = Some c' /\ c_users c' = renamed_users from kt c).
  { intros k c H. rewrite Hspec, H. destruct (mem_str k (u_chans u)) eqn:Em; cbn [option_map].
    - eexists; split; reflexivity.
    - exists c. split; [reflexivity|]. unfold renamed_users.
      destruct (mem_str from (c_users c)) eqn:Em2; [|reflexivity]. exfalso. apply mem_str_in in Em2.
      destruct (inv_cu I _ _ _ H Em2) as (u0 & Hu0 & Hin). rewrite Eu in Hu0. injection Hu0 as <-.
      apply mem_str_false in Em. contradiction. }
  constructor; sproj.
  - intros k c' H. destruct (CB _ _ H) as (c & Hc & Hn & _). rewrite Hn. apply (inv_ckey I _ _ Hc).
  - intros n u0. rewrite alookup_aset. destruct (streqb n kt) eqn:E.
    + apply streqb_eq in E. subst n. intros H; injection H as <-. simpl. symmetry; exact Hkt.
    + rewrite alookup_aremove. destruct (streqb n from); [discriminate|]. apply (inv_ukey I).
  - intros k c' H. destruct (CB _ _ H) as (c & Hc & _ & Hl). rewrite Hl. apply (RL _ _ Hc).
  - intros n u0. rewrite alookup_aset. destruct (streqb n kt) eqn:E.
    + intros H; injection H as <-. exact (inv_ul I _ _ Eu).
    + rewrite alookup_aremove. destruct (streqb n from); [discriminate|]. apply (inv_ul I).
  - intros kc c' n H Hn. destruct (CB _ _ H) as (c & Hc & _ & Hl). rewrite Hl in Hn. apply (RL _ _ Hc) in Hn.
    destruct Hn as [[-> Hfrom]|[Hn Hne]].
    + exists (u_set_nick u to). rewrite alookup_aset_eq. split; [reflexivity|]. simpl.
      destruct (inv_cu I _ _ _ Hc Hfrom) as (u0 & Hu0 & Hin). rewrite Eu in Hu0. injection Hu0 as <-. exact Hin.
    + destruct (inv_cu I _ _ _ Hc Hn) as (u0 & Hu0 & Hin). rewrite alookup_aset. destruct (streqb n kt) eqn:E.
      * apply streqb_eq in E. subst n. exfalso. apply (KT Hne _ _ Hc Hn).
      * rewrite alookup_aremove. apply streqb_neq in Hne. rewrite Hne. exists u0. split; assumption.
  - intros n u0 cn. rewrite alookup_aset. destruct (streqb n kt) eqn:E.
    + apply streqb_eq in E. subst n. intros H; injection H as <-. simpl. intros Hcn.
      destruct (inv_uc I _ _ _ Eu Hcn) as (c & Hc & Hin). destruct (CF _ _ Hc) as (c' & Hc' & Hl).
      exists c'. split; [exact Hc'|]. rewrite Hl. apply (RL _ _ Hc). left. split; [reflexivity|exact Hin].
    + rewrite alookup_aremove. destruct (streqb n from) eqn:E2; [discriminate|]. apply streqb_neq in E2.
      intros Hu0 Hcn. destruct (inv_uc I _ _ _ Hu0 Hcn) as (c & Hc & Hin). destruct (CF _ _ Hc) as (c' & Hc' & Hl).
      exists c'. split; [exact Hc'|]. rewrite Hl. apply (RL _ _ Hc). right. split; [exact Hin|exact E2].
Qed.

Lemma rename_user_inv s from to : Inv s -> exists s', rename_user s from to = Ok s' /\ Inv s'.
Proof.
  intros I. unfold rename_user. set (kf := fold from).
  set (s0 := if streqb kf (fold (st_nick s)) then set_nick s to else s).
  assert (I0 : Inv s0).
  { unfold s0. destruct (streqb kf (fold (st_nick s))); [|exact I]. eapply same_struct_inv; [apply same_set_nick|exact I]. }
  clearbody s0. clear I s.
  destruct (alookup kf (st_users s0)) as [u|] eqn:Eu; [|eauto].
  assert (Hkf : fold kf = kf) by apply fold_idem.
  destruct (streqb (fold to) kf) eqn:Et.
  - apply streqb_eq in Et. cbn [rbind].
    destruct (rename_core s0 kf to u I0 Hkf Eu (or_introl Et)) as (chans' & Hrun & I'). rewrite Hrun. cbn [rbind]. eauto.
  - apply streqb_neq in Et.
    destruct (delete_user_all_inv s0 to I0) as (s1 & Hdel & I1 & Hnone & Hother & _). rewrite Hdel. cbn [rbind].
    assert (Eu1 : alookup kf (st_users s1) = Some u). { rewrite Hother; [exact Eu|]. congruence. }
    destruct (rename_core s1 kf to u I1 Hkf Eu1 (or_intror Hnone)) as (chans' & Hrun & I'). rewrite Hrun. cbn [rbind]. eauto.
Qed.

Lemma handle_nick_inv s e : Inv s -> exists s', handle_nick s e = Ok s' /\ Inv s'.
Proof.
  intros I. unfold handle_nick. destruct (e_src e) as [src|]; [|eauto].
  destruct (e_params e); [eauto|]. apply rename_user_inv. exact I.
Qed.

(* ---- PART / KICK / QUIT ---- *)

Lemma delete_user_inv s chan nick : Inv s -> exists s', delete_user s chan nick = Ok s' /\ Inv s'.
Proof.
  intros I. destruct chan as [|b r].
  - destruct (delete_user_all_inv s nick I) as (s' & H & I' & _). eauto.
  - apply delete_user_one_inv; [discriminate|exact I].
Qed.

Lemma handle_part_inv cfg s e : Inv s -> exists s', handle_part cfg s e = Ok s' /\ Inv s'.
Proof.
  intros I. unfold handle_part. destruct (e_src e) as [src|]; [|eauto].
  destruct (e_params e) as [|cn ?]; [eauto|]. destruct cn as [|b r]; [eauto|].
  destruct (streqb _ _); [apply delete_channel_inv|apply delete_user_inv]; exact I.
Qed.

Lemma handle_kick_inv cfg s e : Inv s -> exists s', handle_kick cfg s e = Ok s' /\ Inv s'.
Proof.
  intros I. unfold handle_kick. destruct (e_params e) as [|cn [|nick ?]]; [eauto|eauto|].
  destruct (streqb _ _); [apply delete_channel_inv|apply delete_user_inv]; exact I.
Qed.

Lemma handle_quit_inv cfg s e : Inv s -> exists s', handle_quit cfg s e = Ok s' /\ Inv s'.
Proof.
  intros I. unfold handle_quit. destruct (e_src e) as [src|]; [|eauto].
  destruct (streqb _ _); [eauto|apply delete_user_inv; exact I].
Qed.

(* ---- JOIN ---- *)

Lemma handle_join_inv cfg s e : Inv s -> exists s' o, handle_join cfg s e = Ok (s', o) /\ Inv s'.
Proof.
  intros I. unfold handle_join. destruct (e_src e) as [src|]; [|eauto]. destruct (e_params e) as [|chan_name rest]; [eauto|].
  set (s1 := create_channel s chan_name). set (s2 := create_user s1 src).
  assert (I1 : Inv s1) by (apply create_channel_inv; exact I).
  pose proof (create_user_inv _ s1 src I1) as I2. fold s2 in I2.
  unfold lookup_channel, lookup_user.
  destruct (alookup (fold chan_name) (st_channels s2)) as [c|] eqn:Ec.
  2:{ exfalso. unfold s2 in Ec. rewrite create_user_same_channels in Ec. apply (create_channel_some s chan_name). exact Ec. }
  destruct (alookup (fold (s_name src)) (st_users s2)) as [uf|] eqn:Eu.
  2:{ exfalso. apply (create_user_some s1 src). exact Eu. }
  cbv zeta.
  match goal with |- context [channel_add_user c (u_nick ?U)] => set (u := U) end.
  assert (U0 : u_nick u = u_nick uf /\ u_chans u = u_chans uf) by (unfold u; destruct (_ && _); split; reflexivity).
  destruct U0 as [U0n U0c].
  match goal with |- context [aset (fold (s_name src)) ?U (st_users s2)] => set (u2 := U) end.
  set (c' := channel_add_user c (u_nick u)).
  assert (Hck : fold (c_name c) = fold chan_name) by apply (inv_ckey I2 _ _ Ec).
  assert (Huk : fold (u_nick u) = fold (s_name src)) by (rewrite U0n; apply (inv_ukey I2 _ _ Eu)).
  assert (U2 : u_nick u2 = u_nick uf /\ u_chans u2 = add_sorted (fold chan_name) (u_chans uf)).
  { rewrite <- Hck, <- U0n, <- U0c. unfold u2. destruct (e_account_tag e); (destruct rest as [|acct [|nm r2]]; [|destruct (streqb acct [42])..]);
      cbn [u_nick u_chans u_set_account u_set_name]; (split; [apply user_add_channel_nick|apply user_add_channel_chans]). }
  destruct U2 as [U2n U2c].
  assert (I3 : Inv (set_users (set_channels s2 (aset (fold chan_name) c' (st_channels s2))) (aset (fold (s_name src)) u2 (st_users s2)))).
  { eapply invx_weaken; [|eapply (link_inv _ s2 (fold chan_name) (fold (s_name src)) c uf c' u2 I2 Ec Eu)].
    - cbv beta. intros k [[[]|H1] H2]. contradiction.
    - unfold c'. rewrite channel_add_user_name. reflexivity.
    - unfold c'. rewrite channel_add_user_users, Huk. reflexivity.
    - rewrite U2n. reflexivity.
    - exact U2c. }
  clearbody u2 c'.
  destruct (streqb _ _); do 2 eexists; (split; [reflexivity|]); [|exact I3].
  eapply same_struct_inv; [apply same_set_ident_host|exact I3].
Qed.

(* ---- NAMES ---- *)

Definition inv_with_chan (kc : str) (s : state) : Prop := Inv s /\ alookup kc (st_channels s) <> None.

Lemma names_entry_inv kc s part : fold kc = kc -> inv_with_chan kc s -> inv_with_chan kc (names_entry kc s part).
Proof.
  intros Hkc [I Hex]. unfold names_entry. destruct (parse_user_prefix part []) as [[modes nick]|]; [|split; assumption].
  match goal with |- context [match ?X with Some _ => _ | None => s end] => destruct X as [src|] end; [|split; assumption].
  set (s1 := create_user s src). pose proof (create_user_inv _ s src I) as I1. fold s1 in I1.
  assert (Hch : st_channels s1 = st_channels s) by apply create_user_same_channels.
  unfold lookup_user.
  destruct (alookup kc (st_channels s1)) as [c|] eqn:Ec; [|exfalso; rewrite Hch in Ec; contradiction].
  destruct (alookup (fold (s_name src)) (st_users s1)) as [u|] eqn:Eu; [|exfalso; apply (create_user_some s src); exact Eu].
  assert (Hck : fold (c_name c) = kc) by apply (inv_ckey I1 _ _ Ec).
  match goal with |- context [aset (fold (s_name src)) ?U (st_users s1)] => set (u2 := U) end.
  set (c1 := channel_add_user c (fold (s_name src))).
  split; [|sproj; rewrite alookup_aset_eq; discriminate].
  eapply invx_weaken; [|eapply (link_inv _ s1 kc (fold (s_name src)) c u c1 u2 I1 Ec Eu)].
  - cbv beta. intros k [[[]|H1] H2]. contradiction.
  - unfold c1. rewrite channel_add_user_name. reflexivity.
  - unfold c1. rewrite channel_add_user_users, fold_idem. reflexivity.
  - unfold u2. cbn [u_nick u_set_perms]. rewrite user_add_channel_nick. reflexivity.
  - unfold u2. cbn [u_chans u_set_perms]. rewrite user_add_channel_chans, Hck. reflexivity.
Qed.

Lemma names_fold_inv kc : fold kc = kc -> forall l s, inv_with_chan kc s -> inv_with_chan kc (fold_left (names_entry kc) l s).
Proof.
  intros Hkc. induction l as [|p l IH]; intros s H; simpl; [exact H|]. apply IH. apply names_entry_inv; assumption.
Qed.

Lemma handle_names_inv s e : Inv s -> Inv (handle_names s e).
Proof.
  intros I. unfold handle_names. destruct (Nat.ltb _ _); [exact I|].
  unfold lookup_channel. destruct (alookup (fold (param e 2)) (st_channels s)) eqn:Ec; [|exact I].
  apply (names_fold_inv (fold (param e 2))); [apply fold_idem|]. split; [exact I|congruence].
Qed.

(* ---- handlers that keep the structural projections ---- *)

Lemma keeps_account a : keeps_uproj (fun u => u_set_account u a). Proof. intros u; split; reflexivity. Qed.

Lemma handle_tags_same s e : same_struct s (handle_tags s e).
Proof.
  unfold handle_tags. destruct (e_src e) as [src|]; [|apply same_struct_refl].
  destruct (e_account_tag e); [|apply same_struct_refl]. apply update_user_same. intros u; split; reflexivity.
Qed.

Lemma handle_connect_same s e : same_struct s (handle_connect s e).
Proof. unfold handle_connect. destruct (e_params e); [apply same_struct_refl|apply same_set_nick]. Qed.

Lemma handle_topic_same s e : same_struct s (handle_topic s e).
Proof.
  assert (G : forall name topic, same_struct s
    match lookup_channel s name with
    | None => s
    | Some c => set_channels s (aset (fold name) (c_set_topic c topic) (st_channels s))
    end).
  { intros name topic. unfold lookup_channel. destruct (alookup (fold name) (st_channels s)) as [c|] eqn:Ec; [|apply same_struct_refl].
    apply (set_channel_same s (fold name) c); [exact Ec|reflexivity|reflexivity]. }
  unfold handle_topic. destruct (e_params e) as [|a [|b [|c r]]]; try apply same_struct_refl; apply G.
Qed.

Lemma handle_who_same s e : same_struct s (handle_who s e).
Proof.
  unfold handle_who. destruct (cmd_is e "354").
  - destruct (negb _); [apply same_struct_refl|]. destruct (negb _); [apply same_struct_refl|].
    apply update_user_same. intros u; split; reflexivity.
  - destruct (Nat.ltb _ _); [apply same_struct_refl|]. apply update_user_same. intros u; split; reflexivity.
Qed.

Lemma handle_myinfo_same s e : same_struct s (handle_myinfo s e).
Proof. unfold handle_myinfo. destruct (Nat.ltb _ _); [apply same_struct_refl|apply same_set_opts]. Qed.

Lemma handle_isupport_same s e : same_struct s (handle_isupport s e).
Proof.
  unfold handle_isupport. destruct (negb _); [apply same_struct_refl|]. destruct (Nat.ltb _ _); [apply same_struct_refl|].
  match goal with |- context [set_opts s ?O] => set (s1 := set_opts s O) end.
  assert (H1 : same_struct s s1) by apply same_set_opts. clearbody s1.
  destruct (opt_int s1 k_LINELEN) as [t|]; cbv beta iota.
  - set (s2 := set_maxline s1 (t - 2)).
    assert (H2 : same_struct s s2) by (eapply same_struct_trans; [exact H1|apply same_set_maxline]). clearbody s2.
    destruct (_ <=? _)%Z; [exact H2|]. eapply same_struct_trans; [exact H2|apply same_set_maxprefix].
  - destruct (_ <=? _)%Z; [exact H1|]. eapply same_struct_trans; [exact H1|apply same_set_maxprefix].
Qed.

Lemma handle_motd_same s e : same_struct s (handle_motd s e).
Proof. unfold handle_motd. destruct (cmd_is e "375"); apply same_set_motd. Qed.

Lemma src_update_same s e f : keeps_uproj f -> same_struct s (src_update s e f).
Proof. intros Hf. unfold src_update. destruct (e_src e); [apply update_user_same; exact Hf|apply same_struct_refl]. Qed.

Lemma handle_chghost_same s e : same_struct s (handle_chghost s e).
Proof.
  unfold handle_chghost. destruct (e_params e) as [|a [|b [|c r]]]; try apply same_struct_refl.
  apply src_update_same. intros u; split; reflexivity.
Qed.
Lemma handle_away_same s e : same_struct s (handle_away s e).
Proof. unfold handle_away. apply src_update_same. intros u; split; reflexivity. Qed.
Lemma handle_account_same s e : same_struct s (handle_account s e).
Proof.
  unfold handle_account. destruct (e_params e) as [|a [|b r]]; try apply same_struct_refl.
  apply src_update_same. intros u; split; reflexivity.
Qed.

Lemma mode_user_perms_same cn s m : same_struct s (mode_user_perms cn s m).
Proof.
  unfold mode_user_perms. destruct (m_setting m); [apply same_struct_refl|].
  destruct (m_args m); [apply same_struct_refl|]. apply update_user_same. intros u; split; reflexivity.
Qed.
Lemma fold_mode_same cn ms : forall s, same_struct s (fold_left (mode_user_perms cn) ms s).
Proof.
  induction ms as [|m ms IH]; intros s; simpl; [apply same_struct_refl|].
  eapply same_struct_trans; [apply mode_user_perms_same|apply IH].
Qed.
Lemma handle_mode_same s e : same_struct s (handle_mode s e).
Proof.
  unfold handle_mode. match goal with |- context [match ?P with [] => _ | _ => _ end] => destruct P as [|target [|flags args]] end;
    try apply same_struct_refl.
  destruct (negb _); [apply same_struct_refl|]. unfold lookup_channel.
  destruct (alookup (fold target) (st_channels s)) as [c|] eqn:Ec; [|apply same_struct_refl].
  eapply same_struct_trans; [|apply fold_mode_same].
  apply (set_channel_same s (fold target) c); [exact Ec|reflexivity|reflexivity].
Qed.

(* ---- one event, and histories ---- *)

Theorem handle_inv cfg s e : Inv s -> exists s' o, handle cfg s e = Ok (s', o) /\ Inv s'.
Proof.
  intros I0. unfold handle. set (s1 := handle_tags s e).
  assert (I : Inv s1) by (eapply same_struct_inv; [apply handle_tags_same|exact I0]). clearbody s1. clear I0 s.
  cbv zeta.
  assert (P : forall s', same_struct s1 s' -> exists s'' o, Ok (s', @nil out) = Ok (s'', o) /\ Inv s'').
  { intros s' H. do 2 eexists. split; [reflexivity|]. eapply same_struct_inv; [exact H|exact I]. }
  assert (L : forall r : res state, (exists s', r = Ok s' /\ Inv s') ->
     exists s'' o, (s' <- r ;; Ok (s', @nil out)) = Ok (s'', o) /\ Inv s'').
  { intros r (s' & -> & I'). cbn [rbind]. eauto. }
  destruct (cmd_is e "001"); [apply P, handle_connect_same|].
  destruct (cmd_is e "PING"); [do 2 eexists; split; [reflexivity|exact I]|].
  destruct (cmd_is e "JOIN"); [apply handle_join_inv; exact I|].
  destruct (cmd_is e "PART"); [apply L, handle_part_inv; exact I|].
  destruct (cmd_is e "KICK"); [apply L, handle_kick_inv; exact I|].
  destruct (cmd_is e "QUIT"); [apply L, handle_quit_inv; exact I|].
  destruct (cmd_is e "NICK"); [apply L, handle_nick_inv; exact I|].
  destruct (cmd_is e "353"); [do 2 eexists; split; [reflexivity|apply handle_names_inv; exact I]|].
  destruct (cmd_is e "MODE" || cmd_is e "324"); [apply P, handle_mode_same|].
  destruct (cmd_is e "352" || cmd_is e "354"); [apply P, handle_who_same|].
  destruct (cmd_is e "TOPIC" || cmd_is e "332"); [apply P, handle_topic_same|].
  destruct (cmd_is e "004"); [apply P, handle_myinfo_same|].
  destruct (cmd_is e "005"); [apply P, handle_isupport_same|].
  destruct (cmd_is e "375" || cmd_is e "372"); [apply P, handle_motd_same|].
  destruct (cmd_is e "CHGHOST"); [apply P, handle_chghost_same|].
  destruct (cmd_is e "AWAY"); [apply P, handle_away_same|].
  destruct (cmd_is e "ACCOUNT"); [apply P, handle_account_same|].
  apply P, same_struct_refl.
Qed.

Theorem handle_no_panic cfg s e : Inv s -> handle cfg s e <> Panic.
Proof. intros I. destruct (handle_inv cfg s e I) as (s' & o & H & _). rewrite H. discriminate. Qed.

Theorem handle_keeps_inv cfg s e s' o : Inv s -> handle cfg s e = Ok (s', o) -> Inv s'.
Proof. intros I H. destruct (handle_inv cfg s e I) as (s2 & o2 & H2 & I2). rewrite H in H2. injection H2 as <- <-. exact I2. Qed.

Theorem run_inv cfg h : forall s, Inv s -> exists s' o, run cfg s h = Ok (s', o) /\ Inv s'.
Proof.
  induction h as [|e h IH]; intros s I; simpl; [eauto|].
  destruct (handle_inv cfg s e I) as (s1 & o1 & H1 & I1). rewrite H1.
  destruct (IH s1 I1) as (s2 & o2 & H2 & I2). rewrite H2. eauto.
Qed.

Theorem all_histories cfg h : exists s o, run cfg state_init h = Ok (s, o) /\ Inv s.
Proof. apply run_inv. exact inv_init. Qed.

(* ---- what Inv says, in the words of the property ---- *)

Definition structurally_consistent (s : state) : Prop :=
  (* a nick is listed in a channel iff that channel is listed for the user *)
  (forall kc c ku u, alookup kc (st_channels s) = Some c -> alookup ku (st_users s) = Some u ->
     (In ku (c_users c) <-> In kc (u_chans u))) /\
  (* every listed user and channel exists *)
  (forall kc c n, alookup kc (st_channels s) = Some c -> In n (c_users c) -> exists u, alookup n (st_users s) = Some u) /\
  (forall ku u cn, alookup ku (st_users s) = Some u -> In cn (u_chans u) -> exists c, alookup cn (st_channels s) = Some c) /\
  (* records are filed under their folded names; lists are sorted, duplicate-free and case-folded *)
  (forall kc c, alookup kc (st_channels s) = Some c ->
     fold (c_name c) = kc /\ ssorted (c_users c) /\ NoDup (c_users c) /\ Forall (fun n => fold n = n) (c_users c)) /\
  (* ... and no user without a channel is retained *)
  (forall ku u, alookup ku (st_users s) = Some u ->
     fold (u_nick u) = ku /\ ssorted (u_chans u) /\ NoDup (u_chans u) /\ Forall (fun n => fold n = n) (u_chans u) /\ u_chans u <> []).

Theorem inv_meaning s : Inv s <-> structurally_consistent s.
Proof.
  split.
  - intros I. split; [|split; [|split; [|split]]].
    + intros kc c ku u Hc Hu. split.
      * intros Hin. destruct (inv_cu I _ _ _ Hc Hin) as (u0 & Hu0 & Hk). congruence.
      * intros Hin. destruct (inv_uc I _ _ _ Hu Hin) as (c0 & Hc0 & Hk). congruence.
    + intros kc c n Hc Hn. destruct (inv_cu I _ _ _ Hc Hn) as (u & Hu & _). eauto.
    + intros ku u cn Hu Hn. destruct (inv_uc I _ _ _ Hu Hn) as (c & Hc & _). eauto.
    + intros kc c Hc. split; [apply (inv_ckey I _ _ Hc)|]. split; [apply (inv_cl I _ _ Hc)|].
      split; [apply ssorted_nodup, (inv_cl I _ _ Hc)|].
      apply Forall_forall. intros n Hn. apply (inv_users_folded _ s I _ _ _ Hc Hn).
    + intros ku u Hu. split; [apply (inv_ukey I _ _ Hu)|]. split; [apply (inv_ul I _ _ Hu)|].
      split; [apply ssorted_nodup, (inv_ul I _ _ Hu)|]. split.
      * apply Forall_forall. intros n Hn. apply (inv_chans_folded _ s I _ _ _ Hu Hn).
      * intros E. apply (inv_ul I _ _ Hu). exact E.
  - intros (M & EU & EC & CH & US). constructor.
    + intros k c H. apply (CH _ _ H).
    + intros k u H. apply (US _ _ H).
    + intros k c H. apply (CH _ _ H).
    + intros k u H. split; [apply (US _ _ H)|]. intros E. destruct (US _ _ H) as (_ & _ & _ & _ & Hne). contradiction.
    + intros kc c n Hc Hn. destruct (EU _ _ _ Hc Hn) as (u & Hu). exists u. split; [exact Hu|]. apply (M _ _ _ _ Hc Hu). exact Hn.
    + intros ku u cn Hu Hn. destruct (EC _ _ _ Hu Hn) as (c & Hc). exists c. split; [exact Hc|]. apply (M _ _ _ _ Hc Hu). exact Hn.
Qed.

(* ---- non-vacuity: a populated state reached by a concrete (partly hostile) history ---- *)

Definition ex_cfg := mkConfig (bs "me") (bs "user").
Definition ex_src (n : string) := Some (mkSource (bs n) (bs "u") (bs "h")).
Definition ex_history : list event := [
  mkEvent (ex_src "srv") None (bs "001") [bs "me"; bs "welcome"];
  mkEvent (ex_src "me") None (bs "JOIN") [bs "#Chan"];
  mkEvent (ex_src "srv") None (bs "353") [bs "me"; bs "="; bs "#chan"; bs "me @alice +bob"];
  mkEvent (ex_src "me") None (bs "JOIN") [bs "#c[1]"];
  mkEvent (ex_src "srv") None (bs "353") [bs "me"; bs "="; bs "#C{1}"; bs "me alice"];
  mkEvent (ex_src "alice") None (bs "NICK") [bs "BOB"];        (* a rename onto a tracked nick *)
  mkEvent (ex_src "carol") None (bs "JOIN") [bs "#chan"];
  mkEvent None None (bs "352") [];                               (* a bare RPL_WHOREPLY *)
  mkEvent (ex_src "carol") None (bs "PART") [bs "#CHAN"]
].

Example populated_state_inv : exists s o, run ex_cfg state_init ex_history = Ok (s, o) /\ Inv s /\
  List.map (fun kv => (fst kv, c_users (snd kv))) (st_channels s) =
    [(bs "#chan", [bs "bob"; bs "me"]); (bs "#c{1}", [bs "bob"; bs "me"])] /\
  List.map (fun kv => (fst kv, u_nick (snd kv), u_chans (snd kv))) (st_users s) =
    [(bs "bob", bs "BOB", [bs "#chan"; bs "#c{1}"]); (bs "me", bs "me", [bs "#chan"; bs "#c{1}"])].
Proof.
  destruct (all_histories ex_cfg ex_history) as (s & o & H & I).
  exists s, o. split; [exact H|]. split; [exact I|].
  vm_compute in H. injection H as <- <-. vm_compute. split; reflexivity.
Qed.

(* ---- the liveness half, as far as a sequential model can say it: in every state a PING is
   answered with the PONG of its last parameter, so in particular after every history ---- *)

Definition ping_event (src : option source) (tag : option str) (ps : list str) : event :=
  mkEvent src tag (bs "PING") ps.

Lemma ping_answered cfg s src tag ps :
  handle cfg s (ping_event src tag ps) = Ok (handle_tags s (ping_event src tag ps), [OutSend s_PONG [last ps []]]).
Proof. reflexivity. Qed.

Theorem ping_after_every_history cfg h src tag ps :
  exists s out s', run cfg state_init h = Ok (s, out) /\ Inv s /\
    handle cfg s (ping_event src tag ps) = Ok (s', [OutSend s_PONG [last ps []]]) /\ Inv s'.
Proof.
  destruct (all_histories cfg h) as (s & out & Hrun & I).
  exists s, out, (handle_tags s (ping_event src tag ps)). split; [exact Hrun|]. split; [exact I|].
  split; [apply ping_answered|]. eapply same_struct_inv; [apply handle_tags_same|exact I].
Qed.
