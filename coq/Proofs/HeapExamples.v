(* Non-vacuity of the C13 theorems and the refutation of isolation for the member
   getters (User.Channels / Channel.Users return the tracked objects). *)
Require Import Bytes AMap Names State Heap HeapLemmas HeapSpec HeapFrame HeapCopy HeapLive HeapHandlers HeapClient HeapIso HeapGetters HeapTheorems.
From Coq Require Import Lia.
Local Open Scope nat_scope.
Local Open Scope string_scope.

Definition ex_cfg : config := mkConfig (bs "me") (bs "user").
Definition ev (name cmd : string) (params : list string) : event :=
  mkEvent (Some (mkSource (bs name) (bs "u") (bs "h"))) None (bs cmd) (List.map bs params).

(* welcome, join #a, learn who is there *)
Definition ex_history : list event :=
  [ev "srv" "001" ["me"; "hi"]; ev "me" "JOIN" ["#a"]; ev "srv" "353" ["me"; "="; "#a"; "me @alice +bob"]].

Definition ex_world : world :=
  match run_h go_grow ex_cfg world_init ex_history with Ok w => w | Panic => world_init end.

Lemma ex_world_ok : run_h go_grow ex_cfg world_init ex_history = Ok ex_world.
Proof. vm_compute. reflexivity. Qed.

Fixpoint steps_of_events g cfg (l : list event) w K w' :
  run_h g cfg w l = Ok w' -> steps g cfg (w, K) (w', K).
Proof.
  destruct l as [|e l]; simpl; intros H.
  - injection H as <-. constructor.
  - destruct (handle_h g cfg w e) as [w1|] eqn:E; simpl in H; [|discriminate].
    eapply steps_cons; [exact (st_event g cfg w K e w1 E)|]. exact (steps_of_events g cfg l w1 K w' H).
Qed.

Lemma steps_trans g cfg x y z : steps g cfg x y -> steps g cfg y z -> steps g cfg x z.
Proof. induction 1; intros; [assumption|]. econstructor; eauto. Qed.

(* a snapshot of #a, taken in ex_world *)
Definition ex_snap : heap * option nat :=
  match lookup_channel_g ex_world (bs "#a") with Ok r => r | Panic => ([], None) end.
Definition ex_world1 : world := mkWorld (fst ex_snap) (w_st ex_world).
Definition ex_o : nat := match snd ex_snap with Some o => o | None => 0 end.

Lemma ex_snap_ok : lookup_channel_g ex_world (bs "#a") = Ok (w_heap ex_world1, Some ex_o).
Proof. vm_compute. reflexivity. Qed.

Lemma ex_reachable : steps go_grow ex_cfg (world_init, []) (ex_world1, [ex_o]).
Proof.
  eapply steps_trans; [exact (steps_of_events _ _ _ _ [] _ ex_world_ok)|].
  eapply steps_cons; [|apply steps_nil].
  exact (st_lookup_channel go_grow ex_cfg ex_world [] (bs "#a") _ _ ex_snap_ok).
Qed.

(* the hypotheses of the theorems are satisfiable by a non-trivial state: three tracked
   users, one channel, one snapshot held by the client *)
Example ex_isolated : Isolated ex_world1 [ex_o] /\
  length (hs_users (w_st ex_world1)) = 3 /\ length (hs_channels (w_st ex_world1)) = 1 /\
  option_map vc_users (chan_value (w_heap ex_world1) ex_o) = Some [bs "alice"; bs "bob"; bs "me"].
Proof. split; [apply (reachable_isolated _ _ _ _ ex_reachable)|]. vm_compute. auto. Qed.

(* a later PART shifts the tracked UserList IN PLACE (same backing array) -- and the
   snapshot still shows the three users *)
Definition ex_part : list event := [ev "alice" "PART" ["#a"]].
Definition ex_world2 : world :=
  match run_h go_grow ex_cfg ex_world1 ex_part with Ok w => w | Panic => world_init end.
Example ex_live_write :
  run_h go_grow ex_cfg ex_world1 ex_part = Ok ex_world2 /\
  (* the tracked channel now lists two users, in the same array as before *)
  List.map (fun kv => option_map vc_users (snd kv)) (live_channels_value ex_world2) = [Some [bs "bob"; bs "me"]] /\
  List.map (fun kv => option_map (fun c => sl_arr (hc_users c)) (opt_of (get_chan (w_heap ex_world2) (snd kv)))) (hs_channels (w_st ex_world2)) =
  List.map (fun kv => option_map (fun c => sl_arr (hc_users c)) (opt_of (get_chan (w_heap ex_world1) (snd kv)))) (hs_channels (w_st ex_world1)) /\
  option_map vc_users (chan_value (w_heap ex_world2) ex_o) = Some [bs "alice"; bs "bob"; bs "me"].
Proof. vm_compute. auto. Qed.

(* a client write through the snapshot really changes the snapshot -- and not the tracked state *)
Example ex_client_write :
  let h' := client_op go_grow (w_heap ex_world1) (OpSetElem ex_o 0 (bs "zzz")) in
  option_map vc_users (chan_value h' ex_o) = Some [bs "zzz"; bs "bob"; bs "me"] /\
  live_channels_value (mkWorld h' (w_st ex_world1)) = live_channels_value ex_world1 /\
  client_step (w_heap ex_world1) [ex_o] h' [ex_o].
Proof.
  split; [vm_compute; reflexivity|]. split; [vm_compute; reflexivity|].
  apply client_op_is_client_step; [apply (iso_bound _ _ (proj1 ex_isolated))|].
  intros x [<-|[]]. left. reflexivity.
Qed.

(* ---- the member getters are NOT isolated ----
   User.Channels(c) on a snapshot of alice returns the tracked *Channel of #a: the object
   is reachable from the tracked state, and writing its Topic changes what the client
   tracks. *)
Definition ex_usnap : heap * option nat :=
  match lookup_user_g ex_world (bs "alice") with Ok r => r | Panic => ([], None) end.
Definition ex_world3 : world := mkWorld (fst ex_usnap) (w_st ex_world).
Definition ex_u : nat := match snd ex_usnap with Some o => o | None => 0 end.

Theorem member_getters_refuted :
  exists w K u l c,
    steps go_grow ex_cfg (world_init, []) (w, K) /\ In u K /\
    user_channels_g w u = Ok l /\ In c l /\
    In c (live_objs (w_heap w) (w_st w)) /\
    live_channels_value (mkWorld (client_op go_grow (w_heap w) (OpSetField c FCTopic (bs "defaced"))) (w_st w))
      <> live_channels_value w.
Proof.
  exists ex_world3, [ex_u], ex_u.
  assert (Hl : lookup_user_g ex_world (bs "alice") = Ok (w_heap ex_world3, Some ex_u)) by (vm_compute; reflexivity).
  assert (R : steps go_grow ex_cfg (world_init, []) (ex_world3, [ex_u])).
  { eapply steps_trans; [exact (steps_of_events _ _ _ _ [] _ ex_world_ok)|].
    eapply steps_cons; [|apply steps_nil].
    exact (st_lookup_user go_grow ex_cfg ex_world [] (bs "alice") _ _ Hl). }
  destruct (user_channels_g ex_world3 ex_u) as [l|] eqn:El; [|vm_compute in El; discriminate].
  assert (El' := El). vm_compute in El'. injection El' as <-.
  eexists _, _. split; [exact R|]. split; [left; reflexivity|]. split; [exact El|].
  split; [left; reflexivity|]. split; [vm_compute; tauto|].
  vm_compute. intros H. discriminate H.
Qed.

(* ---- sensitivity: the Copy before commit 620d5e0 (NOT the current code) ----
   `*nu = *u; nu.Perms = u.Perms.Copy(); copy(nu.ChannelList, u.ChannelList)`: source and
   destination of the copy are the same array, nothing is allocated for the list. The
   disjointness theorem is false for it: the snapshot reaches the tracked array. *)
Definition user_copy_old (h : heap) (o : nat) : res (heap * nat) :=
  u <- get_user h o ;;
  pc <- userperms_copy h (hu_perms u) ;;
  let '(h1, p') := pc in
  Ok (halloc h1 (CUser (hu_set_perms u (Some p')))).

Definition ex_old : heap * nat :=
  match user_copy_old (w_heap ex_world) 10 with Ok r => r | Panic => ([], 0) end.

Example old_copy_not_disjoint :
  exists uid h' o' x,
    lookup_user_h ex_world (bs "alice") = Some uid /\ user_copy_old (w_heap ex_world) uid = Ok (h', o') /\
    In x (reach h' o') /\ In x (live_objs h' (w_st ex_world)).
Proof.
  exists 10, (fst ex_old), (snd ex_old), 11.
  split; [vm_compute; reflexivity|]. split; [vm_compute; reflexivity|]. split; vm_compute; tauto.
Qed.
