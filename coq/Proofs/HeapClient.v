(* The client side: every executable client operation of Model/Heap.v (what the
   correspondence suites do with returned objects) keeps the agent invariant Fr with
   roots = the handles the client holds; so it is an instance of HeapSpec.client_step. *)
Require Import Bytes AMap Names State Heap HeapLemmas HeapSpec HeapFrame HeapCopy HeapLive.
From Coq Require Import Lia.
Local Open Scope nat_scope.

Definition op_handles (op : cop) : list nat :=
  match op with
  | OpSetField o _ _ | OpSetElem o _ _ | OpAppend o _ | OpSort o | OpDelete o _ | OpTrunc o _
  | OpNilPerms o | OpApplyModes o _ _ | OpSlotNil o _ | OpSlotSwap o _ _ => [o]
  | OpAlias o o2 => [o; o2]
  end.

Lemma in_flat_map_upd {A B} (f : A -> list B) l i x p :
  In p (flat_map f (upd l i x)) -> In p (f x) \/ In p (flat_map f l).
Proof.
  revert i; induction l as [|y l IH]; intros [|i]; simpl; auto.
  - rewrite !in_app_iff. tauto.
  - rewrite !in_app_iff. intros [H|H]; [tauto|]. destruct (IH _ H); tauto.
Qed.
Lemma nth_error_flat_map {A B} (f : A -> list B) l i x p : nth_error l i = Some x -> In p (f x) -> In p (flat_map f l).
Proof. intros H Hp. apply in_flat_map. exists x. split; [eapply nth_error_In; eauto|exact Hp]. Qed.

Section Client.
  Variables (n0 : nat) (L0 : list nat) (h0 : heap) (K : list nat).
  Notation FR := (Fr n0 L0 h0).
  Notation OK := (okp n0 L0).
  Notation STP := (stp n0 L0 h0 K).

  Lemma list_of_ok h o s : FR h K -> In o K -> list_of h o = Some s -> OK h o /\ OK h (sl_arr s).
  Proof.
    intros F Ho H. split; [eapply Fr_root; eauto|]. unfold list_of in H.
    destruct (hget h o) as [[| | |u|c|pl]|] eqn:E; try discriminate; injection H as <-;
      (eapply Fr_ptr; [exact F|exact Ho|exact E|simpl; auto]).
  Qed.

  Lemma set_list_fr h o s : FR h K -> In o K -> OK h (sl_arr s) -> STP h (set_list h o s).
  Proof.
    intros F Ho Os. unfold set_list. destruct (hget h o) as [[| | |u|c|pl]|] eqn:E; try (apply stp_refl; exact F).
    - apply stp_hset; [exact F|eapply Fr_root; eauto|]. simpl. intros p [<-|Hp]; [exact Os|].
      eapply Fr_ptr; [exact F|exact Ho|exact E|]. simpl. right. exact Hp.
    - apply stp_hset; [exact F|eapply Fr_root; eauto|]. simpl. intros p [<-|[<-|[]]]; [exact Os|].
      eapply Fr_ptr; [exact F|exact Ho|exact E|]. simpl. auto.
  Qed.

  Lemma client_op_fr g h op : FR h K -> incl (op_handles op) K -> STP h (client_op g h op).
  Proof.
    intros F I. destruct op as [o f v|o i v|o v|o|o i|o k|o o2|o|o flags args|o i|o i j]; simpl in I;
      assert (Ho : In o K) by (apply I; left; reflexivity); unfold client_op.
    - (* field *)
      destruct (hget h o) as [[| | |u|c|pl]|] eqn:E; try (apply stp_refl; exact F);
        destruct f; try (apply stp_refl; exact F);
        (split; [eapply Fr_hset_same_ptrs; [exact F|eapply Fr_root; eauto|exact E|reflexivity]|rewrite hset_length; lia]).
    - (* element *)
      destruct (list_of h o) as [s|] eqn:El; [|apply stp_refl; exact F].
      destruct (Nat.ltb i (sl_len s)); [|apply stp_refl; exact F].
      destruct (get_strs h (sl_arr s)) as [a|] eqn:Ea; [|apply stp_refl; exact F].
      apply stp_hset; [exact F|apply (list_of_ok _ _ _ F Ho El)|simpl; contradiction].
    - (* append *)
      destruct (list_of h o) as [s|] eqn:El; [|apply stp_refl; exact F].
      destruct (sl_append g h s v) as [[h1 s']|] eqn:Ea; [|apply stp_refl; exact F].
      destruct (sl_append_fr _ _ _ _ _ _ _ _ _ _ F (proj2 (list_of_ok _ _ _ F Ho El)) Ea) as ((F1 & L1) & Os').
      eapply stp_trans; [split; [exact F1|exact L1]|apply set_list_fr; assumption].
    - (* sort *)
      destruct (list_of h o) as [s|] eqn:El; [|apply stp_refl; exact F].
      destruct (sl_get h s) as [l|]; [|apply stp_refl; exact F].
      destruct (sl_store h s (sort_strs l)) as [[h1 s']|] eqn:Es; [|apply stp_refl; exact F].
      apply (sl_store_fr _ _ _ _ _ _ _ _ _ F (proj2 (list_of_ok _ _ _ F Ho El)) Es).
    - (* delete *)
      destruct (list_of h o) as [s|] eqn:El; [|apply stp_refl; exact F].
      destruct (Nat.ltb i (sl_len s)); [|apply stp_refl; exact F].
      destruct (sl_get h s) as [l|]; [|apply stp_refl; exact F].
      destruct (sl_store h s (remove_nth i l)) as [[h1 s']|] eqn:Es; [|apply stp_refl; exact F].
      pose proof (list_of_ok _ _ _ F Ho El) as [_ Oa].
      destruct (sl_store_fr _ _ _ _ _ _ _ _ _ F Oa Es) as ((F1 & L1) & E & Len).
      eapply stp_trans; [split; [exact F1|exact L1]|apply set_list_fr; [exact F1|exact Ho|]].
      rewrite E. eapply okp_mono; eauto.
    - (* truncate *)
      destruct (list_of h o) as [s|] eqn:El; [|apply stp_refl; exact F].
      destruct (Nat.leb k (sl_len s)); [|apply stp_refl; exact F].
      apply set_list_fr; [exact F|exact Ho|]. simpl. apply (list_of_ok _ _ _ F Ho El).
    - (* alias *)
      assert (Ho2 : In o2 K) by (apply I; right; left; reflexivity).
      destruct (hget h o) as [[| | |u|c|pl]|] eqn:E; try (apply stp_refl; exact F);
        destruct (hget h o2) as [[| | |u2|c2|pl]|] eqn:E2; try (apply stp_refl; exact F).
      + apply stp_hset; [exact F|eapply Fr_root; eauto|]. simpl. intros p [<-|Hp].
        * eapply Fr_ptr; [exact F|exact Ho2|exact E2|simpl; auto].
        * eapply Fr_ptr; [exact F|exact Ho2|exact E2|simpl; right; exact Hp].
      + apply stp_hset; [exact F|eapply Fr_root; eauto|]. simpl. intros p [<-|[<-|[]]];
          (eapply Fr_ptr; [exact F|exact Ho2|exact E2|simpl; auto]).
    - (* Perms = nil *)
      destruct (hget h o) as [[| | |u|c|pl]|] eqn:E; try (apply stp_refl; exact F).
      apply stp_hset; [exact F|eapply Fr_root; eauto|]. simpl. intros p [<-|[]].
      eapply Fr_ptr; [exact F|exact Ho|exact E|simpl; auto].
    - (* Modes.Apply *)
      destruct (hget h o) as [[| | |u|c|pl]|] eqn:E; try (apply stp_refl; exact F).
      destruct (cmodes_apply h (hc_modes c) _) as [[h1 m']|] eqn:Ea; [|apply stp_refl; exact F].
      destruct (cmodes_apply_fr _ _ _ _ _ _ _ _ _ F Ea) as ((F1 & L1) & Om).
      eapply stp_trans; [split; [exact F1|exact L1]|].
      apply stp_hset; [exact F1|eapply okp_mono; [exact (Fr_root _ _ _ _ _ _ F Ho)|exact L1]|].
      simpl. intros p [<-|[<-|[]]]; [|exact Om].
      eapply okp_mono; [eapply Fr_ptr; [exact F|exact Ho|exact E|simpl; auto]|exact L1].
    - (* listing[i] = nil *)
      destruct (hget h o) as [[| | |u|c|pl]|] eqn:E; try (apply stp_refl; exact F).
      destruct (Nat.ltb i (length pl)); [|apply stp_refl; exact F].
      apply stp_hset; [exact F|eapply Fr_root; eauto|]. cbn [ptrs]. intros p Hp.
      apply in_flat_map_upd in Hp. destruct Hp as [[]|Hp]. eapply Fr_ptr; [exact F|exact Ho|exact E|exact Hp].
    - (* swap two slots *)
      destruct (hget h o) as [[| | |u|c|pl]|] eqn:E; try (apply stp_refl; exact F).
      destruct (nth_error pl i) as [x|] eqn:Ei; [|apply stp_refl; exact F].
      destruct (nth_error pl j) as [y|] eqn:Ej; [|apply stp_refl; exact F].
      apply stp_hset; [exact F|eapply Fr_root; eauto|]. cbn [ptrs]. intros p Hp.
      eapply Fr_ptr; [exact F|exact Ho|exact E|]. cbn [ptrs].
      apply in_flat_map_upd in Hp. destruct Hp as [Hp|Hp]; [exact (nth_error_flat_map _ _ _ _ _ Ei Hp)|].
      apply in_flat_map_upd in Hp. destruct Hp as [Hp|Hp]; [exact (nth_error_flat_map _ _ _ _ _ Ej Hp)|exact Hp].
  Qed.
End Client.

(* hence: a model client operation on handles it holds is a step a memory-safe client can take *)
Theorem client_op_is_client_step g h K op :
  bounded h (creach h K) -> incl (op_handles op) K -> client_step h K (client_op g h op) K.
Proof.
  intros B I. pose proof (Fr_init h K B) as F0.
  destruct (client_op_fr _ _ _ _ g h op F0 I) as (F & L).
  constructor.
  - exact L.
  - intros o Lo No. apply (fr_frame _ _ _ _ _ F); assumption.
  - intros o Ho. destruct (fr_reach _ _ _ _ _ F o Ho) as [[A|A] _]; auto.
  - intros o Ho. apply (fr_reach _ _ _ _ _ F o Ho).
Qed.
