(* What the reaction writes, seen as bytes on the socket (Model/React.v): every written line
   is CR/LF-free valid UTF-8 (C03), parses back to an event with one of the seven commands
   the reaction uses, a PING is answered by exactly one PONG with the same token (C17), and
   a NOTICE the reaction sends respects the line limit (C11). *)
Require Import Bytes Utf8 AMap WireOut GoUpper Tags Event SendPath WireLines
  C03Utf8 C03Proofs C03Command C03Total C03Helpers.
Require Import React ReactProofs.
Require CapLib Names State ClientStep Ctcp Sasl Cap StsState Split PingNick.
Require StateInv StateHandlers ClientStepProofs SplitProofs SplitContent CtcpProofs CtcpSpec PingNickWire.
From Coq Require Import Lia ZifyBool ZifyN ZifyNat.

Local Open Scope N_scope.

(* ---- the commands of the reaction ------------------------------------------------------- *)

Definition reaction_cmds : list str :=
  [State.s_WHO; State.s_MODE; State.s_PONG; PingNick.s_NICK; Cap.s_CAP; Cap.s_AUTHENTICATE; Ctcp.NOTICE].

Lemma reaction_cmd_facts : forall k, In k reaction_cmds ->
  single_token (cleaned k) /\ cleaned k = k /\ go_to_upper k = k /\ (2 <= length k)%nat.
Proof.
  intros k H. unfold reaction_cmds in H.
  repeat (destruct H as [<-|H];
          [split; [apply single_token_b_ok; vm_compute; reflexivity|];
           split; [vm_compute; reflexivity|];
           split; [vm_compute; reflexivity|cbn; lia]|]).
  destruct H.
Qed.

(* a source-less, tag-less event with one of these commands: its line parses back to that
   command, whatever the parameters are (the core of C03_helpers, for the reaction's commands) *)
Lemma plain_cmd_parses : forall e,
  we_tags e = None -> we_src e = None -> In (we_cmd e) reaction_cmds ->
  exists e', parse_event (event_bytes e) = Ok (Some e') /\ we_cmd e' = we_cmd e.
Proof.
  intros e Tg Sr Hk.
  destruct (reaction_cmd_facts _ Hk) as (Tk & Clk & Uk & Lk).
  destruct (command_of_bytes_total e) as (e' & P & C).
  - exact Tk.
  - left. rewrite Tg. reflexivity.
  - rewrite Sr. exact I.
  - destruct (event_bytes_sections e) as (tb & sb & p & E & _ & Htb & Hsb).
    rewrite Tg in Htb. rewrite Sr in Hsb. cbn [option_map] in Hsb. subst sb.
    destruct Htb as [[-> _]|(_ & Hne & _)]; [|exfalso; apply Hne; reflexivity].
    rewrite E. cbn [tag_sec src_sec app]. rewrite app_length.
    rewrite <- cleaned_clean, Clk. lia.
  - exists e'. split; [exact P|]. rewrite C, Clk. exact Uk.
Qed.

(* ---- which events the handlers hand to Send / write --------------------------------------- *)

(* the tracked-state handlers: WHO / MODE (handleJOIN) and PONG (handlePING) only *)
Definition state_out_ok (o : State.out) : Prop :=
  match o with State.OutSend c _ => c = State.s_WHO \/ c = State.s_MODE \/ c = State.s_PONG end.

Lemma handle_join_outs cfg s e s' outs :
  State.handle_join cfg s e = Ok (s', outs) -> Forall state_out_ok outs.
Proof.
  unfold State.handle_join. intros H.
  destruct (State.e_src e) as [src|]; [|injection H as _ <-; constructor].
  destruct (State.e_params e) as [|ch rest]; [injection H as _ <-; constructor|].
  cbv zeta in H.
  destruct (State.lookup_channel _ ch) as [c|]; [|discriminate].
  destruct (State.lookup_user _ (State.s_name src)) as [u|] eqn:Hu in H; [|discriminate].
  match type of H with (if ?b then _ else _) = _ => destruct b end; injection H as _ <-.
  - constructor; [left; reflexivity|]. constructor; [right; left; reflexivity|constructor].
  - constructor; [left; reflexivity|constructor].
Qed.

Lemma handle_outs cfg s e s' outs : State.handle cfg s e = Ok (s', outs) -> Forall state_out_ok outs.
Proof.
  intros H. unfold State.handle in H. cbv zeta in H.
  repeat match type of H with
         | (if ?b then _ else _) = _ => destruct b
         end;
    try (injection H as _ <-; constructor; fail);
    try (match type of H with rbind ?r _ = _ => destruct r end; cbn [rbind] in H;
         [injection H as _ <-; constructor|discriminate]).
  - injection H as _ <-. constructor; [right; right; reflexivity|constructor].
  - exact (handle_join_outs _ _ _ _ _ H).
Qed.

(* handleSASL / handleSASLError: CAP END or AUTHENTICATE ... *)
Definition sasl_out_ok (o : Sasl.output) : Prop :=
  match o with
  | Sasl.Write ev => (Sasl.ev_cmd ev = Cap.s_CAP \/ Sasl.ev_cmd ev = Cap.s_AUTHENTICATE)
  | Sasl.InjectError _ => True
  end.

Lemma chunk_event_ok c : sasl_out_ok (Sasl.Write (Sasl.chunk_event c)).
Proof. destruct c; right; reflexivity. Qed.

Lemma sasl_stage_outs ccfg e o : ClientStep.sasl_stage ccfg e = Ok o -> Forall sasl_out_ok o.
Proof.
  unfold ClientStep.sasl_stage. intros H.
  destruct (ClientStep.is_sasl_cmd e).
  - unfold Sasl.handle_sasl in H.
    match type of H with (if ?b then _ else _) = _ => destruct b end.
    { injection H as <-. constructor; [left; reflexivity|constructor]. }
    destruct (ClientStep.cc_sasl ccfg) as [m|]; [|injection H as <-; constructor].
    destruct (Sasl.mech_encode m _) as [|a auth]. { injection H as <-. constructor; [exact I|constructor]. }
    destruct (Sasl.sasl_chunks (a :: auth)) as [cs|]; [|discriminate]. cbn [rbind] in H. injection H as <-.
    induction cs as [|c cs IH]; cbn [List.map]; constructor; [apply chunk_event_ok|exact IH].
  - destruct (ClientStep.is_sasl_error_cmd e); injection H as <-; [|constructor].
    unfold Sasl.handle_sasl_error. destruct (ClientStep.cc_sasl ccfg).
    + constructor; [exact I|constructor].
    + constructor; [left; reflexivity|constructor].
Qed.

(* handleCAP: CAP REQ / CAP END / AUTHENTICATE <mechanism> *)
Definition cap_out_ok (o : Cap.cap_out) : Prop :=
  match o with
  | Cap.Write c _ => c = Cap.s_CAP \/ c = Cap.s_AUTHENTICATE
  | _ => True
  end.

Lemma cap_stage_outs ccfg st e : Forall cap_out_ok (snd (ClientStep.cap_stage ccfg st e)).
Proof.
  unfold ClientStep.cap_stage. destruct (State.cmd_is e "CAP"); [|constructor].
  unfold Cap.handle_cap. cbv zeta.
  repeat match goal with
         | |- context [if ?b then _ else _] => destruct b
         | |- context [match CapLib.aget ?k ?m with _ => _ end] => destruct (CapLib.aget k m)
         | |- context [match Cap.c_sasl ?c with _ => _ end] => destruct (Cap.c_sasl c)
         end; cbn [snd app];
    repeat (constructor; try (left; reflexivity); try (right; reflexivity); try exact I).
Qed.

(* the CTCP stage with the default repliers: source-less NOTICEs (C14_replies) *)
Definition ctcp_out_ok (o : Ctcp.event) : Prop :=
  Ctcp.ev_command o = Ctcp.NOTICE /\ Ctcp.ev_source o = None /\ Ctcp.ev_params o <> [].

Lemma ctcp_stage_outs v e o : Ctcp.connected v = true ->
  Ctcp.ctcp_stage (Ctcp.default_table v) e = Ok o -> Forall ctcp_out_ok o.
Proof.
  intros Hc H. destruct (CtcpProofs.stage_discipline v e o Hc H) as (_ & Hd).
  apply Forall_forall. intros x Hx. destruct (Hd x Hx) as (_ & c & name & _ & _ & _ & _ & Ha).
  destruct Ha as (A & B & cmd & text & _ & Ep & _). split; [exact A|split; [exact B|]]. rewrite Ep. discriminate.
Qed.

(* ---- everything the reaction hands to Send / write is a plain event --------------------------- *)

Definition wout_event (o : wout) : wevent := match o with WSend e => e | WWrite e => e end.

(* PRIVMSG / NOTICE never go through Client.write, and those handed to Client.Send have parameters *)
Definition fit_ready (o : wout) : Prop :=
  match o with
  | WWrite e => Split.is_msg_cmd (we_cmd e) = false
  | WSend e => Split.is_msg_cmd (we_cmd e) = true -> we_params e <> []
  end.

Definition plain_out (o : wout) : Prop :=
  we_tags (wout_event o) = None /\ we_src (wout_event o) = None /\ In (we_cmd (wout_event o)) reaction_cmds /\
  fit_ready o.

Ltac in_cmds := unfold reaction_cmds; cbn [In]; tauto.

Lemma out_of_state_plain o : state_out_ok o -> plain_out (out_of_state o).
Proof.
  destruct o as [c ps]. cbn [state_out_ok out_of_state]. intros H.
  destruct (streqb c State.s_PONG); (split; [reflexivity|split; [reflexivity|]]);
    cbn [wout_event plain_wevent we_cmd fit_ready]; destruct H as [-> | [-> | ->]];
    (split; [in_cmds|try reflexivity; intros K; discriminate K]).
Qed.

Lemma outs_of_plain o :
  match o with
  | ClientStep.CSend x => state_out_ok x
  | ClientStep.CSasl x => sasl_out_ok x
  | ClientStep.CCap x => cap_out_ok x
  | ClientStep.CCtcp x => ctcp_out_ok x
  end -> Forall plain_out (outs_of o).
Proof.
  destruct o as [x|x|x|x]; cbn [outs_of]; intros H.
  - constructor; [apply out_of_state_plain; exact H|constructor].
  - destruct x as [ev|t]; [|constructor]. constructor; [|constructor].
    split; [reflexivity|split; [reflexivity|]]. cbn [wout_event plain_wevent we_cmd fit_ready].
    destruct H as [-> | ->]; (split; [in_cmds|reflexivity]).
  - destruct x as [c ps|v|]; try constructor; [|constructor].
    split; [reflexivity|split; [reflexivity|]]. cbn [wout_event plain_wevent we_cmd fit_ready].
    destruct H as [-> | ->]; (split; [in_cmds|reflexivity]).
  - destruct H as (Hc & Hs & Hp). constructor; [|constructor].
    split; [reflexivity|]. cbn [wout_event we_src we_cmd we_params fit_ready]. rewrite Hs, Hc.
    split; [reflexivity|split; [in_cmds|intros _; exact Hp]].
Qed.

Lemma Forall_flat_map {A B} (P : B -> Prop) (f : A -> list B) l :
  Forall (fun a => Forall P (f a)) l -> Forall P (flat_map f l).
Proof.
  induction 1 as [|a l Ha _ IH]; cbn [flat_map]; [constructor|].
  apply Forall_app. split; assumption.
Qed.

Lemma Forall_map_in {A B} (P : B -> Prop) (f : A -> B) l : Forall (fun a => P (f a)) l -> Forall P (List.map f l).
Proof. induction 1; cbn [List.map]; constructor; assumption. Qed.

Lemma client_step_outs ccfg cs e cs' couts : Ctcp.connected (ClientStep.cc_env ccfg) = true ->
  ClientStep.client_step ccfg cs e = Ok (cs', couts) -> Forall plain_out (flat_map outs_of couts).
Proof.
  intros Hc H. unfold ClientStep.client_step in H.
  destruct (State.handle _ _ e) as [[s' o1]|] eqn:H1; [|discriminate]. cbn [rbind] in H.
  destruct (ClientStep.sasl_stage ccfg e) as [o2|] eqn:H2; [|discriminate]. cbn [rbind] in H.
  destruct (Ctcp.ctcp_stage _ _) as [o4|] eqn:H4; [|discriminate]. cbn [rbind] in H.
  injection H as _ <-. cbn [snd].
  apply Forall_flat_map. repeat (apply Forall_app; split); apply Forall_map_in.
  - eapply Forall_impl; [|exact (handle_outs _ _ _ _ _ H1)]. intros a Ha. exact (outs_of_plain (ClientStep.CSend a) Ha).
  - eapply Forall_impl; [|exact (sasl_stage_outs _ _ _ H2)]. intros a Ha. exact (outs_of_plain (ClientStep.CSasl a) Ha).
  - eapply Forall_impl; [|exact (cap_stage_outs ccfg (ClientStep.cs_cap cs) e)]. intros a Ha. exact (outs_of_plain (ClientStep.CCap a) Ha).
  - eapply Forall_impl; [|exact (ctcp_stage_outs _ _ _ Hc H4)]. intros a Ha. exact (outs_of_plain (ClientStep.CCtcp a) Ha).
Qed.

Lemma collide_stage_outs cfg s e nouts : collide_stage cfg s e = Ok nouts ->
  Forall plain_out (List.map out_of_nick nouts).
Proof.
  unfold collide_stage. destruct (PingNick.is_collision_cmd _); [|intros H; injection H as <-; constructor].
  unfold PingNick.nick_collision. destruct (PingNick.pc_collide _) as [f|].
  - destruct (f _) as [|a n]; intros H; injection H as <-; [constructor|].
    constructor; [|constructor]. split; [reflexivity|split; [reflexivity|]].
    split; [cbn; in_cmds|intros K; discriminate K].
  - intros H; injection H as <-. constructor; [|constructor].
    split; [reflexivity|split; [reflexivity|]]. split; [cbn; in_cmds|intros K; discriminate K].
Qed.

(* ---- inversion of one reaction ------------------------------------------------------------------ *)

Lemma react_step_inv cfg rs line rs' outs : react cfg rs line = RStep rs' outs ->
  (rs_closed rs = true /\ rs' = rs /\ outs = []) \/
  (rs_closed rs = false /\
   exists w cs' couts nouts,
     parse_event line = Ok (Some w) /\
     ClientStep.client_step (rc_client cfg) (rs_client rs) (to_state_event w) = Ok (cs', couts) /\
     collide_stage cfg (ClientStep.cs_state (rs_client rs)) (to_state_event w) = Ok nouts /\
     emit_all (message_tags_on (Cap.st_enabled (ClientStep.cs_cap cs')))
              (Split.max_event_length (ClientStep.cs_state cs')) (reaction_outs couts nouts) = Ok outs /\
     rs' = mkRState cs' (ClientStep.disconnects (to_state_event w) couts)).
Proof.
  unfold react. destruct (rs_closed rs) eqn:Hcl; intros H.
  - left. injection H as <- <-. auto.
  - right. split; [reflexivity|].
    destruct (parse_event line) as [[w|]|]; try discriminate. unfold react_event in H.
    destruct (ClientStep.client_step _ _ _) as [[cs' couts]|] eqn:H1; [|discriminate].
    destruct (collide_stage _ _ _) as [nouts|] eqn:H2; [|discriminate].
    destruct (emit_all _ _ _) as [lines|] eqn:H3; [|discriminate].
    injection H as <- <-. exists w, cs', couts, nouts. auto.
Qed.

(* ---- the send path -------------------------------------------------------------------------------- *)

Lemma emit_all_forall (P : wout -> str -> Prop) mt max :
  (forall o ls, emit mt max o = Ok ls -> Forall (P o) ls) ->
  forall l out, emit_all mt max l = Ok out -> Forall (fun x => exists o, In o l /\ P o x) out.
Proof.
  intros HP. induction l as [|o r IH]; cbn [emit_all]; intros out H.
  - injection H as <-. constructor.
  - destruct (emit mt max o) as [a|] eqn:Ha; [|discriminate]. cbn [rbind] in H.
    destruct (emit_all mt max r) as [b|] eqn:Hb; [|discriminate]. cbn [rbind] in H. injection H as <-.
    apply Forall_app. split.
    + eapply Forall_impl; [|exact (HP o a Ha)]. intros x Hx. exists o. split; [left; reflexivity|exact Hx].
    + eapply Forall_impl; [|exact (IH b eq_refl)]. intros x (o' & Hin & Hx). exists o'. split; [right; exact Hin|exact Hx].
Qed.

(* Event.split keeps the command *)
Lemma split_piece_cmd e max ps : Split.event_split e max = Ok ps ->
  Forall (fun p => Split.se_command p = Split.se_command e) ps.
Proof.
  intros H. destruct (SplitProofs.event_split_shape e max ps H) as [->|(_ & _ & t & wr & w & pcs & _ & _ & Hf & _)].
  - constructor; [reflexivity|constructor].
  - eapply Forall_impl; [|exact Hf]. intros p Hp. exact (proj1 Hp).
Qed.

(* every written line is what sendLoop writes for an event with the tags, source and command
   of the event handed to Send / write *)
Definition line_of (mt : bool) (o : wout) (l : str) : Prop :=
  exists e1, l = wire mt e1 /\ we_tags e1 = we_tags (wout_event o) /\
             we_src e1 = we_src (wout_event o) /\ we_cmd e1 = we_cmd (wout_event o).

Lemma emit_line_of mt max o ls : emit mt max o = Ok ls -> Forall (line_of mt o) ls.
Proof.
  destruct o as [e|e]; cbn [emit]; intros H.
  - destruct (Split.event_split (to_sevent e) max) as [ps|] eqn:Hs; [|discriminate]. cbn [rbind] in H.
    injection H as <-. apply Forall_map_in.
    eapply Forall_impl; [|exact (split_piece_cmd _ _ _ Hs)]. intros p Hp.
    exists (of_piece e p). repeat split. exact Hp.
  - injection H as <-. constructor; [|constructor]. exists e. repeat split.
Qed.

Lemma wire_plain mt e : we_tags e = None -> wire mt e = event_bytes e.
Proof. intros Tg. unfold wire, strip_tags. rewrite Tg. reflexivity. Qed.

(* 3. every line of every reaction: no CR, no LF, valid UTF-8 (for EVERY event: C03_no_crlf),
   and it parses back to an event with one of the reaction's seven commands *)
Definition wellformed_line (l : str) : Prop :=
  ~ In 13 l /\ ~ In 10 l /\ valid_utf8 l = true /\
  exists e', parse_event l = Ok (Some e') /\ In (we_cmd e') reaction_cmds.

Lemma line_of_wellformed mt o l : plain_out o -> line_of mt o l -> wellformed_line l.
Proof.
  intros (Tg & Sr & Hk & _) (e1 & -> & T1 & S1 & C1).
  rewrite <- T1 in Tg. rewrite <- S1 in Sr. rewrite <- C1 in Hk.
  rewrite (wire_plain mt e1 Tg).
  destruct (event_bytes_no_crlf e1) as (A & B & C).
  split; [exact A|split; [exact B|split; [exact C|]]].
  destruct (plain_cmd_parses e1 Tg Sr Hk) as (e' & P & Ce). exists e'. split; [exact P|]. rewrite Ce. exact Hk.
Qed.

Theorem react_outputs_wellformed cfg rs line rs' outs : conn_up cfg ->
  react cfg rs line = RStep rs' outs -> Forall wellformed_line outs.
Proof.
  intros Hc H. destruct (react_step_inv _ _ _ _ _ H) as [(_ & _ & ->)|(_ & w & cs' & couts & nouts & _ & H1 & H2 & H3 & _)].
  { constructor. }
  assert (Hp : Forall plain_out (reaction_outs couts nouts)).
  { unfold reaction_outs. apply Forall_app. split.
    - exact (client_step_outs _ _ _ _ _ Hc H1).
    - exact (collide_stage_outs _ _ _ _ H2). }
  pose proof (emit_all_forall (line_of _) _ _ (emit_line_of _ _) _ _ H3) as Hl.
  eapply Forall_impl; [|exact Hl]. intros l (o & Hin & Hlo).
  eapply line_of_wellformed; [|exact Hlo]. rewrite Forall_forall in Hp. exact (Hp o Hin).
Qed.

(* without any hypothesis on the configuration: CR/LF-freedom and UTF-8 validity hold of every
   line the model can write at all *)
Theorem react_outputs_no_crlf cfg rs line rs' outs : react cfg rs line = RStep rs' outs ->
  Forall (fun l => ~ In 13 l /\ ~ In 10 l /\ valid_utf8 l = true) outs.
Proof.
  intros H. destruct (react_step_inv _ _ _ _ _ H) as [(_ & _ & ->)|(_ & w & cs' & couts & nouts & _ & _ & _ & H3 & _)].
  { constructor. }
  pose proof (emit_all_forall (line_of _) _ _ (emit_line_of _ _) _ _ H3) as Hl.
  eapply Forall_impl; [|exact Hl]. intros l (o & _ & e1 & -> & _). apply event_bytes_no_crlf.
Qed.

(* ---- 4. PING ------------------------------------------------------------------------------------------ *)

(* the whole client on a PING event: state handlers answer, every other stage is silent *)
Lemma client_step_ping ccfg cs e : State.e_cmd e = PingNick.s_PING ->
  ClientStep.client_step ccfg cs e =
    Ok (ClientStep.mkClientState (State.handle_tags (ClientStep.cs_state cs) e) (ClientStep.cs_cap cs),
        [ClientStep.CSend (State.OutSend State.s_PONG [State.last_param e])]).
Proof.
  intros Hc. unfold ClientStep.client_step.
  assert (H1 : State.handle (ClientStep.cc_state ccfg) (ClientStep.cs_state cs) e =
               Ok (State.handle_tags (ClientStep.cs_state cs) e, [State.OutSend State.s_PONG [State.last_param e]])).
  { unfold State.handle, State.cmd_is. rewrite Hc. reflexivity. }
  rewrite H1. cbn [rbind].
  assert (H2 : ClientStep.sasl_stage ccfg e = Ok []).
  { unfold ClientStep.sasl_stage, ClientStep.is_sasl_cmd, ClientStep.is_sasl_error_cmd, State.cmd_is. rewrite Hc. reflexivity. }
  rewrite H2. cbn [rbind].
  assert (H3 : ClientStep.cap_stage ccfg (ClientStep.cs_cap cs) e = (ClientStep.cs_cap cs, [])).
  { unfold ClientStep.cap_stage, State.cmd_is. rewrite Hc. reflexivity. }
  rewrite H3.
  assert (H4 : Ctcp.ctcp_stage (Ctcp.default_table (ClientStep.cc_env ccfg)) (ClientStep.to_ctcp_event e) = Ok []).
  { unfold Ctcp.ctcp_stage.
    assert (D : Ctcp.decode_ctcp (ClientStep.to_ctcp_event e) = Ok None).
    { apply CtcpProofs.not_ctcp_exact. apply CtcpSpec.nc_command.
      unfold ClientStep.to_ctcp_event. cbn [Ctcp.ev_command]. rewrite Hc.
      intros [K|K]; discriminate K. }
    rewrite D. reflexivity. }
  rewrite H4. reflexivity.
Qed.

Theorem react_ping cfg rs line w : rs_closed rs = false ->
  parse_event line = Ok (Some w) -> we_cmd w = PingNick.s_PING ->
  PingNickWire.wire_valid (last (we_params w) []) = true ->
  exists rs' l, react cfg rs line = RStep rs' [l] /\ rs_closed rs' = false /\
    parse_event l = Ok (Some (mkWEvent None None PingNick.s_PONG [last (we_params w) []])).
Proof.
  intros Hcl P Hc Hv. unfold react. rewrite Hcl, P. unfold react_event.
  rewrite (client_step_ping (rc_client cfg) (rs_client rs) (to_state_event w) Hc).
  assert (H2 : collide_stage cfg (ClientStep.cs_state (rs_client rs)) (to_state_event w) = Ok []).
  { unfold collide_stage. cbn [to_state_event State.e_cmd]. rewrite Hc. reflexivity. }
  rewrite H2. cbn [reaction_outs flat_map outs_of out_of_state List.map app].
  change (streqb State.s_PONG State.s_PONG) with true. cbv iota.
  cbn [emit_all emit rbind app].
  do 2 eexists. split; [reflexivity|]. split.
  - cbn [rs_closed]. unfold ClientStep.disconnects, State.cmd_is. cbn [to_state_event State.e_cmd]. rewrite Hc. reflexivity.
  - rewrite wire_plain by reflexivity. unfold State.last_param. cbn [to_state_event State.e_params].
    exact (PingNickWire.pong_roundtrip _ Hv).
Qed.

(* ---- non-vacuity: a ten-line raw session --------------------------------------------------------------- *)

Definition ex_cfg : react_cfg :=
  mkReactCfg
    (ClientStep.mkClientCfg (State.mkConfig (bs "me") (bs "user")) None
       (Ctcp.mk_env (bs "verif 1.0") (bs "Real Name") (bs "go") (bs "os") (bs "arch") (bs "now") (bs "0s") true)
       (Cap.mkCfg None true false false [] true None [] (bs "me") (bs "user") (bs "Real Name"))
       CapLib.sort_strs false 0%Z)
    None.

Definition crlf : str := [13; 10].

(* 001, 005, JOIN (ourselves), 353, MODE, PRIVMSG with a CTCP VERSION request, PING, NICK,
   KICK, garbage: exactly the first fixed case of suite client.react *)
Definition ex_lines : list str :=
  [ bs ":irc.test 001 me :Welcome to the test network" ++ crlf;
    bs ":irc.test 005 me NICKLEN=9 CHANMODES=b,k,l,imnpst PREFIX=(ov)@+ :are supported by this server" ++ crlf;
    bs ":me!user@host.example JOIN #chan" ++ crlf;
    bs ":irc.test 353 me = #chan :me @alice +bob" ++ crlf;
    bs ":alice!a@h.example MODE #chan +v-o bob alice" ++ crlf;
    bs ":alice!a@h.example PRIVMSG me :" ++ [1] ++ bs "VERSION" ++ [1] ++ crlf;
    bs "PING :tok en" ++ crlf;
    bs ":alice!a@h.example NICK carol" ++ crlf;
    bs ":carol!a@h.example KICK #chan bob :bye" ++ crlf;
    [0; 10] ].

Example react_session_example :
  conn_up ex_cfg /\
  exists s, react_run ex_cfg (react_init StsState.sts_init) 0 ex_lines = Ok s /\
    ss_outs s =
      [ []; [];
        [bs "WHO #chan %tacuhnr,1"; bs "MODE #chan"];
        []; [];
        [bs "NOTICE alice :" ++ [1] ++ bs "VERSION verif 1.0" ++ [1]];
        [bs "PONG :tok en"];
        []; [] ] /\
    ss_end s = ParseFailed 9 /\
    RInv (ss_state s) /\
    List.map (fun kv => (fst kv, State.c_users (snd kv))) (State.st_channels (ClientStep.cs_state (rs_client (ss_state s)))) =
      [(bs "#chan", [bs "carol"; bs "me"])] /\
    State.st_nick (ClientStep.cs_state (rs_client (ss_state s))) = bs "me".
Proof.
  split; [reflexivity|].
  destruct (react_run_ok ex_cfg eq_refl ex_lines (react_init StsState.sts_init) 0 (react_init_inv _)) as (s & H & I & _).
  exists s. split; [exact H|].
  assert (E : react_run ex_cfg (react_init StsState.sts_init) 0 ex_lines = Ok s) by exact H.
  vm_compute in E. injection E as <-.
  split; [vm_compute; reflexivity|]. split; [reflexivity|]. split; [exact I|].
  split; vm_compute; reflexivity.
Qed.

(* the hypotheses of react_ping are satisfiable: line 6 of the session *)
Example react_ping_example :
  exists w, parse_event (bs "PING :tok en" ++ crlf) = Ok (Some w) /\ we_cmd w = PingNick.s_PING /\
            PingNickWire.wire_valid (last (we_params w) []) = true /\ last (we_params w) [] = bs "tok en".
Proof. eexists. split; [vm_compute; reflexivity|]. repeat split. Qed.

(* ---- 5. the line limit ------------------------------------------------------------------------------------ *)

(* Event.Bytes of the codec model and of the splitter's model agree on tag-less, source-less events *)
Lemma params_bytes_agree : forall l, Event.params_bytes l = Split.params_bytes l.
Proof.
  induction l as [|p r IH]; [reflexivity|].
  destruct r as [|q r']; [reflexivity|].
  change (Event.params_bytes (p :: q :: r')) with (32 :: p ++ Event.params_bytes (q :: r')).
  change (Split.params_bytes (p :: q :: r')) with ([32] ++ p ++ Split.params_bytes (q :: r')).
  rewrite IH. reflexivity.
Qed.

Lemma piece_bytes_agree mt e p : we_tags e = None -> we_src e = None ->
  Split.se_tagov p = 0%nat -> Split.se_source p = None ->
  wire mt (of_piece e p) = Split.event_bytes p.
Proof.
  intros Tg Sr _ Ps. rewrite wire_plain by exact Tg.
  unfold event_bytes, Split.event_bytes, event_raw_bytes, Split.event_raw, of_piece.
  cbn [we_tags we_src we_cmd we_params]. rewrite Tg, Sr, Ps, params_bytes_agree. reflexivity.
Qed.

(* at most max bytes, or - only when fewer than 4 bytes remain for text - command and target
   plus one character *)
Definition fits_limit (max ctl : Z) (l : str) : Prop :=
  (Z.of_nat (length l) <= max)%Z \/ ((max - ctl < 4)%Z /\ (Z.of_nat (length l) <= ctl + 4)%Z).

Lemma to_sevent_plain e : we_tags e = None -> we_src e = None ->
  Split.se_tagov (to_sevent e) = 0%nat /\ Split.se_source (to_sevent e) = None /\
  Split.se_command (to_sevent e) = we_cmd e /\ Split.se_params (to_sevent e) = we_params e.
Proof. intros Tg Sr. unfold to_sevent. rewrite Tg, Sr. repeat split. Qed.

Lemma emit_fits mt st e ls : we_tags e = None -> we_src e = None -> we_params e <> [] ->
  Split.is_msg_cmd (we_cmd e) = true ->
  emit mt (Split.max_event_length st) (WSend e) = Ok ls ->
  (SplitProofs.cmd_target_len (to_sevent e) <= Split.max_event_length st)%Z ->
  Forall (fits_limit (Split.max_event_length st) (SplitProofs.cmd_target_len (to_sevent e))) ls.
Proof.
  intros Tg Sr Hne Hm H Hc. cbn [emit] in H.
  destruct (Split.event_split (to_sevent e) (Split.max_event_length st)) as [ps|] eqn:Hs; [|discriminate].
  cbn [rbind] in H. injection H as <-.
  destruct (to_sevent_plain e Tg Sr) as (T0 & S0 & C0 & P0).
  assert (Hf := SplitContent.send_fits_wire st (to_sevent e) ps T0 S0
                  ltac:(rewrite P0; exact Hne) ltac:(rewrite C0; exact Hm) Hs Hc).
  assert (Hframe : Forall (fun p => Split.se_tagov p = 0%nat /\ Split.se_source p = None) ps).
  { destruct (SplitProofs.event_split_shape _ _ _ Hs) as [->|(_ & _ & text & wr & w & pcs & _ & _ & Hsf & _)].
    - constructor; [split; assumption|constructor].
    - eapply Forall_impl; [|exact Hsf]. intros p (_ & Hsrc & Htag & _). rewrite Hsrc, Htag. split; assumption. }
  apply Forall_map_in. rewrite Forall_forall in *. intros p Hp.
  destruct (Hframe p Hp) as [Pt Ps]. rewrite (piece_bytes_agree mt e p Tg Sr Pt Ps). exact (Hf p Hp).
Qed.

Lemma emit_all_forall_in (Q : wout -> Prop) (P : wout -> str -> Prop) mt max :
  (forall o ls, Q o -> emit mt max o = Ok ls -> Forall (P o) ls) ->
  forall l out, Forall Q l -> emit_all mt max l = Ok out -> Forall (fun x => exists o, In o l /\ P o x) out.
Proof.
  intros HP. induction l as [|o r IH]; cbn [emit_all]; intros out HQ H.
  - injection H as <-. constructor.
  - inversion HQ as [|? ? Qo Qr]; subst.
    destruct (emit mt max o) as [a|] eqn:Ha; [|discriminate]. cbn [rbind] in H.
    destruct (emit_all mt max r) as [b|] eqn:Hb; [|discriminate]. cbn [rbind] in H. injection H as <-.
    apply Forall_app. split.
    + eapply Forall_impl; [|exact (HP o a Qo Ha)]. intros x Hx. exists o. split; [left; reflexivity|exact Hx].
    + eapply Forall_impl; [|exact (IH b Qr eq_refl)]. intros x (o' & Hin & Hx). exists o'. split; [right; exact Hin|exact Hx].
Qed.

(* every line of a reaction is the line of some event handed to Send / write (same command,
   no tags, no source); if that event is a PRIVMSG / NOTICE - the CTCP replies - and its command
   and target (with the CTCP frame) fit into MaxEventLength of the state after the step, the
   line fits, up to the one-character boundary case of C11_fits *)
Definition line_within_limit (mt : bool) (max : Z) (l : str) : Prop :=
  exists o, plain_out o /\ line_of mt o l /\
    (Split.is_msg_cmd (we_cmd (wout_event o)) = true ->
     (SplitProofs.cmd_target_len (to_sevent (wout_event o)) <= max)%Z ->
     fits_limit max (SplitProofs.cmd_target_len (to_sevent (wout_event o))) l).

Theorem react_privmsg_fits cfg rs line rs' outs : conn_up cfg ->
  react cfg rs line = RStep rs' outs ->
  Forall (line_within_limit
            (message_tags_on (Cap.st_enabled (ClientStep.cs_cap (rs_client rs'))))
            (Split.max_event_length (ClientStep.cs_state (rs_client rs')))) outs.
Proof.
  intros Hc H. destruct (react_step_inv _ _ _ _ _ H) as [(_ & _ & ->)|(_ & w & cs' & couts & nouts & _ & H1 & H2 & H3 & ->)].
  { constructor. }
  cbn [rs_client].
  assert (Hp : Forall plain_out (reaction_outs couts nouts)).
  { unfold reaction_outs. apply Forall_app. split.
    - exact (client_step_outs _ _ _ _ _ Hc H1).
    - exact (collide_stage_outs _ _ _ _ H2). }
  set (mt := message_tags_on _) in *. set (st := ClientStep.cs_state cs') in *.
  set (P := fun (o : wout) (l : str) => plain_out o /\ line_of mt o l /\
                   (Split.is_msg_cmd (we_cmd (wout_event o)) = true ->
                    (SplitProofs.cmd_target_len (to_sevent (wout_event o)) <= Split.max_event_length st)%Z ->
                    fits_limit (Split.max_event_length st) (SplitProofs.cmd_target_len (to_sevent (wout_event o))) l)).
  assert (HP : forall o ls, plain_out o -> emit mt (Split.max_event_length st) o = Ok ls -> Forall (P o) ls).
  { intros o ls Po He. pose proof (emit_line_of _ _ _ _ He) as Hl.
    pose proof Po as (Tg & Sr & Hk & Fr).
    destruct o as [e|e]; cbn [wout_event] in *.
    - destruct (Split.is_msg_cmd (we_cmd e)) eqn:Em.
      + pose proof (fun Hctl => emit_fits mt st e ls Tg Sr (Fr Em) Em He Hctl) as F.
        rewrite Forall_forall in *. intros l Hin. split; [exact Po|].
        split; [exact (Hl l Hin)|]. cbn [wout_event]. rewrite Em. intros _ Hctl.
        exact (F Hctl l Hin).
      + eapply Forall_impl; [|exact Hl]. intros l Hlo. split; [exact Po|].
        split; [exact Hlo|]. cbn [wout_event]. rewrite Em. intros K. discriminate K.
    - cbn [fit_ready] in Fr. eapply Forall_impl; [|exact Hl]. intros l Hlo.
      split; [exact Po|]. split; [exact Hlo|]. cbn [wout_event]. rewrite Fr. intros K. discriminate K. }
  pose proof (emit_all_forall_in plain_out P mt (Split.max_event_length st) HP _ _ Hp H3) as L.
  eapply Forall_impl; [|exact L]. intros l (o & _ & Ho). exists o. exact Ho.
Qed.

(* non-vacuity: a CTCP PING with 720 bytes of text is answered by NOTICEs that Client.Send had
   to split: two lines, each within MaxEventLength = 510 - 115 = 395 *)
Definition ex_long_ping : str :=
  bs ":alice!a@h.example PRIVMSG me :" ++ [1] ++ bs "PING " ++ concat (repeat (bs "lorem ipsum ") 60) ++ [1] ++ crlf.

Example react_fits_example :
  exists rs' outs, react ex_cfg (react_init StsState.sts_init) ex_long_ping = RStep rs' outs /\
    Split.max_event_length (ClientStep.cs_state (rs_client rs')) = 395%Z /\
    List.map (@length N) outs = [392; 368]%nat /\
    Forall (fun l => prefixb (bs "NOTICE alice :" ++ [1] ++ bs "PING lorem") l = true) outs.
Proof.
  destruct (react_ok ex_cfg (react_init StsState.sts_init) ex_long_ping (react_init_inv _) eq_refl)
    as [H|(rs' & outs & H & _)].
  - vm_compute in H. discriminate H.
  - exists rs', outs. split; [exact H|].
    assert (E : react ex_cfg (react_init StsState.sts_init) ex_long_ping = RStep rs' outs) by exact H.
    vm_compute in E. injection E as <- <-. split; [reflexivity|]. split; [vm_compute; reflexivity|].
    repeat constructor.
Qed.

(* ---- one line, one source of output --------------------------------------------------------------------- *)
(* The handlers of one event run concurrently (and the default CTCP repliers in goroutines of
   their own), so an order between the outputs of DIFFERENT stages would not be fixed by the
   code.  It never arises: for every event at most one stage writes anything. *)

Inductive source_of (couts : list ClientStep.cout) (nouts : list PingNick.pn_out) : Prop :=
| SrcState k : couts = List.map ClientStep.CSend k -> nouts = [] -> source_of couts nouts
| SrcSasl k : couts = List.map ClientStep.CSasl k -> nouts = [] -> source_of couts nouts
| SrcCap k : couts = List.map ClientStep.CCap k -> nouts = [] -> source_of couts nouts
| SrcCtcp k : couts = List.map ClientStep.CCtcp k -> nouts = [] -> source_of couts nouts
| SrcNick : couts = [] -> source_of couts nouts.

Lemma handle_silent cfg s e s' o : State.handle cfg s e = Ok (s', o) ->
  State.cmd_is e "PING" = false -> State.cmd_is e "JOIN" = false -> o = [].
Proof.
  intros H E1 E2. unfold State.handle in H. cbv zeta in H. rewrite E1, E2 in H.
  repeat match type of H with
         | (if ?b then _ else _) = _ => destruct b
         end;
    try (injection H as _ <-; reflexivity);
    (match type of H with rbind ?r _ = _ => destruct r end; cbn [rbind] in H;
     [injection H as _ <-; reflexivity|discriminate]).
Qed.

Lemma sasl_silent ccfg e o : ClientStep.sasl_stage ccfg e = Ok o ->
  ClientStep.is_sasl_cmd e = false -> ClientStep.is_sasl_error_cmd e = false -> o = [].
Proof. unfold ClientStep.sasl_stage. intros H A B. rewrite A, B in H. injection H as <-. reflexivity. Qed.

Lemma cap_silent ccfg st e : State.cmd_is e "CAP" = false -> snd (ClientStep.cap_stage ccfg st e) = [].
Proof. unfold ClientStep.cap_stage. intros ->. reflexivity. Qed.

Lemma ctcp_silent t e o : Ctcp.ctcp_stage t (ClientStep.to_ctcp_event e) = Ok o ->
  streqb (State.e_cmd e) Ctcp.PRIVMSG = false -> streqb (State.e_cmd e) Ctcp.NOTICE = false -> o = [].
Proof.
  intros H E1 E2. unfold Ctcp.ctcp_stage in H.
  assert (D : Ctcp.decode_ctcp (ClientStep.to_ctcp_event e) = Ok None).
  { apply CtcpProofs.not_ctcp_exact. apply CtcpSpec.nc_command.
    unfold ClientStep.to_ctcp_event. cbn [Ctcp.ev_command].
    intros [K|K]; rewrite K in *; discriminate. }
  rewrite D in H. cbn [rbind] in H. injection H as <-. reflexivity.
Qed.

Lemma collide_silent cfg s e o : collide_stage cfg s e = Ok o ->
  PingNick.is_collision_cmd (State.e_cmd e) = false -> o = [].
Proof. unfold collide_stage. intros H E. rewrite E in H. injection H as <-. reflexivity. Qed.

(* with the command known, every stage that does not handle it is silent *)
Ltac known_cmd Hc :=
  repeat match goal with
         | |- _ /\ _ => split
         end;
  first [reflexivity | unfold ClientStep.is_sasl_cmd, ClientStep.is_sasl_error_cmd, State.cmd_is; rewrite Hc; reflexivity].

Ltac lit H := unfold State.cmd_is in H; apply OrderLemmas.streqb_eq in H.

Theorem react_single_source cfg cs e cs' couts nouts :
  ClientStep.client_step (rc_client cfg) cs e = Ok (cs', couts) ->
  collide_stage cfg (ClientStep.cs_state cs) e = Ok nouts -> source_of couts nouts.
Proof.
  intros H HN. unfold ClientStep.client_step in H.
  destruct (State.handle _ _ e) as [[s' o1]|] eqn:H1; [|discriminate]. cbn [rbind] in H.
  destruct (ClientStep.sasl_stage (rc_client cfg) e) as [o2|] eqn:H2; [|discriminate]. cbn [rbind] in H.
  destruct (Ctcp.ctcp_stage _ _) as [o4|] eqn:H4; [|discriminate]. cbn [rbind] in H.
  injection H as _ <-. cbn [snd].
  set (o3 := snd (ClientStep.cap_stage (rc_client cfg) (ClientStep.cs_cap cs) e)).
  (* the facts "all other stages are silent" for a known command *)
  assert (St : forall c, State.e_cmd e = c ->
            ClientStep.is_sasl_cmd e = false -> ClientStep.is_sasl_error_cmd e = false ->
            State.cmd_is e "CAP" = false -> streqb c Ctcp.PRIVMSG = false -> streqb c Ctcp.NOTICE = false ->
            PingNick.is_collision_cmd c = false ->
            source_of (List.map ClientStep.CSend o1 ++ List.map ClientStep.CSasl o2 ++
                       List.map ClientStep.CCap o3 ++ List.map ClientStep.CCtcp o4) nouts).
  { intros c Hc A B C D1 D2 F. rewrite <- Hc in D1, D2, F.
    rewrite (sasl_silent _ _ _ H2 A B), (ctcp_silent _ _ _ H4 D1 D2), (collide_silent _ _ _ _ HN F).
    unfold o3. rewrite (cap_silent _ _ _ C). cbn [List.map]. rewrite !app_nil_r.
    apply (SrcState _ _ o1); reflexivity. }
  destruct (State.cmd_is e "PING") eqn:E1. { lit E1. apply (St _ E1); known_cmd E1. }
  destruct (State.cmd_is e "JOIN") eqn:E2. { lit E2. apply (St _ E2); known_cmd E2. }
  rewrite (handle_silent _ _ _ _ _ H1 E1 E2). cbn [List.map app]. clear St.
  assert (Sa : forall c, State.e_cmd e = c ->
            State.cmd_is e "CAP" = false -> streqb c Ctcp.PRIVMSG = false -> streqb c Ctcp.NOTICE = false ->
            PingNick.is_collision_cmd c = false ->
            source_of (List.map ClientStep.CSasl o2 ++ List.map ClientStep.CCap o3 ++ List.map ClientStep.CCtcp o4) nouts).
  { intros c Hc C D1 D2 F. rewrite <- Hc in D1, D2, F.
    rewrite (ctcp_silent _ _ _ H4 D1 D2), (collide_silent _ _ _ _ HN F).
    unfold o3. rewrite (cap_silent _ _ _ C). cbn [List.map]. rewrite !app_nil_r.
    apply (SrcSasl _ _ o2); reflexivity. }
  destruct (ClientStep.is_sasl_cmd e) eqn:E3.
  { unfold ClientStep.is_sasl_cmd in E3. apply orb_prop in E3. destruct E3 as [E|E]; lit E; apply (Sa _ E); known_cmd E. }
  destruct (ClientStep.is_sasl_error_cmd e) eqn:E4.
  { unfold ClientStep.is_sasl_error_cmd in E4.
    repeat (apply orb_prop in E4; destruct E4 as [E4|E]; [|lit E; apply (Sa _ E); known_cmd E]).
    lit E4. apply (Sa _ E4); known_cmd E4. }
  rewrite (sasl_silent _ _ _ H2 E3 E4). cbn [List.map app]. clear Sa.
  destruct (State.cmd_is e "CAP") eqn:E5.
  { lit E5. assert (D1 : streqb (State.e_cmd e) Ctcp.PRIVMSG = false) by (rewrite E5; reflexivity).
    assert (D2 : streqb (State.e_cmd e) Ctcp.NOTICE = false) by (rewrite E5; reflexivity).
    assert (F : PingNick.is_collision_cmd (State.e_cmd e) = false) by (rewrite E5; reflexivity).
    rewrite (ctcp_silent _ _ _ H4 D1 D2), (collide_silent _ _ _ _ HN F). cbn [List.map]. rewrite app_nil_r.
    apply (SrcCap _ _ o3); reflexivity. }
  unfold o3. rewrite (cap_silent _ _ _ E5). cbn [List.map app].
  destruct (streqb (State.e_cmd e) Ctcp.PRIVMSG) eqn:E6.
  { apply OrderLemmas.streqb_eq in E6.
    assert (F : PingNick.is_collision_cmd (State.e_cmd e) = false) by (rewrite E6; reflexivity).
    rewrite (collide_silent _ _ _ _ HN F). apply (SrcCtcp _ _ o4); reflexivity. }
  destruct (streqb (State.e_cmd e) Ctcp.NOTICE) eqn:E7.
  { apply OrderLemmas.streqb_eq in E7.
    assert (F : PingNick.is_collision_cmd (State.e_cmd e) = false) by (rewrite E7; reflexivity).
    rewrite (collide_silent _ _ _ _ HN F). apply (SrcCtcp _ _ o4); reflexivity. }
  rewrite (ctcp_silent _ _ _ H4 E6 E7). apply SrcNick. reflexivity.
Qed.
