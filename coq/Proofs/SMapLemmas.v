(* Key-sorted association lists (Lib/SMap.v): lookups after each operation, preservation of
   sortedness, canonical form of a Go-map list, and extensionality: two key-sorted maps
   with the same bindings are equal. *)
Require Import Bytes AMap SMap OrderLemmas AMapLemmas.
From Coq Require Import Lia Sorting.Sorted.

Definition ksorted {V} (m : amap V) : Prop := ssorted (List.map fst m).

Lemma slt_neq a b : slt a b -> a <> b.
Proof. intros H ->. unfold slt in H. rewrite str_ltb_irrefl in H. discriminate. Qed.

Section S.
  Context {V : Type}.
  Implicit Types (m : amap V) (k : str) (v : V).

  Lemma ksorted_nil : ksorted (@nil (str * V)).
  Proof. constructor. Qed.

  Lemma ksorted_cons_inv k v m : ksorted ((k, v) :: m) -> ksorted m /\ Forall (slt k) (List.map fst m).
  Proof. intros H. inversion H; subst. split; assumption. Qed.

  Lemma ksorted_tail k v m : ksorted ((k, v) :: m) -> ksorted m.
  Proof. intros H. apply ksorted_cons_inv in H. tauto. Qed.

  (* a key smaller than the head is not bound *)
  Lemma alookup_below k m : Forall (slt k) (List.map fst m) -> alookup k m = None.
  Proof.
    induction m as [|[k' v'] m IH]; simpl; [reflexivity|]. intros H. inversion H; subst.
    assert (E : streqb k k' = false) by (apply streqb_neq; apply slt_neq; assumption). rewrite E. auto.
  Qed.

  Lemma alookup_in k v m : alookup k m = Some v -> In (k, v) m.
  Proof.
    induction m as [|[k' v'] m IH]; simpl; [discriminate|].
    destruct (streqb k k') eqn:E; [apply streqb_eq in E; subst; intros H; injection H as <-; left; reflexivity|].
    intros H; right; auto.
  Qed.

  Lemma alookup_some_key k v m : alookup k m = Some v -> In k (List.map fst m).
  Proof. intros H. apply alookup_in in H. apply (in_map fst) in H. exact H. Qed.

  Lemma in_alookup k v m : ksorted m -> In (k, v) m -> alookup k m = Some v.
  Proof.
    induction m as [|[k' v'] m IH]; simpl; [tauto|]. intros Hs [H|H].
    - injection H as -> ->. rewrite streqb_refl. reflexivity.
    - destruct (ksorted_cons_inv _ _ _ Hs) as [Hs' Hall].
      assert (Hk : In k (List.map fst m)) by (apply (in_map fst) in H; exact H).
      rewrite Forall_forall in Hall. specialize (Hall _ Hk).
      assert (E : streqb k k' = false) by (apply streqb_neq; intros ->; apply (slt_neq _ _ Hall); reflexivity).
      rewrite E. auto.
  Qed.

  Lemma alookup_none_notin k m : alookup k m = None -> ~ In k (List.map fst m).
  Proof.
    induction m as [|[k' v'] m IH]; simpl; [tauto|].
    destruct (streqb k k') eqn:E; [discriminate|]. apply streqb_neq in E. intros H [H1|H1]; [congruence|]. apply IH; assumption.
  Qed.

  (* ---- sm_set ---- *)

  Lemma sm_set_keys_in k v m x : In x (List.map fst (sm_set k v m)) <-> x = k \/ In x (List.map fst m).
  Proof.
    induction m as [|[k' v'] m IH]; simpl; [intuition|].
    destruct (streqb k k') eqn:E.
    - apply streqb_eq in E. subst. simpl. intuition.
    - destruct (str_ltb k k'); simpl; [intuition|]. rewrite IH. intuition.
  Qed.

  Lemma ksorted_sm_set k v m : ksorted m -> ksorted (sm_set k v m).
  Proof.
    induction m as [|[k' v'] m IH]; simpl; intros Hs.
    - repeat constructor.
    - destruct (ksorted_cons_inv _ _ _ Hs) as [Hs' Hall].
      destruct (streqb k k') eqn:E.
      + apply streqb_eq in E. subst. exact Hs.
      + destruct (str_ltb k k') eqn:L.
        * constructor; [exact Hs|]. simpl. constructor; [exact L|].
          rewrite Forall_forall in *. intros x Hx. eapply str_ltb_trans; [exact L|]. apply Hall. exact Hx.
        * constructor; [apply IH; exact Hs'|]. fold (List.map fst (sm_set k v m)).
          rewrite Forall_forall in *. intros x Hx. apply sm_set_keys_in in Hx. destruct Hx as [->|Hx]; [|auto].
          apply streqb_neq in E. destruct (str_ltb_trichotomy k k') as [H|[H|H]]; [unfold slt in H; congruence|congruence|exact H].
  Qed.

  Lemma alookup_sm_set k v m k' : ksorted m ->
    alookup k' (sm_set k v m) = if streqb k' k then Some v else alookup k' m.
  Proof.
    induction m as [|[k2 v2] m IH]; simpl; intros Hs.
    - destruct (streqb k' k); reflexivity.
    - destruct (ksorted_cons_inv _ _ _ Hs) as [Hs' Hall].
      destruct (streqb k k2) eqn:E.
      + apply streqb_eq in E. subst k2. simpl. destruct (streqb k' k); reflexivity.
      + destruct (str_ltb k k2) eqn:L; simpl.
        * destruct (streqb k' k); reflexivity.
        * rewrite IH by exact Hs'. destruct (streqb k' k2) eqn:E2; [|reflexivity].
          apply streqb_eq in E2. subst k2. destruct (streqb k' k) eqn:E3; [|reflexivity].
          apply streqb_eq in E3. subst. rewrite streqb_refl in E. discriminate.
  Qed.

  (* ---- sm_del ---- *)

  Lemma sm_del_keys_in k m x : ksorted m -> (In x (List.map fst (sm_del k m)) <-> In x (List.map fst m) /\ x <> k).
  Proof.
    induction m as [|[k' v'] m IH]; simpl; intros Hs; [tauto|].
    destruct (ksorted_cons_inv _ _ _ Hs) as [Hs' Hall]. rewrite Forall_forall in Hall.
    destruct (streqb k k') eqn:E.
    - apply streqb_eq in E. subst k'. split.
      + intros H. split; [right; exact H|]. intros ->. apply (slt_neq _ _ (Hall _ H)). reflexivity.
      + intros [[H|H] Hne]; [congruence|exact H].
    - apply streqb_neq in E. simpl. rewrite (IH Hs'). split.
      + intros [H|[H1 H2]]; [subst; split; [left; reflexivity|congruence]|split; [right; exact H1|exact H2]].
      + intros [[H|H] Hne]; [left; exact H|right; split; assumption].
  Qed.

  Lemma ksorted_sm_del k m : ksorted m -> ksorted (sm_del k m).
  Proof.
    induction m as [|[k' v'] m IH]; simpl; intros Hs; [constructor|].
    destruct (ksorted_cons_inv _ _ _ Hs) as [Hs' Hall].
    destruct (streqb k k'); [exact Hs'|].
    constructor; [apply IH; exact Hs'|]. fold (List.map fst (sm_del k m)).
    rewrite Forall_forall in *. intros x Hx. apply sm_del_keys_in in Hx; [|exact Hs']. apply Hall. tauto.
  Qed.

  Lemma alookup_sm_del k m k' : ksorted m ->
    alookup k' (sm_del k m) = if streqb k' k then None else alookup k' m.
  Proof.
    induction m as [|[k2 v2] m IH]; simpl; intros Hs.
    - destruct (streqb k' k); reflexivity.
    - destruct (ksorted_cons_inv _ _ _ Hs) as [Hs' Hall].
      destruct (streqb k k2) eqn:E.
      + apply streqb_eq in E. subst k2. destruct (streqb k' k) eqn:E2; [|reflexivity].
        apply streqb_eq in E2. subst. apply alookup_below. exact Hall.
      + simpl. rewrite IH by exact Hs'. destruct (streqb k' k2) eqn:E2; [|reflexivity].
        apply streqb_eq in E2. subst k2. rewrite streqb_sym, E. reflexivity.
  Qed.

  (* ---- sm_adjust ---- *)

  Lemma sm_adjust_keys k f m : List.map fst (sm_adjust k f m) = List.map fst m.
  Proof.
    induction m as [|[k' v'] m IH]; simpl; [reflexivity|].
    destruct (streqb k k'); simpl; [reflexivity|]. rewrite IH. reflexivity.
  Qed.

  Lemma ksorted_sm_adjust k f m : ksorted m -> ksorted (sm_adjust k f m).
  Proof. unfold ksorted. rewrite sm_adjust_keys. auto. Qed.

  Lemma alookup_sm_adjust k f m k' :
    alookup k' (sm_adjust k f m) = if streqb k' k then option_map f (alookup k' m) else alookup k' m.
  Proof.
    induction m as [|[k2 v2] m IH]; simpl.
    - destruct (streqb k' k); reflexivity.
    - destruct (streqb k k2) eqn:E.
      + apply streqb_eq in E. subst k2. simpl. destruct (streqb k' k); reflexivity.
      + simpl. rewrite IH. destruct (streqb k' k2) eqn:E2; [|reflexivity].
        apply streqb_eq in E2. subst k2. rewrite streqb_sym, E. reflexivity.
  Qed.

  Lemma sm_adjust_absent k f m : alookup k m = None -> sm_adjust k f m = m.
  Proof.
    induction m as [|[k2 v2] m IH]; simpl; [reflexivity|].
    destruct (streqb k k2); [discriminate|]. intros H. rewrite IH by exact H. reflexivity.
  Qed.

  (* ---- sm_filter ---- *)

  Lemma filter_keys_in (p : str -> V -> bool) m x : In x (List.map fst (sm_filter p m)) -> In x (List.map fst m).
  Proof.
    unfold sm_filter. intros H. apply in_map_iff in H. destruct H as ([k v] & <- & H). apply filter_In in H.
    destruct H as [H _]. apply (in_map fst) in H. exact H.
  Qed.

  Lemma ksorted_sm_filter (p : str -> V -> bool) m : ksorted m -> ksorted (sm_filter p m).
  Proof.
    induction m as [|[k' v'] m IH]; simpl; intros Hs; [constructor|].
    destruct (ksorted_cons_inv _ _ _ Hs) as [Hs' Hall].
    destruct (p k' v'); [|apply IH; exact Hs'].
    constructor; [apply IH; exact Hs'|]. fold (List.map fst (sm_filter p m)).
    rewrite Forall_forall in *. intros x Hx. apply Hall. eapply filter_keys_in; exact Hx.
  Qed.

  Lemma alookup_sm_filter (p : str -> V -> bool) m k : ksorted m ->
    alookup k (sm_filter p m) = match alookup k m with Some v => if p k v then Some v else None | None => None end.
  Proof.
    induction m as [|[k2 v2] m IH]; simpl; intros Hs; [reflexivity|].
    destruct (ksorted_cons_inv _ _ _ Hs) as [Hs' Hall].
    destruct (streqb k k2) eqn:E.
    - apply streqb_eq in E. subst k2. destruct (p k v2) eqn:P; simpl; [rewrite streqb_refl; reflexivity|].
      rewrite IH by exact Hs'. rewrite (alookup_below _ _ Hall). reflexivity.
    - destruct (p k2 v2); simpl; [rewrite E|]; apply IH; exact Hs'.
  Qed.

  (* ---- canon ---- *)

  Lemma ksorted_canon m : ksorted (canon m).
  Proof. induction m as [|[k v] m IH]; simpl; [constructor|]. apply ksorted_sm_set. exact IH. Qed.

  Lemma alookup_canon m k : alookup k (canon m) = alookup k m.
  Proof.
    induction m as [|[k2 v2] m IH]; simpl; [reflexivity|].
    rewrite alookup_sm_set by apply ksorted_canon. rewrite IH. reflexivity.
  Qed.

  (* ---- extensionality ---- *)

  Lemma smap_ext m1 m2 : ksorted m1 -> ksorted m2 -> (forall k, alookup k m1 = alookup k m2) -> m1 = m2.
  Proof.
    revert m2. induction m1 as [|[k1 v1] m1 IH]; intros [|[k2 v2] m2] H1 H2 HL.
    - reflexivity.
    - specialize (HL k2). simpl in HL. rewrite streqb_refl in HL. discriminate.
    - specialize (HL k1). simpl in HL. rewrite streqb_refl in HL. discriminate.
    - destruct (ksorted_cons_inv _ _ _ H1) as [H1' A1]. destruct (ksorted_cons_inv _ _ _ H2) as [H2' A2].
      assert (Ek : k1 = k2).
      { destruct (str_ltb_trichotomy k1 k2) as [L|[L|L]]; [|exact L|].
        - exfalso. pose proof (HL k1) as Hk. simpl in Hk. rewrite streqb_refl in Hk.
          assert (E : streqb k1 k2 = false) by (apply streqb_neq; apply slt_neq; exact L). rewrite E in Hk.
          rewrite alookup_below in Hk; [discriminate|].
          rewrite Forall_forall in *. intros x Hx. eapply str_ltb_trans; [exact L|]. apply A2. exact Hx.
        - exfalso. pose proof (HL k2) as Hk. simpl in Hk. rewrite streqb_refl in Hk.
          assert (E : streqb k2 k1 = false) by (apply streqb_neq; apply slt_neq; exact L). rewrite E in Hk.
          rewrite alookup_below in Hk; [discriminate|].
          rewrite Forall_forall in *. intros x Hx. eapply str_ltb_trans; [exact L|]. apply A1. exact Hx. }
      subst k2. pose proof (HL k1) as Hk. simpl in Hk. rewrite streqb_refl in Hk. injection Hk as ->.
      f_equal. apply IH; [exact H1'|exact H2'|]. intros k. specialize (HL k). simpl in HL.
      destruct (streqb k k1) eqn:E; [|exact HL]. apply streqb_eq in E. subst k.
      rewrite (alookup_below _ _ A1), (alookup_below _ _ A2). reflexivity.
  Qed.
End S.

(* ---- sm_map ---- *)

Lemma sm_map_keys {V W} (f : str -> V -> W) m : List.map fst (sm_map f m) = List.map fst m.
Proof. unfold sm_map. rewrite map_map. reflexivity. Qed.

Lemma ksorted_sm_map {V W} (f : str -> V -> W) m : ksorted m -> ksorted (sm_map f m).
Proof. unfold ksorted. rewrite sm_map_keys. auto. Qed.

Lemma alookup_sm_map {V W} (f : str -> V -> W) m k : alookup k (sm_map f m) = option_map (f k) (alookup k m).
Proof.
  induction m as [|[k2 v2] m IH]; simpl; [reflexivity|].
  destruct (streqb k k2) eqn:E; [apply streqb_eq in E; subst; reflexivity|exact IH].
Qed.

(* a list of keys with values computed from the key *)
Lemma alookup_keyed {W} (f : str -> W) (l : list str) k :
  alookup k (List.map (fun x => (x, f x)) l) = if mem_str k l then Some (f k) else None.
Proof.
  induction l as [|x l IH]; simpl; [reflexivity|].
  destruct (streqb k x) eqn:E; simpl; [apply streqb_eq in E; subst; reflexivity|exact IH].
Qed.

Lemma keyed_keys {W} (f : str -> W) (l : list str) : List.map fst (List.map (fun x => (x, f x)) l) = l.
Proof. rewrite map_map. simpl. apply map_id. Qed.
