(* Helper lemmas for C10: CapLib association lists, literals, handle_cap on an
   acknowledgement. *)
Require Import Bytes CapLib StsState Cap Sts StsSpec OrderLemmas.
From Coq Require Import Lia ZifyBool.

(* ---- CapLib.amap --------------------------------------------------------- *)
Section A.
  Context {V : Type}.
  Implicit Types (m : amap V) (k : str) (v : V).

  Lemma aget_adel_eq k m : aget k (adel k m) = None.
  Proof.
    induction m as [|[k' v'] m IH]; simpl; [reflexivity|].
    destruct (streqb k' k) eqn:E; [exact IH|]. simpl. rewrite E. exact IH.
  Qed.

  Lemma aget_adel_neq k k' m : k <> k' -> aget k' (adel k m) = aget k' m.
  Proof.
    intros Hne. induction m as [|[k2 v2] m IH]; simpl; [reflexivity|].
    destruct (streqb k2 k) eqn:E.
    - apply streqb_eq in E. subst k2.
      assert (H : streqb k k' = false) by (apply streqb_neq; exact Hne).
      rewrite H. exact IH.
    - simpl. destruct (streqb k2 k'); [reflexivity|exact IH].
  Qed.

  Lemma aget_aset_eq k v m : aget k (aset k v m) = Some v.
  Proof. unfold aset. simpl. rewrite streqb_refl. reflexivity. Qed.

  Lemma aget_aset_neq k k' v m : k <> k' -> aget k' (aset k v m) = aget k' m.
  Proof.
    intros Hne. unfold aset. simpl.
    assert (H : streqb k k' = false) by (apply streqb_neq; exact Hne).
    rewrite H. apply aget_adel_neq. exact Hne.
  Qed.

  Lemma amem_aget k m : amem k m = true <-> exists v, aget k m = Some v.
  Proof. unfold amem. destruct (aget k m); split; try eauto; try discriminate. intros [v H]; discriminate. Qed.
End A.

Lemma str_eq_dec (a b : str) : {a = b} + {a <> b}.
Proof. destruct (streqb a b) eqn:E; [left; apply streqb_eq; exact E | right; apply streqb_neq; exact E]. Qed.

(* ---- the acknowledgement branch of handle_cap ---------------------------- *)
Lemma handle_cap_ack ord cfg tls now st a toks :
  handle_cap ord cfg tls now st (ack_params a toks) = ack_result cfg tls now st toks.
Proof.
  unfold handle_cap, ack_result, ack_params, ack_enabled, finish_ack.
  change (param1 [a; s_ACK; toks]) with s_ACK.
  change (length [a; s_ACK; toks]) with 3%nat.
  change (last_or_empty [a; s_ACK; toks]) with toks.
  replace (streqb s_ACK s_DEL) with false by reflexivity.
  replace (streqb s_ACK s_NAK) with false by reflexivity.
  replace (streqb s_ACK s_LS) with false by reflexivity.
  replace (streqb s_ACK s_NEW) with false by reflexivity.
  replace (streqb s_ACK s_ACK) with true by reflexivity.
  cbn [Nat.leb Nat.eqb andb orb app].
  destruct (aget s_sts _) as [v|]; [|destruct (aget s_sasl _), (c_sasl cfg); reflexivity].
  destruct (negb (c_disable_sts cfg)); [|destruct (aget s_sasl _), (c_sasl cfg); reflexivity].
  destruct (snd (sts_block tls now v (st_sts st))); [reflexivity|].
  destruct (negb tls); [reflexivity|].
  destruct (aget s_sasl _), (c_sasl cfg); reflexivity.
Qed.

(* every other event: the policy is untouched and only lines are written *)
Definition is_ack3 (params : list str) : bool :=
  Nat.eqb (length params) 3 && streqb (param1 params) s_ACK.

Lemma is_ack3_shape params : is_ack3 params = true -> exists a toks, params = ack_params a toks.
Proof.
  unfold is_ack3, ack_params. intros H. apply andb_true_iff in H. destruct H as [Hn Hp].
  apply Nat.eqb_eq in Hn.
  destruct params as [|a [|b [|c [|d r]]]]; simpl in Hn; try discriminate.
  unfold param1 in Hp. simpl in Hp. apply streqb_eq in Hp. subst b. exists a, c. reflexivity.
Qed.

Lemma is_ack3_ack_params a toks : is_ack3 (ack_params a toks) = true.
Proof. reflexivity. Qed.

Lemma handle_cap_other ord cfg tls now st params :
  is_ack3 params = false ->
  st_sts (fst (handle_cap ord cfg tls now st params)) = st_sts st /\
  only_writes (snd (handle_cap ord cfg tls now st params)).
Proof.
  intros Hn. unfold is_ack3 in Hn. unfold handle_cap, only_writes.
  destruct (Nat.leb 2 (length params) && streqb (param1 params) s_DEL) eqn:E1.
  { simpl. split; [reflexivity|intros o []]. }
  destruct (Nat.leb 2 (length params) && streqb (param1 params) s_NAK) eqn:E2.
  { simpl. split; [reflexivity|]. intros o [<-|[]]. reflexivity. }
  cbv zeta.
  destruct (Nat.leb 3 (length params) && (streqb (param1 params) s_LS || streqb (param1 params) s_NEW)
            && Nat.eqb (length params) 3 && Nat.eqb (length _) 0) eqn:E3.
  { simpl. split; [reflexivity|]. intros o [<-|[]]. reflexivity. }
  rewrite Hn. cbn [fst snd st_sts]. split; [reflexivity|].
  intros o Ho.
  match type of Ho with In _ (if ?c then _ else _) => destruct c end; [|destruct Ho].
  destruct Ho as [<-|[]]. reflexivity.
Qed.
