(* Lemmas about Lib/CapLib.v (association-list maps) and the Bytes fragments the
   capability model uses (streqb, split_byte, join, index_byte). *)
From Coq Require Import Lia.
Require Import Bytes CapLib.

(* ---- streqb ---------------------------------------------------------------- *)
Lemma streqb_iff a b : streqb a b = true <-> a = b.
Proof.
  revert b; induction a as [|x a IH]; destruct b as [|y b]; simpl; split; intro H;
    try discriminate; try reflexivity.
  - apply andb_true_iff in H as [H1 H2]. apply N.eqb_eq in H1. apply IH in H2. congruence.
  - inversion H; subst. rewrite N.eqb_refl. simpl. now apply IH.
Qed.

Lemma streqb_same a : streqb a a = true.
Proof. now apply streqb_iff. Qed.

Lemma streqb_neq_iff a b : streqb a b = false <-> a <> b.
Proof.
  split.
  - intros H E. apply streqb_iff in E. congruence.
  - intros H. destruct (streqb a b) eqn:E; [|reflexivity]. apply streqb_iff in E. contradiction.
Qed.

Lemma str_eq_dec (a b : str) : a = b \/ a <> b.
Proof. destruct (streqb a b) eqn:E; [left; now apply streqb_iff | right; now apply streqb_neq_iff]. Qed.

(* ---- amap -------------------------------------------------------------------- *)
Section AMap.
  Context {V : Type}.
  Implicit Types (m : amap V) (k x : str).

  Lemma aget_Some_In k m v : aget k m = Some v -> In k (akeys m).
  Proof.
    induction m as [|[k' v'] m IH]; simpl; [discriminate|].
    destruct (streqb k' k) eqn:E; [apply streqb_iff in E; auto|]. intros H. right. auto.
  Qed.

  Lemma amem_In k m : amem k m = true <-> In k (akeys m).
  Proof.
    unfold amem. induction m as [|[k' v'] m IH]; simpl; [split; [discriminate|tauto]|].
    destruct (streqb k' k) eqn:E.
    - apply streqb_iff in E. split; auto.
    - apply streqb_neq_iff in E. rewrite IH. split; [auto|]. intros [H|H]; [contradiction|exact H].
  Qed.

  Lemma amem_false_In k m : amem k m = false <-> ~ In k (akeys m).
  Proof.
    rewrite <- amem_In. destruct (amem k m); split; intro H; try reflexivity; try discriminate.
    exfalso. apply H. reflexivity.
  Qed.

  Lemma aget_None_In k m : aget k m = None <-> ~ In k (akeys m).
  Proof.
    rewrite <- amem_false_In. unfold amem. destruct (aget k m); split; intro H; congruence.
  Qed.

  Lemma akeys_adel k x m : In x (akeys (adel k m)) <-> x <> k /\ In x (akeys m).
  Proof.
    induction m as [|[k' v'] m IH]; simpl; [tauto|].
    destruct (streqb k' k) eqn:E.
    - apply streqb_iff in E. subst k'. rewrite IH. split; [tauto|]. intros [H1 [H2|H2]]; [congruence|tauto].
    - apply streqb_neq_iff in E. simpl. rewrite IH. split.
      + intros [H|[H1 H2]]; [subst; split; auto|tauto].
      + tauto.
  Qed.

  Lemma akeys_aset k v x m : In x (akeys (aset k v m)) <-> x = k \/ In x (akeys m).
  Proof.
    unfold aset. simpl. rewrite akeys_adel. destruct (str_eq_dec x k) as [E|E]; [subst|]; split; auto; try tauto.
    intros [H|H]; [auto|]. right. tauto.
  Qed.

  Lemma akeys_nil_length m : length m = 0%nat <-> akeys m = [].
  Proof. destruct m; simpl; split; intro H; try reflexivity; discriminate. Qed.

  Lemma akeys_fold_adel ks x m :
    In x (akeys (fold_left (fun en k => adel k en) ks m)) <-> In x (akeys m) /\ ~ In x ks.
  Proof.
    revert m; induction ks as [|k ks IH]; intro m; simpl; [tauto|].
    rewrite IH, akeys_adel. split.
    - intros [[H1 H2] H3]. split; [exact H2|]. intros [H|H]; [congruence|contradiction].
    - intros [H1 H2]. split; [split; [|exact H1]|]; intro H; apply H2; [left; congruence|right; exact H].
  Qed.

  Lemma akeys_fold_aset_keys (l : list str) (f : str -> V) x m :
    In x (akeys (fold_left (fun o k => aset k (f k) o) l m)) <-> In x l \/ In x (akeys m).
  Proof.
    revert m; induction l as [|k l IH]; intro m; simpl; [tauto|].
    rewrite IH, akeys_aset. split; intros H; intuition congruence.
  Qed.

  Lemma akeys_fold_aset_pairs (l : list (str * V)) x m :
    In x (akeys (fold_left (fun o kv => aset (fst kv) (snd kv) o) l m)) <->
    In x (List.map fst l) \/ In x (akeys m).
  Proof.
    revert m; induction l as [|kv l IH]; intro m; simpl; [tauto|].
    rewrite IH, akeys_aset. split; intros H; intuition congruence.
  Qed.
End AMap.

(* ---- index_byte / split_byte / join ---------------------------------------------- *)
Lemma index_byte_lt c s i : index_byte c s = Some i -> (i < length s)%nat.
Proof.
  revert i; induction s as [|x s IH]; intro i; simpl; [discriminate|].
  destruct (N.eqb x c); [intros H; inversion H; lia|].
  destruct (index_byte c s) as [j|]; simpl; [|discriminate].
  intros H; inversion H; subst. specialize (IH j eq_refl). lia.
Qed.

Lemma split_byte_cons_shape c s : exists p ps, split_byte c s = p :: ps.
Proof.
  induction s as [|x s [p [ps IH]]]; simpl; [eauto|].
  destruct (N.eqb x c); [eauto|]. rewrite IH. eauto.
Qed.

Lemma split_byte_no_sep c s p : In p (split_byte c s) -> ~ In c p.
Proof.
  revert p; induction s as [|x s IH]; intro p; simpl.
  - intros [H|[]]; subst; auto.
  - destruct (N.eqb x c) eqn:E.
    + intros [H|H]; [subst; auto|auto].
    + destruct (split_byte c s) as [|q qs] eqn:S.
      * intros [H|[]]; subst. intros [H|[]]. apply N.eqb_neq in E. congruence.
      * intros [H|H].
        -- subst p. intros [H|H]; [apply N.eqb_neq in E; congruence|]. apply (IH q); [left; reflexivity|exact H].
        -- apply IH. right. exact H.
Qed.

Lemma split_byte_sep_free c s : ~ In c s -> split_byte c s = [s].
Proof.
  induction s as [|x s IH]; simpl; intro H; [reflexivity|].
  destruct (N.eqb x c) eqn:E; [apply N.eqb_eq in E; exfalso; apply H; auto|].
  rewrite IH; [reflexivity|]. intro H'. apply H. auto.
Qed.

Lemma split_byte_app_sep c a r : ~ In c a -> split_byte c (a ++ c :: r) = a :: split_byte c r.
Proof.
  induction a as [|x a IH]; simpl; intro H.
  - rewrite N.eqb_refl. reflexivity.
  - destruct (N.eqb x c) eqn:E; [apply N.eqb_eq in E; exfalso; apply H; auto|].
    rewrite IH; [reflexivity|]. intro H'. apply H. auto.
Qed.

Lemma split_join c l : l <> [] -> (forall x, In x l -> ~ In c x) -> split_byte c (join [c] l) = l.
Proof.
  induction l as [|x l IH]; [congruence|]. intros _ H.
  destruct l as [|y l].
  - simpl. apply split_byte_sep_free. apply H. left. reflexivity.
  - change (join [c] (x :: y :: l)) with (x ++ [c] ++ join [c] (y :: l)).
    simpl app. rewrite split_byte_app_sep by (apply H; left; reflexivity).
    f_equal. apply IH; [discriminate|]. intros z Hz. apply H. right. exact Hz.
Qed.

Lemma firstn_no_sep (c : N) n (s : str) : ~ In c s -> ~ In c (firstn n s).
Proof.
  revert n; induction s as [|x s IH]; intros [|n]; simpl; auto.
  intros H [H'|H']; [apply H; auto|]. apply (IH n); [|exact H']. intro H''. apply H. auto.
Qed.
