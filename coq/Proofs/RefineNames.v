(* C04 simulation: RPL_NAMREPLY (353), with multi-prefix and userhost-in-names. *)
Require Import Bytes AMap SMap Names State StateGetters NetRef.
Require Import OrderLemmas AMapLemmas SMapLemmas NamesProofs StateInv StateHandlers NetRefLemmas StateRefine RefineSimple RefineJoin RefineLeave.
From Coq Require Import Lia ZifyBool ZifyN ZifyNat.

(* ---- reading one entry ---- *)

Lemma is_prefix_char_sym b : is_prefix_char b = is_sym b.
Proof. unfold is_prefix_char, is_sym. destruct (b =? 126), (b =? 38), (b =? 37), (b =? 64), (b =? 43); reflexivity. Qed.

Lemma parse_user_prefix_span : forall raw acc,
  parse_user_prefix raw acc =
  match span_syms raw with
  | (p, []) => None
  | (p, b :: body) => Some (acc ++ p, b :: body)
  end.
Proof.
  induction raw as [|b raw IH]; intros acc; simpl; [reflexivity|].
  rewrite is_prefix_char_sym. destruct (is_sym b) eqn:E.
  - rewrite IH. destruct (span_syms raw) as [p body]. destruct body; [reflexivity|]. rewrite <- app_assoc. reflexivity.
  - rewrite app_nil_r. reflexivity.
Qed.

Lemma perms_set_prefix_spec : forall syms p,
  perms_set_prefix p syms =
  mkPerms (p_owner p || memb 126 syms) (p_admin p || memb 38 syms) (p_op p || memb 64 syms)
          (p_halfop p || memb 37 syms) (p_voice p || memb 43 syms).
Proof.
  unfold perms_set_prefix. induction syms as [|b syms IH]; intros p; simpl.
  - rewrite !orb_false_r. destruct p; reflexivity.
  - rewrite IH. destruct (b =? 126) eqn:E1; [assert (b = 126) by lia; subst; simpl; rewrite !orb_true_r; reflexivity|].
    destruct (b =? 38) eqn:E2; [assert (b = 38) by lia; subst; simpl; rewrite !orb_true_r; reflexivity|].
    destruct (b =? 64) eqn:E3; [assert (b = 64) by lia; subst; simpl; rewrite !orb_true_r; reflexivity|].
    destruct (b =? 37) eqn:E4; [assert (b = 37) by lia; subst; simpl; rewrite !orb_true_r; reflexivity|].
    destruct (b =? 43) eqn:E5; [assert (b = 43) by lia; subst; simpl; rewrite !orb_true_r; reflexivity|].
    simpl. reflexivity.
Qed.

Lemma perms_set_prefix_syms syms : perms_set_prefix perms0 syms = perms_of_syms syms.
Proof. rewrite perms_set_prefix_spec. reflexivity. Qed.

Lemma nick_rest_no_special b : nick_rest_ok b = true -> b <> 33 /\ b <> 64.
Proof. unfold nick_rest_ok, in_A_rbrace, is_digit. lia. Qed.

Lemma forallb_no (p : N -> bool) c : (forall b, p b = true -> b <> c) -> forall r, forallb p r = true -> memb c r = false.
Proof.
  intros Hp. induction r as [|b r IH]; simpl; [reflexivity|]. intros H. apply andb_prop in H. destruct H as [H1 H2].
  pose proof (Hp _ H1). assert (b =? c = false) by lia. rewrite H0. simpl. apply IH, H2.
Qed.

Lemma valid_nick_no_special s : is_valid_nick s = true -> memb 33 s = false /\ memb 64 s = false.
Proof.
  unfold is_valid_nick. destruct s as [|c r]; [discriminate|]. intros H. apply andb_prop in H. destruct H as [H1 H2].
  assert (R1 : memb 33 r = false) by (apply (forallb_no nick_rest_ok); [intros b Hb; apply nick_rest_no_special, Hb|exact H2]).
  assert (R2 : memb 64 r = false) by (apply (forallb_no nick_rest_ok); [intros b Hb; apply nick_rest_no_special, Hb|exact H2]).
  simpl. rewrite R1, R2. unfold nick_first_ok, in_A_rbrace in H1.
  assert (c =? 33 = false) by lia. assert (c =? 64 = false) by lia. rewrite H, H0. split; reflexivity.
Qed.

Lemma index_byte_after c d : c <> d -> forall s j j',
  index_byte d s = Some j -> memb c (firstn j s) = false -> index_byte c (skipn (j + 1) s) = Some j' ->
  index_byte c s = Some (j + 1 + j')%nat.
Proof.
  intros Hcd. induction s as [|b s IH]; intros j j' Hd Hm Hc; simpl in *; [discriminate|].
  destruct (b =? d) eqn:Ed.
  - injection Hd as <-. simpl in Hc. assert (b =? c = false) by lia. rewrite H. rewrite Hc. reflexivity.
  - destruct (index_byte d s) as [j0|] eqn:Ej; [|discriminate]. simpl in Hd. injection Hd as <-. simpl in Hm, Hc.
    destruct (b =? c) eqn:Ec; [simpl in Hm; discriminate|]. simpl in Hm.
    rewrite (IH j0 j' eq_refl Hm Hc). reflexivity.
Qed.

Lemma memb_firstn_before c : forall s j, index_byte c s = Some j -> before c s = firstn j s /\ after c s = skipn (j + 1) s /\ (j < length s)%nat.
Proof.
  induction s as [|b s IH]; intros j H; simpl in *; [discriminate|].
  destruct (b =? c) eqn:E.
  - injection H as <-. simpl. repeat split. lia.
  - destruct (index_byte c s) as [j0|]; [|discriminate]. simpl in H. injection H as <-. destruct (IH j0 eq_refl) as (A & B & C).
    simpl. rewrite A, B. repeat split. lia.
Qed.

Lemma skipn_skipn' {A} : forall (x y : nat) (l : list A), skipn x (skipn y l) = skipn (y + x) l.
Proof.
  intros x y. revert x. induction y as [|y IH]; intros x l; simpl; [reflexivity|]. destruct l as [|a l]; [destruct x; reflexivity|]. apply IH.
Qed.

Lemma memb_index c : forall s, memb c s = true -> exists j, index_byte c s = Some j.
Proof.
  induction s as [|b s IH]; simpl; [discriminate|]. destruct (b =? c); simpl; [eexists; reflexivity|].
  intros H. destruct (IH H) as [j Hj]. rewrite Hj. eexists; reflexivity.
Qed.

(* nick!ident@host is read as the reference model reads it *)
Lemma parse_source_uh body :
  memb 33 body = true -> is_valid_nick (before 33 body) = true -> memb 64 (after 33 body) = true ->
  parse_source body = entry_source body /\ memb 64 body = true.
Proof.
  intros H33 Hnick H64. unfold entry_source. rewrite H33.
  destruct (memb_index 33 _ H33) as [u Hu]. destruct (memb_firstn_before 33 _ _ Hu) as (Bu & Au & Lu).
  destruct (memb_index 64 _ H64) as [j' Hj']. destruct (memb_firstn_before 64 _ _ Hj') as (Bh & Ah & Lh).
  destruct (valid_nick_no_special _ Hnick) as [_ Hno64]. rewrite Bu in Hno64.
  rewrite Au in Hj'. assert (Hh : index_byte 64 body = Some (u + 1 + j')%nat) by (apply (index_byte_after 64 33 ltac:(lia) body u j' Hu Hno64 Hj')).
  assert (Hu0 : (0 < u)%nat).
  { destruct u; [|lia]. rewrite Bu in Hnick. simpl in Hnick. discriminate. }
  split.
  - unfold parse_source. rewrite Hu, Hh.
    assert (E1 : Nat.ltb 0 u = true) by (apply PeanoNat.Nat.ltb_lt; lia).
    assert (E2 : Nat.ltb u (u + 1 + j') = true) by (apply PeanoNat.Nat.ltb_lt; lia).
    rewrite E1, E2. simpl andb. cbv iota. rewrite Bu, Bh, Ah, Au. f_equal.
    + f_equal. lia.
    + rewrite skipn_skipn'. f_equal. lia.
  - destruct (memb 64 body) eqn:E; [reflexivity|]. rewrite (index_byte_none _ _ E) in Hh. discriminate.
Qed.

Lemma mem_str_add_sorted n x l : mem_str n (add_sorted x l) = streqb n x || mem_str n l.
Proof.
  destruct (mem_str n (add_sorted x l)) eqn:E.
  - apply mem_str_in, add_sorted_in in E. destruct E as [->|E]; [rewrite streqb_refl; reflexivity|].
    apply mem_str_in in E. rewrite E. symmetry. apply orb_true_r.
  - apply mem_str_false in E. symmetry. apply orb_false_iff. split.
    + apply streqb_neq. intros ->. apply E, add_sorted_in. left; reflexivity.
    + apply mem_str_false. intros H. apply E, add_sorted_in. right; exact H.
Qed.

Section Names.
Variables (s : state) (r : ref).
Hypothesis (I : Inv s) (F : Fresh s) (S : Sim s r) (W : RWf r).
Variable chan : str.
Let kc := fold chan.
Hypothesis Htr : alookup kc (st_channels s) <> None.

(* what the impl-model reads off an acceptable entry *)
Lemma entry_read en : ok_entry r en = true ->
  let '(syms, body) := span_syms en in
  match body with
  | [] => names_entry kc s en = s
  | _ =>
      names_entry kc s en =
      (let src := entry_source body in
       let s1 := create_user s src in
       match alookup kc (st_channels s1), lookup_user s1 (s_name src) with
       | Some c, Some u =>
           let u1 := user_add_channel u (c_name c) in
           let c1 := channel_add_user c (fold (s_name src)) in
           let u2 := u_set_perms u1 (aset (fold (c_name c)) (perms_of_syms syms) (u_perms u1)) in
           set_users (set_channels s1 (aset kc c1 (st_channels s1))) (aset (fold (s_name src)) u2 (st_users s1))
       | _, _ => s1
       end)
  end.
Proof.
  intros Hok. unfold ok_entry in Hok. unfold names_entry. rewrite parse_user_prefix_span.
  destruct (span_syms en) as [syms body]. destruct body as [|b0 body]; [reflexivity|]. simpl app.
  set (bd := b0 :: body) in *.
  assert (Hsrc : (if memb 64 bd then Some (parse_source bd) else if is_valid_nick bd then Some (mkSource bd [] []) else None)
                 = Some (entry_source bd)).
  { change (match bd with [] => is_nil syms | _ :: _ => if memb 33 bd then is_valid_nick (before 33 bd) && memb 64 (after 33 bd) && negb (memb 64 (before 33 bd)) && consistent_user r (entry_source bd) else is_valid_nick bd end = true) with
      ((if memb 33 bd then is_valid_nick (before 33 bd) && memb 64 (after 33 bd) && negb (memb 64 (before 33 bd)) && consistent_user r (entry_source bd) else is_valid_nick bd) = true) in Hok.
    destruct (memb 33 bd) eqn:E33.
    - apply andb_prop in Hok. destruct Hok as [Hok _]. apply andb_prop in Hok. destruct Hok as [Hok _]. apply andb_prop in Hok. destruct Hok as [Hn H64].
      destruct (parse_source_uh bd E33 Hn H64) as [P1 P2]. rewrite P2, P1. reflexivity.
    - destruct (valid_nick_no_special _ Hok) as [_ H64]. rewrite H64, Hok. unfold entry_source. rewrite E33. reflexivity. }
  rewrite Hsrc. rewrite perms_set_prefix_syms. reflexivity.
Qed.

End Names.

(* one entry keeps the simulation *)
Lemma entry_sim s r chan en : Inv s -> Fresh s -> Sim s r -> RWf r ->
  alookup (fold chan) (st_channels s) <> None -> ok_entry r en = true ->
  Sim (names_entry (fold chan) s en) (ref_names_entry chan r en) /\ Fresh (names_entry (fold chan) s en).
Proof.
  intros I F S W Htr Hok. pose proof (entry_read s r chan en Hok) as Hread. unfold ref_names_entry.
  destruct (span_syms en) as [syms body]. destruct body as [|b0 body]; [rewrite Hread; split; assumption|].
  set (bd := b0 :: body) in *. rewrite Hread. clear Hread. set (src := entry_source bd). cbv zeta.
  set (kc := fold chan) in *. set (kn := fold (s_name src)).
  set (s1 := create_user s src).
  pose proof (create_user_fields s src) as HB. fold s1 in HB. destruct HB as (B1 & B2 & B3 & B4 & B5 & B6).
  destruct (alookup kc (st_channels s)) as [c|] eqn:Ec; [|congruence]. rewrite B1, Ec.
  set (u0 := match alookup kn (st_users s) with Some u => u | None => mkUser (s_name src) (s_ident src) (s_host src) [] [] [] [] [] end).
  assert (Lu : lookup_user s1 (s_name src) = Some u0).
  { unfold lookup_user, s1. rewrite create_user_lookup, streqb_refl. reflexivity. }
  rewrite Lu.
  assert (Hck : fold (c_name c) = kc) by apply (inv_ckey I _ _ Ec).
  assert (Hun : fold (u_nick u0) = kn) by (unfold u0; destruct (alookup kn (st_users s)) as [u|] eqn:E; [apply (inv_ukey I _ _ E)|reflexivity]).
  set (u1 := user_add_channel u0 (c_name c)). set (c1 := channel_add_user c kn). rewrite Hck.
  set (u2 := u_set_perms u1 (aset kc (perms_of_syms syms) (u_perms u1))).
  set (sF := set_users (set_channels s1 (aset kc c1 (st_channels s))) (aset kn u2 (st_users s1))).
  assert (LC : forall k, alookup k (st_channels sF) = if streqb k kc then Some c1 else alookup k (st_channels s)).
  { intros k. unfold sF. sproj. apply alookup_aset. }
  assert (LU : forall k, alookup k (st_users sF) = if streqb k kn then Some u2 else alookup k (st_users s)).
  { intros k. unfold sF. sproj. rewrite alookup_aset. destruct (streqb k kn) eqn:Ek; [reflexivity|].
    unfold s1. rewrite create_user_lookup. fold kn. rewrite Ek. reflexivity. }
  assert (C1u : c_users c1 = add_sorted kn (c_users c)) by (unfold c1; rewrite channel_add_user_users; unfold kn; rewrite fold_idem; reflexivity).
  assert (U1p : forall k, k <> kc -> alookup k (u_perms u2) = alookup k (u_perms u0)).
  { intros k Hk. unfold u2. cbn [u_perms u_set_perms]. rewrite alookup_aset. apply streqb_neq in Hk. rewrite Hk.
    unfold u1, user_add_channel. destruct (user_in_channel u0 (c_name c)); [reflexivity|]. cbn [u_perms u_set_perms u_set_chans].
    rewrite alookup_aset, Hck, Hk. reflexivity. }
  (* reference side *)
  set (r1 := ensure_user r src).
  assert (R1 : r_chans r1 = r_chans r /\ r_opts r1 = r_opts r /\ r_me r1 = r_me r /\ r_ident r1 = r_ident r /\ r_host r1 = r_host r /\ r_motd r1 = r_motd r)
    by (unfold r1, ensure_user; destruct (alookup (key (s_name src)) (r_users r)); repeat split).
  destruct R1 as (RC & RO & RN & RI & RH & RM).
  assert (RU : forall k, alookup k (r_users r1) = if streqb k kn then Some (abs_user u0) else alookup k (r_users r)).
  { intros k. unfold r1, ensure_user. change (key (s_name src)) with kn. unfold u0. rewrite (sim_users _ _ S kn).
    destruct (alookup kn (st_users s)) as [u|] eqn:Eu; cbn [option_map].
    - destruct (streqb k kn) eqn:Ek; [|reflexivity]. apply streqb_eq in Ek. subst k. rewrite (sim_users _ _ S), Eu. reflexivity.
    - rproj. rewrite alookup_sm_set by apply (wf_users _ W). reflexivity. }
  split.
  - constructor; rproj.
    + rewrite RN. unfold sF. sproj. rewrite B3. apply S.
    + rewrite RI. unfold sF. sproj. rewrite B4. apply S.
    + rewrite RH. unfold sF. sproj. rewrite B5. apply S.
    + rewrite RM. unfold sF. sproj. rewrite B6. apply S.
    + intros k. rewrite LC, alookup_sm_adjust, RC. change (key chan) with kc. pose proof (sim_chans _ _ S k) as H.
      assert (PERM : forall k' n, k' <> kc -> (exists c', alookup k' (st_channels s) = Some c' /\ In n (c_users c')) -> abs_perm sF k' n = abs_perm s k' n).
      { intros k' n Hk' (c' & Hc' & Hin). unfold abs_perm. rewrite LU. destruct (streqb n kn) eqn:En; [|reflexivity].
        apply streqb_eq in En. subst n. rewrite (U1p _ Hk'). unfold u0.
        destruct (alookup kn (st_users s)) as [u|] eqn:Eu; [reflexivity|]. destruct (inv_cu I _ _ _ Hc' Hin) as (u & Hu & _). congruence. }
      destruct (streqb k kc) eqn:Ek.
      * apply streqb_eq in Ek. subst k. rewrite Ec in H. unfold opt_rel in *. destruct (alookup kc (r_chans r)) as [rc|] eqn:Er; [|contradiction].
        cbn [option_map]. destruct H as [A B C D].
        assert (C1x : c_name c1 = c_name c /\ c_topic c1 = c_topic c /\ c_modes c1 = c_modes c)
          by (unfold c1, channel_add_user; destruct (channel_user_in c kn); repeat split).
        destruct C1x as (C1n & C1t & C1m).
        constructor; cbn [rc_name rc_topic rc_modes rc_members rc_set_members]; unfold amodes; rewrite ?C1n, ?C1t, ?C1m; try assumption.
        intros n. rewrite alookup_sm_set by apply (wf_members _ W _ _ Er). rewrite C1u, mem_str_add_sorted.
        change (key (s_name src)) with kn.
        destruct (streqb n kn) eqn:En.
        -- apply streqb_eq in En. subst n. cbn [orb]. f_equal. unfold abs_perm. rewrite LU, !streqb_refl.
           unfold u2. cbn [u_perms u_set_perms]. rewrite alookup_aset_eq. reflexivity.
        -- cbn [orb]. rewrite D. destruct (mem_str n (c_users c)) eqn:Em; [|reflexivity]. f_equal.
           unfold abs_perm. rewrite LU, En. reflexivity.
      * unfold opt_rel in *. destruct (alookup k (st_channels s)) as [c'|] eqn:Ec'; destruct (alookup k (r_chans r)) as [rc|]; try contradiction; [|exact Logic.I].
        destruct H as [A B C D]. constructor; try assumption. intros n. rewrite D.
        destruct (mem_str n (c_users c')) eqn:Em; [|reflexivity]. f_equal. symmetry. apply PERM.
        -- intros ->. rewrite streqb_refl in Ek. discriminate.
        -- exists c'. split; [exact Ec'|]. apply mem_str_in. exact Em.
    + intros k. rewrite LU, RU.
      assert (AU : abs_user u2 = abs_user u0) by (unfold u2, u1, user_add_channel; destruct (user_in_channel u0 (c_name c)); reflexivity).
      destruct (streqb k kn); [cbn [option_map]; rewrite AU; reflexivity|apply S].
    + intros k. rewrite RO. unfold sF. sproj. rewrite B2. apply S.
  - intros k c'. rewrite LC. unfold chan_modes, user_prefixes. unfold sF. sproj. rewrite B2. destruct (streqb k kc); [|apply F].
    intros H; injection H as <-. unfold c1, channel_add_user. destruct (channel_user_in c kn); apply (F _ _ Ec).
Qed.

Lemma entries_sim chan : forall l s r, Inv s -> Fresh s -> Sim s r -> RWf r ->
  alookup (fold chan) (st_channels s) <> None -> ok_entries r chan l = true ->
  Sim (fold_left (names_entry (fold chan)) l s) (fold_left (ref_names_entry chan) l r) /\
  Fresh (fold_left (names_entry (fold chan)) l s).
Proof.
  induction l as [|en l IH]; intros s r I F S W Htr Hok; simpl; [split; assumption|].
  simpl in Hok. apply andb_prop in Hok. destruct Hok as [Hok1 Hok2].
  destruct (entry_sim s r chan en I F S W Htr Hok1) as [S' F'].
  destruct (names_entry_inv (fold chan) s en (fold_idem _) (conj I Htr)) as [I' Htr'].
  apply IH; try assumption. apply rwf_names_entry, W.
Qed.

Section NamesCmd.
Variable cfg : config.
Variables (s : state) (r : ref) (e : event).
Hypothesis (I : Inv s) (F : Fresh s) (S : Sim s r) (W : RWf r).

Lemma step_353 : e_cmd e = c_353 -> cmd_ok r e = true -> step_ok cfg s r e.
Proof.
  intros Hc Hok.
  assert (Hh : handle_cmd cfg s e = Ok (handle_names s e, [])) by (unfold handle_cmd, cmd_is; rewrite Hc; reduce_cmd c_353; reflexivity).
  assert (Hr : ref_cmd r e = match e_params e with _ :: _ :: chan :: _ => ref_names r chan (last_of e) | _ => r end)
    by (unfold ref_cmd, cmdb; rewrite Hc; reduce_cmd c_353; reflexivity).
  unfold cmd_ok, cmdb in Hok. rewrite Hc in Hok. reduce_cmd_in c_353 Hok.
  apply andb_prop in Hok. destruct Hok as [_ Hok].
  destruct (e_params e) as [|p0 [|p1 [|chan [|names [|p4 l]]]]] eqn:Ep; try discriminate.
  apply andb_prop in Hok. destruct Hok as [Htr Hen].
  unfold handle_names in Hh. rewrite Ep in Hh. unfold param, last_param in Hh. rewrite Ep in Hh. simpl in Hh.
  unfold last_of in Hr. rewrite Ep in Hr. simpl in Hr. unfold ref_names in Hr. rewrite Htr in Hr.
  unfold tracked_chan in Htr. change (key chan) with (fold chan) in Htr.
  assert (Htr' : alookup (fold chan) (st_channels s) <> None).
  { pose proof (sim_chans _ _ S (fold chan)) as H. unfold opt_rel in H. destruct (alookup (fold chan) (st_channels s)); [discriminate|].
    destruct (alookup (fold chan) (r_chans r)); [contradiction|discriminate]. }
  unfold lookup_channel in Hh. destruct (alookup (fold chan) (st_channels s)) as [c|] eqn:Ec; [|congruence].
  rewrite <- Ec in Htr'.
  destruct (entries_sim chan (split_byte 32 names) s r I F S W Htr' Hen) as [S' F'].
  eexists _, []. split; [exact Hh|]. split; [exact F'|]. intros I'. rewrite Hr.
  apply sim_gc_of_sim; [exact I'|apply rwf_names_fold, W|exact S'].
Qed.

End NamesCmd.
