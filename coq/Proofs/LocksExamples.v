(* C12: the hypotheses of the theorems are satisfiable, and they are needed.
   good: one entry point that writes under its lock passes both checkers and has a non-empty
   trace.  racy: the same write without the lock is rejected, and two goroutines running it
   do reach a race.  inverted: two entry points taking two mutexes in opposite orders are
   rejected by the order checker, and two goroutines running them do reach a wait-for cycle. *)
From Coq Require Import List Relations.
Require Import Locks LocksProofs.
Import ListNotations.

Definition good : program :=
  {| p_funs := [Seq (Acq 0 MW) (Seq (Wr 0) (Rel 0 MW))]; p_guard := [0]; p_rank := [0];
     p_entries := [0]; p_excl := [] |}.

Example good_checks : check_locksets good = true /\ check_order good = true.
Proof. split; vm_compute; reflexivity. Qed.

Example good_runs : runs good [EAcq 0 MW false; EWr 0 false; ERel 0 MW].
Proof.
  apply (R_cons good 0 (Seq (Acq 0 MW) (Seq (Wr 0) (Rel 0 MW))) [EAcq 0 MW false; EWr 0 false; ERel 0 MW] []);
    [now left | | apply R_nil].
  apply (F_intro good [] _ [EAcq 0 MW false; EWr 0 false; ERel 0 MW] ONormal [] []); [|apply U_nil].
  apply (X_seq_n good [] _ _ [] [EAcq 0 MW false] [] [EWr 0 false; ERel 0 MW] ONormal []); [apply (X_acq good [] 0 MW [])|].
  apply (X_seq_n good [] _ _ [] [EWr 0 false] [] [ERel 0 MW] ONormal []); [apply (X_wr good [] 0 [])| apply X_rel].
Qed.

Definition racy : program :=
  {| p_funs := [Wr 0]; p_guard := [0]; p_rank := [0]; p_entries := [0]; p_excl := [] |}.

Example racy_rejected : check_locksets racy = false.
Proof. vm_compute; reflexivity. Qed.

Lemma racy_runs : runs racy [EWr 0 false].
Proof.
  apply (R_cons racy 0 (Wr 0) [EWr 0 false] []); [now left | | apply R_nil].
  apply (F_intro racy [] _ [EWr 0 false] ONormal [] []); [apply (X_wr racy [] 0 [])|apply U_nil].
Qed.

Example racy_races :
  exists traces s, Forall (runs racy) traces /\ msteps (init_state traces) s /\ race s.
Proof.
  exists [[EWr 0 false]; [EWr 0 false]], (init_state [[EWr 0 false]; [EWr 0 false]]).
  split; [repeat constructor; apply racy_runs|]. split; [apply ms_refl|].
  exists 0, 1, {| hs := []; rest := [EWr 0 false] |}, {| hs := []; rest := [EWr 0 false] |}, 0, [], [].
  simpl. repeat split; auto.
Qed.

Definition inverted : program :=
  {| p_funs := [Seq (Acq 0 MW) (Seq (Acq 1 MW) (Seq (Rel 1 MW) (Rel 0 MW)));
                Seq (Acq 1 MW) (Seq (Acq 0 MW) (Seq (Rel 0 MW) (Rel 1 MW)))];
     p_guard := []; p_rank := [0; 1]; p_entries := [0; 1]; p_excl := [] |}.

Example inverted_rejected : check_order inverted = false.
Proof. vm_compute; reflexivity. Qed.

Definition tA := [EAcq 0 MW false; EAcq 1 MW false; ERel 1 MW; ERel 0 MW].
Definition tB := [EAcq 1 MW false; EAcq 0 MW false; ERel 0 MW; ERel 1 MW].

Lemma inverted_runs : runs inverted tA /\ runs inverted tB.
Proof.
  split.
  - apply (R_cons inverted 0 (Seq (Acq 0 MW) (Seq (Acq 1 MW) (Seq (Rel 1 MW) (Rel 0 MW)))) tA []); [now left | | apply R_nil].
    apply (F_intro inverted [] _ tA ONormal [] []); [|apply U_nil].
    apply (X_seq_n inverted [] _ _ [] [EAcq 0 MW false] [] (tl tA) ONormal []); [apply (X_acq inverted [] 0 MW [])|].
    apply (X_seq_n inverted [] _ _ [] [EAcq 1 MW false] [] (tl (tl tA)) ONormal []); [apply (X_acq inverted [] 1 MW [])|].
    apply (X_seq_n inverted [] _ _ [] [ERel 1 MW] [] [ERel 0 MW] ONormal []); apply X_rel.
  - apply (R_cons inverted 1 (Seq (Acq 1 MW) (Seq (Acq 0 MW) (Seq (Rel 0 MW) (Rel 1 MW)))) tB []); [right; now left | | apply R_nil].
    apply (F_intro inverted [] _ tB ONormal [] []); [|apply U_nil].
    apply (X_seq_n inverted [] _ _ [] [EAcq 1 MW false] [] (tl tB) ONormal []); [apply (X_acq inverted [] 1 MW [])|].
    apply (X_seq_n inverted [] _ _ [] [EAcq 0 MW false] [] (tl (tl tB)) ONormal []); [apply (X_acq inverted [] 0 MW [])|].
    apply (X_seq_n inverted [] _ _ [] [ERel 0 MW] [] [ERel 1 MW] ONormal []); apply X_rel.
Qed.

Example inverted_deadlocks :
  exists traces s, Forall (runs inverted) traces /\ msteps (init_state traces) s /\
                   clos_trans nat (waits_for s) 0 0.
Proof.
  pose (s1 := [ {| hs := [(0, MW)]; rest := tl tA |}; {| hs := []; rest := tB |} ]).
  pose (s2 := [ {| hs := [(0, MW)]; rest := tl tA |}; {| hs := [(1, MW)]; rest := tl tB |} ]).
  exists [tA; tB], s2.
  split; [destruct inverted_runs; repeat constructor; auto|]. split.
  - apply ms_step with (s' := s1).
    + apply ms_step with (s' := init_state [tA; tB]); [apply ms_refl|].
      apply (S_acq (init_state [tA; tB]) 0 {| hs := []; rest := tA |} 0 MW false (tl tA)); auto.
      intros j t Hj [md Hin]. destruct j as [|[|j]]; simpl in Hj; [ | | destruct j; discriminate];
        injection Hj as <-; destruct Hin.
    + apply (S_acq s1 1 {| hs := []; rest := tB |} 1 MW false (tl tB)); auto.
      intros j t Hj [md Hin]. destruct j as [|[|j]]; simpl in Hj; [ | | destruct j; discriminate];
        injection Hj as <-; simpl in Hin.
      * destruct Hin as [Hin|[]]. discriminate.
      * destruct Hin.
  - apply t_trans with (y := 1); apply t_step.
    + exists {| hs := [(0, MW)]; rest := tl tA |}, {| hs := [(1, MW)]; rest := tl tB |}, 1, MW, [ERel 1 MW; ERel 0 MW], 0, MW, [ERel 0 MW; ERel 1 MW].
      repeat split; auto. left. split; auto. exists MW. now left.
    + exists {| hs := [(1, MW)]; rest := tl tB |}, {| hs := [(0, MW)]; rest := tl tA |}, 0, MW, [ERel 0 MW; ERel 1 MW], 1, MW, [ERel 1 MW; ERel 0 MW].
      repeat split; auto. left. split; auto. exists MW. now left.
Qed.
