(* C04 simulation, message types that change one user's fields, one channel's topic, or
   the scalars and server options: AWAY, ACCOUNT, CHGHOST, 352, 354, TOPIC, 332, 001, 004,
   005, 375, 372 and commands without a meaning for the tracked state. *)
Require Import Bytes AMap SMap Names State StateGetters NetRef.
Require Import OrderLemmas AMapLemmas SMapLemmas NamesProofs StateInv NetRefLemmas StateRefine.
From Coq Require Import Lia ZifyBool ZifyN ZifyNat.

Section Cmds.
Variable cfg : config.
Variables (s : state) (r : ref) (e : event).
Hypothesis (I : Inv s) (F : Fresh s) (S : Sim s r) (W : RWf r).

(* ---------- AWAY / ACCOUNT / CHGHOST ---------- *)

Lemma step_AWAY : e_cmd e = c_AWAY -> step_ok cfg s r e.
Proof.
  intros Hc.
  assert (Hh : handle_cmd cfg s e = Ok (handle_away s e, [])) by (unfold handle_cmd, cmd_is; rewrite Hc; reduce_cmd c_AWAY; reflexivity).
  assert (Hr : ref_cmd r e = match e_src e with Some src => upd_user r (s_name src) (fun u => ru_set_away u (last_of e)) | None => r end)
    by (unfold ref_cmd, cmdb; rewrite Hc; reduce_cmd c_AWAY; reflexivity).
  unfold handle_away, src_update in Hh. destruct (e_src e) as [src|].
  - eapply step_user_update; try eassumption; intros u; reflexivity.
  - eapply step_noop; eassumption.
Qed.

Lemma step_ACCOUNT : e_cmd e = c_ACCOUNT -> step_ok cfg s r e.
Proof.
  intros Hc.
  assert (Hh : handle_cmd cfg s e = Ok (handle_account s e, [])) by (unfold handle_cmd, cmd_is; rewrite Hc; reduce_cmd c_ACCOUNT; reflexivity).
  assert (Hr : ref_cmd r e = match e_src e, e_params e with
                             | Some src, [a] => upd_user r (s_name src) (fun u => ru_set_account u (if streqb a [42] then [] else a))
                             | _, _ => r end)
    by (unfold ref_cmd, cmdb; rewrite Hc; reduce_cmd c_ACCOUNT; reflexivity).
  unfold handle_account, src_update in Hh. destruct (e_params e) as [|a [|b l]].
  - eapply step_noop; try eassumption. destruct (e_src e); exact Hr.
  - destruct (e_src e) as [src|].
    + eapply step_user_update; try eassumption; intros u; reflexivity.
    + eapply step_noop; eassumption.
  - eapply step_noop; try eassumption. destruct (e_src e); exact Hr.
Qed.

Lemma step_CHGHOST : e_cmd e = c_CHGHOST -> step_ok cfg s r e.
Proof.
  intros Hc.
  assert (Hh : handle_cmd cfg s e = Ok (handle_chghost s e, [])) by (unfold handle_cmd, cmd_is; rewrite Hc; reduce_cmd c_CHGHOST; reflexivity).
  assert (Hr : ref_cmd r e = match e_src e, e_params e with
                             | Some src, [i; h] => upd_user r (s_name src) (fun u => ru_set_ident_host u i h)
                             | _, _ => r end)
    by (unfold ref_cmd, cmdb; rewrite Hc; reduce_cmd c_CHGHOST; reflexivity).
  unfold handle_chghost, src_update in Hh. destruct (e_params e) as [|a [|b [|c l]]].
  - eapply step_noop; try eassumption. destruct (e_src e); exact Hr.
  - eapply step_noop; try eassumption. destruct (e_src e); exact Hr.
  - destruct (e_src e) as [src|].
    + eapply step_user_update; try eassumption; intros u; reflexivity.
    + eapply step_noop; eassumption.
  - eapply step_noop; try eassumption. destruct (e_src e); exact Hr.
Qed.

(* ---------- WHO / WHOX ---------- *)

Lemma trim_left_spaces_cons b x : b <> 32 -> trim_left_spaces (b :: x) = b :: x.
Proof.
  intros Hne. destruct b as [|p]; [reflexivity|].
  do 6 (destruct p as [p|p|]; try reflexivity). congruence.
Qed.

(* the hop-count strip as written agrees with "<digits> SP <realname>" when at most 57 digits precede the space *)
Lemma who_strip_spec : forall x i, (i + (length x - length (drop_digits x)) <= 57)%nat ->
  match drop_digits x with
  | b1 :: rest => (b1 =? 32) && negb (match rest with b2 :: _ => b2 =? 32 | [] => false end)
  | [] => false
  end = true ->
  who_strip x i = who_realname x.
Proof.
  induction x as [|b x IH]; intros i Hi Hd; [discriminate|].
  assert (Hlen : forall y, (length (drop_digits y) <= length y)%nat).
  { clear. induction y as [|c y IHy]; simpl; [lia|]. destruct (is_digit c); simpl; lia. }
  assert (Edd : drop_digits (b :: x) = if is_digit b then drop_digits x else b :: x) by reflexivity.
  assert (Ews : who_strip (b :: x) i = if (b <? 48) || Nat.ltb 57 i then trim_left_spaces x else who_strip x (Datatypes.S i)) by reflexivity.
  unfold who_realname in *. rewrite Ews. rewrite Edd in *. destruct (is_digit b) eqn:Ed.
  - assert (Hb : (b <? 48) = false) by (unfold is_digit in Ed; lia).
    pose proof (Hlen x) as Hlx. cbn [length] in Hi.
    assert (Hi' : Nat.ltb 57 i = false) by (apply PeanoNat.Nat.ltb_ge; lia).
    rewrite Hb, Hi'. cbn [orb]. apply IH; [lia|exact Hd].
  - apply andb_prop in Hd. destruct Hd as [Hb32 Hnext]. apply N.eqb_eq in Hb32. subst b. cbn [N.ltb N.compare Pos.compare Pos.compare_cont orb N.eqb Pos.eqb].
    destruct x as [|c x]; [reflexivity|]. apply trim_left_spaces_cons. apply negb_true_iff in Hnext. lia.
Qed.

Lemma ok_hopreal_strip hr : ok_hopreal hr = true -> who_strip hr 0 = who_realname hr.
Proof.
  unfold ok_hopreal. destruct hr as [|b x]; [discriminate|]. intros H.
  apply andb_prop in H. destruct H as [H H3]. apply andb_prop in H. destruct H as [H1 H2].
  apply who_strip_spec; [|exact H3]. apply PeanoNat.Nat.leb_le in H2. simpl. exact H2.
Qed.

Lemma step_352 : e_cmd e = c_352 -> cmd_ok r e = true -> step_ok cfg s r e.
Proof.
  intros Hc Hok.
  assert (Hh : handle_cmd cfg s e = Ok (handle_who s e, [])) by (unfold handle_cmd, cmd_is; rewrite Hc; reduce_cmd c_352; reflexivity).
  assert (Hr : ref_cmd r e = match e_params e with
    | [_; _; ident; host; _; nick; _; hr] =>
        upd_user r nick (fun u => ru_set_name (ru_set_ident_host u ident host) (who_realname hr))
    | _ => r end) by (unfold ref_cmd, cmdb; rewrite Hc; reduce_cmd c_352; reflexivity).
  unfold cmd_ok, cmdb in Hok. rewrite Hc in Hok. reduce_cmd_in c_352 Hok.
  apply andb_prop in Hok. destruct Hok as [_ Hok].
  unfold handle_who, cmd_is in Hh. rewrite Hc in Hh. reduce_cmd_in c_352 Hh.
  destruct (e_params e) as [|p0 [|p1 [|p2 [|p3 [|p4 [|p5 [|p6 [|p7 [|p8 l]]]]]]]]] eqn:Ep; try discriminate.
  unfold param, last_param in Hh. rewrite Ep in Hh. simpl in Hh.
  rewrite (ok_hopreal_strip _ Hok) in Hh.
  eapply step_user_update; try eassumption; intros u; reflexivity.
Qed.

Lemma step_354 : e_cmd e = c_354 -> cmd_ok r e = true -> step_ok cfg s r e.
Proof.
  intros Hc Hok.
  assert (Hh : handle_cmd cfg s e = Ok (handle_who s e, [])) by (unfold handle_cmd, cmd_is; rewrite Hc; reduce_cmd c_354; reflexivity).
  assert (Hr : ref_cmd r e = match e_params e with
    | [_; _; _; ident; host; nick; acct; real] =>
        upd_user r nick (fun u =>
          ru_set_account (ru_set_name (ru_set_ident_host u ident host) real) (if streqb acct [48] then [] else acct))
    | _ => r end) by (unfold ref_cmd, cmdb; rewrite Hc; reduce_cmd c_354; reflexivity).
  unfold cmd_ok, cmdb in Hok. rewrite Hc in Hok. reduce_cmd_in c_354 Hok.
  apply andb_prop in Hok. destruct Hok as [_ Hok].
  unfold handle_who, cmd_is in Hh. rewrite Hc in Hh. reduce_cmd_in c_354 Hh.
  destruct (e_params e) as [|p0 [|p1 [|p2 [|p3 [|p4 [|p5 [|p6 [|p7 [|p8 l]]]]]]]]] eqn:Ep; try discriminate.
  unfold param, last_param in Hh. rewrite Ep in Hh. simpl in Hh. rewrite Hok in Hh. simpl in Hh.
  eapply step_user_update; try eassumption; intros u; reflexivity.
Qed.

(* ---------- one channel changes, its user list does not ---------- *)

Lemma simchan_users s' k c rc : st_users s' = st_users s -> SimChan s k c rc -> SimChan s' k c rc.
Proof. intros Hu. apply simchan_perm. intros n. unfold abs_perm. rewrite Hu. reflexivity. Qed.

Lemma sim_set_chan name c c' g :
  alookup (fold name) (st_channels s) = Some c ->
  (forall rc, SimChan s (fold name) c rc -> SimChan s (fold name) c' (g rc)) ->
  Sim (set_channels s (aset (fold name) c' (st_channels s))) (upd_chan r name g).
Proof.
  intros Ec Hg. constructor; rproj; try apply S.
  intros k. rewrite alookup_aset, alookup_sm_adjust. change (key name) with (fold name).
  pose proof (sim_chans _ _ S k) as H. destruct (streqb k (fold name)) eqn:Ek.
  - apply streqb_eq in Ek. subst k. rewrite Ec in H. unfold opt_rel in *.
    destruct (alookup (fold name) (r_chans r)) as [rc|]; [|contradiction]. simpl.
    eapply simchan_users; [|apply Hg, H]. reflexivity.
  - unfold opt_rel in *. destruct (alookup k (st_channels s)); destruct (alookup k (r_chans r)); try contradiction; [|exact Logic.I].
    eapply simchan_users; [|exact H]. reflexivity.
Qed.

Lemma fresh_set_chan name c c' :
  alookup (fold name) (st_channels s) = Some c -> classes_of (c_modes c') = classes_of (c_modes c) ->
  Fresh (set_channels s (aset (fold name) c' (st_channels s))).
Proof.
  intros Ec Hcl k c0. unfold chan_modes, user_prefixes. sproj. rewrite alookup_aset.
  destruct (streqb k (fold name)); [|apply F]. intros H; injection H as <-. rewrite Hcl. apply (F _ _ Ec).
Qed.

Lemma topic_go name topic :
  exists s', (match lookup_channel s name with
              | None => s
              | Some c => set_channels s (aset (fold name) (c_set_topic c topic) (st_channels s))
              end) = s' /\ Fresh s' /\ (Inv s' -> Sim s' (ref_gc (ref_topic r name topic))).
Proof.
  unfold lookup_channel. destruct (alookup (fold name) (st_channels s)) as [c|] eqn:Ec; eexists; split; try reflexivity.
  - split; [eapply fresh_set_chan; [exact Ec|reflexivity]|]. intros I'.
    apply sim_gc_of_sim; [exact I'|apply rwf_upd_chan; [intros c0 H; exact H|exact W]|].
    apply (sim_set_chan name c); [exact Ec|]. intros rc [A B C D]. constructor; simpl; try assumption. reflexivity.
  - split; [exact F|]. intros I'. unfold ref_topic, upd_chan.
    rewrite sm_adjust_absent.
    + replace (r_set_chans r (r_chans r)) with r by (destruct r; reflexivity). apply sim_gc_of_sim; assumption.
    + pose proof (sim_chans _ _ S (fold name)) as H. rewrite Ec in H. unfold opt_rel in H.
      change (key name) with (fold name). destruct (alookup (fold name) (r_chans r)); [contradiction|reflexivity].
Qed.

Lemma step_TOPIC : e_cmd e = c_TOPIC -> cmd_ok r e = true -> step_ok cfg s r e.
Proof.
  intros Hc Hok.
  assert (Hh : handle_cmd cfg s e = Ok (handle_topic s e, [])) by (unfold handle_cmd, cmd_is; rewrite Hc; reduce_cmd c_TOPIC; reflexivity).
  assert (Hr : ref_cmd r e = match e_params e with [chan; topic] => ref_topic r chan topic | _ => r end)
    by (unfold ref_cmd, cmdb; rewrite Hc; reduce_cmd c_TOPIC; reflexivity).
  unfold cmd_ok, cmdb in Hok. rewrite Hc in Hok. reduce_cmd_in c_TOPIC Hok.
  apply andb_prop in Hok. destruct Hok as [_ Hok].
  destruct (e_params e) as [|p0 [|p1 [|p2 l]]] eqn:Ep; try discriminate.
  unfold handle_topic in Hh. rewrite Ep in Hh.
  destruct (topic_go p0 p1) as (s' & Hs' & F' & S'). rewrite Hs' in Hh.
  exists s', []. split; [exact Hh|]. split; [exact F'|]. rewrite Hr. exact S'.
Qed.

Lemma step_332 : e_cmd e = c_332 -> cmd_ok r e = true -> step_ok cfg s r e.
Proof.
  intros Hc Hok.
  assert (Hh : handle_cmd cfg s e = Ok (handle_topic s e, [])) by (unfold handle_cmd, cmd_is; rewrite Hc; reduce_cmd c_332; reflexivity).
  assert (Hr : ref_cmd r e = match e_params e with [_; chan; topic] => ref_topic r chan topic | _ => r end)
    by (unfold ref_cmd, cmdb; rewrite Hc; reduce_cmd c_332; reflexivity).
  unfold cmd_ok, cmdb in Hok. rewrite Hc in Hok. reduce_cmd_in c_332 Hok.
  apply andb_prop in Hok. destruct Hok as [_ Hok].
  destruct (e_params e) as [|p0 [|p1 [|p2 [|p3 l]]]] eqn:Ep; try discriminate.
  unfold handle_topic, last_param in Hh. rewrite Ep in Hh. simpl in Hh.
  destruct (topic_go p1 p2) as (s' & Hs' & F' & S'). rewrite Hs' in Hh.
  exists s', []. split; [exact Hh|]. split; [exact F'|]. rewrite Hr. exact S'.
Qed.

(* ---------- scalars ---------- *)

Lemma sim_scalars s' r' :
  st_channels s' = st_channels s -> st_users s' = st_users s -> st_opts s' = st_opts s ->
  r_chans r' = r_chans r -> r_users r' = r_users r -> r_opts r' = r_opts r ->
  r_me r' = st_nick s' -> r_ident r' = st_ident s' -> r_host r' = st_host s' -> r_motd r' = st_motd s' ->
  Sim s' r'.
Proof.
  intros A1 A2 A3 B1 B2 B3 C1 C2 C3 C4. constructor; try assumption.
  - intros k. rewrite A1, B1. pose proof (sim_chans _ _ S k) as H. unfold opt_rel in *.
    destruct (alookup k (st_channels s)); destruct (alookup k (r_chans r)); try contradiction; [|exact Logic.I].
    eapply simchan_users; eassumption.
  - intros k. rewrite A2, B2. apply S.
  - intros k. rewrite A3, B3. apply S.
Qed.

Lemma step_scalars s' r' o :
  handle_cmd cfg s e = Ok (s', o) -> ref_cmd r e = r' ->
  st_channels s' = st_channels s -> st_users s' = st_users s -> st_opts s' = st_opts s ->
  r_chans r' = r_chans r -> r_users r' = r_users r -> r_opts r' = r_opts r ->
  r_me r' = st_nick s' -> r_ident r' = st_ident s' -> r_host r' = st_host s' -> r_motd r' = st_motd s' ->
  step_ok cfg s r e.
Proof.
  intros Hh Hr A1 A2 A3 B1 B2 B3 C1 C2 C3 C4. exists s', o. split; [exact Hh|]. split; [eapply fresh_same; eassumption|].
  intros I'. rewrite Hr. apply sim_gc_of_sim; [exact I'|eapply rwf_scalar; eassumption|]. apply sim_scalars; assumption.
Qed.

Lemma step_001 : e_cmd e = c_001 -> step_ok cfg s r e.
Proof.
  intros Hc.
  assert (Hh : handle_cmd cfg s e = Ok (handle_connect s e, [])) by (unfold handle_cmd, cmd_is; rewrite Hc; reduce_cmd c_001; reflexivity).
  assert (Hr : ref_cmd r e = match e_params e with p0 :: _ => r_set_me r p0 | [] => r end)
    by (unfold ref_cmd, cmdb; rewrite Hc; reduce_cmd c_001; reflexivity).
  unfold handle_connect in Hh. destruct (e_params e) as [|p0 l].
  - eapply step_noop; eassumption.
  - eapply step_scalars; try eassumption; try reflexivity; simpl; apply S.
Qed.

Lemma step_375 : e_cmd e = c_375 -> step_ok cfg s r e.
Proof.
  intros Hc.
  assert (Hh : handle_cmd cfg s e = Ok (handle_motd s e, [])) by (unfold handle_cmd, cmd_is; rewrite Hc; reduce_cmd c_375; reflexivity).
  assert (Hr : ref_cmd r e = r_set_motd r []) by (unfold ref_cmd, cmdb; rewrite Hc; reduce_cmd c_375; reflexivity).
  unfold handle_motd, cmd_is in Hh. rewrite Hc in Hh. reduce_cmd_in c_375 Hh.
  eapply step_scalars; try eassumption; try reflexivity; simpl; apply S.
Qed.

Lemma step_372 : e_cmd e = c_372 -> step_ok cfg s r e.
Proof.
  intros Hc.
  assert (Hh : handle_cmd cfg s e = Ok (handle_motd s e, [])) by (unfold handle_cmd, cmd_is; rewrite Hc; reduce_cmd c_372; reflexivity).
  assert (Hr : ref_cmd r e = r_set_motd r ((match r_motd r with [] => [] | m => m ++ [10] end) ++ last_of e))
    by (unfold ref_cmd, cmdb; rewrite Hc; reduce_cmd c_372; reflexivity).
  unfold handle_motd, cmd_is in Hh. rewrite Hc in Hh. reduce_cmd_in c_372 Hh.
  eapply step_scalars; try eassumption; try reflexivity; simpl; try apply S.
  rewrite (sim_motd _ _ S). reflexivity.
Qed.

(* ---------- server options ---------- *)

Lemma fresh_opts s' :
  st_channels s' = st_channels s ->
  (st_channels s = [] \/
   (alookup opt_CHANMODES (st_opts s') = alookup opt_CHANMODES (st_opts s) /\
    alookup opt_PREFIX (st_opts s') = alookup opt_PREFIX (st_opts s))) ->
  Fresh s'.
Proof.
  intros Hc [He|[H1 H2]] k c.
  - rewrite Hc, He. discriminate.
  - unfold chan_modes, user_prefixes. rewrite Hc, H1, H2. apply F.
Qed.

Lemma sim_opts_update s' ro :
  st_channels s' = st_channels s -> st_users s' = st_users s ->
  st_nick s' = st_nick s -> st_ident s' = st_ident s -> st_host s' = st_host s -> st_motd s' = st_motd s ->
  (forall k, alookup k ro = alookup k (st_opts s')) ->
  Sim s' (r_set_opts r ro).
Proof.
  intros A1 A2 A3 A4 A5 A6 HO. constructor; simpl; rewrite ?A3, ?A4, ?A5, ?A6; try apply S; try exact HO.
  - intros k. rewrite A1. pose proof (sim_chans _ _ S k) as H. unfold opt_rel in *.
    destruct (alookup k (st_channels s)); destruct (alookup k (r_chans r)); try contradiction; [|exact Logic.I].
    eapply simchan_users; eassumption.
  - intros k. rewrite A2. apply S.
Qed.

Lemma step_004 : e_cmd e = c_004 -> cmd_ok r e = true -> step_ok cfg s r e.
Proof.
  intros Hc Hok.
  assert (Hh : handle_cmd cfg s e = Ok (handle_myinfo s e, [])) by (unfold handle_cmd, cmd_is; rewrite Hc; reduce_cmd c_004; reflexivity).
  assert (Hr : ref_cmd r e = match e_params e with
     | _ :: srv :: ver :: _ => r_set_opts r (sm_set k_VERSION ver (sm_set k_SERVER srv (r_opts r))) | _ => r end)
    by (unfold ref_cmd, cmdb; rewrite Hc; reduce_cmd c_004; reflexivity).
  unfold cmd_ok, cmdb in Hok. rewrite Hc in Hok. reduce_cmd_in c_004 Hok.
  apply andb_prop in Hok. destruct Hok as [_ Hok].
  unfold handle_myinfo in Hh. destruct (e_params e) as [|p0 [|p1 [|p2 l]]] eqn:Ep; try discriminate.
  unfold param in Hh. rewrite Ep in Hh. simpl in Hh.
  eexists _, []. split; [exact Hh|]. split.
  - apply fresh_opts; [reflexivity|]. right. sproj. rewrite !alookup_aset. split; reflexivity.
  - intros I'. rewrite Hr. apply sim_gc_of_sim; [exact I'| |].
    + apply rwf_set_opts; [|exact W]. apply ksorted_sm_set, ksorted_sm_set, (wf_opts _ W).
    + apply sim_opts_update; try reflexivity. intros k. sproj.
      rewrite alookup_sm_set by apply ksorted_sm_set, (wf_opts _ W). rewrite alookup_sm_set by apply (wf_opts _ W).
      rewrite !alookup_aset. rewrite (sim_opts _ _ S). reflexivity.
Qed.

(* ISUPPORT tokens *)

Lemma index_byte_before_after c : forall t, memb c t = true ->
  exists j, index_byte c t = Some j /\ before c t = firstn j t /\ after c t = skipn (j + 1) t /\ (j < length t)%nat.
Proof.
  induction t as [|b t IH]; simpl; [discriminate|].
  destruct (b =? c) eqn:E; simpl.
  - intros _. exists 0%nat. repeat split; simpl; lia.
  - intros H. destruct (IH H) as (j & Hj & Hb & Ha & Hl). exists (Datatypes.S j). rewrite Hj. simpl. rewrite Hb, Ha. repeat split. lia.
Qed.

Lemma index_byte_none c : forall t, memb c t = false -> index_byte c t = None.
Proof. induction t as [|b t IH]; simpl; [reflexivity|]. destruct (b =? c); simpl; [discriminate|]. intros H. rewrite IH by exact H. reflexivity. Qed.

Lemma before_absent c : forall t, memb c t = false -> before c t = t.
Proof. induction t as [|b t IH]; simpl; [reflexivity|]. destruct (b =? c); simpl; [discriminate|]. intros H. rewrite IH by exact H. reflexivity. Qed.

Definition token_key (t : str) : str := before 61 t.

Lemma token_one (opts ro : amap str) t : ksorted ro -> (forall k, alookup k ro = alookup k opts) ->
  ok_token r t = true ->
  let opts' := match index_byte 61 t with
               | Some j => if Nat.ltb j 1 then aset t [] opts
                           else aset (firstn j t) (skipn (j + 1) t) opts
               | None => aset t [] opts
               end in
  let ro' := if memb 61 t then sm_set (before 61 t) (after 61 t) ro else sm_set t [] ro in
  ksorted ro' /\ (forall k, alookup k ro' = alookup k opts') /\
  (forall k, k <> token_key t -> alookup k opts' = alookup k opts).
Proof.
  intros Hs HL Hok. unfold ok_token in Hok. destruct t as [|b t]; [discriminate|].
  apply andb_prop in Hok. destruct Hok as [Hb _].
  unfold token_key. destruct (memb 61 (b :: t)) eqn:Em.
  - destruct (index_byte_before_after 61 _ Em) as (j & Hj & Hbf & Haf & Hl). rewrite Hj.
    assert (Hj1 : Nat.ltb j 1 = false).
    { destruct j; [|reflexivity]. simpl in Hj. destruct (b =? 61) eqn:E; [|destruct (index_byte 61 t); discriminate].
      unfold is_alpha, is_upper, is_lower, is_digit in Hb. lia. }
    rewrite Hj1. cbv iota. rewrite Hbf, Haf. split; [apply ksorted_sm_set, Hs|]. split.
    + intros k. rewrite alookup_sm_set by exact Hs. rewrite alookup_aset, HL. reflexivity.
    + intros k Hk. rewrite alookup_aset. apply streqb_neq in Hk. rewrite Hk. reflexivity.
  - rewrite (index_byte_none _ _ Em). rewrite (before_absent _ _ Em). split; [apply ksorted_sm_set, Hs|]. split.
    + intros k. rewrite alookup_sm_set by exact Hs. rewrite alookup_aset, HL. reflexivity.
    + intros k Hk. rewrite alookup_aset. apply streqb_neq in Hk. rewrite Hk. reflexivity.
Qed.

Lemma tokens_all : forall toks (opts ro : amap str), ksorted ro -> (forall k, alookup k ro = alookup k opts) ->
  forallb (ok_token r) (removelast toks) = true ->
  (forall k, alookup k (isupport ro (removelast toks)) = alookup k (isupport_tokens opts toks)) /\
  (forall k, (forall t, In t (removelast toks) -> k <> token_key t) -> alookup k (isupport_tokens opts toks) = alookup k opts).
Proof.
  induction toks as [|t toks IH]; intros opts ro Hs HL Hok.
  - simpl. split; [exact HL|reflexivity].
  - destruct toks as [|t2 toks].
    + simpl. split; [exact HL|reflexivity].
    + change (removelast (t :: t2 :: toks)) with (t :: removelast (t2 :: toks)) in *.
      simpl in Hok. apply andb_prop in Hok. destruct Hok as [Hok1 Hok2].
      destruct (token_one opts ro t Hs HL Hok1) as (Hs' & HL' & Hfr).
      cbn [isupport]. change (isupport_tokens opts (t :: t2 :: toks)) with
        (isupport_tokens (match index_byte 61 t with
               | Some j => if Nat.ltb j 1 then aset t [] opts
                           else aset (firstn j t) (skipn (j + 1) t) opts
               | None => aset t [] opts
               end) (t2 :: toks)).
      destruct (IH _ _ Hs' HL' Hok2) as [IH1 IH2]. split; [exact IH1|].
      intros k Hk. rewrite IH2; [|intros t0 Ht0; apply Hk; right; exact Ht0]. apply Hfr. apply Hk. left; reflexivity.
Qed.

Lemma isupport_fields :
  st_nick (handle_isupport s e) = st_nick s /\ st_ident (handle_isupport s e) = st_ident s /\
  st_host (handle_isupport s e) = st_host s /\ st_motd (handle_isupport s e) = st_motd s /\
  st_channels (handle_isupport s e) = st_channels s /\ st_users (handle_isupport s e) = st_users s /\
  st_opts (handle_isupport s e) =
    (if negb (suffixb this_server (last_param e)) then st_opts s
     else if Nat.ltb (length (e_params e)) 2 then st_opts s
     else isupport_tokens (st_opts s) (tl (e_params e))).
Proof.
  unfold handle_isupport. destruct (negb (suffixb this_server (last_param e))); [repeat split|].
  destruct (Nat.ltb (length (e_params e)) 2); [repeat split|].
  set (s1 := set_opts s (isupport_tokens (st_opts s) (tl (e_params e)))).
  destruct (opt_int s1 k_LINELEN); cbv zeta beta iota;
    match goal with |- context [if ?c then _ else _] => destruct c end; repeat split.
Qed.

Lemma step_005 : e_cmd e = c_005 -> cmd_ok r e = true -> step_ok cfg s r e.
Proof.
  intros Hc Hok.
  assert (Hh : handle_cmd cfg s e = Ok (handle_isupport s e, [])) by (unfold handle_cmd, cmd_is; rewrite Hc; reduce_cmd c_005; reflexivity).
  assert (Hr : ref_cmd r e = match e_params e with _ :: toks => r_set_opts r (isupport (r_opts r) (removelast toks)) | [] => r end)
    by (unfold ref_cmd, cmdb; rewrite Hc; reduce_cmd c_005; reflexivity).
  unfold cmd_ok, cmdb in Hok. rewrite Hc in Hok. reduce_cmd_in c_005 Hok.
  apply andb_prop in Hok. destruct Hok as [_ Hok].
  destruct (e_params e) as [|p0 toks] eqn:Ep; [discriminate|].
  apply andb_prop in Hok. destruct Hok as [Hok Htok]. apply andb_prop in Hok. destruct Hok as [Hlen Hsuf].
  destruct isupport_fields as (E1 & E2 & E3 & E4 & E5 & E6 & E7).
  change this_server with this_server_text in E7. unfold last_param in E7. unfold last_of in Hsuf. rewrite Hsuf in E7. simpl negb in E7. cbv iota in E7.
  rewrite Ep in E7. assert (Hl2 : Nat.ltb (length (p0 :: toks)) 2 = false) by (apply PeanoNat.Nat.ltb_ge; apply PeanoNat.Nat.leb_le; exact Hlen).
  rewrite Hl2 in E7. simpl tl in E7.
  destruct (tokens_all toks (st_opts s) (r_opts r) (wf_opts _ W) (sim_opts _ _ S) Htok) as [T1 T2].
  exists (handle_isupport s e), []. split; [exact Hh|]. split.
  - apply fresh_opts; [exact E5|]. destruct (st_channels s) as [|kc0 l0] eqn:Ech; [left; reflexivity|right].
    assert (Hne : is_nil (r_chans r) = false).
    { pose proof (sim_chans _ _ S (fst kc0)) as H. rewrite Ech in H. destruct kc0 as [k0 c0]. simpl in H. rewrite streqb_refl in H.
      unfold opt_rel in H. destruct (r_chans r); [simpl in H; contradiction|reflexivity]. }
    assert (Hkeys : forall t, In t (removelast toks) -> token_key t <> k_CHANMODES /\ token_key t <> k_PREFIX).
    { intros t Ht. rewrite forallb_forall in Htok. specialize (Htok _ Ht). unfold ok_token in Htok.
      destruct t as [|b t]; [discriminate|]. apply andb_prop in Htok. destruct Htok as [_ Htok]. rewrite Hne in Htok. cbn [orb] in Htok.
      apply negb_true_iff in Htok. apply orb_false_iff in Htok. destruct Htok as [A B]. unfold token_key.
      split; intros Heq; rewrite Heq in *; [rewrite streqb_refl in A|rewrite streqb_refl in B]; discriminate. }
    rewrite E7. split; apply T2; intros t Ht Heq; destruct (Hkeys t Ht) as [A B]; [apply A|apply B]; symmetry; exact Heq.
  - intros I'. rewrite Hr. apply sim_gc_of_sim; [exact I'| |].
    + apply rwf_set_opts; [|exact W]. apply isupport_sorted, (wf_opts _ W).
    + apply sim_opts_update; try assumption. intros k. rewrite E7. apply T1.
Qed.

(* ---------- commands that say nothing about the tracked state ---------- *)

Lemma step_other :
  Forall (fun c => streqb (e_cmd e) c = false) known_cmds -> step_ok cfg s r e.
Proof.
  intros H. unfold known_cmds in H.
  repeat match goal with H : Forall _ (_ :: _) |- _ => let A := fresh "A" in let B := fresh "B" in inversion H as [|? ? A B]; subst; clear H; rename B into H end.
  assert (Hr : ref_cmd r e = r).
  { unfold ref_cmd, cmdb. rewrite A, A0, A1, A2, A3, A4, A5, A6, A7, A8, A9, A10, A11, A12, A13, A14, A15, A16, A17, A18. reflexivity. }
  assert (Hh : exists o, handle_cmd cfg s e = Ok (s, o)).
  { unfold handle_cmd, cmd_is.
    change (bs "001") with c_001. change (bs "JOIN") with c_JOIN. change (bs "PART") with c_PART. change (bs "KICK") with c_KICK.
    change (bs "QUIT") with c_QUIT. change (bs "NICK") with c_NICK. change (bs "353") with c_353. change (bs "MODE") with c_MODE.
    change (bs "324") with c_324. change (bs "352") with c_352. change (bs "354") with c_354. change (bs "TOPIC") with c_TOPIC.
    change (bs "332") with c_332. change (bs "004") with c_004. change (bs "005") with c_005. change (bs "375") with c_375.
    change (bs "372") with c_372. change (bs "CHGHOST") with c_CHGHOST. change (bs "AWAY") with c_AWAY. change (bs "ACCOUNT") with c_ACCOUNT.
    rewrite A, A0, A1, A2, A3, A4, A5, A6, A7, A8, A9, A10, A11, A12, A13, A14, A15, A16, A17, A18. simpl.
    destruct (streqb (e_cmd e) (bs "PING")); eexists; reflexivity. }
  destruct Hh as [o Hh]. eapply step_noop; eassumption.
Qed.

End Cmds.
