(* C04: the simulation relation between the impl-model's state (Model/State.v) and a
   told-state (Spec/NetRef.v), stated through lookups, and its consequences:
   Sim s r /\ RWf r /\ Inv s  ->  abs s = r.  Also dispatch lemmas (which handler / which
   meaning a command selects) and the generic garbage-collection step. *)
Require Import Bytes AMap SMap Names State StateGetters NetRef.
Require Import OrderLemmas AMapLemmas SMapLemmas NamesProofs StateInv NetRefLemmas.
From Coq Require Import Lia Sorting.Sorted.

Definition opt_rel {A B} (R : A -> B -> Prop) (a : option A) (b : option B) : Prop :=
  match a, b with Some x, Some y => R x y | None, None => True | _, _ => False end.

Definition amodes (c : channel) : list (N * str) :=
  List.map (fun m => (m_name m, m_args m)) (cm_modes (c_modes c)).

Record SimChan (s : state) (k : str) (c : channel) (rc : rchan) : Prop := mkSimChan {
  sc_name : rc_name rc = c_name c;
  sc_topic : rc_topic rc = c_topic c;
  sc_modes : rc_modes rc = amodes c;
  sc_members : forall n, alookup n (rc_members rc) = if mem_str n (c_users c) then Some (abs_perm s k n) else None }.

Record Sim (s : state) (r : ref) : Prop := mkSim {
  sim_me : r_me r = st_nick s;
  sim_ident : r_ident r = st_ident s;
  sim_host : r_host r = st_host s;
  sim_motd : r_motd r = st_motd s;
  sim_chans : forall k, opt_rel (SimChan s k) (alookup k (st_channels s)) (alookup k (r_chans r));
  sim_users : forall k, alookup k (r_users r) = option_map abs_user (alookup k (st_users s));
  sim_opts : forall k, alookup k (r_opts r) = alookup k (st_opts s) }.

(* the mode classes a channel was created with are those the server options give now *)
Definition classes_of (cm : cmodes) : str * str * str * str * str * str :=
  (cm_raw cm, cm_list cm, cm_args cm, cm_setargs cm, cm_noargs cm, cm_prefixes cm).
Definition Fresh (s : state) : Prop := forall k c, alookup k (st_channels s) = Some c ->
  classes_of (c_modes c) = classes_of (new_cmodes (chan_modes s) (fst (parse_prefixes (user_prefixes s)))).

Lemma sim_init : Sim state_init ref_init.
Proof. constructor; try reflexivity; intros k; simpl; exact I. Qed.

Lemma fresh_init : Fresh state_init.
Proof. intros k c H. discriminate. Qed.

(* ---- abs is the told-state related to s ---- *)

Lemma sim_abs s : Sim s (abs s).
Proof.
  constructor; try reflexivity; intros k; unfold abs; simpl.
  - rewrite alookup_sm_map, alookup_canon. destruct (alookup k (st_channels s)) as [c|]; simpl; [|exact I].
    constructor; try reflexivity. intros n. simpl. apply alookup_keyed.
  - rewrite alookup_sm_map, alookup_canon. reflexivity.
  - apply alookup_canon.
Qed.

Lemma rchan_eq a b : rc_name a = rc_name b -> rc_topic a = rc_topic b -> rc_modes a = rc_modes b ->
  rc_members a = rc_members b -> a = b.
Proof. destruct a, b; simpl; intros; subst; reflexivity. Qed.

Lemma sim_eq s r : Inv s -> RWf r -> Sim s r -> abs s = r.
Proof.
  intros I W S. destruct r as [me ident host chans users opts motd]. destruct S as [S1 S2 S3 S4 S5 S6 S7]. simpl in *.
  unfold abs. subst. f_equal.
  - apply smap_ext; [apply ksorted_sm_map, ksorted_canon|apply (wf_chans _ W)|].
    intros k. rewrite alookup_sm_map, alookup_canon. specialize (S5 k). unfold opt_rel in S5.
    destruct (alookup k (st_channels s)) as [c|] eqn:Ec; destruct (alookup k chans) as [rc|] eqn:Er; simpl; try contradiction; [|reflexivity].
    f_equal. symmetry. apply rchan_eq; simpl; try apply S5.
    apply smap_ext.
    + apply (wf_members _ W k). simpl. exact Er.
    + unfold ksorted. rewrite keyed_keys. apply (inv_cl I _ _ Ec).
    + intros n. rewrite (sc_members _ _ _ _ S5), alookup_keyed. reflexivity.
  - apply smap_ext; [apply ksorted_sm_map, ksorted_canon|apply (wf_users _ W)|].
    intros k. rewrite alookup_sm_map, alookup_canon. rewrite S6. reflexivity.
  - apply smap_ext; [apply ksorted_canon|apply (wf_opts _ W)|]. intros k. rewrite alookup_canon. symmetry. apply S7.
Qed.

(* ---- users are forgotten exactly when they share no channel ---- *)

Lemma shares_channel_spec chans kn : ksorted chans ->
  (shares_channel chans kn = true <-> exists kc c, alookup kc chans = Some c /\ alookup kn (rc_members c) <> None).
Proof.
  intros Hs. unfold shares_channel. rewrite existsb_exists. split.
  - intros ([kc c] & Hin & H). exists kc, c. split; [apply in_alookup; assumption|]. simpl in H.
    destruct (alookup kn (rc_members c)); [discriminate|discriminate].
  - intros (kc & c & Hc & H). exists (kc, c). split; [apply alookup_in; exact Hc|]. simpl.
    destruct (alookup kn (rc_members c)); [reflexivity|congruence].
Qed.

(* The generic last step: after the command's meaning has been applied, forgetting the
   users that share no channel yields the told-state of the new implementation state,
   provided channels agree and every user the implementation still tracks is told alike. *)
Lemma sim_gc s r : Inv s -> RWf r ->
  r_me r = st_nick s -> r_ident r = st_ident s -> r_host r = st_host s -> r_motd r = st_motd s ->
  (forall k, opt_rel (SimChan s k) (alookup k (st_channels s)) (alookup k (r_chans r))) ->
  (forall k u, alookup k (st_users s) = Some u -> alookup k (r_users r) = Some (abs_user u)) ->
  (forall k, alookup k (r_opts r) = alookup k (st_opts s)) ->
  Sim s (ref_gc r).
Proof.
  intros I W H1 H2 H3 H4 HC HU HO. constructor; try assumption. intros k. unfold ref_gc. simpl.
  rewrite alookup_sm_filter by apply (wf_users _ W).
  destruct (alookup k (st_users s)) as [u|] eqn:Eu; simpl.
  - rewrite (HU _ _ Eu).
    assert (Hsh : shares_channel (r_chans r) k = true).
    { apply shares_channel_spec; [apply (wf_chans _ W)|].
      destruct (inv_ul I _ _ Eu) as [_ Hne]. destruct (u_chans u) as [|cn l] eqn:El; [exfalso; apply Hne; reflexivity|].
      destruct (inv_uc I k u cn Eu) as (c & Hc & Hin); [rewrite El; left; reflexivity|].
      pose proof (HC cn) as HCc. rewrite Hc in HCc. unfold opt_rel in HCc.
      destruct (alookup cn (r_chans r)) as [rc|] eqn:Er; [|contradiction].
      exists cn, rc. split; [exact Er|]. rewrite (sc_members _ _ _ _ HCc).
      apply mem_str_in in Hin. rewrite Hin. discriminate. }
    rewrite Hsh. reflexivity.
  - destruct (alookup k (r_users r)) as [ru|] eqn:Er; [|reflexivity].
    destruct (shares_channel (r_chans r) k) eqn:Hsh; [|reflexivity]. exfalso.
    apply shares_channel_spec in Hsh; [|apply (wf_chans _ W)]. destruct Hsh as (kc & rc & Hrc & Hm).
    pose proof (HC kc) as HCc. rewrite Hrc in HCc. unfold opt_rel in HCc.
    destruct (alookup kc (st_channels s)) as [c|] eqn:Ec; [|contradiction].
    rewrite (sc_members _ _ _ _ HCc) in Hm. destruct (mem_str k (c_users c)) eqn:Em; [|congruence].
    apply mem_str_in in Em. destruct (inv_cu I _ _ _ Ec Em) as (u & Hu & _). congruence.
Qed.

Lemma sim_gc_of_sim s r : Inv s -> RWf r -> Sim s r -> Sim s (ref_gc r).
Proof.
  intros I W S. apply sim_gc; try assumption; try apply S.
  intros k u Hu. rewrite (sim_users _ _ S), Hu. reflexivity.
Qed.

(* ---- dispatch: which handler / which meaning a command selects ---- *)

(* Model/State.v `handle` after its wildcard handler *)
Definition handle_cmd (cfg : config) (s : state) (e : event) : res (state * list out) :=
  let pure (s' : state) : res (state * list out) := Ok (s', []) in
  let lift (r : res state) : res (state * list out) := s' <- r ;; Ok (s', []) in
  if cmd_is e "001" then pure (handle_connect s e)
  else if cmd_is e "PING" then Ok (s, [OutSend s_PONG [last_param e]])
  else if cmd_is e "JOIN" then handle_join cfg s e
  else if cmd_is e "PART" then lift (handle_part cfg s e)
  else if cmd_is e "KICK" then lift (handle_kick cfg s e)
  else if cmd_is e "QUIT" then lift (handle_quit cfg s e)
  else if cmd_is e "NICK" then lift (handle_nick s e)
  else if cmd_is e "353" then pure (handle_names s e)
  else if cmd_is e "MODE" || cmd_is e "324" then pure (handle_mode s e)
  else if cmd_is e "352" || cmd_is e "354" then pure (handle_who s e)
  else if cmd_is e "TOPIC" || cmd_is e "332" then pure (handle_topic s e)
  else if cmd_is e "004" then pure (handle_myinfo s e)
  else if cmd_is e "005" then pure (handle_isupport s e)
  else if cmd_is e "375" || cmd_is e "372" then pure (handle_motd s e)
  else if cmd_is e "CHGHOST" then pure (handle_chghost s e)
  else if cmd_is e "AWAY" then pure (handle_away s e)
  else if cmd_is e "ACCOUNT" then pure (handle_account s e)
  else pure s.

Lemma handle_split cfg s e : handle cfg s e = handle_cmd cfg (handle_tags s e) e.
Proof. reflexivity. Qed.

(* the commands with a meaning of their own *)
Definition known_cmds : list str :=
  [c_001; c_JOIN; c_PART; c_KICK; c_QUIT; c_NICK; c_353; c_MODE; c_324; c_TOPIC; c_332; c_352; c_354;
   c_AWAY; c_ACCOUNT; c_CHGHOST; c_004; c_005; c_375; c_372].

Ltac rproj := cbn [r_me r_ident r_host r_chans r_users r_opts r_motd
  r_set_me r_set_ident_host r_set_chans r_set_users r_set_opts r_set_motd upd_user upd_chan] in *; sproj.

Ltac reduce_cmd c :=
  repeat match goal with
  | |- context [streqb c ?b] => let v := eval vm_compute in (streqb c b) in change (streqb c b) with v
  end; cbv beta iota delta [orb].
Ltac reduce_cmd_in c H :=
  repeat match type of H with
  | context [streqb c ?b] => let v := eval vm_compute in (streqb c b) in change (streqb c b) with v in H
  end; cbv beta iota delta [orb] in H.

(* what one command has to establish *)
Definition step_ok (cfg : config) (s : state) (r : ref) (e : event) : Prop :=
  exists s' o, handle_cmd cfg s e = Ok (s', o) /\ Fresh s' /\ (Inv s' -> Sim s' (ref_gc (ref_cmd r e))).

(* ---- updates of one user's fields ---- *)

Lemma fresh_same s s' : st_channels s' = st_channels s -> st_opts s' = st_opts s -> Fresh s -> Fresh s'.
Proof. intros Hc Ho F k c. unfold chan_modes, user_prefixes. rewrite Hc, Ho. apply F. Qed.

Lemma update_user_fields s n f :
  st_nick (update_user s n f) = st_nick s /\ st_ident (update_user s n f) = st_ident s /\
  st_host (update_user s n f) = st_host s /\ st_motd (update_user s n f) = st_motd s /\
  st_channels (update_user s n f) = st_channels s /\ st_opts (update_user s n f) = st_opts s.
Proof. unfold update_user. destruct (lookup_user s n); repeat split; reflexivity. Qed.

Lemma update_user_lookup s n f k :
  alookup k (st_users (update_user s n f)) =
  if streqb k (fold n) then option_map f (alookup k (st_users s)) else alookup k (st_users s).
Proof.
  unfold update_user, lookup_user. destruct (alookup (fold n) (st_users s)) as [u|] eqn:E; sproj.
  - rewrite alookup_aset. destruct (streqb k (fold n)) eqn:Ek; [|reflexivity].
    apply streqb_eq in Ek. subst k. rewrite E. reflexivity.
  - destruct (streqb k (fold n)) eqn:Ek; [|reflexivity]. apply streqb_eq in Ek. subst k. rewrite E. reflexivity.
Qed.

Lemma abs_perm_update_user s n f kc kn : (forall u, u_perms (f u) = u_perms u) ->
  abs_perm (update_user s n f) kc kn = abs_perm s kc kn.
Proof.
  intros Hp. unfold abs_perm. rewrite update_user_lookup.
  destruct (streqb kn (fold n)); [|reflexivity]. destruct (alookup kn (st_users s)); simpl; [rewrite Hp|]; reflexivity.
Qed.

Lemma simchan_perm s s' k c rc : (forall n, abs_perm s' k n = abs_perm s k n) -> SimChan s k c rc -> SimChan s' k c rc.
Proof. intros Hp [A B C D]. constructor; try assumption. intros n. rewrite D, Hp. reflexivity. Qed.

Lemma sim_update_user s r n f g : Sim s r ->
  (forall u, abs_user (f u) = g (abs_user u)) -> (forall u, u_perms (f u) = u_perms u) ->
  Sim (update_user s n f) (upd_user r n g).
Proof.
  intros S Hfg Hp. destruct (update_user_fields s n f) as (E1 & E2 & E3 & E4 & E5 & E6).
  constructor; unfold upd_user; simpl; rewrite ?E1, ?E2, ?E3, ?E4, ?E6; try apply S.
  - intros k. rewrite E5. pose proof (sim_chans _ _ S k) as H. unfold opt_rel in *.
    destruct (alookup k (st_channels s)); destruct (alookup k (r_chans r)); try contradiction; [|exact I].
    eapply simchan_perm; [|exact H]. intros n0. apply abs_perm_update_user, Hp.
  - intros k. rewrite alookup_sm_adjust, update_user_lookup. change (key n) with (fold n).
    destruct (streqb k (fold n)); [|apply S]. rewrite (sim_users _ _ S).
    destruct (alookup k (st_users s)); simpl; [rewrite Hfg|]; reflexivity.
Qed.

Lemma fresh_update_user s n f : Fresh s -> Fresh (update_user s n f).
Proof. destruct (update_user_fields s n f) as (_ & _ & _ & _ & E5 & E6). apply fresh_same; assumption. Qed.

Lemma step_user_update cfg s r e n f g : Sim s r -> RWf r -> Fresh s ->
  handle_cmd cfg s e = Ok (update_user s n f, []) -> ref_cmd r e = upd_user r n g ->
  (forall u, abs_user (f u) = g (abs_user u)) -> (forall u, u_perms (f u) = u_perms u) ->
  step_ok cfg s r e.
Proof.
  intros S W F Hh Hr Hfg Hp. exists (update_user s n f), []. split; [exact Hh|]. split; [apply fresh_update_user, F|].
  intros I'. rewrite Hr. apply sim_gc_of_sim; [exact I'|apply rwf_upd_user, W|]. apply sim_update_user; assumption.
Qed.

(* nothing changes *)
Lemma step_noop cfg s r e o : Sim s r -> RWf r -> Fresh s ->
  handle_cmd cfg s e = Ok (s, o) -> ref_cmd r e = r -> step_ok cfg s r e.
Proof.
  intros S W F Hh Hr. exists s, o. split; [exact Hh|]. split; [exact F|]. intros I'. rewrite Hr.
  apply sim_gc_of_sim; assumption.
Qed.

(* the account tag *)
Lemma tag_sim s r e : Sim s r -> Sim (handle_tags s e) (ref_tag r e).
Proof.
  intros S. unfold handle_tags, ref_tag. destruct (e_src e) as [src|]; [|exact S]. destruct (e_account_tag e) as [a|]; [|exact S].
  apply sim_update_user; [exact S| |]; intros u; reflexivity.
Qed.

Lemma tag_fresh s e : Fresh s -> Fresh (handle_tags s e).
Proof. intros F. unfold handle_tags. destruct (e_src e); [|exact F]. destruct (e_account_tag e); [|exact F]. apply fresh_update_user, F. Qed.

Lemma tag_inv s e : Inv s -> Inv (handle_tags s e).
Proof.
  intros I. unfold handle_tags. destruct (e_src e); [|exact I]. destruct (e_account_tag e); [|exact I].
  eapply same_struct_inv; [apply update_user_same|exact I]. intros u; split; reflexivity.
Qed.
